import NunavutVerif.Lemmas.ConfigCtx
import NunavutVerif.Lemmas.ConfigHeap
import NunavutVerif.Properties.C13
import NunavutVerif.Gen.CppDefaults
import NunavutVerif.Gen.LangTable
/-!
# C13, second part — contexts, access paths, process histories, YAML-level glue

Property theorems only.  Definitions: `Model/ConfigCtx.lean`; helper lemmas: `Lemmas/ConfigCtx.lean`; tables regenerated
from the source by `translate/langtable.py`: `Gen/LangTable.lean`.

* H  "all sequences of builders created in one process": what a builder and its contexts answer depends on the calls
     addressed to that builder and on what the files hold when it reads them — on nothing else that happened in the
     process;
* A  every access path of a context (`ctx.config`, `get_target_language()`, `get_language(x)` / `ln.<x>`,
     `get_supported_languages()`) reports, for every language — target or not — the effective value of the
     configuration of the context's own builder; the lazily built language map;
* B  `create()` validates / expands the C++ shorthand on the fully merged configuration;
* Y  YAML-level glue: repeated keys, the identity on ordinary documents, the shape of the shipped documents.
-/
namespace NunavutVerif.Config

variable {κ σ : Type} [DecidableEq κ]

/-! ## H  process histories -/

/-- **A builder is immune to the history of the process.**  In any history (file writes, any number of builders
and contexts, reads through any access path, calls that raise) the answers to the calls that concern builder `b`
— everything addressed to `b` or to a context `b` created, and the file system — are the answers the same calls
get in the history from which every call to every *other* builder has been erased; the state of `b` and the file
system are the same as well.  In particular no earlier or later builder, no earlier reader of a file, no language map
built elsewhere can be observed through `b`. -/
theorem C13_process_history_independent (P : PEnv κ σ) (b : Nat) (p : Proc κ σ) (ops : List (POp κ σ)) :
    Proc.answersFor P b p ops = (Proc.run P p (ops.filter (POp.concerns b))).2 ∧
    alook (Proc.run P p ops).1.bs b = alook (Proc.run P p (ops.filter (POp.concerns b))).1.bs b ∧
    (Proc.run P p ops).1.fs = (Proc.run P p (ops.filter (POp.concerns b))).1.fs := by
  obtain ⟨⟨h1, h2⟩, h3⟩ := history_independent P b ops p p (Proc.Agree.refl b p)
  exact ⟨h3, h2, h1⟩

/-- **A named file is read when `add_config_files` is called**: after `write path doc`, `add_config_files(path)`
merges `doc` — whatever the path held before, whoever read it before.  Two processes in which builder `b` is in
the same state, with arbitrary and different file systems and other builders, answer alike and leave `b` alike. -/
theorem C13_file_is_read_at_call_time (P : PEnv κ σ) (b path : Nat) (doc : V κ σ) (p q : Proc κ σ)
    (h : alook p.bs b = alook q.bs b) :
    let p' := ((p.step P (.write path doc)).1.step P (.addFiles b [path]))
    let q' := ((q.step P (.write path doc)).1.step P (.addFiles b [path]))
    alook p'.1.bs b = alook q'.1.bs b ∧ p'.2 = q'.2 := by
  simp only [Proc.step, List.map_cons, List.map_nil, alook_aset_self]
  obtain ⟨h1, h2, _, _⟩ := onBuilder_same { p with fs := aset p.fs path doc } { q with fs := aset q.fs path doc } b
    (fun s => match readFiles P.valid s.b.config [some doc] with
      | .ok c => .ok ({ s with b := { s.b with config := c } }, .unit)
      | .error e => .error e) h
  exact ⟨h1, h2⟩

/-- … and what is merged is the document just written: the call is `LanguageConfig.update(doc)` on the builder's
own configuration. -/
theorem C13_file_read_merges_current_content (P : PEnv κ σ) (b path : Nat) (doc : V κ σ) (p : Proc κ σ) (s : BS κ σ)
    (hs : alook p.bs b = some s) (hd : s.dead = false) :
    alook ((p.step P (.write path doc)).1.step P (.addFiles b [path])).1.bs b =
      some (match update P.valid s.b.config doc with
        | .ok c => { s with b := { s.b with config := c } }
        | .error _ => { s with dead := true }) := by
  simp only [Proc.step, List.map_cons, List.map_nil, alook_aset_self, Proc.onBuilder, hs, hd, readFiles]
  cases update P.valid s.b.config doc with
  | ok c => simp [alook_aset_self]
  | error e => simp [alook_aset_self]

/-! ## A  access paths -/

/-- **Every access path tells the same.**  In a context whose language map exists, for every language `name` of
the map — the target or any other — with language object `obj`:
* `get_language(name).get_config_value(key)` (`ln.<name>.<global>`) is `ctx.config`'s entry of section `name`;
* `get_language(name).get_option(key)` (`ln.<name>.options.<key>`) is the `options` entry of that section of
  `ctx.config`, unless the section had no `options` mapping when the object was constructed: then the object
  reports its private validated `{}` (`o`) and `ctx.config` has nothing to report;
* for the target, `get_target_language()` is the object of the map.
None of these reads changes the state. -/
theorem C13_access_paths_agree (P : PEnv κ σ) (s : BS κ σ) (j : Nat) (cx : CtxS κ σ) (os : List (LangObj κ σ))
    (name key : κ) (obj : LangObj κ σ)
    (hc : alook s.ctxs j = some cx) (hf : cx.langs = some os) (hfind : cx.find os name = some obj) :
    s.read P j (.langValue name key) = s.read P j (.cfgValue name key) ∧
    (obj.own = none → s.read P j (.langOption name key) = s.read P j (.cfgOption name key)) ∧
    (∀ o, obj.own = some o → s.read P j (.langOption name key) = .ok (s, .val (o.get key))) ∧
    (name = cx.target.sect →
      s.read P j (.tgtValue key) = s.read P j (.langValue name key) ∧
      s.read P j (.tgtOption key) = s.read P j (.langOption name key)) := by
  have hsect : obj.sect = name := by
    unfold CtxS.find at hfind
    by_cases ht : name = cx.target.sect
    · simp only [ht, if_true, Option.some.injEq] at hfind
      rw [← hfind, ht]
    · simp only [ht, if_false] at hfind
      simpa using List.find?_some hfind
  have hforce : s.force P j = .ok (s, cx, os) := by simp [BS.force, hc, hf]
  refine ⟨?_, ?_, ?_, ?_⟩
  · simp [BS.read, hc, hforce, hfind, hsect]
  · intro ho
    simp [BS.read, hc, hforce, hfind, LangObj.option, ho, hsect]
  · intro o ho
    simp [BS.read, hc, hforce, hfind, LangObj.option, ho]
  · intro ht
    subst ht
    have hobj : obj = cx.target := by
      unfold CtxS.find at hfind
      simpa using hfind.symm
    subst hobj
    simp [BS.read, hc, hforce, hfind]

/-- **Using a context is read-only.**  Once the language map exists, no read through any access path changes the
builder's configuration, its pending overrides or any context: whatever is done *with* a context (stropping, templates —
all of it goes through these reads) leaves every reported value, list-valued ones included, what the merge made it.
(Lists are leaves of the model — values, not objects.  The code assigns a list leaf by reference: the configuration's
`reserved_identifiers` list IS the list object of the override document.  The model is faithful exactly as long as
nothing behind a context operates on such a list in place; the correspondence re-reads every list-valued key and every
caller-owned override document after identifiers were stropped in every language and a template was rendered.) -/
theorem C13_using_a_context_is_read_only (P : PEnv κ σ) (s s' : BS κ σ) (j : Nat) (cx : CtxS κ σ)
    (os : List (LangObj κ σ)) (a : Access κ) (r : Ans κ σ)
    (hc : alook s.ctxs j = some cx) (hf : cx.langs = some os) (h : s.read P j a = .ok (s', r)) : s' = s := by
  have hforce : s.force P j = .ok (s, cx, os) := by simp [BS.force, hc, hf]
  cases a with
  | cfgValue sect key => simp only [BS.read, hc, Except.ok.injEq, Prod.mk.injEq] at h; exact h.1.symm
  | cfgOption sect key => simp only [BS.read, hc, Except.ok.injEq, Prod.mk.injEq] at h; exact h.1.symm
  | tgtValue key => simp only [BS.read, hc, Except.ok.injEq, Prod.mk.injEq] at h; exact h.1.symm
  | tgtOption key => simp only [BS.read, hc, Except.ok.injEq, Prod.mk.injEq] at h; exact h.1.symm
  | langValue name key =>
    simp only [BS.read, hc, hforce] at h
    cases hfd : cx.find os name <;> simp only [hfd, Except.ok.injEq, Prod.mk.injEq] at h <;> exact h.1.symm
  | langOption name key =>
    simp only [BS.read, hc, hforce] at h
    cases hfd : cx.find os name <;> simp only [hfd, Except.ok.injEq, Prod.mk.injEq] at h <;> exact h.1.symm
  | names => simp only [BS.read, hc, hforce, Except.ok.injEq, Prod.mk.injEq] at h; exact h.1.symm

/-- **What the language map holds, for every language.**  Building the map of a context over a configuration `c`
(no repeated section names) constructs each non-target language on its own section and touches nothing else:
* the target's section and every unknown name are as before;
* for every other section `l` (`sec` before): the section afterwards is `sec'` with `Language.__init__` (`initSection`)
  applied to `sec` — once, on the builder's own configuration;
* every object in the map stems from exactly that construction, and every stable (or experimental-and-enabled)
  language is in the map. -/
theorem C13_language_map_sections (E : LangEnv κ σ) (exp : Bool) (t : κ) (c c' : M κ σ) (os : List (LangObj κ σ))
    (hn : c.NoDupKeys) (h : buildMap E exp t c c.keys = .ok (c', os)) :
    c'.get t = c.get t ∧
    (∀ l, c.get l = none → c'.get l = none) ∧
    (∀ obj ∈ os, obj.sect ≠ t ∧ ∃ sec sec', c.get obj.sect = some (.map sec) ∧
        initSection E obj.sect sec = .ok (sec', obj.own) ∧ c'.get obj.sect = some (.map sec')) ∧
    (∀ l sec, l ≠ t → c.get l = some (.map sec) → ∃ sec' own, initSection E l sec = .ok (sec', own) ∧
        c'.get l = some (.map sec') ∧ ((E.stable sec' || exp) = true → (⟨l, own⟩ : LangObj κ σ) ∈ os)) := by
  obtain ⟨i1, i2, i3⟩ := buildMap_spec E exp t c.keys c c' os (keys_nodup c hn) h
  refine ⟨i1 t (.inr rfl), ?_, ?_, ?_⟩
  · intro l hl
    rw [i1 l (.inl (fun hm => by have := (mem_keys c l).mp hm; simp [hl] at this)), hl]
  · intro obj ho
    obtain ⟨_, b, c⟩ := i2 obj ho
    exact ⟨b, c⟩
  · intro l sec hne hg
    obtain ⟨sec2, sec', own, g2, ini, fin, mem⟩ := i3 l ((mem_keys c l).mpr (by simp [hg])) hne
    rw [hg] at g2
    cases g2
    exact ⟨sec', own, ini, fin, mem⟩

/-- **The effective option of a non-target language**: what `get_language(l).get_option(key)` reports in a context
is the validated options of section `l` of the context's own builder configuration — `_validate_language_options`
applied to the `defaults` and `options` the merged configuration holds for `l` (`{}` where it holds none), e.g. the C++
shorthand group expanded on the `std` the builder's files gave. -/
theorem C13_effective_option_of_every_language (E : LangEnv κ σ) (exp : Bool) (t : κ) (c c' : M κ σ)
    (os : List (LangObj κ σ)) (hn : c.NoDupKeys) (h : buildMap E exp t c c.keys = .ok (c', os))
    (obj : LangObj κ σ) (ho : obj ∈ os) (key : κ) :
    ∃ sec o', c.get obj.sect = some (.map sec) ∧
      E.validateOptions obj.sect ((dictOr sec E.defaults).getD .nil) ((dictOr sec E.options).getD .nil) = .ok o' ∧
      obj.option E c' key = o'.get key := by
  obtain ⟨_, _, i2, _⟩ := C13_language_map_sections E exp t c c' os hn h
  obtain ⟨_, sec, sec', hg, hi, hfin⟩ := i2 obj ho
  obtain ⟨o', hv, hopt⟩ := option_after_init E c' obj.sect sec sec' obj.own hi hfin key
  exact ⟨sec, o', hg, hv, by cases obj; exact hopt⟩

/-- **The lazily built map is not observable** through the language objects, the target language or the target's
section of `ctx.config`: if building the map of context `j` succeeds (`force`), every sequence of such reads gets the same
answers whether the map is built on first use, somewhere in the middle of the sequence, or had been built beforehand.
(`lazySafe` excludes exactly one kind of read: a direct look into `ctx.config` at the section of a language other than the
target — see the witness below.) -/
theorem C13_lazy_language_map_unobservable (P : PEnv κ σ) (s s' : BS κ σ) (j : Nat) (cx : CtxS κ σ)
    (os : List (LangObj κ σ)) (hc : alook s.ctxs j = some cx) (hl : cx.langs = none)
    (hf : s.force P j = .ok (s', cx, os)) (as : List (Access κ)) (hsafe : ∀ a ∈ as, a.lazySafe cx.target.sect = true) :
    s.readAll P j as = s'.readAll P j as := by
  -- what `force` did
  simp only [BS.force, hc, hl] at hf
  cases hb : buildMap P.E s.exp cx.target.sect s.b.config s.b.config.keys with
  | error e => simp [hb] at hf
  | ok r =>
    obtain ⟨c', os'⟩ := r
    simp only [hb, Except.ok.injEq, Prod.mk.injEq, true_and] at hf
    obtain ⟨hs', hos⟩ := hf
    subst hos
    obtain ⟨ht, _, _⟩ := buildMap_spec' hb
    have hc' : alook s'.ctxs j = some { cx with langs := some os' } := by rw [← hs']; simp [alook_aset_self]
    have hforce' : s'.force P j = .ok (s', { cx with langs := some os' }, os') := by simp [BS.force, hc']
    have hforce : s.force P j = .ok (s', cx, os') := by simp [BS.force, hc, hl, hb, hs']
    have hcfg : s'.b.config = c' := by rw [← hs']
    have hraw : ∀ key, rawOf s'.b.config cx.target.sect key = rawOf s.b.config cx.target.sect key := by
      intro key; simp [rawOf, hcfg, ht]
    have hopt : ∀ key, cx.target.option P.E s'.b.config key = cx.target.option P.E s.b.config key := by
      intro key; simp [LangObj.option, optionOf, hcfg, ht]
    have hfind : ∀ name, ({ cx with langs := some os' } : CtxS κ σ).find os' name = cx.find os' name := fun _ => rfl
    induction as with
    | nil => rfl
    | cons a as ih =>
      have hrest := ih (fun x hx => hsafe x (List.mem_cons_of_mem _ hx))
      have ha := hsafe a List.mem_cons_self
      cases a with
      | cfgValue sect key =>
        have : sect = cx.target.sect := by simpa [Access.lazySafe] using ha
        subst this
        simp [BS.readAll, BS.read, hc, hc', hraw, hrest]
      | cfgOption sect key =>
        have : sect = cx.target.sect := by simpa [Access.lazySafe] using ha
        subst this
        have := hopt key
        simp only [LangObj.option] at this
        simp [BS.readAll, BS.read, hc, hc', hrest, optionOf, hcfg, ht]
      | tgtValue key => simp [BS.readAll, BS.read, hc, hc', hraw, hrest]
      | tgtOption key => simp [BS.readAll, BS.read, hc, hc', hopt, hrest]
      | langValue name key =>
        simp only [BS.readAll, BS.read, hc, hc', hforce, hforce', hfind]
      | langOption name key =>
        simp only [BS.readAll, BS.read, hc, hc', hforce, hforce', hfind]
      | names => simp [BS.readAll, BS.read, hc, hc', hforce, hforce']
where
  buildMap_spec' {E : LangEnv κ σ} {exp : Bool} {t : κ} {c c' : M κ σ} {os : List (LangObj κ σ)}
      (h : buildMap E exp t c c.keys = .ok (c', os)) : c'.get t = c.get t ∧ True ∧ True := by
    refine ⟨?_, trivial, trivial⟩
    -- the target's section is never written, whatever the list of names
    have : ∀ (ls : List κ) (c c' : M κ σ) (os : List (LangObj κ σ)),
        buildMap E exp t c ls = .ok (c', os) → c'.get t = c.get t := by
      intro ls
      induction ls with
      | nil => intro c c' os h; simp only [buildMap, Except.ok.injEq, Prod.mk.injEq] at h; rw [h.1]
      | cons l ls ih =>
        intro c c' os h
        by_cases hlt : l = t
        · simp only [buildMap, hlt, if_true] at h; exact ih c c' os h
        · simp only [buildMap, hlt, if_false] at h
          cases hnl : newLanguage E exp c l with
          | error e => simp [hnl] at h
          | ok r =>
            obtain ⟨c1, obj, keep⟩ := r
            simp only [hnl] at h
            cases hb : buildMap E exp t c1 ls with
            | error e => simp [hb] at h
            | ok r2 =>
              obtain ⟨c2, os2⟩ := r2
              simp only [hb, Except.ok.injEq, Prod.mk.injEq] at h
              obtain ⟨_, _, _, _, _, hc1, _⟩ := newLanguage_spec E exp c c1 l obj keep hnl
              rw [← h.1, ih c1 c2 os2 hb, hc1, M.get_set_ne _ _ hlt]
    exact this _ _ _ _ h

/-! ## B  `create()`: validation sees the merged configuration -/

/-- `create()` = resolve the target, merge the pending overrides into its section (`Builder.create`, see
`C13_builder_create_config`), and only then construct the target language: `Language.__init__` (`initSection`:
`_validate_language_options`, C++ shorthand expansion) runs on the section *as merged* — built-in, files, overrides.
The new context's language map is not built; pending overrides stay pending. -/
theorem C13_create_validates_merged_configuration (P : PEnv κ σ) (s s' : BS κ σ) (j : Nat)
    (h : s.create P j = .ok s') :
    ∃ sec sec' own, (s.b.create P.resolve).config.get (s.targetOf P) = some (.map sec) ∧
      initSection P.E (s.targetOf P) sec = .ok (sec', own) ∧
      s'.b.config = (s.b.create P.resolve).config.set (s.targetOf P) (.map sec') ∧
      alook s'.ctxs j = some ⟨⟨s.targetOf P, own⟩, none⟩ ∧ s'.b.overrides = s.b.overrides := by
  unfold BS.create at h
  cases hnl : newLanguage P.E s.exp (s.b.create P.resolve).config (s.targetOf P) with
  | error e => simp [hnl] at h
  | ok r =>
    obtain ⟨c1, obj, keep⟩ := r
    obtain ⟨sec, sec', hg, hi, hsect, hc1, _⟩ := newLanguage_spec _ _ _ _ _ _ _ hnl
    cases keep with
    | false => simp [hnl] at h
    | true =>
      simp only [hnl, Except.ok.injEq] at h
      subst h
      have : obj = ⟨s.targetOf P, obj.own⟩ := by cases obj; simp_all
      refine ⟨sec, sec', obj.own, hg, hi, by simp [hc1], ?_, rfl⟩
      simp only [alook_aset_self]
      rw [← this]

/-- **The effective option of the target language**: what `get_target_language().get_option(key)` (the `options`
global of the templates) reports right after `create()` is `_validate_language_options` applied to the `defaults` and
`options` of the target's section of the merged configuration (built-in, files in call order, overrides). -/
theorem C13_effective_option_of_target (P : PEnv κ σ) (s s' : BS κ σ) (j : Nat) (key : κ)
    (h : s.create P j = .ok s') :
    ∃ sec o' cx, (s.b.create P.resolve).config.get (s.targetOf P) = some (.map sec) ∧
      P.E.validateOptions (s.targetOf P) ((dictOr sec P.E.defaults).getD .nil) ((dictOr sec P.E.options).getD .nil) = .ok o' ∧
      alook s'.ctxs j = some cx ∧ cx.target.sect = s.targetOf P ∧
      s'.read P j (.tgtOption key) = .ok (s', .val (o'.get key)) := by
  obtain ⟨sec, sec', own, hg, hi, hcfg, hctx, _⟩ := C13_create_validates_merged_configuration P s s' j h
  have hfin : s'.b.config.get (s.targetOf P) = some (.map sec') := by rw [hcfg, M.get_set_self]
  obtain ⟨o', hv, hopt⟩ := option_after_init P.E s'.b.config (s.targetOf P) sec sec' own hi hfin key
  exact ⟨sec, o', _, hg, hv, hctx, rfl, by simp [BS.read, hctx, hopt]⟩

/-- … in particular an explicit value given through the API / command line is what the validation sees: at every
path where the pending overrides hold an explicit leaf, the section handed to `Language.__init__` holds that leaf
(whatever the files said).  A shorthand `std` given as an override is therefore expanded, and expanded as given. -/
theorem C13_validation_sees_explicit_overrides (P : PEnv κ σ) (s s' : BS κ σ) (j : Nat) (l : κ) (p : List κ)
    (v : V κ σ) (hl : s.b.lang = some l) (hw : s.b.overrides.WF) (hp : p ≠ [])
    (hv : (V.map s.b.overrides).getPath p = some v) (he : v.isExplicitLeaf = true)
    (h : s.create P j = .ok s') :
    ∃ sec sec' own, (s.b.create P.resolve).config.get l = some (.map sec) ∧ (V.map sec).getPath p = some v ∧
      initSection P.E l sec = .ok (sec', own) ∧ s'.b.config.get l = some (.map sec') := by
  obtain ⟨sec, sec', own, hg, hi, hcfg, _, _⟩ := C13_create_validates_merged_configuration P s s' j h
  have ht : s.targetOf P = l := by simp [BS.targetOf, hl]
  rw [ht] at hg hi hcfg
  have := C13_create_explicit_override_wins P.resolve s.b l p v hl hw hp hv he
  rw [getPath_map_cons, hg] at this
  exact ⟨sec, sec', own, hg, by simpa using this, hi, by rw [hcfg, M.get_set_self]⟩

/-- **The shorthand expansion depends on the merged options only** — not on the route by which `std` (or any other
option) arrived: option sets that answer every lookup alike (as the merged configurations do when the same shorthand
comes from a file, from the API or from the command line, by `C13_precedence`) expand to option sets that answer every
lookup alike, and fail alike. -/
theorem C13_shorthand_depends_on_merged_options_only (stdKey : κ) (nameKey : σ → κ) (defaults o₁ o₂ : M κ σ)
    (hd : ∀ g gm, defaults.get g = some (.map gm) → gm.NoDupKeys) (h : ∀ k, o₁.get k = o₂.get k) :
    match applyStdDefaults stdKey nameKey defaults o₁, applyStdDefaults stdKey nameKey defaults o₂ with
    | .ok r₁, .ok r₂ => ∀ k, r₁.get k = r₂.get k
    | .error e₁, .error e₂ => e₁ = e₂
    | _, _ => False := by
  unfold applyStdDefaults
  rw [← h stdKey]
  cases o₁.get stdKey with
  | none => simp
  | some sv =>
    simp only
    cases stdName sv with
    | error e => simp
    | ok name =>
      simp only
      cases hg : defaults.get (nameKey name) with
      | none => simpa using h
      | some gv =>
        cases gv with
        | map g =>
          simp only
          intro k
          rw [get_dictUpdate g o₁ k (hd _ _ hg), get_dictUpdate g o₂ k (hd _ _ hg), h k]
        | scalar _ => simp
        | dflt _ => simp
        | list _ => simp

/-- The source, regenerated: `create()` calls `update_section` before it constructs the target language, the language
map is filled by the builder's own `_new_language_w_experimental_handling` only, `update_from_yaml_file` parses the
stream it is given on every call and hands the result to `update`, and the anchor modules keep no module- or class-level
container (the model has no process-wide state besides the file system). -/
theorem C13_source_structure :
    (Gen.createCalls.idxOf "self.config.update_section" < Gen.createCalls.idxOf "self._new_language_w_experimental_handling" ∧
      Gen.createCalls.idxOf "self._new_language_w_experimental_handling" < Gen.createCalls.length ∧
      Gen.createCalls.count "self._new_language_w_experimental_handling" = 1 ∧
      Gen.createCalls.count "self.config.update_section" = 1) ∧
    Gen.languageMapSources = ["init:target_language", "entry:self._new_language_w_experimental_handling"] ∧
    (Gen.yamlFileParse = "yaml.load" ∧ Gen.yamlFileThen = ["self.update(configuration)"]) ∧
    Gen.processState = [] := by decide

/-! ## Y  YAML-level glue -/

/-- **Repeated keys in one YAML mapping: the last occurrence wins** (PyYAML's constructor assigns pair after pair
into one `dict`), at every depth; a key that does not occur keeps what was there. -/
theorem C13_yaml_repeated_key_last_wins (m acc : M κ σ) (k : κ) :
    (normM acc m).get k = match m.getLast k with
      | some v => some (normV v)
      | none => acc.get k :=
  get_normM m acc k

/-- What the constructor returns is a `dict` (no repeated key at any depth) — the hypothesis `M.WF` of the merge
theorems holds for every parsed document. -/
theorem C13_yaml_constructed_is_dict (v : V κ σ) : (normV v).WF := normV_WF v

/-- On a document without repeated keys the constructor is the identity (key order included): the merge theorems
speak about the document as written. -/
theorem C13_yaml_constructor_identity (v : V κ σ) (hw : v.WF) : normV v = v := by
  cases v with
  | map m =>
    have := normM_append m.size m .nil (Nat.le_refl _) hw (by intro k _; simp [M.get])
    rw [normV, this]; rfl
  | scalar _ => rfl
  | dflt _ => rfl
  | list _ => rfl

/-- Which documents `update_from_yaml_*` accepts: the top level must be a mapping (a null document — an empty file —,
a list or a scalar raise), every section name must match the pattern, every section must be a mapping (a null section
raises); nothing is merged from the section that raises. -/
theorem C13_yaml_accepted_documents (valid : κ → Bool) (c : M κ σ) (doc : V κ σ) :
    (doc.isMap = false → update valid c doc = .error .notMapping) ∧
    (∀ name data rest, doc = .map (.cons name data rest) → valid name = false → update valid c doc = .error .badSection) ∧
    (∀ name data rest, doc = .map (.cons name data rest) → valid name = true → data.isMap = false →
      update valid c doc = .error .notMapping) := by
  refine ⟨?_, ?_, ?_⟩
  · intro h; cases doc <;> simp_all [update, V.isMap]
  · intro name data rest hd hv; subst hd; simp [update, updateSections, hv]
  · intro name data rest hd hv hm; subst hd
    cases data <;> simp_all [update, updateSections, updateSection, V.isMap]

/-- The shipped YAML, regenerated: one document per file whose top level maps section names (each the name of a language
module) to mappings; no `<<` merge
keys; no repeated keys; and **every alias refers to a sequence or a scalar, never to a mapping** — so the loaded built-in
document is a *tree* of `dict` objects (`allocV`, `C13_heap_loaded_document_is_separate`); the only objects two sections
share are lists, which the merge never mutates (it replaces them). -/
theorem C13_shipped_yaml_shape :
    Gen.yamlDocs.all (fun d => d.top == "mapping" && d.mergeKeys == 0 && d.duplicateKeys.isEmpty &&
      d.sections.all (fun s => s.2 == "mapping" && Gen.langModules.contains s.1)) = true ∧
    Gen.yamlAnchors.all (fun a => a.aliases == 0 || a.kind != "mapping") = true ∧
    Gen.yamlDocs.length ≥ 1 := by decide

/-! ## Non-vacuity and witnesses -/

section Examples
open V M

/-- a toy language environment: language 2 ("py") forces option 7 to 1; language 1 ("cpp") copies option 5 to option 6 -/
private def E0 : LangEnv Nat Nat :=
  { validateOptions := fun l _ o =>
      if l = 2 then .ok (o.set 7 (.scalar 1))
      else if l = 1 then (match o.get 5 with
        | some v => .ok (o.set 6 v)
        | none => .error .missingStd)
      else .ok o,
    known := fun l => l < 4, stable := fun _ => true, options := 100, defaults := 101 }

private def P0 : PEnv Nat Nat :=
  { E := E0, builtin := .cons 0 (.map (.cons 100 (.map (.cons 5 (.scalar 0) .nil)) .nil))
      (.cons 1 (.map (.cons 100 (.map (.cons 5 (.scalar 0) .nil)) .nil)) (.cons 2 (.map (.cons 9 (.scalar 3) .nil)) .nil)),
    valid := fun _ => true, dflt := 0, resolve := fun _ _ => 0 }

private def fileA : V Nat Nat := .map (.cons 1 (.map (.cons 100 (.map (.cons 5 (.scalar 40) .nil)) .nil)) .nil)
private def fileB : V Nat Nat := .map (.cons 1 (.map (.cons 100 (.map (.cons 5 (.scalar 41) .nil)) .nil)) .nil)

-- two builders, ONE path rewritten in between; each context reports its own builder's file through the language object
-- of the NON-target language 1; the first context still reports the first revision afterwards
example : (Proc.run P0 ⟨[], []⟩
    [.write 0 fileA, .newBuilder 0 true, .setLanguage 0 (some 0), .addFiles 0 [0], .create 0 0,
     .read 0 0 (.langOption 1 6),
     .write 0 fileB, .newBuilder 1 true, .setLanguage 1 (some 0), .addFiles 1 [0], .create 1 0,
     .read 1 0 (.langOption 1 6), .read 1 0 (.cfgOption 1 5), .read 0 0 (.langOption 1 6)]).2
    = [.unit, .unit, .unit, .unit, .unit, .val (some (.scalar 40)),
       .unit, .unit, .unit, .unit, .unit, .val (some (.scalar 41)), .val (some (.scalar 41)), .val (some (.scalar 40))] := by
  decide

-- the lazily built map IS observable by looking into ctx.config at the section of a non-target language: option 6 of
-- language 1 is absent before the map is built and present afterwards (the real code: `std: c++17-pmr` in ctx.config
-- until get_supported_languages() has run)
example : (Proc.run P0 ⟨[], []⟩
    [.newBuilder 0 true, .setLanguage 0 (some 0), .create 0 0,
     .read 0 0 (.cfgOption 1 6), .read 0 0 .names, .read 0 0 (.cfgOption 1 6)]).2
    = [.unit, .unit, .unit, .val none, .names [0, 1, 2], .val (some (.scalar 0))] := by decide

-- a language whose section has no `options` mapping keeps private validated options: the language object reports
-- option 7, ctx.config does not
example : (Proc.run P0 ⟨[], []⟩
    [.newBuilder 0 true, .setLanguage 0 (some 0), .create 0 0,
     .read 0 0 (.langOption 2 7), .read 0 0 (.cfgOption 2 7), .read 0 0 (.langValue 2 9), .read 0 0 (.cfgValue 2 9)]).2
    = [.unit, .unit, .unit, .val (some (.scalar 1)), .val none, .val (some (.scalar 3)), .val (some (.scalar 3))] := by decide

-- a failing language map kills the builder (language 1 without option 5), a name outside the map is a harmless KeyError
example : (Proc.run P0 ⟨[], []⟩
    [.write 0 (.map (.cons 1 (.map (.cons 100 (.scalar 0) .nil)) .nil)),
     .newBuilder 0 true, .setLanguage 0 (some 0), .addFiles 0 [0], .create 0 0, .read 0 0 (.tgtOption 5),
     .read 0 0 .names, .read 0 0 (.tgtOption 5),
     .newBuilder 1 true, .setLanguage 1 (some 0), .create 1 0, .read 1 0 (.langOption 3 5), .read 1 0 (.langOption 0 5)]).2
    = [.unit, .unit, .unit, .unit, .unit, .val (some (.scalar 0)), .err (.cfg .missingStd), .err .dead,
       .unit, .unit, .unit, .err .noLanguage, .val (some (.scalar 0))] := by decide

-- create(): constructing the target language BEFORE merging the overrides (the order the source does not have) would
-- miss a shorthand given as an override: validate-then-merge ≠ merge-then-validate
example :
    let c0 : M Nat Nat := P0.builtin
    let ovr : M Nat Nat := .cons 100 (.map (.cons 5 (.scalar 77) .nil)) .nil
    let mergeThenValidate := (newLanguage E0 true (Builder.create P0.resolve ⟨c0, ovr, some 1⟩).config 1).toOption.map (·.1)
    let validateThenMerge := (newLanguage E0 true c0 1).toOption.map fun r => (Builder.create P0.resolve ⟨r.1, ovr, some 1⟩).config
    (mergeThenValidate.map fun c => optionOf E0 c 1 6) = some (some (.scalar 77)) ∧
    (validateThenMerge.map fun c => optionOf E0 c 1 6) = some (some (.scalar 0)) := by decide

-- the C++ shorthand by file or by override: the merged options are the same map, so is the expansion (shipped table)
example :
    let builtin := Gen.cppBuiltinOptions
    let viaFile := mergeInto (mergeInto builtin (.cons "std" (.scalar "s:c++17-pmr") .nil)) .nil
    let viaApi := mergeInto (mergeInto builtin .nil) (.cons "std" (.scalar "s:c++17-pmr") .nil)
    viaFile = viaApi ∧
    (match applyStdDefaults Gen.stdKey Gen.nameKey Gen.cppDefaults viaApi with
     | .ok o => (o.get "std", o.get "allocator_type")
     | .error _ => (none, none)) = (some (.scalar "s:c++17"), some (.scalar "s:std::pmr::polymorphic_allocator")) := by
  decide

-- YAML: `{a: 1, b: 2, a: 3}` is `{a: 3, b: 2}`; nested too
example : normV (.map (.cons 0 (.scalar 1) (.cons 1 (.map (.cons 5 (.scalar 1) (.cons 5 (.scalar 2) .nil))) (.cons 0 (.scalar 3) .nil))) : V Nat Nat)
    = .map (.cons 0 (.scalar 3) (.cons 1 (.map (.cons 5 (.scalar 2) .nil)) .nil)) := by decide

/-- A document in which two sections alias ONE mapping (`a: &x {k: 1}`, `b: *x`): objects 1 = the document,
2 = the aliased mapping; 0 = an empty configuration. -/
def aliasHeap : Heap Nat Nat := [[], [(10, .ref 2), (11, .ref 2)], [(5, .scalar 1)]]

-- merged into the configuration the two sections are two fresh objects (3 and 4), the aliased mapping (2) is not part
-- of the configuration; a later merge into section 10 leaves section 11 and the document alone
example : (match mergeH true 10 aliasHeap 0 1 with
    | .ok h => (h[0]?, h[2]?, h.length)
    | .error _ => (none, none, 0)) = (some [(10, .ref 3), (11, .ref 4)], some [(5, .scalar 1)], 5) := by decide
example : (match mergeH true 10 (aliasHeap ++ [[(10, .ref 4)], [(5, .scalar 2)]]) 0 1 with
    | .ok h => (match mergeH true 10 h 0 3 with
        | .ok h' => (unfoldH 5 h' (.ref 0), unfoldH 5 h' (.ref 1))
        | .error _ => (none, none))
    | .error _ => (none, none))
    = (some (.map (.cons 10 (.map (.cons 5 (.scalar 2) .nil)) (.cons 11 (.map (.cons 5 (.scalar 1) .nil)) .nil))),
       some (.map (.cons 10 (.map (.cons 5 (.scalar 1) .nil)) (.cons 11 (.map (.cons 5 (.scalar 1) .nil)) .nil)))) := by
  decide

end Examples

end NunavutVerif.Config
