import NunavutVerif.Lemmas.Deps
import NunavutVerif.Lemmas.DepsOpts
import NunavutVerif.Lemmas.Names
import NunavutVerif.Gen.OptionDomain
/-!
# C06 — generated code builds on its own: the part that is Nunavut's logic

Statement (properties.jsonl): every generated C header compiles on its own as C11 and inside a C++ translation unit, every
C++ header for each supported standard, every Python module imports, without diagnostics under the project's strict warning
set; no generated file refers to a header or module that generating the involved namespaces does not produce.

What is proved here, over **all** type shapes (`Top`, `Comp`, `Ty` — any nesting, any number of fields) and **all**
option sets (`Opts`), for the code with the proposed `fix:` commits (`Model/Deps.lean`):

1. *closure*: every project-relative include of a generated C / C++ header is `make_path` of a direct dependency — the
   same function that names the file written for that type (`Namespace.outputPath`, C11) — or a serialization-support
   header that is generated unless omitted; direct ⊆ transitive ⊆ the types below the type, which the front end has read
   (`Closed`); every Python `import` is the package of a direct dependency, every other module a generated Python
   module imports exists;
2. *facility coverage*: for every facility the emitted text uses (`facMust`) or may use (`facMay`) there is an emitted
   include that provides it (`provides`), with serialization enabled **and** omitted;
3. *names*: include guards decode uniquely into (macrofied name, major, minor); C++ namespace brackets balance.

The unchanged code violated 1 (Python, omitted support) and 2 (C with omitted support; non-sealed unions and services
with unions in C++17; unions in C++14, fixed port-IDs in C++ with omitted support): the negations are proved on
witnesses below (`…BeforeFix`), the harness replays them with the compilers.

Partial by nature (DESIGN §4 C06): that a header with the right includes and names draws no diagnostic at all is the
compilers' judgement (harness/c06.py); `facMust/facMay` and `provides` are hand-written from the templates and the
language standards and tied to every generated header by a token scan.  The C++ coverage theorem needs
`use_standard_types` (with it off the C++ templates still spell `std::array`, `std::bitset`, `std::uintN_t` but include
nothing — an observation, not covered) and the two option-given includes to be non-empty when the options that use
them are on.  Include guards of different types can coincide because `macrofy` is not injective
(`guard.FooBar.1.0` / `guard.foo.Bar.1.0`): known finding, `C06_include_guards_distinct` carries injectivity as hypothesis.
-/
namespace NunavutVerif.Deps
open NunavutVerif.Namespace (Str Path PathR Err makePath asPosix includePath outputPath basePath pathJoin shortVer)

/-! ## 1. closure -/

/-- T1a: `direct()` is contained in `transitive()`: the names and every flag. -/
theorem C06_direct_le_transitive (t : Top) : (direct t).Le (transitive t) := by
  rw [direct, transitive, buildMany_single, buildMany_single]
  exact extractList_false_le_true _ (Deps.Le.refl _)

/-- T1b: whatever the builder collects (either mode, either union test) is a composite below the type. -/
theorem C06_collected_names_are_below (u : Top → Bool) (tr : Bool) (t : Top) :
    ∀ n ∈ (buildMany u tr [t]).names, n ∈ t.reach := by
  intro n hn
  rw [buildMany_single] at hn
  rcases extractList_names tr _ _ n hn with h | h
  · split at h <;> simp at h
  · exact h

/-- The front end resolves every reference to a definition it has read: a set of top-level types is *closed* when every
composite below one of them is (by name) one of the message types of the set. -/
def Closed (U : List Top) : Prop := ∀ t ∈ U, ∀ n ∈ t.reach, ∃ t' ∈ U, t'.name = n

/-- T1c (C and C++): every `#include` operand of a generated header is a standard / option-given header chosen by
`get_includes` or the template, or a support header (only when support is generated), or the include path of a direct
dependency `n`; that path is `make_path(n)`, the file written for `n` is `outdir / make_path(n)`, and `n` is a type of
the closed set — generating its namespace into the same output directory produces exactly that file. -/
theorem C06_include_closure (lang : Lang) (pcfg : Namespace.Cfg) (o : Opts) (U : List Top) (hU : Closed U)
    (t : Top) (ht : t ∈ U) (incs : List Str) (h : emitted lang pcfg o t = .ok incs) :
    ∀ inc ∈ incs,
      (inc ∈ cStd o (direct t) ++ cOmitBlock o ++ cppGetIncludes o (direct t) ++ cppUnionBlock o t ++ [hCstdint])
      ∨ (o.omitSer = false ∧ ∃ s ∈ o.support, inc = punct o s)
      ∨ (∃ n ∈ (direct t).names, ∃ rel, includePath pcfg n = .ok rel ∧ inc = punct o (asPosix rel)
          ∧ outputPath pcfg n = .ok (pathJoin (basePath pcfg) rel)
          ∧ n ∈ (transitive t).names ∧ ∃ t' ∈ U, t'.name = n) := by
  intro inc hinc
  have key : ∀ ps, pathIncludes pcfg o (direct t) = .ok ps → inc ∈ ps →
      (o.omitSer = false ∧ ∃ s ∈ o.support, inc = punct o s)
      ∨ (∃ n ∈ (direct t).names, ∃ rel, includePath pcfg n = .ok rel ∧ inc = punct o (asPosix rel)
          ∧ outputPath pcfg n = .ok (pathJoin (basePath pcfg) rel)
          ∧ n ∈ (transitive t).names ∧ ∃ t' ∈ U, t'.name = n) := by
    intro ps hps hp
    rcases pathIncludes_mem hps hp with h1 | ⟨n, hn, rel, hrel, hinc'⟩
    · exact Or.inl h1
    · refine Or.inr ⟨n, hn, rel, hrel, hinc', ?_, (C06_direct_le_transitive t).names n hn, ?_⟩
      · simp only [outputPath, hrel]
      · exact hU t ht n (C06_collected_names_are_below _ _ t n hn)
  cases lang with
  | c =>
    obtain ⟨ps, hps, hmem⟩ := emitted_c_inv h
    rcases (hmem inc).mp hinc with hp | hp | hp
    · exact Or.inr (key ps hps hp)
    · exact Or.inl (by simp [hp])
    · exact Or.inl (by simp [hp])
  | cpp =>
    obtain ⟨ps, l, hps, hmem, rfl⟩ := emitted_cpp_inv h
    rcases List.mem_append.mp hinc with hl | hb
    · rcases List.mem_append.mp hl with hl | hu
      · rcases (hmem inc).mp hl with hp | hp
        · exact Or.inr (key ps hps hp)
        · exact Or.inl (by simp [hp])
      · exact Or.inl (by simp [hu])
    · simp only [cppPortBlock] at hb
      split at hb
      · simp at hb; exact Or.inl (by simp [hb])
      · simp at hb
  | py => simp [emitted] at h; subst h; simp at hinc

/-- T1d (Python): every `import` emitted by `filter_imports` is the dotted, component-wise stropped namespace of a
composite that is a field type or the element type of an array field, i.e. of a direct dependency below the type. -/
theorem C06_py_imports_are_dependency_packages (strop : Str → Str) (enable : Bool) (t : Top) :
    ∀ imp ∈ pyImports strop enable t, ∃ c : Comp,
      (Ty.comp c ∈ t.dataTypes ∨ Ty.fixedArr (.comp c) ∈ t.dataTypes ∨ Ty.varArr (.comp c) ∈ t.dataTypes)
      ∧ imp = joinDots (if enable then c.name.ns.map strop else c.name.ns) := by
  intro imp himp
  simp only [pyImports, mem_sortS, List.mem_map] at himp
  obtain ⟨ns, hns, rfl⟩ := himp
  have hmem : ∀ (l : List (List Str)) x, x ∈ dedupFirst l → x ∈ l := by
    intro l x hx
    have aux : ∀ (m : List (List Str)) y, y ∈ dedup m → y ∈ m := by
      intro m
      induction m with
      | nil => intro y hy; simpa [dedup] using hy
      | cons a as ih =>
        intro y hy
        simp only [dedup] at hy
        split at hy
        · exact List.mem_cons_of_mem _ (ih y hy)
        · rcases List.mem_cons.mp hy with hy | hy
          · exact hy ▸ List.mem_cons_self ..
          · exact List.mem_cons_of_mem _ (ih y hy)
    have := aux l.reverse x (by simpa [dedupFirst] using hx)
    simpa using this
  have h2 := hmem _ ns hns
  simp only [List.mem_map, List.mem_append, List.mem_filterMap] at h2
  obtain ⟨c, hc, rfl⟩ := h2
  refine ⟨c, ?_, rfl⟩
  rcases hc with ⟨ty, hty, hsome⟩ | ⟨ty, hty, hsome⟩
  · cases ty <;> simp at hsome
    subst hsome; exact Or.inl hty
  · split at hsome <;> simp at hsome
    · subst hsome; exact Or.inr (Or.inl hty)
    · subst hsome; exact Or.inr (Or.inr hty)

/-- T1e (Python): every other module a generated module imports is there: the support module is written unless
omitted and is imported only then; NumPy / PyDSDL are the documented requirements; `warnings` is the standard library. -/
theorem C06_py_module_imports_available (o : Opts) (deprecated : Bool) :
    ∀ m ∈ pyModuleImports o deprecated, m ∈ pyAvailable o := by
  intro m hm
  simp only [pyModuleImports, pyAvailable, List.mem_append] at hm ⊢
  rcases hm with (hm | hm) | hm
  · exact Or.inl hm
  · simp at hm; rcases hm with hm | hm | hm <;> simp [hm]
  · split at hm <;> simp at hm; simp [hm]

/-! ## 2. facility coverage -/

/-- What the options have to deliver for the C++ target: standard types in use; the allocator include is given when the
allocator-aware constructors are emitted; the VLA include is given when a variable-length array occurs; a support header
exists when support is not omitted. -/
structure OptsOkCpp (o : Opts) (t : Top) : Prop where
  alloc : o.allocCtor = true → o.allocInc ≠ []
  vla : (direct t).usesVla = true → o.vlaInc ≠ []
  support : o.omitSer = false → o.support ≠ []

/-- T2 (C): for every type shape and every option set — serialization enabled or omitted, `use_standard_types` on or
off — every facility the generated C header uses or may use is provided by one of its own `#include`s. -/
theorem C06_facilities_covered_c (pcfg : Namespace.Cfg) (o : Opts) (t : Top) (hs : o.omitSer = false → o.support ≠ [])
    (incs : List Str) (h : emitted .c pcfg o t = .ok incs) :
    ∀ f ∈ facilities .c o t, covered .c o incs f = true := by
  intro f hf
  obtain ⟨ps, hps, hmem⟩ := emitted_c_inv h
  -- which kind of facility is it
  have hk : cDefKinds f ∨ (o.omitSer = false ∧ (cDefKinds f ∨ f ∈ serFac .c)) := by
    simp only [facilities, facMust, facMay, List.mem_append, List.mem_flatMap] at hf
    rcases hf with (⟨c, _, hc⟩ | hf) | hf
    · exact Or.inl (cCompFac_kinds o c f hc)
    · by_cases ho : o.omitSer = true
      · simp [ho] at hf
      · simp only [Bool.not_eq_true] at ho
        refine Or.inr ⟨ho, Or.inr ?_⟩
        simp [ho] at hf
        rcases hf with hf | hf | hf | hf | hf <;> simp [serFac, hf]
    · by_cases ho : o.omitSer = true
      · simp [ho] at hf
      · simp only [Bool.not_eq_true] at ho
        exact Or.inr ⟨ho, Or.inr (by simpa [ho] using hf)⟩
  by_cases ho : o.omitSer = true
  · -- support omitted: the block of base.j2
    have hd : cDefKinds f := by
      rcases hk with hk | ⟨h1, _⟩
      · exact hk
      · simp [ho] at h1
    have hb : ∀ x, x ∈ cOmitBlock o → x ∈ incs := fun x hx => (hmem x).mpr (Or.inr (Or.inr hx))
    have hblk : cOmitBlock o = [hAssert, hStdbool, hStddef, hStdint] := by simp [cOmitBlock, ho]
    rcases hd with hd | hd | hd | hd | hd <;> subst hd
    · exact covered_of_mem (hb hAssert (by simp [hblk])) (provides_of_std std_assert)
    · exact covered_of_mem (hb hStdbool (by simp [hblk])) (provides_of_std std_stdbool)
    · exact covered_of_mem (hb hStdint (by simp [hblk])) (provides_of_std std_stdint)
    · exact covered_of_mem (hb hStddef (by simp [hblk])) (provides_of_std std_stddef_sizeT)
    · exact covered_of_mem (hb hStddef (by simp [hblk])) (provides_of_std std_stddef_null)
  · -- support included: it brings everything
    simp only [Bool.not_eq_true] at ho
    obtain ⟨s, hs'⟩ := List.exists_mem_of_ne_nil _ (hs ho)
    have hin : punct o s ∈ incs := (hmem _).mpr (Or.inl (pathIncludes_support hps ho hs'))
    have hsup : supportProvides .c f = true := by
      rcases hk with hk | ⟨_, hk⟩
      · exact support_c_all f (Or.inl hk)
      · exact support_c_all f hk
    exact covered_of_mem hin (provides_of_support ho hs' hsup)

/-- T2 (C++): for every type shape, every language standard and every option set that meets `OptsOkCpp` —
serialization enabled or omitted — every facility the generated C++ header uses or may use is provided by one of its
own `#include`s. -/
theorem C06_facilities_covered_cpp (pcfg : Namespace.Cfg) (o : Opts) (t : Top) (hok : OptsOkCpp o t)
    (incs : List Str) (h : emitted .cpp pcfg o t = .ok incs) :
    ∀ f ∈ facilities .cpp o t, covered .cpp o incs f = true := by
  intro f hf
  obtain ⟨ps, l, hps, hmem, heq⟩ := emitted_cpp_inv h
  have inL : ∀ x, x ∈ l → x ∈ incs := fun x hx => by
    rw [heq]; exact List.mem_append.mpr (Or.inl (List.mem_append.mpr (Or.inl hx)))
  have inU : ∀ x, x ∈ cppUnionBlock o t → x ∈ incs := fun x hx => by
    rw [heq]; exact List.mem_append.mpr (Or.inl (List.mem_append.mpr (Or.inr hx)))
  have hstd : ∀ n, n ∈ cppStdNames o (direct t) → angle n ∈ incs := fun n hn =>
    inL _ ((hmem _).mpr (Or.inr (mem_cppGetIncludes_std hn)))
  have hlimits : lit "limits" ∈ cppStdNames o (direct t) := by simp [cppStdNames]
  have cov_limits : ∀ g, (g = Fac.xLimits ∨ g = Fac.xSizeT) → covered .cpp o incs g = true := by
    intro g hg
    have := hstd _ hlimits
    rw [angle_limits] at this
    rcases hg with hg | hg <;> subst hg
    · exact covered_of_mem this (provides_of_std std_limits_limits)
    · exact covered_of_mem this (provides_of_std std_limits_sizeT)
  -- a facility of a field / constant declaration
  have cov_decl : ∀ ty, ty ∈ t.dataTypes → f ∈ xTyFac o ty → covered .cpp o incs f = true := by
    intro ty hty hfty
    have hflag := direct_flag hty hfty
    rcases xTyFac_kinds o ty f hfty with hk | hk | hk | hk <;> subst hk
    · have hus := xTyFac_fixedInt_useStd o ty hfty
      have hn : lit "cstdint" ∈ cppStdNames o (direct t) := by
        simp only [xFlag] at hflag; simp [cppStdNames, hus, hflag]
      have := hstd _ hn; rw [angle_cstdint] at this
      exact covered_of_mem this (provides_of_std std_cstdint)
    · have hn : lit "array" ∈ cppStdNames o (direct t) := by
        simp only [xFlag] at hflag
        rcases hflag with hflag | hflag <;> simp [cppStdNames, hflag]
      have := hstd _ hn; rw [angle_array] at this
      exact covered_of_mem this (provides_of_std std_array)
    · have hn : lit "bitset" ∈ cppStdNames o (direct t) := by
        simp only [xFlag] at hflag; simp [cppStdNames, hflag]
      have := hstd _ hn; rw [angle_bitset] at this
      exact covered_of_mem this (provides_of_std std_bitset)
    · simp only [xFlag] at hflag
      have hne := hok.vla hflag
      exact covered_of_mem (inL _ ((hmem _).mpr (Or.inr (mem_cppGetIncludes_vla hne hflag)))) (provides_vla hne (Or.inl rfl))
  -- the allocator include
  have cov_alloc : o.allocCtor = true → (f = .xAlloc ∨ f = .xUtility ∨ f = .xMemory) → covered .cpp o incs f = true := by
    intro ha hfa
    have hne := hok.alloc ha
    exact covered_of_mem (inL _ ((hmem _).mpr (Or.inr (mem_cppGetIncludes_alloc hne)))) (provides_alloc hne hfa)
  -- the headers of a union: `<variant>` from get_includes, the rest from the block of base.j2
  have cov_variant : ∀ c ∈ t.parts, c.isUnion = true → hasVariant o = true → f = .xVariant → covered .cpp o incs f = true := by
    intro c hc hu hv hf'
    have huu := direct_usesUnion (part_isUnion_definesUnion hc hu)
    have hn' : lit "variant" ∈ cppStdNames o (direct t) := by simp [cppStdNames, huu, hv]
    have := hstd _ hn'; rw [angle_variant] at this
    subst hf'
    exact covered_of_mem this (provides_of_std std_variant)
  have cov_union : ∀ c ∈ t.parts, c.isUnion = true → ∀ hdr : Str, stdProvides hdr f = true →
      hdr ∈ lit "<type_traits>" :: (if hasVariant o then [] else [lit "<memory>", lit "<new>", lit "<utility>"]) →
      covered .cpp o incs f = true := by
    intro c hc hu hdr hp hn
    have hd := part_isUnion_definesUnion hc hu
    exact covered_of_mem (inU hdr (by simpa [cppUnionBlock, hd] using hn)) (provides_of_std hp)
  -- the support header
  have cov_support : o.omitSer = false → supportProvides .cpp f = true → covered .cpp o incs f = true := by
    intro ho hsp
    obtain ⟨s, hs'⟩ := List.exists_mem_of_ne_nil _ (hok.support ho)
    exact covered_of_mem (inL _ ((hmem _).mpr (Or.inl (pathIncludes_support hps ho hs')))) (provides_of_support ho hs' hsp)
  simp only [facilities, facMust, facMay, List.mem_append, List.mem_flatMap] at hf
  rcases hf with (⟨c, hc, hfc⟩ | hf) | (⟨c, hc, hfc⟩ | hf)
  · -- certainly used by the definition of part `c`
    rcases mem_xCompFac hfc with hk | hk | ⟨hp, hk⟩ | ⟨ty, hty, hfty⟩ | ⟨hu, hv, hk⟩ | ⟨hu, hv, hk⟩ | ⟨ha, hk⟩
    · exact cov_limits f (Or.inr hk)
    · exact cov_limits f (Or.inl hk)
    · -- the fixed port-ID
      subst hk
      have : hCstdint ∈ incs := by rw [heq, hp]; exact cstdint_of_fixedPort l _
      exact covered_of_mem this (provides_of_std std_cstdint)
    · exact cov_decl ty (part_fields_dataTypes hc hty) hfty
    · rcases hk with hk | hk <;> subst hk
      · exact cov_variant c hc hu hv rfl
      · exact cov_union c hc hu (lit "<type_traits>") std_type_traits (by simp)
    · rcases hk with hk | hk | hk <;> subst hk
      · exact cov_union c hc hu (lit "<type_traits>") std_type_traits (by simp)
      · exact cov_union c hc hu (lit "<utility>") std_utility (by simp [hv])
      · exact cov_union c hc hu (lit "<new>") std_new (by simp [hv])
    · exact cov_alloc ha (Or.inl hk)
  · -- `nunavut::support`
    by_cases ho : o.omitSer = true
    · simp [ho] at hf
    · simp only [Bool.not_eq_true] at ho
      simp [ho] at hf; subst hf
      exact cov_support ho support_cpp_self
  · -- possibly used by the definition of part `c`
    rcases mem_xCompMay hfc with ⟨hu, hv, hk⟩ | ⟨ha, hk⟩
    · subst hk
      exact cov_union c hc hu (lit "<memory>") std_memory (by simp [hv])
    · exact cov_alloc ha (Or.inr hk)
  · -- possibly used by the serialization functions
    by_cases ho : o.omitSer = true
    · simp [ho] at hf
    · simp only [Bool.not_eq_true] at ho
      have hf' : f ∈ serFac .cpp := by simpa [ho] using hf
      rcases support_cpp_all f hf' with hl | hsp
      · exact cov_limits f (Or.inl hl)
      · exact cov_support ho hsp

/-! ### every option map the command line and `properties.yaml` document

`OptsOkCpp` is met by construction for every option map the tree under check documents: the option tables are the
generated ones (`Gen/CppDefaults`, `Gen/CliOptions`, `Gen/SupportFiles`, `Gen/OptionDomain` — regenerated from the tree on
every run), pushed through the model of `_validate_language_options` / `standard_version` (`Model/DepsOpts.lean`). -/

/-- T2 (C++, any validated option map, e.g. from a `--configuration` file): if the map delivers its includes
(`mapDelivers`: the allocator include is given when a constructor convention other than `default` is selected, the
variable-length-array include is given), then for every type shape, `use_standard_types` on or off, serialization support
enabled or omitted, every facility the generated header uses or may use is provided by one of its own `#include`s. -/
theorem C06_facilities_covered_cpp_map (pcfg : Namespace.Cfg) (m : OptMap) (hd : mapDelivers m = true)
    (omitSer useStd preferSys : Bool) (sup : List Str) (hsup : omitSer = false → sup ≠ []) (o : Opts)
    (ho : cppOptsOf m omitSer useStd preferSys sup = .ok o) (t : Top)
    (incs : List Str) (h : emitted .cpp pcfg o t = .ok incs) :
    ∀ f ∈ facilities .cpp o t, covered .cpp o incs f = true := by
  obtain ⟨h1, _, _, h4, _⟩ := cppOptsOf_ok ho
  obtain ⟨ha, hv⟩ := delivers_alloc ho hd
  exact C06_facilities_covered_cpp pcfg o t ⟨ha, fun _ => hv, fun hom => by rw [h4]; exact hsup (by rw [← h1]; exact hom)⟩ incs h

/-- T2 (C++, the command line): for **every** choice of `--language-standard` the argparse definition offers (and for
none given), with or without `--omit-serialization-support`, `use_standard_types` / `prefer_system_includes` either way,
the option map `_validate_language_options` produces from the shipped `options` / `defaults` resolves, and for every type
shape every facility the generated header uses or may use is provided by one of its own `#include`s.  No hypothesis on the
options is left: the other documented options (`target_endianness`, `omit_float_serialization_support`,
`enable_serialization_asserts`, `enable_override_variable_array_capacity`, `cast_format`, …) do not enter the include logic
nor `facilities` (the tie scans headers generated under them). -/
theorem C06_facilities_covered_cpp_cli (std : Option String) (hstd : std ∈ none :: languageStandardChoices.map some)
    (omitSer useStd preferSys : Bool) :
    ∃ o, cliOpts std omitSer useStd preferSys = .ok o ∧
      ∀ (pcfg : Namespace.Cfg) (t : Top) (incs : List Str), emitted .cpp pcfg o t = .ok incs →
        ∀ f ∈ facilities .cpp o t, covered .cpp o incs f = true := by
  have hall : ∀ s ∈ none :: languageStandardChoices.map some, cliDelivers s = true := by decide
  obtain ⟨m, sup, o, _, _, hne, hd, hc, ho⟩ := cliOpts_of_delivers (hall std hstd) omitSer useStd preferSys
  exact ⟨o, ho, fun pcfg t incs h => C06_facilities_covered_cpp_map pcfg m hd omitSer useStd preferSys sup (fun _ => hne) o hc t incs h⟩

/-- The documented values of one C++ option (`Gen/OptionDomain.lean`, C17's translator: `properties.yaml` options and
defaults, CLI choices). -/
def docStrValues (key : String) : List String :=
  (NunavutVerif.Options.Gen.domainCpp.filter (fun d => d.key = key)).flatMap
    (fun d => d.values.filterMap (fun v => match v with | .str s => some s | _ => none))

/-- T2 (the product of documented values): over **all** combinations of documented values of `allocator_include`,
`variable_array_type_include` and `ctor_convention`, the combination delivers its includes exactly when it does not
select an allocator-aware constructor convention with an empty `allocator_include` — the variable-length-array include
is never empty in the documented domain.  That one region is accepted by `_validate_language_options` (which only asks for
`allocator_type`) and does not compile: known finding `cpp-allocator-without-include`, witness below. -/
theorem C06_documented_values_deliver_iff :
    ∀ a ∈ docStrValues "allocator_include", ∀ v ∈ docStrValues "variable_array_type_include",
      ∀ c ∈ docStrValues "ctor_convention",
        mapDelivers (.cons "allocator_include" (.scalar ("s:" ++ a)) (.cons "variable_array_type_include" (.scalar ("s:" ++ v))
          (.cons "ctor_convention" (.scalar ("s:" ++ c)) .nil))) = true ↔ (c = "default" ∨ a ≠ "") := by
  decide

/-! ### the unchanged code: negations on witnesses -/

section BeforeFix
def wName (s : String) : TName := ⟨[lit "w"], lit s, 1, 0⟩
def wCfg : Namespace.Cfg := { strop := id, enable := false, ext := lit ".h", stem := lit "_", outDir := lit "o" }
def wOpts (omitSer : Bool) (std : Nat) : Opts :=
  { omitSer := omitSer, useStd := true, std := std, allocInc := [], vlaInc := lit "<vector>", allocCtor := false,
    preferSys := false, support := [lit "nunavut/support/serialization.h"] }
/-- `@union float32 a; float64 b; @extent …` — a non-sealed union. -/
def wDelimitedUnion : Top := .msg (.mk (wName "U") true false [.float, .float] []) false
/-- A service whose request is a (sealed) union. -/
def wUnionService : Top := .svc (wName "S") (.mk (wName "S.Request") true true [.int, .int] []) (.mk (wName "S.Response") false true [] []) false
/-- An empty sealed structure with a fixed port-ID. -/
def wEmptyFixed : Top := .msg (.mk (wName "E") false true [] []) true
def wSealedUnion : Top := .msg (.mk (wName "V") true true [.float, .float] []) false

/-- F10b: the outer-object test misses the union inside a `DelimitedType` (and inside a service) … -/
example : (directBeforeFix wDelimitedUnion).usesUnion = false ∧ (direct wDelimitedUnion).usesUnion = true := by decide
example : (directBeforeFix wUnionService).usesUnion = false ∧ (direct wUnionService).usesUnion = true := by decide
/-- … so the C++17 header used `std::variant` without `<variant>`; the fixed include list covers it. -/
example : ∃ incs, emittedBeforeFix .cpp wCfg (wOpts false 17) wDelimitedUnion = .ok incs ∧
    Fac.xVariant ∈ facMust .cpp (wOpts false 17) wDelimitedUnion ∧ covered .cpp (wOpts false 17) incs .xVariant = false :=
  ⟨_, rfl, by decide, by decide⟩
example : ∃ incs, emitted .cpp wCfg (wOpts false 17) wDelimitedUnion = .ok incs ∧ covered .cpp (wOpts false 17) incs .xVariant = true :=
  ⟨_, rfl, by decide⟩
/-- F10a: C with `--omit-serialization-support`: the option `static_assert`s on support-header macros stayed (`cSupport`)
and nothing provided `static_assert` / `uint8_t`: an empty structure's header did not compile alone. -/
example : ∃ incs, emittedBeforeFix .c wCfg (wOpts true 0) wEmptyFixed = .ok incs ∧
    Fac.cSupport ∈ facMustBeforeFix .c (wOpts true 0) wEmptyFixed ∧ covered .c (wOpts true 0) incs .cSupport = false ∧
    Fac.cStaticAssert ∈ facMust .c (wOpts true 0) wEmptyFixed ∧ covered .c (wOpts true 0) incs .cStaticAssert = false ∧
    Fac.cFixedInt ∈ facMust .c (wOpts true 0) wEmptyFixed ∧ covered .c (wOpts true 0) incs .cFixedInt = false :=
  ⟨_, rfl, by decide, by decide, by decide, by decide, by decide, by decide⟩
/-- C++14 union with omitted support: `std::aligned_storage` without `<type_traits>`. -/
example : ∃ incs, emittedBeforeFix .cpp wCfg (wOpts true 14) wSealedUnion = .ok incs ∧
    Fac.xTypeTraits ∈ facMust .cpp (wOpts true 14) wSealedUnion ∧ covered .cpp (wOpts true 14) incs .xTypeTraits = false :=
  ⟨_, rfl, by decide, by decide⟩
/-- Fixed port-ID on a type without integer fields, omitted support: `std::uint16_t` without `<cstdint>`. -/
example : ∃ incs, emittedBeforeFix .cpp wCfg (wOpts true 17) wEmptyFixed = .ok incs ∧
    Fac.xFixedInt ∈ facMust .cpp (wOpts true 17) wEmptyFixed ∧ covered .cpp (wOpts true 17) incs .xFixedInt = false :=
  ⟨_, rfl, by decide, by decide⟩
/-- Python with omitted support imported the support module that is not written. -/
example : lit "nunavut_support" ∈ pyModuleImportsBeforeFix (wOpts true 0) false ∧ lit "nunavut_support" ∉ pyAvailable (wOpts true 0) := by
  decide
/-- C++ with `use_standard_types: false` (fixed in 3a07e2e): `<array>` / `<bitset>` were dropped although the declarations
spell `std::array` / `std::bitset` regardless: uncovered before, covered now. -/
def wNoStd : Opts := { wOpts true 17 with useStd := false }
def wArrays : Top := .msg (.mk (wName "B") false true [.fixedArr .bool, .fixedArr .int] []) false
example : ∃ incs, emittedCppBeforeStdFix wCfg wNoStd wArrays = .ok incs ∧
    Fac.xBitset ∈ facMust .cpp wNoStd wArrays ∧ covered .cpp wNoStd incs .xBitset = false ∧
    Fac.xArray ∈ facMust .cpp wNoStd wArrays ∧ covered .cpp wNoStd incs .xArray = false :=
  ⟨_, rfl, by decide, by decide, by decide, by decide⟩
example : ∃ incs, emitted .cpp wCfg wNoStd wArrays = .ok incs ∧
    covered .cpp wNoStd incs .xBitset = true ∧ covered .cpp wNoStd incs .xArray = true := ⟨_, rfl, by decide, by decide⟩
end BeforeFix

/-! ### the hypotheses of `OptsOkCpp` are necessary (what is outside the documented option maps) -/

/-- An allocator-aware constructor convention with an empty `allocator_include` (accepted by
`_validate_language_options`, which only asks for `allocator_type`): nothing provides the allocator type.  Replayed on
the real generator by the harness (configuration `cpp/c++17+alloc-noinclude+omit`, known finding). -/
example : ∃ incs, emitted .cpp wCfg { wOpts true 17 with allocCtor := true } wEmptyFixed = .ok incs ∧
    Fac.xAlloc ∈ facMust .cpp { wOpts true 17 with allocCtor := true } wEmptyFixed ∧
    covered .cpp { wOpts true 17 with allocCtor := true } incs .xAlloc = false := ⟨_, rfl, by decide, by decide⟩
/-- An empty `variable_array_type_include` (not a documented value) with a variable-length array: nothing provides the
array template. -/
example : ∃ incs, emitted .cpp wCfg { wOpts true 17 with vlaInc := [] } (.msg (.mk (wName "L") false true [.varArr .int] []) false) = .ok incs ∧
    covered .cpp { wOpts true 17 with vlaInc := [] } incs .xVla = false := ⟨_, rfl, by decide⟩

/-! ### non-vacuity: the hypotheses are met by ordinary inputs -/

example : OptsOkCpp (wOpts false 17) wDelimitedUnion := ⟨by decide, by decide, by decide⟩
example : ∃ incs, emitted .cpp wCfg (wOpts true 14) wSealedUnion = .ok incs ∧ incs ≠ [] := ⟨_, rfl, by decide⟩
/-- The command-line theorem is about something: six standards are offered, and e.g. `c++17-pmr` resolves to the PMR
group (`std` 17, `<memory_resource>`, `<vector>`, allocator-aware constructors, the generated support header). -/
example : languageStandardChoices.length = 6 := by decide
example : (cliOpts (some "c++17-pmr") false true false).toOption.map
      (fun o => (o.omitSer, o.useStd, o.std, o.allocInc, o.vlaInc, o.allocCtor, o.support))
    = some ((false, true, 17, lit "<memory_resource>", lit "<vector>", true, [lit "nunavut/support/serialization.hpp"]) :
        Bool × Bool × Nat × List Char × List Char × Bool × List (List Char)) := by
  rfl
example : (docStrValues "allocator_include").length = 3 ∧ (docStrValues "ctor_convention").length = 3
    ∧ (docStrValues "variable_array_type_include").length = 2 := by decide
/-- A nested type: the include of the dependency is its `make_path`. -/
example : emitted .c wCfg (wOpts true 0) (.msg (.mk (wName "N") false true [.comp (.mk (wName "D") false true [.bool] [])] []) false)
    = .ok [lit "\"w/D_1_0.h\"", lit "<stdlib.h>", hAssert, hStdbool, hStddef, hStdint] := by decide

/-! ## 3. names -/

/-- T3a: an include guard decodes uniquely: equal guards (same suffix) have equal macrofied names and versions.  With
`macrofy` injective on the full names involved, different types have different guards. (`macrofy` is *not* injective
in general — known finding `include-guard-collision`.) -/
theorem C06_include_guards_distinct (mac : Str → Str) (full₁ full₂ : Str) (M₁ m₁ M₂ m₂ : Nat) (suffix : Str)
    (hinj : mac full₁ = mac full₂ → full₁ = full₂)
    (h : includeGuard (mac full₁) M₁ m₁ suffix = includeGuard (mac full₂) M₂ m₂ suffix) :
    full₁ = full₂ ∧ M₁ = M₂ ∧ m₁ = m₂ := by
  simp only [includeGuard] at h
  have h' := List.append_cancel_right h
  have := NunavutVerif.Namespace.shortVer_inj h'
  exact ⟨hinj this.1, this.2.1, this.2.2⟩

/-- T3b: the text of `open_namespace` opens exactly one bracket per namespace component (names are identifiers:
no bracket, slash or newline) … -/
theorem C06_open_namespace_depth (names : List Str) (hn : ∀ n ∈ names, plainName n) (rest : Str) (d : Nat) :
    depthAfter (openNamespace names ++ rest) d = depthAfter rest (d + names.length) := by
  have hkw : plainName (lit "namespace ") := by unfold plainName; decide
  induction names generalizing d with
  | nil => simp [openNamespace]
  | cons n ns ih =>
    have hn0 := hn n (List.mem_cons_self ..)
    have ihn := ih (fun x hx => hn x (List.mem_cons_of_mem _ hx))
    have step : ∀ tail : Str, depthAfter (lit "namespace " ++ n ++ nl ++ ['{'] ++ tail) d = depthAfter tail (d + 1) := by
      intro tail
      simp only [List.append_assoc]
      rw [depthAfter_plain _ hkw, depthAfter_plain _ hn0]
      show depthAfter ('\n' :: '{' :: tail) d = _
      rw [depthAfter_other _ _ _ (by decide) (by decide), depthAfter_open]
    cases ns with
    | nil =>
      simp only [openNamespace, List.length_singleton]
      exact step rest
    | cons m ms =>
      simp only [openNamespace, List.length_cons]
      have := step (nl ++ (openNamespace (m :: ms) ++ rest))
      simp only [List.append_assoc] at this ⊢
      rw [this]
      show depthAfter ('\n' :: (openNamespace (m :: ms) ++ rest)) (d + 1) = _
      rw [depthAfter_other _ _ _ (by decide) (by decide), ihn (d + 1)]
      simp only [List.length_cons]; congr 1; omega

/-- … and the text of `close_namespace`, with its `// namespace x` comments removed, closes exactly as many: the pair
is balanced around any body that is balanced itself. -/
theorem C06_close_namespace_depth (names : List Str) (hn : ∀ n ∈ names, plainName n) (rest : Str) (d : Nat) :
    depthAfter (stripLineComments (closeNamespace names ++ nl ++ rest)) (d + names.length) =
      depthAfter (stripLineComments (nl ++ rest)) d := by
  have key : ∀ (rs : List Str), (∀ n ∈ rs, plainName n) → ∀ d, rs ≠ [] →
      depthAfter (stripLineComments (closeNamespaceRev rs ++ nl ++ rest)) (d + rs.length) =
        depthAfter (stripLineComments (nl ++ rest)) d := by
    intro rs
    induction rs with
    | nil => intro _ _ h; exact absurd rfl h
    | cons n ns ih =>
      intro hrs d _
      have hn0 := hrs n (List.mem_cons_self ..)
      have one : ∀ tail : Str, stripLineComments (['}'] ++ lit " // namespace " ++ n ++ nl ++ tail)
          = '}' :: ' ' :: stripLineComments (nl ++ tail) := by
        intro tail
        show stripLineComments ('}' :: ' ' :: '/' :: '/' :: (lit " namespace " ++ n ++ nl ++ tail)) = _
        rw [stripLineComments_other _ _ (by decide), stripLineComments_other _ _ (by decide), stripLineComments_comment]
        simp only [List.append_assoc]
        rw [skipLine_plain _ (by unfold plainName; decide), skipLine_plain _ hn0]
        show _ :: _ :: stripLineComments.skipLine ('\n' :: tail) = _ :: _ :: stripLineComments ('\n' :: tail)
        rw [skipLine_nl, stripLineComments_other _ _ (by decide)]
      cases ns with
      | nil =>
        simp only [closeNamespaceRev, List.length_singleton]
        rw [one rest, depthAfter_close, depthAfter_other _ _ _ (by decide) (by decide)]
      | cons m ms =>
        simp only [closeNamespaceRev, List.length_cons]
        have h1 := one (closeNamespaceRev (m :: ms) ++ nl ++ rest)
        simp only [List.append_assoc] at h1 ⊢
        rw [h1]
        have h2 := ih (fun x hx => hrs x (List.mem_cons_of_mem _ hx)) d (by simp)
        simp only [List.length_cons, List.append_assoc] at h2
        show depthAfter ('}' :: ' ' :: stripLineComments ('\n' :: (closeNamespaceRev (m :: ms) ++ (nl ++ rest)))) _ = _
        rw [stripLineComments_other _ _ (by decide)]
        rw [show d + (ms.length + 1 + 1) = (d + (ms.length + 1)) + 1 by omega, depthAfter_close]
        rw [depthAfter_other _ _ _ (by decide) (by decide), depthAfter_other _ _ _ (by decide) (by decide), h2]
  cases names with
  | nil => simp [closeNamespace, closeNamespaceRev]
  | cons n ns =>
    have := key (n :: ns).reverse (fun x hx => hn x (List.mem_reverse.mp hx)) d (by simp)
    simpa [closeNamespace] using this

end NunavutVerif.Deps

/-! ## 4. identifiers of distinct DSDL entities in one translation unit

`Model/Names.lean`: the C / C++ reference names of composite types and the `#define`s of a C header.  Stropping enters as
the function `strop` (the real table on the tie; C09 proves its properties); collisions *through* stropping are excluded by
the property statement, so injectivity of `strop` on the names involved is a hypothesis where it is needed. -/
namespace NunavutVerif.Deps
open NunavutVerif.Names hiding lit
open NunavutVerif.Namespace (Str shortVer joinWith map_injOn shortVer_inj)

/-- T4a (C++): the qualified name `ns₁::…::nsₖ::Short_M_m` identifies (namespace components, short name, major, minor):
two composite types (also the request / response types nested in services) with the same qualified name are the same
type, provided stropping does not fold the names involved and its results are identifiers (no `:`). -/
theorem C06_cpp_qualified_names_injective (strop : Str → Str) (enable : Bool) (t u : TName)
    (hid : ∀ p ∈ cppParts strop enable t ++ cppParts strop enable u, ':' ∉ p)
    (hcomps : ∀ a ∈ t.ns, ∀ b ∈ u.ns, estrop strop enable a = estrop strop enable b → a = b)
    (hname : estrop strop enable (shortVer t) = estrop strop enable (shortVer u) → shortVer t = shortVer u)
    (h : cppFullRef strop enable t = cppFullRef strop enable u) : t = u := by
  have hp := joinWith_inj ':' [':'] (cppParts strop enable t) (cppParts strop enable u) (by simp [cppParts])
    (by simp [cppParts]) (fun x hx => hid x (List.mem_append_left _ hx)) (fun x hx => hid x (List.mem_append_right _ hx)) h
  obtain ⟨h1, h2⟩ := List.append_inj' hp rfl
  obtain ⟨h3, h4, h5⟩ := shortVer_inj (hname (List.cons.inj h2).1)
  have h6 := map_injOn (estrop strop enable) t.ns u.ns hcomps h1
  cases t; cases u; simp_all

/-- T4b (C): exactly when two composite types get the same C reference name `ns₁_…_nsₖ_Short_M_m`: the versions agree
and the namespace components and the short name, *cut at their underscores*, give the same sequence of words — where
one name ends and the next begins is lost (`a.b_c` / `a_b.c`).  (`hname`: stropping does not fold the two joined names;
void when stropping is off.) -/
theorem C06_c_reference_name_collision_iff (strop : Str → Str) (enable : Bool) (t u : TName)
    (hname : estrop strop enable (joinWith ['_'] (t.ns ++ [shortVer t])) = estrop strop enable (joinWith ['_'] (u.ns ++ [shortVer u]))
      → joinWith ['_'] (t.ns ++ [shortVer t]) = joinWith ['_'] (u.ns ++ [shortVer u])) :
    cFullRef strop enable t = cFullRef strop enable u ↔ (cWords t = cWords u ∧ t.major = u.major ∧ t.minor = u.minor) := by
  constructor
  · intro h
    exact (cJoin_eq_iff t u).1 (hname h)
  · intro h
    unfold cFullRef
    rw [(cJoin_eq_iff t u).2 h]

/-- T4c (C): hence among types whose namespace components and short names contain no underscore the C reference name is
injective … -/
theorem C06_c_reference_names_injective_without_underscores (strop : Str → Str) (enable : Bool) (t u : TName)
    (hname : estrop strop enable (joinWith ['_'] (t.ns ++ [shortVer t])) = estrop strop enable (joinWith ['_'] (u.ns ++ [shortVer u]))
      → joinWith ['_'] (t.ns ++ [shortVer t]) = joinWith ['_'] (u.ns ++ [shortVer u]))
    (ht : ∀ x ∈ t.ns ++ [t.short], '_' ∉ x) (hu : ∀ x ∈ u.ns ++ [u.short], '_' ∉ x)
    (h : cFullRef strop enable t = cFullRef strop enable u) : t = u := by
  obtain ⟨hw, hM, hm⟩ := (C06_c_reference_name_collision_iff strop enable t u hname).1 h
  unfold cWords at hw
  rw [flatMap_splitU_of_no_underscore _ ht, flatMap_splitU_of_no_underscore _ hu] at hw
  obtain ⟨h1, h2⟩ := List.append_inj' hw rfl
  cases t; cases u; simp_all

/-- … and in general it is not: the witness the harness replays on the real generator and compiler (corpus
`name_twins`, finding `c-reference-name-collision`). -/
example : cFullRef id false ⟨[lit "nm", lit "a"], lit "b_c", 1, 0⟩ = cFullRef id false ⟨[lit "nm", lit "a_b"], lit "c", 1, 0⟩
    ∧ (⟨[lit "nm", lit "a"], lit "b_c", 1, 0⟩ : TName) ≠ ⟨[lit "nm", lit "a_b"], lit "c", 1, 0⟩ := by decide
/-- The same two types keep different C++ names. -/
example : cppFullRef id false ⟨[lit "nm", lit "a"], lit "b_c", 1, 0⟩ ≠ cppFullRef id false ⟨[lit "nm", lit "a_b"], lit "c", 1, 0⟩ := by
  decide

/-- T4d (C): a collision of C reference names is also a collision of include guards: pass 0 of `to_snake_case`, the
first thing `macrofy` does to the dotted full name, yields the very `_`-join the reference name is made of (the later
passes, the case change and the stropping are functions of that string).  So the second of two such headers is skipped
by the preprocessor — the translation unit compiles, with the wrong definition. -/
theorem C06_c_name_collision_is_guard_collision (t u : TName) (ht : WordComps (t.ns ++ [t.short]))
    (hu : WordComps (u.ns ++ [u.short]))
    (h : joinWith ['_'] (t.ns ++ [t.short]) = joinWith ['_'] (u.ns ++ [u.short])) :
    snake0 (joinWith ['.'] (t.ns ++ [t.short])) = snake0 (joinWith ['.'] (u.ns ++ [u.short])) := by
  rw [snake0_dotted _ (by simp) ht, snake0_dotted _ (by simp) hu, h]

/-- T4e (C, inside one header): the `#define`s of a message type are `<ref>_<suffix>` for suffixes of
`compSuffixSet`, and these are pairwise distinct when the attribute names of the type are (DSDL demands it) and no
constant is named like a suffix of the templates (`EXTENT_BYTES_`, `FULL_NAME_`, `HAS_FIXED_PORT_ID_`, …) or like
`<array field>_ARRAY_CAPACITY_` / `<array field>_ARRAY_IS_VARIABLE_LENGTH_` (`constsClear`). -/
theorem C06_c_macro_names_distinct (ovr : Bool) (ref : Str) (fixedPort : Bool) (c : CompNames)
    (hnd : (c.fields.map (·.1) ++ c.consts).Nodup) (hclear : constsClear c = true) :
    (∀ n ∈ cDefinesMsg ovr ref fixedPort c, n ∈ (compSuffixSet c).map (macroName ref))
    ∧ ((compSuffixSet c).map (macroName ref)).Nodup := by
  constructor
  · intro n hn
    simp only [cDefinesMsg, List.mem_map, List.mem_append] at hn
    obtain ⟨x, hx, rfl⟩ := hn
    refine List.mem_map_of_mem ?_
    rcases hx with hx | hx
    · show x ∈ fixedSuffixes ++ c.consts ++ derived (arrayFields c)
      have : x = sHasPort ∨ x = sPort := by
        split at hx
        · simpa using hx
        · exact Or.inl (by simpa using hx)
      rcases this with h | h <;> simp [fixedSuffixes, h]
    · exact compSuffixes_sub ovr c x hx
  · exact nodup_map_of_inj _ (fun _ _ e => macroName_inj ref e) _ (compSuffixSet_nodup c hnd hclear)

/-- Without `constsClear` it fails: `uint8 EXTENT_BYTES_ = 1` defines `<ref>_EXTENT_BYTES_` twice (the harness replays
this on the real generator: corpus `name_clash`, finding `c-constant-named-like-generated-macro`). -/
example : constsClear ⟨[], [lit "EXTENT_BYTES_"], false⟩ = false
    ∧ ¬ (cDefinesMsg false (lit "nm_K_1_0") false ⟨[], [lit "EXTENT_BYTES_"], false⟩).Nodup := by decide
example : constsClear ⟨[(lit "x", .varArr)], [lit "x_ARRAY_CAPACITY_"], false⟩ = false
    ∧ ¬ (cDefinesMsg false (lit "nm_K_1_0") false ⟨[(lit "x", .varArr)], [lit "x_ARRAY_CAPACITY_"], false⟩).Nodup := by decide
/-- Non-vacuity: an ordinary type meets the hypotheses. -/
example : constsClear ⟨[(lit "x", .varArr), (lit "y", .scalar)], [lit "MAX"], true⟩ = true
    ∧ (cDefinesMsg true (lit "r") true ⟨[(lit "x", .varArr), (lit "y", .scalar)], [lit "MAX"], true⟩).length = 11 := by decide

end NunavutVerif.Deps
