import NunavutVerif.Model.Deps
namespace NunavutVerif.Deps
end NunavutVerif.Deps
