import NunavutVerif.Lemmas.GenCSer
import NunavutVerif.Lemmas.GenCDe
import NunavutVerif.Lemmas.DsdlRepr
import NunavutVerif.Lemmas.DsdlDecode
import NunavutVerif.Lemmas.GenCXDe
import NunavutVerif.Lemmas.GenCXSer
/-!
# C01 / C02 / C04 — the generated C codecs refine the DSDL specification

`Model/GenC.lean` transcribes what the C templates emit (running `offset_bits`, up-front capacity check, every field
macro with each fast path, nested calls on sub-buffers, delimiter header reserve / back-patch, union tag dispatch,
return codes), on top of the C14 models of the support primitives.  The theorems below say that this
implementation-shaped model **refines** the specification `Model/Dsdl.lean` — for *every* type, object, buffer,
capacity, both `target_endianness` renderings, `enable_serialization_asserts` on and off (`Opts.asserts`: every
`NUNAVUT_ASSERT` of the templates is a branch of the model that aborts) and every sound alignment oracle; by structural
induction over the type, from the C14 contracts of the primitives.

Hypotheses, all of them facts PyDSDL / the C type system guarantee: `wf`/`wfC` (widths, capacities, `void1…64`),
`isComposite (topInner t)` (generated functions exist for composites), `hasTy` (the object has the shape of the type),
`storageOK` (integers fit the member's C type, `float` members hold binary32 values), `WF buf` (bytes are bytes),
`cap ≤ buf.length` (the caller's `*inout_buffer_size_bytes` does not exceed the buffer it supplies), `Opts.Sound`
(the generation-time oracle claims alignment only where it holds; `C01_genC_exact_oracle_sound`: the driver's does).
-/
namespace NunavutVerif.GenC
open NunavutVerif.Dsdl NunavutVerif.Bits

/-- The oracle of the driver (the exact residue analysis; by the structural tie: PyDSDL's `is_aligned_at_byte`)
is sound. -/
theorem C01_genC_exact_oracle_sound (little : Bool) (fill : Nat) (asserts : Bool) :
    Opts.Sound { little := little, orc := exactOrc, fill := fill, asserts := asserts } :=
  exactOrc_sound little fill asserts

/-- (b) `8·capacity < maxBits` ⇒ `-NUNAVUT_ERROR_SERIALIZATION_BUFFER_TOO_SMALL`, returned before the object is
looked at and before any buffer access (the model's first branch; no primitive is called). -/
theorem C01_genC_buffer_too_small (o : Opts) (hs : o.Sound) (t : Ty) (hc : isComposite (topInner t) = true)
    (v : Val) (ht : hasTy t v = true) (buf : Buf) (cap : Nat) (h : 8 * cap < maxBits (topInner t)) :
    serializeC o t v buf cap = .error eTooSmall :=
  serializeC_tooSmall o hs t hc v ht buf cap h

/-- (c) Otherwise the generated serializer reports `serBytes`'s length and leaves exactly `serBytes t obj` in the
first bytes of the buffer (whatever the buffer held before), or returns the code of the specification's error
(`BAD_ARRAY_LENGTH`, `BAD_UNION_TAG`). -/
theorem C01_genC_serialize_refines (o : Opts) (hs : o.Sound) (t : Ty) (hw : wf t = true) (hwC : wfC t = true)
    (hc : isComposite (topInner t) = true) (v : Val) (ht : hasTy t v = true) (hst : storageOK t v = true)
    (buf : Buf) (cap : Nat) (hwf : WF buf) (hcap : cap ≤ buf.length) (hroom : maxBits (topInner t) ≤ 8 * cap) :
    match serBytes t v with
    | .ok bytes => ∃ buf', serializeC o t v buf cap = .ok (buf', bytes.length) ∧ buf'.take bytes.length = bytes ∧
        buf'.length = buf.length ∧ WF buf'
    | .error e => serializeC o t v buf cap = .error (embedS e) :=
  serializeC_refines o hs t hw hwC hc v ht hst buf cap hwf hcap hroom

/-- The same against `serBuf` (the spec's "serialize into a buffer of `cap` bytes"), all capacities at once. -/
theorem C01_genC_serialize_eq_serBuf (o : Opts) (hs : o.Sound) (t : Ty) (hw : wf t = true) (hwC : wfC t = true)
    (hc : isComposite (topInner t) = true) (v : Val) (ht : hasTy t v = true) (hst : storageOK t v = true)
    (buf : Buf) (cap : Nat) (hwf : WF buf) (hcap : cap ≤ buf.length) :
    (serializeC o t v buf cap).map (fun r => r.1.take r.2) = (serBuf t v cap).mapError embedS := by
  unfold serBuf
  by_cases h : cap * 8 < maxBits (topInner t)
  · rw [if_pos h, serializeC_tooSmall o hs t hc v ht buf cap (by omega)]
    rfl
  · rw [if_neg h]
    have := serializeC_refines o hs t hw hwC hc v ht hst buf cap hwf hcap (by omega)
    cases hsb : serBytes t v with
    | error e => rw [hsb] at this; rw [this]; rfl
    | ok bytes =>
      rw [hsb] at this
      obtain ⟨buf', h1, h2, _⟩ := this
      rw [h1]
      simp [Except.map, Except.mapError, h2]

/-- (a) Memory safety of serialization (serves C04): no support primitive and no raw `buffer[i]` access of the
generated serializer ever leaves the supplied buffer or the object (`Err.prim` — `oob`, and the `fuel`/`wrap`/
`overflow` conditions of the primitive models — is unreachable), for all objects incl. counts and tags out of range,
all buffers and all capacities incl. 0. -/
theorem C04_genC_serialize_memory_safe (o : Opts) (hs : o.Sound) (t : Ty) (hw : wf t = true) (hwC : wfC t = true)
    (hc : isComposite (topInner t) = true) (v : Val) (ht : hasTy t v = true) (hst : storageOK t v = true)
    (buf : Buf) (cap : Nat) (hwf : WF buf) (hcap : cap ≤ buf.length) (e : Bits.Err) :
    serializeC o t v buf cap ≠ .error (.prim e) := by
  by_cases h : 8 * cap < maxBits (topInner t)
  · rw [serializeC_tooSmall o hs t hc v ht buf cap h]
    intro hh; cases hh
  · have := serializeC_refines o hs t hw hwC hc v ht hst buf cap hwf hcap (by omega)
    cases hsb : serBytes t v with
    | error e' =>
      rw [hsb] at this; rw [this]
      cases e' <;> intro hh <;> cases hh
    | ok bytes =>
      rw [hsb] at this
      obtain ⟨buf', h1, _⟩ := this
      rw [h1]; intro hh; cases hh

/-- Every exit of the generated serializer is success or one of the documented codes (C04, totality). -/
theorem C04_genC_serialize_exits (o : Opts) (hs : o.Sound) (t : Ty) (hw : wf t = true) (hwC : wfC t = true)
    (hc : isComposite (topInner t) = true) (v : Val) (ht : hasTy t v = true) (hst : storageOK t v = true)
    (buf : Buf) (cap : Nat) (hwf : WF buf) (hcap : cap ≤ buf.length) :
    (∃ r, serializeC o t v buf cap = .ok r) ∨ serializeC o t v buf cap = .error eTooSmall ∨
      serializeC o t v buf cap = .error eBadArrayLength ∨ serializeC o t v buf cap = .error eBadUnionTag := by
  by_cases h : 8 * cap < maxBits (topInner t)
  · exact Or.inr (Or.inl (serializeC_tooSmall o hs t hc v ht buf cap h))
  · have := serializeC_refines o hs t hw hwC hc v ht hst buf cap hwf hcap (by omega)
    have hrej := serOK (topInner t) v (hasTy_topInner o hs ht)
    cases hsb : serBytes t v with
    | error e' =>
      rw [hsb] at this
      simp only [serBytes, serTop] at hsb
      rw [map_eq_error] at hsb
      cases hr : representable (topInner t) v with
      | true => obtain ⟨bs, hb⟩ := hrej.1 hr; rw [hb] at hsb; cases hsb
      | false =>
        obtain ⟨e2, he2, hk⟩ := hrej.2 hr
        rw [he2] at hsb; cases hsb
        rcases hk with rfl | rfl
        · exact Or.inr (Or.inr (Or.inl this))
        · exact Or.inr (Or.inr (Or.inr this))
    | ok bytes =>
      rw [hsb] at this
      obtain ⟨buf', h1, _⟩ := this
      exact Or.inl ⟨_, h1⟩

/-- (e) C03 cross-option corollary: the `any` and `little` renderings, under any two sound oracles, report the same
size and produce the same bytes (or the same error). -/
theorem C01_genC_serialize_options_agree (o₁ o₂ : Opts) (h₁ : o₁.Sound) (h₂ : o₂.Sound) (t : Ty) (hw : wf t = true)
    (hwC : wfC t = true) (hc : isComposite (topInner t) = true) (v : Val) (ht : hasTy t v = true)
    (hst : storageOK t v = true) (buf : Buf) (cap : Nat) (hwf : WF buf) (hcap : cap ≤ buf.length) :
    (serializeC o₁ t v buf cap).map (fun r => r.1.take r.2) = (serializeC o₂ t v buf cap).map (fun r => r.1.take r.2) := by
  rw [C01_genC_serialize_eq_serBuf o₁ h₁ t hw hwC hc v ht hst buf cap hwf hcap,
    C01_genC_serialize_eq_serBuf o₂ h₂ t hw hwC hc v ht hst buf cap hwf hcap]

/-! ## Deserialization -/

/-- (d) The generated deserializer, given `cap` bytes, returns exactly what the specification returns on these
bytes: the object (implicit zero extension where the data ends early, implicit truncation where it is longer,
delimited members confined to their header), the consumed size `min(offset, capacity) / 8`, and the code of the
specification's error (`BAD_ARRAY_LENGTH`, `BAD_UNION_TAG`, `BAD_DELIMITER_HEADER`). -/
theorem C02_genC_deserialize_refines (o : Opts) (hs : o.Sound) (t : Ty) (hw : wf t = true) (hwC : wfC t = true)
    (hc : isComposite (topInner t) = true) (buf : Buf) (cap : Nat) (hwf : WF buf) (hcap : cap ≤ buf.length) :
    deserializeC o t buf cap = (deBytes t (buf.take cap)).mapError embedD :=
  deserializeC_refines o hs t hw hwC hc buf cap hwf hcap

/-- The usual call: the whole byte string is supplied. -/
theorem C02_genC_deserialize_bytes (o : Opts) (hs : o.Sound) (t : Ty) (hw : wf t = true) (hwC : wfC t = true)
    (hc : isComposite (topInner t) = true) (bytes : Buf) (hwf : WF bytes) :
    deserializeC o t bytes bytes.length = (deBytes t bytes).mapError embedD := by
  have := deserializeC_refines o hs t hw hwC hc bytes bytes.length hwf (Nat.le_refl _)
  rwa [List.take_length] at this

/-- `consumed ≤ supplied`, on the implementation model. -/
theorem C02_genC_consumed_le_supplied (o : Opts) (hs : o.Sound) (t : Ty) (hw : wf t = true) (hwC : wfC t = true)
    (hc : isComposite (topInner t) = true) (buf : Buf) (cap : Nat) (hwf : WF buf) (hcap : cap ≤ buf.length)
    (v : Val) (n : Nat) (h : deserializeC o t buf cap = .ok (v, n)) : n ≤ cap := by
  rw [deserializeC_refines o hs t hw hwC hc buf cap hwf hcap] at h
  have hlen : (unpackBytes (buf.take cap)).length = 8 * cap := bitsOf_length hcap
  simp only [deBytes, deTop, hlen] at h
  cases hsp : deBits (topInner t) (unpackBytes (buf.take cap)) with
  | error e => rw [hsp] at h; cases h
  | ok r =>
    obtain ⟨v', used⟩ := r
    rw [hsp] at h
    simp only [Except.mapError] at h
    cases h
    omega

/-- Implicit zero extension on the implementation model: the generated deserializer returns the same object for a
byte string and for the same string followed by any number of zero bytes (data that ends early is read as zeros). -/
theorem C02_genC_zero_extension (o : Opts) (hs : o.Sound) (t : Ty) (hw : wf t = true) (hwC : wfC t = true)
    (hc : isComposite (topInner t) = true) (bytes : Buf) (hwf : WF bytes) (k : Nat) (v : Val) (n : Nat)
    (h : deserializeC o t bytes bytes.length = .ok (v, n)) :
    ∃ n', deserializeC o t (bytes ++ List.replicate k 0) (bytes.length + k) = .ok (v, n') := by
  have hwf' : WF (bytes ++ List.replicate k 0) := WF_append hwf (WF_replicate' k 0 (by decide))
  have h1 := deserializeC_refines o hs t hw hwC hc bytes bytes.length hwf (Nat.le_refl _)
  have h2 := deserializeC_refines o hs t hw hwC hc (bytes ++ List.replicate k 0) (bytes.length + k) hwf' (by simp)
  rw [List.take_length] at h1
  rw [show bytes.length + k = (bytes ++ List.replicate k 0).length by simp, List.take_length] at h2
  rw [show bytes.length + k = (bytes ++ List.replicate k 0).length by simp, h2]
  rw [h1] at h
  unfold deBytes deTop at h ⊢
  rw [unpackBytes_append, unpackBytes_zeros]
  cases hsp : deBits (topInner t) (unpackBytes bytes) with
  | error e => rw [hsp] at h; cases h
  | ok r =>
    obtain ⟨v', m⟩ := r
    rw [hsp] at h
    simp only [Except.mapError] at h
    cases h
    rw [zxOK (topInner t) _ v m (8 * k) hsp]
    exact ⟨_, rfl⟩

/-- The reported size never exceeds the capacity the caller declared (buffer sufficiency on the implementation). -/
theorem C01_genC_reported_size_le_capacity (o : Opts) (hs : o.Sound) (t : Ty) (hw : wf t = true)
    (hwC : wfC t = true) (hc : isComposite (topInner t) = true) (v : Val) (ht : hasTy t v = true)
    (hst : storageOK t v = true) (buf : Buf) (cap : Nat) (hwf : WF buf) (hcap : cap ≤ buf.length) (buf' : Buf)
    (n : Nat) (h : serializeC o t v buf cap = .ok (buf', n)) : n ≤ cap := by
  have hroom : maxBits (topInner t) ≤ 8 * cap := by
    apply Nat.le_of_not_lt
    intro hlt
    rw [serializeC_tooSmall o hs t hc v ht buf cap hlt] at h
    cases h
  have := serializeC_refines o hs t hw hwC hc v ht hst buf cap hwf hcap hroom
  cases hsb : serBytes t v with
  | error e => rw [hsb] at this; rw [this] at h; cases h
  | ok bytes =>
    rw [hsb] at this
    obtain ⟨b2, h1, _⟩ := this
    rw [h1] at h
    cases h
    simp only [serBytes, serTop] at hsb
    rw [map_eq_ok] at hsb
    obtain ⟨bits, hb, rfl⟩ := hsb
    have := (lenOK (topInner t) (wf_topInner hw) v bits hb).2.1
    rw [packBytes_length]
    omega

/-- Every exit of the generated deserializer is success or one of the three representation errors; the error is
the specification's. -/
theorem C02_genC_deserialize_exits (o : Opts) (hs : o.Sound) (t : Ty) (hw : wf t = true) (hwC : wfC t = true)
    (hc : isComposite (topInner t) = true) (buf : Buf) (cap : Nat) (hwf : WF buf) (hcap : cap ≤ buf.length) :
    (∃ r, deserializeC o t buf cap = .ok r) ∨ deserializeC o t buf cap = .error eBadArrayLength ∨
      deserializeC o t buf cap = .error eBadUnionTag ∨ deserializeC o t buf cap = .error eBadDelimiterHeader := by
  rw [deserializeC_refines o hs t hw hwC hc buf cap hwf hcap]
  cases deBytes t (buf.take cap) with
  | ok r => exact Or.inl ⟨r, rfl⟩
  | error e =>
    cases e
    · exact Or.inr (Or.inl rfl)
    · exact Or.inr (Or.inr (Or.inl rfl))
    · exact Or.inr (Or.inr (Or.inr rfl))

/-- (a) Memory safety of deserialization (serves C04): no getter and no raw `buffer[i]` read ever leaves the
`cap` supplied bytes, no `nunavutGetBits` leaves the destination array (`Err.prim` unreachable; this includes the
signed-overflow condition of the `nunavutGetIxx` sign extension), for all byte strings and sizes incl. 0, lengths
and tags out of range, delimiter headers pointing anywhere. -/
theorem C04_genC_deserialize_memory_safe (o : Opts) (hs : o.Sound) (t : Ty) (hw : wf t = true) (hwC : wfC t = true)
    (hc : isComposite (topInner t) = true) (buf : Buf) (cap : Nat) (hwf : WF buf) (hcap : cap ≤ buf.length)
    (e : Bits.Err) : deserializeC o t buf cap ≠ .error (.prim e) := by
  rw [deserializeC_refines o hs t hw hwC hc buf cap hwf hcap]
  cases deBytes t (buf.take cap) with
  | ok r => intro h; cases h
  | error e' => cases e' <;> intro h <;> cases h

/-- With `enable_serialization_asserts` no `NUNAVUT_ASSERT` the templates emit can fail (C04, totality under that
option): the alignment claims of the generator (`offset.is_aligned_at_byte()` turned into run-time assertions), the
room assertions `offset_bits + max <= capacity_bytes * 8` at every site, the size bounds after arrays and nested
calls, the padding and final size assertions — on any object, buffer and capacity. -/
theorem C04_genC_no_assertion_fails (o : Opts) (hs : o.Sound) (t : Ty) (hw : wf t = true) (hwC : wfC t = true)
    (hc : isComposite (topInner t) = true) (v : Val) (ht : hasTy t v = true) (hst : storageOK t v = true)
    (buf : Buf) (cap : Nat) (hwf : WF buf) (hcap : cap ≤ buf.length) :
    serializeC o t v buf cap ≠ .error .assert ∧ deserializeC o t buf cap ≠ .error .assert := by
  constructor
  · by_cases h : 8 * cap < maxBits (topInner t)
    · rw [serializeC_tooSmall o hs t hc v ht buf cap h]
      intro hh; cases hh
    · have := serializeC_refines o hs t hw hwC hc v ht hst buf cap hwf hcap (by omega)
      cases hsb : serBytes t v with
      | error e' =>
        rw [hsb] at this; rw [this]
        cases e' <;> intro hh <;> cases hh
      | ok bytes =>
        rw [hsb] at this
        obtain ⟨buf', h1, _⟩ := this
        rw [h1]; intro hh; cases hh
  · rw [deserializeC_refines o hs t hw hwC hc buf cap hwf hcap]
    cases deBytes t (buf.take cap) with
    | ok r => intro h; cases h
    | error e' => cases e' <;> intro h <;> cases h

/-- Prior-state independence (C04): what the destination arrays held before the call (`fill`), the bytes of the
buffer beyond the supplied size, the endianness rendering and the oracle have no influence on the result. -/
theorem C04_genC_deserialize_prior_state_independent (o₁ o₂ : Opts) (h₁ : o₁.Sound) (h₂ : o₂.Sound) (t : Ty)
    (hw : wf t = true) (hwC : wfC t = true) (hc : isComposite (topInner t) = true) (buf₁ buf₂ : Buf) (cap : Nat)
    (hwf₁ : WF buf₁) (hwf₂ : WF buf₂) (hcap₁ : cap ≤ buf₁.length) (hcap₂ : cap ≤ buf₂.length)
    (hsame : buf₁.take cap = buf₂.take cap) :
    deserializeC o₁ t buf₁ cap = deserializeC o₂ t buf₂ cap := by
  rw [deserializeC_refines o₁ h₁ t hw hwC hc buf₁ cap hwf₁ hcap₁,
    deserializeC_refines o₂ h₂ t hw hwC hc buf₂ cap hwf₂ hcap₂, hsame]

/-- (e) C03 cross-option corollary for deserialization. -/
theorem C02_genC_deserialize_options_agree (o₁ o₂ : Opts) (h₁ : o₁.Sound) (h₂ : o₂.Sound) (t : Ty)
    (hw : wf t = true) (hwC : wfC t = true) (hc : isComposite (topInner t) = true) (buf : Buf) (cap : Nat)
    (hwf : WF buf) (hcap : cap ≤ buf.length) :
    deserializeC o₁ t buf cap = deserializeC o₂ t buf cap :=
  C04_genC_deserialize_prior_state_independent o₁ o₂ h₁ h₂ t hw hwC hc buf buf cap hwf hwf hcap hcap rfl

/-- Round trip through the two generated functions (C03 on the implementation model): what the serializer leaves
in the buffer, the deserializer maps back to the cast-adjusted object, consuming exactly the reported size. -/
theorem C01_genC_round_trip (o : Opts) (hs : o.Sound) (t : Ty) (hw : wf t = true) (hwC : wfC t = true)
    (hc : isComposite (topInner t) = true) (v : Val) (ht : hasTy t v = true) (hst : storageOK t v = true)
    (buf : Buf) (cap : Nat) (hwf : WF buf) (hcap : cap ≤ buf.length) (buf' : Buf) (n : Nat)
    (h : serializeC o t v buf cap = .ok (buf', n)) :
    deserializeC o t buf' n = (deBytes t (buf'.take n)).mapError embedD ∧ serBytes t v = .ok (buf'.take n) := by
  have hroom : maxBits (topInner t) ≤ 8 * cap := by
    apply Nat.le_of_not_lt
    intro hlt
    rw [serializeC_tooSmall o hs t hc v ht buf cap hlt] at h
    cases h
  have := serializeC_refines o hs t hw hwC hc v ht hst buf cap hwf hcap hroom
  cases hsb : serBytes t v with
  | error e => rw [hsb] at this; rw [this] at h; cases h
  | ok bytes =>
    rw [hsb] at this
    obtain ⟨b2, h1, h2, h3, h4⟩ := this
    rw [h1] at h
    cases h
    refine ⟨deserializeC_refines o hs t hw hwC hc buf' _ h4 ?_, by rw [h2]⟩
    rw [← h2]; simp [List.length_take]; omega

/-! ### non-vacuity -/

/-- `struct { truncated uint5 x; void3; int16 y; bool[3] f; Inner[<=2] z }`-like type with a delimited member -/
def exTy : Ty :=
  .struct [.uint 5 .trunc, .void 3, .sint 16 .sat, .arr .bool 3,
    .delim 64 (.struct [.uint 3 .sat, .varr (.sint 12 .sat) 2])]

def exVal : Val :=
  .struct [.int 255, .void, .int (-2), .arr [.bool true, .bool false, .bool true],
    .struct [.int 9, .arr [.int (-5), .int 3000]]]

def optAny : Opts := { little := false, orc := exactOrc }
def optLittle : Opts := { little := true, orc := exactOrc, asserts := true }

example : wf exTy = true ∧ wfC exTy = true ∧ hasTy exTy exVal = true ∧ storageOK exTy exVal = true := by decide

example : maxBits exTy = 128 := by decide

example : (serializeC optAny exTy exVal (List.replicate 16 255) 16).map (fun r => r.1.take r.2)
    = .ok [31, 254, 255, 5, 5, 0, 0, 0, 23, 216, 255, 255, 3] := by decide

example : (serializeC optLittle exTy exVal (List.replicate 16 255) 16).map (fun r => r.1.take r.2)
    = (serBytes exTy exVal).mapError embedS := by decide

example : serializeC optLittle exTy exVal (List.replicate 15 255) 15 = .error eTooSmall := by decide

example : serializeC optAny (.struct [.varr .bool 2]) (.struct [.arr [.bool true, .bool true, .bool false]])
    (List.replicate 4 0) 4 = .error eBadArrayLength := by decide

example : deserializeC optAny exTy [31, 254, 255, 5, 5, 0, 0, 0, 23, 216, 255, 255, 3] 13
    = .ok (.struct [.int 31, .void, .int (-2), .arr [.bool true, .bool false, .bool true],
        .struct [.int 7, .arr [.int (-5), .int 2047]]], 13) := by decide

/-- implicit zero extension: two bytes only -/
example : deserializeC optLittle exTy [31, 254] 2
    = .ok (.struct [.int 31, .void, .int 254, .arr [.bool false, .bool false, .bool false],
        .struct [.int 0, .arr []]], 2) := by decide

example : deserializeC optAny exTy [31, 254, 255, 5, 9, 0, 0, 0, 23] 9 = .error eBadDelimiterHeader := by decide

example : deserializeC optAny exTy [31, 254, 255, 5, 2, 0, 0, 0, 23, 3] 10 = .error eBadArrayLength := by decide

/-! The soundness hypothesis on the oracle is necessary, and the assertion branches are live: an oracle that claims
alignment everywhere makes the generated code of `struct { uint3 a; uint8 b }` store `b` with a whole-byte write at
bit 3 — wrong bytes without assertions, an aborting `NUNAVUT_ASSERT(offset_bits % 8U == 0U)` with them. -/

def liar (a : Bool) : Opts := { little := false, orc := fun _ => true, asserts := a }
def exTy2 : Ty := .struct [.uint 3 .sat, .uint 8 .sat]
def exVal2 : Val := .struct [.int 5, .int 255]

example : serBytes exTy2 exVal2 = .ok [253, 7] := by decide
example : (serializeC (liar false) exTy2 exVal2 [0, 0] 2) = .ok ([255, 0], 2) := by decide
example : serializeC (liar true) exTy2 exVal2 [0, 0] 2 = .error .assert := by decide
example : deserializeC (liar true) exTy2 [253, 7] 2 = .error .assert := by decide
example : deserializeC (liar false) exTy2 [253, 7] 2 ≠ (deBytes exTy2 [253, 7]).mapError embedD := by decide

/-! ## Round 2: addresses (the `nunavutCopyBits` assertions about `src` / `dst`) -/

/-- **Deserialization with addresses** (C02/C04).  `deserializeCX` is the same transcription with every
`nunavutCopyBits` call preceded by its three address assertions (`(length_bits == 0U) || (src != dst)` as emitted since
23731cd and, in the unaligned branch, the two overlap assertions as emitted since 443d39c), the buffer at address `b0`, nested calls on `&buffer[offset_bits / 8U]`,
and the primitive's local / the destination member array wherever the placement `X.adr` puts them.  For **every**
placement that keeps those objects disjoint from the user's buffer (`Placed`: no assumption about order or
distance) the result is that of `deserializeC` — in particular the source range `psrc + (src_offset_bits +
length_bits + 7) / 8`, which is computed from the UNSATURATED offset and may reach far behind the buffer, cannot
matter: it is not evaluated for a copy of zero bits and lies inside the buffer otherwise (`copyBits_ok_inv`).
(`hfx`, `hhg` select the assertion text of HEAD.  The unguarded `src != dst` before 23731cd additionally needed that no such
object starts exactly at a pointer at or behind the end of the buffer — the code forms `&buffer[offset_bits / 8U]` there and
copies zero bits from it; see the examples below: that text fails under `Placed` alone.) -/
theorem C02_genC_deserialize_any_placement (o : Opts) (hs : o.Sound) (t : Ty) (hw : wf t = true) (hwC : wfC t = true)
    (hc : isComposite (topInner t) = true) (buf : Buf) (cap : Nat) (hwf : WF buf) (hcap : cap ≤ buf.length)
    (X : Ext) (hfx : X.fixed = true) (hhg : X.headGuarded = true) (hov : X.ovr = false) (b0 : Nat)
    (hp : Placed X b0 buf.length) :
    deserializeCX o X b0 t buf cap = deserializeC o t buf cap := by
  have hi : InvD o X b0 buf.length b0 buf := fun _ _ => ⟨Nat.le_refl _, fun _ => Nat.le_refl _⟩
  have hec : ∀ t c, effCap X t c = c := fun t c => by simp [effCap, hov]
  rcases (deSimP (B := False) hfx hp (Or.inl hhg) (fun t c => by rw [hec]; exact Nat.le_refl _)
      (fun t c h => by rw [hec] at h; exact absurd h (Nat.lt_irrefl _)) t).2 b0 buf cap hi with h | ⟨hB, _⟩ | ⟨e, h⟩
  · exact h
  · exact absurd hB id
  · exact absurd h (C04_genC_deserialize_memory_safe o hs t hw hwC hc buf cap hwf hcap e)

/-- … hence no assertion of the deserializer can fail, the address assertions of `nunavutCopyBits` included, wherever
the locals and the destination object are placed (extends `C04_genC_no_assertion_fails`). -/
theorem C04_genC_no_assertion_fails_any_placement_deserialize (o : Opts) (hs : o.Sound) (t : Ty) (hw : wf t = true)
    (hwC : wfC t = true) (hc : isComposite (topInner t) = true) (buf : Buf) (cap : Nat) (hwf : WF buf)
    (hcap : cap ≤ buf.length) (X : Ext) (hfx : X.fixed = true) (hhg : X.headGuarded = true) (hov : X.ovr = false)
    (b0 : Nat) (hp : Placed X b0 buf.length) :
    deserializeCX o X b0 t buf cap ≠ .error .assert := by
  rw [C02_genC_deserialize_any_placement o hs t hw hwC hc buf cap hwf hcap X hfx hhg hov b0 hp]
  rw [deserializeC_refines o hs t hw hwC hc buf cap hwf hcap]
  cases deBytes t (buf.take cap) with
  | ok r => intro h; cases h
  | error e' => cases e' <;> intro h <;> cases h

/-! Regression (443d39c) and non-vacuity: `uint7 a; void2; uint7 b` decoded from a one-byte buffer at address 100 with the
local of `nunavutGetU8` directly above it at 101.  Field `b` lies behind the buffer: zero bits are copied from bit
offset 9.  Text before the fix: `psrc + (9 + 0 + 7) / 8 = 102 > pdst` — abort.  Text now: not evaluated. -/
def regTy : Ty := .struct [.uint 7 .trunc, .void 2, .uint 7 .trunc]
def regOpts : Opts := { little := false, orc := exactOrc, asserts := true }
/-- everything the buffer is paired with sits at address `a` -/
def allAt (a : Nat) (fixed headGuarded : Bool) : Ext :=
  { addrs := true, adr := fun _ _ _ _ => a, fixed := fixed, headGuarded := headGuarded }

example : ∀ k pb off sz, Disj ((allAt 101 false true).adr k pb off sz) sz 100 1 := fun _ _ _ _ => Or.inr (Nat.le_refl _)
example : deserializeCX regOpts (allAt 101 false true) 100 regTy [0x55] 1 = .error .assert := by decide
example : deserializeCX regOpts (allAt 101 true true) 100 regTy [0x55] 1 = .ok (.struct [.int 0x55, .void, .int 0], 1) := by
  decide
example : deserializeC regOpts regTy [0x55] 1 = .ok (.struct [.int 0x55, .void, .int 0], 1) := by decide
-- the same with the local directly below the buffer, and little-endian rendering
example : deserializeCX { regOpts with little := true } (allAt 92 true true) 100 regTy [0x55] 1 =
    .ok (.struct [.int 0x55, .void, .int 0], 1) := by decide

/-! Regression (23731cd): `src != dst` as emitted before (unguarded, `headGuarded := false`): `uint8 a; Inner b` with `Inner = uint16 x`, one-byte buffer at 100: the nested call
gets `&buffer[1]` = 101 with size 0 and `nunavutGetU16` copies zero bits from it into its local — if that local is the
object right behind the buffer, `src == dst`: abort, under `Placed` alone.  Text of HEAD: not demanded of zero bits. -/
example : Placed (allAt 101 true false) 100 1 := fun _ _ _ _ => Or.inr (Nat.le_refl _)
def nestTy : Ty := .struct [.uint 8 .trunc, .struct [.uint 16 .trunc]]
example : deserializeCX regOpts (allAt 101 true false) 100 nestTy [7] 1 = .error .assert := by decide
example : deserializeCX regOpts (allAt 101 true true) 100 nestTy [7] 1 = deserializeC regOpts nestTy [7] 1 := by decide
example : deserializeCX regOpts (allAt 102 true false) 100 nestTy [7] 1 = deserializeC regOpts nestTy [7] 1 := by decide

/-! ### serialization with addresses -/

/-- **Serialization with addresses** (C01/C04).  `serializeCX`: every `nunavutCopyBits` call of the serializer (through
`nunavutSetUxx` / `nunavutSetIxx` — padding, voids, unaligned integers and floats, length prefixes, union tags, delimiter
headers — and the bulk copies of bool / zero-cost arrays from the member arrays) is preceded by its address assertions;
the buffer is at `b0`, nested `_serialize_` calls get `&buffer[offset_bits / 8U]`; the `value`/`tmp` local of
`nunavutSetUxx` and the source member arrays sit wherever the placement puts them.  For **every** placement that keeps
them disjoint from the user's buffer the result (buffer contents, reported size, error code) is that of `serializeC`.
No hypothesis about the head assertion is needed (holds for the text before 23731cd as well): when the serializer
copies, its buffer pointer lies strictly inside the user's buffer. -/
theorem C01_genC_serialize_any_placement (o : Opts) (hs : o.Sound) (t : Ty) (hw : wf t = true) (hwC : wfC t = true)
    (hc : isComposite (topInner t) = true) (v : Val) (ht : hasTy t v = true) (hst : storageOK t v = true)
    (buf : Buf) (cap : Nat) (hwf : WF buf) (hcap : cap ≤ buf.length)
    (X : Ext) (hfx : X.fixed = true) (hov : X.ovr = false) (hnc : X.noCheck = false) (b0 : Nat)
    (hp : Placed X b0 buf.length) :
    serializeCX o X b0 t v buf cap = serializeC o t v buf cap := by
  have hec : ∀ t c, effCap X t c = c := fun t c => by simp [effCap, hov]
  have hi : InvF o X b0 buf.length b0 buf.length cap := fun _ _ => ⟨Nat.le_refl _, Nat.le_refl _, hcap⟩
  rcases ((serSimP (B := False) hfx hp hnc (fun t c => by rw [hec]; exact Nat.le_refl _)
      (fun t c h => by rw [hec] at h; exact absurd h (Nat.lt_irrefl _)) t).2 v b0 buf cap hi).1 with h | ⟨hB, _⟩ | ⟨e, h⟩
  · exact h
  · exact absurd hB id
  · exact absurd h (C04_genC_serialize_memory_safe o hs t hw hwC hc v ht hst buf cap hwf hcap e)

/-- … hence no assertion of the serializer can fail, the address assertions of `nunavutCopyBits` included, wherever
the locals and the source object are placed (extends `C04_genC_no_assertion_fails`). -/
theorem C04_genC_no_assertion_fails_any_placement_serialize (o : Opts) (hs : o.Sound) (t : Ty) (hw : wf t = true)
    (hwC : wfC t = true) (hc : isComposite (topInner t) = true) (v : Val) (ht : hasTy t v = true)
    (hst : storageOK t v = true) (buf : Buf) (cap : Nat) (hwf : WF buf) (hcap : cap ≤ buf.length)
    (X : Ext) (hfx : X.fixed = true) (hov : X.ovr = false) (hnc : X.noCheck = false) (b0 : Nat)
    (hp : Placed X b0 buf.length) :
    serializeCX o X b0 t v buf cap ≠ .error .assert := by
  rw [C01_genC_serialize_any_placement o hs t hw hwC hc v ht hst buf cap hwf hcap X hfx hov hnc b0 hp]
  exact (C04_genC_no_assertion_fails o hs t hw hwC hc v ht hst buf cap hwf hcap).1

-- non-vacuity: the guard is really evaluated (an object INSIDE the buffer makes it fail), and passes next to it
example : serializeCX regOpts (allAt 100 true true) 100 regTy (.struct [.int 5, .void, .int 9]) [0, 0, 0] 3 = .error .assert := by
  decide
example : serializeCX regOpts (allAt 103 true true) 100 regTy (.struct [.int 5, .void, .int 9]) [0, 0, 0] 3 =
    serializeC regOpts regTy (.struct [.int 5, .void, .int 9]) [0, 0, 0] 3 := by decide
example : serializeCX regOpts (allAt 92 true false) 100 regTy (.struct [.int 5, .void, .int 9]) [0, 0, 0] 3 =
    serializeC regOpts regTy (.struct [.int 5, .void, .int 9]) [0, 0, 0] 3 := by decide

/-! ## Round 2: `--enable-override-variable-array-capacity`

Full statement (B): with user capacities `X.ucap elem c ≤ c`,
* `deserializeCX` returns `(deBytes t (buf.take cap))` when that is an object all of whose non-bool variable-length
  array counts are `≤ ucap`, `-BAD_ARRAY_LENGTH` when the first such count in wire order exceeds it, and the spec's error
  otherwise;  `serializeCX` (buffer large enough: the header compiles the up-front check out as soon as a capacity macro
  is defined by the user) accepts exactly the objects with all those counts `≤ ucap` and leaves `serBytes`.
Proved below (`…_partial`): both functions return **what the DSDL-capacity code returns, or `-BAD_ARRAY_LENGTH`** — never
anything else: no out-of-bounds access into the shortened member arrays, no assertion, same bytes / object / consumed size
whenever the call succeeds — for every placement; and with `ucap = DSDL capacity` they coincide with `serializeC` /
`deserializeC`, i.e. all theorems above carry over to the override build with the macros left at their defaults.
Missing: the characterisation of WHEN `-BAD_ARRAY_LENGTH` is returned by the counts of the object (a second induction
relating the result value to the counts); for serialization additionally `noCheck = true` with `maxBits ≤ 8·cap`. -/

theorem C02_genC_deserialize_override_partial (o : Opts) (hs : o.Sound) (t : Ty) (hw : wf t = true) (hwC : wfC t = true)
    (hc : isComposite (topInner t) = true) (buf : Buf) (cap : Nat) (hwf : WF buf) (hcap : cap ≤ buf.length)
    (X : Ext) (hfx : X.fixed = true) (hhg : X.headGuarded = true) (hr : Reduced X) (b0 : Nat)
    (hp : Placed X b0 buf.length) :
    deserializeCX o X b0 t buf cap = (deBytes t (buf.take cap)).mapError embedD ∨
      deserializeCX o X b0 t buf cap = .error eBadArrayLength := by
  have hi : InvD o X b0 buf.length b0 buf := fun _ _ => ⟨Nat.le_refl _, fun _ => Nat.le_refl _⟩
  rw [← deserializeC_refines o hs t hw hwC hc buf cap hwf hcap]
  rcases (deSimP (B := True) hfx hp (Or.inl hhg) (effCap_le hr) (fun _ _ _ => trivial) t).2 b0 buf cap hi with
    h | ⟨_, h⟩ | ⟨e, h⟩
  · exact Or.inl h
  · exact Or.inr h
  · exact absurd h (C04_genC_deserialize_memory_safe o hs t hw hwC hc buf cap hwf hcap e)

/-- the override build with every capacity macro at its default is the plain build -/
theorem C02_genC_deserialize_override_default_capacity (o : Opts) (hs : o.Sound) (t : Ty) (hw : wf t = true)
    (hwC : wfC t = true) (hc : isComposite (topInner t) = true) (buf : Buf) (cap : Nat) (hwf : WF buf)
    (hcap : cap ≤ buf.length) (X : Ext) (hfx : X.fixed = true) (hhg : X.headGuarded = true)
    (hid : ∀ t c, X.ucap t c = c) (b0 : Nat) (hp : Placed X b0 buf.length) :
    deserializeCX o X b0 t buf cap = deserializeC o t buf cap := by
  have hec : ∀ t c, effCap X t c = c := fun t c => by unfold effCap; split <;> simp [hid]
  have hi : InvD o X b0 buf.length b0 buf := fun _ _ => ⟨Nat.le_refl _, fun _ => Nat.le_refl _⟩
  rcases (deSimP (B := False) hfx hp (Or.inl hhg) (fun t c => by rw [hec]; exact Nat.le_refl _)
      (fun t c h => by rw [hec] at h; exact absurd h (Nat.lt_irrefl _)) t).2 b0 buf cap hi with h | ⟨hB, _⟩ | ⟨e, h⟩
  · exact h
  · exact absurd hB id
  · exact absurd h (C04_genC_deserialize_memory_safe o hs t hw hwC hc buf cap hwf hcap e)

/-- serialization under override, with the up-front buffer check still compiled in (`noCheck = false`) -/
theorem C01_genC_serialize_override_partial (o : Opts) (hs : o.Sound) (t : Ty) (hw : wf t = true) (hwC : wfC t = true)
    (hc : isComposite (topInner t) = true) (v : Val) (ht : hasTy t v = true) (hst : storageOK t v = true)
    (buf : Buf) (cap : Nat) (hwf : WF buf) (hcap : cap ≤ buf.length)
    (X : Ext) (hfx : X.fixed = true) (hr : Reduced X) (hnc : X.noCheck = false) (b0 : Nat)
    (hp : Placed X b0 buf.length) :
    serializeCX o X b0 t v buf cap = serializeC o t v buf cap ∨
      serializeCX o X b0 t v buf cap = .error eBadArrayLength := by
  have hi : InvF o X b0 buf.length b0 buf.length cap := fun _ _ => ⟨Nat.le_refl _, Nat.le_refl _, hcap⟩
  rcases ((serSimP (B := True) hfx hp hnc (effCap_le hr) (fun _ _ _ => trivial) t).2 v b0 buf cap hi).1 with
    h | ⟨_, h⟩ | ⟨e, h⟩
  · exact Or.inl h
  · exact Or.inr h
  · exact absurd h (C04_genC_serialize_memory_safe o hs t hw hwC hc v ht hst buf cap hwf hcap e)

/-! non-vacuity: `uint8 a; uint8[<=6] xs; uint8 b` with the user capacity 2 -/
def ovTy : Ty := .struct [.uint 8 .trunc, .varr (.uint 8 .trunc) 6, .uint 8 .trunc]
def ovX (u : Nat) : Ext := { ovr := true, ucap := fun _ c => if u < c then u else c }
def ovOpts : Opts := { little := true, orc := exactOrc }
example : Reduced (ovX 2) := fun _ c => by simp only [ovX]; split <;> omega
example : deserializeCX ovOpts (ovX 2) 0 ovTy [1, 2, 10, 11, 9] 5 = deserializeC ovOpts ovTy [1, 2, 10, 11, 9] 5 := by decide
example : deserializeC ovOpts ovTy [1, 3, 10, 11, 12, 9] 6 = .ok (.struct [.int 1, .arr [.int 10, .int 11, .int 12], .int 9], 6) := by
  decide
example : deserializeCX ovOpts (ovX 2) 0 ovTy [1, 3, 10, 11, 12, 9] 6 = .error eBadArrayLength := by decide
example : serializeCX ovOpts (ovX 2) 0 ovTy (.struct [.int 1, .arr [.int 10, .int 11], .int 9]) (List.replicate 9 255) 9 =
    serializeC ovOpts ovTy (.struct [.int 1, .arr [.int 10, .int 11], .int 9]) (List.replicate 9 255) 9 := by decide
example : serializeCX ovOpts (ovX 2) 0 ovTy (.struct [.int 1, .arr [.int 10, .int 11, .int 12], .int 9]) (List.replicate 9 255) 9 =
    .error eBadArrayLength := by decide

end NunavutVerif.GenC
