import NunavutVerif.Lemmas.Config
import NunavutVerif.Lemmas.ConfigHeap
import NunavutVerif.Gen.CppDefaults
import NunavutVerif.Gen.CliOptions
/-!
# C13 — configuration sources are merged with a fixed, order-insensitive precedence

Property theorems only.  Definitions: `Model/Config.lean` (values), `Model/ConfigHeap.lean` (objects and
sharing); helper lemmas: `Lemmas/Config*.lean`; the C++ shorthand groups: `Gen/CppDefaults.lean`
(regenerated from `properties.yaml`).

Quantifiers: all key types `κ` and scalar types `σ`, all nested mappings (`M κ σ`; `M.WF` is the Python
`dict` invariant "no duplicate key", which every real source satisfies), all targets, all paths, all lists
of sources, all builder call sequences.
-/
namespace NunavutVerif.Config

variable {κ σ : Type} [DecidableEq κ]

/-! ## T1 one-step lookup law -/

/-- What `deep_update(target, source)` leaves under key `k` is `combine` of what target and source held
there — the five cases of `combine`: source silent ⇒ target's value; mapping over mapping ⇒ recursive
merge; mapping over absent / non-mapping ⇒ (a copy of) the source mapping; explicit leaf ⇒ the leaf;
default-marked leaf ⇒ assigned only over nothing or over another default. -/
theorem C13_lookup_law (t s : M κ σ) (k : κ) (hs : s.NoDupKeys) :
    (mergeInto t s).get k = combine (t.get k) (s.get k) :=
  get_mergeInto s t k hs

/-- The merge never creates a duplicate key (the result is a `dict` again, at every depth). -/
theorem C13_merge_preserves_dict_invariant (t s : M κ σ) (ht : t.WF) (hs : s.WF) :
    (mergeInto t s).WF :=
  WF.mergeInto s ht hs

/-- Merging into the empty mapping reproduces the source exactly, key order included. -/
theorem C13_merge_into_empty_is_copy (s : M κ σ) (hs : s.WF) : mergeInto .nil s = s :=
  mergeInto_nil_left s hs

/-! ## T2 precedence -/

/-- Path form of the lookup law, for a source that is shape-compatible with a leaf at `p`. -/
theorem C13_path_law (p : List κ) (t s : M κ σ) (hs : s.WF) (hc : compat s p = true) :
    (V.map (mergeInto t s)).getPath p = combine ((V.map t).getPath p) ((V.map s).getPath p) :=
  getPath_mergeInto_compat p s t hs hc

/-- An explicit leaf of the source wins at its path whatever the target held there or above
(scalar, default, list, mapping, nothing): a later explicit value replaces wholesale. -/
theorem C13_explicit_wins (p : List κ) (t s : M κ σ) (l : V κ σ) (hs : s.WF) (hp : p ≠ [])
    (h : (V.map s).getPath p = some l) (hl : l.isExplicitLeaf = true) :
    (V.map (mergeInto t s)).getPath p = some l := by
  have hleaf : l.isLeaf = true := by cases l <;> simp_all [V.isExplicitLeaf, V.isLeaf]
  rw [getPath_mergeInto_compat p s t hs (compat_of_leaf p s l hp h hleaf), h]
  cases l <;> simp_all [combine, V.isExplicitLeaf]

/-- A default-marked value never displaces anything that is not itself default-marked — an explicit
scalar, a list, or a whole mapping. -/
theorem C13_default_never_displaces (p : List κ) (t s : M κ σ) (x : σ) (v : V κ σ) (hs : s.WF)
    (hp : p ≠ []) (h : (V.map s).getPath p = some (.dflt x))
    (ht : (V.map t).getPath p = some v) (hv : v.isDflt = false) :
    (V.map (mergeInto t s)).getPath p = some v := by
  rw [getPath_mergeInto_compat p s t hs (compat_of_leaf p s _ hp h rfl), h, ht]
  cases v <;> simp_all [combine, V.isDflt]

/-- A default-marked value is taken where the target has nothing or only another default. -/
theorem C13_default_fills (p : List κ) (t s : M κ σ) (x : σ) (hs : s.WF) (hp : p ≠ [])
    (h : (V.map s).getPath p = some (.dflt x))
    (ht : (V.map t).getPath p = none ∨ ∃ y, (V.map t).getPath p = some (.dflt y)) :
    (V.map (mergeInto t s)).getPath p = some (.dflt x) := by
  rw [getPath_mergeInto_compat p s t hs (compat_of_leaf p s _ hp h rfl), h]
  rcases ht with ht | ⟨y, ht⟩ <;> simp [ht, combine]

/-- Shape change, key level: a source mapping over a target value that is not a mapping replaces it
wholesale (by a copy of the source mapping). -/
theorem C13_map_replaces_nonmap (t s sm : M κ σ) (k : κ) (v : V κ σ) (hs : s.NoDupKeys)
    (h : s.get k = some (.map sm)) (ht : t.get k = some v) (hv : v.isMap = false) :
    (mergeInto t s).get k = some (.map sm) := by
  rw [get_mergeInto s t k hs, h, ht]
  cases v <;> simp_all [combine, V.isMap]

/-- **Precedence over a list of sources.**  `t` is the built-in configuration, `ss` the later sources in
merge order (files in call order, then the API/CLI overrides).  At every path where all of them are
shape-compatible, the effective value is `pick` of the values the sources hold there: the last explicit
one; if none is explicit, the last default-marked one. -/
theorem C13_precedence (p : List κ) (t : M κ σ) (ss : List (M κ σ))
    (hw : ∀ s ∈ t :: ss, s.WF) (hc : ∀ s ∈ t :: ss, compat s p = true) :
    (V.map (ss.foldl mergeInto t)).getPath p = pick ((t :: ss).map fun s => (V.map s).getPath p) := by
  have hwt := hw t List.mem_cons_self
  have hct := hc t List.mem_cons_self
  rw [getPath_foldl_compat p ss t (fun s h => hw s (List.mem_cons_of_mem _ h))
    (fun s h => hc s (List.mem_cons_of_mem _ h))]
  have h0 : (V.map t).getPath p = pick [(V.map t).getPath p] := by
    have := pick_snoc [] ((V.map t).getPath p) (compat_leaf p t hct)
    rw [List.nil_append] at this
    rw [this, pick_nil, combine_none_left_leaf _ (compat_leaf p t hct)]
  rw [h0, foldl_combine_pick]
  · simp
  · intro y hy v hv
    obtain ⟨s, hs, rfl⟩ := List.mem_map.mp hy
    exact compat_leaf p s (hc s (List.mem_cons_of_mem _ hs)) v hv

/-- Last explicit wins, with arbitrary (also shape-changing) sources *before* it: if `s` holds an explicit
leaf at `p` and no later source holds anything but default-marked leaves there, the leaf is the
effective value. -/
theorem C13_precedence_last_explicit (p : List κ) (t s : M κ σ) (pre post : List (M κ σ)) (l : V κ σ)
    (hp : p ≠ []) (hs : s.WF) (h : (V.map s).getPath p = some l) (hl : l.isExplicitLeaf = true)
    (hw : ∀ s' ∈ post, s'.WF) (hc : ∀ s' ∈ post, compat s' p = true)
    (hq : ∀ s' ∈ post, ∀ v, (V.map s').getPath p = some v → v.isDflt = true) :
    (V.map ((pre ++ s :: post).foldl mergeInto t)).getPath p = some l := by
  rw [List.foldl_append, List.foldl_cons]
  generalize pre.foldl mergeInto t = t0
  have h1 := C13_explicit_wins p t0 s l hs hp h hl
  generalize mergeInto t0 s = t1 at h1
  induction post generalizing t1 with
  | nil => simpa using h1
  | cons s' post ih =>
    rw [List.foldl_cons]
    apply ih (fun x hx => hw x (List.mem_cons_of_mem _ hx)) (fun x hx => hc x (List.mem_cons_of_mem _ hx))
      (fun x hx => hq x (List.mem_cons_of_mem _ hx))
    rw [getPath_mergeInto_compat p s' t1 (hw s' List.mem_cons_self) (hc s' List.mem_cons_self), h1]
    cases hv : (V.map s').getPath p with
    | none => simp [combine]
    | some v =>
      have := hq s' List.mem_cons_self v hv
      cases v <;> simp [V.isDflt] at this
      cases l <;> simp_all [combine, V.isExplicitLeaf]

/-! ## T3 deep union -/

/-- A path the later source does not mention keeps its value, at every depth — whatever that value is
(leaf, mapping, absent) and whatever else the source changes around it. -/
theorem C13_deep_union (p : List κ) (t s : M κ σ) (hs : s.WF) (h : unmentioned s p = true) :
    (V.map (mergeInto t s)).getPath p = (V.map t).getPath p := by
  obtain ⟨hc, hn⟩ := unmentioned_compat p s h
  rw [getPath_mergeInto_compat p s t hs hc, hn, combine_none_right]

/-! ## T4a key order is not observable -/

/-- Re-ordering the entries of a mapping changes no lookup. -/
theorem C13_permutation_lookup (m m' : M κ σ) (h : m.toList.Perm m'.toList) (hn : m.NoDupKeys) (k : κ) :
    m.get k = m'.get k := by
  rw [get_toList, get_toList]
  exact lget_perm h k ((noDup_toList m).mp hn)

/-- Mappings whose entries agree up to (recursively) unobservable differences are extensionally equal;
with `C13_permutation_lookup` this covers re-ordering at any depth. -/
theorem C13_ext_of_entries (m m' : M κ σ)
    (h : ∀ k, match m.get k, m'.get k with
      | some v, some w => ExtEq v w
      | none, none => True
      | _, _ => False) :
    ExtEq (V.map m) (V.map m') := by
  apply ExtEq.map_of_get
  intro k
  have := h k
  cases h1 : m.get k <;> cases h2 : m'.get k <;> simp_all
  · exact OExt.refl _
  · exact ExtEq.oext this

/-- **Order-insensitivity**: sources (and targets) that differ only in key order — at any depth — give
merged configurations that answer every lookup alike. -/
theorem C13_key_order_insensitive (t t' s s' : M κ σ) (hs : s.WF) (hs' : s'.WF)
    (hss : ExtEq (V.map s) (V.map s')) (htt : ExtEq (V.map t) (V.map t')) :
    ExtEq (V.map (mergeInto t s)) (V.map (mergeInto t' s')) :=
  mergeInto_ext s.size s s' t t' (Nat.le_refl _) hs hs' hss htt

/-! ## T4b the builder -/

/-- **Interleaving independence**: two call sequences with the same `add_config_files` calls in the same
order and the same other calls in the same order leave the builder in the same state (and fail alike),
however the two kinds of calls are interleaved. -/
theorem C13_builder_interleaving (valid : κ → Bool) (d : κ) (b : Builder κ σ) (ops₁ ops₂ : List (Op κ σ))
    (hf : ops₁.filter Op.isFile = ops₂.filter Op.isFile)
    (ho : (ops₁.filter fun op => !op.isFile) = ops₂.filter fun op => !op.isFile) :
    Builder.run valid d b ops₁ = Builder.run valid d b ops₂ := by
  rw [run_closed, run_closed, cfgOf_filter valid ops₁, cfgOf_filter valid ops₂, ovrOf_filter ops₁,
    ovrOf_filter ops₂, langOf_filter d ops₁, langOf_filter d ops₂, hf, ho]

/-- The configuration handed to the context at `create()` is: the files merged in call order into the
builder's configuration, then all overrides merged into the target language's section. -/
theorem C13_builder_create_config (valid : κ → Bool) (d : κ) (resolve : M κ σ → M κ σ → κ)
    (b b' : Builder κ σ) (ops : List (Op κ σ)) (l : κ)
    (h : Builder.run valid d b ops = .ok b') (hl : b'.lang = some l) :
    ∃ c, cfgOf valid b.config (ops.filter Op.isFile) = .ok c ∧
      (b'.create resolve).config =
        c.set l (deepUpdate ((c.get l).getD (.map .nil)) (ovrOf b.overrides (ops.filter fun op => !op.isFile))) := by
  rw [run_closed, cfgOf_filter, ovrOf_filter] at h
  cases hc : cfgOf valid b.config (ops.filter Op.isFile) with
  | error e => simp [hc] at h
  | ok c =>
    simp only [hc, Except.ok.injEq] at h
    subst h
    simp only at hl
    exact ⟨c, rfl, by simp [Builder.create, hl]⟩

/-- `create()` twice is `create()` once (explicit target language, or a resolver that finds the same
language again). -/
theorem C13_create_idempotent (resolve : M κ σ → M κ σ → κ) (b : Builder κ σ) (hw : b.overrides.WF)
    (hr : b.lang = none → resolve (b.create resolve).config b.overrides = resolve b.config b.overrides) :
    (b.create resolve).create resolve = b.create resolve := by
  obtain ⟨c, o, lang⟩ := b
  cases lang with
  | some l =>
    simp only [Builder.create, M.get_set_self, Option.getD_some, deepUpdate_idem _ o hw]
    congr 1
    exact M.set_same _ _ _ (M.get_set_self _ _ _)
  | none =>
    have hr' := hr rfl
    simp only [Builder.create] at hr' ⊢
    simp only [hr', M.get_set_self, Option.getD_some, deepUpdate_idem _ o hw]
    congr 1
    exact M.set_same _ _ _ (M.get_set_self _ _ _)

/-- `create()` does not consume the pending overrides (nor the chosen language): they are merged again
at every later `create()` of the same builder. -/
theorem C13_create_keeps_overrides (resolve : M κ σ → M κ σ → κ) (b : Builder κ σ) :
    (b.create resolve).overrides = b.overrides ∧ (b.create resolve).lang = b.lang := ⟨rfl, rfl⟩

/-- Files added later (between two `create()` calls, in any call grouping) do not touch the overrides
either: an override set once is still pending, unless the same key is set again. -/
theorem C13_files_keep_overrides (valid : κ → Bool) (d : κ) (b b' : Builder κ σ) (ops : List (Op κ σ))
    (hf : ∀ op ∈ ops, op.isFile = true) (h : Builder.run valid d b ops = .ok b') :
    b'.overrides = b.overrides ∧ b'.lang = b.lang := by
  rw [run_closed] at h
  have ho : ∀ (ops : List (Op κ σ)) (o : M κ σ), (∀ op ∈ ops, op.isFile = true) → ovrOf o ops = o := by
    intro ops
    induction ops with
    | nil => intro o _; rfl
    | cons op ops ih =>
      intro o hf
      have h1 := hf op List.mem_cons_self
      cases op with
      | addFile doc => simpa [ovrOf] using ih o (fun x hx => hf x (List.mem_cons_of_mem _ hx))
      | setOverride k v => simp [Op.isFile] at h1
      | setLanguage l => simp [Op.isFile] at h1
  have hl : ∀ (ops : List (Op κ σ)) (l : Option κ), (∀ op ∈ ops, op.isFile = true) → langOf d l ops = l := by
    intro ops
    induction ops with
    | nil => intro l _; rfl
    | cons op ops ih =>
      intro l hf
      have h1 := hf op List.mem_cons_self
      cases op with
      | addFile doc => simpa [langOf] using ih l (fun x hx => hf x (List.mem_cons_of_mem _ hx))
      | setOverride k v => simp [Op.isFile] at h1
      | setLanguage l => simp [Op.isFile] at h1
  cases hc : cfgOf valid b.config ops with
  | error e => simp [hc] at h
  | ok c =>
    simp only [hc, Except.ok.injEq] at h
    subst h
    exact ⟨ho ops _ hf, hl ops _ hf⟩

/-- **Explicit API value over configuration file, at every `create()`**: whatever happened to the builder
before (earlier `create()`s, files added since), an explicit leaf of the pending overrides is the effective
value of the target language's section in the configuration `create()` hands out. -/
theorem C13_create_explicit_override_wins (resolve : M κ σ → M κ σ → κ) (b : Builder κ σ) (l : κ)
    (p : List κ) (v : V κ σ) (hl : b.lang = some l) (hw : b.overrides.WF) (hp : p ≠ [])
    (h : (V.map b.overrides).getPath p = some v) (hv : v.isExplicitLeaf = true) :
    (V.map (b.create resolve).config).getPath (l :: p) = some v := by
  obtain ⟨c, o, lang⟩ := b
  simp only at hl hw h
  subst hl
  simp only [Builder.create, getPath_map_cons, M.get_set_self, Option.bind_some]
  cases hc : c.get l with
  | none =>
    simpa [deepUpdate] using C13_explicit_wins p .nil o v hw hp h hv
  | some sv =>
    cases sv with
    | map sm => simpa [deepUpdate] using C13_explicit_wins p sm o v hw hp h hv
    | scalar x => simpa [deepUpdate] using h
    | dflt x => simpa [deepUpdate] using h
    | list x => simpa [deepUpdate] using h

/-- **One call with several files = one call per file**:
`add_config_files(f₁ … fₙ, g₁ … gₘ)` is `add_config_files(f₁ … fₙ)` followed by `add_config_files(g₁ … gₘ)`
(same configuration, same error). -/
theorem C13_add_config_files_call_split (valid : κ → Bool) (c : M κ σ) (ds₁ ds₂ : List (V κ σ)) :
    addFilesCall valid c (ds₁ ++ ds₂) =
      match addFilesCall valid c ds₁ with
      | .ok c' => addFilesCall valid c' ds₂
      | .error e => .error e := by
  induction ds₁ generalizing c with
  | nil => rfl
  | cons d ds ih =>
    simp only [List.cons_append, addFilesCall]
    cases update valid c d with
    | error e => rfl
    | ok c' => exact ih c'

/-- … and the builder state machine treats a call with several files as that many `addFile` steps. -/
theorem C13_add_config_files_is_fold (valid : κ → Bool) (d : κ) (b : Builder κ σ) (docs : List (V κ σ)) :
    Builder.run valid d b (docs.map Op.addFile) =
      match addFilesCall valid b.config docs with
      | .ok c => .ok { b with config := c }
      | .error e => .error e := by
  induction docs generalizing b with
  | nil => rfl
  | cons doc docs ih =>
    simp only [List.map_cons, Builder.run, Builder.apply, addFilesCall]
    cases update valid b.config doc with
    | error e => rfl
    | ok c' => simpa using ih { b with config := c' }

/-! ## T5 the C++ language-standard shorthands -/

/-- When `std` names a group of `defaults`, every key of the group gets the group's value (the group is
set as a unit, explicit values included) and every other option is unchanged; when it names no group the
options are unchanged. -/
theorem C13_cpp_shorthand_unit (stdKey : κ) (nameKey : σ → κ) (defaults options options' : M κ σ)
    (h : applyStdDefaults stdKey nameKey defaults options = .ok options') :
    ∃ sv name, options.get stdKey = some sv ∧ stdName sv = .ok name ∧
      match defaults.get (nameKey name) with
      | some (.map g) => g.NoDupKeys → ∀ k, options'.get k = (match g.get k with
                                                          | some v => some v
                                                          | none => options.get k)
      | _ => options' = options := by
  unfold applyStdDefaults at h
  cases hs : options.get stdKey with
  | none => simp [hs] at h
  | some sv =>
    simp only [hs] at h
    cases hn : stdName sv with
    | error e => simp [hn] at h
    | ok name =>
      simp only [hn] at h
      refine ⟨sv, name, rfl, hn, ?_⟩
      cases hg : defaults.get (nameKey name) with
      | none => simp [hg] at h; exact h.symm
      | some gv =>
        cases gv with
        | map g =>
          simp only [hg, Except.ok.injEq] at h
          subst h
          intro hnd k
          exact get_dictUpdate g options k hnd
        | scalar _ => simp [hg] at h
        | dflt _ => simp [hg] at h
        | list _ => simp [hg] at h

/-- The shipped table: no duplicate keys anywhere (so `C13_cpp_shorthand_unit` applies to every group). -/
theorem C13_cpp_table_wf : Gen.cppDefaults.wf = true ∧ Gen.cppBuiltinOptions.wf = true := by decide

/-- The shipped table: every group is a mapping that sets `std` to a plain standard which is not itself a
shorthand — applying a group is final (a second `create()` finds nothing more to apply). -/
theorem C13_cpp_table_groups_final :
    Gen.cppGroupNames.all (fun g =>
      match Gen.cppDefaults.get g with
      | some (.map grp) =>
        (match grp.get Gen.stdKey with
         | some (.scalar a) => (Gen.cppDefaults.get (Gen.nameKey a)).isNone
         | _ => false)
      | _ => false) = true ∧ Gen.cppDefaults.keys = Gen.cppGroupNames := by decide

/-- The shipped table: **every shorthand group sets the same set of keys** — each key set by any group is
set by every group.  Together with `C13_cpp_shorthand_unit` this is what "as a unit" means for the effective
options: after an explicit shorthand, no option that belongs to the shorthand vocabulary is left to whatever
a configuration file said about it (a group that silently omitted a member "because it equals the base
value" would let a file's value survive the shorthand). -/
theorem C13_cpp_table_groups_uniform :
    Gen.cppGroupNames.all (fun g₁ => Gen.cppGroupNames.all (fun g₂ =>
      match Gen.cppDefaults.get g₁, Gen.cppDefaults.get g₂ with
      | some (.map a), some (.map b) => a.keys.all (fun k => (b.get k).isSome)
      | _, _ => false)) = true := by decide

/-- Consequence for any two groups with the same key set (as the table has, by the theorem above): after
applying group `g`, an option `k` that some other group `g'` sets does not depend on the options before —
in particular not on what a configuration file said about `k`. -/
theorem C13_cpp_shorthand_file_independent (g g' o₁ o₂ : M κ σ) (k : κ) (hg : g.NoDupKeys)
    (hu : ∀ k, (g'.get k).isSome → (g.get k).isSome) (hk : (g'.get k).isSome) :
    (dictUpdate o₁ g).get k = (dictUpdate o₂ g).get k := by
  rw [get_dictUpdate g o₁ k hg, get_dictUpdate g o₂ k hg]
  have := hu k hk
  cases h : g.get k with
  | none => simp [h] at this
  | some v => rfl

/-! ## The command line: defaults are not explicit values -/

/-- The generated table of EVERY command-line option read by `_create_language_context` (regenerated from
the runner's code and the argparse definitions): an option that reaches the configuration either has the
argparse default `None` (the runner's `is not None` guard / the builder's "`None` is ignored" then keep it
out of the overrides — `Op.setOverride k none` is a no-op), or is a `store_true` flag with default `False`
that the runner wraps as `DefaultValue(False)` (which by `C13_default_never_displaces` cannot displace a
file's value).  So no *default* of the command line is ever merged as an explicit value. -/
theorem C13_cli_defaults_are_not_explicit :
    Gen.cliOptions.all (fun o =>
      o.role == "ctor" ||
      (o.wrapped && o.action == "store_true" && o.dflt == "False") ||
      (!o.wrapped && o.dflt == "None")) = true := by decide

example : Gen.cliOptions.any (fun o => o.role == "option" && o.wrapped) = true ∧
    Gen.cliOptions.any (fun o => o.role == "option" && !o.wrapped) = true ∧
    Gen.cliOptions.any (fun o => o.role == "config") = true := by decide

/-! ## T6 objects: source documents unmodified, separation

`mergeH true` is `deep_update` with `copy.deepcopy` in the "target is not a mapping" branch (the repaired
code), over an explicit heap of `dict` objects.  A *region* is a set of addresses; `Closed h A` says that
`A` contains everything reachable from its members.  The theorems hold for every recursion bound `fuel`
(whenever the call returns at all) and need no assumption on the shape of the heap beyond the stated
separation: `A` (everything reachable from the target) and `B` (everything reachable from the sources)
share no `dict`. -/

/-- **Frame**: the merge writes only to objects reachable from the target or freshly allocated, and the
target's region plus the fresh objects is closed again. -/
theorem C13_heap_frame (fuel : Nat) (h h' : Heap κ σ) (t s : Nat) (A B : Nat → Prop)
    (hA : Closed h A) (hB : Closed h B) (hd : ∀ a, A a → B a → False) (ht : A t) (hs : B s)
    (he : mergeH true fuel h t s = .ok h') : Frame h A h' :=
  mergeH_spec fuel h t s h' A B hA hB hd ht hs he

/-- **Source documents are left unmodified**: every object reachable from the source is the same
afterwards, and reading back any value of the source gives what it gave before. -/
theorem C13_heap_source_unmodified (fuel : Nat) (h h' : Heap κ σ) (t s : Nat) (A B : Nat → Prop)
    (hA : Closed h A) (hB : Closed h B) (hd : ∀ a, A a → B a → False) (ht : A t) (hs : B s)
    (he : mergeH true fuel h t s = .ok h') :
    (∀ a, B a → h'[a]? = h[a]?) ∧
    ∀ (n : Nat) (v : HV σ), (∀ b, v = .ref b → B b) → unfoldH n h' v = unfoldH n h v := by
  have f := mergeH_spec fuel h t s h' A B hA hB hd ht hs he
  have hs' := (f.other hB hd).1
  exact ⟨hs', unfoldH_congr hB hs'⟩

/-- **Separation is preserved**: if target and source share no `dict` before the merge they share none
after it — the merged configuration consists of the target's own and of fresh objects only. -/
theorem C13_heap_separation (fuel : Nat) (h h' : Heap κ σ) (t s : Nat) (A B : Nat → Prop)
    (hA : Closed h A) (hB : Closed h B) (hd : ∀ a, A a → B a → False) (ht : A t) (hs : B s)
    (he : mergeH true fuel h t s = .ok h') :
    ∃ A' : Nat → Prop, (∀ a, A a → A' a) ∧ A' t ∧ Closed h' A' ∧ Closed h' B ∧ B s ∧
      (∀ a, A' a → B a → False) ∧ (∀ a, A' a → A a ∨ h.length ≤ a) := by
  have f := mergeH_spec fuel h t s h' A B hA hB hd ht hs he
  exact ⟨_, fun _ => .inl, .inl ht, f.closed, (f.other hB hd).2, hs, f.disjoint hB hd,
    fun a ha => ha.elim .inl fun x => .inr x.1⟩

/-- **Later merges cannot change an earlier source**: after any sequence of merges into one target
(files in call order, then overrides, a second `create()`, …) every source document — the first as well
as the last — is what it was before the first merge. -/
theorem C13_heap_later_merges_keep_earlier_sources (fuel : Nat) (h h' : Heap κ σ) (t : Nat) (ss : List Nat)
    (A B : Nat → Prop) (hA : Closed h A) (hB : Closed h B) (hd : ∀ a, A a → B a → False) (ht : A t)
    (hs : ∀ s ∈ ss, B s) (he : mergeAllH true fuel h t ss = .ok h') :
    (∀ a, B a → h'[a]? = h[a]?) ∧
    ∀ (n : Nat) (v : HV σ), (∀ b, v = .ref b → B b) → unfoldH n h' v = unfoldH n h v := by
  have f := mergeAllH_frame fuel t ss h h' A B hA hB hd ht hs he
  have hs' := (f.other hB hd).1
  exact ⟨hs', unfoldH_congr hB hs'⟩

/-- **Two builders are immune to each other**: `A₁` is everything reachable from the configuration of a
builder (and of the contexts it created), `A₂` the same for another builder, `B` the documents and
override objects handed to the second builder (they may be shared with the first builder's *callers*, not
with its configuration).  Whatever sequence of `update_section` calls the second builder performs (files,
overrides at `create()`, repeated `create()`), every object of `A₁` is untouched, every value read through
the first builder's contexts is the same, and the two configurations still share nothing. -/
theorem C13_heap_two_builders (fuel : Nat) (h h' : Heap κ σ) (c₂ : Nat) (us : List (κ × Nat))
    (A₁ A₂ B : Nat → Prop) (h1 : Closed h A₁) (h2 : Closed h A₂) (hB : Closed h B)
    (d12 : ∀ a, A₂ a → A₁ a → False) (d2B : ∀ a, A₂ a → B a → False) (hc : A₂ c₂) (hs : ∀ u ∈ us, B u.2)
    (he : updateAllH true fuel h c₂ us = .ok h') :
    (∀ a, A₁ a → h'[a]? = h[a]?) ∧
    (∀ (n : Nat) (v : HV σ), (∀ b, v = .ref b → A₁ b) → unfoldH n h' v = unfoldH n h v) ∧
    Closed h' A₁ ∧
    ∃ A₂' : Nat → Prop, (∀ a, A₂ a → A₂' a) ∧ Closed h' A₂' ∧ (∀ a, A₂' a → A₁ a → False) := by
  have f := updateAllH_frame fuel c₂ us h h' A₂ B h2 hB d2B hc hs he
  obtain ⟨hs1, hc1⟩ := f.other h1 d12
  exact ⟨hs1, unfoldH_congr h1 hs1, hc1, _, fun _ => .inl, f.closed, f.disjoint h1 d12⟩

/-- **The separation hypothesis is reachable**: loading a document (parsing YAML: `allocV`) allocates a
closed region of new objects.  Every region `A` that existed before is untouched, still closed, and shares
nothing with the new document — so a builder's freshly loaded configuration starts separate from
everything else, and `C13_heap_separation` keeps it so. -/
theorem C13_heap_loaded_document_is_separate (h : Heap κ σ) (v : V κ σ) (A : Nat → Prop) (hA : Closed h A) :
    let h' := (allocV h v).1
    let D := Fresh h.length h'.length
    h.length ≤ h'.length ∧ (∀ a, A a → h'[a]? = h[a]?) ∧ Closed h' A ∧ Closed h' D ∧
    (∀ b, (allocV h v).2 = .ref b → D b) ∧ (∀ a, D a → A a → False) := by
  obtain ⟨l, sm, cl, rf⟩ := allocV_spec v h.length h (Nat.le_refl _)
    (fun a ha => absurd ha.2 (by have := ha.1; omega))
  have hs : ∀ a, A a → (allocV h v).1[a]? = h[a]? := fun a ha => sm a (hA.lt ha)
  exact ⟨l, hs, hA.of_same hs, cl, rf, fun a hd ha => by have := hA.lt ha; have := hd.1; omega⟩

/-! ### the defect repaired by the `fix:` commit (regression witness)

Before the fix the "target is not a mapping" branch was `copy.copy(source)`: the new `dict` still pointed
into the source document.  `{"a": 1} ← {"a": {"b": {"c": 1}}} ← {"a": {"b": {"c": 2}}}`: the second merge
writes `c = 2` into the *first source* (object 3).  "Sources are left unmodified" was false of that code;
with the deep copy the same history leaves object 3 alone. -/

/-- 0 = target `{a: 1}`; 1,2,3 = first source; 4,5,6 = second source (keys a,b,c = 0,1,2). -/
def f3Heap : Heap Nat Nat :=
  [[(0, .scalar 1)], [(0, .ref 2)], [(1, .ref 3)], [(2, .scalar 1)], [(0, .ref 5)], [(1, .ref 6)], [(2, .scalar 2)]]

example : (match mergeAllH false 10 f3Heap 0 [1, 4] with
    | .ok h' => (h'[3]?, unfoldH 10 h' (.ref 1))
    | .error _ => (none, none))
    = (some [(2, .scalar 2)], some (.map (.cons 0 (.map (.cons 1 (.map (.cons 2 (.scalar 2) .nil)) .nil)) .nil))) := by
  decide
example : ¬ (∀ h', mergeAllH false 10 f3Heap 0 [1, 4] = .ok h' → h'[3]? = f3Heap[3]?) := by
  intro hall
  have := hall _ rfl
  revert this
  decide
example : (match mergeAllH true 10 f3Heap 0 [1, 4] with
    | .ok h' => (h'[3]?, unfoldH 10 h' (.ref 1), unfoldH 10 h' (.ref 0))
    | .error _ => (none, none, none))
    = (some [(2, .scalar 1)], some (.map (.cons 0 (.map (.cons 1 (.map (.cons 2 (.scalar 1) .nil)) .nil)) .nil)),
       some (.map (.cons 0 (.map (.cons 1 (.map (.cons 2 (.scalar 2) .nil)) .nil)) .nil))) := by
  decide
-- the hypotheses of the frame theorems are met by this heap: target region {0}, source region {1..6}
example : Closed f3Heap (fun a => a = 0) ∧ Closed f3Heap (fun a => 1 ≤ a ∧ a ≤ 6) ∧
    (∀ a, a = 0 → (1 ≤ a ∧ a ≤ 6) → False) := by
  refine ⟨?_, ?_, by omega⟩
  · intro a ha; subst ha; exact ⟨_, rfl, by simp⟩
  · intro a ha
    have : a = 1 ∨ a = 2 ∨ a = 3 ∨ a = 4 ∨ a = 5 ∨ a = 6 := by omega
    rcases this with rfl | rfl | rfl | rfl | rfl | rfl <;>
      exact ⟨_, rfl, by intro k b hb; simp at hb <;> omega⟩

/-! ## Non-vacuity: concrete instances (keys and scalars are numbers here) -/

section Examples
open V M

private def tgt : M Nat Nat :=
  .cons 1 (.map (.cons 10 (.scalar 1) (.cons 11 (.dflt 2) .nil))) (.cons 2 (.scalar 7) (.cons 3 (.dflt 0) .nil))
private def src : M Nat Nat :=
  .cons 3 (.dflt 5) (.cons 1 (.map (.cons 11 (.map (.cons 20 (.scalar 9) .nil)) (.cons 12 (.dflt 4) .nil)))
    (.cons 2 (.dflt 8) (.cons 4 (.list [1, 2]) .nil)))

-- the doc-test of `deep_update`, all five cases of the lookup law at once
example : mergeInto tgt src =
    .cons 1 (.map (.cons 10 (.scalar 1) (.cons 11 (.map (.cons 20 (.scalar 9) .nil)) (.cons 12 (.dflt 4) .nil))))
      (.cons 2 (.scalar 7) (.cons 3 (.dflt 5) (.cons 4 (.list [1, 2]) .nil))) := by decide
example : src.WF := by simp [src, M.WF, V.WF, M.get]
example : compat src [1, 12] = true ∧ unmentioned src [1, 10] = true ∧ unmentioned src [1, 11, 20] = false := by
  decide
-- precedence: explicit over later default; default over default; last explicit
example : pick [some (.scalar 1), some (.dflt 2), none] = some (V.scalar 1 : V Nat Nat) := by decide
example : pick [some (.dflt 1), none, some (.dflt 2)] = some (V.dflt 2 : V Nat Nat) := by decide
example : pick [some (.scalar 1), some (.scalar 3), some (.dflt 2)] = some (V.scalar 3 : V Nat Nat) := by decide
-- the CLI rule (issue #329): `DefaultValue(False)` from the command line does not displace a file's `true`
example : mergeInto (mergeInto (.cons 0 (.scalar 0) .nil) (.cons 0 (.scalar 1) .nil)) (.cons 0 (.dflt 0) .nil)
    = (.cons 0 (.scalar 1) .nil : M Nat Nat) := by decide
-- builder: two interleavings of the same calls
example : Builder.run (fun _ => true) 0 (⟨.nil, .nil, none⟩ : Builder Nat Nat)
      [.setOverride 5 (some (.scalar 1)), .addFile (.map (.cons 0 (.map (.cons 5 (.scalar 2) .nil)) .nil)), .setLanguage none]
    = Builder.run (fun _ => true) 0 ⟨.nil, .nil, none⟩
      [.addFile (.map (.cons 0 (.map (.cons 5 (.scalar 2) .nil)) .nil)), .setLanguage none, .setOverride 5 (some (.scalar 1))] := by
  rfl
-- deep union is not associative across a type change: combining two files FIRST and merging the result is not merging
-- them one after the other (built-in map at key 1; file 1 sets it to a scalar, file 2 to a map)
example : mergeInto (mergeInto (.cons 1 (.map (.cons 7 (.scalar 0) .nil)) .nil) (.cons 1 (.scalar 9) .nil))
      (.cons 1 (.map (.cons 8 (.scalar 1) .nil)) .nil)
    ≠ mergeInto (.cons 1 (.map (.cons 7 (.scalar 0) .nil)) .nil)
      (mergeInto (mergeInto (.nil : M Nat Nat) (.cons 1 (.scalar 9) .nil)) (.cons 1 (.map (.cons 8 (.scalar 1) .nil)) .nil)) := by
  decide
-- C++: `c++17-pmr` rewrites `std` and sets the allocator as a unit, other options stay
example : (match applyStdDefaults Gen.stdKey Gen.nameKey Gen.cppDefaults
      (.cons "std" (.scalar "s:c++17-pmr") (.cons "allocator_type" (.scalar "s:mine") (.cons "x" (.scalar "i:1") .nil))) with
    | .ok o => (o.get "std", o.get "allocator_type", o.get "x")
    | .error _ => (none, none, none))
    = (some (.scalar "s:c++17"), some (.scalar "s:std::pmr::polymorphic_allocator"), some (.scalar "i:1")) := by
  decide

end Examples

end NunavutVerif.Config
