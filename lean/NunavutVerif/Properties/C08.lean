import NunavutVerif.Lemmas.Cli
import NunavutVerif.Lemmas.CliParse
/-!
# C08 — listing and dry-run modes tell the build system the truth

Property theorems only (definitions in `Model/Cli.lean`, helper lemmas in `Lemmas/Cli.lean`, the per-language
table in `Gen/SupportFiles.lean`, regenerated from the tree under check).

Quantifiers: every argument record (`--generate-support` × `--omit-serialization-support` ×
`--generate-namespace-types` × any language record × any `--templates` / `--support-templates` directory content
× any extension / stem override × any output directory) and every namespace (any list of entries with any
paths, template candidates and dependencies).  "Accepted by the parser" and "generation succeeds" are the
hypotheses `err = none`.

The model describes the code after `fix_list_outputs_omit` and `fix_list_inputs_support_templates`; the
unchanged code is `runBeforeFix` and violates T1 and T3 (witnesses below, replayed on the real CLI by the harness).
-/
namespace NunavutVerif.Cli
open NunavutVerif.Gen.SupportFiles

/-! ## T1 — `--list-outputs` prints exactly the files a real run creates -/

/-- T1: whenever generation succeeds, `--list-outputs` succeeds too and the printed list and the set of files
the real run writes are equal as sets. -/
theorem C08_list_outputs_eq_generated (a : Args) (es : List Entry)
    (hgen : (run .generate a es).err = none) :
    (run .listOutputs a es).err = none ∧
    ∀ p, p ∈ (run .listOutputs a es).outputs ↔ p ∈ generated a es := by
  unfold generated run runWith at *
  by_cases hacc : accepted a = true
  · simp only [hacc, Bool.not_true, Bool.false_eq_true, if_false, reduceCtorEq, ↓reduceIte] at hgen ⊢
    cases htree : buildTree a (treeEntries a es) with
    | error x => simp [htree] at hgen
    | ok tree =>
      simp only [htree] at hgen ⊢
      obtain ⟨ls, lt, hs, ht, hops⟩ := generate_ok a false tree hgen
      have hs' : (supportOut a true a.omitSer).res = .ok ls := by rw [← supportOut_res_dry]; exact hs
      have ht' : (typesOut a true tree).res = .ok lt := by rw [← typesOut_res_dry]; exact ht
      refine ⟨?_, ?_⟩
      · exact (listOutputsWith_err_none_iff a a.omitSer tree).2 ⟨⟨ls, hs'⟩, ⟨lt, ht'⟩⟩
      · intro p
        rw [hops, written_append, supportOut_written a a.omitSer ls hs, typesOut_written a tree lt ht]
        simp only [listOutputsOnly, listOutputsWith, ht', hs', listOf, List.mem_append]
        exact Or.comm
  · simp [hacc] at hgen

/-- T1, error side: `--list-outputs` and `--dry-run` succeed exactly when generation succeeds (the template
of every type is looked up in all three; rendering itself is outside the model). -/
theorem C08_modes_succeed_together (a : Args) (es : List Entry) :
    ((run .listOutputs a es).err = none ↔ (run .generate a es).err = none) ∧
    ((run .dryRun a es).err = none ↔ (run .generate a es).err = none) := by
  unfold run runWith
  by_cases hacc : accepted a = true
  · simp only [hacc, Bool.not_true, Bool.false_eq_true, if_false, reduceCtorEq, ↓reduceIte]
    cases htree : buildTree a (treeEntries a es) with
    | error x => simp
    | ok tree =>
      simp only [listOutputsOnly, listOutputsWith_err_none_iff, generate_err_none_iff]
      rw [supportOut_res_dry a false, typesOut_res_dry a false]
      exact ⟨Iff.rfl, Iff.rfl⟩
  · simp [hacc]

/-- The file set of a successful real run, spelled out: the targets of the support resources selected by
`--generate-support` / `--omit-serialization-support`, then (unless `only`) the output path of every selected
type of the tree. -/
theorem C08_generated_characterised (a : Args) (es : List Entry) (tree : List (Entry × OutPath))
    (hacc : accepted a = true) (htree : buildTree a (treeEntries a es) = .ok tree)
    (hgen : (run .generate a es).err = none) :
    ∃ sup, (supportOut a false a.omitSer).res = .ok sup ∧
      generated a es = sup ++ (if a.genSupport != .only then (selected a tree).map (·.2) else []) := by
  unfold generated run runWith at *
  simp only [hacc, Bool.not_true, Bool.false_eq_true, if_false, reduceCtorEq, ↓reduceIte, htree] at hgen ⊢
  obtain ⟨ls, lt, hs, ht, hops⟩ := generate_ok a false tree hgen
  refine ⟨ls, hs, ?_⟩
  rw [hops, written_append, supportOut_written a a.omitSer ls hs, typesOut_written a tree lt ht,
    typesOut_ok_paths a false tree lt ht]

/-- What `--list-outputs` prints, spelled out: the generators' own path objects, untouched — first (unless `only`)
the output path of every selected entry exactly as `build_namespace_tree` computed it, then the support targets.
No item is re-normalised on the way to stdout: a `..` in `--outdir` stays in every printed path (`pathWithSuffix`
drops empty and `.` segments only, like `pathlib`), because removing `x/..` lexically names another directory
when `x` is a symbolic link. -/
theorem C08_list_outputs_prints_generator_paths (a : Args) (es : List Entry) (tree : List (Entry × OutPath))
    (hacc : accepted a = true) (htree : buildTree a (treeEntries a es) = .ok tree)
    (hok : (run .listOutputs a es).err = none) :
    ∃ sup, (supportOut a true a.omitSer).res = .ok sup ∧
      (run .listOutputs a es).outputs =
        (if a.genSupport != .only then (selected a tree).map (·.2) else []) ++ sup := by
  unfold run runWith at *
  simp only [hacc, Bool.not_true, Bool.false_eq_true, if_false, reduceCtorEq, ↓reduceIte, htree, listOutputsOnly] at hok ⊢
  obtain ⟨⟨ls, hs⟩, ⟨lt, ht⟩⟩ := (listOutputsWith_err_none_iff a a.omitSer tree).1 hok
  refine ⟨ls, hs, ?_⟩
  simp only [listOutputsWith, ht, hs, listOf]
  rw [typesOut_ok_paths a true tree lt ht]

/-- Histories: whatever listing / generating calls were made before on the same objects, a dry-run listing names
exactly the files a later (or earlier) real run writes — the i-th answer of a history is the answer of a first call,
hence T1 holds between any two positions of any history.  (The implementation side — no one-shot state in the
generator objects — is the in-process API stream of the harness.) -/
theorem C08_history_independent (pre post : List Mode) (m : Mode) (a : Args) (es : List Entry) :
    (runHistory (pre ++ m :: post) a es)[pre.length]? = some (run m a es) := by
  simp [runHistory]

theorem C08_history_listing_eq_generated (ms : List Mode) (a : Args) (es : List Entry) (i j : Nat)
    (hi : ms[i]? = some .listOutputs) (hj : ms[j]? = some .generate)
    (hgen : ∀ r, (runHistory ms a es)[j]? = some r → r.err = none) :
    ∃ rl rg, (runHistory ms a es)[i]? = some rl ∧ (runHistory ms a es)[j]? = some rg ∧ rl.err = none ∧
      ∀ p, p ∈ rl.outputs ↔ p ∈ written rg.ops := by
  have hl : (runHistory ms a es)[i]? = some (run .listOutputs a es) := by simp [runHistory, hi]
  have hg : (runHistory ms a es)[j]? = some (run .generate a es) := by simp [runHistory, hj]
  obtain ⟨h1, h2⟩ := C08_list_outputs_eq_generated a es (hgen _ hg)
  exact ⟨_, _, hl, hg, h1, h2⟩

/-! ## T2 — listing and dry-run modes touch nothing -/

/-- T2: the operation log of `--list-outputs`, `--list-inputs`, `--list-configuration` and `--dry-run` is empty — for
every argument record (accepted or not) and every namespace, also when the run ends in an error. -/
theorem C08_no_fs_ops_unless_generating (m : Mode) (a : Args) (es : List Entry) (hm : m ≠ .generate) :
    (run m a es).ops = [] := by
  unfold run runWith
  by_cases hacc : accepted a = true
  · simp only [hacc, Bool.not_true, Bool.false_eq_true, if_false]
    cases buildTree a (if m = .listConfiguration then [emptyRoot] else treeEntries a es) with
    | error x => rfl
    | ok tree =>
      cases m with
      | listOutputs => exact listOutputsWith_ops a a.omitSer tree
      | listInputs => rfl
      | listConfiguration => rfl
      | dryRun => exact generate_ops_dry a tree
      | generate => exact absurd rfl hm
  · simp [hacc]

/-- The flag combinations of the command line that reach `_generate` for real: none of the four flags set
(`--list-configuration` is the third branch of the `if`/`elif` chain of `ArgparseRunner.run`). -/
theorem C08_mode_of_flags (lo li lc dry : Bool) :
    modeOf lo li lc dry = .generate ↔ (lo = false ∧ li = false ∧ lc = false ∧ dry = false) := by
  cases lo <;> cases li <;> cases lc <;> cases dry <;> simp [modeOf]

/-! ## T3 — `--list-inputs` names what the run reads -/

/-- T3: the printed list contains every file the active type loader can hand to a template (any suffix, also below
linked directories), every support resource the run renders or copies, the DSDL source of every type the run generates,
and every definition below the lookup directories. -/
theorem C08_list_inputs_covers (a : Args) (es : List Entry) (tree : List (Entry × OutPath))
    (hacc : accepted a = true) (htree : buildTree a (treeEntries a es) = .ok tree) :
    (a.genSupport ≠ .only → ∀ f ∈ typeInputs a, f.path ∈ (run .listInputs a es).inputs) ∧
    (shouldGenerateSupport a = true →
      ∀ n ∈ supportResources a a.omitSer, supportTemplateRead a n ∈ (run .listInputs a es).inputs) ∧
    (a.genSupport ≠ .only → ∀ x ∈ selected a tree, x.1.src ∈ (run .listInputs a es).inputs) ∧
    (a.genSupport ≠ .only → ∀ d ∈ a.lookupFiles, d ∈ (run .listInputs a es).inputs) := by
  unfold run runWith
  simp only [hacc, Bool.not_true, Bool.false_eq_true, if_false, reduceCtorEq, ↓reduceIte, htree, listInputsOnly, listInputsGen]
  refine ⟨?_, ?_, ?_, ?_⟩
  · intro h f hf
    have : (a.genSupport != .only) = true := by simpa using h
    simp only [this, if_true, List.mem_append, List.mem_map]
    exact .inl (.inl ⟨f, hf, rfl⟩)
  · intro h n hn
    simp only [h, if_true, List.mem_append, List.mem_map]
    exact .inl (.inr ⟨n, hn, rfl⟩)
  · intro h x hx
    have : (a.genSupport != .only) = true := by simpa using h
    simp only [this, if_true, List.mem_append, List.mem_map]
    exact .inr (.inl ⟨x, hx, rfl⟩)
  · intro h d hd
    have : (a.genSupport != .only) = true := by simpa using h
    simp only [this, if_true, List.mem_append]
    exact .inr (.inr hd)

/-- T3, stated over paths: every file the active loader can open is printed *as its own path* — for a `--templates`
directory every file below it (any depth, any suffix, also below a symbolically linked sub-directory; a file that is a
symbolic link is printed as its resolved target), for the built-in package every loadable name — byte code below a
`__pycache__` directory excepted (the interpreter writes it by itself; no template can name it usefully).  Two files with the same
base name in different folders are two list items (no de-duplication by name). -/
theorem C08_list_inputs_every_template_path (a : Args) (es : List Entry) (tree : List (Entry × OutPath))
    (hacc : accepted a = true) (htree : buildTree a (treeEntries a es) = .ok tree) (hon : a.genSupport ≠ .only) :
    (∀ fs, a.templates = some fs → ∀ f ∈ fs, inPycache f.name = false → f.path ∈ (run .listInputs a es).inputs) ∧
    (a.templates = none → ∀ n ∈ a.lang.loadable, inPycache n = false →
        (builtinTemplateFile a "templates" n).path ∈ (run .listInputs a es).inputs) := by
  obtain ⟨h1, _, _, _⟩ := C08_list_inputs_covers a es tree hacc htree
  refine ⟨?_, ?_⟩
  · intro fs ht f hf hp
    apply h1 hon
    exact mem_typeInputs a (by simp only [typeLoaderFiles, ht]; exact hf) hp
  · intro ht n hn hp
    apply h1 hon
    exact mem_typeInputs a (by simp only [typeLoaderFiles, ht, List.mem_map]; exact ⟨n, hn, rfl⟩) hp

/-- The printed items are exactly the enumerated files, with multiplicity: as many items as files (a listing that keeps
one file per base name prints fewer). -/
theorem C08_list_inputs_template_count (a : Args) (es : List Entry) (tree : List (Entry × OutPath))
    (hacc : accepted a = true) (htree : buildTree a (treeEntries a es) = .ok tree)
    (hon : a.genSupport ≠ .only) (hns : shouldGenerateSupport a = false) :
    (run .listInputs a es).inputs =
      (typeInputs a).map (·.path) ++ ((selected a tree).map (·.1.src) ++ a.lookupFiles) := by
  have : (a.genSupport != .only) = true := by simpa using hon
  unfold run runWith
  simp [hacc, htree, listInputsOnly, listInputsGen, this, hns]

/-- T3, FULL STATEMENT: `--list-inputs` names every file whose content a real run turns into output — `reads` = the
templates of the active loader ∪ every loader name they include ∪ for every generated type its DSDL file and every DSDL
file the front end read to compile it ∪ the support templates the support loader really opens.  The two hypotheses are no
longer defect classes but facts about the surroundings: (1) a definition the front end read lies in the root namespace or
below a lookup directory (it has nowhere else to look); (2) what a built-in template includes is a file of its own
package (`C08_shipped_includes_are_loadable`: checked on the generated table for all shipped languages; the includes of a
custom `--templates` directory are files of that directory, all of which are printed — `C08_list_inputs_every_template_path`).
Before the round-2 fixes both failed (`listInputsOnlyBeforeInputsFix`, witnesses below). -/
theorem C08_list_inputs_covers_reads (a : Args) (es : List Entry) (tree : List (Entry × OutPath))
    (hacc : accepted a = true) (htree : buildTree a (treeEntries a es) = .ok tree)
    (hdeps : ∀ x ∈ selected a tree, ∀ d ∈ x.1.deps, d ∈ (selected a tree).map (·.1.src) ∨ d ∈ a.lookupFiles)
    (hinc : a.templates = none → ∀ n ∈ a.lang.included, n ∈ a.lang.loadable ∧ inPycache n = false) :
    ∀ r ∈ reads a tree, r ∈ (run .listInputs a es).inputs := by
  obtain ⟨h1, h2, h3, h4⟩ := C08_list_inputs_covers a es tree hacc htree
  intro r hr
  unfold reads at hr
  rcases List.mem_append.1 hr with hr | hr
  · by_cases hon : (a.genSupport != .only) = true
    · have hne : a.genSupport ≠ .only := by simpa using hon
      simp only [hon, if_true, List.mem_append, List.mem_map, List.mem_flatMap, List.mem_cons] at hr
      rcases hr with (⟨f, hf, rfl⟩ | ⟨f, hf, rfl⟩) | ⟨x, hx, hrx⟩
      · exact h1 hne f (typeTemplates_subset_typeInputs a f hf)
      · -- an included file: a file of the built-in package
        unfold includedFiles at hf
        cases ht : a.templates with
        | some fs => simp [ht] at hf
        | none =>
          simp only [ht, List.mem_map] at hf
          obtain ⟨n, hn, rfl⟩ := hf
          apply h1 hne
          exact mem_typeInputs a (by simp only [typeLoaderFiles, ht, List.mem_map]; exact ⟨n, (hinc ht n hn).1, rfl⟩)
            (hinc ht n hn).2
      · rcases hrx with rfl | hd
        · exact h3 hne x hx
        · rcases hdeps x hx r hd with hs | hl
          · obtain ⟨y, hy, hyr⟩ := List.mem_map.1 hs
            rw [← hyr]; exact h3 hne y hy
          · exact h4 hne r hl
    · simp [hon] at hr
  · by_cases hsg : shouldGenerateSupport a = true
    · simp only [hsg, if_true, List.mem_map] at hr
      obtain ⟨n, hn, rfl⟩ := hr
      exact h2 hsg n hn
    · simp [hsg] at hr

/-- Generated-table obligation: hypothesis (2) holds for every shipped language — whatever a built-in template includes
(also the HTML style sheets and scripts) is a loadable file of its package, hence printed. -/
theorem C08_shipped_includes_are_loadable :
    ∀ l ∈ table, ∀ n ∈ l.included, n ∈ l.loadable ∧ inPycache n = false := by
  decide

/-- Generated-table obligation: hypothesis (2) holds for the shipped C, C++ and Python template sets (checked
against `Gen/SupportFiles.lean`, i.e. against the templates of the tree under check). -/
theorem C08_shipped_includes_are_listed :
    ∀ l ∈ [lang_c, lang_cpp, lang_py], ∀ n ∈ l.included, n ∈ l.loadable ∧ isJ2 n = true := by
  decide

/-- Generated-table obligation: no shipped language has two support resources with the same target stem (two
resources would be listed twice but written once), and every packaged resource has a non-empty name. -/
theorem C08_shipped_support_targets_distinct :
    ∀ l ∈ table, ((l.serSupport ++ l.typeSupport).map pyStem).Nodup ∧ ∀ n ∈ l.serSupport ++ l.typeSupport, n ≠ "" := by
  decide

/-! ## The command line in front of the decision model

`Model/CliParse.lean`: `parseArgv` is the model of `parser.parse_args(argv)` for the parser of the tree under check (table
`Gen/CliArgs.lean`, regenerated from the real `argparse` object and from cli/__init__.py / cli/runners.py), `stepsOf` the
actions it takes in order, `cliMain` what `main` + `ArgparseRunner` do with the result.  Quantifier: every argument
vector (any list of strings). -/

section cli
open NunavutVerif.CliParse NunavutVerif.Gen.CliArgs

/-- Every command line the parser accepts: the four mode flags hold Booleans, each `True` exactly when an argument string
was resolved to its action (exact option string, unambiguous abbreviation, `-d`, inside a cluster like `-vd`), and the branch
`ArgparseRunner.run` takes is `modeOf` of them — what `C08_mode_of_flags` starts from is what the parser delivers. -/
theorem C08_cli_mode_of_flags (argv : List String) (ns : Namespace) (hp : parseArgv argv = .ok ns) :
    ∃ steps, stepsOf actions argv = some steps ∧
      ns.lookup "list_outputs" = some (.bool (steps.any (Step.takes "list_outputs"))) ∧
      ns.lookup "list_inputs" = some (.bool (steps.any (Step.takes "list_inputs"))) ∧
      ns.lookup "list_configuration" = some (.bool (steps.any (Step.takes "list_configuration"))) ∧
      ns.lookup "dry_run" = some (.bool (steps.any (Step.takes "dry_run"))) ∧
      modeOfNs ns = some (modeOf (steps.any (Step.takes "list_outputs")) (steps.any (Step.takes "list_inputs"))
        (steps.any (Step.takes "list_configuration")) (steps.any (Step.takes "dry_run"))) := by
  obtain ⟨steps, hs, _⟩ := parse_ok tableOk_actions hp
  have h1 := parsed_flag hp hs (d := "list_outputs") (by decide)
  have h2 := parsed_flag hp hs (d := "list_inputs") (by decide)
  have h3 := parsed_flag hp hs (d := "list_configuration") (by decide)
  have h4 := parsed_flag hp hs (d := "dry_run") (by decide)
  refine ⟨steps, hs, h1, h2, h3, h4, ?_⟩
  simp only [modeOfNs, runnerMethod, runChain, runElse, h1, h2, h3, h4, truthy]
  cases steps.any (Step.takes "list_outputs") <;> cases steps.any (Step.takes "list_inputs") <;>
    cases steps.any (Step.takes "list_configuration") <;> cases steps.any (Step.takes "dry_run") <;> rfl

/-- Every command line the parser accepts satisfies `accepted`: the hypothesis `hacc` of the theorems above is discharged
by the parser (`_post_process_args` is the rule table `Gen.CliArgs.rejections`), not assumed. -/
theorem C08_cli_args_accepted (env : Environ) (argv : List String) (ns : Namespace) (a : Args)
    (hp : parseArgv argv = .ok ns) (ha : toArgs env ns = some a) : accepted a = true := by
  obtain ⟨_, _, hrej, _, _⟩ := parse_ok tableOk_actions hp
  obtain ⟨⟨om, hom, homv⟩, ⟨gs, hgs, hgsv⟩, _⟩ := toArgs_fields ha
  simp only [rejected, rejections, List.any_cons, List.any_nil, Bool.or_false, hom, hgs, Bool.and_eq_false_iff] at hrej
  unfold accepted
  rw [homv, hgsv]
  rcases hrej with h | h
  · simp [h]
  · have : gs ≠ .sc (.str "always") := by simpa using h
    have hne : genSupportOf gs ≠ .always := by
      unfold genSupportOf
      split
      · rename_i s
        by_cases hs : s = "always"
        · subst hs; exact absurd rfl this
        · simp only [hs, if_false]; split <;> (try split) <;> simp
      · simp
    cases hg : genSupportOf gs <;> simp_all

/-- What `main` does with an accepted command line is a run of the decision model in the mode the flags select, on an
accepted argument record: `cliMain` never reaches the `parser-reject` branch of `run`. -/
theorem C08_cli_main_runs_model (env : Environ) (argv : List String) (es : List Entry) (m : Mode) (a : Args) (r : Run)
    (h : cliMain env argv es = .ran m a r) :
    ∃ ns, parseArgv argv = .ok ns ∧ toArgs env ns = some a ∧ modeOfNs ns = some m ∧ r = run m a es ∧
      accepted a = true := by
  unfold cliMain at h
  split at h
  · cases h
  · cases h
  · rename_i ns hp
    split at h
    · rename_i a' m' ha hm
      simp only [MainOut.ran.injEq] at h
      obtain ⟨rfl, rfl, rfl⟩ := h
      exact ⟨ns, hp, ha, hm, rfl, C08_cli_args_accepted env argv ns _ hp ha⟩
    · cases h

/-- T2 from the command line: if the run `main` performs does anything to the disk, then none of `--list-outputs`,
`--list-inputs`, `--list-configuration`, `--dry-run` (in any spelling the parser resolves to them) was on the command
line. -/
theorem C08_cli_no_fs_ops_with_listing_flags (env : Environ) (argv : List String) (es : List Entry) (m : Mode) (a : Args)
    (r : Run) (h : cliMain env argv es = .ran m a r) (hops : r.ops ≠ []) :
    ∃ steps, stepsOf actions argv = some steps ∧
      ∀ d ∈ ["list_outputs", "list_inputs", "list_configuration", "dry_run"], steps.any (Step.takes d) = false := by
  obtain ⟨ns, hp, _, hm, rfl, _⟩ := C08_cli_main_runs_model env argv es m a r h
  obtain ⟨steps, hs, _, _, _, _, hmode⟩ := C08_cli_mode_of_flags argv ns hp
  refine ⟨steps, hs, ?_⟩
  have hgen : m = .generate := by
    by_cases hne : m = .generate
    · exact hne
    · exact absurd (C08_no_fs_ops_unless_generating m a es hne) hops
  rw [hm] at hmode
  simp only [Option.some.injEq] at hmode
  rw [hgen] at hmode
  obtain ⟨h1, h2, h3, h4⟩ := (C08_mode_of_flags _ _ _ _).1 hmode.symm
  intro d hd
  simp only [List.mem_cons, List.mem_nil_iff, or_false] at hd
  rcases hd with rfl | rfl | rfl | rfl <;> assumption

/-- T1 from the command line: two command lines that differ only in the mode they select (same argument record) — one
generating successfully, one listing outputs: the printed list is the set of files the generating one writes. -/
theorem C08_cli_list_outputs_eq_generated (env : Environ) (argvGen argvList : List String) (es : List Entry) (a : Args)
    (rg rl : Run) (hg : cliMain env argvGen es = .ran .generate a rg) (hl : cliMain env argvList es = .ran .listOutputs a rl)
    (hok : rg.err = none) : rl.err = none ∧ ∀ p, p ∈ rl.outputs ↔ p ∈ written rg.ops := by
  obtain ⟨_, _, _, _, rfl, _⟩ := C08_cli_main_runs_model env argvGen es _ a rg hg
  obtain ⟨_, _, _, _, rfl, _⟩ := C08_cli_main_runs_model env argvList es _ a rl hl
  exact C08_list_outputs_eq_generated a es hok

/-- Generated-table obligation: the calls the three run methods make on the two generators are the ones `Model/Cli.lean`
transcribes — `_list_outputs_only`: types then support, both dry, both with `--omit-serialization-support`;
`_list_inputs_only`: type templates, support templates, the sources, then the definitions below the lookup directories; `_generate`: support then types with the same four
keyword values; the guards are `_should_generate_support()` for the support generator and `generate_support != "only"` for
the type generator, in all three; the lookup directories are `--lookup-dir` plus the entries of `DSDL_INCLUDE_PATH` — one list
(`self._extra_includes`, shape checked by the translator) for the DSDL front end and for `_lookup_dsdl_files`, which is what
`Args.lookupFiles` stands for (`CliParse.extraIncludes`). -/
theorem C08_runner_calls_as_modelled :
    calls.map (fun c => (c.method, c.target, c.fn, c.guards)) =
      [("_list_outputs_only", "_generator", "generate_all", [.notOnly]),
       ("_list_outputs_only", "_support_generator", "generate_all", [.shouldGenerateSupport]),
       ("_list_inputs_only", "_generator", "get_templates", [.notOnly]),
       ("_list_inputs_only", "_support_generator", "get_templates", [.shouldGenerateSupport]),
       ("_list_inputs_only", "_root_namespace", "get_all_types", [.notOnly, .genNsTypes]),
       ("_list_inputs_only", "_root_namespace", "get_all_datatypes", [.notOnly, .notGenNsTypes]),
       ("_list_inputs_only", "self", "_lookup_dsdl_files", [.notOnly]),
       ("_generate", "_support_generator", "generate_all", [.shouldGenerateSupport]),
       ("_generate", "_generator", "generate_all", [.notOnly])] ∧
    (∀ c ∈ calls, c.method = "_list_outputs_only" →
      c.kwargs = [("is_dryrun", .const true), ("omit_serialization_support", .arg "omit_serialization_support")]) ∧
    (∀ c ∈ calls, c.fn = "get_templates" → c.kwargs = [("omit_serialization_support", .arg "omit_serialization_support")]) ∧
    (∀ c ∈ calls, c.method = "_generate" → c.kwargs.lookup "is_dryrun" = some (.arg "dry_run") ∧
      c.kwargs.lookup "omit_serialization_support" = some (.arg "omit_serialization_support")) ∧
    runChain = [("list_outputs", "_list_outputs_only"), ("list_inputs", "_list_inputs_only"),
      ("list_configuration", "_list_configuration_only")] ∧ runElse = "_generate" ∧
    envIncludeVars = ["DSDL_INCLUDE_PATH"] := by
  decide

/-! Non-vacuity of the command-line theorems (kernel-evaluated on the generated table). -/

def nsOf : Outcome → Namespace
  | .ok ns => ns
  | _ => []

def cEnv : Environ := { langs := table, pkgDir := "/pkg/nunavut/lang", dirFiles := fun _ => [] }

/-- Accepted command lines: a cluster `-vd`, the abbreviation `--no-o`, `-lc` (exact option string of `--list-configuration`,
not `-l c`), `-lcpp` (`-l` with a glued value); the mode the runner takes. -/
example :
    (nsOf (parseArgv ["-vd", "--no-o", "ns"])).lookup "dry_run" = some (.bool true) ∧
    (nsOf (parseArgv ["-vd", "--no-o", "ns"])).lookup "no_overwrite" = some (.bool true) ∧
    (nsOf (parseArgv ["-vd", "--no-o", "ns"])).lookup "root_namespace" = some (.sc (.str "ns")) ∧
    modeOfNs (nsOf (parseArgv ["-vd", "--no-o", "ns"])) = some .dryRun ∧
    modeOfNs (nsOf (parseArgv ["-lc", "--dry-run"])) = some .listConfiguration ∧
    modeOfNs (nsOf (parseArgv ["--list-inputs", "-lc", "--list-outputs"])) = some .listOutputs ∧
    (nsOf (parseArgv ["-lcpp"])).lookup "target_language" = some (.sc (.str "cpp")) ∧
    modeOfNs (nsOf (parseArgv ["-lcpp"])) = some .generate := by decide

/-- Rejected command lines: an ambiguous abbreviation, the inter-argument rule, a left-over string, a missing value, a value
outside `choices`; `--help` ends the parse before the error behind it. -/
example :
    parseArgv ["--lis"] = .error (.ambiguous "--lis") ∧
    parseArgv ["-pod", "--generate-support", "always"] = .error .logic ∧
    parseArgv ["a", "b"] = .error (.unrecognized ["b"]) ∧
    parseArgv ["--outdir", "--dry-run"] = .error (.expectedOneArg "--outdir/-O") ∧
    parseArgv ["--generate-support", "alway"] = .error (.invalidChoice "--generate-support") ∧
    parseArgv ["--help", "--outdir"] = .exit0 "help" := by decide

def ranAs : MainOut → Option (Mode × Args × Run)
  | .ran m a r => some (m, a, r)
  | _ => none

end cli

/-! ## Witnesses and non-vacuity -/

section witnesses

def wArgs : Args :=
  { lang := lang_c, pkgDir := "/pkg/nunavut/lang", outdir := ["out"], genSupport := .asNeeded, omitSer := false,
    gnt := false, extArg := none, stemArg := none, templates := none, supportTemplates := none }

def wEntries : List Entry :=
  [⟨true, ["app"], "", "/ns/app", ["Namespace", "Any"], []⟩,
   ⟨false, ["app"], "Use_1_0", "/ns/app/Use.1.0.dsdl", ["StructureType", "CompositeType", "Any"],
     ["/look/lib/Dep.1.0.dsdl"]⟩]

/-- Non-vacuity of T1/T2/T3: an accepted configuration whose real run succeeds and writes two files. -/
example : (run .generate wArgs wEntries).err = none ∧
    generated wArgs wEntries = [["out", "nunavut", "support", "serialization.h"], ["out", "app", "Use_1_0.h"]] ∧
    (run .listOutputs wArgs wEntries).outputs =
      [["out", "app", "Use_1_0.h"], ["out", "nunavut", "support", "serialization.h"]] ∧
    "/ns/app/Use.1.0.dsdl" ∈ (run .listInputs wArgs wEntries).inputs ∧
    "/pkg/nunavut/lang/c/support/serialization.j2" ∈ (run .listInputs wArgs wEntries).inputs := by decide

/-- Non-vacuity: the "generation fails" branch exists (C has no namespace template), and the parser's
rejection. -/
example : (run .generate { wArgs with gnt := true } wEntries).err = some .noTemplate ∧
    (run .listOutputs { wArgs with gnt := true } wEntries).err = some .noTemplate ∧
    (run .listInputs { wArgs with gnt := true } wEntries).err = none ∧
    (run .generate { wArgs with genSupport := .always, omitSer := true } wEntries).err = some .parserReject := by
  decide

/-- DEFECT (round 2, unchanged code): `--list-outputs --list-configuration` — `run` takes the `--list-outputs` branch, but
`__init__` has skipped the DSDL front end because `--list-configuration` was given: the printed list lacks every type the
real run writes.  `runLcBeforeFix` violates T1; the repaired `run` does not depend on the flag. -/
example :
    (runLcBeforeFix .listOutputs true wArgs wEntries).err = none ∧
    (runLcBeforeFix .listOutputs true wArgs wEntries).outputs = [["out", "nunavut", "support", "serialization.h"]] ∧
    ["out", "app", "Use_1_0.h"] ∈ generated wArgs wEntries ∧
    ["out", "app", "Use_1_0.h"] ∈ (run .listOutputs wArgs wEntries).outputs ∧
    "/ns/app/Use.1.0.dsdl" ∉ (runLcBeforeFix .listInputs true wArgs wEntries).inputs := by decide

/-- DEFECT F1 (unchanged code): `--generate-support only --omit-serialization-support --list-outputs` prints
`nunavut/support/serialization.h`, the real run creates nothing.  `runBeforeFix` violates T1. -/
example :
    let a := { wArgs with genSupport := .only, omitSer := true }
    (runBeforeFix .generate a wEntries).err = none ∧
    ["out", "nunavut", "support", "serialization.h"] ∈ (runBeforeFix .listOutputs a wEntries).outputs ∧
    written (runBeforeFix .generate a wEntries).ops = [] := by decide

/-- … and the repaired listing prints nothing for the same arguments. -/
example : (run .listOutputs { wArgs with genSupport := .only, omitSer := true } wEntries).outputs = [] := by decide

/-- DEFECT repaired in round 2 (lookup dependency): `Use.1.0` embeds `lib.Dep.1.0` found through `--lookup-dir`; the file is
read and compiled into the output.  Before `fix_list_inputs_lookup_dsdl` it was not listed (negation of the full T3
statement for `runBeforeInputsFix`); now every definition below the lookup directories is. -/
example :
    let a := { wArgs with lookupFiles := ["/look/lib/Dep.1.0.dsdl", "/look/lib/Unused.1.0.dsdl"] }
    (∃ r ∈ reads a [(wEntries[1], ["out", "app", "Use_1_0.h"])], r ∉ (runBeforeInputsFix .listInputs a wEntries).inputs) ∧
    (∀ r ∈ reads a [(wEntries[1], ["out", "app", "Use_1_0.h"])], r ∈ (run .listInputs a wEntries).inputs) :=
  ⟨⟨"/look/lib/Dep.1.0.dsdl", by decide, by decide⟩, by decide⟩

/-- DEFECT repaired in round 2 (HTML assets): the HTML templates include files that are not `.j2`; before
`fix_list_inputs_all_template_dir_files` they were not listed, now every file of the template package is. -/
example :
    (∃ r ∈ reads { wArgs with lang := lang_html } [],
      r ∉ (runBeforeInputsFix .listInputs { wArgs with lang := lang_html } []).inputs) ∧
    (∀ r ∈ reads { wArgs with lang := lang_html } [], r ∈ (run .listInputs { wArgs with lang := lang_html } []).inputs) :=
  ⟨⟨"/pkg/nunavut/lang/html/templates/assets/bootstrap.min.css", by decide, by decide⟩, by decide⟩

/-- DEFECT (unchanged code, shadowed support template): a `serialization.j2` in `--support-templates` is what the
support generator renders, the packaged one is what `--list-inputs` printed.  `runBeforeFix` violates T3 … -/
example :
    let a := { wArgs with supportTemplates := some [⟨"serialization.j2", "/custom/serialization.j2", false⟩] }
    ∃ r ∈ reads a [], r ∉ (runBeforeFix .listInputs a []).inputs :=
  ⟨"/custom/serialization.j2", by decide, by decide⟩

/-- … and the repaired listing prints the file that is read. -/
example :
    let a := { wArgs with supportTemplates := some [⟨"serialization.j2", "/custom/serialization.j2", false⟩] }
    "/custom/serialization.j2" ∈ (run .listInputs a []).inputs ∧
    "/pkg/nunavut/lang/c/support/serialization.j2" ∉ (run .listInputs a []).inputs := by decide

/-- Same-named templates in different folders of `--templates` (seeded change C08-2): both paths are printed. -/
def wTreeDir : List TemplateFile :=
  [⟨"Any.j2", "/t/Any.j2", false⟩, ⟨"header.j2", "/t/header.j2", false⟩, ⟨"parts/header.j2", "/t/parts/header.j2", false⟩,
   ⟨"parts/deep/header.j2", "/t/parts/deep/header.j2", false⟩, ⟨"data/values.txt", "/t/data/values.txt", false⟩]

example :
    (run .listInputs { wArgs with genSupport := .never, templates := some wTreeDir } wEntries).inputs =
      ["/t/Any.j2", "/t/header.j2", "/t/parts/header.j2", "/t/parts/deep/header.j2", "/t/data/values.txt",
       "/ns/app/Use.1.0.dsdl"] := by decide

/-- `..` after a (possibly symbolic) directory is kept in computed, printed and written paths alike; only empty and
`.` segments disappear (seeded change C08-4 printed the lexically normalised `/t/gen/...`). -/
example : pathWithSuffix ["", "t", "lnk", "..", "gen", ".", "", "Use_1_0"] ".h" = .ok ["t", "lnk", "..", "gen", "Use_1_0.h"] := rfl

example :
    (run .listOutputs { wArgs with outdir := ["", "t", "lnk", "..", "gen"], genSupport := .never } wEntries).outputs =
      [["t", "lnk", "..", "gen", "app", "Use_1_0.h"]] ∧
    generated { wArgs with outdir := ["", "t", "lnk", "..", "gen"], genSupport := .never } wEntries =
      [["t", "lnk", "..", "gen", "app", "Use_1_0.h"]] := by decide

/-- A template that is itself a symbolic link is listed (as its target).  One below a linked sub-directory is rendered
by Jinja; before `fix_list_inputs_all_template_dir_files` it was not listed, now it is. -/
def wLinkedDir : List TemplateFile :=
  wTreeDir ++ [⟨"license.j2", "/shared/license.j2", false⟩, ⟨"linked/part.j2", "/elsewhere/part.j2", true⟩]

example :
    (runBeforeInputsFix .listInputs { wArgs with genSupport := .never, templates := some wLinkedDir } wEntries).inputs =
      ["/t/Any.j2", "/t/header.j2", "/t/parts/header.j2", "/t/parts/deep/header.j2", "/shared/license.j2", "/ns/app/Use.1.0.dsdl"] ∧
    (run .listInputs { wArgs with genSupport := .never, templates := some wLinkedDir } wEntries).inputs =
      ["/t/Any.j2", "/t/header.j2", "/t/parts/header.j2", "/t/parts/deep/header.j2", "/t/data/values.txt",
       "/shared/license.j2", "/elsewhere/part.j2", "/ns/app/Use.1.0.dsdl"] := by
  decide

/-- `cliMain` on a whole command line: the run of the decision model it denotes. -/
example :
    ((NunavutVerif.Cli.ranAs (NunavutVerif.CliParse.cliMain cEnv ["-l", "c", "--list-outputs", "-O", "out", "ns"] wEntries)).map
      fun x => (x.1, x.2.1.outdir, x.2.2.ops, x.2.2.outputs)) =
    some (.listOutputs, ["out"], [], [["out", "app", "Use_1_0.h"], ["out", "nunavut", "support", "serialization.h"]]) := by
  decide

end witnesses

end NunavutVerif.Cli
