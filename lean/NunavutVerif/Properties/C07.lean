import NunavutVerif.Lemmas.Tpl
import NunavutVerif.Lemmas.FilePP
import NunavutVerif.Gen.TplFlows
import NunavutVerif.Gen.TplCallables
/-!
# C07 — reproducible output: a pure function of inputs, options and tool version

Property theorems only.  Definitions: `Model/Tpl.lean`; helper lemmas: `Lemmas/Tpl.lean`; the tables
`Gen/TplFlows*.lean` are regenerated from the templates and filter sources of the tree under check on every run.

Reading: the bytes of a rendered file are `render I P false d a …` — `I` interprets the leaves (any interpretation),
`d` are the declared inputs (DSDL definitions with namespace-relative paths, templates, options, tool version), `a`
is the ambient state (clock, absolute location / cwd, platform, hash seed, random numbers, process state).  A leaf
sees `a` only through the source classes the translator found for it, minus the classes removed by sanitisers
(`.name`, `sort`, the auditing-off platform dictionary); each sanitiser kind has its own theorem below.
-/
namespace NunavutVerif.C07
open NunavutVerif.Tpl NunavutVerif.Gen

/-- T1 noninterference: bodies that are closed under calls and in which every leaf reading an ambient class of
`cs` is under an auditing guard or behind a sanitiser render — with auditing off — to the same text for ANY two
ambient states that differ only in `cs`; for all interpretations, declared inputs, call depths, loop contexts. -/
theorem C07_noninterference {δ : Type} (cs : List Src) (I : Interp δ) (P : List Tpl) (S : List Nat)
    (hS : closedClean cs P S = true) (d : δ) (a₁ a₂ : Amb) (h : agreeOff cs a₁ a₂)
    (fuel m : Nat) (ls : List Nat) (hm : m ∈ S) :
    render I P false d a₁ fuel m ls = render I P false d a₂ fuel m ls :=
  render_ni I P S hS d h fuel m ls hm

/-- T1 for a generated table: if the static check passes for the roots of kind `k` of a language, every file of that
kind is the same function of the declared inputs whatever the clock, location, platform, hash seed and random state
are (the process state `Src.c10` held fixed; that is C10). -/
theorem C07_root_reproducible {δ : Type} (L : Lang) (k : FileKind) (hk : L.rootsCleanFor Src.c07 k = true)
    (r : Root) (hr : r ∈ L.roots) (hrk : r.kind = k) (m : Nat) (hb : r.body = some m)
    (I : Interp δ) (d : δ) (a₁ a₂ : Amb) (h : agreeOff Src.c07 a₁ a₂) (fuel : Nat) :
    render I L.program false d a₁ fuel m [] = render I L.program false d a₂ fuel m [] := by
  unfold Lang.rootsCleanFor at hk
  rw [List.all_eq_true] at hk
  have := hk r hr
  simp only [hrk, if_true, hb, Bool.and_eq_true] at this
  exact render_ni I L.program _ this.2 d h fuel m [] (by simpa using this.1)

/-! ### T2: the generated tables (decided over the whole table of each language) -/

/-- c: every ambient leaf of every built-in and support template is guarded or sanitised. -/
theorem C07_c_clean : TplFlowsC.lang.cleanFor Src.c07 = true := by decide +kernel

/-- cpp. -/
theorem C07_cpp_clean : TplFlowsCpp.lang.cleanFor Src.c07 = true := by decide +kernel

/-- html. -/
theorem C07_html_clean : TplFlowsHtml.lang.cleanFor Src.c07 = true := by decide +kernel

/- py, full statement (FALSE for the code as it is):
     theorem C07_py_clean : TplFlowsPy.lang.cleanFor Src.c07 = true
   `filter_pickle` serialises the whole PyDSDL model of the type, and that model holds the absolute path of the
   `.dsdl` file (known finding `py-pickled-model-absolute-path`).  Proved: everything except that one cell
   (language py × per-type files × absolute location). -/
theorem C07_py_clean_partial :
    TplFlowsPy.lang.cleanFor [.time, .platform, .hashOrder, .random] = true ∧
    TplFlowsPy.lang.rootsCleanFor Src.c07 .namespace = true ∧
    TplFlowsPy.lang.rootsCleanFor Src.c07 .support = true := by decide +kernel

/-- py, tightened: the ONLY expressions of the Python templates that read anything ambient with auditing off are the
applications of the `pickle` filter (the `_MODEL_` literal: `ServiceType.j2` and the `data_schema` macro of `base.j2`;
ids regenerated in `TplFlowsPy.pickleLeaves`).  With those leaves replaced by ANY ambient-independent function of the
same arguments the whole table — per-type, namespace and support files — is clean for every class of C07, i.e. by T1
every other byte of every generated Python file is reproducible. -/
theorem C07_py_clean_except_pickled_model_partial :
    (TplFlowsPy.lang.scrub TplFlowsPy.pickleLeaves).cleanFor Src.c07 = true := by decide +kernel

/-- The exception is not empty, and c, cpp and html have none. -/
example : TplFlowsPy.pickleLeaves ≠ [] ∧ TplFlowsC.pickleLeaves = [] ∧ TplFlowsCpp.pickleLeaves = [] ∧
    TplFlowsHtml.pickleLeaves = [] := by decide

/-- The excluded cell really is dirty in the table (the model describes the code as it is). -/
example : TplFlowsPy.lang.rootsCleanFor [.absPath] .type = false := by decide +kernel

/-- Source facts the sanitisers of the tables rely on (read off the Python source by the translator):
`IncludeGenerator` sorts, the platform dictionary is reduced to the interpreter version when auditing is off, the HTML
natural sort breaks ties by the plain name (a non-injective key keeps the hash order of tied elements). -/
theorem C07_sanitiser_conditions :
    TplFlows.includeGeneratorSorts = true ∧ TplFlows.platformVersionAuditOffOnly = true ∧
    TplFlows.naturalSortTotal = true := by decide

/-! ### T3 and the other sanitisers -/

/-- T3: a sorted include list does not depend on the iteration order of the (hash-ordered) dependency set:
`sorted(map f l₁) = sorted(map f l₂)` whenever `l₁` is a permutation of `l₂`. -/
theorem C07_sorted_includes_order_independent {α : Type} (f : α → LineBuffer.Str) (l₁ l₂ : List α)
    (h : l₁.Perm l₂) : sortStrs (l₁.map f) = sortStrs (l₂.map f) :=
  sortStrs_perm_invariant _ _ (h.map f)

/-- `.name` of a path does not depend on the absolute location of the tree. -/
theorem C07_path_name_location_independent {α : Type} (loc₁ loc₂ rel : List α) (h : rel ≠ []) :
    (loc₁ ++ rel).getLast? = (loc₂ ++ rel).getLast? :=
  path_name_location_independent loc₁ loc₂ rel h

/-! ### Non-vacuity and regression examples -/

/-- A program with a guarded clock, a sanitised path and a recursive macro passes the check … -/
def exProgram : List Tpl :=
  [ .seq (.text 0) (.seq (.ite .audit (.out ⟨1, [.time], []⟩) (.out ⟨2, [.absPath], [.absPath]⟩)) (.call 1)),
    .loop ⟨3, [.hashOrder], [.hashOrder]⟩ (.seq (.out ⟨4, [], []⟩) (.call 1)) ]

example : closedClean Src.c07 exProgram [0, 1] = true := by decide

/-- … and really renders something that depends on the declared input. -/
def exInterp : Interp Nat where
  text := fun _ => "x".toList
  out := fun i d _ a => (toString (i + d + a .time)).toList
  cond := fun _ _ _ _ => true
  iter := fun _ d ls _ => if ls.length < 2 then [d] else []
  filt := fun _ _ _ _ s => s

example : render exInterp exProgram false 5 (fun _ => 7) 9 0 [] ≠ render exInterp exProgram false 6 (fun _ => 7) 9 0 [] := by
  decide

/-- F4 (c, cpp before the fix): the option `static_assert` message prints `T.source_file_path.as_posix()` outside the
auditing guard. -/
def cStaticAssertBeforeFix : List Tpl :=
  [ .loop ⟨0, [], []⟩ (.seq (.text 0) (.seq (.out ⟨1, [.absPath], []⟩) (.text 1))) ]

example : closedClean [.absPath] cStaticAssertBeforeFix [0] = false := by decide

/-- … and the output then does depend on the location: a concrete interpretation and two locations. -/
example : ∃ (I : Interp Unit) (a₁ a₂ : Amb), agreeOff [.absPath] a₁ a₂ ∧
    render I cStaticAssertBeforeFix false () a₁ 1 0 [] ≠ render I cStaticAssertBeforeFix false () a₂ 1 0 [] := by
  refine ⟨⟨fun _ => [], fun _ _ _ a => (toString (a .absPath)).toList, fun _ _ _ _ => true, fun _ _ _ _ => [0],
           fun _ _ _ _ s => s⟩,
          fun _ => 1, fun s => if s = .absPath then 2 else 1, ?_, by decide⟩
  intro s hs
  cases s <;> simp_all

/-- F5 (py before the fix): `Namespace.j2` prints `now_utc` unguarded; `filter_pickle` embeds the gzip mtime. -/
def pyNamespaceBeforeFix : List Tpl := [ .seq (.text 0) (.seq (.out ⟨0, [.time], []⟩) (.text 1)) ]
def pyPickleBeforeFix : List Tpl := [ .out ⟨0, [.time, .absPath], []⟩ ]

example : closedClean [.time] pyNamespaceBeforeFix [0] = false := by decide
example : closedClean [.time] pyPickleBeforeFix [0] = false := by decide

/-- Sorting really is needed and really works: two iteration orders of the same dependency set. -/
example : sortStrs ["b.h".toList, "a.h".toList, "c.h".toList] = sortStrs ["c.h".toList, "b.h".toList, "a.h".toList] :=
  sortStrs_perm_invariant _ _ (by decide)

/-! ### Outside the templates: the glue code and the external post-processing program -/

/-- Every filter, test and global registered in the real template environments of c, cpp, py and html — whether a
built-in template uses it or not, `ln.<language>.*` aliases and the filters contributed by `@template_language_filter`
& co. included — is classified (hand table for Jinja's own and for opaque values, scan of the Python body for nunavut
code), and none reads the clock, an absolute path, the platform, a hash order or a random source, except the expected
names of `Tpl.expectedAmbient` with no more than their expected classes.  A newly registered or newly ambient name
breaks this theorem and is listed in the replay. -/
theorem C07_registered_callables_as_expected :
    TplCallables.unclassified = [] ∧
    TplCallables.all.all (fun L => L.2.all (Callable.asExpected Src.c07)) = true := by decide +kernel

/-- Non-vacuity: the table is not empty and the expected names are really there and really ambient. -/
example : TplCallables.all.all (fun L => L.2.length > 200) = true ∧
    TplCallables.c.any (fun c => c.short = "now_utc" && c.effective.contains .time) = true ∧
    TplCallables.py.any (fun c => c.short = "pickle" && c.effective.contains .absPath) = true := by decide +kernel

/-- Nothing but the command line, the documented environment variables (`DSDL_INCLUDE_PATH`, `CYPHAL_PATH`) and the
package itself is looked at by the command line, the runners, the language configuration, the generators and the
post-processors: no path spelled as a string constant relative to the working directory (`Path("nunavut.yaml")`), no
working / home directory, no other environment variable, no temporary-file name, no random source.  (Regenerated AST
scan of the whole package, bundled third-party code excluded; a hit is listed by file and line in the replay.) -/
theorem C07_no_undeclared_ambient_inputs_in_source : TplFlows.noUndeclaredAmbientInputs = true := by decide

/-- The override files of `--configuration` / `LanguageContextBuilder.add_config_files` are read in the order they are given
(a later file wins), not in an order derived from how their paths are spelled: the same files in the same order give
the same configuration from every working directory and at every location.  (Source fact, regenerated.) -/
theorem C07_config_files_read_in_given_order_in_source : TplFlows.configFilesReadInGivenOrder = true := by decide

/-- `ExternalProgramEditInPlace.__call__` / `SetFileMode.__call__` / the command line's list builder are the statements
`Model/FilePP.lean` was transcribed from, and no file post-processor writes object state. -/
theorem C07_file_pp_model_matches_source :
    TplFlows.filePPSourceMatchesModel = true ∧ TplFlows.filePPCallsPure = true ∧
    TplFlows.generatorRunsFilePPsOnceInOrder = true := by decide

section ExternalProgram
open NunavutVerif.FilePP

/-- Every invocation of the external program (`--pp-run-program`, `ExternalProgramEditInPlace`) for an output file is
the configured command line followed by THE REAL PATH OF THAT OUTPUT FILE (`sys.executable` in front iff the program's
name ends in `.py`): the program is never shown a scratch name, a time stamp or anything else that is not a declared
input — so a deterministic program that uses the name it is given (include-guard fixer, banner script) is given the
same name in every run.  For every list of built-in post-processors and every file. -/
theorem C07_external_program_given_real_output_path (py : LineBuffer.Str) (ren : Nat → LineBuffer.Str → LineBuffer.Str)
    (objs : List Obj) (hb : builtinOnly objs = true) (j : FilePP.Job) (argv : Argv) (chk : Bool)
    (h : Event.exec argv chk ∈ (fileEvents (callReal py ren) objs j).1) :
    argv.getLast? = some j.path ∧ ∀ a ∈ argv.dropLast, a = py ∨ a ∈ cfgArgs objs := by
  have := fileEvents_builtin_events py ren (py :: cfgArgs objs) objs j hb
    (by intro a ha; rcases ha with h | h <;> simp [h]) _ h
  refine ⟨this.1, fun a ha => ?_⟩
  simpa using this.2 a ha

/-- The post-processed file (bytes and permission bits) is a function of the rendered text, the configured
post-processors, the output path and what the program does with the files it is given: it is the same from any two
file systems that agree on the file itself, the interpreter and the configured arguments — whatever else lies around
(scratch files, other outputs, the working directory). -/
theorem C07_post_processed_file_function_of_declared_inputs (prog : Prog) (ren : Nat → LineBuffer.Str → LineBuffer.Str)
    (defMode : Nat) (py : LineBuffer.Str) (objs : List Obj) (hb : builtinOnly objs = true)
    (hF : prog.EditsLastOnly (py :: cfgArgs objs)) (hL : prog.Local) (j : FilePP.Job) (fs₁ fs₂ : FS)
    (hagree : ∀ q, (q = j.path ∨ q ∈ py :: cfgArgs objs) → fs₁.get q = fs₂.get q) :
    (fileWorld prog ren defMode (callReal py ren) objs j fs₁).fs.get j.path =
      (fileWorld prog ren defMode (callReal py ren) objs j fs₂).fs.get j.path ∧
    (fileWorld prog ren defMode (callReal py ren) objs j fs₁).err =
      (fileWorld prog ren defMode (callReal py ren) objs j fs₂).err := by
  have hev := fileEvents_builtin_events py ren (py :: cfgArgs objs) objs j hb
    (by intro a ha; rcases ha with h | h <;> simp [h])
  have := interp_local prog ren defMode (py :: cfgArgs objs) hF hL (fileEvents (callReal py ren) objs j).1
    ⟨fs₁, [], none⟩ ⟨fs₂, [], none⟩ j.path hev ⟨rfl, hagree⟩
  exact ⟨this.2 j.path (Or.inl rfl), this.1⟩

/-- What the theorem excludes: were the program run on a scratch copy with a name chosen at random, a program that
writes the base name it is given into the file would produce other bytes for other random names (the model of such a
call, `exec (cmd ++ [scratch])`, differs from the code's `exec (cmd ++ [output path])` in exactly the last argument). -/
example : (fileEvents (callReal [] fun _ p => p) [.ext [['t']] true] ⟨.generate, ['o', '.', 'h'], [], true⟩).1 =
    [.overwrite ['o', '.', 'h'] true, .write ['o', '.', 'h'] [] [], .exec [['t'], ['o', '.', 'h']] true] := by decide

end ExternalProgram

end NunavutVerif.C07
