import NunavutVerif.Lemmas.DsdlAdjust
import NunavutVerif.Lemmas.DsdlBytes
/-!
# C03 — round trip and re-serialization (specification level)

Property theorems only; definitions in `Model/Dsdl.lean`, proofs of the inductions in `Lemmas/Dsdl*.lean`.
Quantifiers: all well-formed types `t` (`wf`: PyDSDL's side conditions), all in-memory values `v` the
serializer accepts (no sampling: structural induction over the type), all continuations of the data.

The cross-target / cross-option half of C03 needs no theorem of its own: every target and option set is
compared with this one model (`harness`), so agreement with the model is agreement with each other.
-/
namespace NunavutVerif.Dsdl

/-- Round trip, nested position, with arbitrary data following: decoding what the serializer produced
returns the cast-adjusted value and consumes exactly the produced bits. -/
theorem C03_round_trip_bits (t : Ty) (hw : wf t = true) (v : Val) (bs rest : List Bool)
    (hs : serBits t v = .ok bs) :
    deBits t (bs ++ rest) = .ok (castAdjust t v, bs.length) :=
  rtOK t hw v bs hs rest

/-- Round trip of a top-level object (no delimiter header), with arbitrary trailing data. -/
theorem C03_round_trip_top (t : Ty) (hw : wf t = true) (v : Val) (bs rest : List Bool)
    (hs : serTop t v = .ok bs) :
    deTop t (bs ++ rest) = .ok (castAdjust t v, bs.length) := by
  unfold serTop at hs
  unfold deTop
  rw [rtOK (topInner t) (wf_topInner hw) v bs hs rest, castAdjust_topInner]
  simp

/-- Round trip on bytes, with arbitrary trailing bytes: the decoded value is the cast-adjusted value and
the reported consumed size is the size of the serialized representation. -/
theorem C03_round_trip_bytes (t : Ty) (hw : wf t = true) (v : Val) (bytes extra : List Nat)
    (hs : serBytes t v = .ok bytes) :
    deBytes t (bytes ++ extra) = .ok (castAdjust t v, bytes.length) := by
  unfold serBytes at hs
  rw [map_eq_ok] at hs
  obtain ⟨bs, hb, rfl⟩ := hs
  unfold deBytes
  rw [unpackBytes_append, unpack_pack, List.append_assoc,
    C03_round_trip_top t hw v bs _ hb, packBytes_length]

/-- Re-serialization is identical: the cast-adjusted value has the same representation (and the same
rejection) as the original one. -/
theorem C03_reserialize_identical (t : Ty) (hw : wf t = true) (v : Val) :
    serBits t (castAdjust t v) = serBits t v :=
  reOK t hw v

theorem C03_reserialize_identical_bytes (t : Ty) (hw : wf t = true) (v : Val) :
    serBytes t (castAdjust t v) = serBytes t v := by
  unfold serBytes serTop
  rw [← castAdjust_topInner, reOK (topInner t) (wf_topInner hw) v]

/-- Cast adjustment is idempotent: what a round trip returns is a fixed point of the round trip. -/
theorem C03_castAdjust_idempotent (t : Ty) (hw : wf t = true) (v : Val) :
    castAdjust t (castAdjust t v) = castAdjust t v :=
  idemOK t hw v

/-- Serialize, deserialize, serialize again: identical bytes. -/
theorem C03_ser_de_ser (t : Ty) (hw : wf t = true) (v v' : Val) (bytes : List Nat) (n : Nat)
    (hs : serBytes t v = .ok bytes) (hd : deBytes t bytes = .ok (v', n)) :
    serBytes t v' = .ok bytes ∧ n = bytes.length := by
  have h := C03_round_trip_bytes t hw v bytes [] hs
  rw [List.append_nil, hd] at h
  cases h
  exact ⟨by rw [C03_reserialize_identical_bytes t hw v, hs], rfl⟩

/-- The primitive laws underneath, stated on their own: unsigned and signed casts are idempotent through
the wire, float narrowing (round to nearest even, saturated or truncated) is stable under exact widening. -/
theorem C03_primitive_casts_stable (n : Nat) (m : Cast) :
    (∀ i, castU n m (castU n m i : Int) = castU n m i) ∧
    (1 ≤ n → ∀ i, castS n m (signExtend n (castS n m i)) = castS n m i) ∧
    (n = 16 ∨ n = 32 ∨ n = 64 → ∀ x, narrow n m (widen n (narrow n m x)) = narrow n m x) :=
  ⟨castU_idem n m, fun h => castS_idem h m, fun h => narrow_widen_narrow h m⟩

/-! ### Non-vacuity: a nested type with unaligned integers, floats, a delimited member, a union and arrays -/

/-- `{uint3 a; truncated uint5 b; int4 c; float16 e; Inner[<=2] d; Uni u}` with a delimited `Inner`. -/
def exTy : Ty :=
  .struct [.uint 3 .sat, .uint 5 .trunc, .sint 4 .sat, .float 16 .sat,
    .varr (.delim 64 (.struct [.uint 8 .sat, .varr (.uint 8 .sat) 3])) 2,
    .union [.bool, .arr (.sint 12 .sat) 2]]

/-- Out-of-range members: 9 saturates to 7, 33 truncates to 1, -100 saturates to -8, 65536.0 to 65504.0. -/
def exVal : Val :=
  .struct [.int 9, .int 33, .int (-100), .float 0x40F0000000000000,
    .arr [.struct [.int 255, .arr [.int 1, .int 2]]],
    .union 1 (.arr [.int (-5), .int 4000])]

example : wf exTy = true := by decide +kernel
example : hasTy exTy exVal = true := by decide +kernel

example : serBytes exTy exVal =
    .ok [0x0f, 0xf8, 0xbf, 0x07, 0x01, 0x04, 0, 0, 0, 0xff, 0x02, 0x01, 0x02, 0x01, 0xfb, 0xff, 0x7f] := by
  decide +kernel

example : castAdjust exTy exVal =
    .struct [.int 7, .int 1, .int (-8), .float 0x40EFFC0000000000,
      .arr [.struct [.int 255, .arr [.int 1, .int 2]]],
      .union 1 (.arr [.int (-5), .int 2047])] := by decide +kernel

example : deBytes exTy
    [0x0f, 0xf8, 0xbf, 0x07, 0x01, 0x04, 0, 0, 0, 0xff, 0x02, 0x01, 0x02, 0x01, 0xfb, 0xff, 0x7f, 0xAA] =
    .ok (castAdjust exTy exVal, 17) := by decide +kernel

end NunavutVerif.Dsdl
