import NunavutVerif.Lemmas.Overwrite
import NunavutVerif.Lemmas.OverwriteCli
/-!
# C12 — regeneration over existing output is safe for every history of runs

Property theorems only (definitions: `Model/Overwrite.lean`, helper lemmas: `Lemmas/Overwrite.lean`).

Quantifiers: every environment (root or plain owner, every umask), every initial file system (any files with
any content and any mode at any path: foreign files, read-only leftovers of earlier runs), every run (any list
of output files incl. duplicates, any file post-processor list, `--no-overwrite` or not, templates and external
programs that may fail), every history (list of runs; a run starts from whatever the previous one left,
failed or not).

Hypothesis named in the property: the content a run renders for a file is a function of the run (its inputs
and flags) — `Write.content` is a field of the run, not of the file system.  That is reproducibility (C07/C10).
-/
namespace NunavutVerif.Overwrite

/-! ## Every run: what it does not generate it does not touch -/

/-- Every path outside the run's output list is exactly as before — whatever the flags, whether the run
succeeds or fails, whatever the initial file system. -/
theorem C12_untouched_outside_outputs (env : Env) (r : Run) (fs : FS) (p : Path) (hp : p ∉ r.paths) :
    (runRun env r fs).fs p = fs p :=
  runWrites_frame _ _ _ _ _ _ hp

/-- Every operation of a run is on one of its own output paths. -/
theorem C12_ops_only_on_outputs (env : Env) (r : Run) (fs : FS) :
    ∀ op ∈ (runRun env r fs).ops, op.path ∈ r.paths :=
  runWrites_ops_path _ _ _ _ _

/-! ## Statement 1: overwriting allowed -/

/-- The `chmod` is what makes the open succeed: over an existing file — whatever its mode, root or not —
the operations are `chmod(mode | 0o220)`, `mkdir -p`, a successful truncating `open`, in this order, and the
mode set by that `chmod` carries the owner's write bit.  The only errors left are a failing template or
post-processor. -/
theorem C12_chmod_before_open (env : Env) (pps : List FilePP) (w : Write) (fs : FS) (f : File)
    (h : fs w.path = some f) :
    ownerWrite (addWriteBits f.mode) = true ∧
    (∃ rest, (writeFile env true pps w fs).ops =
      .chmod w.path (addWriteBits f.mode) :: .mkdirs w.path :: .openW w.path :: rest) ∧
    (∀ e, (writeFile env true pps w fs).err = some e → e = .render w.path ∨ ∃ i, e = .pp w.path i) := by
  refine ⟨ownerWrite_addWriteBits _, ?_, ?_⟩
  · rw [writeFile_allow_old _ _ _ _ _ h]
    unfold afterOpen; split
    · exact ⟨copyOps w ++ (applyPPs w.path pps 0 ⟨w.content, startMode w (addWriteBits f.mode)⟩).ops, by simp⟩
    · exact ⟨[], rfl⟩
  · intro e he; rw [writeFile_allow_err] at he; exact afterErr_kind _ _ _ he

/-- `open` never fails for want of the write bit, and the gate never refuses: with overwriting allowed the
error of a run does not depend on the file system at all (it is the first failing template / external
program, if any), no operation of the run is a denied open. -/
theorem C12_overwrite_open_never_denied (env : Env) (r : Run) (fs : FS) (h : r.allowOverwrite = true) :
    (∀ fs', (runRun env r fs).err = (runRun env r fs').err) ∧
    (∀ p, (runRun env r fs).err ≠ some (.eacces p) ∧ (runRun env r fs).err ≠ some (.conflict p)) ∧
    (∀ op ∈ (runRun env r fs).ops, op.isDenied = false) := by
  unfold runRun; rw [h]
  refine ⟨fun fs' => by rw [runWrites_allow_err, runWrites_allow_err], fun p => ?_,
    runWrites_allow_not_denied _ _ _ _⟩
  rw [runWrites_allow_err]
  constructor <;> intro he <;>
    rcases findSome_afterErr_kind _ _ _ he with ⟨q, hq⟩ | ⟨q, i, hq⟩ <;> cases hq

/-- A run in which no template and no external program fails succeeds over *every* file system. -/
theorem C12_overwrite_total_succeeds (env : Env) (r : Run) (fs : FS) (h : r.allowOverwrite = true)
    (ht : r.total) : (runRun env r fs).err = none := by
  unfold runRun; rw [h, runWrites_allow_err, findSome_afterErr_none]
  intro w hw; exact (afterErr_none_iff _ _).mpr (ht w hw)

/-- Independence of the prior state: the same run over two arbitrary file systems; if one succeeds so does
the other, and every output path then holds the same content in both and — when a `SetFileMode` is among
the post-processors, which the CLI guarantees — the same mode. -/
theorem C12_overwrite_independent_of_prior_state (env : Env) (r : Run) (fsA fsB : FS)
    (h : r.allowOverwrite = true) (hok : (runRun env r fsA).err = none) :
    (runRun env r fsB).err = none ∧
    ∀ p ∈ r.paths, FS.agreeAt (hasSetMode r.filePPs) (runRun env r fsA).fs (runRun env r fsB).fs p := by
  unfold runRun at hok ⊢; rw [h] at hok ⊢
  constructor
  · rw [runWrites_allow_err] at hok ⊢; exact hok
  · intro p hp
    exact runWrites_allow_rel env r.filePPs r.writes fsA fsB (fun _ => False) (fun _ hF => hF.elim) hok p
      (Or.inr hp)

/-- Statement 1 for one run: after a successful run over *any* file system every file of the run has the
content and (if a file mode was requested) the mode that the same run leaves in an empty directory. -/
theorem C12_overwrite_matches_fresh (env : Env) (r : Run) (fs : FS)
    (h : r.allowOverwrite = true) (hok : (runRun env r fs).err = none) :
    (runRun env r FS.empty).err = none ∧
    ∀ p ∈ r.paths, FS.agreeAt (hasSetMode r.filePPs) (runRun env r fs).fs (runRun env r FS.empty).fs p :=
  C12_overwrite_independent_of_prior_state env r fs FS.empty h hok

/-- … and the mode is the requested one: `SetFileMode fm` is the last post-processor (that is where the CLI
puts it), so it wins over whatever mode the external programs before it left behind — a program may edit in
place, replace the file by a new inode with another mode, or `chmod` it. -/
theorem C12_overwrite_requested_mode (env : Env) (r : Run) (fs : FS) (fm : Nat)
    (h : r.allowOverwrite = true) (hok : (runRun env r fs).err = none)
    (hfm : requestedMode r.filePPs = some fm) :
    ∀ p ∈ r.paths, ∃ f, (runRun env r fs).fs p = some f ∧ f.mode = permBits fm := by
  unfold runRun at hok ⊢; rw [h] at hok ⊢
  intro p hp
  exact runWrites_allow_mode env r.filePPs fm hfm r.writes fs (fun _ => False) (fun _ hF => hF.elim) hok p
    (Or.inr hp)

/-- … and the content is the run's own: what the run renders for the file, passed through the run's external
programs (paths of one run are distinct: C11). -/
theorem C12_overwrite_content (env : Env) (r : Run) (fs : FS)
    (h : r.allowOverwrite = true) (hok : (runRun env r fs).err = none) (nodup : r.paths.Nodup) :
    ∀ w ∈ r.writes, ∃ f, (runRun env r fs).fs w.path = some f ∧
      ppContent r.filePPs w.content = some f.content := by
  unfold runRun at hok ⊢; rw [h] at hok ⊢
  exact runWrites_allow_content env r.filePPs r.writes fs nodup hok

/-! ## Statement 2: `--no-overwrite` -/

/-- Every path that existed before the run keeps content and mode — whether the run fails or not. -/
theorem C12_no_overwrite_preserves_existing (env : Env) (r : Run) (fs : FS) (h : r.allowOverwrite = false) :
    ∀ p f, fs p = some f → (runRun env r fs).fs p = some f := by
  unfold runRun; rw [h]; exact runWrites_noow_preserved _ _ _ _

/-- … and is not even operated on: no `chmod`, no open, no external program on a path that existed (the check
comes before the truncating open). -/
theorem C12_no_overwrite_never_touches_existing (env : Env) (r : Run) (fs : FS)
    (h : r.allowOverwrite = false) : ∀ op ∈ (runRun env r fs).ops, fs op.path = none := by
  unfold runRun; rw [h]; exact runWrites_noow_ops _ _ _ fs fs (FS.preserved_refl fs)

/-- If one of the outputs is already there the run fails (whatever else it contains). -/
theorem C12_no_overwrite_conflict_fails (env : Env) (r : Run) (fs : FS) (h : r.allowOverwrite = false)
    (hc : ∃ p ∈ r.paths, (fs p).isSome = true) : (runRun env r fs).err ≠ none := by
  unfold runRun; rw [h]
  apply runWrites_noow_conflict_fails
  obtain ⟨p, hp, hs⟩ := hc
  obtain ⟨w, hw, rfl⟩ := List.mem_map.mp hp
  exact ⟨w, hw, hs⟩

/-- A reported conflict is genuine: it names an output of the run that was there before the run
(paths of one run distinct). -/
theorem C12_no_overwrite_conflict_sound (env : Env) (r : Run) (fs : FS) (h : r.allowOverwrite = false)
    (nodup : r.paths.Nodup) (p : Path) (he : (runRun env r fs).err = some (.conflict p)) :
    p ∈ r.paths ∧ (fs p).isSome = true := by
  unfold runRun at he; rw [h] at he
  exact runWrites_noow_conflict_sound env r.filePPs r.writes fs nodup p he

/-- The run fails iff one of its outputs pre-exists, and the error is the conflict on the first such output in
generation order (run with distinct paths whose templates/programs do not fail; `open` cannot fail: what is
opened is created). -/
theorem C12_no_overwrite_fails_iff_conflict (env : Env) (r : Run) (fs : FS) (h : r.allowOverwrite = false)
    (nodup : r.paths.Nodup) (ht : r.total) :
    ((runRun env r fs).err ≠ none ↔ ∃ p ∈ r.paths, (fs p).isSome = true) ∧
    (runRun env r fs).err =
      (r.writes.find? (fun w => (fs w.path).isSome)).map (fun w => Err.conflict w.path) := by
  have hex : (runRun env r fs).err =
      (r.writes.find? (fun w => (fs w.path).isSome)).map (fun w => Err.conflict w.path) := by
    unfold runRun; rw [h]
    exact runWrites_noow_err env r.filePPs r.writes fs nodup
      (fun w hw => (afterErr_none_iff _ _).mpr (ht w hw))
  refine ⟨⟨fun hne => ?_, C12_no_overwrite_conflict_fails env r fs h⟩, hex⟩
  rw [hex] at hne
  cases hf : r.writes.find? (fun w => (fs w.path).isSome) with
  | none => rw [hf] at hne; simp at hne
  | some w =>
    exact ⟨w.path, List.mem_map_of_mem (List.mem_of_find?_eq_some hf), by
      simpa using List.find?_some hf⟩

/-- Files generated *before* the conflicting one are created (new files are allowed): the run stops at the
conflict, and the file system is the one the overwriting run of the preceding files alone leaves. -/
theorem C12_no_overwrite_new_files_before_conflict (env : Env) (pps : List FilePP)
    (pre post : List Write) (w : Write) (fs : FS) (f : File)
    (nodup : ((pre ++ w :: post).map Write.path).Nodup)
    (hnew : ∀ w' ∈ pre, fs w'.path = none) (hold : fs w.path = some f)
    (hpre : (runRun env ⟨true, pps, pre⟩ fs).err = none) :
    (runRun env ⟨false, pps, pre ++ w :: post⟩ fs).err = some (.conflict w.path) ∧
    (runRun env ⟨false, pps, pre ++ w :: post⟩ fs).fs = (runRun env ⟨true, pps, pre⟩ fs).fs := by
  unfold runRun at hpre ⊢
  simp only at hpre ⊢
  have nd : (pre.map Write.path).Nodup := by
    rw [List.map_append] at nodup; exact (List.nodup_append.mp nodup).1
  have hnotin : w.path ∉ pre.map Write.path := by
    rw [List.map_append, List.map_cons] at nodup
    intro hin
    exact (List.nodup_append.mp nodup).2.2 _ hin _ (List.mem_cons_self ..) rfl
  have heq := runWrites_noow_eq_allow env pps pre fs nd hnew
  have hstill : (runWrites env true pps pre fs).fs w.path = some f := by
    rw [runWrites_frame _ _ _ _ _ _ hnotin]; exact hold
  rw [runWrites_append, heq, hpre]
  simp only
  have hk := writeFile_noow_old env pps w _ f hstill
  rw [runWrites_cons_err _ _ _ _ _ _ (.conflict w.path) (by rw [hk])]
  simp [hk]

/-- Into a directory that holds none of the (distinct) outputs, `--no-overwrite` makes no difference. -/
theorem C12_no_overwrite_clean_same_as_overwrite (env : Env) (pps : List FilePP) (ws : List Write) (fs : FS)
    (nodup : (ws.map Write.path).Nodup) (hnew : ∀ w ∈ ws, fs w.path = none) :
    runRun env ⟨false, pps, ws⟩ fs = runRun env ⟨true, pps, ws⟩ fs :=
  runWrites_noow_eq_allow env pps ws fs nodup hnew

/-! ## Histories -/

/-- Statement 1 over every history and every initial file system: at every step `(before, r, o)` of the
history — whatever runs came earlier, failed ones and other flags included — a successful overwriting run
leaves each of its files with the content and requested mode of the same run into an empty directory, leaves
everything else as it was before the step, and never had an open denied. -/
theorem C12_history_overwrite (env : Env) (hist : List Run) (fs₀ : FS) :
    ∀ s ∈ runHistory env hist fs₀, s.2.1.allowOverwrite = true → s.2.2.err = none →
      (runRun env s.2.1 FS.empty).err = none ∧
      (∀ p ∈ s.2.1.paths, FS.agreeAt (hasSetMode s.2.1.filePPs) s.2.2.fs (runRun env s.2.1 FS.empty).fs p) ∧
      (∀ fm, requestedMode s.2.1.filePPs = some fm →
        ∀ p ∈ s.2.1.paths, ∃ f, s.2.2.fs p = some f ∧ f.mode = permBits fm) ∧
      (∀ p, p ∉ s.2.1.paths → s.2.2.fs p = s.1 p) ∧
      (∀ op ∈ s.2.2.ops, op.isDenied = false) := by
  intro s hs hallow hok
  rw [runHistory_step env hist fs₀ s hs] at hok ⊢
  have h1 := C12_overwrite_matches_fresh env s.2.1 s.1 hallow hok
  exact ⟨h1.1, h1.2, fun fm hfm => C12_overwrite_requested_mode env s.2.1 s.1 fm hallow hok hfm,
    fun p hp => C12_untouched_outside_outputs env s.2.1 s.1 p hp,
    (C12_overwrite_open_never_denied env s.2.1 s.1 hallow).2.2⟩

/-- An overwriting run that cannot fail by itself never fails at any point of any history. -/
theorem C12_history_overwrite_succeeds (env : Env) (hist : List Run) (fs₀ : FS) :
    ∀ s ∈ runHistory env hist fs₀, s.2.1.allowOverwrite = true → s.2.1.total → s.2.2.err = none := by
  intro s hs hallow ht
  rw [runHistory_step env hist fs₀ s hs]
  exact C12_overwrite_total_succeeds env s.2.1 s.1 hallow ht

/-- Statement 2 over every history and every initial file system: at every `--no-overwrite` step everything
that existed before the step is unchanged and not operated on, whether the step fails or not; it fails if an
output pre-exists; and (distinct paths, nothing else failing) only then, with the conflict as the error. -/
theorem C12_history_no_overwrite (env : Env) (hist : List Run) (fs₀ : FS) :
    ∀ s ∈ runHistory env hist fs₀, s.2.1.allowOverwrite = false →
      (∀ p f, s.1 p = some f → s.2.2.fs p = some f) ∧
      (∀ op ∈ s.2.2.ops, s.1 op.path = none) ∧
      ((∃ p ∈ s.2.1.paths, (s.1 p).isSome = true) → s.2.2.err ≠ none) ∧
      (s.2.1.paths.Nodup → s.2.1.total →
        (s.2.2.err ≠ none ↔ ∃ p ∈ s.2.1.paths, (s.1 p).isSome = true) ∧
        s.2.2.err = (s.2.1.writes.find? (fun w => (s.1 w.path).isSome)).map (fun w => Err.conflict w.path)) := by
  intro s hs hno
  rw [runHistory_step env hist fs₀ s hs]
  exact ⟨C12_no_overwrite_preserves_existing env s.2.1 s.1 hno,
    C12_no_overwrite_never_touches_existing env s.2.1 s.1 hno,
    C12_no_overwrite_conflict_fails env s.2.1 s.1 hno,
    fun nd ht => C12_no_overwrite_fails_iff_conflict env s.2.1 s.1 hno nd ht⟩

/-! ## From the command line to the run

`Model/CliParse.lean` (argument parser + runner glue, tables regenerated from the real `argparse` object and from
cli/runners.py) and `Model/OverwriteCli.lean`: what `--no-overwrite`, `--dry-run`, `--file-mode` and the post-processor
options become on their way to the two generators.  Quantifier: every argument vector the parser accepts. -/

section cli
open NunavutVerif.CliParse NunavutVerif.Gen.CliArgs NunavutVerif.OverwriteCli

/-- The same gate for support files as for type files: for every accepted command line, the `generate_all` calls of
`ArgparseRunner._generate` — the support generator first (iff `_should_generate_support()`), then the type generator (iff
`--generate-support` is not `only`) — receive identical keyword values: `allow_overwrite` is `False` exactly when
`--no-overwrite` was given, `is_dryrun` is `True` exactly when `--dry-run` was given. -/
theorem C12_cli_same_gate_for_support_and_types (argv : List String) (ns : Namespace) (a : Cli.Args) (cs : List Call)
    (hp : parseArgv argv = .ok ns) (hc : callsOf calls "_generate" a ns = some cs) :
    ∃ steps, stepsOf actions argv = some steps ∧
      cs.map (·.target) = (if Cli.shouldGenerateSupport a then ["_support_generator"] else []) ++
                           (if a.genSupport != .only then ["_generator"] else []) ∧
      ∀ c ∈ cs, c.fn = "generate_all" ∧
        c.kwargs = generateKw (steps.any (Step.takes "dry_run")) (steps.any (Step.takes "no_overwrite"))
          (steps.any (Step.takes "omit_serialization_support")) (steps.any (Step.takes "embed_auditing_info")) ∧
        boolKw c "allow_overwrite" = some (!steps.any (Step.takes "no_overwrite")) ∧
        boolKw c "is_dryrun" = some (steps.any (Step.takes "dry_run")) := by
  obtain ⟨steps, hs, _⟩ := parse_ok tableOk_actions hp
  refine ⟨steps, hs, ?_⟩
  have h := generate_calls hp hs a hc
  subst h
  by_cases h1 : Cli.shouldGenerateSupport a = true <;> by_cases h2 : (a.genSupport != .only) = true <;>
    simp [h1, h2, boolKw, Call.kw, generateKw, List.lookup]

/-- `SetFileMode(--file-mode)` is the last file post-processor of every accepted command line, whatever `--pp-…` options
come with it; everything before it is an external program.  With an integer that fits a C `int`, the hypothesis
`requestedMode … = some fm` of the theorems above holds with `fm = file_mode & 07777`. -/
theorem C12_cli_set_file_mode_last (argv : List String) (ns : Namespace) (pps : List PP)
    (prog : List Scalar → Content → Option (Content × Option Nat))
    (hp : parseArgv argv = .ok ns) (hb : buildPPs ns ppRules = some pps) :
    ∃ pre v, toFilePPs prog pps = pre ++ [setFileModePP v] ∧ ns.lookup "file_mode" = some v ∧
      (∀ f ∈ pre, ∃ g, f = .edit g) ∧
      ((∃ i, v = .sc (.int i)) ∨ (∃ l, v = .list l)) ∧
      (∀ i : Int, v = .sc (.int i) → -2147483648 ≤ i → i < 2147483648 →
        requestedMode (toFilePPs prog pps) = some (i % 4096).toNat ∧ hasSetMode (toFilePPs prog pps) = true) := by
  obtain ⟨pre, v, rfl, hv, hpre⟩ := buildPPs_shape hb
  have hsplit : toFilePPs prog (pre ++ [.setFileMode v]) = toFilePPs prog pre ++ [setFileModePP v] := by
    rw [toFilePPs_append]; rfl
  refine ⟨toFilePPs prog pre, v, hsplit, hv, toFilePPs_no_setMode prog pre hpre, ?_, ?_⟩
  · obtain ⟨_, _, _, htyped, _⟩ := parse_ok tableOk_actions hp
    have hsp : ∃ sp ∈ actions, sp.dest = "file_mode" ∧ sp.kind = .store ∧ sp.type = .intAuto ∧ sp.dflt = .sc (.int 292) := by decide
    obtain ⟨sp, hsp, hd, hk, hty, hdf⟩ := hsp
    obtain ⟨v', hv', hok⟩ := htyped sp hsp (by rw [hd]; decide)
    rw [hd, hv] at hv'
    simp only [Option.some.injEq] at hv'
    subst hv'
    cases v with
    | none => simp [valOk, valOkK, hk, hdf] at hok
    | bool b => simp [valOk, valOkK, hk, hdf] at hok
    | sc x =>
      cases x with
      | int i => exact .inl ⟨i, rfl⟩
      | str t => simp [valOk, valOkK, hk, hdf, scalarOk, hty] at hok
    | list l => exact .inr ⟨l, rfl⟩
  · intro i hi h1 h2
    subst hi
    rw [hsplit]
    have : setFileModePP (.sc (.int i)) = .setMode (i % 4096).toNat := by simp [setFileModePP, h1, h2]
    rw [this]
    exact ⟨requestedMode_append_setMode _ _, hasSetMode_append_setMode _ _⟩

/-- Both generators are constructed with the same post-processor list object; `_handle_post_processors` of either one only
ever appends line post-processors: the file post-processors are the same for both, and running it a second time (the second
generator, on the list the first one left) changes nothing. -/
theorem C12_cli_augment_keeps_file_pps (limit : Option Val) (trimWs : Bool) (pps : List PP)
    (prog : List Scalar → Content → Option (Content × Option Nat)) :
    toFilePPs prog (augment limit trimWs pps) = toFilePPs prog pps ∧
    augment limit trimWs (augment limit trimWs pps) = augment limit trimWs pps := by
  constructor
  · unfold augment
    cases limit <;> cases trimWs <;> simp only [] <;> repeat' split
    all_goals simp [toFilePPs, List.filterMap_append, toFilePP]
  · unfold augment
    cases limit <;> cases trimWs <;> simp only [] <;> repeat' split
    all_goals simp_all

/-- A generating invocation is one `Run` of the overwrite model: for every accepted command line, what the (up to two)
`generate_all` calls do in sequence — each with its own `allow_overwrite` and `is_dryrun` — equals `runRun` of a single run
whose gate is "no `--no-overwrite` on the command line", whose file post-processors are those of the shared list, and whose
files are the support files followed by the type files (none when `--dry-run` was given). -/
theorem C12_cli_invocation_is_one_run (env : Env) (argv : List String) (ns : Namespace) (a : Cli.Args)
    (prog : List Scalar → Content → Option (Content × Option Nat)) (files : String → List Write) (parts : List Part)
    (fs : FS) (hp : parseArgv argv = .ok ns) (hparts : cliParts prog files a ns = some parts) :
    ∃ steps pps, stepsOf actions argv = some steps ∧ buildPPs ns ppRules = some pps ∧
      runParts env parts fs =
        runRun env ⟨!steps.any (Step.takes "no_overwrite"), toFilePPs prog pps, parts.flatMap (·.writes)⟩ fs ∧
      parts.flatMap (·.writes) =
        if steps.any (Step.takes "dry_run") then []
        else (if Cli.shouldGenerateSupport a then files "_support_generator" else []) ++
             (if a.genSupport != .only then files "_generator" else []) := by
  unfold cliParts at hparts
  split at hparts
  · rename_i cs pps hcs hpps
    obtain ⟨steps, hs, _⟩ := parse_ok tableOk_actions hp
    have hc := generate_calls hp hs a hcs
    refine ⟨steps, pps, hs, hpps, ?_, ?_⟩
    · apply runParts_uniform
      intro p hpm
      subst hc
      generalize steps.any (Step.takes "dry_run") = dry at *
      generalize steps.any (Step.takes "no_overwrite") = now at *
      by_cases h1 : Cli.shouldGenerateSupport a = true <;> by_cases h2 : (a.genSupport != .only) = true <;>
        simp [h1, h2, partsOfCalls, partOfCall, boolKw, Call.kw, generateKw, List.lookup] at hparts <;>
        subst hparts <;> simp at hpm
      all_goals first
        | (rcases hpm with rfl | rfl <;> exact ⟨rfl, rfl⟩)
        | (subst hpm; exact ⟨rfl, rfl⟩)
    · subst hc
      generalize steps.any (Step.takes "dry_run") = dry at *
      generalize steps.any (Step.takes "no_overwrite") = now at *
      by_cases h1 : Cli.shouldGenerateSupport a = true <;> by_cases h2 : (a.genSupport != .only) = true <;>
        simp [h1, h2, partsOfCalls, partOfCall, boolKw, Call.kw, generateKw, List.lookup] at hparts <;>
        subst hparts <;> cases dry <;> simp [h1, h2]
  · cases hparts

/-- Statement 2 from the command line: `--no-overwrite` (in any spelling the parser resolves to it) ⇒ every path that
existed before the invocation keeps content and mode, whether the invocation fails or not, whatever the other options. -/
theorem C12_cli_no_overwrite_preserves_existing (env : Env) (argv : List String) (ns : Namespace) (a : Cli.Args)
    (prog : List Scalar → Content → Option (Content × Option Nat)) (files : String → List Write) (parts : List Part)
    (fs : FS) (hp : parseArgv argv = .ok ns) (hparts : cliParts prog files a ns = some parts)
    (steps : List Step) (hs : stepsOf actions argv = some steps) (hno : steps.any (Step.takes "no_overwrite") = true) :
    (∀ p f, fs p = some f → (runParts env parts fs).fs p = some f) ∧
    (∀ op ∈ (runParts env parts fs).ops, fs op.path = none) := by
  obtain ⟨steps', pps, hs', _, hrun, _⟩ := C12_cli_invocation_is_one_run env argv ns a prog files parts fs hp hparts
  rw [hs] at hs'; simp only [Option.some.injEq] at hs'; subst hs'
  rw [hrun]
  exact ⟨C12_no_overwrite_preserves_existing env _ fs (by simp [hno]),
    C12_no_overwrite_never_touches_existing env _ fs (by simp [hno])⟩

/-- Statement 1 from the command line: no `--no-overwrite`, `--file-mode` an integer that fits a C `int` (the default
`0o444` does) ⇒ after a successful invocation over any file system every generated file has the mode `file_mode & 07777`
and the content and mode the same invocation leaves in an empty directory; no `open` was denied. -/
theorem C12_cli_overwrite_matches_fresh (env : Env) (argv : List String) (ns : Namespace) (a : Cli.Args)
    (prog : List Scalar → Content → Option (Content × Option Nat)) (files : String → List Write) (parts : List Part)
    (fs : FS) (hp : parseArgv argv = .ok ns) (hparts : cliParts prog files a ns = some parts)
    (steps : List Step) (hs : stepsOf actions argv = some steps) (hno : steps.any (Step.takes "no_overwrite") = false)
    (i : Int) (hfm : ns.lookup "file_mode" = some (.sc (.int i))) (h1 : -2147483648 ≤ i) (h2 : i < 2147483648)
    (hok : (runParts env parts fs).err = none) :
    (runParts env parts FS.empty).err = none ∧
    (∀ p ∈ parts.flatMap (fun x => x.writes.map Write.path), ∃ f g, (runParts env parts fs).fs p = some f ∧
      (runParts env parts FS.empty).fs p = some g ∧ f.content = g.content ∧ f.mode = g.mode ∧
      f.mode = (i % 4096).toNat % 4096) ∧
    (∀ op ∈ (runParts env parts fs).ops, op.isDenied = false) := by
  obtain ⟨steps', pps, hs', hpps, hrun, _⟩ := C12_cli_invocation_is_one_run env argv ns a prog files parts fs hp hparts
  obtain ⟨steps0, pps0, hs0, hpps0, hrun0, _⟩ := C12_cli_invocation_is_one_run env argv ns a prog files parts FS.empty hp hparts
  rw [hs] at hs' hs0; simp only [Option.some.injEq] at hs' hs0; subst hs' hs0
  rw [hpps] at hpps0; simp only [Option.some.injEq] at hpps0; subst hpps0
  obtain ⟨pre, v, hsplit, hv, _, _, hreq⟩ := C12_cli_set_file_mode_last argv ns pps prog hp hpps
  rw [hfm] at hv; simp only [Option.some.injEq] at hv; subst hv
  obtain ⟨hrm, hsm⟩ := hreq i rfl h1 h2
  rw [hrun] at hok ⊢
  rw [hrun0]
  have hallow : (Run.mk (!steps.any (Step.takes "no_overwrite")) (toFilePPs prog pps) (parts.flatMap (·.writes))).allowOverwrite = true := by
    simp [hno]
  obtain ⟨hf1, hf2⟩ := C12_overwrite_matches_fresh env _ fs hallow hok
  refine ⟨hf1, ?_, (C12_overwrite_open_never_denied env _ fs hallow).2.2⟩
  intro p hp
  have hp' : p ∈ (Run.mk (!steps.any (Step.takes "no_overwrite")) (toFilePPs prog pps) (parts.flatMap (·.writes))).paths := by
    simpa [Run.paths, List.map_flatMap] using hp
  obtain ⟨f, g, hf, hg, hc, hm⟩ := hf2 p hp'
  obtain ⟨f', hf', hmode⟩ := C12_overwrite_requested_mode env _ fs _ hallow hok hrm p hp'
  rw [hf] at hf'; simp only [Option.some.injEq] at hf'; subst hf'
  exact ⟨f, g, hf, hg, hc, hm hsm, by simpa [permBits] using hmode⟩

/-! Non-vacuity of the command-line theorems (kernel-evaluated on the generated tables). -/

def nsOf : CliParse.Outcome → Namespace
  | .ok ns => ns
  | _ => []

/-- `--no-overwrite` (abbreviated), a post-processor program with an argument, a limit, `--file-mode 0o640`: the list both
generators receive, and its file post-processors — `SetFileMode` last. -/
example :
    buildPPs (nsOf (parseArgv ["--no-o", "-pp-rp", "fmt", "-pp-rpa=-i", "--pp-max-emptylines", "2", "--file-mode", "0o640"])) ppRules =
      some [.limitEmptyLines (.sc (.int 2)), .extProgram [.str "fmt", .str "-i"], .setFileMode (.sc (.int 416))] ∧
    requestedMode (toFilePPs (fun _ c => some (c, none))
      [.limitEmptyLines (.sc (.int 2)), .extProgram [.str "fmt", .str "-i"], .setFileMode (.sc (.int 416))]) = some 416 ∧
    buildPPs (nsOf (parseArgv [])) ppRules = some [.setFileMode (.sc (.int 292))] := by decide

/-- `--file-mode` values `os.chmod` takes or refuses: `-1` is `07777`, `2**31` raises, `--file-mode=--` leaves a list
(`TypeError`). -/
example :
    requestedMode [setFileModePP (.sc (.int (-1)))] = some 4095 ∧
    requestedMode [setFileModePP (.sc (.int 2147483648))] = none ∧
    (nsOf (parseArgv ["--file-mode=--"])).lookup "file_mode" = some (.list []) ∧
    requestedMode [setFileModePP (.list [])] = none := by
  decide

end cli

/-! ## Non-vacuity and regression examples -/

section Examples

/-- A plain owner (not root), umask 022. -/
def exEnv : Env := ⟨false, 0o644⟩

/-- A read-only leftover of an earlier run, a read-only foreign file, an unreadable leftover. -/
def exFS : FS :=
  ((FS.empty.set "t/A.h" ⟨"old A", 0o444⟩).set "README" ⟨"keep", 0o400⟩).set "t/B.h" ⟨"old B", 0⟩

def exRun (allow : Bool) : Run :=
  ⟨allow, [.edit (fun c => some (c ++ "!", some 0o600)), .setMode 0o100444],
   [⟨"s/ser.h", "S", true, none⟩, ⟨"t/A.h", "A", true, none⟩, ⟨"t/B.h", "B", true, none⟩]⟩

/-- Overwriting: succeeds over the read-only leftovers, new content, requested mode, foreign file intact. -/
example :
    (runRun exEnv (exRun true) exFS).err = none ∧
    (runRun exEnv (exRun true) exFS).fs "t/A.h" = some ⟨"A!", 0o444⟩ ∧
    (runRun exEnv (exRun true) exFS).fs "t/B.h" = some ⟨"B!", 0o444⟩ ∧
    (runRun exEnv (exRun true) exFS).fs "README" = some ⟨"keep", 0o400⟩ ∧
    (runRun exEnv (exRun true) exFS).ops.take 4 =
      [.mkdirs "s/ser.h", .openW "s/ser.h", .exec "s/ser.h" 0 (some 0o600), .chmod "s/ser.h" 0o444] ∧
    ((runRun exEnv (exRun true) exFS).ops.drop 4).take 3 =
      [.chmod "t/A.h" 0o664, .mkdirs "t/A.h", .openW "t/A.h"] := by
  decide

/-- `--no-overwrite`: the support file (new) is created, then the conflict on the first existing output;
the leftovers keep content and mode. -/
example :
    (runRun exEnv (exRun false) exFS).err = some (.conflict "t/A.h") ∧
    (runRun exEnv (exRun false) exFS).fs "s/ser.h" = some ⟨"S!", 0o444⟩ ∧
    (runRun exEnv (exRun false) exFS).fs "t/A.h" = some ⟨"old A", 0o444⟩ ∧
    (runRun exEnv (exRun false) exFS).fs "t/B.h" = some ⟨"old B", 0⟩ := by
  decide

/-- The hypotheses of the `--no-overwrite` iff are met by this run. -/
example : (exRun false).paths.Nodup ∧ (exRun false).total := by
  refine ⟨by decide, ?_⟩
  intro w hw
  simp only [exRun, List.mem_cons, List.not_mem_nil, or_false] at hw
  rcases hw with rfl | rfl | rfl <;> exact ⟨rfl, rfl⟩

/-- Without distinct paths the iff fails: a run that generates one path twice conflicts with itself in an
empty directory (so the `Nodup` hypothesis is needed; C11 provides it for real runs). -/
example : (runRun exEnv ⟨false, [], [⟨"a", "1", true, none⟩, ⟨"a", "2", true, none⟩]⟩ FS.empty).err
    = some (.conflict "a") := by decide

/-- What the `chmod` in `_handle_overwrite` is for: the same code without it fails, as a plain owner, on a
read-only leftover — and succeeds as root, which is why the correspondence is on operation traces. -/
example : (writeFileNoChmod exEnv true [] ⟨"t/A.h", "A", true, none⟩ exFS).err = some (.eacces "t/A.h") ∧
    (writeFileNoChmod ⟨true, 0o644⟩ true [] ⟨"t/A.h", "A", true, none⟩ exFS).err = none ∧
    (writeFile exEnv true [] ⟨"t/A.h", "A", true, none⟩ exFS).err = none := by decide

/-- A failing external program ends the run; earlier files stay written, the failing file holds the rendered
content with the opened mode (no `SetFileMode` yet), later files are not generated. -/
example :
    let r : Run := ⟨true, [.edit (fun c => if c = "A" then none else some (c, none)), .setMode 0o444],
      [⟨"s", "S", true, none⟩, ⟨"a", "A", true, none⟩, ⟨"b", "B", true, none⟩]⟩
    (runRun exEnv r FS.empty).err = some (.pp "a" 0) ∧
    (runRun exEnv r FS.empty).fs "s" = some ⟨"S", 0o444⟩ ∧
    (runRun exEnv r FS.empty).fs "a" = some ⟨"A", 0o644⟩ ∧
    (runRun exEnv r FS.empty).fs "b" = none := by decide

/-- Why `SetFileMode` has to come last (`requestedMode`): the same two post-processors in the other order, with a
program that replaces the file (temp file + rename: a new inode with mode 0o600) — the requested 0o444 is lost.
With `SetFileMode` last the requested mode holds over the very same program. -/
example :
    let prog : FilePP := .edit (fun c => some (c ++ "!", some 0o600))
    let ws : List Write := [⟨"a", "A", true, none⟩]
    requestedMode [.setMode 0o444, prog] = none ∧
    (runRun exEnv ⟨true, [.setMode 0o444, prog], ws⟩ exFS).fs "a" = some ⟨"A!", 0o600⟩ ∧
    requestedMode [prog, .setMode 0o444] = some 0o444 ∧
    (runRun exEnv ⟨true, [prog, .setMode 0o444], ws⟩ exFS).fs "a" = some ⟨"A!", 0o444⟩ := by decide

/-- A history: generate, regenerate with another mode, try `--no-overwrite` (fails, nothing changes), regenerate. -/
example :
    let h := runHistory exEnv [exRun true, ⟨true, [.setMode 0o600], (exRun true).writes⟩, exRun false, exRun true] exFS
    h.map (fun s => s.2.2.err) = [none, none, some (.conflict "s/ser.h"), none] ∧
    h.map (fun s => s.2.2.fs "t/A.h") =
      [some ⟨"A!", 0o444⟩, some ⟨"A", 0o600⟩, some ⟨"A", 0o600⟩, some ⟨"A!", 0o444⟩] := by decide

end Examples

end NunavutVerif.Overwrite
