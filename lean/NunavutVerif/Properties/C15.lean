import NunavutVerif.Lemmas.LineBuffer
import NunavutVerif.Lemmas.PostProc
/-!
# C15 — line post-processing is chunking-independent and changes only what it documents

Property theorems only (helper lemmas live in `Lemmas/LineBuffer.lean`, definitions in
`Model/LineBuffer.lean`).  Quantifiers: all texts, all chunk lists (including empty chunks and a cut
between `\r` and `\n`), all processor lists, all limits `n`, all start counters.
-/
namespace NunavutVerif.LineBuffer

/-- T1 chunking independence: the `(line, terminator)` pairs handed to the processors for *any*
chunking are the lines of the concatenated text. -/
theorem C15_chunking_independent (chunks : List Str) :
    genLines chunks = specLines chunks.flatten := by
  have h := procChunks_cont ⟨[], false⟩ chunks []
  simp only [List.append_nil] at h
  unfold genLines specLines
  have hc : cont ⟨[], false⟩ chunks.flatten = scan [] chunks.flatten := by simp [cont, crIf]
  rw [hc] at h
  rw [h]
  simp only [cont, List.append_nil, scan_cr, List.append_nil]
  simp [crIf]

/-- T5: the written file is the processors applied line by line to the complete text, for every
chunking, processor list and start state. -/
theorem C15_output_is_linewise (pps : List PP) (ss : List Nat) (chunks : List Str) :
    output pps ss chunks = write (pipeLines pps ss (specLines chunks.flatten)) := by
  unfold output; rw [C15_chunking_independent]

/-- Two chunkings of the same text give the same file. -/
theorem C15_same_text_same_output (pps : List PP) (ss : List Nat) (c₁ c₂ : List Str)
    (h : c₁.flatten = c₂.flatten) : output pps ss c₁ = output pps ss c₂ := by
  rw [C15_output_is_linewise, C15_output_is_linewise, h]

/-- T2: with no processor the file equals the concatenated output. -/
theorem C15_no_processor_identity (chunks : List Str) :
    output [] [] chunks = chunks.flatten := by
  rw [C15_output_is_linewise]
  have : ∀ ls, pipeLines [] [] ls = ls := by
    intro ls; induction ls with
    | nil => rfl
    | cons l ls ih => simp [pipeLines, pipeLine, ih]
  rw [this]
  simpa [specLines] using write_scan [] chunks.flatten

/-- T3: trimming removes exactly the maximal trailing whitespace of the content and keeps the
terminator. -/
theorem C15_trim_exact (l : Line) :
    (trim l).term = l.term ∧
    ∃ ws, (trim l).content ++ ws = l.content ∧ (∀ c ∈ ws, isWs c = true) ∧
      (∀ c, (trim l).content.getLast? = some c → isWs c = false) :=
  ⟨rfl, trimStr_spec l.content⟩

/-- T4a: the limiter passes every line through unchanged or elides it, and only empty-content lines
are ever elided. -/
theorem C15_limit_pointwise (n cnt : Nat) (ls : List Line) :
    (limitLines n cnt ls).length = ls.length ∧
    ∀ p ∈ (limitLines n cnt ls).zip ls, p.1 = p.2 ∨ (p.1 = ⟨[], []⟩ ∧ p.2.content = []) := by
  induction ls generalizing cnt with
  | nil => simp [limitLines]
  | cons l ls ih =>
    by_cases he : l.content = []
    · by_cases hc : cnt + 1 ≤ n
      · rw [limitLines_cons_keep n cnt l ls he hc]
        obtain ⟨h1, h2⟩ := ih (cnt + 1)
        refine ⟨by simp [h1], ?_⟩
        intro p hp
        rcases List.mem_cons.mp (by simpa using hp) with rfl | hp
        · exact .inl rfl
        · exact h2 p hp
      · rw [limitLines_cons_drop n cnt l ls he (by omega)]
        obtain ⟨h1, h2⟩ := ih (cnt + 1)
        refine ⟨by simp [h1], ?_⟩
        intro p hp
        rcases List.mem_cons.mp (by simpa using hp) with rfl | hp
        · exact .inr ⟨rfl, he⟩
        · exact h2 p hp
    · rw [limitLines_cons_nonempty n cnt l ls he]
      obtain ⟨h1, h2⟩ := ih 0
      refine ⟨by simp [h1], ?_⟩
      intro p hp
      rcases List.mem_cons.mp (by simpa using hp) with rfl | hp
      · exact .inl rfl
      · exact h2 p hp

/-- T4b: no non-empty line is removed, reordered or altered. -/
theorem C15_limit_keeps_nonempty (n cnt : Nat) (ls : List Line) :
    nonEmpty (limitLines n cnt ls) = nonEmpty ls := by
  induction ls generalizing cnt with
  | nil => rfl
  | cons l ls ih =>
    by_cases he : l.content = []
    · by_cases hc : cnt + 1 ≤ n
      · rw [limitLines_cons_keep n cnt l ls he hc]; simp [nonEmpty, he, ih]
      · rw [limitLines_cons_drop n cnt l ls he (by omega)]; simp [nonEmpty, he, ih]
    · rw [limitLines_cons_nonempty n cnt l ls he]; simp [nonEmpty, he, ih]

/-- T4c: what the limiter leaves never contains more than `n` consecutive empty lines — from any
start counter `cnt` (the run already written is at most `min cnt n`). -/
theorem C15_limit_bounds_runs (n cnt : Nat) (ls : List Line) :
    emptyRunsLe n (min cnt n) (visible (limitLines n cnt ls)) = true := by
  induction ls generalizing cnt with
  | nil => rfl
  | cons l ls ih =>
    by_cases he : l.content = []
    · by_cases hc : cnt + 1 ≤ n
      · rw [limitLines_cons_keep n cnt l ls he hc]
        have hm : min (cnt + 1) n = min cnt n + 1 := by omega
        have := ih (cnt + 1)
        rw [hm] at this
        by_cases ht : l.term = []
        · -- an empty unterminated line writes nothing
          simp only [visible, Line.elided, he, ht, and_self, decide_true, if_true]
          exact emptyRunsLe_mono n _ _ _ (by omega) this
        · simp only [visible, Line.elided, he, ht, and_false, decide_false, Bool.false_eq_true,
            if_false, emptyRunsLe, if_true, Bool.and_eq_true, decide_eq_true_eq]
          exact ⟨by omega, this⟩
      · rw [limitLines_cons_drop n cnt l ls he (by omega)]
        have hm : min (cnt + 1) n = min cnt n := by omega
        have := ih (cnt + 1)
        rw [hm] at this
        simpa [visible, Line.elided] using this
    · rw [limitLines_cons_nonempty n cnt l ls he]
      have := ih 0
      simp only [Nat.zero_min] at this
      simp [visible, Line.elided, he, emptyRunsLe, this]

/-- The single-limiter pipeline is `limitLines` (ties the vocabulary above to `pipeLines`). -/
theorem C15_pipe_limit (n cnt : Nat) (ls : List Line) :
    pipeLines [.limit n] [cnt] ls = limitLines n cnt ls := by
  induction ls generalizing cnt with
  | nil => rfl
  | cons l ls ih => simp [pipeLines, pipeLine, ppStep, limitLines, ih]

/-- T6: every file of a run is post-processed as if it were the only one: whatever the processors' state
when the run starts and whatever files came before, the k-th file is `output pps zeros` of its own chunks
(the processors are reset before the first line of each file). -/
theorem C15_files_independent (pps : List PP) (ss : List Nat) (files : List (List Str))
    (h : ss.length = pps.length) :
    genFiles pps ss files = files.map (fun f => output pps (List.replicate pps.length 0) f) := by
  induction files generalizing ss with
  | nil => rfl
  | cons f fs ih =>
    have hr : resetAll ss = List.replicate pps.length 0 := resetAll_eq ss _ h
    have hl : (genFile pps (resetAll ss) f).2.length = pps.length := by
      simp [genFile, pipeLinesSt_length, hr]
    simp only [genFiles, List.map_cons]
    rw [ih _ hl]
    simp [genFile, output, pipeLinesSt_fst, hr]

/-- T7: a raw (non-template) support file copied through line processors
(`SupportGenerator._copy_header_using_line_pps`: reset, then the file's lines — however the file object cuts
them — through the same line buffer) is the processors applied line by line to the file's text. -/
theorem C15_copy_is_linewise (pps : List PP) (ss : List Nat) (lines : List Str) (text : Str)
    (h : lines.flatten = text) (hl : ss.length = pps.length) :
    genFiles pps ss [lines] =
      [write (pipeLines pps (List.replicate pps.length 0) (specLines text))] := by
  rw [C15_files_independent pps ss [lines] hl]
  simp [C15_output_is_linewise, h]

/-- T8: the processor list a generator ends up with contains what the language configuration asks for and keeps the
caller's processors, in order, in front: a limiter whenever `limit_empty_lines` is configured (the caller's own if there is
one), a trimmer whenever `trim_trailing_whitespace` is on; nothing is added that was not asked for. -/
theorem C15_assembled_processors (given : Option (List Item)) (cfgLimit : Option Nat) (cfgTrim : Bool) :
    let r := (assemble given cfgLimit cfgTrim).getD []
    (cfgLimit.isSome → r.any Item.isLimit = true) ∧
    (cfgTrim = true → r.any Item.isTrim = true) ∧
    (∃ added, r = given.getD [] ++ added ∧ added.length ≤ 2 ∧
      (∀ i ∈ added, (i = .trim ∧ cfgTrim = true) ∨ (∃ n, i = .limit n ∧ cfgLimit = some n))) ∧
    ((assemble given cfgLimit cfgTrim).isNone ↔ (given.isNone ∧ cfgLimit.isNone ∧ cfgTrim = false)) := by
  cases given with
  | none =>
    cases cfgLimit <;> cases cfgTrim <;>
      simp [assemble, augmentLimit, augmentTrim, Item.isLimit, Item.isTrim]
  | some l =>
    cases cfgLimit with
    | none =>
      cases cfgTrim
      · simp [assemble]
      · by_cases ht : l.any Item.isTrim = true
        · simp [assemble, augmentTrim, ht]
        · simp [assemble, augmentTrim, ht, Item.isTrim]
    | some n =>
      by_cases hl : l.any Item.isLimit = true
      · cases cfgTrim
        · simp [assemble, augmentLimit, hl]
        · by_cases ht : l.any Item.isTrim = true
          · simp [assemble, augmentLimit, augmentTrim, hl, ht]
          · simp [assemble, augmentLimit, augmentTrim, hl, ht, Item.isTrim]
      · cases cfgTrim
        · simp [assemble, augmentLimit, hl, Item.isLimit]
        · by_cases ht : l.any Item.isTrim = true
          · have : (l ++ [Item.limit n]).any Item.isTrim = true := by simp [List.any_append, ht]
            simp [assemble, augmentLimit, augmentTrim, hl, this, Item.isLimit]
          · have : ¬ (l ++ [Item.limit n]).any Item.isTrim = true := by
              simpa [List.any_append, Item.isTrim] using ht
            simp [assemble, augmentLimit, augmentTrim, hl, this, Item.isLimit, Item.isTrim]

/-- T9: on the command line the user's `--pp-max-emptylines N` is the limit that is enforced, for every `N` — `0`
included — whatever the language configuration says; without the option the configured limit (if any) applies; and
there is never more than one limiter. -/
theorem C15_cli_limit_is_the_users (trim : Bool) (maxEmpty : Option Nat) (prog : Bool)
    (cfgLimit : Option Nat) (cfgTrim : Bool) :
    firstLimit (cliProcessors trim maxEmpty prog cfgLimit cfgTrim) =
      (match maxEmpty with | some n => some n | none => cfgLimit) ∧
    ((cliProcessors trim maxEmpty prog cfgLimit cfgTrim).filter Item.isLimit).length ≤ 1 := by
  cases trim <;> cases maxEmpty <;> cases prog <;> cases cfgLimit <;> cases cfgTrim <;>
    simp [cliProcessors, cliList, assemble, augmentLimit, augmentTrim, firstLimit, Item.isLimit, Item.isTrim,
      List.filter_cons]

/-! ### The defect repaired by the `fix:` commit (kept as a regression witness)

Before the fix the generator loop had no carry for a `\r` that ends a chunk: the chunking
`["a \r", "\nb"]` produced the line `("a \r", "\n")` where the whole text has `("a ", "\r\n")`.
Chunking independence was false of that code. -/
example : genLinesBeforeFix [['a', ' ', '\r'], ['\n', 'b']] ≠ specLines ['a', ' ', '\r', '\n', 'b'] := by
  decide

/-- Before the `reset()` hook the limiter's count survived from file to file: after a file ending in an empty
line, `"\n\ny\n"` lost one of its two leading empty lines under `limit 2`. -/
example : genFilesBeforeFix [.limit 2] [0] [[['x', '\n', '\n']], [['\n', '\n', 'y', '\n']]]
    ≠ [[['x', '\n', '\n']], [['\n', '\n', 'y', '\n']]].map (fun f => output [.limit 2] [0] f) := by decide
example : genFiles [.limit 2] [5] [[['x', '\n', '\n']], [['\n', '\n', 'y', '\n']]]
    = [['x', '\n', '\n'], ['\n', '\n', 'y', '\n']] := by decide

/-! ### Non-vacuity: concrete, non-trivial instances -/

example : genLines [['a', ' ', '\r'], ['\n', 'b']] = [⟨['a', ' '], CRLF⟩, ⟨['b'], []⟩] := by decide
example : output [.trim, .limit 1] [0, 0] [['a', ' ', '\r'], [], ['\n', '\n', ' '], ['\n', '\n', 'b']]
    = ['a', '\r', '\n', '\n', 'b'] := by decide
example : trimStr ['a', ' ', 'b', '\t', ' '] = ['a', ' ', 'b'] := by decide
example : (limitLines 1 0 [⟨[], LF⟩, ⟨[], LF⟩, ⟨['x'], LF⟩, ⟨[], LF⟩]) =
    [⟨[], LF⟩, ⟨[], []⟩, ⟨['x'], LF⟩, ⟨[], LF⟩] := by decide

/-! ## Round 2: the destination of a copied support file, processor objects, the command line -/

/-- T7a: the lines a text file yields (universal line ends, untranslated — `open(resource, newline="")`) are a
chunking of its text, so `C15_copy_is_linewise` applies to the real file iteration. -/
theorem C15_file_lines_are_a_chunking (text : Str) : (fileLines text).flatten = text :=
  fileLines_flatten text

/-- T7b `SupportGenerator._copy_header`: a run that is not a dry run and may write (the file is absent or
`allow_overwrite` is on) leaves **exactly** the processors applied line by line to the resource's text — whatever the
destination held before (absent, a verbatim copy from an earlier run, anything else) and whatever state the processor
objects were in.  With no line processor that is the resource itself. -/
theorem C15_copy_header_ignores_destination (run : CopyRun) (resource : Str) (dst : Option Str)
    (hd : run.dry = false) (ha : run.allow = true ∨ dst = none) (hl : run.start.length = run.pps.length) :
    copyHeader run resource dst = some (some (linewise run.pps resource)) := by
  have hperm : ¬ (dst.isSome = true ∧ run.allow = false) := by
    rintro ⟨h1, h2⟩
    rcases ha with ha | ha
    · simp [ha] at h2
    · simp [ha] at h1
  unfold copyHeader
  simp only [hd, Bool.false_eq_true, if_false, hperm]
  by_cases h0 : run.pps.length = 0
  · have : run.pps = [] := List.length_eq_zero_iff.mp h0
    simp [this, linewise_nil]
  · simp only [h0, if_false]
    have h := C15_copy_is_linewise run.pps run.start (fileLines resource) resource (fileLines_flatten resource) hl
    simp only [genFiles, List.cons.injEq, and_true] at h
    simp [linewise, h]

/-- T7c: a dry run and a refused overwrite leave the destination as it is. -/
theorem C15_copy_header_dry_or_refused (run : CopyRun) (resource : Str) (dst : Option Str) :
    (run.dry = true → copyHeader run resource dst = some dst) ∧
    (run.dry = false → dst.isSome = true → run.allow = false → copyHeader run resource dst = none) := by
  constructor
  · intro h; simp [copyHeader, h]
  · intro h1 h2 h3; simp [copyHeader, h1, h2, h3]

/-- T7d: histories.  After any sequence of earlier runs into the same directory — with other processor lists, dry
runs, refused runs, from any initial content — the file a (default, overwriting) run leaves is the one it would
leave in a fresh directory: a function of the resource text and of that run's processor list only. -/
theorem C15_copy_history_last_run_decides (resource : Str) (dst0 : Option Str) (runs : List CopyRun)
    (last : CopyRun) (hd : last.dry = false) (ha : last.allow = true)
    (hl : last.start.length = last.pps.length) :
    (copyHistory resource dst0 (runs ++ [last])).2 = some (linewise last.pps resource) ∧
    (copyHistory resource none [last]).2 = some (linewise last.pps resource) := by
  constructor
  · rw [copyHistory_append]
    simp [copyHistory, C15_copy_header_ignores_destination last resource _ hd (.inl ha) hl]
  · simp [copyHistory, C15_copy_header_ignores_destination last resource none hd (.inl ha) hl]

/-- T10a `LimitEmptyLines` as an object, limit `N ≥ 0` as `argparse` (`type=int`) or `int(config)` deliver it:
`__call__` is the step function the limiter theorems are about, `reset()` gives the freshly constructed object, and
a fresh object starts counting at zero. -/
theorem C15_limit_object (n : Nat) (o : LimitObj) (l : Line) (ho : o.max = (n : Int)) :
    (o.call l).1 = (limitStep n o.count l).1 ∧ (o.call l).2 = ⟨o.max, (limitStep n o.count l).2⟩ ∧
    o.reset = LimitObj.new o.max ∧ (LimitObj.new o.max).count = 0 ∧ o.reset.reset = o.reset := by
  obtain ⟨m, c⟩ := o
  simp only at ho
  subst ho
  simp [limitObj_call_nat, LimitObj.reset, LimitObj.new]

/-- T10b (observation, outside the property's `N ≥ 0`): the command line accepts a negative
`--pp-max-emptylines`; such a limiter elides **every** line, empty or not. -/
theorem C15_limit_object_negative_elides_everything (n : Int) (h : n < 0) (s : Nat) (l : Line) :
    (LimitObj.call ⟨n, s⟩ l).1 = ⟨[], []⟩ := by
  unfold LimitObj.call
  by_cases hc : l.content.length = 0
  · have : n < (s : Int) + 1 := by omega
    simp [hc, this]
  · simp [hc, h]

/-- T3b `TrimTrailingWhitespace.__call__`: for every content (also one containing line breaks, as a direct caller may
pass) and every terminator — `""`, `"\n"`, `"\r\n"` or anything else — the terminator is returned as it is, the
object keeps no state, and trimming twice is trimming once. -/
theorem C15_trim_call (s : Nat) (l : Line) :
    Proc.trim.call s l = (some ⟨trimStr l.content, l.term⟩, s) ∧ trim (trim l) = trim l := by
  refine ⟨rfl, ?_⟩
  obtain ⟨ws, h1, h2, h3⟩ := trimStr_spec l.content
  simp [trim, trimStr_of_no_trailing_ws _ h3]

/-- T1 for arbitrary processor objects (`__call__` any function of its own state and the line, `None` results
included): text written, `ValueError` or not, and the objects' states afterwards are the same for every chunking of
the same text. -/
theorem C15_any_processors_chunking_independent (ps : List Proc) (ss : List Nat) (c₁ c₂ : List Str)
    (h : c₁.flatten = c₂.flatten) : genOutP ps ss c₁ = genOutP ps ss c₂ := by
  unfold genOutP
  rw [C15_chunking_independent, C15_chunking_independent, h]

/-- The built-in classes, as objects, compute the `PP` pipeline the other theorems are about (and never return
`None`). -/
theorem C15_builtin_objects_are_the_pipeline (pps : List PP) (ss : List Nat) (chunks : List Str)
    (hl : ss.length = pps.length) :
    (genOutP (pps.map PP.toProc) ss chunks).1 = output pps (List.replicate pps.length 0) chunks ∧
    (genOutP (pps.map PP.toProc) ss chunks).2.1 = false := by
  unfold genOutP output
  exact writeLines_sim pps _ _ _ (resetProcs_rel pps ss hl)

/-- T6 for arbitrary processor objects that honour the documented `reset` contract ("must return to its initial
state"): the k-th file of a run — if the run gets that far — is what that file alone gives from the initial states. -/
theorem C15_reset_contract_files_independent (ps : List Proc) (inits ss : List Nat) (files : List (List Str))
    (hc : ResetAllTo ps inits) (hl : ss.length = ps.length) (k : Nat) (r : Str × Bool)
    (hk : (genFilesP ps ss files)[k]? = some r) :
    ∃ f, files[k]? = some f ∧ r = ((genOutP ps inits f).1, (genOutP ps inits f).2.1) := by
  have hi : resetProcs ps inits = inits := resetProcs_of_contract ps inits inits hc (ResetAllTo_length ps inits hc)
  induction files generalizing ss k with
  | nil => simp [genFilesP] at hk
  | cons f fs ih =>
    have hr : resetProcs ps ss = inits := resetProcs_of_contract ps inits ss hc hl
    have he : genOutP ps ss f = genOutP ps inits f := by simp [genOutP, hr, hi]
    unfold genFilesP at hk
    simp only [he] at hk
    by_cases hraise : (genOutP ps inits f).2.1 = true
    · simp only [hraise, if_true] at hk
      cases k with
      | zero => exact ⟨f, rfl, by simpa [hraise] using hk.symm⟩
      | succ k => simp at hk
    · have hraise' : (genOutP ps inits f).2.1 = false := by simpa using hraise
      simp only [hraise', Bool.false_eq_true, if_false] at hk
      cases k with
      | zero => exact ⟨f, rfl, by simpa [hraise'] using hk.symm⟩
      | succ k =>
        have hl' : (genOutP ps inits f).2.2.length = ps.length := by
          unfold genOutP; rw [writeLines_length, hi]; exact ResetAllTo_length ps inits hc
        simpa using ih _ hl' k (by simpa using hk)

/-- `LimitEmptyLines` (any integer limit) and the `reset`-overriding user class honour the contract; the class that
keeps state without overriding `reset` does not, and files then depend on their predecessors (the documented
responsibility of the subclass). -/
theorem C15_builtin_reset_contract (n : Int) :
    (Proc.limit n).ResetsTo 0 ∧ (Proc.custom 3).ResetsTo 0 ∧ ¬ ∃ i, (Proc.custom 2).ResetsTo i := by
  refine ⟨fun s => rfl, fun s => rfl, ?_⟩
  rintro ⟨i, h⟩
  have h0 := h 0
  have h1 := h 1
  simp [Proc.custom] at h0 h1
  omega

/-- T9b the command line with integer limits, closed form: the processors of a CLI run are the ones the flags ask
for, in flag order, then the file-mode setter, then — only if the flags did not give one — the limiter and/or the
trimmer of the language configuration. -/
theorem C15_cli_processors_closed_form (a : PPArgs) (cfgLimit : Option Int) (cfgTrim : Bool) :
    cliProcessorsZ a cfgLimit cfgTrim =
      (if a.trim then [CItem.trim] else []) ++
      (match a.maxEmpty with | some n => [CItem.limit n] | none => []) ++
      (match a.prog with | some k => [CItem.prog k] | none => []) ++ [CItem.mode a.fileMode] ++
      (match a.maxEmpty, cfgLimit with | none, some n => [CItem.limit n] | _, _ => []) ++
      (if cfgTrim ∧ a.trim = false then [CItem.trim] else []) := by
  obtain ⟨tr, mx, pr, fm⟩ := a
  cases tr <;> cases mx <;> cases pr <;> cases cfgLimit <;> cases cfgTrim <;>
    simp [cliProcessorsZ, cliListZ, assembleZ, CItem.isLimit, CItem.isTrim]

/-- T9c the order in which a generated text meets the line processors of a CLI run. -/
theorem C15_cli_line_processor_order (a : PPArgs) (cfgLimit : Option Int) (cfgTrim : Bool) :
    lineProcs (cliProcessorsZ a cfgLimit cfgTrim) =
      (if a.trim then [CItem.trim] else []) ++
      (match a.maxEmpty, cfgLimit with
       | some n, _ => [CItem.limit n] | none, some n => [CItem.limit n] | none, none => []) ++
      (if cfgTrim ∧ a.trim = false then [CItem.trim] else []) := by
  rw [C15_cli_processors_closed_form]
  obtain ⟨tr, mx, pr, fm⟩ := a
  cases tr <;> cases mx <;> cases pr <;> cases cfgLimit <;> cases cfgTrim <;>
    simp [lineProcs, CItem.isLine]

/-- T8b both generators of a run (`create_default_generators` hands the *same* list to the code generator and to the
support generator, and each constructor runs `_handle_post_processors` on it) end up with the same processors:
augmenting is idempotent. -/
theorem C15_assemble_idempotent (given : Option (List CItem)) (cfgLimit : Option Int) (cfgTrim : Bool) :
    assembleZ (assembleZ given cfgLimit cfgTrim) cfgLimit cfgTrim = assembleZ given cfgLimit cfgTrim := by
  cases given with
  | none =>
    cases cfgLimit <;> cases cfgTrim <;> simp [assembleZ, CItem.isLimit, CItem.isTrim]
  | some l =>
    cases cfgLimit with
    | none =>
      cases cfgTrim
      · simp [assembleZ]
      · by_cases ht : l.any CItem.isTrim = true
        · simp [assembleZ, ht]
        · simp [assembleZ, ht, CItem.isTrim]
    | some n =>
      by_cases hlim : l.any CItem.isLimit = true
      · cases cfgTrim
        · simp [assembleZ, hlim]
        · by_cases ht : l.any CItem.isTrim = true
          · simp [assembleZ, hlim, ht]
          · simp [assembleZ, hlim, ht, CItem.isTrim, CItem.isLimit]
      · cases cfgTrim
        · simp [assembleZ, hlim, CItem.isLimit]
        · by_cases ht : l.any CItem.isTrim = true
          · simp [assembleZ, hlim, ht, CItem.isLimit, CItem.isTrim]
          · simp [assembleZ, hlim, ht, CItem.isLimit, CItem.isTrim]

/-! ### Non-vacuity and witnesses, round 2 -/

-- the seeded "leave an identical file alone" change would keep the verbatim copy; the code does not:
example : copyHistory ['a', ' ', '\n', '\n', '\n', 'b'] none
    [⟨[], [], false, true⟩, ⟨[.trim, .limit 1], [0, 0], false, true⟩]
    = ([some (some ['a', ' ', '\n', '\n', '\n', 'b']), some (some ['a', '\n', '\n', 'b'])],
       some ['a', '\n', '\n', 'b']) := by decide
example : copyHistory ['a', ' ', '\r', '\n'] (some ['o', 'l', 'd'])
    [⟨[.trim], [0], true, true⟩, ⟨[.trim], [0], false, false⟩, ⟨[.trim], [5], false, true⟩]
    = ([some (some ['o', 'l', 'd']), none, some (some ['a', '\r', '\n'])], some ['a', '\r', '\n']) := by decide
example : fileLines ['a', '\r', 'b', '\r', '\n', '\n', 'c'] = [['a', '\r'], ['b', '\r', '\n'], ['\n'], ['c']] := by
  decide
-- a stateful user processor without `reset`: the second file depends on the first
example : genFilesP [Proc.custom 2] [0] [[['a', '\n']], [['a', '\n']]] = [(['#', 'a', '\n'], false), (['a', '\n'], false)] := by
  decide
example : genFilesP [Proc.custom 3] [0] [[['a', '\n']], [['a', '\n']]]
    = [(['#', 'a', '\n'], false), (['#', 'a', '\n'], false)] := by decide
-- a processor returning `None` ends the run with the file partly written
example : genFilesP [Proc.custom 0, Proc.custom 1] [0, 0] [[['a', '\n', 'x', '\n', 'b']], [['c']]]
    = [(['/', '*', ' ', 'a', ' ', '*', '/', '\n', '/', '*', ' ', 'x', ' ', '*', '/', '\n', '/', '*', ' ', 'b', ' ', '*', '/'], false),
       (['/', '*', ' ', 'c', ' ', '*', '/'], false)] := by decide
example : genFilesP [Proc.custom 1, Proc.custom 0] [0, 0] [[['a', '\n', 'x', '\n', 'b']], [['c']]]
    = [(['/', '*', ' ', 'a', ' ', '*', '/', '\n'], true)] := by decide
-- `--pp-max-emptylines -1`: nothing is left of the file
example : (genOutP [Proc.limit (-1)] [0] [['a', '\n', 'b', '\n']]).1 = [] := by decide
-- `nnvg --pp-max-emptylines 2 -l c` (configuration: limit 1, trim): the user's limit, and the limiter runs BEFORE the trimmer
example : lineProcs (cliProcessorsZ ⟨false, some 2, some 1, 0o444⟩ (some 1) true) = [.limit 2, .trim] := by decide
example : cliProcessorsZ ⟨true, none, none, 0o444⟩ (some 1) true = [.trim, .mode 0o444, .limit 1] := by decide

end NunavutVerif.LineBuffer
