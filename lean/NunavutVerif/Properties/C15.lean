import NunavutVerif.Lemmas.LineBuffer
/-!
# C15 — line post-processing is chunking-independent and changes only what it documents

Property theorems only (helper lemmas live in `Lemmas/LineBuffer.lean`, definitions in
`Model/LineBuffer.lean`).  Quantifiers: all texts, all chunk lists (including empty chunks and a cut
between `\r` and `\n`), all processor lists, all limits `n`, all start counters.
-/
namespace NunavutVerif.LineBuffer

/-- T1 chunking independence: the `(line, terminator)` pairs handed to the processors for *any*
chunking are the lines of the concatenated text. -/
theorem C15_chunking_independent (chunks : List Str) :
    genLines chunks = specLines chunks.flatten := by
  have h := procChunks_cont ⟨[], false⟩ chunks []
  simp only [List.append_nil] at h
  unfold genLines specLines
  have hc : cont ⟨[], false⟩ chunks.flatten = scan [] chunks.flatten := by simp [cont, crIf]
  rw [hc] at h
  rw [h]
  simp only [cont, List.append_nil, scan_cr, List.append_nil]
  simp [crIf]

/-- T5: the written file is the processors applied line by line to the complete text, for every
chunking, processor list and start state. -/
theorem C15_output_is_linewise (pps : List PP) (ss : List Nat) (chunks : List Str) :
    output pps ss chunks = write (pipeLines pps ss (specLines chunks.flatten)) := by
  unfold output; rw [C15_chunking_independent]

/-- Two chunkings of the same text give the same file. -/
theorem C15_same_text_same_output (pps : List PP) (ss : List Nat) (c₁ c₂ : List Str)
    (h : c₁.flatten = c₂.flatten) : output pps ss c₁ = output pps ss c₂ := by
  rw [C15_output_is_linewise, C15_output_is_linewise, h]

/-- T2: with no processor the file equals the concatenated output. -/
theorem C15_no_processor_identity (chunks : List Str) :
    output [] [] chunks = chunks.flatten := by
  rw [C15_output_is_linewise]
  have : ∀ ls, pipeLines [] [] ls = ls := by
    intro ls; induction ls with
    | nil => rfl
    | cons l ls ih => simp [pipeLines, pipeLine, ih]
  rw [this]
  simpa [specLines] using write_scan [] chunks.flatten

/-- T3: trimming removes exactly the maximal trailing whitespace of the content and keeps the
terminator. -/
theorem C15_trim_exact (l : Line) :
    (trim l).term = l.term ∧
    ∃ ws, (trim l).content ++ ws = l.content ∧ (∀ c ∈ ws, isWs c = true) ∧
      (∀ c, (trim l).content.getLast? = some c → isWs c = false) :=
  ⟨rfl, trimStr_spec l.content⟩

/-- T4a: the limiter passes every line through unchanged or elides it, and only empty-content lines
are ever elided. -/
theorem C15_limit_pointwise (n cnt : Nat) (ls : List Line) :
    (limitLines n cnt ls).length = ls.length ∧
    ∀ p ∈ (limitLines n cnt ls).zip ls, p.1 = p.2 ∨ (p.1 = ⟨[], []⟩ ∧ p.2.content = []) := by
  induction ls generalizing cnt with
  | nil => simp [limitLines]
  | cons l ls ih =>
    by_cases he : l.content = []
    · by_cases hc : cnt + 1 ≤ n
      · rw [limitLines_cons_keep n cnt l ls he hc]
        obtain ⟨h1, h2⟩ := ih (cnt + 1)
        refine ⟨by simp [h1], ?_⟩
        intro p hp
        rcases List.mem_cons.mp (by simpa using hp) with rfl | hp
        · exact .inl rfl
        · exact h2 p hp
      · rw [limitLines_cons_drop n cnt l ls he (by omega)]
        obtain ⟨h1, h2⟩ := ih (cnt + 1)
        refine ⟨by simp [h1], ?_⟩
        intro p hp
        rcases List.mem_cons.mp (by simpa using hp) with rfl | hp
        · exact .inr ⟨rfl, he⟩
        · exact h2 p hp
    · rw [limitLines_cons_nonempty n cnt l ls he]
      obtain ⟨h1, h2⟩ := ih 0
      refine ⟨by simp [h1], ?_⟩
      intro p hp
      rcases List.mem_cons.mp (by simpa using hp) with rfl | hp
      · exact .inl rfl
      · exact h2 p hp

/-- T4b: no non-empty line is removed, reordered or altered. -/
theorem C15_limit_keeps_nonempty (n cnt : Nat) (ls : List Line) :
    nonEmpty (limitLines n cnt ls) = nonEmpty ls := by
  induction ls generalizing cnt with
  | nil => rfl
  | cons l ls ih =>
    by_cases he : l.content = []
    · by_cases hc : cnt + 1 ≤ n
      · rw [limitLines_cons_keep n cnt l ls he hc]; simp [nonEmpty, he, ih]
      · rw [limitLines_cons_drop n cnt l ls he (by omega)]; simp [nonEmpty, he, ih]
    · rw [limitLines_cons_nonempty n cnt l ls he]; simp [nonEmpty, he, ih]

/-- T4c: what the limiter leaves never contains more than `n` consecutive empty lines — from any
start counter `cnt` (the run already written is at most `min cnt n`). -/
theorem C15_limit_bounds_runs (n cnt : Nat) (ls : List Line) :
    emptyRunsLe n (min cnt n) (visible (limitLines n cnt ls)) = true := by
  induction ls generalizing cnt with
  | nil => rfl
  | cons l ls ih =>
    by_cases he : l.content = []
    · by_cases hc : cnt + 1 ≤ n
      · rw [limitLines_cons_keep n cnt l ls he hc]
        have hm : min (cnt + 1) n = min cnt n + 1 := by omega
        have := ih (cnt + 1)
        rw [hm] at this
        by_cases ht : l.term = []
        · -- an empty unterminated line writes nothing
          simp only [visible, Line.elided, he, ht, and_self, decide_true, if_true]
          exact emptyRunsLe_mono n _ _ _ (by omega) this
        · simp only [visible, Line.elided, he, ht, and_false, decide_false, Bool.false_eq_true,
            if_false, emptyRunsLe, if_true, Bool.and_eq_true, decide_eq_true_eq]
          exact ⟨by omega, this⟩
      · rw [limitLines_cons_drop n cnt l ls he (by omega)]
        have hm : min (cnt + 1) n = min cnt n := by omega
        have := ih (cnt + 1)
        rw [hm] at this
        simpa [visible, Line.elided] using this
    · rw [limitLines_cons_nonempty n cnt l ls he]
      have := ih 0
      simp only [Nat.zero_min] at this
      simp [visible, Line.elided, he, emptyRunsLe, this]

/-- The single-limiter pipeline is `limitLines` (ties the vocabulary above to `pipeLines`). -/
theorem C15_pipe_limit (n cnt : Nat) (ls : List Line) :
    pipeLines [.limit n] [cnt] ls = limitLines n cnt ls := by
  induction ls generalizing cnt with
  | nil => rfl
  | cons l ls ih => simp [pipeLines, pipeLine, ppStep, limitLines, ih]

/-- T6: every file of a run is post-processed as if it were the only one: whatever the processors' state
when the run starts and whatever files came before, the k-th file is `output pps zeros` of its own chunks
(the processors are reset before the first line of each file). -/
theorem C15_files_independent (pps : List PP) (ss : List Nat) (files : List (List Str))
    (h : ss.length = pps.length) :
    genFiles pps ss files = files.map (fun f => output pps (List.replicate pps.length 0) f) := by
  induction files generalizing ss with
  | nil => rfl
  | cons f fs ih =>
    have hr : resetAll ss = List.replicate pps.length 0 := resetAll_eq ss _ h
    have hl : (genFile pps (resetAll ss) f).2.length = pps.length := by
      simp [genFile, pipeLinesSt_length, hr]
    simp only [genFiles, List.map_cons]
    rw [ih _ hl]
    simp [genFile, output, pipeLinesSt_fst, hr]

/-- T7: a raw (non-template) support file copied through line processors
(`SupportGenerator._copy_header_using_line_pps`: reset, then the file's lines — however the file object cuts
them — through the same line buffer) is the processors applied line by line to the file's text. -/
theorem C15_copy_is_linewise (pps : List PP) (ss : List Nat) (lines : List Str) (text : Str)
    (h : lines.flatten = text) (hl : ss.length = pps.length) :
    genFiles pps ss [lines] =
      [write (pipeLines pps (List.replicate pps.length 0) (specLines text))] := by
  rw [C15_files_independent pps ss [lines] hl]
  simp [C15_output_is_linewise, h]

/-- T8: the processor list a generator ends up with contains what the language configuration asks for and keeps the
caller's processors, in order, in front: a limiter whenever `limit_empty_lines` is configured (the caller's own if there is
one), a trimmer whenever `trim_trailing_whitespace` is on; nothing is added that was not asked for. -/
theorem C15_assembled_processors (given : Option (List Item)) (cfgLimit : Option Nat) (cfgTrim : Bool) :
    let r := (assemble given cfgLimit cfgTrim).getD []
    (cfgLimit.isSome → r.any Item.isLimit = true) ∧
    (cfgTrim = true → r.any Item.isTrim = true) ∧
    (∃ added, r = given.getD [] ++ added ∧ added.length ≤ 2 ∧
      (∀ i ∈ added, (i = .trim ∧ cfgTrim = true) ∨ (∃ n, i = .limit n ∧ cfgLimit = some n))) ∧
    ((assemble given cfgLimit cfgTrim).isNone ↔ (given.isNone ∧ cfgLimit.isNone ∧ cfgTrim = false)) := by
  cases given with
  | none =>
    cases cfgLimit <;> cases cfgTrim <;>
      simp [assemble, augmentLimit, augmentTrim, Item.isLimit, Item.isTrim]
  | some l =>
    cases cfgLimit with
    | none =>
      cases cfgTrim
      · simp [assemble]
      · by_cases ht : l.any Item.isTrim = true
        · simp [assemble, augmentTrim, ht]
        · simp [assemble, augmentTrim, ht, Item.isTrim]
    | some n =>
      by_cases hl : l.any Item.isLimit = true
      · cases cfgTrim
        · simp [assemble, augmentLimit, hl]
        · by_cases ht : l.any Item.isTrim = true
          · simp [assemble, augmentLimit, augmentTrim, hl, ht]
          · simp [assemble, augmentLimit, augmentTrim, hl, ht, Item.isTrim]
      · cases cfgTrim
        · simp [assemble, augmentLimit, hl, Item.isLimit]
        · by_cases ht : l.any Item.isTrim = true
          · have : (l ++ [Item.limit n]).any Item.isTrim = true := by simp [List.any_append, ht]
            simp [assemble, augmentLimit, augmentTrim, hl, this, Item.isLimit]
          · have : ¬ (l ++ [Item.limit n]).any Item.isTrim = true := by
              simpa [List.any_append, Item.isTrim] using ht
            simp [assemble, augmentLimit, augmentTrim, hl, this, Item.isLimit, Item.isTrim]

/-- T9: on the command line the user's `--pp-max-emptylines N` is the limit that is enforced, for every `N` — `0`
included — whatever the language configuration says; without the option the configured limit (if any) applies; and
there is never more than one limiter. -/
theorem C15_cli_limit_is_the_users (trim : Bool) (maxEmpty : Option Nat) (prog : Bool)
    (cfgLimit : Option Nat) (cfgTrim : Bool) :
    firstLimit (cliProcessors trim maxEmpty prog cfgLimit cfgTrim) =
      (match maxEmpty with | some n => some n | none => cfgLimit) ∧
    ((cliProcessors trim maxEmpty prog cfgLimit cfgTrim).filter Item.isLimit).length ≤ 1 := by
  cases trim <;> cases maxEmpty <;> cases prog <;> cases cfgLimit <;> cases cfgTrim <;>
    simp [cliProcessors, cliList, assemble, augmentLimit, augmentTrim, firstLimit, Item.isLimit, Item.isTrim,
      List.filter_cons]

/-! ### The defect repaired by the `fix:` commit (kept as a regression witness)

Before the fix the generator loop had no carry for a `\r` that ends a chunk: the chunking
`["a \r", "\nb"]` produced the line `("a \r", "\n")` where the whole text has `("a ", "\r\n")`.
Chunking independence was false of that code. -/
example : genLinesBeforeFix [['a', ' ', '\r'], ['\n', 'b']] ≠ specLines ['a', ' ', '\r', '\n', 'b'] := by
  decide

/-- Before the `reset()` hook the limiter's count survived from file to file: after a file ending in an empty
line, `"\n\ny\n"` lost one of its two leading empty lines under `limit 2`. -/
example : genFilesBeforeFix [.limit 2] [0] [[['x', '\n', '\n']], [['\n', '\n', 'y', '\n']]]
    ≠ [[['x', '\n', '\n']], [['\n', '\n', 'y', '\n']]].map (fun f => output [.limit 2] [0] f) := by decide
example : genFiles [.limit 2] [5] [[['x', '\n', '\n']], [['\n', '\n', 'y', '\n']]]
    = [['x', '\n', '\n'], ['\n', '\n', 'y', '\n']] := by decide

/-! ### Non-vacuity: concrete, non-trivial instances -/

example : genLines [['a', ' ', '\r'], ['\n', 'b']] = [⟨['a', ' '], CRLF⟩, ⟨['b'], []⟩] := by decide
example : output [.trim, .limit 1] [0, 0] [['a', ' ', '\r'], [], ['\n', '\n', ' '], ['\n', '\n', 'b']]
    = ['a', '\r', '\n', '\n', 'b'] := by decide
example : trimStr ['a', ' ', 'b', '\t', ' '] = ['a', ' ', 'b'] := by decide
example : (limitLines 1 0 [⟨[], LF⟩, ⟨[], LF⟩, ⟨['x'], LF⟩, ⟨[], LF⟩]) =
    [⟨[], LF⟩, ⟨[], []⟩, ⟨['x'], LF⟩, ⟨[], LF⟩] := by decide

end NunavutVerif.LineBuffer
