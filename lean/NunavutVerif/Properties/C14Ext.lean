import NunavutVerif.Lemmas.BitsGlue
import NunavutVerif.Lemmas.BitsPyArgs
/-!
# C14, round 2 — argument conversion of the Python primitives; the remaining public entry points

Property theorems only.  Definitions: `Model/BitsPyArgs.lean` (argument universe `PyVal`, the NumPy oracle with its
laws, the methods over `PyVal`), `Model/BitsGlue.lean` (float set/get as pattern moves, `any_bitspan` offset and
window arithmetic, convenience overloads, cursor bookkeeping, forks).  Every theorem is over all buffers, offsets,
sizes, values, and — where NumPy is involved — over **every lawful NumPy oracle** `np` (the laws are fields of
`Py.NumPy`; the instance the driver runs, `Py.numpy2`, carries their proofs).
-/
namespace NunavutVerif.Bits

/-! ## (a) what the Python `add_*` methods do with their argument -/

/-- The conversion layer is exact: for an argument of any accepted type (Python `int`, `bool`, `numpy.bool_`, a NumPy
integer scalar holding a value of its type), `int(x)`, `x < 0` and `bool(x)` see the integer the argument denotes. -/
theorem C14_py_arg_conversion_exact (np : Py.NumPy) (x : Py.PyVal) (h : x.WF) :
    x.toInt np = x.denote ∧ x.lt0 np = decide (x.denote < 0) ∧ x.truth np = decide (x.denote ≠ 0) :=
  ⟨Py.PyVal.toInt_denote np x h, Py.PyVal.lt0_denote np x h, Py.PyVal.truth_denote np x h⟩

/-- `add_aligned_unsigned` / `add_unaligned_unsigned` (what generated code calls for the elements of `uintN[...]`
arrays of non-standard width): for an argument of **every** accepted type denoting `v ≥ 0`, exactly the low `bl` bits
of `v` are appended; a negative one is refused (`ValueError`). -/
theorem C14_py_arg_add_unsigned (np : Py.NumPy) (s : Py.Ser) (x : Py.PyVal) (bl : Nat) (hx : x.WF) (hinv : s.Inv)
    (hbl : 1 ≤ bl) :
    (0 ≤ x.denote → s.off / 8 + (bl + 7) / 8 < s.buf.length →
      ∃ s', Py.addUnalignedUnsignedV np s x bl = .ok s' ∧ Py.Appends s s' bl x.denote.toNat.testBit) ∧
    (0 ≤ x.denote → s.off % 8 = 0 → s.off / 8 + (bl + 7) / 8 ≤ s.buf.length →
      ∃ s', Py.addAlignedUnsignedV np s x bl = .ok s' ∧ Py.Appends s s' bl x.denote.toNat.testBit) ∧
    (x.denote < 0 → Py.addUnalignedUnsignedV np s x bl = .error .usage) := by
  refine ⟨fun h0 hr => ?_, fun h0 ha hr => ?_, fun hneg => ?_⟩
  · rw [Py.addUnalignedUnsignedV_eq np s x bl hx]
    exact Py.addUnalignedUnsigned_spec s x.denote bl hinv h0 hbl hr
  · rw [Py.addAlignedUnsignedV_eq np s x bl hx]
    exact Py.addAlignedUnsigned_spec s x.denote bl hinv ha h0 hbl hr
  · simp [Py.addUnalignedUnsignedV, Py.ensureNotNegativeV_neg np x hx hneg, bind, Except.bind]

/-- `add_aligned_signed` / `add_unaligned_signed` (elements of `intN[...]` arrays of non-standard width — fixed-width
NumPy scalars): for an argument of every accepted type denoting `v` with `-2^bl ≤ v`, the two's-complement bits of `v`
are appended — in particular for a negative `numpy.int8/16/32/64` element of an `int7/15/31/63` array, where
`2**bl` itself is not representable in the element's type. -/
theorem C14_py_arg_add_signed (np : Py.NumPy) (s : Py.Ser) (x : Py.PyVal) (bl : Nat) (hx : x.WF) (hinv : s.Inv)
    (hbl : 2 ≤ bl) (hlo : -(2 ^ bl) ≤ x.denote) :
    (s.off / 8 + (bl + 7) / 8 < s.buf.length →
      ∃ s', Py.addUnalignedSignedV np s x bl = .ok s' ∧
        Py.Appends s s' bl (if x.denote < 0 then 2 ^ bl + x.denote else x.denote).toNat.testBit) ∧
    (s.off % 8 = 0 → s.off / 8 + (bl + 7) / 8 ≤ s.buf.length →
      ∃ s', Py.addAlignedSignedV np s x bl = .ok s' ∧
        Py.Appends s s' bl (if x.denote < 0 then 2 ^ bl + x.denote else x.denote).toNat.testBit) := by
  refine ⟨fun hr => ?_, fun ha hr => ?_⟩
  · rw [Py.addUnalignedSignedV_eq np s x bl hx]
    exact Py.addUnalignedSigned_spec s x.denote bl hinv hbl hlo hr
  · rw [Py.addAlignedSignedV_eq np s x bl hx]
    exact Py.addAlignedSigned_spec s x.denote bl hinv ha hbl hlo hr

/-- `add_unaligned_bit(x)`: one bit, set iff the argument is non-zero (`bool(x)`), whatever its type. -/
theorem C14_py_arg_add_bit (np : Py.NumPy) (s : Py.Ser) (x : Py.PyVal) (hx : x.WF) (hinv : s.Inv)
    (hroom : s.off / 8 < s.buf.length) :
    ∃ s', Py.addUnalignedBitV np s x = .ok s' ∧ Py.Appends s s' 1 (fun _ => decide (x.denote ≠ 0)) := by
  unfold Py.addUnalignedBitV
  rw [Py.PyVal.truth_denote np x hx]
  exact Py.addUnalignedBit_spec s _ hinv hroom

/-- `add_aligned_u8/u16/u32/u64` carry out `x & 0xFF`, `x >> 8`, … **in the argument's own type**: they append the low
`W` bits of `v ≥ 0` for every argument whose type can hold the constant `0xFF` (`AcceptsU`: all but `numpy.int8`;
nothing is required for `W = 8`, where the value must be below 256 as for a Python `int`). -/
theorem C14_py_arg_add_aligned_uW (np : Py.NumPy) (W : Nat) (s : Py.Ser) (x : Py.PyVal)
    (hW : W = 8 ∨ W = 16 ∨ W = 32 ∨ W = 64) (hx : x.WF) (hinv : s.Inv) (ha : s.off % 8 = 0) (h0 : 0 ≤ x.denote)
    (h8 : W = 8 → x.denote < 256) (hacc : Py.AcceptsU W x) (hroom : s.off / 8 + W / 8 ≤ s.buf.length) :
    ∃ s', (if W = 8 then Py.addAlignedU8V np s x else if W = 16 then Py.addAlignedU16V np s x
            else if W = 32 then Py.addAlignedU32V np s x else Py.addAlignedU64V np s x) = .ok s' ∧
      Py.Appends s s' W x.denote.toNat.testBit := by
  have e := Py.addAlignedUV_eq np W s x hx h0 h8 hacc
  rcases hW with rfl | rfl | rfl | rfl
  · simp only [if_true] at e ⊢; rw [e]
    exact Py.addAlignedU8_spec s x.denote hinv ha h0 (h8 rfl) (by omega)
  · simp only [show ¬ (16 = 8) by omega, if_false, if_true] at e ⊢; rw [e]
    exact Py.addAlignedU16_spec s x.denote hinv ha h0 (by omega)
  · simp only [show ¬ (32 = 8) by omega, show ¬ (32 = 16) by omega, if_false, if_true] at e ⊢; rw [e]
    exact Py.addAlignedU32_spec s x.denote hinv ha h0 (by omega)
  · simp only [show ¬ (64 = 8) by omega, show ¬ (64 = 16) by omega, show ¬ (64 = 32) by omega, if_false,
      if_true] at e ⊢
    rw [e]
    exact Py.addAlignedU64_spec s x.denote hinv ha h0 (by omega)

/-- `add_aligned_i8/i16/i32/i64` compute `2**W + x` in the argument's type: the two's-complement bits of an in-range
`v` are appended for every argument accepted by `AcceptsI` (negative: the type must hold `2**W`, i.e. a Python `int`
or a NumPy integer wider than `W` bits; non-negative: as the unsigned method). -/
theorem C14_py_arg_add_aligned_iW (np : Py.NumPy) (W : Nat) (s : Py.Ser) (x : Py.PyVal)
    (hW : W = 8 ∨ W = 16 ∨ W = 32 ∨ W = 64) (hx : x.WF) (hinv : s.Inv) (ha : s.off % 8 = 0)
    (hlo : -(2 ^ (W - 1)) ≤ x.denote) (hhi : x.denote < 2 ^ (W - 1)) (hacc : Py.AcceptsI W x)
    (hroom : s.off / 8 + W / 8 ≤ s.buf.length) :
    ∃ s', Py.addAlignedIV np W s x = .ok s' ∧
      Py.Appends s s' W (if x.denote < 0 then 2 ^ W + x.denote else x.denote).toNat.testBit := by
  rw [Py.addAlignedIV_eq np W s x hW hx hlo hhi hacc]
  exact Py.addAlignedI_spec W s x.denote hW hinv ha hlo hhi hroom

/-- A Python `int` / `bool` argument is always accepted. -/
theorem C14_py_arg_python_int_accepted (W : Nat) (v : Int) (b : Bool) :
    Py.AcceptsU W (.int v) ∧ Py.AcceptsI W (.int v) ∧ Py.AcceptsU W (.bool b) ∧ Py.AcceptsI W (.bool b) := by
  refine ⟨.inr rfl, ?_, .inr rfl, ?_⟩
  · unfold Py.AcceptsI; split
    · rfl
    · exact .inr rfl
  · unfold Py.AcceptsI; split
    · rfl
    · exact .inr rfl

/-! ### witnesses (a): the NEP 50 instance the driver runs -/

-- the regression `fix:` 2f4c1c9 repaired (and a later "redundant conversion" clean-up would re-introduce): without
-- `value = int(value)` a negative int8 element of an `int7[...]` array cannot be serialized (`2**7` does not fit int8)
example : Py.addSignedNoInt Py.numpy2 true ⟨[0, 0], 0⟩ (.np .i8 (-3)) 7 = .error .usage := by decide
example : Py.addSignedNoInt Py.numpy2 false ⟨[0, 0, 0, 0, 0], 3⟩ (.np .i32 (-1)) 31 = .error .usage := by decide
example : Py.addAlignedSignedV Py.numpy2 ⟨[0, 0], 0⟩ (.np .i8 (-3)) 7 = .ok ⟨[0x7D, 0], 7⟩ := by decide
example : Py.addSignedNoInt Py.numpy2 true ⟨[0, 0], 0⟩ (.np .i8 (-3)) 6 = .ok ⟨[0x3D, 0], 6⟩ := by decide
example : Py.addSignedNoInt Py.numpy2 true ⟨[0, 0], 0⟩ (.int (-3)) 7 = .ok ⟨[0x7D, 0], 7⟩ := by decide
-- observations outside the acceptance predicates (not reachable from generated code: scalar attributes are `int`):
example : Py.addAlignedIV Py.numpy2 8 ⟨[0, 0], 0⟩ (.np .i8 (-1)) = .error .usage := by decide      -- 256 + int8
example : Py.addAlignedU16V Py.numpy2 ⟨[0, 0, 0], 0⟩ (.np .i8 5) = .error .usage := by decide      -- int8 & 0xFF
example : Py.addAlignedU8V Py.numpy2 ⟨[0, 0], 0⟩ (.np .u16 300) = .ok ⟨[44, 0], 8⟩ := by decide    -- cast, not an error
example : Py.addAlignedU8V Py.numpy2 ⟨[0, 0], 0⟩ (.int 300) = .error .usage := by decide
example : Py.addAlignedIV Py.numpy2 16 ⟨[0, 0, 0], 0⟩ (.np .i32 (-2)) = .ok ⟨[0xFE, 0xFF, 0], 16⟩ := by decide
example : Py.addAlignedU32V Py.numpy2 ⟨[0, 0, 0, 0, 0], 0⟩ (.np .u8 200) = .ok ⟨[200, 0, 0, 0, 0], 32⟩ := by decide
example : Py.addUnalignedBitV Py.numpy2 ⟨[0], 2⟩ (.np .i8 (-2)) = .ok ⟨[4], 3⟩ := by decide

/-! ## (b) C: `nunavutChooseMin`, `nunavutSetF16/32/64`, `nunavutGetF16/32/64` -/

theorem C14_chooseMin (a b : Nat) : chooseMin a b = min a b := by
  unfold chooseMin; split <;> omega

/-- `nunavutSetF32/SetF64` move the float's bit pattern: a too-small buffer is reported (`-3`) and left unchanged;
otherwise exactly the `W` addressed bits become the pattern and everything else is untouched. -/
theorem C14_setF (little : Bool) (W : Nat) (buf : Buf) (size off bits : Nat) (hW64 : W ≤ 64)
    (hsize : size ≤ buf.length) :
    (size * 8 < off + W → setF little W buf size off bits = .ok (errTooSmall, buf)) ∧
    (¬ size * 8 < off + W →
      ∃ r, setF little W buf size off bits = .ok (0, r) ∧ r.length = buf.length ∧ (WF buf → WF r) ∧
        ∀ i, bitAt r i = if off ≤ i ∧ i < off + W then bits.testBit (i - off) else bitAt buf i) := by
  refine ⟨fun h => setUxx_small little buf size off bits W h, fun h => ?_⟩
  obtain ⟨r, h1, h2, h3, h4⟩ := setUxx_spec little buf size off bits W hsize h
  exact ⟨r, h1, h2, h3, fun i => by rw [h4, Nat.min_eq_left hW64]⟩

/-- `nunavutGetF32/GetF64` return the pattern of the zero-extended `W`-bit field, for every offset and size; and they
read back what `SetF` wrote (`W` = 32, 64: any multiple of 8 up to 64). -/
theorem C14_getF (little : Bool) (W : Nat) (buf : Buf) (size off bits : Nat) (hW : W % 8 = 0) (hW64 : W ≤ 64)
    (hsize : size ≤ buf.length) (hw : WF buf) :
    getF little W buf size off = .ok (fieldOf (fun i => zbit buf size (off + i)) W) ∧
    (bits < 2 ^ W → ¬ size * 8 < off + W →
      ∃ r, setF little W buf size off bits = .ok (0, r) ∧ getF little W r size off = .ok bits) := by
  refine ⟨?_, fun hb h => setF_getF little W buf size off bits hW hW64 hsize hw hb h⟩
  unfold getF
  rw [getU_spec little W buf size off W hW hsize hw, Nat.min_self]

/-- `nunavutSetF16` writes exactly the 16 bits of `nunavutFloat16Pack(value)`; `nunavutGetF16` is
`nunavutFloat16Unpack` of the zero-extended 16-bit field (pack/unpack themselves: `Properties/C14Float.lean`). -/
theorem C14_setF16_getF16 (little : Bool) (pack unpack : Nat → Nat) (buf : Buf) (size off v : Nat)
    (hsize : size ≤ buf.length) (hw : WF buf) :
    (size * 8 < off + 16 → setF16 little pack buf size off v = .ok (errTooSmall, buf)) ∧
    (¬ size * 8 < off + 16 →
      ∃ r, setF16 little pack buf size off v = .ok (0, r) ∧ r.length = buf.length ∧
        ∀ i, bitAt r i = if off ≤ i ∧ i < off + 16 then (pack v).testBit (i - off) else bitAt buf i) ∧
    getF16 little unpack buf size off = .ok (unpack (fieldOf (fun i => zbit buf size (off + i)) 16)) := by
  refine ⟨fun h => setUxx_small little buf size off _ 16 h, fun h => ?_, ?_⟩
  · obtain ⟨r, h1, h2, _, h4⟩ := setUxx_spec little buf size off (pack v) 16 hsize h
    exact ⟨r, h1, h2, fun i => by rw [h4]; rfl⟩
  · unfold getF16
    rw [getU_spec little 16 buf size off 16 (by omega) hsize hw]
    rfl

/-! ## (b) C++: the rest of `any_bitspan`, `bitspan`, `const_bitspan` -/

/-- `at_offset` / `add_offset` / `set_offset` / `offset` / `offset_bytes` / `offset_bytes_ceil` / `size` /
`offset_misalignment` / `offset_alings_to` / `offset_alings_to_byte`: the bytes are shared, only the cursor moves; the
span shows the same bits further on; `size()` shrinks by what was skipped (never below zero). -/
theorem C14_cpp_offset_arithmetic (sp : Cpp.Span) (bits a : Nat) :
    (Cpp.atOffset sp bits).data = sp.data ∧ (Cpp.atOffset sp bits).off = sp.off + bits ∧
    (Cpp.atOffset sp bits).size = sp.size - bits ∧
    (∀ i, bitAt (Cpp.atOffset sp bits).data ((Cpp.atOffset sp bits).off + i) = bitAt sp.data (sp.off + bits + i)) ∧
    (Cpp.setOffset sp bits).data = sp.data ∧ (Cpp.setOffset sp bits).off = bits ∧
    sp.size = sp.data.length * 8 - sp.off ∧
    Cpp.offsetBytes sp * 8 ≤ sp.off ∧ sp.off < Cpp.offsetBytes sp * 8 + 8 ∧
    sp.off ≤ Cpp.offsetBytesCeil sp * 8 ∧ Cpp.offsetBytesCeil sp * 8 < sp.off + 8 ∧
    (0 < a → Cpp.offsetMisalignment sp a = .ok (sp.off % a) ∧
      Cpp.offsetAlignsTo sp a = .ok (decide (sp.off % a = 0))) := by
  refine ⟨rfl, rfl, ?_, fun i => rfl, rfl, rfl, Cpp.Span.size_eq sp, ?_, ?_, ?_, ?_, fun ha => ?_⟩
  · rw [Cpp.Span.size_eq, Cpp.Span.size_eq]; show sp.data.length * 8 - (sp.off + bits) = _; omega
  · unfold Cpp.offsetBytes; omega
  · unfold Cpp.offsetBytes; omega
  · unfold Cpp.offsetBytesCeil; omega
  · unfold Cpp.offsetBytesCeil; omega
  · have : a ≠ 0 := by omega
    simp only [Cpp.offsetMisalignment, Cpp.offsetAlignsTo, this, if_false, bind, Except.bind, true_and]
    by_cases h : sp.off % a = 0 <;> simp [h]

/-- `any_bitspan::subspan(bits)`: the offset turned into a pointer — the result starts at the addressed bit, has a
bit offset below 8, shows exactly the same bits, and its `size()` is what remained. -/
theorem C14_cpp_subspan_bits (sp : Cpp.Span) (bits : Nat) :
    (Cpp.subspan1 sp bits).off = (sp.off + bits) % 8 ∧
    (Cpp.subspan1 sp bits).data.length = sp.data.length - (sp.off + bits) / 8 ∧
    (Cpp.subspan1 sp bits).size = sp.size - bits ∧
    ∀ i, bitAt (Cpp.subspan1 sp bits).data ((Cpp.subspan1 sp bits).off + i) = bitAt sp.data (sp.off + bits + i) :=
  Cpp.subspan1_spec sp bits

/-- `const_bitspan::subspan_bytes(n)` (the window of a delimited nested object): at most `n` bytes from the byte of
the offset on, fewer if the data ends earlier, offset 0; inside the window the bits are the parent's, **beyond it
they read as zero** whatever the parent holds there. -/
theorem C14_cpp_subspan_bytes (sp : Cpp.Span) (sizeBytes : Nat) :
    (Cpp.subspanBytes sp sizeBytes).off = 0 ∧
    (Cpp.subspanBytes sp sizeBytes).data.length = min sizeBytes (sp.data.length - sp.off / 8) ∧
    ∀ i, bitAt (Cpp.subspanBytes sp sizeBytes).data i =
      (decide (i / 8 < sizeBytes) && bitAt sp.data (8 * (sp.off / 8) + i)) :=
  Cpp.subspanBytes_spec sp sizeBytes

/-- `aligned_ref(plus)` / `aligned_ptr(plus)`: the byte that holds bit `offset + plus`; the reference is an error
(assertion / out-of-bounds) exactly when that byte lies outside the data. -/
theorem C14_cpp_aligned_ref (sp : Cpp.Span) (plus : Nat) :
    8 * Cpp.alignedPtr sp plus + (sp.off + plus) % 8 = sp.off + plus ∧
    (Cpp.alignedPtr sp plus < sp.data.length →
      ∃ b, Cpp.alignedRef sp plus = .ok b ∧ sp.data[Cpp.alignedPtr sp plus]? = some b ∧
        b.testBit ((sp.off + plus) % 8) = bitAt sp.data (sp.off + plus)) ∧
    (¬ Cpp.alignedPtr sp plus < sp.data.length → Cpp.alignedRef sp plus = .error .oob) := by
  refine ⟨by unfold Cpp.alignedPtr; omega, fun h => ?_, fun h => ?_⟩
  · unfold Cpp.alignedPtr at h
    refine ⟨sp.data[(sp.off + plus) / 8], ?_, ?_, ?_⟩
    · simp [Cpp.alignedRef, get?, List.getElem?_eq_getElem h]
    · simp [Cpp.alignedPtr, List.getElem?_eq_getElem h]
    · simp [bitAt, List.getElem?_eq_getElem h]
  · unfold Cpp.alignedPtr at h
    simp [Cpp.alignedRef, get?, List.getElem?_eq_none (by omega : sp.data.length ≤ (sp.off + plus) / 8)]

/-- `copyTo(dst)` (whole source) and `setZeros()` (whole remaining span). -/
theorem C14_cpp_whole_span_overloads (src dst sp : Cpp.Span) :
    (src.size ≠ 0 → dst.off + src.size ≤ dst.data.length * 8 →
      ∃ r, Cpp.copyToAll src dst = .ok r ∧ r.length = dst.data.length ∧
        ∀ i, bitAt r i = if dst.off ≤ i ∧ i < dst.off + src.size
          then bitAt src.data (src.off + (i - dst.off)) else bitAt dst.data i) ∧
    (∃ r, Cpp.setZerosAll sp = .ok (0, r) ∧ r.length = sp.data.length ∧
        ∀ i, bitAt r i = if sp.off ≤ i ∧ i < sp.off + sp.size then false else bitAt sp.data i) := by
  constructor
  · intro _ hd
    obtain ⟨r, h1, h2, _, h4⟩ := Cpp.copyTo_spec src dst src.size (by rw [Nat.min_self]; intro _; exact hd)
    refine ⟨r, h1, h2, fun i => ?_⟩
    rw [h4, Nat.min_self]
  · obtain ⟨r, h1, h2, _, h4⟩ := Cpp.setZeros_spec sp sp.size (by omega)
    exact ⟨r, h1, h2, h4⟩

/-- `align_offset_to<n>()` for the permitted `n` = 8, 16, 32, 64 (`2^k`, `3 ≤ k ≤ 6`; no `size_t` wrap): the offset
becomes the least multiple of `n` that is not below it. -/
theorem C14_cpp_align_offset_to (k : Nat) (sp : Cpp.Span) (hk : k ≤ 6) (hoff : sp.off + 2 ^ k ≤ 2 ^ 64) :
    (Cpp.alignOffsetTo (2 ^ k) sp).data = sp.data ∧
    sp.off ≤ (Cpp.alignOffsetTo (2 ^ k) sp).off ∧ (Cpp.alignOffsetTo (2 ^ k) sp).off < sp.off + 2 ^ k ∧
    (Cpp.alignOffsetTo (2 ^ k) sp).off % 2 ^ k = 0 := by
  obtain ⟨h1, h2⟩ := Cpp.alignOffsetTo_spec k sp hk hoff
  obtain ⟨a, b, c⟩ := Cpp.roundUp_props sp.off (2 ^ k) (Nat.pow_pos (by omega))
  rw [h2]
  exact ⟨h1, a, b, c⟩

/-- `bitspan::setF32/setF64`, `const_bitspan::getF32/getF64`: pattern moves with the `setUxx` / `getU` contracts and
the round trip. -/
theorem C14_cpp_setF_getF (W : Nat) (sp : Cpp.Span) (bits : Nat) (hW : W % 8 = 0) (hW64 : W ≤ 64)
    (hw : WF sp.data) :
    (sp.data.length * 8 < sp.off + W → Cpp.setF W sp bits = .ok (errTooSmall, sp.data)) ∧
    (¬ sp.data.length * 8 < sp.off + W →
      ∃ r, Cpp.setF W sp bits = .ok (0, r) ∧ r.length = sp.data.length ∧
        (∀ i, bitAt r i = if sp.off ≤ i ∧ i < sp.off + W then bits.testBit (i - sp.off) else bitAt sp.data i) ∧
        (bits < 2 ^ W → Cpp.getF W ⟨r, sp.off⟩ = .ok bits)) ∧
    Cpp.getF W sp = .ok (fieldOf (fun i => bitAt sp.data (sp.off + i)) W) := by
  refine ⟨?_, fun h => ?_, ?_⟩
  · intro h; unfold Cpp.setF; rw [Cpp.setUxx_eq]; exact setUxx_small false sp.data _ sp.off bits W h
  · unfold Cpp.setF; rw [Cpp.setUxx_eq]
    obtain ⟨r, h1, h2, h3, h4⟩ := setUxx_spec false sp.data _ sp.off bits W (Nat.le_refl _) h
    refine ⟨r, h1, h2, fun i => by rw [h4, Nat.min_eq_left hW64], fun hb => ?_⟩
    unfold Cpp.getF
    rw [Cpp.getU_spec W ⟨r, sp.off⟩ W hW (h3 hw), Nat.min_self]
    congr 1
    apply Nat.eq_of_testBit_eq
    intro i
    rw [testBit_fieldOf]
    by_cases hi : i < W
    · simp only [hi, decide_true, Bool.true_and]
      rw [h4, if_pos ⟨by omega, by omega⟩]; congr 1; omega
    · have : bits.testBit i = false :=
        Nat.testBit_lt_two_pow (Nat.lt_of_lt_of_le hb (Nat.pow_le_pow_right (by omega) (by omega)))
      simp [hi, this]
  · unfold Cpp.getF
    rw [Cpp.getU_spec W sp W hW hw, Nat.min_self]

/-- `bitspan::setF16` / `const_bitspan::getF16` are the 16-bit instance of the pattern moves above, through
`float16Pack` / `float16Unpack`; `const_bitspan::saturateBufferFragmentBitLength` is `min len size()`. -/
theorem C14_cpp_setF16_getF16_saturate (pack unpack : Nat → Nat) (sp : Cpp.Span) (v len : Nat) :
    Cpp.setF16 pack sp v = Cpp.setF 16 sp (pack v) ∧
    Cpp.getF16 unpack sp = (Cpp.getF 16 sp).map unpack ∧
    sp.saturate len = min len sp.size := by
  refine ⟨rfl, ?_, ?_⟩
  · unfold Cpp.getF16 Cpp.getF
    cases Cpp.getU 16 sp 16 <;> rfl
  · rw [Cpp.Span.size_eq]; simp only [Cpp.Span.saturate]; omega

/-! ## (b) Python: bookkeeping, views, forks, wrappers -/

/-- `Serializer.skip_bits(n)` (`void` fields, fragments written by a fork): on an invariant state it appends `n` zero
bits without touching the buffer; `current_bit_length` is the cursor. -/
theorem C14_py_skip_bits (s : Py.Ser) (n : Nat) (hinv : s.Inv) :
    ∃ s', Py.skipBitsZ s n = .ok s' ∧ Py.Appends s s' n (fun _ => false) ∧
      Py.currentBitLength s' = Py.currentBitLength s + n ∧ s'.buf = s.buf := by
  refine ⟨⟨s.buf, s.off + n⟩, ?_, Py.skipBits_appends s n hinv, rfl, rfl⟩
  have : ¬ ((s.off : Int) + n < 0) := by omega
  simp only [Py.skipBitsZ, this, if_false]
  congr 2

/-- `Serializer.buffer`: the first `ceil(cursor/8)` bytes; on an invariant state the bits from the cursor up to the
byte boundary are zero ("zero-bit-padded to byte"). -/
theorem C14_py_buffer_view (s : Py.Ser) (hinv : s.Inv) (hroom : (s.off + 7) / 8 ≤ s.buf.length) :
    (Py.bufferView s).length = (s.off + 7) / 8 ∧
    (∀ i, i < s.off → bitAt (Py.bufferView s) i = bitAt s.buf i) ∧
    (∀ i, s.off ≤ i → bitAt (Py.bufferView s) i = false) := by
  obtain ⟨h1, h2⟩ := Py.bufferView_spec s
  refine ⟨by omega, fun i hi => ?_, fun i hi => ?_⟩
  · rw [h2]; simp [show i / 8 < (s.off + 7) / 8 by omega]
  · rw [h2, hinv.2 i hi]; simp

/-- `Serializer.fork_bytes(k)` (delimited serialization): refused (`ValueError`) iff the cursor is not byte aligned or
fewer than `k + 1` bytes remain; otherwise the fork is a fresh invariant serializer of `k + 1` bytes at cursor 0, and
**whatever a sequence of `add_*` appends to the fork is appended to the parent** once the parent skips it
(`joinFork`: the fork writes through a view of the parent's buffer). -/
theorem C14_py_fork_serializer (s : Py.Ser) (k : Nat) (hinv : s.Inv) :
    (s.off % 8 ≠ 0 ∨ s.buf.length < s.off / 8 + k + 1 → Py.forkBytes s k = .error .usage) ∧
    (s.off % 8 = 0 → s.off / 8 + k + 1 ≤ s.buf.length →
      ∃ f, Py.forkBytes s k = .ok f ∧ f.off = 0 ∧ f.buf.length = k + 1 ∧ f.Inv ∧
        ∀ f' n bit, Py.Appends f f' n bit → Py.Appends s ⟨Py.joinFork s f', s.off + n⟩ n bit) := by
  constructor
  · intro h
    unfold Py.forkBytes
    by_cases ha : s.off % 8 = 0
    · have : s.buf.length < s.off / 8 + k + 1 := by rcases h with h | h; exact absurd ha h; exact h
      simp only [ha, ne_eq, not_true_eq_false, if_false, List.length_drop]
      rw [if_pos (by omega)]
    · simp [ha]
  · intro ha hroom
    refine ⟨_, Py.forkBytes_ok s k ha hroom, rfl, ?_, Py.fork_inv s k hinv ha, fun f' n bit happ => ?_⟩
    · simp [List.length_take, List.length_drop]; omega
    · exact Py.fork_join_appends s f' k n bit hinv ha hroom happ

/-- The float methods (`struct.pack` outside the model: `bytes` is its 2/4/8-byte result) and the bulk array methods
(`x.view(Byte)`: the array's bytes on a little-endian host) append exactly those bytes. -/
theorem C14_py_add_float_and_std_array (aligned : Bool) (s : Py.Ser) (bytes : Buf) (hinv : s.Inv) (hw : WF bytes)
    (ha : aligned = true → s.off % 8 = 0)
    (hroom : if aligned then s.off / 8 + bytes.length ≤ s.buf.length else s.off / 8 + bytes.length < s.buf.length) :
    ∃ s', Py.addFloat aligned s bytes = .ok s' ∧ Py.addStdArray aligned s bytes = .ok s' ∧
      Py.Appends s s' (8 * bytes.length) (bitAt bytes) := by
  cases aligned with
  | true =>
    obtain ⟨s', h1, h2⟩ := Py.addAlignedBytes_spec s bytes hinv (ha rfl) hw (by simpa using hroom)
    exact ⟨s', by simpa [Py.addFloat] using h1, by simpa [Py.addStdArray] using h1, h2⟩
  | false =>
    obtain ⟨s', h1, h2⟩ := Py.addUnalignedBytes_spec s bytes hinv hw (by simpa using hroom)
    exact ⟨s', by simpa [Py.addFloat] using h1, by simpa [Py.addStdArray] using h1, h2⟩

/-- `Serializer._unsigned_to_bytes` / `Deserializer._unsigned_from_bytes`. -/
theorem C14_py_unsigned_bytes_helpers (v bl : Nat) (x : Buf) (hbl : 1 ≤ bl) (hw : WF x)
    (hlen : (bl + 7) / 8 ≤ x.length) :
    (∃ bs, Py.unsignedToBytes v bl = .ok bs ∧ bs.length = (bl + 7) / 8 ∧ WF bs ∧
      ∀ i, bitAt bs i = (decide (i < bl) && v.testBit i)) ∧
    Py.unsignedFromBytes x bl = .ok (fieldOf (bitAt x) bl) ∧
    Py.unsignedToBytes v 0 = .error .usage ∧ Py.unsignedFromBytes x 0 = .error .usage :=
  ⟨Py.unsignedToBytes_spec v bl hbl, Py.unsignedFromBytes_spec x bl hw hbl hlen, by simp [Py.unsignedToBytes],
   by simp [Py.unsignedFromBytes]⟩

/-- `ZeroExtendingBuffer`: construction concatenates the fragments; `bit_length`; `get_byte` / `get_unsigned_slice`
refuse negative (and inverted) indices and otherwise zero-extend. -/
theorem C14_py_zero_extending_buffer (frags : List Buf) (buf : Buf) (i l r : Int) :
    Py.zebNew frags = frags.flatten ∧ Py.zebBitLength buf = 8 * buf.length ∧
    (i < 0 → Py.getByteZ buf i = .error .usage) ∧
    (0 ≤ i → ∃ b, Py.getByteZ buf i = .ok b ∧ (i.toNat < buf.length → buf[i.toNat]? = some b) ∧
      (buf.length ≤ i.toNat → b = 0) ∧ ∀ j, j < 8 → b.testBit j = bitAt buf (8 * i.toNat + j)) ∧
    (¬ (0 ≤ l ∧ l ≤ r) → Py.getUnsignedSliceZ buf l r = .error .usage) ∧
    (0 ≤ l → l ≤ r → ∃ out, Py.getUnsignedSliceZ buf l r = .ok out ∧ out.length = r.toNat - l.toNat ∧
      ∀ j, bitAt out j = (decide (j < 8 * (r.toNat - l.toNat)) && bitAt buf (8 * l.toNat + j))) := by
  refine ⟨rfl, by simp [Py.zebBitLength, Nat.mul_comm], fun h => by simp [Py.getByteZ, h], fun h => ?_,
    fun h => by simp [Py.getUnsignedSliceZ, h], fun h0 h1 => ?_⟩
  · refine ⟨Py.getByte buf i.toNat, by simp [Py.getByteZ, show ¬ i < 0 by omega], fun hlt => ?_, fun hge => ?_,
      fun j hj => Py.getByte_testBit buf i.toNat j hj⟩
    · simp [Py.getByte, List.getElem?_eq_getElem hlt]
    · simp [Py.getByte, List.getElem?_eq_none hge]
  · obtain ⟨out, e1, e2, _, e4⟩ := Py.slice_bits buf l.toNat r.toNat (by omega)
    exact ⟨out, by simp [Py.getUnsignedSliceZ, h0, h1, e1], e2, e4⟩

/-- `ZeroExtendingBuffer.fork_bytes` and `Deserializer.fork_bytes(k)` (delimited deserialization): refused iff the
cursor is unaligned or the `k` bytes are not all inside the buffer (an empty fork is always fine, also in the
zero-extended area); otherwise the fork is a deserializer at cursor 0 over exactly `k` bytes, showing the parent's
bits from its cursor on and **zeros beyond the `k` bytes** — whatever follows in the parent. -/
theorem C14_py_fork_deserializer (d : Py.De) (k : Nat) :
    ((d.off % 8 = 0 ∧ d.off / 8 + k ≤ d.buf.length) ∨ (d.off % 8 = 0 ∧ k = 0) →
      ∃ f, Py.deForkBytes d k = .ok f ∧ f.off = 0 ∧ f.buf.length = k ∧
        Py.remainingBitLength f = 8 * (k : Int) ∧
        ∀ i, bitAt f.buf i = (decide (i / 8 < k) && bitAt d.buf (d.off + i))) ∧
    (¬ ((d.off % 8 = 0 ∧ d.off / 8 + k ≤ d.buf.length) ∨ (d.off % 8 = 0 ∧ k = 0)) →
      Py.deForkBytes d k = .error .usage) := by
  obtain ⟨h1, h2⟩ := Py.deForkBytes_spec d k
  refine ⟨fun h => ?_, h2⟩
  obtain ⟨f, e1, e2, e3, e4⟩ := h1 h
  refine ⟨f, e1, e2, e3, ?_, e4⟩
  simp only [Py.remainingBitLength, Py.zebBitLength, e2, e3]; omega

/-- Cursor bookkeeping of the deserializer: `consumed_bit_length + remaining_bit_length = bit_length` in every state
(the constructor's assertion, kept by every operation); a new deserializer has consumed nothing; `skip_bits(n)` refuses
a negative `n` and otherwise consumes exactly `n` bits without looking at the data (also past the end: `remaining`
goes negative, the zero-extension area). -/
theorem C14_py_deserializer_bookkeeping (d : Py.De) (frags : List Buf) (n : Int) :
    (Py.consumedBitLength d : Int) + Py.remainingBitLength d = Py.zebBitLength d.buf ∧
    Py.consumedBitLength (Py.De.new frags) = 0 ∧ (Py.De.new frags).buf = frags.flatten ∧
    (n < 0 → Py.deSkipBitsZ d n = .error .usage) ∧
    (0 ≤ n → ∃ d', Py.deSkipBitsZ d n = .ok d' ∧ d'.buf = d.buf ∧
      (Py.consumedBitLength d' : Int) = Py.consumedBitLength d + n ∧
      Py.remainingBitLength d' = Py.remainingBitLength d - n) := by
  refine ⟨by simp only [Py.consumedBitLength, Py.remainingBitLength]; omega, rfl, rfl,
    fun h => by simp [Py.deSkipBitsZ, Py.ensureCardinal, h, bind, Except.bind], fun h => ?_⟩
  refine ⟨⟨d.buf, d.off + n.toNat⟩, by simp [Py.deSkipBitsZ, Py.ensureCardinal, show ¬ n < 0 by omega, bind, Except.bind],
    rfl, ?_, ?_⟩
  · simp only [Py.consumedBitLength]; omega
  · simp only [Py.remainingBitLength]; omega

/-- Every `fetch_*(count)` / `fetch_*_unsigned(bit_length)` starts with `_ensure_cardinal`: a negative argument is
refused before anything is read, a non-negative one is the operation of the first-round theorems. -/
theorem C14_py_fetch_cardinal {α : Type} (f : Py.De → Nat → Except Err α) (d : Py.De) (count : Int) :
    (count < 0 → Py.fetchZ f d count = .error .usage) ∧ (0 ≤ count → Py.fetchZ f d count = f d count.toNat) := by
  constructor
  · intro h; simp [Py.fetchZ, Py.ensureCardinal, h, bind, Except.bind]
  · intro h; simp [Py.fetchZ, Py.ensureCardinal, show ¬ count < 0 by omega, bind, Except.bind]

/-- `fetch_*_f16/32/64` hand `struct.unpack` the `W/8` bytes at the cursor (zero-extended), and
`fetch_*_array_of_standard_bit_length_primitives(dtype, count)` reinterprets `count · itemsize` such bytes; the cursor
advances by exactly that many bits; never an error, for every buffer and cursor. -/
theorem C14_py_fetch_float_and_std_array (aligned : Bool) (d : Py.De) (W itemSize count : Nat) (hw : WF d.buf)
    (ha : aligned = true → d.off % 8 = 0) :
    (∃ bs, Py.fetchFloat aligned d W = .ok (bs, ⟨d.buf, d.off + W / 8 * 8⟩) ∧ bs.length = W / 8 ∧
      ∀ i, bitAt bs i = (decide (i < 8 * (W / 8)) && bitAt d.buf (d.off + i))) ∧
    (∃ bs, Py.fetchStdArray aligned d itemSize count = .ok (bs, ⟨d.buf, d.off + itemSize * count * 8⟩) ∧
      bs.length = itemSize * count ∧
      ∀ i, bitAt bs i = (decide (i < 8 * (itemSize * count)) && bitAt d.buf (d.off + i))) := by
  cases aligned with
  | true =>
    have ha' := ha rfl
    constructor
    · obtain ⟨bs, h1, h2, _, h4⟩ := Py.fetchAlignedBytes_spec d (W / 8) ha'
      exact ⟨bs, by simpa [Py.fetchFloat] using h1, h2, h4⟩
    · obtain ⟨out, e1, e2, _, e4⟩ := Py.slice_bits d.buf (d.off / 8) (d.off / 8 + count * itemSize) (by omega)
      have el : out.length = itemSize * count := by rw [e2, Nat.mul_comm]; omega
      refine ⟨out, ?_, el, fun i => ?_⟩
      · simp [Py.fetchStdArray, Py.assertAligned, ha', e1, el, bind, Except.bind]
      · rw [e4]
        have : d.off / 8 + count * itemSize - d.off / 8 = itemSize * count := by rw [Nat.mul_comm]; omega
        rw [this]
        congr 2; omega
  | false =>
    constructor
    · obtain ⟨bs, h1, h2, _, h4⟩ := Py.fetchUnalignedBytes_spec d (W / 8) hw
      exact ⟨bs, by simpa [Py.fetchFloat] using h1, h2, h4⟩
    · obtain ⟨bs, h1, h2, _, h4⟩ := Py.fetchUnalignedBytes_spec d (itemSize * count) hw
      exact ⟨bs, by simpa [Py.fetchStdArray] using h1, h2, h4⟩

/-! ### non-vacuity (b) -/

example : setF false 32 [0, 0, 0, 0, 0] 5 3 0x3FC00000 = .ok (0, [0, 0, 0, 0xFE, 0x01]) := by decide
example : getF true 32 [0, 0, 0, 0xFE, 0x01] 5 3 = .ok 0x3FC00000 := by decide
example : getF false 64 [0xFF, 0xFF] 2 4 = .ok 0xFFF := by decide
example : setF true 64 [0, 0, 0, 0, 0, 0, 0, 0] 8 1 5 = .ok (errTooSmall, [0, 0, 0, 0, 0, 0, 0, 0]) := by decide
example : Cpp.subspan1 ⟨[1, 2, 3, 4], 5⟩ 6 = ⟨[2, 3, 4], 3⟩ := by decide
example : Cpp.subspan1 ⟨[1, 2], 5⟩ 60 = ⟨[], 1⟩ := by decide
example : Cpp.subspanBytes ⟨[1, 2, 3, 4], 8⟩ 2 = ⟨[2, 3], 0⟩ := by decide
example : Cpp.subspanBytes ⟨[1, 2, 3, 4], 24⟩ 5 = ⟨[4], 0⟩ := by decide
example : (Cpp.alignOffsetTo 32 ⟨[], 33⟩).off = 64 ∧ (Cpp.alignOffsetTo 8 ⟨[], 16⟩).off = 16 := by decide
example : Cpp.alignedRef ⟨[1, 2], 9⟩ 8 = .error .oob ∧ Cpp.alignedRef ⟨[1, 2], 9⟩ 3 = .ok 2 := by decide
example : Py.forkBytes ⟨[7, 0, 0, 0, 0], 8⟩ 2 = .ok ⟨[0, 0, 0], 0⟩ ∧ Py.forkBytes ⟨[7, 0, 0, 0, 0], 8⟩ 4 = .error .usage ∧
    Py.forkBytes ⟨[7, 0, 0, 0, 0], 9⟩ 1 = .error .usage := by decide
example : Py.joinFork ⟨[7, 0, 0, 0, 0], 8⟩ ⟨[0xAB, 0x01, 0], 9⟩ = [7, 0xAB, 0x01, 0, 0] := by decide
example : Py.deForkBytes ⟨[1, 2, 3, 4], 8⟩ 2 = .ok ⟨[2, 3], 0⟩ ∧ Py.deForkBytes ⟨[1, 2, 3, 4], 8⟩ 4 = .error .usage ∧
    Py.deForkBytes ⟨[1, 2], 64⟩ 0 = .ok ⟨[], 0⟩ ∧ Py.deForkBytes ⟨[1, 2], 64⟩ 1 = .error .usage := by decide
example : Py.remainingBitLength ⟨[1, 2], 64⟩ = -48 := by decide
example : Py.bufferView ⟨[0xFF, 0x01, 0, 0], 9⟩ = [0xFF, 0x01] := by decide

end NunavutVerif.Bits
