import NunavutVerif.Lemmas.Lexer
import NunavutVerif.Lemmas.LexerFull
import NunavutVerif.Lemmas.Autoindent
/-!
# C19 — the bundled template engine is a conservative extension of stock Jinja2

Property theorems only (definitions: `Model/Lexer.lean`, helper lemmas: `Lemmas/Lexer.lean`).
Quantifiers: all source texts, all behaviours of the (unmodified, shared) tag states, both settings of
`lstrip_blocks`, all prefixes and strings of `lineprefix`, all query valuations and `ifuses` chains.
The rest of the engine (parser, compiler, runtime) is not modelled; it is covered by the differential tie.
-/
namespace NunavutVerif.Lexer

/-- `hasMarker` is "contains one of the marker sequences of this lexer as a substring". -/
theorem C19_hasMarker_iff (cfg : Cfg) (s : Str) :
    hasMarker cfg s = true ↔
      ∃ a c b, s = a ++ '{' :: c :: '*' :: b ∧
        ((cfg.star = true ∧ (c = '{' ∨ c = '%')) ∨ (cfg.commentStar = true ∧ c = '#')) := by
  induction s with
  | nil => simp [hasMarker]
  | cons x t ih =>
    simp only [hasMarker, Bool.or_eq_true, ih]
    constructor
    · rintro (h | ⟨a, c, b, rfl, hc⟩)
      · match t, h with
        | c :: d :: b, h =>
          simp only [startsMarker] at h
          split at h
          · rename_i heq
            simp only [List.cons.injEq] at heq
            obtain ⟨rfl, rfl, rfl, rfl⟩ := heq
            refine ⟨[], _, _, rfl, ?_⟩
            simpa using h
          · simp at h
        | [], h => simp [startsMarker] at h
        | [_], h => simp [startsMarker] at h
      · exact ⟨x :: a, c, b, rfl, hc⟩
    · rintro ⟨a, c, b, hs, hc⟩
      cases a with
      | nil =>
        left
        simp only [List.nil_append, List.cons.injEq] at hs
        obtain ⟨rfl, rfl⟩ := hs
        simpa [startsMarker] using hc
      | cons y a =>
        right
        simp only [List.cons_append, List.cons.injEq] at hs
        exact ⟨a, c, b, hs.2, hc⟩

/-- T1 (one step): on a text without marker sequence the root rule of the edited lexer finds the same data,
begin kind and begin token as the rule without Nunavut's alternatives. -/
theorem C19_rootStep_eq_without_marker (cfg : Cfg) (bol : Bool) (src : Str)
    (h : hasMarker cfg src = false) :
    rootStep cfg bol src = rootStep (stock cfg.lstrip) bol src :=
  rootStep_upstream cfg bol src h

/-- T1: for EVERY source text that contains none of `{{*`, `{%*` (this includes the raw-begin variant), the
bundled lexer's scan equals the upstream scan, whatever the tag states do and for both `lstrip_blocks`
settings: the edit is invisible to ordinary templates. -/
theorem C19_bundled_eq_stock_without_marker (lstrip : Bool) (inner : Kind → Str → Option Nat)
    (fuel : Nat) (bol : Bool) (src : Str) (h : hasMarker (bundled lstrip) src = false) :
    scan (bundled lstrip) inner fuel bol src = scan (stock lstrip) inner fuel bol src :=
  scan_upstream (bundled lstrip) inner fuel bol src h

/-- T1 for the lexer as found (before the fix): the same holds once `{#*` is counted as a marker too. -/
theorem C19_beforeFix_eq_stock_without_marker (lstrip : Bool) (inner : Kind → Str → Option Nat)
    (fuel : Nat) (bol : Bool) (src : Str) (h : hasMarker (bundledBeforeFix lstrip) src = false) :
    scan (bundledBeforeFix lstrip) inner fuel bol src = scan (stock lstrip) inner fuel bol src :=
  scan_upstream (bundledBeforeFix lstrip) inner fuel bol src h

/-- T2: a marker `{{*` / `{%*` preceded by the blanks `w` (and before that by data `d` without `{` that does
not end in a blank — e.g. `d` empty or ending in a newline: the marker is preceded on its line by `[ \t]*`):
the data token is exactly `d` (the blanks are removed from it), the begin token is `w` + marker, and the
prefix the parser hands to `lineprefix` (`token.value[:-3]`) is exactly `w`.  (`{%*` followed by
`\s*raw\s*-?%}` is a raw begin instead, hence `hraw`.) -/
theorem C19_marker_captures_prefix (lstrip bol : Bool) (d w rest : Str) (c : Char)
    (hc : c = '{' ∨ c = '%')
    (hd : ∀ x ∈ d, x ≠ '{') (hlast : ∀ x, d.getLast? = some x → isBlank x = false)
    (hw : ∀ x ∈ w, isBlank x = true) (hraw : c = '%' → rawTail rest = none) :
    rootStep (bundled lstrip) bol (d ++ (w ++ '{' :: c :: '*' :: rest)) =
        some ⟨d, if c = '{' then Kind.variable else Kind.block, w ++ ['{', c, '*'], rest⟩ ∧
      autoindentPrefix (w ++ ['{', c, '*']) = w ∧
      isAutoindent (if c = '{' then Kind.variable else Kind.block) (w ++ ['{', c, '*']) = true := by
  have hm : matchAt (bundled lstrip) (bolAfter bol d) (w ++ '{' :: c :: '*' :: rest) =
      some (if c = '{' then Kind.variable else Kind.block, w.length + 3) := by
    rcases hc with rfl | rfl
    · simpa using matchAt_variable_marker (bundled lstrip) rfl _ w rest hw
    · simpa using matchAt_block_marker (bundled lstrip) rfl _ w rest hw (hraw rfl)
  have hf := findBegin_of_matchAt hm (by simp)
  have hfb := findBegin_skip_data (bundled lstrip) c d w rest hd hlast hw bol
  rw [hf] at hfb
  refine ⟨?_, ?_, ?_⟩
  · unfold rootStep
    rw [hfb]
    simp only [Option.map_some, Nat.zero_add]
    have h1 : List.take d.length (d ++ (w ++ '{' :: c :: '*' :: rest)) = d := by simp
    have h2 : List.take (w.length + 3) (List.drop d.length (d ++ (w ++ '{' :: c :: '*' :: rest))) =
        w ++ ['{', c, '*'] := by
      simp only [List.drop_left]
      rw [take_blank_marker]; rfl
    have h3 : List.drop (d.length + (w.length + 3)) (d ++ (w ++ '{' :: c :: '*' :: rest)) = rest := by
      rw [← List.drop_drop]
      simp only [List.drop_left]
      rw [drop_blank_marker]; rfl
    rw [h1, h2, h3]
  · simp [autoindentPrefix]
  · rcases hc with rfl | rfl <;> simp [isAutoindent]

/-- T3 (exact description of the code): `lineprefix` puts `p` in front of every non-empty line AND rewrites the
terminators — each becomes `\n`, the final one disappears. -/
theorem C19_lineprefix_exact (p s : Str) :
    lineprefix p s = ((normTerms (linesT s)).map fun lt => pre p lt.1 ++ lt.2).flatten := by
  unfold lineprefix splitlines
  rw [List.map_map]
  exact joinNl_eq_normTerms (pre p) (linesT s)

/-- The specification is sound as a reading of "nothing else changes": it only inserts — with the empty
prefix it returns the string itself (terminators, final newline and all). -/
theorem C19_spec_inserts_only (s : Str) : specPrefix [] s = s := by
  have h : ∀ l : Str, pre [] l = l := by intro l; simp [pre]
  have := linesT_flatten s
  unfold specPrefix
  simp only [h]
  exact this

/-
T3, full statement (NOT provable, the code violates it — see the witnesses below and REPORT.md, known
findings `lineprefix-final-newline` and `lineprefix-terminator-rewritten`):

  theorem C19_lineprefix (p s : Str) : lineprefix p s = specPrefix p s

What is missing in the `_partial` version: strings that end in a line terminator, and terminators other than `\n`.
-/

/-- T3 (partial): on strings whose only line boundary is `\n` and that do not end in one, `lineprefix p s` is
`s` with `p` in front of every non-empty line and nothing else changed. -/
theorem C19_lineprefix_partial (p s : Str) (h : plainLines s = true) :
    lineprefix p s = specPrefix p s := by
  rw [C19_lineprefix_exact]
  simp only [plainLines, Bool.and_eq_true, List.all_eq_true, Bool.or_eq_true, Bool.not_eq_true',
    decide_eq_true_eq, bne_iff_ne, ne_eq] at h
  have hn : normTerms (linesT s) = linesT s :=
    normTerms_linesT_plain s (fun c hc hb => by
      rcases h.1 c hc with h' | h'
      · rw [hb] at h'; exact absurd h' (by simp)
      · exact h') h.2
  rw [hn]; rfl

/-- T5a (`Lexer.tokeniter`, shared upstream code): without `keep_trailing_newline` the normalisation removes
exactly ONE final newline — `t` may itself end in newlines, they stay. -/
theorem C19_normalize_drops_exactly_one_newline (t : Str) (hb : ∀ c ∈ t, isBreak c = true → c = '\n') :
    normalizeSource false (t ++ ['\n']) = t := by
  unfold normalizeSource
  simp only [Bool.false_and, Bool.false_eq_true, if_false, List.append_nil]
  exact joinNl_splitlines_snoc_nl t hb

/-- T5b: with `keep_trailing_newline` (Nunavut's setting) the final newline stays. -/
theorem C19_normalize_keeps_trailing_newline (t : Str) (hb : ∀ c ∈ t, isBreak c = true → c = '\n') :
    normalizeSource true (t ++ ['\n']) = t ++ ['\n'] := by
  unfold normalizeSource
  have he : endsNl (t ++ ['\n']) = true := by simp [endsNl]
  simp only [he, Bool.and_self, if_true]
  have hne : splitlines (t ++ ['\n']) ≠ [] := by
    unfold splitlines
    simpa using linesT_ne_nil (s := t ++ ['\n']) (by simp)
  rw [joinNl_snoc_nil _ hne, joinNl_splitlines_snoc_nl t hb]

/-- T5c: a source with only `\n` line breaks and no final newline is lexed as written, under both settings. -/
theorem C19_normalize_identity (keep : Bool) (s : Str) (h : plainLines s = true) :
    normalizeSource keep s = s := by
  simp only [plainLines, Bool.and_eq_true, List.all_eq_true, Bool.or_eq_true, Bool.not_eq_true',
    decide_eq_true_eq, bne_iff_ne, ne_eq] at h
  have hb : ∀ c ∈ s, isBreak c = true → c = '\n' := fun c hc hbr => by
    rcases h.1 c hc with h' | h'
    · rw [hbr] at h'; exact absurd h' (by simp)
    · exact h'
  have he : endsNl s = false := by
    unfold endsNl
    cases hl : s.getLast? with
    | none => rfl
    | some x =>
      have hx : x ∈ s := List.mem_of_getLast? hl
      have h1 : x ≠ '\n' := by intro hx'; subst hx'; exact h.2 hl
      have h2 : x ≠ '\r' := by
        intro hx'; subst hx'
        exact absurd (hb '\r' hx (by decide)) (by decide)
      simp [h1, h2]
  unfold normalizeSource
  simp only [he, Bool.and_false, Bool.false_eq_true, if_false, List.append_nil]
  have := joinNl_eq_normTerms (fun l => l) (linesT s)
  unfold splitlines
  rw [this, normTerms_linesT_plain s hb h.2]
  exact linesT_flatten s

/-- T4a: `{% assert e %}` renders the empty string iff `e` is truthy … -/
theorem C19_assert_renders_nothing_iff_truthy (truthy : Bool) (msg : Str) :
    doAssert truthy msg = .ok [] ↔ truthy = true := by
  cases truthy <;> simp [doAssert]

/-- … and raises the assertion error with its message otherwise (it never renders anything else). -/
theorem C19_assert_raises_otherwise (truthy : Bool) (msg : Str) :
    (truthy = false → doAssert truthy msg = .error (.assertion msg)) ∧
      (∀ out, doAssert truthy msg = .ok out → out = []) := by
  cases truthy <;> simp [doAssert]

/-- T4b: whatever `UseQuery.parse` builds for a chain `ifuses/ifnuses … elifuses/elifnuses … else … end`
evaluates as the ordinary `if / elif / else` over the query results, negated for the `…nuses` tags; an
undefined query raises when (and only when) its clause is reached. -/
theorem C19_ifuses_is_if_elif_else (q : Str → Option Bool) (openNegate : Bool) (name body : Str)
    (segs : List Seg) (node : IfNode) (h : parseUses openNegate name body segs = .ok node) :
    evalIf q node =
      ifElifElse ((clausesOf openNegate name body segs).map fun c => (useQuery q c.1 c.2.1, c.2.2))
        (elseOf segs) := by
  unfold parseUses at h
  split at h
  · rename_i ng n b cs e hp
    simp at h; subst h
    obtain ⟨h1, h2⟩ := parseLoop_ok hp
    unfold evalIf
    simp only
    rw [evalClauses_eq_ifElifElse, h1, h2]
  · simp at h
  · simp at h

/-! ## Round 2: the whole state machine of the lexer (`Model/LexerFull.lean`)

`lexF` is `Lexer.tokeniter` from the root state with every tag state concrete (block / variable / line statement
tokenisation with brace balancing, comments, raw blocks, line comments, `-` / `+` signs, `trim_blocks`,
`lstrip_blocks`, line statement / comment prefixes), `tokeniter` adds the source normalisation, `tokenize` adds
`Lexer.wrap` (what the parser sees).  `Tables` (character classes of names / digits, operator list) are arbitrary. -/

/-- T1, whole lexer, every environment setting: on a text without marker sequence the edited lexer produces the
same token stream as the lexer without Nunavut's alternatives, from any root-state position. -/
theorem C19_lexer_eq_stock_without_marker (e : Env) (tb : Tables) (fuel : Nat) (prev : Option Char) (src : Str)
    (h : hasMarker e.cfg src = false) : lexF e tb fuel prev src = lexF e.upstream tb fuel prev src :=
  lexF_upstream e tb fuel prev src h

/-- T1 for `Lexer.tokeniter` / `Lexer.tokenize` on the template source as written (before normalisation): for every
source without `{{*` / `{%*`, every `trim_blocks`, `lstrip_blocks`, `keep_trailing_newline`, `newline_sequence`,
line statement and line comment prefix, the token stream with line numbers — and what `wrap` hands to the parser,
including which begin tokens the parser would wrap in `lineprefix` — is the upstream one. -/
theorem C19_tokeniter_eq_stock_without_marker (e : Env) (tb : Tables) (keep : Bool) (seq source : Str)
    (h : hasMarker e.cfg source = false) :
    tokeniter e tb keep source = tokeniter e.upstream tb keep source ∧
      tokenize e tb keep seq source = tokenize e.upstream tb keep seq source := by
  have := tokeniter_upstream e tb keep source h
  exact ⟨this, by unfold tokenize; rw [this]⟩

/-- The states entered by a begin token are upstream code: what they tokenise does not depend on the edit, and a
block / variable state does not see whether its begin token ended in `*` (the only look-behind, `(?<!\.)` of the
float rule, asks for a dot). -/
theorem C19_tag_state_ignores_the_marker (e : Env) (tb : Tables) (hops : ∀ op ∈ tb.operators, op ≠ [])
    (c : Char) (hc : c = '{' ∨ c = '%') (rest : Str) :
    innerF e.lstrip e.trim tb (kindOf c).toR (some '*') rest =
      innerF e.upstream.lstrip e.upstream.trim tb (kindOf c).toR (some c) rest := by
  have hk : (kindOf c).toR = .variable ∨ (kindOf c).toR = .block := by
    rcases hc with rfl | rfl
    · left; rfl
    · right; rfl
  have hp : ((some '*' : Option Char) != some '.') = ((some c : Option Char) != some '.') := by
    rcases hc with rfl | rfl <;> decide
  exact innerF_prev e.lstrip e.trim tb hops _ hk _ _ rest hp

/-- T2 for whole token streams (Nunavut's settings: no line statement / comment prefixes).  Source
`d w {c* rest` (marker) against `d w {c rest` (the plain construct; `rest` does not begin with a sign), `d` data
without `{` that does not end in a blank, `w` blanks.  Tokenised from the same root-state position by the bundled
lexer, the two streams are

    marker:  data d            , begin (w{c*) , K
    plain:   data (d w)        , begin ({c)   , K        (or  data d, begin (w{c), K  when `lstrip_blocks`
                                                          strips the blanks of a block at the start of a line)

with the SAME continuation `K` (tokens of the tag up to its end token, then the rest of the template): (a) the begin
token is rewritten, (b) the captured blanks are removed from the preceding data token (an empty data token is not
emitted), and nothing else changes.  (`{%*` followed by `\s*raw\s*-?%}` is a raw begin instead, hence `hraw`.) -/
theorem C19_marker_rewrites_two_tokens (e : Env) (tb : Tables) (hs : e.star = true) (hl : e.noLinePrefixes)
    (hops : ∀ op ∈ tb.operators, op ≠ [])
    (fuel : Nat) (prev : Option Char) (c : Char) (d w rest : Str) (hc : c = '{' ∨ c = '%')
    (hd : ∀ x ∈ d, x ≠ '{') (hlast : ∀ x, d.getLast? = some x → isBlank x = false)
    (hw : ∀ x ∈ w, isBlank x = true) (ht : noSign rest) (hraw : c = '%' → rawTail rest = none) :
    let K := (innerF e.lstrip e.trim tb (kindOf c).toR (some c) rest).andThen (lexF e tb fuel)
    let b := (kindOf c).toR.beginTT
    lexF e tb (fuel + 1) prev (d ++ (w ++ '{' :: c :: '*' :: rest)) =
        optTok .data d ++ .tok b (w ++ ['{', c, '*']) :: K ∧
      lexF e tb (fuel + 1) prev (d ++ (w ++ '{' :: c :: rest)) =
        (if (e.lstrip && bolAfter (isBol prev) d && c == '%') = true
          then optTok .data d ++ [.tok b (w ++ ['{', c])]
          else optTok .data (d ++ w) ++ [.tok b ['{', c]]) ++ K := by
  intro K b
  refine ⟨?_, lexF_plain e tb hl.1 hl.2 fuel prev c d w rest hc hd hlast hw ht hraw⟩
  rw [lexF_marker e tb hs hl.1 hl.2 fuel prev c d w rest hc hd hlast hw hraw,
    C19_tag_state_ignores_the_marker e tb hops c hc rest]
  rfl

/-- … and the plain construct is tokenised by the lexer WITHOUT Nunavut's alternatives exactly as by the bundled
one when no further marker follows: the stream of the marker construct is the upstream stream of the plain
construct with the two tokens rewritten. -/
theorem C19_marker_stream_vs_stock_plain (e : Env) (tb : Tables) (hl : e.noLinePrefixes)
    (fuel : Nat) (prev : Option Char) (c : Char) (d w rest : Str) (hc : c = '{' ∨ c = '%')
    (hd : ∀ x ∈ d, x ≠ '{') (hlast : ∀ x, d.getLast? = some x → isBlank x = false)
    (hw : ∀ x ∈ w, isBlank x = true) (ht : noSign rest) (hraw : c = '%' → rawTail rest = none)
    (hm : hasMarker e.cfg ('{' :: c :: rest) = false) :
    lexF e.upstream tb (fuel + 1) prev (d ++ (w ++ '{' :: c :: rest)) =
      (if (e.lstrip && bolAfter (isBol prev) d && c == '%') = true
        then optTok .data d ++ [.tok (kindOf c).toR.beginTT (w ++ ['{', c])]
        else optTok .data (d ++ w) ++ [.tok (kindOf c).toR.beginTT ['{', c]]) ++
        (innerF e.lstrip e.trim tb (kindOf c).toR (some c) rest).andThen (lexF e tb fuel) := by
  have hno : hasMarker e.cfg (d ++ (w ++ '{' :: c :: rest)) = false := by
    rw [hasMarker_append_noBrace e.cfg d _ hd,
      hasMarker_append_noBrace e.cfg w _ (fun x hx => (ne_brace_of_isBlank (hw x hx)).symm), hm]
  rw [← lexF_upstream e tb (fuel + 1) prev _ hno]
  exact lexF_plain e tb hl.1 hl.2 fuel prev c d w rest hc hd hlast hw ht hraw

/-! ## Round 2: `Parser.subparse` autoindent wrapping composed with `lineprefix` (`Model/Autoindent.lean`) -/

/-- What `subparse` (repaired: the marker is the start string followed by `*`) does with a begin token: `{{* e }}` at
indentation `w` (begin token `w{{*`, T2) becomes the `lineprefix` filter with argument exactly `w` around the expression and
renders as `lineprefix w (output of e)`; a statement `{%* … %}` becomes a filter block and renders as
`lineprefix w (output of the statement)`; a begin token that is not a marker is not wrapped; a `*` on an end /
intermediate tag (`{%* endif %}`) is ignored — the enclosing statement is closed exactly as by the plain tag. -/
theorem C19_subparse_wraps_marked_constructs (bo : Str → Option (List Str × Str)) (V : Val) (fuel : Nat)
    (ends : List Str) (w e : Str) (v name arg : Str) (n : Node) (is : List Item) :
    (subparse (repaired bo) (fuel + 1) ends (.var (w ++ ['{', '{', '*']) e :: is) =
        (match subparse (repaired bo) fuel ends is with
         | .ok (ns, e', r) => .ok (.exprWrapped w e :: ns, e', r)
         | .error x => .error x)) ∧
      renderNode V (.exprWrapped w e) = lineprefix w (V.expr e) ∧
      renderNode V (wrapStmt (repaired bo) (w ++ ['{', '%', '*']) n) = lineprefix w (renderNode V n) ∧
      (markerTest true v = false →
        subparse (repaired bo) (fuel + 1) ends (.var v e :: is) =
            (match subparse (repaired bo) fuel ends is with
             | .ok (ns, e', r) => .ok (.expr e :: ns, e', r)
             | .error x => .error x)) ∧
      (markerTest false v = false → wrapStmt (repaired bo) v n = n) ∧
      (ends.contains name = true →
        subparse (repaired bo) (fuel + 1) ends (.tag v name arg :: is) = .ok ([], some name, is)) := by
  refine ⟨?_, ?_, ?_, ?_, ?_, ?_⟩
  · simp only [subparse, repaired, markerTest_variable, autoindentPrefix_marker, if_true]
    cases subparse ⟨bo, markerTest⟩ fuel ends is with
    | error x => rfl
    | ok r => obtain ⟨ns, e', r⟩ := r; rfl
  · simp [renderNode]
  · simp [wrapStmt, repaired, markerTest_block, autoindentPrefix_marker, renderNode, renderNodes]
  · intro hv
    simp only [subparse, repaired, hv, Bool.false_eq_true, if_false]
    cases subparse ⟨bo, markerTest⟩ fuel ends is with
    | error x => rfl
    | ok r => obtain ⟨ns, e', r⟩ := r; rfl
  · intro hv; exact wrapStmt_noStar n hv
  · intro hn
    simp only [subparse, hn, if_true]

/-- Sentence 1 for the PARSER edit, EVERY environment setting whose line statement prefix does not itself end in `{%*`
(in particular prefixes that merely end in `*`, like `//*`): in the token stream of a source without `{{*` / `{%*` no
begin token is a marker for the parser (the upstream alternatives end in `-`, `+`, or the last character of the start
string; a line statement begin ends in its prefix; raw begin tokens never reach the parser), so `Parser.subparse` builds
no `lineprefix` wrapper anywhere — the tree is the one the unedited parser builds — and the whole model pipeline
source → text is the same with the upstream lexer.  (For the parser as found — marker test `endswith('*')` — this is
FALSE under a line statement prefix ending in `*`: see the witnesses below.) -/
theorem C19_parser_edit_invisible_without_marker (e : Env) (hP : ∀ p, e.lineStmt = some p → isBlockMarker p = false)
    (tb : Tables) (bo : Str → Option (List Str × Str)) (keep : Bool) (seq source : Str)
    (h : hasMarker e.cfg source = false) :
    (∀ p ∈ tokenize e tb keep seq source, parserWraps p = false) ∧
      (∀ items ns, groupItems none (tokenize e tb keep seq source) = some items →
        parseItems (repaired bo) items = .ok ns → wrapperFreeL ns = true) ∧
      (∀ st V, renderTemplate e tb st V keep seq source = renderTemplate e.upstream tb st V keep seq source) := by
  have hno := tokenize_no_parserWraps e hP tb keep seq source h
  refine ⟨hno, ?_, ?_⟩
  · intro items ns hg hp
    exact parseItems_wrapperFree bo items
      (groupItems_noStar none _ items hg hno (by intro b v acc hc; cases hc)) ns hp
  · intro st V
    unfold renderTemplate
    rw [(C19_tokeniter_eq_stock_without_marker e tb keep seq source h).2]

/-- `lineprefix` on a text given by its lines (no line boundary inside a line): every non-empty line gets the prefix,
lines are joined by `\n`, and a final empty line (= the text ended in a terminator) disappears. -/
theorem C19_lineprefix_lines (p : Str) (ls : List Str) (h : ∀ l ∈ ls, breakFree l) :
    lineprefix p (joinNl ls) = joinNl ((dropTrailingEmpty ls).map (pre p)) :=
  lineprefix_joinNl p ls h

/-- Nested markers, exact law: the prefixes ACCUMULATE (outer ++ inner), and each of the two applications drops one
final line terminator.  `p2` is a captured prefix: blanks, in particular without line boundary. -/
theorem C19_lineprefix_nested (p1 p2 x : Str) (hp : breakFree p2) :
    lineprefix p1 (lineprefix p2 x) = lineprefix (p1 ++ p2) (lineprefix [] x) :=
  lineprefix_lineprefix p1 p2 x hp

/-- Nested markers in context: an inner marked construct at indentation `p2` that contributes the lines `lx` (already
prefixed: `lx.map (pre p2)`) to the body of an outer marked block at indentation `p1`, between the lines `la` and
`lb` of that body.  In the output of the outer block the inner lines carry `p1 ++ p2`, the other lines `p1`, empty
lines nothing (the body does not end in an empty line — else that line disappears, see `C19_lineprefix_lines`). -/
theorem C19_lineprefix_prefixes_accumulate (p1 p2 : Str) (la lx lb : List Str) (hp : breakFree p2)
    (ha : ∀ l ∈ la, breakFree l) (hx : ∀ l ∈ lx, breakFree l) (hb : ∀ l ∈ lb, breakFree l)
    (hlast : (la ++ lx ++ lb).getLast? ≠ some []) :
    lineprefix p1 (joinNl (la ++ lx.map (pre p2) ++ lb)) =
      joinNl (la.map (pre p1) ++ lx.map (pre (p1 ++ p2)) ++ lb.map (pre p1)) :=
  lineprefix_context p1 p2 la lx lb hp ha hx hb hlast

/-- Output ending in a line terminator (known finding F15c, exact form): appending ONE terminator to an output that
does not end in one changes nothing — the marked construct renders as if the terminator were not there. -/
theorem C19_lineprefix_final_terminator_dropped (p x : Str) (c : Char) (hc : isBreak c = true)
    (hlast : ∀ y, x.getLast? = some y → isBreak y = false) :
    lineprefix p (x ++ [c]) = lineprefix p x :=
  lineprefix_snoc_break p x c hc hlast

/-- Empty output: a marked construct that prints nothing renders nothing (and the captured blanks are gone from the
data, T2); more generally output without a non-empty line gets no prefix anywhere. -/
theorem C19_lineprefix_empty_output (p x : Str) :
    lineprefix p [] = [] ∧ ((∀ l ∈ splitlines x, l = []) → lineprefix p x = lineprefix [] x) :=
  ⟨by simp [lineprefix, splitlines, linesT, joinNl], lineprefix_all_empty p x⟩

/-! ## Round 2: glue around the extensions and the environment (`extensions.py`, `environment.py`) -/

/-- `{% assert e %}` / `{% assert e, m %}`: a falsy `e` raises with the given message — or the default one when none is
given — and with the line of the tag and the name of the template that contains it; a truthy `e` renders nothing. -/
theorem C19_assert_reports_message_line_and_template (truthy : Bool) (given : Option Str) (lineno : Nat) (name : Str) :
    (truthy = false → doAssertAt truthy given lineno name =
        .error ⟨given.getD "Template assertion failed.".toList, lineno, name⟩) ∧
      (truthy = true → doAssertAt truthy given lineno name = .ok []) := by
  cases truthy <;> simp [doAssertAt, assertMessage]

/-- The argument of `ifuses` / `ifnuses` / `elifuses` / `elifnuses` is an expression: `None` raises the template
assertion error and a non-string raises `TypeError` for BOTH polarities (the negation is applied to the result of
`_use_query_common`, after it raised); a string is looked up in the target language's `uses_queries` namespace and
the clause is `negate xor query()`, an unknown name is `UndefinedError`. -/
theorem C19_use_query_argument (q : Str → Option Bool) (negate : Bool) (s : Str) :
    useQueryV q negate .none_ = .error .unknownQueryName ∧ useQueryV q negate .other = .error .typeError ∧
      (q s = none → useQueryV q negate (.str s) = .error (.undefinedQuery s)) ∧
      (∀ b, q s = some b → useQueryV q negate (.str s) = .ok (negate != b)) := by
  refine ⟨rfl, rfl, ?_, ?_⟩
  · intro h; simp [useQueryV, useQuery, h]
  · intro b h; cases negate <;> cases b <;> simp [useQueryV, useQuery, h]

/-- Every environment `CodeGenEnvironmentBuilder` can create (any `set_trim_blocks` / `set_lstrip_blocks`) has the
default delimiters, no line statement / line comment prefix and `keep_trailing_newline`: the lexer of every Nunavut
environment is `lexF` at an `Env` that satisfies the hypotheses of the marker theorems. -/
theorem C19_builder_environments_meet_the_lexer_model (b : BuilderState) :
    let s := builderSettings b
    (s.blockStart, s.blockEnd, s.variableStart, s.variableEnd, s.commentStart, s.commentEnd) =
        ("{%".toList, "%}".toList, "{{".toList, "}}".toList, "{#".toList, "#}".toList) ∧
      s.keepTrailingNewline = true ∧ s.newlineSequence = "\n".toList ∧
      (⟨true, false, s.lstripBlocks, s.trimBlocks, s.lineStatementPrefix, s.lineCommentPrefix⟩ : Env).noLinePrefixes ∧
      s.trimBlocks = b.trim ∧ s.lstripBlocks = b.lstrip := by
  simp [builderSettings, Env.noLinePrefixes]

/-! ## Non-vacuity and negation witnesses -/

-- T1 is not vacuous and its hypothesis is needed: with a marker the scans differ.
example : hasMarker (bundled false) "a {% if x %} b {{ y }}".toList = false := by decide
example : rootStep (bundled false) true "  {{* x }}".toList ≠ rootStep (stock false) true "  {{* x }}".toList := by
  decide
-- the lexer as found: a comment that merely starts with `*` loses the blanks in front of it (F15) …
example : rootStep (bundledBeforeFix false) true "  {#* note #}x".toList =
    some ⟨[], .comment, "  {#*".toList, " note #}x".toList⟩ := by decide
-- … upstream and the repaired lexer keep them in the data:
example : rootStep (stock false) true "  {#* note #}x".toList =
    some ⟨"  ".toList, .comment, "{#".toList, "* note #}x".toList⟩ := by decide
example : rootStep (bundled false) true "  {#* note #}x".toList =
    rootStep (stock false) true "  {#* note #}x".toList := by decide
-- T2: an instance, and the same text with a plain tag keeps the blanks in the data
example : rootStep (bundled false) true "ab\n  {%* include x %}".toList =
    some ⟨"ab\n".toList, .block, "  {%*".toList, " include x %}".toList⟩ := by decide
example : rootStep (bundled false) true "ab\n  {% include x %}".toList =
    some ⟨"ab\n  ".toList, .block, "{%".toList, " include x %}".toList⟩ := by decide
-- `{%* raw %}` is a raw begin: nothing will be prefixed (known finding `marker-raw-not-prefixed`)
example : (rootStep (bundled false) true "  {%* raw %}x{% endraw %}".toList).map (·.kind) = some .raw := by decide
-- T3: negation of the full statement, one witness per defect class
example : lineprefix [] "a\n".toList ≠ specPrefix [] "a\n".toList := by decide
example : lineprefix " ".toList "a\r\nb".toList ≠ specPrefix " ".toList "a\r\nb".toList := by decide
example : lineprefix " ".toList "a\x0cb".toList = " a\n b".toList := by decide
example : lineprefix "  ".toList "a\n\nb".toList = "  a\n\n  b".toList ∧ plainLines "a\n\nb".toList = true := by decide
-- T5: two final newlines, one is removed (not both); exotic boundaries become `\n` (upstream 2.x behaviour)
example : normalizeSource false "a\n\n".toList = "a\n".toList ∧ normalizeSource true "a\r\n\r".toList = "a\n\n".toList ∧
    normalizeSource false "a\x0cb".toList = "a\nb".toList := by decide
-- T4
example : doAssert false "m".toList = .error (.assertion "m".toList) := by rfl
example : parseUses true "a".toList "A".toList [⟨.elifuses, "b".toList, "B".toList⟩, ⟨.else_, [], "C".toList⟩, ⟨.end_, [], []⟩]
    = .ok ⟨true, "a".toList, "A".toList, [(false, "b".toList, "B".toList)], "C".toList⟩ := by rfl

-- Round 2: the whole lexer.  A marker construct and its plain form, tokenised by the bundled lexer (ASCII tables):
def envN (star lstrip trim : Bool) : Env := ⟨star, false, lstrip, trim, none, none⟩
example : lexF (envN true false false) asciiTables 20 none "a\n  {{* x }}b".toList =
    [.tok .data "a\n".toList, .tok .variableBegin "  {{*".toList, .tok .whitespace " ".toList, .tok .name "x".toList,
     .tok .whitespace " ".toList, .tok .variableEnd "}}".toList, .tok .data "b".toList] := by decide +kernel
example : lexF (envN true false false) asciiTables 20 none "a\n  {{ x }}b".toList =
    [.tok .data "a\n  ".toList, .tok .variableBegin "{{".toList, .tok .whitespace " ".toList, .tok .name "x".toList,
     .tok .whitespace " ".toList, .tok .variableEnd "}}".toList, .tok .data "b".toList] := by decide +kernel
-- lstrip_blocks strips the blanks of a plain block at the start of a line; the marker captures them either way
example : lexF (envN true true true) asciiTables 20 none "  {% x %}\nb".toList =
    [.tok .blockBegin "  {%".toList, .tok .whitespace " ".toList, .tok .name "x".toList,
     .tok .whitespace " ".toList, .tok .blockEnd "%}\n".toList, .tok .data "b".toList] := by decide +kernel
-- the upstream lexer reads `{{*` as `{{` followed by the operator `*`; braces inside the tag are balanced
example : lexF (envN false false false) asciiTables 20 none "  {{* {1:2}}}".toList =
    [.tok .data "  ".toList, .tok .variableBegin "{{".toList, .tok .operator "*".toList, .tok .whitespace " ".toList,
     .tok .operator "{".toList, .tok .integer "1".toList, .tok .operator ":".toList, .tok .integer "2".toList,
     .tok .operator "}".toList, .tok .variableEnd "}}".toList] := by decide +kernel
-- `{%* raw %}`: the begin token is a raw begin, `wrap` drops it — the parser never sees a marker (known finding)
example : tokenize (envN true false false) asciiTables true "\n".toList "  {%* raw %}x{% endraw %}".toList =
    [.tok 1 .data "x".toList] := by decide +kernel
-- … whereas for `{%* if %}` the parser-visible begin token ends in `*` (and only that one is wrapped)
example : (tokenize (envN true false false) asciiTables true "\n".toList "  {%* if y %}".toList).map parserWraps =
    [true, false, false, false] := by decide +kernel
-- T1 needs its hypothesis, also for the whole lexer
example : lexF (envN true false false) asciiTables 20 none " {%* x %}".toList ≠
    lexF (envN true false false).upstream asciiTables 20 none " {%* x %}".toList := by decide +kernel
-- line statements / line comments (not configured by Nunavut, covered by T1 all the same)
example : lexF ⟨true, false, false, false, some "%%".toList, some "##".toList⟩ asciiTables 20 none "%% if x\na ## c".toList =
    [.tok .lstmtBegin "%%".toList, .tok .whitespace " ".toList, .tok .name "if".toList, .tok .whitespace " ".toList,
     .tok .name "x".toList, .tok .lstmtEnd "\n".toList, .tok .data "a".toList, .tok .lcmtBegin " ##".toList,
     .tok .lcmt " c".toList, .tok .lcmtEnd []] := by decide +kernel

-- Round 2, subparse + lineprefix end to end on the model (lexer → items → subparse → render)
def valX : Val := ⟨fun e => if e = "v".toList then "a\nb".toList else "?".toList, fun _ => true, fun _ => 2, fun _ _ => []⟩
example : renderTemplate (envN true false false) asciiTables coreStmts valX true "\n".toList "x:\n  {{* v }}!".toList =
    some "x:\n  a\n  b!".toList := by decide +kernel
-- nested: outer block at 2 blanks, inner expression at 1 blank: inner lines carry 3 blanks
example : renderTemplate (envN true false false) asciiTables coreStmts valX true "\n".toList
    "  {%* if c %}\nk\n {{* v }}\n{% endif %}".toList = some "\n  k\n   a\n   b".toList := by decide +kernel
-- a `*` on the end tag is ignored; without markers nothing is wrapped
example : renderTemplate (envN true false false) asciiTables coreStmts valX true "\n".toList
    "{% if c %}k{%* endif %}|".toList = some "k|".toList := by decide +kernel
-- the parser edit is invisible without marker (wrapper-free tree) and visible with one
def treeOf (src : String) : Option (List Node) :=
  match groupItems none (tokenize (envN true false false) asciiTables true "\n".toList src.toList) with
  | some is => (match parseItems coreStmts is with | .ok ns => some ns | .error _ => none)
  | none => none
example : (treeOf "a {%- if c %} x{{ v * 2 }}{% else %}{% include 'p' %}{% endif %}").map wrapperFreeL = some true := by decide +kernel
example : (treeOf "a {% if c %}\n  {{* v }}{% endif %}").map wrapperFreeL = some false := by decide +kernel
-- the parser as found (marker test `endswith('*')`): under `line_statement_prefix = '//*'` every line statement is taken for an
-- auto-indent block — a template WITHOUT marker renders differently (genuine defect, fix_marker_is_start_plus_star); repaired: as upstream
def envLS : Env := ⟨true, false, false, false, some "//*".toList, none⟩
def valL : Val := ⟨fun _ => "1".toList, fun _ => true, fun _ => 2, fun _ _ => []⟩
example : hasMarker envLS.cfg "//* for x in xs\n{{ x }}\n//* endfor\nend".toList = false := by decide
example : renderTemplate envLS asciiTables coreStmtsBeforeFix valL true "\n".toList "//* for x in xs\n{{ x }}\n//* endfor\nend".toList =
    some "1\n1end".toList := by decide +kernel
example : renderTemplate envLS asciiTables coreStmts valL true "\n".toList "//* for x in xs\n{{ x }}\n//* endfor\nend".toList =
    some "1\n1\nend".toList := by decide +kernel
example : (tokenize envLS asciiTables true "\n".toList "  //* if c".toList).map parserWrapsBeforeFix = [true, false, false, false] ∧
    (tokenize envLS asciiTables true "\n".toList "  //* if c".toList).map parserWraps = [false, false, false, false] := by decide +kernel
-- the two composition laws at work, and why the exact laws need their side conditions
example : lineprefix " ".toList (lineprefix "\t".toList "a\n\nb".toList) = " \ta\n\n \tb".toList := by decide +kernel
example : lineprefix " ".toList (lineprefix "\t".toList "a\n\n".toList) = " \ta".toList ∧
    lineprefix " \t".toList "a\n\n".toList = " \ta\n".toList := by decide +kernel
example : lineprefix "  ".toList "a\n".toList = lineprefix "  ".toList "a".toList := by decide +kernel
example : lineprefix "  ".toList "\n\n".toList = "\n".toList := by decide +kernel

end NunavutVerif.Lexer
