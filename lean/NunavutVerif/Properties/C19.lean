import NunavutVerif.Lemmas.Lexer
/-!
# C19 — the bundled template engine is a conservative extension of stock Jinja2

Property theorems only (definitions: `Model/Lexer.lean`, helper lemmas: `Lemmas/Lexer.lean`).
Quantifiers: all source texts, all behaviours of the (unmodified, shared) tag states, both settings of
`lstrip_blocks`, all prefixes and strings of `lineprefix`, all query valuations and `ifuses` chains.
The rest of the engine (parser, compiler, runtime) is not modelled; it is covered by the differential tie.
-/
namespace NunavutVerif.Lexer

/-- `hasMarker` is "contains one of the marker sequences of this lexer as a substring". -/
theorem C19_hasMarker_iff (cfg : Cfg) (s : Str) :
    hasMarker cfg s = true ↔
      ∃ a c b, s = a ++ '{' :: c :: '*' :: b ∧
        ((cfg.star = true ∧ (c = '{' ∨ c = '%')) ∨ (cfg.commentStar = true ∧ c = '#')) := by
  induction s with
  | nil => simp [hasMarker]
  | cons x t ih =>
    simp only [hasMarker, Bool.or_eq_true, ih]
    constructor
    · rintro (h | ⟨a, c, b, rfl, hc⟩)
      · match t, h with
        | c :: d :: b, h =>
          simp only [startsMarker] at h
          split at h
          · rename_i heq
            simp only [List.cons.injEq] at heq
            obtain ⟨rfl, rfl, rfl, rfl⟩ := heq
            refine ⟨[], _, _, rfl, ?_⟩
            simpa using h
          · simp at h
        | [], h => simp [startsMarker] at h
        | [_], h => simp [startsMarker] at h
      · exact ⟨x :: a, c, b, rfl, hc⟩
    · rintro ⟨a, c, b, hs, hc⟩
      cases a with
      | nil =>
        left
        simp only [List.nil_append, List.cons.injEq] at hs
        obtain ⟨rfl, rfl⟩ := hs
        simpa [startsMarker] using hc
      | cons y a =>
        right
        simp only [List.cons_append, List.cons.injEq] at hs
        exact ⟨a, c, b, hs.2, hc⟩

/-- T1 (one step): on a text without marker sequence the root rule of the edited lexer finds the same data,
begin kind and begin token as the rule without Nunavut's alternatives. -/
theorem C19_rootStep_eq_without_marker (cfg : Cfg) (bol : Bool) (src : Str)
    (h : hasMarker cfg src = false) :
    rootStep cfg bol src = rootStep (stock cfg.lstrip) bol src :=
  rootStep_upstream cfg bol src h

/-- T1: for EVERY source text that contains none of `{{*`, `{%*` (this includes the raw-begin variant), the
bundled lexer's scan equals the upstream scan, whatever the tag states do and for both `lstrip_blocks`
settings: the edit is invisible to ordinary templates. -/
theorem C19_bundled_eq_stock_without_marker (lstrip : Bool) (inner : Kind → Str → Option Nat)
    (fuel : Nat) (bol : Bool) (src : Str) (h : hasMarker (bundled lstrip) src = false) :
    scan (bundled lstrip) inner fuel bol src = scan (stock lstrip) inner fuel bol src :=
  scan_upstream (bundled lstrip) inner fuel bol src h

/-- T1 for the lexer as found (before the fix): the same holds once `{#*` is counted as a marker too. -/
theorem C19_beforeFix_eq_stock_without_marker (lstrip : Bool) (inner : Kind → Str → Option Nat)
    (fuel : Nat) (bol : Bool) (src : Str) (h : hasMarker (bundledBeforeFix lstrip) src = false) :
    scan (bundledBeforeFix lstrip) inner fuel bol src = scan (stock lstrip) inner fuel bol src :=
  scan_upstream (bundledBeforeFix lstrip) inner fuel bol src h

/-- T2: a marker `{{*` / `{%*` preceded by the blanks `w` (and before that by data `d` without `{` that does
not end in a blank — e.g. `d` empty or ending in a newline: the marker is preceded on its line by `[ \t]*`):
the data token is exactly `d` (the blanks are removed from it), the begin token is `w` + marker, and the
prefix the parser hands to `lineprefix` (`token.value[:-3]`) is exactly `w`.  (`{%*` followed by
`\s*raw\s*-?%}` is a raw begin instead, hence `hraw`.) -/
theorem C19_marker_captures_prefix (lstrip bol : Bool) (d w rest : Str) (c : Char)
    (hc : c = '{' ∨ c = '%')
    (hd : ∀ x ∈ d, x ≠ '{') (hlast : ∀ x, d.getLast? = some x → isBlank x = false)
    (hw : ∀ x ∈ w, isBlank x = true) (hraw : c = '%' → rawTail rest = none) :
    rootStep (bundled lstrip) bol (d ++ (w ++ '{' :: c :: '*' :: rest)) =
        some ⟨d, if c = '{' then Kind.variable else Kind.block, w ++ ['{', c, '*'], rest⟩ ∧
      autoindentPrefix (w ++ ['{', c, '*']) = w ∧
      isAutoindent (if c = '{' then Kind.variable else Kind.block) (w ++ ['{', c, '*']) = true := by
  have hm : matchAt (bundled lstrip) (bolAfter bol d) (w ++ '{' :: c :: '*' :: rest) =
      some (if c = '{' then Kind.variable else Kind.block, w.length + 3) := by
    rcases hc with rfl | rfl
    · simpa using matchAt_variable_marker (bundled lstrip) rfl _ w rest hw
    · simpa using matchAt_block_marker (bundled lstrip) rfl _ w rest hw (hraw rfl)
  have hf := findBegin_of_matchAt hm (by simp)
  have hfb := findBegin_skip_data (bundled lstrip) c d w rest hd hlast hw bol
  rw [hf] at hfb
  refine ⟨?_, ?_, ?_⟩
  · unfold rootStep
    rw [hfb]
    simp only [Option.map_some, Nat.zero_add]
    have h1 : List.take d.length (d ++ (w ++ '{' :: c :: '*' :: rest)) = d := by simp
    have h2 : List.take (w.length + 3) (List.drop d.length (d ++ (w ++ '{' :: c :: '*' :: rest))) =
        w ++ ['{', c, '*'] := by
      simp only [List.drop_left]
      rw [take_blank_marker]; rfl
    have h3 : List.drop (d.length + (w.length + 3)) (d ++ (w ++ '{' :: c :: '*' :: rest)) = rest := by
      rw [← List.drop_drop]
      simp only [List.drop_left]
      rw [drop_blank_marker]; rfl
    rw [h1, h2, h3]
  · simp [autoindentPrefix]
  · rcases hc with rfl | rfl <;> simp [isAutoindent]

/-- T3 (exact description of the code): `lineprefix` puts `p` in front of every non-empty line AND rewrites the
terminators — each becomes `\n`, the final one disappears. -/
theorem C19_lineprefix_exact (p s : Str) :
    lineprefix p s = ((normTerms (linesT s)).map fun lt => pre p lt.1 ++ lt.2).flatten := by
  unfold lineprefix splitlines
  rw [List.map_map]
  exact joinNl_eq_normTerms (pre p) (linesT s)

/-- The specification is sound as a reading of "nothing else changes": it only inserts — with the empty
prefix it returns the string itself (terminators, final newline and all). -/
theorem C19_spec_inserts_only (s : Str) : specPrefix [] s = s := by
  have h : ∀ l : Str, pre [] l = l := by intro l; simp [pre]
  have := linesT_flatten s
  unfold specPrefix
  simp only [h]
  exact this

/-
T3, full statement (NOT provable, the code violates it — see the witnesses below and REPORT.md, known
findings `lineprefix-final-newline` and `lineprefix-terminator-rewritten`):

  theorem C19_lineprefix (p s : Str) : lineprefix p s = specPrefix p s

What is missing in the `_partial` version: strings that end in a line terminator, and terminators other than `\n`.
-/

/-- T3 (partial): on strings whose only line boundary is `\n` and that do not end in one, `lineprefix p s` is
`s` with `p` in front of every non-empty line and nothing else changed. -/
theorem C19_lineprefix_partial (p s : Str) (h : plainLines s = true) :
    lineprefix p s = specPrefix p s := by
  rw [C19_lineprefix_exact]
  simp only [plainLines, Bool.and_eq_true, List.all_eq_true, Bool.or_eq_true, Bool.not_eq_true',
    decide_eq_true_eq, bne_iff_ne, ne_eq] at h
  have hn : normTerms (linesT s) = linesT s :=
    normTerms_linesT_plain s (fun c hc hb => by
      rcases h.1 c hc with h' | h'
      · rw [hb] at h'; exact absurd h' (by simp)
      · exact h') h.2
  rw [hn]; rfl

/-- T5a (`Lexer.tokeniter`, shared upstream code): without `keep_trailing_newline` the normalisation removes
exactly ONE final newline — `t` may itself end in newlines, they stay. -/
theorem C19_normalize_drops_exactly_one_newline (t : Str) (hb : ∀ c ∈ t, isBreak c = true → c = '\n') :
    normalizeSource false (t ++ ['\n']) = t := by
  unfold normalizeSource
  simp only [Bool.false_and, Bool.false_eq_true, if_false, List.append_nil]
  exact joinNl_splitlines_snoc_nl t hb

/-- T5b: with `keep_trailing_newline` (Nunavut's setting) the final newline stays. -/
theorem C19_normalize_keeps_trailing_newline (t : Str) (hb : ∀ c ∈ t, isBreak c = true → c = '\n') :
    normalizeSource true (t ++ ['\n']) = t ++ ['\n'] := by
  unfold normalizeSource
  have he : endsNl (t ++ ['\n']) = true := by simp [endsNl]
  simp only [he, Bool.and_self, if_true]
  have hne : splitlines (t ++ ['\n']) ≠ [] := by
    unfold splitlines
    simpa using linesT_ne_nil (s := t ++ ['\n']) (by simp)
  rw [joinNl_snoc_nil _ hne, joinNl_splitlines_snoc_nl t hb]

/-- T5c: a source with only `\n` line breaks and no final newline is lexed as written, under both settings. -/
theorem C19_normalize_identity (keep : Bool) (s : Str) (h : plainLines s = true) :
    normalizeSource keep s = s := by
  simp only [plainLines, Bool.and_eq_true, List.all_eq_true, Bool.or_eq_true, Bool.not_eq_true',
    decide_eq_true_eq, bne_iff_ne, ne_eq] at h
  have hb : ∀ c ∈ s, isBreak c = true → c = '\n' := fun c hc hbr => by
    rcases h.1 c hc with h' | h'
    · rw [hbr] at h'; exact absurd h' (by simp)
    · exact h'
  have he : endsNl s = false := by
    unfold endsNl
    cases hl : s.getLast? with
    | none => rfl
    | some x =>
      have hx : x ∈ s := List.mem_of_getLast? hl
      have h1 : x ≠ '\n' := by intro hx'; subst hx'; exact h.2 hl
      have h2 : x ≠ '\r' := by
        intro hx'; subst hx'
        exact absurd (hb '\r' hx (by decide)) (by decide)
      simp [h1, h2]
  unfold normalizeSource
  simp only [he, Bool.and_false, Bool.false_eq_true, if_false, List.append_nil]
  have := joinNl_eq_normTerms (fun l => l) (linesT s)
  unfold splitlines
  rw [this, normTerms_linesT_plain s hb h.2]
  exact linesT_flatten s

/-- T4a: `{% assert e %}` renders the empty string iff `e` is truthy … -/
theorem C19_assert_renders_nothing_iff_truthy (truthy : Bool) (msg : Str) :
    doAssert truthy msg = .ok [] ↔ truthy = true := by
  cases truthy <;> simp [doAssert]

/-- … and raises the assertion error with its message otherwise (it never renders anything else). -/
theorem C19_assert_raises_otherwise (truthy : Bool) (msg : Str) :
    (truthy = false → doAssert truthy msg = .error (.assertion msg)) ∧
      (∀ out, doAssert truthy msg = .ok out → out = []) := by
  cases truthy <;> simp [doAssert]

/-- T4b: whatever `UseQuery.parse` builds for a chain `ifuses/ifnuses … elifuses/elifnuses … else … end`
evaluates as the ordinary `if / elif / else` over the query results, negated for the `…nuses` tags; an
undefined query raises when (and only when) its clause is reached. -/
theorem C19_ifuses_is_if_elif_else (q : Str → Option Bool) (openNegate : Bool) (name body : Str)
    (segs : List Seg) (node : IfNode) (h : parseUses openNegate name body segs = .ok node) :
    evalIf q node =
      ifElifElse ((clausesOf openNegate name body segs).map fun c => (useQuery q c.1 c.2.1, c.2.2))
        (elseOf segs) := by
  unfold parseUses at h
  split at h
  · rename_i ng n b cs e hp
    simp at h; subst h
    obtain ⟨h1, h2⟩ := parseLoop_ok hp
    unfold evalIf
    simp only
    rw [evalClauses_eq_ifElifElse, h1, h2]
  · simp at h
  · simp at h

/-! ## Non-vacuity and negation witnesses -/

-- T1 is not vacuous and its hypothesis is needed: with a marker the scans differ.
example : hasMarker (bundled false) "a {% if x %} b {{ y }}".toList = false := by decide
example : rootStep (bundled false) true "  {{* x }}".toList ≠ rootStep (stock false) true "  {{* x }}".toList := by
  decide
-- the lexer as found: a comment that merely starts with `*` loses the blanks in front of it (F15) …
example : rootStep (bundledBeforeFix false) true "  {#* note #}x".toList =
    some ⟨[], .comment, "  {#*".toList, " note #}x".toList⟩ := by decide
-- … upstream and the repaired lexer keep them in the data:
example : rootStep (stock false) true "  {#* note #}x".toList =
    some ⟨"  ".toList, .comment, "{#".toList, "* note #}x".toList⟩ := by decide
example : rootStep (bundled false) true "  {#* note #}x".toList =
    rootStep (stock false) true "  {#* note #}x".toList := by decide
-- T2: an instance, and the same text with a plain tag keeps the blanks in the data
example : rootStep (bundled false) true "ab\n  {%* include x %}".toList =
    some ⟨"ab\n".toList, .block, "  {%*".toList, " include x %}".toList⟩ := by decide
example : rootStep (bundled false) true "ab\n  {% include x %}".toList =
    some ⟨"ab\n  ".toList, .block, "{%".toList, " include x %}".toList⟩ := by decide
-- `{%* raw %}` is a raw begin: nothing will be prefixed (known finding `marker-raw-not-prefixed`)
example : (rootStep (bundled false) true "  {%* raw %}x{% endraw %}".toList).map (·.kind) = some .raw := by decide
-- T3: negation of the full statement, one witness per defect class
example : lineprefix [] "a\n".toList ≠ specPrefix [] "a\n".toList := by decide
example : lineprefix " ".toList "a\r\nb".toList ≠ specPrefix " ".toList "a\r\nb".toList := by decide
example : lineprefix " ".toList "a\x0cb".toList = " a\n b".toList := by decide
example : lineprefix "  ".toList "a\n\nb".toList = "  a\n\n  b".toList ∧ plainLines "a\n\nb".toList = true := by decide
-- T5: two final newlines, one is removed (not both); exotic boundaries become `\n` (upstream 2.x behaviour)
example : normalizeSource false "a\n\n".toList = "a\n".toList ∧ normalizeSource true "a\r\n\r".toList = "a\n\n".toList ∧
    normalizeSource false "a\x0cb".toList = "a\nb".toList := by decide
-- T4
example : doAssert false "m".toList = .error (.assertion "m".toList) := by rfl
example : parseUses true "a".toList "A".toList [⟨.elifuses, "b".toList, "B".toList⟩, ⟨.else_, [], "C".toList⟩, ⟨.end_, [], []⟩]
    = .ok ⟨true, "a".toList, "A".toList, [(false, "b".toList, "B".toList)], "C".toList⟩ := by rfl

end NunavutVerif.Lexer
