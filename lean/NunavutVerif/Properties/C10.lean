import NunavutVerif.Lemmas.Tpl
import NunavutVerif.Lemmas.FilePP
import NunavutVerif.Gen.TplFlows
import NunavutVerif.Gen.TplCallables
import NunavutVerif.Properties.C15
/-!
# C10 — per-type output ignores sibling types, processing order and earlier runs

Property theorems only.  Definitions: `Model/Tpl.lean`, `Model/ProcState.lean`; lemmas: `Lemmas/Tpl.lean`.

The file written for a type is `fileOut pps counters (render I P false d a …)`: the rendering reads the declared
inputs `d` (the type, the types it refers to, templates, options) and the process state only through the classes
`Src.c10` (sibling types, unique-name generator, memo caches, template lookup cache); the line post-processors carry
their `counters`.  Everything a different company of types, another processing order or an earlier run can change is
in `a` restricted to `Src.c10` and in `counters`; the theorems quantify over all of them.
-/
namespace NunavutVerif.C10
open NunavutVerif.Tpl NunavutVerif.ProcState NunavutVerif.LineBuffer NunavutVerif.Gen

/-! ### T2 for the process-state classes: the generated tables -/

/- Full statement (FALSE for the code as it is):
     theorem C10_tables_clean : TplFlows.langs.all (fun L => L.cleanFor Src.c10) = true
   py: `filter_pickle` serialises the PyDSDL model objects *including the lazily filled caches inside them* (the
   `BitLengthSet` operators memoise `% n` and expansions); the model objects of nested types are shared between the
   types of a run, so the fill state — and with it the `_MODEL_` literal of a generated module — depends on which types
   were processed before (known finding `py-pickled-model-cache-state`).  Proved: everything except that one cell
   (language py × per-type files × model-cache state). -/

/-- In c, cpp and html no leaf reads sibling types, and every use of the unique-name generator, of a memoised
function or of the template lookup cache is covered by its sanitiser (T4, T5 below); in py the same holds for every
class except the model-cache state in per-type files. -/
theorem C10_tables_clean_partial :
    TplFlowsC.lang.cleanFor Src.c10 = true ∧ TplFlowsCpp.lang.cleanFor Src.c10 = true ∧
    TplFlowsHtml.lang.cleanFor Src.c10 = true ∧
    TplFlowsPy.lang.cleanFor [.siblings, .psUniqueName, .psMemo, .psTemplateCache, .psCompileFold, .psSharedMutable] = true ∧
    TplFlowsPy.lang.rootsCleanFor Src.c10 .namespace = true ∧
    TplFlowsPy.lang.rootsCleanFor Src.c10 .support = true := by decide +kernel

/-- py, tightened: with the applications of the `pickle` filter (`TplFlowsPy.pickleLeaves`, the `_MODEL_` literal) replaced
by any function of the same arguments that does not look at the cache fill state, the whole Python table is clean for
every process-state class: every other byte of a generated Python file ignores sibling types, order and history. -/
theorem C10_py_clean_except_pickled_model_partial :
    (TplFlowsPy.lang.scrub TplFlowsPy.pickleLeaves).cleanFor Src.c10 = true := by decide +kernel

/-- The excluded cell really is dirty in the table (the model describes the code as it is). -/
example : TplFlowsPy.lang.rootsCleanFor [.psModelCache] .type = false := by decide +kernel

/-- The sanitiser of the unique-name leaves exists in the source: `_generate_code` calls
`UniqueNameGenerator.reset()` before it consumes the template generator. -/
theorem C10_unique_names_reset_in_source : TplFlows.resetsUniqueNamesPerFile = true := by decide

/-! ### T4: UniqueNameGenerator -/

/-- The names issued while one file is rendered are the same for every prior state of the singleton … -/
theorem C10_unique_names_ignore_prior_state (prior₁ prior₂ : UState) (reqs : List Req) :
    namesInFile prior₁ reqs = namesInFile prior₂ reqs := rfl

/-- … and depend only on the requests made in that file: the index of a request is the number of earlier requests
of the file with the same (key, base token). -/
theorem C10_unique_names_closed_form (prior : UState) (reqs : List Req) :
    namesInFile prior reqs = specNames [] reqs :=
  issue_eq_spec resetState [] reqs (by intro k; simp [resetState, lookup])

/-- The state is a map (domain, base token) ↦ counter and the reset clears EVERY domain: the closed form above holds for
requests of any mixture of domains (`Req.key` is arbitrary).  A reset of the target language's domain alone would do
only for files that request names in that domain … -/
theorem C10_unique_names_domain_reset_only_for_own_domain (target : LineBuffer.Str) (prior : UState) (reqs : List Req)
    (hown : ∀ r ∈ reqs, r.key = target) :
    namesInFileDomainReset target prior reqs = namesInFile prior reqs := by
  rw [C10_unique_names_closed_form]
  apply issue_eq_spec_domain target _ [] reqs hown
  intro k hk
  simp [lookup_resetDomain, hk]

/-- … and leaks the prior state as soon as a template borrows another language's filter (`ln.py.to_template_unique_name`
in a C template): the names then depend on how many names earlier files and runs consumed. -/
example : namesInFileDomainReset ['c'] [((['p', 'y'], ['x']), 3), ((['c'], ['x']), 5)]
      [⟨['c'], ['x'], [], []⟩, ⟨['p', 'y'], ['x'], [], []⟩] = ["x0".toList, "x3".toList] ∧
    namesInFile [((['p', 'y'], ['x']), 3), ((['c'], ['x']), 5)]
      [⟨['c'], ['x'], [], []⟩, ⟨['p', 'y'], ['x'], [], []⟩] = ["x0".toList, "x0".toList] := by decide

/-- Without the reset the prior state shows (what the reset is for; the C10 mutant). -/
example : namesInFileNoReset [((['c'], ['x']), 3)] [⟨['c'], ['x'], ['_'], ['_']⟩]
    ≠ namesInFileNoReset [] [⟨['c'], ['x'], ['_'], ['_']⟩] := by decide

example : namesInFile [((['c'], ['x']), 3)] [⟨['c'], ['x'], ['_'], ['_']⟩, ⟨['c'], ['y'], [], []⟩, ⟨['c'], ['x'], [], []⟩]
    = ["_x0_".toList, "y0".toList, "x1".toList] := by decide

/-! ### T5: memoisation -/

/-- A cache whose entries satisfy `v = f k` never changes a result, whatever it evicts; instantiated for
`TokenEncoder.strop`, `Language.get_dependency_builder`, `LanguageClassLoader.load_language_class`,
`_make_textwrap` and `_type_to_template_lookup_cache` by taking `f` to be the memoised function (its purity is the
assumption; the harness compares cached against uncached calls). -/
theorem C10_memo_transparent {κ ν : Type} [DecidableEq κ] (f : κ → ν) (evict : List (κ × ν) → List (κ × ν))
    (hev : ∀ c p, p ∈ evict c → p ∈ c) (cache : List (κ × ν)) (hv : CacheValid f cache) (ks : List κ) :
    (memoRun f evict cache ks).1 = ks.map f ∧ CacheValid f (memoRun f evict cache ks).2 :=
  memoRun_transparent f evict hev cache hv ks

/-- Per-instance caches (the key contains the instance: `lru_cache` on methods, `cached_property` in
`instance.__dict__`, the loader's lookup dict): transparent although the function depends on the instance's
configuration — the instance of T5 with key `(instance, arguments)`. -/
theorem C10_memo_per_instance_transparent {ι κ ν : Type} [DecidableEq ι] [DecidableEq κ] (f : ι → κ → ν)
    (evict : List ((ι × κ) × ν) → List ((ι × κ) × ν)) (hev : ∀ c p, p ∈ evict c → p ∈ c)
    (cache : List ((ι × κ) × ν)) (hv : CacheValid (fun q : ι × κ => f q.1 q.2) cache) (qs : List (ι × κ)) :
    (memoRun (fun q : ι × κ => f q.1 q.2) evict cache qs).1 = qs.map (fun q => f q.1 q.2) :=
  (memoRun_transparent _ evict hev cache hv qs).1

/-- A cache shared by all instances is transparent only for functions that do not depend on the instance
(`_make_textwrap`) … -/
theorem C10_memo_shared_transparent_if_instance_independent {ι κ ν : Type} [DecidableEq κ] (f : ι → κ → ν)
    (hind : ∀ i j k, f i k = f j k) (qs : List (ι × κ)) :
    (memoRunShared f [] qs).1 = qs.map (fun q => f q.1 q.2) :=
  (memoRunShared_transparent f hind [] (by intro p hp; cases hp) qs).1

/-- … and wrong otherwise: the second instance is served the first instance's value (a token encoder built for the
first Language object reused by a later one with another stropping prefix). -/
example : (memoRunShared (fun (prefixLen : Nat) (tok : Nat) => prefixLen + tok) [] [(1, 7), (5, 7)]).1 = [8, 8] ∧
    [(1, 7), (5, 7)].map (fun q : Nat × Nat => q.1 + q.2) = [8, 12] := by decide

/-- A cache that compares its keys by something coarser than the argument (`functools.lru_cache` on a function of a PyDSDL
type: equality by name, version and bit length set) is transparent exactly for functions that are determined by that
comparison … -/
theorem C10_memo_keyed_by_equality_transparent {κ κ' ν : Type} [DecidableEq κ'] (π : κ → κ') (f : κ → ν)
    (hdet : ∀ k k', π k = π k' → f k = f k') (ks : List κ) :
    (memoRunBy π f [] ks).1 = ks.map f :=
  (memoRunBy_transparent π f hdet [] (by intro p hp; cases hp) ks).1

/-- … and serves a stale object otherwise: `Language.get_dependency_builder` before the `fix:` commit — a type read again
from edited definitions (same name, version and size; now referring to `Kelvin`) was handed the `DependencyBuilder` of
the type object of the earlier run (`Celsius`) when the `LanguageContext` was reused, hence the old `#include`. -/
example : (memoRunBy (fun (t : String × String) => t.1) (fun t => t.2) [] [("Frame.1.0", "Celsius"), ("Frame.1.0", "Kelvin")]).1
      = ["Celsius", "Celsius"] ∧
    [("Frame.1.0", "Celsius"), ("Frame.1.0", "Kelvin")].map (fun t : String × String => t.2) = ["Celsius", "Kelvin"] := by decide

/-- No function behind `functools.lru_cache` / `functools.cache` takes a PyDSDL model object or a container as part of its
key (regenerated table `TplFlows.memoisedFunctions`: `TokenEncoder.strop(self, token: str, token_type: str)`,
`LanguageClassLoader.load_language_class(self, language_name: str)`, `_make_textwrap(width, initial_indent,
subsequent_indent)`): every memoised function is determined by what its cache compares. -/
theorem C10_memo_keys_determine_result_in_source : TplFlows.memoKeysDetermineResult = true := by decide

/-- The memoised functions of the package (regenerated table) are exactly among the ones T5 is instantiated for: a newly
memoised function — whatever its key types — is a broken obligation by name until its transparency has been argued. -/
theorem C10_memoised_functions_are_the_modelled_ones :
    TplFlows.memoisedFunctions.all (fun m => modelledMemoised.contains m.1) = true := by decide

/-- Every filter, test and global registered in the real template environments of c, cpp, py and html (the ones no
built-in template uses included) is classified, and none reads sibling types or process state except behind a
sanitiser — apart from the expected names (`pickle`: cache fill state of the shared model objects, a known finding). -/
theorem C10_registered_callables_as_expected :
    TplCallables.unclassified = [] ∧
    TplCallables.all.all (fun L => L.2.all (Callable.asExpected Src.c10)) = true := by decide +kernel

/-- Source fact behind the `psCompileFold` sanitiser: templates are compiled lazily (no `get_template` in a generator
constructor), i.e. never while counters of an earlier run are alive outside the per-file reset discipline; a
constant-foldable stateful filter (the C++ `to_template_unique_name` is not marked volatile) in a template that is
compiled at render time is then folded from the freshly reset state. -/
theorem C10_templates_compiled_lazily_in_source : TplFlows.templatesCompiledLazily = true := by decide

/-- No class attribute or module global bound to a dict / list / set is written at run time anywhere in the package
(AST scan of the whole package; a listed exception would have to be modelled as a state machine here). -/
theorem C10_no_process_wide_containers_in_source : TplFlows.noUnlistedSharedContainers = true := by decide

/-- Nothing a run leaves behind outside its output directory can reach a later run: no code of the package (bundled
third-party code excluded) installs a compiled-template cache on disk (`bytecode_cache`), a shelf / database, or writes
under the temp / home / working directory; the only process-wide objects are the ones modelled above.  (Regenerated
AST scan; shared with C07.) -/
theorem C10_nothing_outlives_the_run_in_source : TplFlows.noUndeclaredAmbientInputs = true := by decide

/-- `cached_property.__get__` keeps its value in `instance.__dict__` (read off the source by the translator). -/
theorem C10_cached_property_per_instance_in_source : TplFlows.cachedPropertyPerInstance = true := by decide

/-- The empty cache of a fresh process is valid. -/
theorem C10_memo_fresh_cache_valid {κ ν : Type} (f : κ → ν) : CacheValid f [] := by
  intro p hp; cases hp

/-! ### T6: LimitEmptyLines across files -/

/- Full statement (FALSE for arbitrary texts when the counter is carried from file to file):
     theorem C10_limiter_start_independent (pps ss ss' text) : (fileOut pps ss text).1 = (fileOut pps ss' text).1
   Witness (F9): N = 2, the file `"\n\ny\n"` after a file that ended in an empty line. -/
example : (fileOut [.limit 2] [0] "\n\ny\n".toList).1 = "\n\ny\n".toList ∧
          (fileOut [.limit 2] [1] "\n\ny\n".toList).1 = "\ny\n".toList := by decide

/-- The counter a file ending in an empty line leaves behind. -/
example : (fileOut [.limit 2] [0] "x\n\n".toList).2 = [1] := by decide

/-- T6 partial: a file is written identically from two start states of the post-processor list (any processors, any
limits) whenever the two states agree on the counters of the limiters (the state slot of a trimmer is never read) OR
the first line of the file has a non-blank character.  What remains excluded — start states that differ on a limiter
AND a file that begins with a blank line — is exactly where the witness above lives. -/
theorem C10_limiter_start_independent_partial (pps : List PP) (ss ss' : List Nat) (text : Str)
    (h : limAgree pps ss ss' ∨
         (ss.length = pps.length ∧ ss'.length = pps.length ∧ firstLineNonBlank text = true)) :
    (fileOut pps ss text).1 = (fileOut pps ss' text).1 := by
  rcases h with h | ⟨hl, hl', h⟩
  · simp only [fileOut]
    rw [(pipeLinesSt_agree pps ss ss' (specLines text) h).1]
  · exact (fileOut_start_independent pps ss ss' text hl hl' h).1

/-- Both disjuncts are used: a blank first line with agreeing limiter counters (the trimmer's slot differs), and a
non-blank first line with different counters. -/
example : (fileOut [.trim, .limit 1] [0, 1] "\n\ny\n".toList).1 = (fileOut [.trim, .limit 1] [7, 1] "\n\ny\n".toList).1 ∧
    (fileOut [.limit 1] [0] "y\n\n\n".toList).1 = (fileOut [.limit 1] [5] "y\n\n\n".toList).1 := by decide

/-- A file that is empty is written (as nothing) identically from every start state. -/
theorem C10_limiter_empty_file (pps : List PP) (ss ss' : List Nat) :
    (fileOut pps ss []).1 = (fileOut pps ss' []).1 := by simp [fileOut_empty]

/-- With the per-file reset (the repaired code) the text written for a file does not depend on the other files of
the run at all. -/
theorem C10_limiter_reset_per_file (pps : List PP) (before after before' after' : List Str) (f : Str) :
    (runFiles true pps (before ++ f :: after))[before.length]? =
      (runFiles true pps (before' ++ f :: after'))[before'.length]? := by
  simp [runFiles, runFilesReset]

/-- What the tree under check does: either it resets the line post-processors per file, or every built-in root
template of every language starts with a non-blank line (or emits nothing), so that the partial theorem applies to
all built-in output.  (Decided over the generated root table.) -/
theorem C10_limiter_builtin :
    TplFlows.linePPResetPerFile = true ∨
    TplFlows.langs.all (fun L => L.roots.all fun r => r.emitsNothing || r.firstNonBlank) = true := by
  decide +kernel

/-- The link to what is written for a chunked rendering (C15): the file is `fileOut` of the concatenated chunks. -/
theorem C10_fileOut_is_written_file (pps : List PP) (ss : List Nat) (chunks : List Str) :
    output pps ss chunks = (fileOut pps ss chunks.flatten).1 := by
  rw [C15_output_is_linewise]
  simp [fileOut, ProcState.pipeLinesSt_fst]

/-! ### T6b: the line buffer and renderings aborted by an exception -/

/-- The line buffer is created by the call that uses it (source fact, regenerated). -/
theorem C10_line_buffer_per_call_in_source : TplFlows.lineBufferPerCall = true := by decide

/-- A rendering that completes is written identically after ANY history of renderings in the process — including ones
that were aborted by an exception in the middle of a line (whose caller carried on) — from any state of the
post-processor counters and whatever an earlier call may have left in a line buffer: it is `fileOut` of its own text
from the initial state.  (Per-call line buffer and per-file reset: the code as it is.) -/
theorem C10_aborted_rendering_leaves_no_trace (pps : List PP) (ss : List Nat) (buf : Str)
    (before after : List Rendering) (chunks : List Str) :
    (runRenderings true true pps ss buf (before ++ ⟨chunks, false⟩ :: after))[before.length]? =
      some (fileOut pps (zeros pps) chunks.flatten).1 := by
  rw [runRenderings_perCall_reset]
  cases pps with
  | nil => simp [fileOut_no_processors]
  | cons p ps => simp [bufLines_complete, C15_chunking_independent, fileOut]

/-- With one line buffer shared by all calls (what the code does not do) the unfinished line of an aborted rendering
would be prepended to the first line of the next file. -/
example :
    runRenderings false true [.trim] [0] [] [⟨["ab".toList], true⟩, ⟨["x\n".toList], false⟩] = [[], "abx\n".toList] ∧
    runRenderings true true [.trim] [0] [] [⟨["ab".toList], true⟩, ⟨["x\n".toList], false⟩] = [[], "x\n".toList] ∧
    runRenderings true true [] [] [] [⟨["ab".toList], true⟩, ⟨["x\n".toList], false⟩] = ["ab".toList, "x\n".toList] ∧
    runRenderings true true [.limit 1] [0] [] [⟨["a\n\n\nb".toList], true⟩, ⟨["\n\nx\n".toList], false⟩]
      = ["a\n\n".toList, "\nx\n".toList] := by decide

/-! ### T7: the corollary -/

/-- One file: for every two process states (whatever ran before — other types, another order, earlier runs) that
agree on what is *not* process state, the bytes written for the file are equal, provided the program is clean for
the process-state classes and either the post-processors are reset per file or the rendering starts with a
non-blank line. -/
theorem C10_per_type_output_independent {δ : Type} (I : Interp δ) (P : List Tpl) (S : List Nat)
    (hS : closedClean Src.c10 P S = true) (fuel : Nat) (resetPerFile : Bool) (pps : List PP)
    (σ₁ σ₂ : PState) (hamb : agreeOff Src.c10 σ₁.amb σ₂.amb)
    (hl₁ : σ₁.counters.length = pps.length) (hl₂ : σ₂.counters.length = pps.length)
    (root : Nat) (hroot : root ∈ S) (d : δ)
    (hpp : resetPerFile = true ∨ firstLineNonBlank (render I P false d σ₁.amb fuel root []) = true) :
    (ProcState.genFile I P fuel resetPerFile pps σ₁ root d).1 = (ProcState.genFile I P fuel resetPerFile pps σ₂ root d).1 := by
  have hraw := render_ni I P S hS d hamb fuel root [] hroot
  unfold ProcState.genFile
  simp only [← hraw]
  cases resetPerFile with
  | true => simp
  | false =>
    simp only [Bool.false_eq_true, false_or] at hpp
    simp only [Bool.false_eq_true, if_false]
    exact (fileOut_start_independent pps _ _ _ hl₁ hl₂ hpp).1

/-- T7 (C10): for every namespace, every dependency-closed subset, every processing order and every sequence of
earlier files and runs in the process — i.e. for any two job sequences `pre₁`, `pre₂` executed before it from any
two start states that agree on what is not process state — the file generated for a type is byte-identical. -/
theorem C10_output_independent_of_history {δ : Type} (I : Interp δ) (P : List Tpl) (S : List Nat)
    (hS : closedClean Src.c10 P S = true) (fuel : Nat) (resetPerFile : Bool) (pps : List PP)
    (evolve : Amb → Job δ → Amb) (hev : ∀ a j s, Src.c10.contains s = false → evolve a j s = a s)
    (σ₁ σ₂ : PState) (hamb : agreeOff Src.c10 σ₁.amb σ₂.amb)
    (hl₁ : σ₁.counters.length = pps.length) (hl₂ : σ₂.counters.length = pps.length)
    (pre₁ pre₂ : List (Job δ)) (j : Job δ) (hroot : j.root ∈ S)
    (hpp : resetPerFile = true ∨ ∀ a, firstLineNonBlank (render I P false j.decl a fuel j.root []) = true) :
    (ProcState.genFile I P fuel resetPerFile pps (runJobs I P fuel resetPerFile pps evolve σ₁ pre₁).2 j.root j.decl).1 =
    (ProcState.genFile I P fuel resetPerFile pps (runJobs I P fuel resetPerFile pps evolve σ₂ pre₂).2 j.root j.decl).1 := by
  have i₁ := runJobs_invariant I P fuel resetPerFile pps evolve hev pre₁ σ₁ hl₁
  have i₂ := runJobs_invariant I P fuel resetPerFile pps evolve hev pre₂ σ₂ hl₂
  apply C10_per_type_output_independent I P S hS fuel resetPerFile pps _ _ _ i₁.2 i₂.2 j.root hroot j.decl
  · rcases hpp with h | h
    · exact Or.inl h
    · exact Or.inr (h _)
  · intro s hs
    rw [← i₁.1 s hs, ← i₂.1 s hs]
    exact hamb s hs

/-! ### T8: file post-processors (`SetFileMode`, `ExternalProgramEditInPlace`) and the order of post-processing

`Model/FilePP.lean`: what `_generate_code` / `SupportGenerator._copy_header` issue for one output file given the generator's
list of post-processor objects, the objects threaded from file to file, and the execution of those operations against
a file system with an arbitrary external program. -/

section FilePostProcessors
open NunavutVerif.FilePP

/-- The source the model of the file post-processors was transcribed from (regenerated facts, `translate/tplflows.py`):
no `FilePostProcessor` of the package writes object state outside `__init__` — directly or through a local alias of an
attribute (`run_args = self._command_line; run_args += …`) —; `SetFileMode`, `ExternalProgramEditInPlace`, the command
line's list builder, `_handle_overwrite` and `_copy_header` have exactly the transcribed statements; `_generate_code` and
`SupportGenerator.generate_all` classify (reset and collect | collect | raise `ValueError`) and call the file
post-processors in one loop `path = file_pp(path)` after the file is written. -/
theorem C10_file_pp_model_matches_source :
    TplFlows.filePPCallsPure = true ∧ TplFlows.filePPSourceMatchesModel = true ∧
    TplFlows.generatorRunsFilePPsOnceInOrder = true := by decide

/-- Every attribute a `LinePostProcessor` of the package writes while it processes lines is assigned again by its
`reset()` (the hook `_generate_code` calls per file): the reset really returns the processor to its initial state. -/
theorem C10_line_pp_reset_complete_in_source : TplFlows.linePPResetComplete = true := by decide

/-- A call of a file post-processor leaves the object as it was — in particular `ExternalProgramEditInPlace.__call__`
builds a fresh `run_args` list and does not touch `_command_line`. -/
theorem C10_file_pp_call_leaves_object_unchanged (py : LineBuffer.Str) (ren : Nat → LineBuffer.Str → LineBuffer.Str) :
    Sem.Pure (callReal py ren) := callReal_pure py ren

/-- What is issued for a file — the resets, the write through the line post-processors, then every file
post-processor of the list exactly once, in list order, with the path its predecessor returned, the command line of
the external program being the configured one followed by that path only — is the same function of (the generator's
list, the file) in every run: whichever files were generated before it, in whichever order, in this or in earlier runs
of the same generator objects (`pre₁`, `pre₂` arbitrary), and whatever follows. -/
theorem C10_file_pp_invocations_independent_of_run (py : LineBuffer.Str) (ren : Nat → LineBuffer.Str → LineBuffer.Str)
    (objs : List Obj) (pre₁ post₁ pre₂ post₂ : List FilePP.Job) (j : FilePP.Job) :
    (runEvents (callReal py ren) objs (pre₁ ++ j :: post₁)).1[pre₁.length]? = some (fileEvents (callReal py ren) objs j).1 ∧
    (runEvents (callReal py ren) objs (pre₂ ++ j :: post₂)).1[pre₂.length]? = some (fileEvents (callReal py ren) objs j).1 := by
  simp [runEvents_pure _ (callReal_pure py ren)]

/-- The list the command line builds (`--pp-trim-trailing-whitespace`, `--pp-max-emptylines`, `--pp-run-program P`
`--pp-run-program-arg A…`, `--file-mode M`), spelled out: per generated file the line post-processors are reset, the text
is written through them, then the program is run once as `P A… <file>` (`sys.executable` in front iff `P` ends in
`.py`) with `check=True`, and only then the file mode is set. -/
theorem C10_cli_file_pp_sequence (py : LineBuffer.Str) (ren : Nat → LineBuffer.Str → LineBuffer.Str) (trim limit : Bool)
    (P : LineBuffer.Str) (args : List LineBuffer.Str) (mode : Nat) (path bytes : LineBuffer.Str) (allow : Bool) :
    (fileEvents (callReal py ren) (cliObjs trim limit (some (P, args)) mode) ⟨.generate, path, bytes, allow⟩).1 =
      (lineIds (cliObjs trim limit none mode)).map Event.reset ++
      [.overwrite path allow, .write path bytes (lineIds (cliObjs trim limit none mode)),
       .exec (if endsWithPy P then py :: P :: (args ++ [path]) else P :: (args ++ [path])) true,
       .chmod path mode] := by
  cases trim <;> cases limit <;> cases hpy : endsWithPy P <;>
    simp [fileEvents, cliObjs, classify, lineIds, callAll, callReal, Obj.isFilePP, runArgs, hpy]

/-- The bytes and the permission bits of a generated file do not depend on which other files are generated, in which
order, before or after it: after ANY completed run that contains job `j` they are what generating `j` alone gives.
For every list of built-in post-processors (any number of external programs and `SetFileMode`s in any order), every
external program that is an in-place editor (modifies at most the file it is given last; what it does depends on its
command line and the files named there) and all file systems that agree on the file itself, the interpreter and the
configured arguments.  Output paths are pairwise different from `j`'s (C11) and are not configured arguments. -/
theorem C10_file_bytes_independent_of_other_files (prog : Prog) (ren : Nat → LineBuffer.Str → LineBuffer.Str)
    (defMode : Nat) (py : LineBuffer.Str) (objs : List Obj) (hb : builtinOnly objs = true)
    (hF : prog.EditsLastOnly (py :: cfgArgs objs)) (hL : prog.Local)
    (pre₁ post₁ pre₂ post₂ : List FilePP.Job) (j : FilePP.Job)
    (hout₁ : ∀ k ∈ pre₁ ++ j :: post₁, k.path ∉ py :: cfgArgs objs)
    (hout₂ : ∀ k ∈ pre₂ ++ j :: post₂, k.path ∉ py :: cfgArgs objs)
    (hd₁ : ∀ k ∈ pre₁ ++ post₁, k.path ≠ j.path) (hd₂ : ∀ k ∈ pre₂ ++ post₂, k.path ≠ j.path)
    (fs₁ fs₂ : FS) (hagree : ∀ q, (q = j.path ∨ q ∈ py :: cfgArgs objs) → fs₁.get q = fs₂.get q)
    (hok₁ : (runWorld prog ren defMode (callReal py ren) objs (pre₁ ++ j :: post₁) fs₁).err = none)
    (hok₂ : (runWorld prog ren defMode (callReal py ren) objs (pre₂ ++ j :: post₂) fs₂).err = none) :
    (runWorld prog ren defMode (callReal py ren) objs (pre₁ ++ j :: post₁) fs₁).fs.get j.path =
      (runWorld prog ren defMode (callReal py ren) objs (pre₂ ++ j :: post₂) fs₂).fs.get j.path := by
  have h₁ := run_file_independent prog ren defMode py objs hb hF hL pre₁ post₁ j hout₁
    (fun k hk => hd₁ k (List.mem_append_left _ hk)) (fun k hk => hd₁ k (List.mem_append_right _ hk)) fs₁ fs₁
    (fun _ _ => rfl) hok₁
  have h₂ := run_file_independent prog ren defMode py objs hb hF hL pre₂ post₂ j hout₂
    (fun k hk => hd₂ k (List.mem_append_left _ hk)) (fun k hk => hd₂ k (List.mem_append_right _ hk)) fs₂ fs₁
    (fun q hq => (hagree q hq).symm) hok₂
  rw [h₁.1, h₂.1]

/-- `SetFileMode` last in the list (where the command line puts it): after any completed run every generated file has
exactly the configured permission bits — whatever they were before the run, whatever `_handle_overwrite` and the
external program did to them, whichever files were generated besides it. -/
theorem C10_set_file_mode_effect_independent (prog : Prog) (ren : Nat → LineBuffer.Str → LineBuffer.Str)
    (defMode : Nat) (py : LineBuffer.Str) (front : List Obj) (mode : Nat) (hb : builtinOnly front = true)
    (hF : prog.EditsLastOnly (py :: cfgArgs (front ++ [.setMode mode]))) (hL : prog.Local)
    (pre post : List FilePP.Job) (j : FilePP.Job)
    (hout : ∀ k ∈ pre ++ j :: post, k.path ∉ py :: cfgArgs (front ++ [.setMode mode]))
    (hd : ∀ k ∈ pre ++ post, k.path ≠ j.path) (fs : FS)
    (hok : (runWorld prog ren defMode (callReal py ren) (front ++ [.setMode mode]) (pre ++ j :: post) fs).err = none) :
    ((runWorld prog ren defMode (callReal py ren) (front ++ [.setMode mode]) (pre ++ j :: post) fs).fs.get j.path).map File.mode
      = some mode := by
  have hb' : builtinOnly (front ++ [.setMode mode]) = true := by
    clear hF hout hok
    induction front with
    | nil => rfl
    | cons o os ih => cases o <;> simp_all [builtinOnly]
  have h := run_file_independent prog ren defMode py _ hb' hF hL pre post j hout
    (fun k hk => hd k (List.mem_append_left _ hk)) (fun k hk => hd k (List.mem_append_right _ hk)) fs fs
    (fun _ _ => rfl) hok
  rw [h.1]
  have herr := h.2
  unfold fileWorld at herr ⊢
  obtain ⟨evs, hevs⟩ := fileEvents_setMode_last py ren front mode j hb
  rw [hevs, interp_append] at herr ⊢
  exact step_chmod_ok prog ren defMode _ j.path mode herr

/-! Non-vacuity and the counterexamples. -/

private def jA : FilePP.Job := ⟨.generate, ['a'], ['x'], true⟩
private def jB : FilePP.Job := ⟨.generate, ['b'], ['y'], true⟩
private def jC : FilePP.Job := ⟨.copy 0o644, ['c'], ['z'], true⟩
private def idRen : Nat → LineBuffer.Str → LineBuffer.Str := fun _ p => p
private def mark : Nat → LineBuffer.Str := fun _ => ['#']
private def noFiles : FS := ⟨fun _ => none⟩

/-- If the generated file were appended to the stored command line in place (`run_args = self._command_line;
run_args += [str(generated)]`), the call would change the object, the second file's invocation would name the first
file too … -/
example : ¬ Sem.Pure (callInPlace [] idRen) := by
  intro h
  have := h (.ext [] true) ['a']
  simp [callInPlace] at this

example :
    (runEvents (callInPlace ['p'] idRen) [.ext [['t']] true] [jA, jB]).1 =
      [[.overwrite ['a'] true, .write ['a'] ['x'] [], .exec [['t'], ['a']] true],
       [.overwrite ['b'] true, .write ['b'] ['y'] [], .exec [['t'], ['a'], ['b']] true]] ∧
    (runEvents (callReal ['p'] idRen) [.ext [['t']] true] [jA, jB]).1 =
      [[.overwrite ['a'] true, .write ['a'] ['x'] [], .exec [['t'], ['a']] true],
       [.overwrite ['b'] true, .write ['b'] ['y'] [], .exec [['t'], ['b']] true]] := by decide

/-- … and with a program that edits every file named on its command line the bytes of a file would depend on how many
files are generated after it (edited twice in the company of `b`, once alone); the code as it is: once in both. -/
example :
    ((runWorld (stubProg mark true []) idRen 0o644 (callInPlace [] idRen) [.ext [['t']] true] [jA, jB] noFiles).fs.get ['a']).map
        File.bytes = some ['x', '#', '#'] ∧
    ((runWorld (stubProg mark true []) idRen 0o644 (callInPlace [] idRen) [.ext [['t']] true] [jA] noFiles).fs.get ['a']).map
        File.bytes = some ['x', '#'] ∧
    ((runWorld (stubProg mark true []) idRen 0o644 (callReal [] idRen) [.ext [['t']] true] [jA, jB] noFiles).fs.get ['a']).map
        File.bytes = some ['x', '#'] ∧
    ((runWorld (stubProg mark true []) idRen 0o644 (callReal [] idRen) [.ext [['t']] true] [jA] noFiles).fs.get ['a']).map
        File.bytes = some ['x', '#'] := by decide

/-- The hypotheses of `C10_file_bytes_independent_of_other_files` are satisfiable together (the recording program of the
tie in its edit-the-last-argument mode, the command line's list with a program and `--file-mode 0o444`, a file that
exists read-only before one of the runs): whole run in one order vs a subset in another. -/
example :
    (runWorld (stubProg mark false []) idRen 0o644 (callReal ['p'] idRen)
        (cliObjs true true (some (['t'], [['-', 'i']])) 0o444) [jC, jA, jB] noFiles).fs.get ['a'] =
    (runWorld (stubProg mark false []) idRen 0o644 (callReal ['p'] idRen)
        (cliObjs true true (some (['t'], [['-', 'i']])) 0o444) [jB, jA] noFiles).fs.get ['a'] :=
  C10_file_bytes_independent_of_other_files (stubProg mark false []) idRen 0o644 ['p']
    (cliObjs true true (some (['t'], [['-', 'i']])) 0o444) (by decide)
    (stubProg_editsLastOnly mark [] _) (stubProg_local mark []) [jC] [jB] [jB] [] jA
    (by decide) (by decide) (by decide) (by decide) noFiles noFiles (fun _ _ => rfl) (by decide) (by decide)

example :
    ((runWorld (stubProg mark false []) idRen 0o644 (callReal ['p'] idRen)
        (cliObjs true true (some (['t'], [['-', 'i']])) 0o444) [jC, jA, jB] noFiles).fs.get ['a']) = some ⟨['x', '#'], 0o444⟩ := by
  decide

/-- Every `raise` is a branch: an object of neither kind (after the resets of the line post-processors before it; nothing
is written), an existing file without `allow_overwrite`, a failing program with `check=True` (the files after it are
not generated), the same with `check=False` (the run goes on). -/
example :
    (runWorld (stubProg mark false []) idRen 0o644 (callReal [] idRen) [.line 0, .unknown 7, .line 1] [jA] noFiles).err
      = some .valueError ∧
    (runWorld (stubProg mark false []) idRen 0o644 (callReal [] idRen) [.line 0, .unknown 7, .line 1] [jA] noFiles).log
      = [.raiseUnknown, .reset 0] ∧
    (runWorld (stubProg mark false []) idRen 0o644 (callReal [] idRen) [] [⟨.generate, ['a'], ['x'], false⟩]
      (noFiles.set ['a'] (some ⟨[], 0o444⟩))).err = some .permissionError ∧
    ((runWorld (stubProg mark false [['a']]) idRen 0o644 (callReal [] idRen) [.ext [['t']] true] [jA, jB] noFiles).err
      = some .calledProcessError ∧
     (runWorld (stubProg mark false [['a']]) idRen 0o644 (callReal [] idRen) [.ext [['t']] true] [jA, jB] noFiles).fs.get ['b']
      = none) ∧
    ((runWorld (stubProg mark false [['a']]) idRen 0o644 (callReal [] idRen) [.ext [['t']] false] [jA, jB] noFiles).err
      = none ∧
     (runWorld (stubProg mark false [['a']]) idRen 0o644 (callReal [] idRen) [.ext [['t']] false] [jA, jB] noFiles).fs.get ['b']
      = some ⟨['y', '#'], 0o644⟩) := by decide

end FilePostProcessors

/-- Non-vacuity: a clean program that uses the unique-name generator behind its sanitiser, a user-style template
that begins with empty lines, two different histories, a limiter: equal with the reset, different without. -/
def exProgram : List Tpl :=
  [ .seq (.text 0) (.seq (.out ⟨1, [.psUniqueName, .psMemo], [.psUniqueName, .psMemo]⟩) (.text 1)) ]

def exInterp : Interp Unit where
  text := fun i => if i = 0 then "\n\n".toList else "\n".toList
  out := fun _ _ _ a => (toString (a .psUniqueName)).toList
  cond := fun _ _ _ _ => true
  iter := fun _ _ _ _ => []
  filt := fun _ _ _ _ s => s

example : closedClean Src.c10 exProgram [0] = true := by decide

example :
    (ProcState.genFile exInterp exProgram 2 true [.limit 1] ⟨fun _ => 0, [0]⟩ 0 ()).1 =
      (ProcState.genFile exInterp exProgram 2 true [.limit 1] ⟨fun _ => 5, [3]⟩ 0 ()).1 ∧
    (ProcState.genFile exInterp exProgram 2 false [.limit 1] ⟨fun _ => 0, [0]⟩ 0 ()).1 ≠
      (ProcState.genFile exInterp exProgram 2 false [.limit 1] ⟨fun _ => 5, [3]⟩ 0 ()).1 := by decide

end NunavutVerif.C10
