import NunavutVerif.Lemmas.Float16All
/-!
# C14 (float part) — half-precision conversion of the generated C / C++ support code

Property theorems only.  Definitions: `Model/Float16.lean` (`pack`, `unpack` transcribe `nunavutFloat16Pack` /
`nunavutFloat16Unpack` on bit patterns; `F32.val`, `F16.val`, `F32.mag`, `F16.mag` are the exact values in units of
`2^-149`).  Lemmas: `Lemmas/Float16*.lean`; finite tables: `Lemmas/F16Tables/*.lean`.

Quantifiers: **all** `2^32` binary32 patterns for `pack`, **all** `2^16` binary16 patterns for `unpack`.
The unbounded part is a proof (bit operations → arithmetic, `pack` factors through sign and `|x| / 4096`,
exact scaling for exponent field ≥ 113, collapse to zero for exponent field ≤ 100); the kernel evaluates finite
tables only for the 24 576 keys with exponent field 101..112 and for the 65 536 binary16 patterns.

Modelled, not proved: the hardware binary32 multiplication is `f32mul` (IEEE-754 round-to-nearest-even).
-/
namespace NunavutVerif.Float16

/-! ## unpack (all 65 536 patterns) -/

/-- `unpack` is exact on every finite half: the returned single denotes the same real number
(signed zero keeps its sign, see `C14_unpack_sign`). -/
theorem C14_unpack_exact (h : Nat) (hh : h < 65536) (hf : F16.isFinite h = true) :
    F32.isFinite (unpack h) = true ∧ F32.val (unpack h) = F16.val h := by
  have sp := chkHalf_spec h (chkHalf_all h hh)
  have hfin := (F16.isFinite_iff h).1 hf
  have hn : F16.isNaN h = false := (F16.isNaN_false_iff h).2 (by omega)
  have hi : F16.isInf h = false := (F16.isInf_false_iff h).2 (by omega)
  obtain ⟨h1, h2, _, h4⟩ := sp
  obtain ⟨_, _, _, h5⟩ := h4 hn
  obtain ⟨h6, h7⟩ := h5 hi
  refine ⟨h6, ?_⟩
  rw [F32.val_eq _ h1, F16.val_eq h hh, h7]
  by_cases c : 32768 ≤ h
  · rw [if_pos c, if_pos (by omega)]
  · rw [if_neg c, if_neg (by omega)]

/-- The sign bit travels unchanged through `unpack`, for every pattern including NaNs; the result is a
32-bit pattern. -/
theorem C14_unpack_sign (h : Nat) (hh : h < 65536) :
    unpack h < 4294967296 ∧ F32.neg (unpack h) = F16.neg h := by
  have sp := chkHalf_spec h (chkHalf_all h hh)
  obtain ⟨h1, h2, _, _⟩ := sp
  refine ⟨h1, bool_eq_of_iff ?_⟩
  rw [F32.neg_iff _ h1, F16.neg_iff h hh]
  omega

/-- Infinities stay infinities, NaNs stay NaNs (and nothing else becomes one). -/
theorem C14_unpack_inf_nan (h : Nat) (hh : h < 65536) :
    F32.isInf (unpack h) = F16.isInf h ∧ F32.isNaN (unpack h) = F16.isNaN h := by
  have sp := chkHalf_spec h (chkHalf_all h hh)
  obtain ⟨h1, h2, h3, h4⟩ := sp
  cases hn : F16.isNaN h
  · obtain ⟨_, _, h5, h6⟩ := h4 hn
    cases hi : F16.isInf h
    · have hf := (h6 hi).1
      have := (F32.isFinite_iff (unpack h)).1 hf
      exact ⟨(F32.isInf_false_iff _).2 (by omega), (F32.isNaN_false_iff _).2 (by omega)⟩
    · have := (F32.isInf_iff _).1 (h5 hi)
      exact ⟨h5 hi, (F32.isNaN_false_iff _).2 (by omega)⟩
  · have h5 := (h3 hn).1
    have := (F32.isNaN_iff _).1 h5
    have h7 := (F16.isNaN_iff h).1 hn
    exact ⟨by rw [(F32.isInf_false_iff _).2 (by omega), (F16.isInf_false_iff _).2 (by omega)], h5⟩

/-- Round trip: every non-NaN half is reproduced bit for bit; a NaN comes back as a NaN. -/
theorem C14_roundtrip (h : Nat) (hh : h < 65536) :
    (F16.isNaN h = false → pack (unpack h) = h) ∧ (F16.isNaN h = true → F16.isNaN (pack (unpack h)) = true) := by
  have sp := chkHalf_spec h (chkHalf_all h hh)
  exact ⟨fun hn => (sp.2.2.2 hn).1, fun hn => (sp.2.2.1 hn).2.1⟩

/-! ## pack (all 2^32 patterns) -/

/-- The result is a 16-bit pattern carrying the sign bit of the argument (also for NaNs and zeros). -/
theorem C14_pack_sign (x : Nat) (hx : x < 4294967296) :
    pack x < 65536 ∧ F16.neg (pack x) = F32.neg x := by
  exact ⟨pack_lt x hx, F16.neg_pack x hx⟩

/-- NaN ↦ NaN, and only NaNs. -/
theorem C14_pack_nan (x : Nat) (hx : x < 4294967296) : F16.isNaN (pack x) = F32.isNaN x := by
  apply bool_eq_of_iff
  rw [F16.isNaN_iff, F32.isNaN_iff, pack_mod x hx]
  exact packMag_nan _ (by omega)

/-- ±infinity ↦ ±infinity. -/
theorem C14_pack_inf (x : Nat) (hx : x < 4294967296) (hi : F32.isInf x = true) : F16.isInf (pack x) = true := by
  have := (F32.isInf_iff x).1 hi
  rw [F16.isInf_iff, pack_mod x hx, this]
  exact packMag_inf

/-- The overflow boundary the code really has: a finite argument becomes ±infinity exactly when
`|x| ≥ 65520` (= the midpoint between the largest finite half 65504 and 2^16, the IEEE-754 threshold). -/
theorem C14_pack_overflow (x : Nat) (hx : x < 4294967296) (hf : F32.isFinite x = true) :
    F16.isInf (pack x) = true ↔ 65520 * 2 ^ 149 ≤ F32.mag x := by
  have hfin := (F32.isFinite_iff x).1 hf
  have hm : F32.mag 1199566848 = 65520 * 2 ^ 149 := by decide
  rw [F16.isInf_iff, pack_mod x hx, packMag_overflow _ hfin, F32.mag_mod x, ← hm]
  constructor
  · intro h; exact F32.mag_mono _ _ h (by omega)
  · intro h; exact F32.le_of_mag_le _ _ (by omega) h

/-- Below the threshold (`|x| < 65520`, which excludes infinities and NaNs) the result is finite and is a
**nearest** finite half: no finite half is closer to the argument.  (Stronger than "faithful".) -/
theorem C14_pack_nearest (x : Nat) (hx : x < 4294967296) (hlt : F32.mag x < 65520 * 2 ^ 149) :
    F16.isFinite (pack x) = true ∧
    ∀ h, h < 65536 → F16.isFinite h = true →
      (F16.val (pack x) - F32.val x).natAbs ≤ (F16.val h - F32.val x).natAbs := by
  have hm : F32.mag 1199566848 = 65520 * 2 ^ 149 := by decide
  have ha : x % 2147483648 < 1199566848 := by
    by_cases c : x % 2147483648 < 1199566848
    · exact c
    · have := F32.mag_mono 1199566848 (x % 2147483648) (by omega) (by omega)
      rw [← F32.mag_mod x, hm] at this
      omega
  obtain ⟨hr, hbr⟩ := packMag_bracket _ ha
  refine ⟨(F16.isFinite_iff _).2 (by rw [pack_mod x hx]; exact hr), ?_⟩
  intro h hh hhf
  have hq := (F16.isFinite_iff h).1 hhf
  have n1 := nearest_of_bracket _ _ (h % 32768) hbr hr hq
  have n0 := nearest_of_bracket _ _ 0 hbr hr (by omega)
  have z : F16.mag 0 = 0 := by decide
  rw [z] at n0
  rw [← F16.mag_mod h, ← F32.mag_mod x, ← F16.mag_pack x hx] at n1
  rw [← F32.mag_mod x, ← F16.mag_pack x hx] at n0
  have hd := pack_div x hx
  have hl := pack_lt x hx
  rw [F32.val_eq x hx, F16.val_eq _ hl, F16.val_eq h hh]
  unfold dist at n0 n1
  generalize F16.mag (pack x) = M at *
  generalize F32.mag x = v at *
  generalize F16.mag h = P at *
  by_cases s1 : 2147483648 ≤ x
  · rw [if_pos s1, if_pos (by omega)]
    by_cases s2 : 32768 ≤ h
    · rw [if_pos s2]; omega
    · rw [if_neg s2]; omega
  · rw [if_neg s1, if_neg (by omega)]
    by_cases s2 : 32768 ≤ h
    · rw [if_pos s2]; omega
    · rw [if_neg s2]; omega

/-- Faithfulness: no finite half lies strictly between the argument and the result; in particular the
result is the argument itself whenever that is representable. -/
theorem C14_pack_faithful (x : Nat) (hx : x < 4294967296)
    (hlt : F32.mag x < 65520 * 2 ^ 149) (h : Nat) (hh : h < 65536) (hhf : F16.isFinite h = true) :
    ¬ (F16.val (pack x) < F16.val h ∧ F16.val h < F32.val x) ∧
    ¬ (F32.val x < F16.val h ∧ F16.val h < F16.val (pack x)) ∧
    (F16.val h = F32.val x → F16.val (pack x) = F32.val x) := by
  have hn := (C14_pack_nearest x hx hlt).2 h hh hhf
  refine ⟨?_, ?_, ?_⟩
  · intro ⟨h1, h2⟩; omega
  · intro ⟨h1, h2⟩; omega
  · intro he; rw [he] at hn; omega

/-- Every finite half is strictly inside the threshold, so for `|x| ≥ 65520` the infinity delivered by
`C14_pack_overflow` is the representable neighbour on the far side (nothing finite lies beyond `x`). -/
theorem C14_half_below_threshold (h : Nat) (hf : F16.isFinite h = true) : F16.mag h < 65520 * 2 ^ 149 := by
  have hfin := (F16.isFinite_iff h).1 hf
  have hm : F16.mag 31743 < 65520 * 2 ^ 149 := by decide
  rw [F16.mag_mod h]
  exact Nat.lt_of_le_of_lt (F16.mag_mono _ _ (by omega) (by omega)) hm

/-- Monotone on all non-NaN arguments, infinities included (`val` of an infinity is `±2^(emax+1)`, which
keeps the order of the extended reals inside each format). -/
theorem C14_pack_monotone (x y : Nat) (hx : x < 4294967296) (hy : y < 4294967296)
    (nx : F32.isNaN x = false) (ny : F32.isNaN y = false) (hle : F32.val x ≤ F32.val y) :
    F16.val (pack x) ≤ F16.val (pack y) := by
  have ha := (F32.isNaN_false_iff x).1 nx
  have hb := (F32.isNaN_false_iff y).1 ny
  have hlx := pack_lt x hx
  have hly := pack_lt y hy
  have hdx := pack_div x hx
  have hdy := pack_div y hy
  -- order of magnitudes ↦ order of result magnitudes
  have key : ∀ a b, a ≤ 2139095040 → b ≤ 2139095040 → F32.mag a ≤ F32.mag b →
      F16.mag (packMag a) ≤ F16.mag (packMag b) := by
    intro a b _ hb' hab
    exact F16.mag_mono _ _ (packMag_mono a b (F32.le_of_mag_le a b (by omega) hab) hb') (packMag_lt b)
  have zero : ∀ a, a ≤ 2139095040 → F32.mag a = 0 → F16.mag (packMag a) = 0 := by
    intro a _ h0
    have : a = 0 := by
      by_cases c : a = 0
      · exact c
      · have := F32.mag_strict 0 a (by omega) (by omega)
        have z : F32.mag 0 = 0 := by decide
        omega
    subst this
    rw [packMag_fin 0 (by omega), packKey_zero _ (by omega)]
    decide
  have kxy := key _ _ ha hb
  have kyx := key _ _ hb ha
  have zx := zero _ ha
  have zy := zero _ hb
  rw [← F32.mag_mod x, ← F32.mag_mod y, ← F16.mag_pack x hx, ← F16.mag_pack y hy] at kxy kyx
  rw [← F32.mag_mod x, ← F16.mag_pack x hx] at zx
  rw [← F32.mag_mod y, ← F16.mag_pack y hy] at zy
  rw [F32.val_eq x hx, F32.val_eq y hy] at hle
  rw [F16.val_eq _ hlx, F16.val_eq _ hly]
  generalize F16.mag (pack x) = Mx at *
  generalize F16.mag (pack y) = My at *
  generalize F32.mag x = vx at *
  generalize F32.mag y = vy at *
  by_cases s1 : 2147483648 ≤ x
  · rw [if_pos s1] at hle; rw [if_pos (show 32768 ≤ pack x by omega)]
    by_cases s2 : 2147483648 ≤ y
    · rw [if_pos s2] at hle; rw [if_pos (show 32768 ≤ pack y by omega)]; omega
    · rw [if_neg s2] at hle; rw [if_neg (show ¬ 32768 ≤ pack y by omega)]; omega
  · rw [if_neg s1] at hle; rw [if_neg (show ¬ 32768 ≤ pack x by omega)]
    by_cases s2 : 2147483648 ≤ y
    · rw [if_pos s2] at hle; rw [if_pos (show 32768 ≤ pack y by omega)]; omega
    · rw [if_neg s2] at hle; rw [if_neg (show ¬ 32768 ≤ pack y by omega)]; omega

/-- The `2^(emax+1)` convention is order-preserving: every finite pattern is strictly below the infinity of
its format in magnitude. -/
theorem C14_inf_convention (x h : Nat) (hf : F32.isFinite x = true) (hhf : F16.isFinite h = true) :
    F32.mag x < F32.mag 0x7F800000 ∧ F16.mag h < F16.mag 0x7C00 := by
  have h1 := (F32.isFinite_iff x).1 hf
  have h2 := (F16.isFinite_iff h).1 hhf
  rw [F32.mag_mod x, F16.mag_mod h]
  exact ⟨F32.mag_strict _ _ h1 (by omega), F16.mag_strict _ _ h2 (by omega)⟩

/-- `pack` ignores the 12 least significant bits of a finite argument (they are masked off before the
multiplication): it factors through the sign and `|x| / 4096`.  This is what reduces the `2^32` inputs to
`2 · 522 240` classes. -/
theorem C14_pack_factors (x y : Nat) (hx : x < 4294967296) (hy : y < 4294967296)
    (hf : F32.isFinite x = true) (hk : x / 4096 = y / 4096) : pack x = pack y := by
  have h1 := (F32.isFinite_iff x).1 hf
  rw [pack_eq x hx, pack_eq y hy, packMag_fin _ h1, packMag_fin _ (by omega)]
  have e1 : x % 2147483648 / 4096 = y % 2147483648 / 4096 := by omega
  have e2 : x / 2147483648 = y / 2147483648 := by omega
  rw [e1, e2]

/-- The round-to-nearest-even packer that models the Python target (`struct.pack("<e", …)`) also reproduces
every non-NaN half after `unpack` and keeps NaNs NaN. -/
theorem C14_packRne_roundtrip (h : Nat) (hh : h < 65536) :
    (F16.isNaN h = false → packRne (unpack h) = h) ∧
    (F16.isNaN h = true → F16.isNaN (packRne (unpack h)) = true) := by
  have sp := chkHalf_spec h (chkHalf_all h hh)
  exact ⟨fun hn => (sp.2.2.2 hn).2.1, fun hn => (sp.2.2.1 hn).2.2⟩

/-! ## the behaviour on ties, as it is (documented for F14; not demanded by C14) -/

/-- Ties go away from zero: `1 + 2^-11` packs to `0x3C01` (round-to-nearest-even would give `0x3C00`),
`2^-25` packs to `0x0001`. -/
example : pack 0x3F801000 = 0x3C01 ∧ packRne 0x3F801000 = 0x3C00 ∧ pack 0x33000000 = 1 ∧ packRne 0x33000000 = 0 := by
  decide

/-! ## non-vacuity -/
example : pack 0x3F800000 = 0x3C00 ∧ unpack 0x3C00 = 0x3F800000 := by decide
example : F32.isFinite 0x477FEFFF = true ∧ F32.mag 0x477FEFFF < 65520 * 2 ^ 149 ∧ pack 0x477FEFFF = 0x7BFF := by decide
example : F32.isFinite 0x477FF000 = true ∧ F32.mag 0x477FF000 = 65520 * 2 ^ 149 ∧ pack 0x477FF000 = 0x7C00 := by decide
example : F16.isNaN 0xFE01 = true ∧ F16.isNaN (pack (unpack 0xFE01)) = true ∧ pack (unpack 0xFE01) ≠ 0xFE01 := by decide
example : F32.val 0xBF800000 ≤ F32.val 0x00000001 ∧ F16.val (pack 0xBF800000) ≤ F16.val (pack 0x00000001) := by decide

end NunavutVerif.Float16
