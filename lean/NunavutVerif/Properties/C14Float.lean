import NunavutVerif.Lemmas.Float16Law
/-!
# C14 (float part) — half-precision conversion of the generated C / C++ support code

Property theorems only.  Definitions: `Model/Float16.lean` (`pack`, `unpack` transcribe `nunavutFloat16Pack` /
`nunavutFloat16Unpack` on bit patterns; `F32.val`, `F16.val`, `F32.mag`, `F16.mag` are the exact values in units of
`2^-149`).  Lemmas: `Lemmas/Float16*.lean`; finite tables: `Lemmas/F16Tables/*.lean`.

Quantifiers: **all** `2^32` binary32 patterns for `pack`, **all** `2^16` binary16 patterns for `unpack`.
The unbounded part is a proof (bit operations → arithmetic, `pack` factors through sign and `|x| / 4096`,
exact scaling for exponent field ≥ 113, collapse to zero for exponent field ≤ 100); the kernel evaluates finite
tables only for the 24 576 keys with exponent field 101..112 and for the 65 536 binary16 patterns.

Modelled, not proved: the hardware binary32 multiplication / addition are `f32mul` / `f32add` (IEEE-754
round-to-nearest-even).  `pack` is the packer as shipped (ties away from zero), `packRneC` the repaired one
(ties to even); both theorem sets are kept, the harness ties the one whose shape the template has.
-/
namespace NunavutVerif.Float16

/-! ## unpack (all 65 536 patterns) -/

/-- `unpack` is exact on every finite half: the returned single denotes the same real number
(signed zero keeps its sign, see `C14_unpack_sign`). -/
theorem C14_unpack_exact (h : Nat) (hh : h < 65536) (hf : F16.isFinite h = true) :
    F32.isFinite (unpack h) = true ∧ F32.val (unpack h) = F16.val h := by
  have sp := chkHalf_spec h (chkHalf_all h hh)
  have hfin := (F16.isFinite_iff h).1 hf
  have hn : F16.isNaN h = false := (F16.isNaN_false_iff h).2 (by omega)
  have hi : F16.isInf h = false := (F16.isInf_false_iff h).2 (by omega)
  obtain ⟨h1, h2, _, h4⟩ := sp
  obtain ⟨_, _, _, _, h5⟩ := h4 hn
  obtain ⟨h6, h7⟩ := h5 hi
  refine ⟨h6, ?_⟩
  rw [F32.val_eq _ h1, F16.val_eq h hh, h7]
  by_cases c : 32768 ≤ h
  · rw [if_pos c, if_pos (by omega)]
  · rw [if_neg c, if_neg (by omega)]

/-- The sign bit travels unchanged through `unpack`, for every pattern including NaNs; the result is a
32-bit pattern. -/
theorem C14_unpack_sign (h : Nat) (hh : h < 65536) :
    unpack h < 4294967296 ∧ F32.neg (unpack h) = F16.neg h := by
  have sp := chkHalf_spec h (chkHalf_all h hh)
  obtain ⟨h1, h2, _, _⟩ := sp
  refine ⟨h1, bool_eq_of_iff ?_⟩
  rw [F32.neg_iff _ h1, F16.neg_iff h hh]
  omega

/-- Infinities stay infinities, NaNs stay NaNs (and nothing else becomes one). -/
theorem C14_unpack_inf_nan (h : Nat) (hh : h < 65536) :
    F32.isInf (unpack h) = F16.isInf h ∧ F32.isNaN (unpack h) = F16.isNaN h := by
  have sp := chkHalf_spec h (chkHalf_all h hh)
  obtain ⟨h1, h2, h3, h4⟩ := sp
  cases hn : F16.isNaN h
  · obtain ⟨_, _, _, h5, h6⟩ := h4 hn
    cases hi : F16.isInf h
    · have hf := (h6 hi).1
      have := (F32.isFinite_iff (unpack h)).1 hf
      exact ⟨(F32.isInf_false_iff _).2 (by omega), (F32.isNaN_false_iff _).2 (by omega)⟩
    · have := (F32.isInf_iff _).1 (h5 hi)
      exact ⟨h5 hi, (F32.isNaN_false_iff _).2 (by omega)⟩
  · have h5 := (h3 hn).1
    have := (F32.isNaN_iff _).1 h5
    have h7 := (F16.isNaN_iff h).1 hn
    exact ⟨by rw [(F32.isInf_false_iff _).2 (by omega), (F16.isInf_false_iff _).2 (by omega)], h5⟩

/-- Round trip: every non-NaN half is reproduced bit for bit; a NaN comes back as a NaN. -/
theorem C14_roundtrip (h : Nat) (hh : h < 65536) :
    (F16.isNaN h = false → pack (unpack h) = h) ∧ (F16.isNaN h = true → F16.isNaN (pack (unpack h)) = true) := by
  have sp := chkHalf_spec h (chkHalf_all h hh)
  exact ⟨fun hn => (sp.2.2.2 hn).1, fun hn => (sp.2.2.1 hn).2.1⟩

/-! ## pack (all 2^32 patterns) -/

/-- The result is a 16-bit pattern carrying the sign bit of the argument (also for NaNs and zeros). -/
theorem C14_pack_sign (x : Nat) (hx : x < 4294967296) :
    pack x < 65536 ∧ F16.neg (pack x) = F32.neg x := by
  exact ⟨gen_lt packs_pack magLaw_pack x hx, gen_neg packs_pack magLaw_pack x hx⟩

/-- NaN ↦ NaN, and only NaNs. -/
theorem C14_pack_nan (x : Nat) (hx : x < 4294967296) : F16.isNaN (pack x) = F32.isNaN x := by
  exact gen_nan packs_pack magLaw_pack x hx

/-- ±infinity ↦ ±infinity. -/
theorem C14_pack_inf (x : Nat) (hx : x < 4294967296) (hi : F32.isInf x = true) : F16.isInf (pack x) = true := by
  exact gen_inf packs_pack magLaw_pack x hx hi

/-- The overflow boundary the code really has: a finite argument becomes ±infinity exactly when
`|x| ≥ 65520` (= the midpoint between the largest finite half 65504 and 2^16, the IEEE-754 threshold). -/
theorem C14_pack_overflow (x : Nat) (hx : x < 4294967296) (hf : F32.isFinite x = true) :
    F16.isInf (pack x) = true ↔ 65520 * 2 ^ 149 ≤ F32.mag x := by
  exact gen_overflow packs_pack magLaw_pack x hx hf

/-- Below the threshold (`|x| < 65520`, which excludes infinities and NaNs) the result is finite and is a
**nearest** finite half: no finite half is closer to the argument.  (Stronger than "faithful".) -/
theorem C14_pack_nearest (x : Nat) (hx : x < 4294967296) (hlt : F32.mag x < 65520 * 2 ^ 149) :
    F16.isFinite (pack x) = true ∧
    ∀ h, h < 65536 → F16.isFinite h = true →
      (F16.val (pack x) - F32.val x).natAbs ≤ (F16.val h - F32.val x).natAbs := by
  exact gen_nearest packs_pack magLaw_pack x hx hlt

/-- Faithfulness: no finite half lies strictly between the argument and the result; in particular the
result is the argument itself whenever that is representable. -/
theorem C14_pack_faithful (x : Nat) (hx : x < 4294967296)
    (hlt : F32.mag x < 65520 * 2 ^ 149) (h : Nat) (hh : h < 65536) (hhf : F16.isFinite h = true) :
    ¬ (F16.val (pack x) < F16.val h ∧ F16.val h < F32.val x) ∧
    ¬ (F32.val x < F16.val h ∧ F16.val h < F16.val (pack x)) ∧
    (F16.val h = F32.val x → F16.val (pack x) = F32.val x) := by
  exact gen_faithful packs_pack magLaw_pack x hx hlt h hh hhf

/-- Every finite half is strictly inside the threshold, so for `|x| ≥ 65520` the infinity delivered by
`C14_pack_overflow` is the representable neighbour on the far side (nothing finite lies beyond `x`). -/
theorem C14_half_below_threshold (h : Nat) (hf : F16.isFinite h = true) : F16.mag h < 65520 * 2 ^ 149 := by
  have hfin := (F16.isFinite_iff h).1 hf
  have hm : F16.mag 31743 < 65520 * 2 ^ 149 := by decide
  rw [F16.mag_mod h]
  exact Nat.lt_of_le_of_lt (F16.mag_mono _ _ (by omega) (by omega)) hm

/-- Monotone on all non-NaN arguments, infinities included (`val` of an infinity is `±2^(emax+1)`, which
keeps the order of the extended reals inside each format). -/
theorem C14_pack_monotone (x y : Nat) (hx : x < 4294967296) (hy : y < 4294967296)
    (nx : F32.isNaN x = false) (ny : F32.isNaN y = false) (hle : F32.val x ≤ F32.val y) :
    F16.val (pack x) ≤ F16.val (pack y) := by
  exact gen_monotone packs_pack magLaw_pack x y hx hy nx ny hle

/-- The `2^(emax+1)` convention is order-preserving: every finite pattern is strictly below the infinity of
its format in magnitude. -/
theorem C14_inf_convention (x h : Nat) (hf : F32.isFinite x = true) (hhf : F16.isFinite h = true) :
    F32.mag x < F32.mag 0x7F800000 ∧ F16.mag h < F16.mag 0x7C00 := by
  have h1 := (F32.isFinite_iff x).1 hf
  have h2 := (F16.isFinite_iff h).1 hhf
  rw [F32.mag_mod x, F16.mag_mod h]
  exact ⟨F32.mag_strict _ _ h1 (by omega), F16.mag_strict _ _ h2 (by omega)⟩

/-- `pack` ignores the 12 least significant bits of a finite argument (they are masked off before the
multiplication): it factors through the sign and `|x| / 4096`.  This is what reduces the `2^32` inputs to
`2 · 522 240` classes. -/
theorem C14_pack_factors (x y : Nat) (hx : x < 4294967296) (hy : y < 4294967296)
    (hf : F32.isFinite x = true) (hk : x / 4096 = y / 4096) : pack x = pack y := by
  have h1 := (F32.isFinite_iff x).1 hf
  rw [pack_eq x hx, pack_eq y hy, packMag_fin _ h1, packMag_fin _ (by omega)]
  have e1 : x % 2147483648 / 4096 = y % 2147483648 / 4096 := by omega
  have e2 : x / 2147483648 = y / 2147483648 := by omega
  rw [e1, e2]

/-- The round-to-nearest-even packer that models the Python target (`struct.pack("<e", …)`) also reproduces
every non-NaN half after `unpack` and keeps NaNs NaN. -/
theorem C14_packRne_roundtrip (h : Nat) (hh : h < 65536) :
    (F16.isNaN h = false → packRne (unpack h) = h) ∧
    (F16.isNaN h = true → F16.isNaN (packRne (unpack h)) = true) := by
  have sp := chkHalf_spec h (chkHalf_all h hh)
  exact ⟨fun hn => (sp.2.2.2 hn).2.1, fun hn => (sp.2.2.1 hn).2.2.1⟩

/-! ## the repaired packer `packRneC` (ties to even; fix for F14) — all 2^32 patterns

Same statements as for `pack`, plus ties-to-even and the equality with the round-to-nearest-even model
`packRne` of the Python target.  Which of the two theorem sets applies to the tree under check is decided by
the harness from the shape of the template (`mant_odd` present ⇒ `packRneC`). -/

theorem C14_packRneC_sign (x : Nat) (hx : x < 4294967296) :
    packRneC x < 65536 ∧ F16.neg (packRneC x) = F32.neg x := by
  exact ⟨gen_lt packs_packRneC magLaw_packRneC x hx, gen_neg packs_packRneC magLaw_packRneC x hx⟩

theorem C14_packRneC_nan (x : Nat) (hx : x < 4294967296) : F16.isNaN (packRneC x) = F32.isNaN x := by
  exact gen_nan packs_packRneC magLaw_packRneC x hx

theorem C14_packRneC_inf (x : Nat) (hx : x < 4294967296) (hi : F32.isInf x = true) :
    F16.isInf (packRneC x) = true := by
  exact gen_inf packs_packRneC magLaw_packRneC x hx hi

/-- Same overflow boundary as before the repair: `|x| ≥ 65520` ⇔ ±infinity. -/
theorem C14_packRneC_overflow (x : Nat) (hx : x < 4294967296) (hf : F32.isFinite x = true) :
    F16.isInf (packRneC x) = true ↔ 65520 * 2 ^ 149 ≤ F32.mag x := by
  exact gen_overflow packs_packRneC magLaw_packRneC x hx hf

theorem C14_packRneC_nearest (x : Nat) (hx : x < 4294967296) (hlt : F32.mag x < 65520 * 2 ^ 149) :
    F16.isFinite (packRneC x) = true ∧
    ∀ h, h < 65536 → F16.isFinite h = true →
      (F16.val (packRneC x) - F32.val x).natAbs ≤ (F16.val h - F32.val x).natAbs := by
  exact gen_nearest packs_packRneC magLaw_packRneC x hx hlt

theorem C14_packRneC_faithful (x : Nat) (hx : x < 4294967296)
    (hlt : F32.mag x < 65520 * 2 ^ 149) (h : Nat) (hh : h < 65536) (hhf : F16.isFinite h = true) :
    ¬ (F16.val (packRneC x) < F16.val h ∧ F16.val h < F32.val x) ∧
    ¬ (F32.val x < F16.val h ∧ F16.val h < F16.val (packRneC x)) ∧
    (F16.val h = F32.val x → F16.val (packRneC x) = F32.val x) := by
  exact gen_faithful packs_packRneC magLaw_packRneC x hx hlt h hh hhf

theorem C14_packRneC_monotone (x y : Nat) (hx : x < 4294967296) (hy : y < 4294967296)
    (nx : F32.isNaN x = false) (ny : F32.isNaN y = false) (hle : F32.val x ≤ F32.val y) :
    F16.val (packRneC x) ≤ F16.val (packRneC y) := by
  exact gen_monotone packs_packRneC magLaw_packRneC x y hx hy nx ny hle

/-- Ties go to even: if `|x|` is exactly half-way between the adjacent finite halves with magnitude patterns
`p` and `p+1`, the result has the even one of the two patterns (and the sign of `x`). -/
theorem C14_packRneC_ties_to_even (x p : Nat) (hx : x < 4294967296) (hp : p + 1 < 31744)
    (hmid : 2 * F32.mag x = F16.mag p + F16.mag (p + 1)) :
    packRneC x % 32768 = if p % 2 = 0 then p else p + 1 := by
  have s1 := F16.mag_strict p (p + 1) (by omega) (by omega)
  have t := C14_half_below_threshold (p + 1) ((F16.isFinite_iff _).2 (by omega))
  have hlt : F32.mag x < 65520 * 2 ^ 149 := by omega
  have ha := gen_below x hlt
  obtain ⟨hr, hb⟩ := packMag2_bracket _ ha
  rw [gen_mod packs_packRneC magLaw_packRneC x hx]
  exact even_of_bracketEven _ _ p hb hr hp (by rw [← F32.mag_mod x]; exact hmid)

/-- Round trip through the repaired packer. -/
theorem C14_packRneC_roundtrip (h : Nat) (hh : h < 65536) :
    (F16.isNaN h = false → packRneC (unpack h) = h) ∧
    (F16.isNaN h = true → F16.isNaN (packRneC (unpack h)) = true) := by
  have sp := chkHalf_spec h (chkHalf_all h hh)
  exact ⟨fun hn => (sp.2.2.2 hn).2.2.1, fun hn => (sp.2.2.1 hn).2.2.2⟩

/-- The repaired C/C++ packer and the round-to-nearest-even model of the Python target
(`struct.pack("<e", …)`) are the same function on all `2^32` patterns (this is the cross-target statement behind
F14; the tie of `packRne` to CPython is by correspondence, see the harness). -/
theorem C14_packRneC_eq_packRne (x : Nat) (hx : x < 4294967296) : packRneC x = packRne x := by
  rw [packRneC_eq x hx, packRne_eq x hx]

/-! ## the behaviour on ties, as it is (documented for F14; not demanded by C14) -/

/-- Ties go away from zero: `1 + 2^-11` packs to `0x3C01` (round-to-nearest-even would give `0x3C00`),
`2^-25` packs to `0x0001`. -/
example : pack 0x3F801000 = 0x3C01 ∧ packRne 0x3F801000 = 0x3C00 ∧ pack 0x33000000 = 1 ∧ packRne 0x33000000 = 0 := by
  decide
/-- The packer before the repair does not round ties to even (regression witness for F14). -/
example : ¬ (pack 0x3F801000 % 32768 = if 0x3C00 % 2 = 0 then 0x3C00 else 0x3C00 + 1) ∧
    2 * F32.mag 0x3F801000 = F16.mag 0x3C00 + F16.mag (0x3C00 + 1) ∧ packRneC 0x3F801000 = 0x3C00 := by
  decide

/-! ## non-vacuity -/
example : pack 0x3F800000 = 0x3C00 ∧ unpack 0x3C00 = 0x3F800000 := by decide
example : F32.isFinite 0x477FEFFF = true ∧ F32.mag 0x477FEFFF < 65520 * 2 ^ 149 ∧ pack 0x477FEFFF = 0x7BFF := by decide
example : F32.isFinite 0x477FF000 = true ∧ F32.mag 0x477FF000 = 65520 * 2 ^ 149 ∧ pack 0x477FF000 = 0x7C00 := by decide
example : F16.isNaN 0xFE01 = true ∧ F16.isNaN (pack (unpack 0xFE01)) = true ∧ pack (unpack 0xFE01) ≠ 0xFE01 := by decide
example : F32.val 0xBF800000 ≤ F32.val 0x00000001 ∧ F16.val (pack 0xBF800000) ≤ F16.val (pack 0x00000001) := by decide
example : packRneC 0x3F800000 = 0x3C00 ∧ packRneC 0x477FEFFF = 0x7BFF ∧ packRneC 0x477FF000 = 0x7C00 ∧
    packRneC 0x33000001 = 1 ∧ packRneC 0x33000000 = 0 ∧ packRneC 0xFFC00001 = 0xFE00 := by decide

end NunavutVerif.Float16
