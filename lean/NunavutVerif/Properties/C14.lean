import NunavutVerif.Lemmas.Bits
import NunavutVerif.Lemmas.BitsCpp
/-!
# C14 — support-library bit primitives are correct for all offsets, lengths and values (integer/bit part)

Property theorems only.  Definitions: `Model/Bits.lean` (C), `Model/BitsCpp.lean` (C++ `bitspan`),
`Model/BitsPy.lean` (Python `Serializer`/`Deserializer`); helper lemmas: `Lemmas/Bits*.lean`.
The half-float part of C14 is in `Properties/C14Float.lean`.

Every theorem quantifies over *all* buffers, offsets, lengths, sizes and values (no bound; induction over the
loop fuel / the byte list and bit-level lemmas over `Nat.testBit`).  A model function returns
`Except Err …`; `Err.oob` is an access outside a buffer, so `… = .ok r` *is* the statement "no out-of-bounds
access" (and no signed overflow, no wrap-around, no fuel exhaustion).  `bitAt b i` is bit `i` of buffer `b`
(LSB first in each byte, `false` outside), `zbit b size i` the same with only the first `size` bytes counted
(implicit zero extension), `fieldOf bit n` the number with bits `bit 0 … bit (n-1)`.
-/
namespace NunavutVerif.Bits

/-! ## C: `nunavut/support/serialization.h` -/

/-- T1 `nunavutCopyBits`, both branches (aligned `memmove` + last-byte mask; unaligned loop): under the documented
size precondition ("both source and destination shall be large enough") no access is out of bounds, the
destination keeps its size, and bit `i` of the result is source bit `sOff + (i - dOff)` inside
`[dOff, dOff+len)` and the old destination bit everywhere else. -/
theorem C14_copyBits (dst : Buf) (dOff len : Nat) (src : Buf) (sOff : Nat)
    (hs : len ≠ 0 → sOff + len ≤ src.length * 8) (hd : len ≠ 0 → dOff + len ≤ dst.length * 8) :
    ∃ r, copyBits dst dOff len src sOff = .ok r ∧ r.length = dst.length ∧ (WF src → WF dst → WF r) ∧
      ∀ i, bitAt r i = if dOff ≤ i ∧ i < dOff + len then bitAt src (sOff + (i - dOff)) else bitAt dst i :=
  copyBits_spec' dst dOff len src sOff hs hd

/-- T1 corollary: the result is *determined* by the specification, i.e. the aligned and the unaligned branch
compute the same function (any two results that meet the bit specification are the same buffer). -/
theorem C14_copyBits_unique (dst r₁ r₂ : Buf) (h₁ : r₁.length = dst.length) (h₂ : r₂.length = dst.length)
    (w₁ : WF r₁) (w₂ : WF r₂) (spec : Nat → Bool)
    (b₁ : ∀ i, bitAt r₁ i = spec i) (b₂ : ∀ i, bitAt r₂ i = spec i) : r₁ = r₂ :=
  eq_of_bitAt (by omega) w₁ w₂ (fun i => by rw [b₁, b₂])

/-- `nunavutSaturateBufferFragmentBitLength` is `min len (size·8 ∸ off)`. -/
theorem C14_saturate (size off len : Nat) : saturate size off len = min len (size * 8 - off) :=
  saturate_eq size off len

/-- T2 `nunavutGetBits`: for every offset, length and buffer size there is no out-of-bounds access (given an
output of at least `ceil(len/8)` bytes, as documented), the first `ceil(len/8)` output bytes hold bits
`[off, off+len)` of the buffer with bits beyond the buffer read as 0 and zero padding up to the byte, and the rest
of the output is untouched. -/
theorem C14_getBits (out buf : Buf) (size off len : Nat) (hsize : size ≤ buf.length)
    (hout : (len + 7) / 8 ≤ out.length) :
    ∃ r, getBits out buf size off len = .ok r ∧ r.length = out.length ∧ (WF buf → WF out → WF r) ∧
      ∀ i, bitAt r i =
        if i < (len + 7) / 8 * 8 then (decide (i < len) && zbit buf size (off + i)) else bitAt out i :=
  getBits_spec out buf size off len hsize hout

/-- T3a `nunavutSetUxx` (both `target_endianness` renderings): a too-small buffer is reported and left unchanged. -/
theorem C14_setUxx_too_small (little : Bool) (buf : Buf) (size off value len : Nat) (h : size * 8 < off + len) :
    setUxx little buf size off value len = .ok (errTooSmall, buf) :=
  setUxx_small little buf size off value len h

/-- T3b `nunavutSetUxx`: otherwise success is returned, nothing is accessed out of bounds, and exactly the
`min len 64` addressed bits change, to the low bits of the value. -/
theorem C14_setUxx_writes (little : Bool) (buf : Buf) (size off value len : Nat) (hsize : size ≤ buf.length)
    (h : ¬ size * 8 < off + len) :
    ∃ r, setUxx little buf size off value len = .ok (0, r) ∧ r.length = buf.length ∧ (WF buf → WF r) ∧
      ∀ i, bitAt r i = if off ≤ i ∧ i < off + min len 64 then value.testBit (i - off) else bitAt buf i :=
  setUxx_spec little buf size off value len hsize h

/-- T3c `nunavutSetIxx`: as `SetUxx`, the written bits are the two's-complement bits of the value. -/
theorem C14_setIxx (little : Bool) (buf : Buf) (size off : Nat) (value : Int) (len : Nat)
    (hsize : size ≤ buf.length) :
    (size * 8 < off + len → setIxx little buf size off value len = .ok (errTooSmall, buf)) ∧
    (¬ size * 8 < off + len →
      ∃ r, setIxx little buf size off value len = .ok (0, r) ∧ r.length = buf.length ∧ (WF buf → WF r) ∧
        ∀ i, bitAt r i =
          if off ≤ i ∧ i < off + min len 64 then (value % 2 ^ 64).toNat.testBit (i - off) else bitAt buf i) :=
  ⟨fun h => setUxx_small little buf size off _ len h, fun h => setUxx_spec little buf size off _ len hsize h⟩

/-- T3d `nunavutSetBit`: error ⇔ the bit lies outside the buffer (buffer unchanged); otherwise exactly that bit is
set to the value. -/
theorem C14_setBit (buf : Buf) (size off : Nat) (value : Bool) (hsize : size ≤ buf.length) :
    (size * 8 ≤ off → setBit buf size off value = .ok (errTooSmall, buf)) ∧
    (¬ size * 8 ≤ off →
      ∃ r, setBit buf size off value = .ok (0, r) ∧ r.length = buf.length ∧ (WF buf → WF r) ∧
        ∀ i, bitAt r i = if i = off then value else bitAt buf i) :=
  ⟨setBit_small buf size off value, setBit_spec buf size off value hsize⟩

/-- `fieldOf` is characterised by its bits (so the statements below determine the returned numbers). -/
theorem C14_fieldOf_bits (bit : Nat → Bool) (n i : Nat) :
    (fieldOf bit n).testBit i = (decide (i < n) && bit i) :=
  testBit_fieldOf bit n i

/-- T4a `nunavutGetU8/16/32/64` (`W` = 8, 16, 32, 64; both renderings): for every offset, length and size the
result is the zero-extended bit field of saturated width `min len W`; nothing is read out of bounds. -/
theorem C14_getU (little : Bool) (W : Nat) (buf : Buf) (size off len : Nat) (hW : W % 8 = 0)
    (hsize : size ≤ buf.length) (hw : WF buf) :
    getU little W buf size off len = .ok (fieldOf (fun i => zbit buf size (off + i)) (min len W)) :=
  getU_spec little W buf size off len hW hsize hw

/-- T4b `nunavutGetI8/16/32/64`: two's-complement sign extension of the field of `sat = min len W` bits
(`u - 2^sat` when its top bit is set), through the `(-(intW_t) ~val) - 1` formulation, without signed overflow. -/
theorem C14_getI (little : Bool) (W : Nat) (buf : Buf) (size off len : Nat) (hW : W % 8 = 0) (hW0 : 0 < W)
    (hW64 : W ≤ 64) (hsize : size ≤ buf.length) (hw : WF buf) :
    getI little W buf size off len = .ok
      (let sat := min len W
       let u := fieldOf (fun i => zbit buf size (off + i)) sat
       if sat > 0 ∧ u.testBit (sat - 1) then (u : Int) - 2 ^ sat else (u : Int)) :=
  getI_spec little W buf size off len hW hW0 hW64 hsize hw

/-- T4c `nunavutGetBit`: the addressed bit, `false` beyond the buffer. -/
theorem C14_getBit (buf : Buf) (size off : Nat) (hsize : size ≤ buf.length) (hw : WF buf) :
    getBit buf size off = .ok (zbit buf size off) := by
  unfold getBit
  rw [getU_spec false 8 buf size off 1 (by omega) hsize hw]
  simp only [bind, Except.bind]
  cases h : zbit buf size off <;> simp [fieldOf, h]

/-- The `target_endianness: little` rendering computes the same functions as the portable one. -/
theorem C14_little_eq_any (W : Nat) (buf : Buf) (size off len value : Nat) (v : Int) (hW : W % 8 = 0)
    (hW0 : 0 < W) (hW64 : W ≤ 64) (hsize : size ≤ buf.length) (hw : WF buf) :
    getU true W buf size off len = getU false W buf size off len ∧
    getI true W buf size off len = getI false W buf size off len ∧
    setUxx true buf size off value len = setUxx false buf size off value len ∧
    setIxx true buf size off v len = setIxx false buf size off v len := by
  have hset : ∀ value, setUxx true buf size off value len = setUxx false buf size off value len := by
    intro value
    by_cases h : size * 8 < off + len
    · rw [setUxx_small _ _ _ _ _ _ h, setUxx_small _ _ _ _ _ _ h]
    · obtain ⟨r₁, e₁, l₁, w₁, b₁⟩ := setUxx_spec true buf size off value len hsize h
      obtain ⟨r₂, e₂, l₂, w₂, b₂⟩ := setUxx_spec false buf size off value len hsize h
      rw [e₁, e₂, eq_of_bitAt (by omega) (w₁ hw) (w₂ hw) (fun i => by rw [b₁, b₂])]
  refine ⟨?_, ?_, hset value, hset _⟩
  · rw [getU_spec _ _ _ _ _ _ hW hsize hw, getU_spec _ _ _ _ _ _ hW hsize hw]
  · rw [getI_spec _ _ _ _ _ _ hW hW0 hW64 hsize hw, getI_spec _ _ _ _ _ _ hW hW0 hW64 hsize hw]

/-! ### non-vacuity: the hypotheses are met by non-trivial states, and the functions really compute -/

-- unaligned copy of 11 bits from source bit 3 to destination bit 5
example : copyBits [0xFF, 0x00, 0xFF] 5 11 [0xA5, 0x3C, 0x7E] 3 = .ok [0x9F, 0xF2, 0xFF] := by decide
-- aligned copy of 11 bits (memmove + last-byte mask)
example : copyBits [0xFF, 0xFF, 0xFF] 8 11 [0xA5, 0x3C, 0x7E] 8 = .ok [0xFF, 0x3C, 0xFE] := by decide
-- a destination that is too small is detected by the model (the precondition of T1 is not vacuous)
example : copyBits [0xFF] 5 11 [0xA5, 0x3C, 0x7E] 3 = .error .oob := by decide
-- zero extension beyond the buffer
example : getBits [0xAA, 0xAA, 0xAA] [0xFF, 0xFF] 2 12 9 = .ok [0x0F, 0x00, 0xAA] := by decide
example : setUxx false [0, 0, 0] 3 7 0x1FF 9 = .ok (0, [0x80, 0xFF, 0]) := by decide
example : setUxx true [0, 0] 2 8 1 9 = .ok (errTooSmall, [0, 0]) := by decide
example : getU false 16 [0x80, 0xFF, 0] 3 7 9 = .ok 0x1FF := by decide
example : getI false 16 [0x80, 0xFF, 0] 3 7 9 = .ok (-1) := by decide
example : getI true 8 [0xFF] 1 4 8 = .ok 15 := by decide
example : getI true 8 [0xFF] 1 4 3 = .ok (-1) := by decide

/-! ## C++: `nunavut/support/serialization.hpp` (`bitspan`, `const_bitspan`)

A span is `⟨data, off⟩`: the bytes `data_` refers to and `offset_bits_`. -/

/-- T1 (C++) `const_bitspan::copyTo`: the length is clamped to the size of the source; under the asserted
precondition `length_bits <= dst.size()` (for the clamped length) nothing is accessed outside either span and
exactly the addressed destination bits receive the source bits. -/
theorem C14_cpp_copyTo (src dst : Cpp.Span) (len : Nat)
    (hd : min len src.size ≠ 0 → dst.off + min len src.size ≤ dst.data.length * 8) :
    ∃ r, Cpp.copyTo src dst len = .ok r ∧ r.length = dst.data.length ∧ (WF src.data → WF dst.data → WF r) ∧
      ∀ i, bitAt r i = if dst.off ≤ i ∧ i < dst.off + min len src.size
        then bitAt src.data (src.off + (i - dst.off)) else bitAt dst.data i :=
  Cpp.copyTo_spec src dst len hd

/-- `copyTo` is the C `nunavutCopyBits` on the clamped length (both branches). -/
theorem C14_cpp_copyTo_eq_c (src dst : Cpp.Span) (len : Nat) :
    Cpp.copyTo src dst len = copyBits dst.data dst.off (min len src.size) src.data src.off :=
  Cpp.copyTo_eq src dst len

/-- T2 (C++) `const_bitspan::getBits`: zero-extended, zero-padded, never out of bounds (output of at least
`ceil(len/8)` bytes, as asserted). -/
theorem C14_cpp_getBits (src : Cpp.Span) (out : Buf) (len : Nat) (hout : (len + 7) / 8 ≤ out.length) :
    ∃ r, Cpp.getBits src out len = .ok r ∧ r.length = out.length ∧ (WF src.data → WF out → WF r) ∧
      ∀ i, bitAt r i =
        if i < (len + 7) / 8 * 8 then (decide (i < len) && bitAt src.data (src.off + i)) else bitAt out i := by
  rw [Cpp.getBits_eq]
  obtain ⟨r, h1, h2, h3, h4⟩ := getBits_spec out src.data src.data.length src.off len (Nat.le_refl _) hout
  refine ⟨r, h1, h2, h3, fun i => ?_⟩
  rw [h4 i]
  by_cases hA : i < (len + 7) / 8 * 8
  · simp only [hA, if_true, zbit]
    by_cases hB : src.off + i < src.data.length * 8
    · simp [hB]
    · have : src.data.length ≤ (src.off + i) / 8 := by omega
      simp [hB, bitAt_of_ge this]
  · simp only [hA, if_false]

/-- T3 (C++) `bitspan::setUxx`: error ⇔ `size·8 < off + len`, then unchanged; otherwise exactly the `min len 64`
addressed bits become the low bits of the value. -/
theorem C14_cpp_setUxx (sp : Cpp.Span) (value len : Nat) :
    (sp.data.length * 8 < sp.off + len → Cpp.setUxx sp value len = .ok (errTooSmall, sp.data)) ∧
    (¬ sp.data.length * 8 < sp.off + len →
      ∃ r, Cpp.setUxx sp value len = .ok (0, r) ∧ r.length = sp.data.length ∧ (WF sp.data → WF r) ∧
        ∀ i, bitAt r i =
          if sp.off ≤ i ∧ i < sp.off + min len 64 then value.testBit (i - sp.off) else bitAt sp.data i) := by
  rw [Cpp.setUxx_eq]
  exact ⟨setUxx_small false sp.data _ sp.off value len,
    setUxx_spec false sp.data _ sp.off value len (Nat.le_refl _)⟩

/-- T3 (C++) `bitspan::setIxx`: the same with the two's-complement bits of the value. -/
theorem C14_cpp_setIxx (sp : Cpp.Span) (value : Int) (len : Nat) :
    (sp.data.length * 8 < sp.off + len → Cpp.setIxx sp value len = .ok (errTooSmall, sp.data)) ∧
    (¬ sp.data.length * 8 < sp.off + len →
      ∃ r, Cpp.setIxx sp value len = .ok (0, r) ∧ r.length = sp.data.length ∧ (WF sp.data → WF r) ∧
        ∀ i, bitAt r i =
          if sp.off ≤ i ∧ i < sp.off + min len 64 then (value % 2 ^ 64).toNat.testBit (i - sp.off)
          else bitAt sp.data i) :=
  C14_cpp_setUxx sp (toU64 value) len

/-- T3 (C++) `bitspan::setBit`. -/
theorem C14_cpp_setBit (sp : Cpp.Span) (value : Bool) :
    (sp.data.length * 8 ≤ sp.off → Cpp.setBit sp value = .ok (errTooSmall, sp.data)) ∧
    (¬ sp.data.length * 8 ≤ sp.off →
      ∃ r, Cpp.setBit sp value = .ok (0, r) ∧ r.length = sp.data.length ∧ (WF sp.data → WF r) ∧
        ∀ i, bitAt r i = if i = sp.off then value else bitAt sp.data i) := by
  rw [Cpp.setBit_eq]
  exact ⟨setBit_small sp.data _ sp.off value, setBit_spec sp.data _ sp.off value (Nat.le_refl _)⟩

/-- T4 (C++) `const_bitspan::getU8/16/32/64`: the zero-extended field of `min len W` bits. -/
theorem C14_cpp_getU (W : Nat) (sp : Cpp.Span) (len : Nat) (hW : W % 8 = 0) (hw : WF sp.data) :
    Cpp.getU W sp len = .ok (fieldOf (fun i => bitAt sp.data (sp.off + i)) (min len W)) :=
  Cpp.getU_spec W sp len hW hw

/-- T4 (C++) `const_bitspan::getI8/16/32/64`: two's-complement sign extension, no signed overflow. -/
theorem C14_cpp_getI (W : Nat) (sp : Cpp.Span) (len : Nat) (hW : W % 8 = 0) (hW0 : 0 < W) (hW64 : W ≤ 64)
    (hw : WF sp.data) :
    Cpp.getI W sp len = .ok
      (let sat := min len W
       let u := fieldOf (fun i => bitAt sp.data (sp.off + i)) sat
       if sat > 0 ∧ u.testBit (sat - 1) then (u : Int) - 2 ^ sat else (u : Int)) :=
  Cpp.getI_spec W sp len hW hW0 hW64 hw

/-- T4 (C++) `const_bitspan::getBit`. -/
theorem C14_cpp_getBit (sp : Cpp.Span) (hw : WF sp.data) : Cpp.getBit sp = .ok (bitAt sp.data sp.off) := by
  unfold Cpp.getBit
  rw [Cpp.getU_spec 8 sp 1 (by omega) hw]
  simp only [bind, Except.bind]
  cases h : bitAt sp.data sp.off <;> simp [fieldOf, h]

/-- T7 `bitspan::setZeros` (after the proposed fix), full statement: a range that does not fit is reported
(`-3`, nothing changed); otherwise every bit of `[off, off+len)` is zero afterwards, every other bit is
untouched, and no access leaves the span. -/
theorem C14_cpp_setZeros (sp : Cpp.Span) (len : Nat) :
    (len > sp.size → Cpp.setZeros sp len = .ok (errTooSmall, sp.data)) ∧
    (¬ len > sp.size →
      ∃ r, Cpp.setZeros sp len = .ok (0, r) ∧ r.length = sp.data.length ∧ (WF sp.data → WF r) ∧
        ∀ i, bitAt r i = if sp.off ≤ i ∧ i < sp.off + len then false else bitAt sp.data i) :=
  ⟨Cpp.setZeros_small sp len, Cpp.setZeros_spec sp len⟩

/-- `bitspan::padAndMoveToAlignment(n)` for `0 < n < 256` (the generated code uses 8, 16, 32, 64), on top of the
repaired `setZeros`: pads with zeros exactly up to the next multiple of `n`, or reports `-3`. -/
theorem C14_cpp_padAndMoveToAlignment (sp : Cpp.Span) (n : Nat) (hn0 : 0 < n) (hn : n < 256) :
    (sp.off % n = 0 → Cpp.padAndMoveToAlignment sp n = .ok (0, sp.data, sp.off)) ∧
    (sp.off % n ≠ 0 → n - sp.off % n > sp.size →
      Cpp.padAndMoveToAlignment sp n = .ok (errTooSmall, sp.data, sp.off)) ∧
    (sp.off % n ≠ 0 → ¬ n - sp.off % n > sp.size →
      ∃ r, Cpp.padAndMoveToAlignment sp n = .ok (0, r, sp.off + (n - sp.off % n)) ∧
        (sp.off + (n - sp.off % n)) % n = 0 ∧ r.length = sp.data.length ∧ (WF sp.data → WF r) ∧
        ∀ i, bitAt r i = if sp.off ≤ i ∧ i < sp.off + (n - sp.off % n) then false else bitAt sp.data i) :=
  Cpp.pad_spec sp n hn0 hn

/-- `bitspan::subspan(bits_at, size_bits)`: error ⇔ the window ends after the data; otherwise the window lies
inside the data and starts at the addressed bit (its byte count is rounded down). -/
theorem C14_cpp_subspan (sp : Cpp.Span) (bitsAt sizeBits : Nat) :
    (sp.data.length * 8 < sp.off + bitsAt + sizeBits → Cpp.subspan sp bitsAt sizeBits = (errTooSmall, 0, 0, 0)) ∧
    (¬ sp.data.length * 8 < sp.off + bitsAt + sizeBits →
      ∃ first nbytes noff, Cpp.subspan sp bitsAt sizeBits = (0, first, nbytes, noff) ∧
        first * 8 + noff = sp.off + bitsAt ∧ noff < 8 ∧ first + nbytes ≤ sp.data.length ∧
        nbytes = (noff + sizeBits) / 8) :=
  Cpp.subspan_spec sp bitsAt sizeBits

/-! ### the shipped `setZeros` violates the statement (DESIGN F8) — regression witnesses

`uint7 a; void2; uint7 b`: two zero bits at offset 7 — bit 8 is addressed and stays 1. -/
example : Cpp.setZerosBeforeFix ⟨[0xFF, 0xFF], 7⟩ 2 = .ok (0, [0x7F, 0xFF]) := by decide
example : ¬ (∃ r, Cpp.setZerosBeforeFix ⟨[0xFF, 0xFF], 7⟩ 2 = .ok (0, r) ∧
    ∀ i, bitAt r i = if 7 ≤ i ∧ i < 7 + 2 then false else bitAt [0xFF, 0xFF] i) := by
  rintro ⟨r, h, hb⟩
  have hr : r = [0x7F, 0xFF] := by
    have : Cpp.setZerosBeforeFix ⟨[0xFF, 0xFF], 7⟩ 2 = .ok (0, [0x7F, 0xFF]) := by decide
    rw [this] at h; injection h with h; injection h with _ h; exact h.symm
  subst hr
  have := hb 8
  revert this; decide
-- 14 bits at offset 3 need three bytes, `ceil(14/8) = 2` are cleared: bit 16 stays 1
example : Cpp.setZerosBeforeFix ⟨[0xFF, 0xFF, 0xFF], 3⟩ 14 = .ok (0, [0x07, 0x00, 0xFF]) := by decide
-- and bits after the range are cleared: one bit at offset 0 wipes the whole byte
example : Cpp.setZerosBeforeFix ⟨[0xFF], 0⟩ 1 = .ok (0, [0x00]) := by decide
-- `padAndMoveToAlignment` is not affected in this instance (its range ends on a byte boundary); `void` fields are
example : Cpp.padAndMoveToAlignmentBeforeFix ⟨[0xFF, 0xFF], 7⟩ 8 = .ok (0, [0x7F, 0xFF], 8) := by decide
-- the repaired function on the same inputs
example : Cpp.setZeros ⟨[0xFF, 0xFF], 7⟩ 2 = .ok (0, [0x7F, 0xFE]) := by decide
example : Cpp.setZeros ⟨[0xFF, 0xFF, 0xFF], 3⟩ 14 = .ok (0, [0x07, 0x00, 0xFE]) := by decide
example : Cpp.setZeros ⟨[0xFF], 0⟩ 1 = .ok (0, [0xFE]) := by decide
example : Cpp.padAndMoveToAlignment ⟨[0xFF, 0xFF, 0xFF], 7⟩ 16 = .ok (0, [0x7F, 0x00, 0xFF], 16) := by decide
-- other non-vacuity witnesses
example : Cpp.subspan ⟨[1, 2, 3, 4], 3⟩ 7 12 = (0, 1, 1, 2) := by decide
example : Cpp.getI 16 ⟨[0x80, 0xFF, 0], 7⟩ 9 = .ok (-1) := by decide
example : Cpp.setUxx ⟨[0, 0, 0], 7⟩ 0x1FF 9 = .ok (0, [0x80, 0xFF, 0]) := by decide
example : Cpp.getBits ⟨[0xFF, 0xFF], 12⟩ [0xAA, 0xAA, 0xAA] 9 = .ok [0x0F, 0x00, 0xAA] := by decide


end NunavutVerif.Bits
