import NunavutVerif.Lemmas.Bits
import NunavutVerif.Lemmas.BitsCpp
import NunavutVerif.Lemmas.BitsPy
/-!
# C14 — support-library bit primitives are correct for all offsets, lengths and values (integer/bit part)

Property theorems only.  Definitions: `Model/Bits.lean` (C), `Model/BitsCpp.lean` (C++ `bitspan`),
`Model/BitsPy.lean` (Python `Serializer`/`Deserializer`); helper lemmas: `Lemmas/Bits*.lean`.
The half-float part of C14 is in `Properties/C14Float.lean`.

Every theorem quantifies over *all* buffers, offsets, lengths, sizes and values (no bound; induction over the
loop fuel / the byte list and bit-level lemmas over `Nat.testBit`).  A model function returns
`Except Err …`; `Err.oob` is an access outside a buffer, so `… = .ok r` *is* the statement "no out-of-bounds
access" (and no signed overflow, no wrap-around, no fuel exhaustion).  `bitAt b i` is bit `i` of buffer `b`
(LSB first in each byte, `false` outside), `zbit b size i` the same with only the first `size` bytes counted
(implicit zero extension), `fieldOf bit n` the number with bits `bit 0 … bit (n-1)`.
-/
namespace NunavutVerif.Bits

/-! ## C: `nunavut/support/serialization.h` -/

/-- T1 `nunavutCopyBits`, both branches (aligned `memmove` + last-byte mask; unaligned loop): under the documented
size precondition ("both source and destination shall be large enough") no access is out of bounds, the
destination keeps its size, and bit `i` of the result is source bit `sOff + (i - dOff)` inside
`[dOff, dOff+len)` and the old destination bit everywhere else. -/
theorem C14_copyBits (dst : Buf) (dOff len : Nat) (src : Buf) (sOff : Nat)
    (hs : len ≠ 0 → sOff + len ≤ src.length * 8) (hd : len ≠ 0 → dOff + len ≤ dst.length * 8) :
    ∃ r, copyBits dst dOff len src sOff = .ok r ∧ r.length = dst.length ∧ (WF src → WF dst → WF r) ∧
      ∀ i, bitAt r i = if dOff ≤ i ∧ i < dOff + len then bitAt src (sOff + (i - dOff)) else bitAt dst i :=
  copyBits_spec' dst dOff len src sOff hs hd

/-- T1 corollary: the result is *determined* by the specification, i.e. the aligned and the unaligned branch
compute the same function (any two results that meet the bit specification are the same buffer). -/
theorem C14_copyBits_unique (dst r₁ r₂ : Buf) (h₁ : r₁.length = dst.length) (h₂ : r₂.length = dst.length)
    (w₁ : WF r₁) (w₂ : WF r₂) (spec : Nat → Bool)
    (b₁ : ∀ i, bitAt r₁ i = spec i) (b₂ : ∀ i, bitAt r₂ i = spec i) : r₁ = r₂ :=
  eq_of_bitAt (by omega) w₁ w₂ (fun i => by rw [b₁, b₂])

/-- Fuel sufficiency of the loop model: for *any* buffers, offsets and length (also outside the size precondition)
the model of `nunavutCopyBits` never runs out of fuel, i.e. the `while (last_bit > src_off)` loop terminates
within `length_bits` iterations; the only possible failure is an access outside a buffer. -/
theorem C14_copyBits_fuel_sufficient (dst : Buf) (dOff len : Nat) (src : Buf) (sOff : Nat) :
    copyBits dst dOff len src sOff ≠ .error .fuel :=
  copyBits_no_fuel dst dOff len src sOff

/-- `nunavutSaturateBufferFragmentBitLength` is `min len (size·8 ∸ off)`. -/
theorem C14_saturate (size off len : Nat) : saturate size off len = min len (size * 8 - off) :=
  saturate_eq size off len

/-- T2 `nunavutGetBits`: for every offset, length and buffer size there is no out-of-bounds access (given an
output of at least `ceil(len/8)` bytes, as documented), the first `ceil(len/8)` output bytes hold bits
`[off, off+len)` of the buffer with bits beyond the buffer read as 0 and zero padding up to the byte, and the rest
of the output is untouched. -/
theorem C14_getBits (out buf : Buf) (size off len : Nat) (hsize : size ≤ buf.length)
    (hout : (len + 7) / 8 ≤ out.length) :
    ∃ r, getBits out buf size off len = .ok r ∧ r.length = out.length ∧ (WF buf → WF out → WF r) ∧
      ∀ i, bitAt r i =
        if i < (len + 7) / 8 * 8 then (decide (i < len) && zbit buf size (off + i)) else bitAt out i :=
  getBits_spec out buf size off len hsize hout

/-- T3a `nunavutSetUxx` (both `target_endianness` renderings): a too-small buffer is reported and left unchanged. -/
theorem C14_setUxx_too_small (little : Bool) (buf : Buf) (size off value len : Nat) (h : size * 8 < off + len) :
    setUxx little buf size off value len = .ok (errTooSmall, buf) :=
  setUxx_small little buf size off value len h

/-- T3b `nunavutSetUxx`: otherwise success is returned, nothing is accessed out of bounds, and exactly the
`min len 64` addressed bits change, to the low bits of the value. -/
theorem C14_setUxx_writes (little : Bool) (buf : Buf) (size off value len : Nat) (hsize : size ≤ buf.length)
    (h : ¬ size * 8 < off + len) :
    ∃ r, setUxx little buf size off value len = .ok (0, r) ∧ r.length = buf.length ∧ (WF buf → WF r) ∧
      ∀ i, bitAt r i = if off ≤ i ∧ i < off + min len 64 then value.testBit (i - off) else bitAt buf i :=
  setUxx_spec little buf size off value len hsize h

/-- T3c `nunavutSetIxx`: as `SetUxx`, the written bits are the two's-complement bits of the value. -/
theorem C14_setIxx (little : Bool) (buf : Buf) (size off : Nat) (value : Int) (len : Nat)
    (hsize : size ≤ buf.length) :
    (size * 8 < off + len → setIxx little buf size off value len = .ok (errTooSmall, buf)) ∧
    (¬ size * 8 < off + len →
      ∃ r, setIxx little buf size off value len = .ok (0, r) ∧ r.length = buf.length ∧ (WF buf → WF r) ∧
        ∀ i, bitAt r i =
          if off ≤ i ∧ i < off + min len 64 then (value % 2 ^ 64).toNat.testBit (i - off) else bitAt buf i) :=
  ⟨fun h => setUxx_small little buf size off _ len h, fun h => setUxx_spec little buf size off _ len hsize h⟩

/-- T3d `nunavutSetBit`: error ⇔ the bit lies outside the buffer (buffer unchanged); otherwise exactly that bit is
set to the value. -/
theorem C14_setBit (buf : Buf) (size off : Nat) (value : Bool) (hsize : size ≤ buf.length) :
    (size * 8 ≤ off → setBit buf size off value = .ok (errTooSmall, buf)) ∧
    (¬ size * 8 ≤ off →
      ∃ r, setBit buf size off value = .ok (0, r) ∧ r.length = buf.length ∧ (WF buf → WF r) ∧
        ∀ i, bitAt r i = if i = off then value else bitAt buf i) :=
  ⟨setBit_small buf size off value, setBit_spec buf size off value hsize⟩

/-- `fieldOf` is characterised by its bits (so the statements below determine the returned numbers). -/
theorem C14_fieldOf_bits (bit : Nat → Bool) (n i : Nat) :
    (fieldOf bit n).testBit i = (decide (i < n) && bit i) :=
  testBit_fieldOf bit n i

/-- T4a `nunavutGetU8/16/32/64` (`W` = 8, 16, 32, 64; both renderings): for every offset, length and size the
result is the zero-extended bit field of saturated width `min len W`; nothing is read out of bounds. -/
theorem C14_getU (little : Bool) (W : Nat) (buf : Buf) (size off len : Nat) (hW : W % 8 = 0)
    (hsize : size ≤ buf.length) (hw : WF buf) :
    getU little W buf size off len = .ok (fieldOf (fun i => zbit buf size (off + i)) (min len W)) :=
  getU_spec little W buf size off len hW hsize hw

/-- T4b `nunavutGetI8/16/32/64`: two's-complement sign extension of the field of `sat = min len W` bits
(`u - 2^sat` when its top bit is set), through the `(-(intW_t) ~val) - 1` formulation, without signed overflow. -/
theorem C14_getI (little : Bool) (W : Nat) (buf : Buf) (size off len : Nat) (hW : W % 8 = 0) (hW0 : 0 < W)
    (hW64 : W ≤ 64) (hsize : size ≤ buf.length) (hw : WF buf) :
    getI little W buf size off len = .ok
      (let sat := min len W
       let u := fieldOf (fun i => zbit buf size (off + i)) sat
       if sat > 0 ∧ u.testBit (sat - 1) then (u : Int) - 2 ^ sat else (u : Int)) :=
  getI_spec little W buf size off len hW hW0 hW64 hsize hw

/-- T4c `nunavutGetBit`: the addressed bit, `false` beyond the buffer. -/
theorem C14_getBit (buf : Buf) (size off : Nat) (hsize : size ≤ buf.length) (hw : WF buf) :
    getBit buf size off = .ok (zbit buf size off) := by
  unfold getBit
  rw [getU_spec false 8 buf size off 1 (by omega) hsize hw]
  simp only [bind, Except.bind]
  cases h : zbit buf size off <;> simp [fieldOf, h]

/-- The `target_endianness: little` rendering computes the same functions as the portable one. -/
theorem C14_little_eq_any (W : Nat) (buf : Buf) (size off len value : Nat) (v : Int) (hW : W % 8 = 0)
    (hW0 : 0 < W) (hW64 : W ≤ 64) (hsize : size ≤ buf.length) (hw : WF buf) :
    getU true W buf size off len = getU false W buf size off len ∧
    getI true W buf size off len = getI false W buf size off len ∧
    setUxx true buf size off value len = setUxx false buf size off value len ∧
    setIxx true buf size off v len = setIxx false buf size off v len := by
  have hset : ∀ value, setUxx true buf size off value len = setUxx false buf size off value len := by
    intro value
    by_cases h : size * 8 < off + len
    · rw [setUxx_small _ _ _ _ _ _ h, setUxx_small _ _ _ _ _ _ h]
    · obtain ⟨r₁, e₁, l₁, w₁, b₁⟩ := setUxx_spec true buf size off value len hsize h
      obtain ⟨r₂, e₂, l₂, w₂, b₂⟩ := setUxx_spec false buf size off value len hsize h
      rw [e₁, e₂, eq_of_bitAt (by omega) (w₁ hw) (w₂ hw) (fun i => by rw [b₁, b₂])]
  refine ⟨?_, ?_, hset value, hset _⟩
  · rw [getU_spec _ _ _ _ _ _ hW hsize hw, getU_spec _ _ _ _ _ _ hW hsize hw]
  · rw [getI_spec _ _ _ _ _ _ hW hW0 hW64 hsize hw, getI_spec _ _ _ _ _ _ hW hW0 hW64 hsize hw]

/-! ### non-vacuity: the hypotheses are met by non-trivial states, and the functions really compute -/

-- unaligned copy of 11 bits from source bit 3 to destination bit 5
example : copyBits [0xFF, 0x00, 0xFF] 5 11 [0xA5, 0x3C, 0x7E] 3 = .ok [0x9F, 0xF2, 0xFF] := by decide
-- aligned copy of 11 bits (memmove + last-byte mask)
example : copyBits [0xFF, 0xFF, 0xFF] 8 11 [0xA5, 0x3C, 0x7E] 8 = .ok [0xFF, 0x3C, 0xFE] := by decide
-- a destination that is too small is detected by the model (the precondition of T1 is not vacuous)
example : copyBits [0xFF] 5 11 [0xA5, 0x3C, 0x7E] 3 = .error .oob := by decide
-- zero extension beyond the buffer
example : getBits [0xAA, 0xAA, 0xAA] [0xFF, 0xFF] 2 12 9 = .ok [0x0F, 0x00, 0xAA] := by decide
example : setUxx false [0, 0, 0] 3 7 0x1FF 9 = .ok (0, [0x80, 0xFF, 0]) := by decide
example : setUxx true [0, 0] 2 8 1 9 = .ok (errTooSmall, [0, 0]) := by decide
example : getU false 16 [0x80, 0xFF, 0] 3 7 9 = .ok 0x1FF := by decide
example : getI false 16 [0x80, 0xFF, 0] 3 7 9 = .ok (-1) := by decide
example : getI true 8 [0xFF] 1 4 8 = .ok 15 := by decide
example : getI true 8 [0xFF] 1 4 3 = .ok (-1) := by decide

/-! ## C++: `nunavut/support/serialization.hpp` (`bitspan`, `const_bitspan`)

A span is `⟨data, off⟩`: the bytes `data_` refers to and `offset_bits_`. -/

/-- T1 (C++) `const_bitspan::copyTo`: the length is clamped to the size of the source; under the asserted
precondition `length_bits <= dst.size()` (for the clamped length) nothing is accessed outside either span and
exactly the addressed destination bits receive the source bits. -/
theorem C14_cpp_copyTo (src dst : Cpp.Span) (len : Nat)
    (hd : min len src.size ≠ 0 → dst.off + min len src.size ≤ dst.data.length * 8) :
    ∃ r, Cpp.copyTo src dst len = .ok r ∧ r.length = dst.data.length ∧ (WF src.data → WF dst.data → WF r) ∧
      ∀ i, bitAt r i = if dst.off ≤ i ∧ i < dst.off + min len src.size
        then bitAt src.data (src.off + (i - dst.off)) else bitAt dst.data i :=
  Cpp.copyTo_spec src dst len hd

/-- `copyTo` is the C `nunavutCopyBits` on the clamped length (both branches). -/
theorem C14_cpp_copyTo_eq_c (src dst : Cpp.Span) (len : Nat) :
    Cpp.copyTo src dst len = copyBits dst.data dst.off (min len src.size) src.data src.off :=
  Cpp.copyTo_eq src dst len

/-- T2 (C++) `const_bitspan::getBits`: zero-extended, zero-padded, never out of bounds (output of at least
`ceil(len/8)` bytes, as asserted). -/
theorem C14_cpp_getBits (src : Cpp.Span) (out : Buf) (len : Nat) (hout : (len + 7) / 8 ≤ out.length) :
    ∃ r, Cpp.getBits src out len = .ok r ∧ r.length = out.length ∧ (WF src.data → WF out → WF r) ∧
      ∀ i, bitAt r i =
        if i < (len + 7) / 8 * 8 then (decide (i < len) && bitAt src.data (src.off + i)) else bitAt out i := by
  rw [Cpp.getBits_eq]
  obtain ⟨r, h1, h2, h3, h4⟩ := getBits_spec out src.data src.data.length src.off len (Nat.le_refl _) hout
  refine ⟨r, h1, h2, h3, fun i => ?_⟩
  rw [h4 i]
  by_cases hA : i < (len + 7) / 8 * 8
  · simp only [hA, if_true, zbit]
    by_cases hB : src.off + i < src.data.length * 8
    · simp [hB]
    · have : src.data.length ≤ (src.off + i) / 8 := by omega
      simp [hB, bitAt_of_ge this]
  · simp only [hA, if_false]

/-- T3 (C++) `bitspan::setUxx`: error ⇔ `size·8 < off + len`, then unchanged; otherwise exactly the `min len 64`
addressed bits become the low bits of the value. -/
theorem C14_cpp_setUxx (sp : Cpp.Span) (value len : Nat) :
    (sp.data.length * 8 < sp.off + len → Cpp.setUxx sp value len = .ok (errTooSmall, sp.data)) ∧
    (¬ sp.data.length * 8 < sp.off + len →
      ∃ r, Cpp.setUxx sp value len = .ok (0, r) ∧ r.length = sp.data.length ∧ (WF sp.data → WF r) ∧
        ∀ i, bitAt r i =
          if sp.off ≤ i ∧ i < sp.off + min len 64 then value.testBit (i - sp.off) else bitAt sp.data i) := by
  rw [Cpp.setUxx_eq]
  exact ⟨setUxx_small false sp.data _ sp.off value len,
    setUxx_spec false sp.data _ sp.off value len (Nat.le_refl _)⟩

/-- T3 (C++) `bitspan::setIxx`: the same with the two's-complement bits of the value. -/
theorem C14_cpp_setIxx (sp : Cpp.Span) (value : Int) (len : Nat) :
    (sp.data.length * 8 < sp.off + len → Cpp.setIxx sp value len = .ok (errTooSmall, sp.data)) ∧
    (¬ sp.data.length * 8 < sp.off + len →
      ∃ r, Cpp.setIxx sp value len = .ok (0, r) ∧ r.length = sp.data.length ∧ (WF sp.data → WF r) ∧
        ∀ i, bitAt r i =
          if sp.off ≤ i ∧ i < sp.off + min len 64 then (value % 2 ^ 64).toNat.testBit (i - sp.off)
          else bitAt sp.data i) :=
  C14_cpp_setUxx sp (toU64 value) len

/-- T3 (C++) `bitspan::setBit`. -/
theorem C14_cpp_setBit (sp : Cpp.Span) (value : Bool) :
    (sp.data.length * 8 ≤ sp.off → Cpp.setBit sp value = .ok (errTooSmall, sp.data)) ∧
    (¬ sp.data.length * 8 ≤ sp.off →
      ∃ r, Cpp.setBit sp value = .ok (0, r) ∧ r.length = sp.data.length ∧ (WF sp.data → WF r) ∧
        ∀ i, bitAt r i = if i = sp.off then value else bitAt sp.data i) := by
  rw [Cpp.setBit_eq]
  exact ⟨setBit_small sp.data _ sp.off value, setBit_spec sp.data _ sp.off value (Nat.le_refl _)⟩

/-- T4 (C++) `const_bitspan::getU8/16/32/64`: the zero-extended field of `min len W` bits. -/
theorem C14_cpp_getU (W : Nat) (sp : Cpp.Span) (len : Nat) (hW : W % 8 = 0) (hw : WF sp.data) :
    Cpp.getU W sp len = .ok (fieldOf (fun i => bitAt sp.data (sp.off + i)) (min len W)) :=
  Cpp.getU_spec W sp len hW hw

/-- T4 (C++) `const_bitspan::getI8/16/32/64`: two's-complement sign extension, no signed overflow. -/
theorem C14_cpp_getI (W : Nat) (sp : Cpp.Span) (len : Nat) (hW : W % 8 = 0) (hW0 : 0 < W) (hW64 : W ≤ 64)
    (hw : WF sp.data) :
    Cpp.getI W sp len = .ok
      (let sat := min len W
       let u := fieldOf (fun i => bitAt sp.data (sp.off + i)) sat
       if sat > 0 ∧ u.testBit (sat - 1) then (u : Int) - 2 ^ sat else (u : Int)) :=
  Cpp.getI_spec W sp len hW hW0 hW64 hw

/-- T4 (C++) `const_bitspan::getBit`. -/
theorem C14_cpp_getBit (sp : Cpp.Span) (hw : WF sp.data) : Cpp.getBit sp = .ok (bitAt sp.data sp.off) := by
  unfold Cpp.getBit
  rw [Cpp.getU_spec 8 sp 1 (by omega) hw]
  simp only [bind, Except.bind]
  cases h : bitAt sp.data sp.off <;> simp [fieldOf, h]

/-- T7 `bitspan::setZeros` (after the proposed fix), full statement: a range that does not fit is reported
(`-3`, nothing changed); otherwise every bit of `[off, off+len)` is zero afterwards, every other bit is
untouched, and no access leaves the span. -/
theorem C14_cpp_setZeros (sp : Cpp.Span) (len : Nat) :
    (len > sp.size → Cpp.setZeros sp len = .ok (errTooSmall, sp.data)) ∧
    (¬ len > sp.size →
      ∃ r, Cpp.setZeros sp len = .ok (0, r) ∧ r.length = sp.data.length ∧ (WF sp.data → WF r) ∧
        ∀ i, bitAt r i = if sp.off ≤ i ∧ i < sp.off + len then false else bitAt sp.data i) :=
  ⟨Cpp.setZeros_small sp len, Cpp.setZeros_spec sp len⟩

/-- `bitspan::padAndMoveToAlignment(n)` for `0 < n < 256` (the generated code uses 8, 16, 32, 64), on top of the
repaired `setZeros`: pads with zeros exactly up to the next multiple of `n`, or reports `-3`. -/
theorem C14_cpp_padAndMoveToAlignment (sp : Cpp.Span) (n : Nat) (hn0 : 0 < n) (hn : n < 256) :
    (sp.off % n = 0 → Cpp.padAndMoveToAlignment sp n = .ok (0, sp.data, sp.off)) ∧
    (sp.off % n ≠ 0 → n - sp.off % n > sp.size →
      Cpp.padAndMoveToAlignment sp n = .ok (errTooSmall, sp.data, sp.off)) ∧
    (sp.off % n ≠ 0 → ¬ n - sp.off % n > sp.size →
      ∃ r, Cpp.padAndMoveToAlignment sp n = .ok (0, r, sp.off + (n - sp.off % n)) ∧
        (sp.off + (n - sp.off % n)) % n = 0 ∧ r.length = sp.data.length ∧ (WF sp.data → WF r) ∧
        ∀ i, bitAt r i = if sp.off ≤ i ∧ i < sp.off + (n - sp.off % n) then false else bitAt sp.data i) :=
  Cpp.pad_spec sp n hn0 hn

/-- `bitspan::subspan(bits_at, size_bits)`: error ⇔ the window ends after the data; otherwise the window lies
inside the data and starts at the addressed bit (its byte count is rounded down). -/
theorem C14_cpp_subspan (sp : Cpp.Span) (bitsAt sizeBits : Nat) :
    (sp.data.length * 8 < sp.off + bitsAt + sizeBits → Cpp.subspan sp bitsAt sizeBits = (errTooSmall, 0, 0, 0)) ∧
    (¬ sp.data.length * 8 < sp.off + bitsAt + sizeBits →
      ∃ first nbytes noff, Cpp.subspan sp bitsAt sizeBits = (0, first, nbytes, noff) ∧
        first * 8 + noff = sp.off + bitsAt ∧ noff < 8 ∧ first + nbytes ≤ sp.data.length ∧
        nbytes = (noff + sizeBits) / 8) :=
  Cpp.subspan_spec sp bitsAt sizeBits

/-! ### the shipped `setZeros` violates the statement (DESIGN F8) — regression witnesses

`uint7 a; void2; uint7 b`: two zero bits at offset 7 — bit 8 is addressed and stays 1. -/
example : Cpp.setZerosBeforeFix ⟨[0xFF, 0xFF], 7⟩ 2 = .ok (0, [0x7F, 0xFF]) := by decide
example : ¬ (∃ r, Cpp.setZerosBeforeFix ⟨[0xFF, 0xFF], 7⟩ 2 = .ok (0, r) ∧
    ∀ i, bitAt r i = if 7 ≤ i ∧ i < 7 + 2 then false else bitAt [0xFF, 0xFF] i) := by
  rintro ⟨r, h, hb⟩
  have hr : r = [0x7F, 0xFF] := by
    have : Cpp.setZerosBeforeFix ⟨[0xFF, 0xFF], 7⟩ 2 = .ok (0, [0x7F, 0xFF]) := by decide
    rw [this] at h; injection h with h; injection h with _ h; exact h.symm
  subst hr
  have := hb 8
  revert this; decide
-- 14 bits at offset 3 need three bytes, `ceil(14/8) = 2` are cleared: bit 16 stays 1
example : Cpp.setZerosBeforeFix ⟨[0xFF, 0xFF, 0xFF], 3⟩ 14 = .ok (0, [0x07, 0x00, 0xFF]) := by decide
-- and bits after the range are cleared: one bit at offset 0 wipes the whole byte
example : Cpp.setZerosBeforeFix ⟨[0xFF], 0⟩ 1 = .ok (0, [0x00]) := by decide
-- `padAndMoveToAlignment` is not affected in this instance (its range ends on a byte boundary); `void` fields are
example : Cpp.padAndMoveToAlignmentBeforeFix ⟨[0xFF, 0xFF], 7⟩ 8 = .ok (0, [0x7F, 0xFF], 8) := by decide
-- the repaired function on the same inputs
example : Cpp.setZeros ⟨[0xFF, 0xFF], 7⟩ 2 = .ok (0, [0x7F, 0xFE]) := by decide
example : Cpp.setZeros ⟨[0xFF, 0xFF, 0xFF], 3⟩ 14 = .ok (0, [0x07, 0x00, 0xFE]) := by decide
example : Cpp.setZeros ⟨[0xFF], 0⟩ 1 = .ok (0, [0xFE]) := by decide
example : Cpp.padAndMoveToAlignment ⟨[0xFF, 0xFF, 0xFF], 7⟩ 16 = .ok (0, [0x7F, 0x00, 0xFF], 16) := by decide
-- other non-vacuity witnesses
example : Cpp.subspan ⟨[1, 2, 3, 4], 3⟩ 7 12 = (0, 1, 1, 2) := by decide
example : Cpp.getI 16 ⟨[0x80, 0xFF, 0], 7⟩ 9 = .ok (-1) := by decide
example : Cpp.setUxx ⟨[0, 0, 0], 7⟩ 0x1FF 9 = .ok (0, [0x80, 0xFF, 0]) := by decide
example : Cpp.getBits ⟨[0xFF, 0xFF], 12⟩ [0xAA, 0xAA, 0xAA] 9 = .ok [0x0F, 0x00, 0xAA] := by decide


/-! ## Python: `nunavut_support.py` (`Serializer`, `Deserializer`, `ZeroExtendingBuffer`)

A serializer state is `⟨buf, off⟩` (`_buf` including the spare byte of `Serializer.new`, `_bit_offset`).
`s.Inv`: every bit at or above the cursor is zero — true for a fresh serializer and, by the theorems below,
preserved by every `add_*`.  `Py.Appends s s' n bit`: the cursor advanced by `n`, the buffer kept its size, the bits
below the old cursor are untouched, the `n` bits from the old cursor are `bit 0 … bit (n-1)`, everything from the
new cursor on is zero (so `s'.Inv` again).  "Room" hypotheses are the capacity the caller allocates; the
unaligned byte loop needs the one spare byte (strict `<`).  An `Except.ok` result means no `IndexError`, no
broadcast `ValueError`, no failed assertion.  A deserializer state is `⟨buf, off⟩`; `Py.deField d n` is the
zero-extended field of `n` bits at the cursor. -/

/-- T6 the invariant holds initially: `Serializer.new(n)` is `n+1` zero bytes with the cursor at 0. -/
theorem C14_py_new_inv (n : Nat) : (⟨List.replicate (n + 1) 0, 0⟩ : Py.Ser).Inv :=
  ⟨WF_replicate _, fun i _ => bitAt_replicate_zero _ i⟩

/-- T6 `add_unaligned_bytes` appends exactly the bytes of the value (any cursor). -/
theorem C14_py_add_unaligned_bytes (s : Py.Ser) (value : Buf) (hinv : s.Inv) (hwv : WF value)
    (hroom : s.off / 8 + value.length < s.buf.length) :
    ∃ s', Py.addUnalignedBytes s value = .ok s' ∧ Py.Appends s s' (8 * value.length) (bitAt value) :=
  Py.addUnalignedBytes_spec s value hinv hwv hroom

/-- T6 `add_unaligned_unsigned` appends exactly the low `bl` bits of the value (wider values are truncated,
as documented). -/
theorem C14_py_add_unaligned_unsigned (s : Py.Ser) (value : Int) (bl : Nat) (hinv : s.Inv) (hv : 0 ≤ value)
    (hbl : 1 ≤ bl) (hroom : s.off / 8 + (bl + 7) / 8 < s.buf.length) :
    ∃ s', Py.addUnalignedUnsigned s value bl = .ok s' ∧ Py.Appends s s' bl value.toNat.testBit :=
  Py.addUnalignedUnsigned_spec s value bl hinv hv hbl hroom

/-- T6 `add_unaligned_signed` appends the two's-complement bits (`2^bl + value` for a negative value). -/
theorem C14_py_add_unaligned_signed (s : Py.Ser) (value : Int) (bl : Nat) (hinv : s.Inv) (hbl : 2 ≤ bl)
    (hlo : -(2 ^ bl) ≤ value) (hroom : s.off / 8 + (bl + 7) / 8 < s.buf.length) :
    ∃ s', Py.addUnalignedSigned s value bl = .ok s' ∧
      Py.Appends s s' bl (if value < 0 then 2 ^ bl + value else value).toNat.testBit :=
  Py.addUnalignedSigned_spec s value bl hinv hbl hlo hroom

/-- T6 `add_unaligned_bit`. -/
theorem C14_py_add_unaligned_bit (s : Py.Ser) (x : Bool) (hinv : s.Inv) (hroom : s.off / 8 < s.buf.length) :
    ∃ s', Py.addUnalignedBit s x = .ok s' ∧ Py.Appends s s' 1 (fun _ => x) :=
  Py.addUnalignedBit_spec s x hinv hroom

/-- T6 `add_unaligned_array_of_bits` (`numpy.packbits` + byte loop + backtrack). -/
theorem C14_py_add_unaligned_array_of_bits (s : Py.Ser) (x : List Bool) (hinv : s.Inv)
    (hroom : s.off / 8 + (x.length + 7) / 8 < s.buf.length) :
    ∃ s', Py.addUnalignedArrayOfBits s x = .ok s' ∧ Py.Appends s s' x.length (Py.bitOf x) :=
  Py.addUnalignedArrayOfBits_spec s x hinv hroom

/-- T6 `add_aligned_bytes` (byte-aligned cursor). -/
theorem C14_py_add_aligned_bytes (s : Py.Ser) (x : Buf) (hinv : s.Inv) (ha : s.off % 8 = 0) (hw : WF x)
    (hroom : s.off / 8 + x.length ≤ s.buf.length) :
    ∃ s', Py.addAlignedBytes s x = .ok s' ∧ Py.Appends s s' (8 * x.length) (bitAt x) :=
  Py.addAlignedBytes_spec s x hinv ha hw hroom

/-- T6 `add_aligned_array_of_bits`. -/
theorem C14_py_add_aligned_array_of_bits (s : Py.Ser) (x : List Bool) (hinv : s.Inv) (ha : s.off % 8 = 0)
    (hroom : s.off / 8 + (x.length + 7) / 8 ≤ s.buf.length) :
    ∃ s', Py.addAlignedArrayOfBits s x = .ok s' ∧ Py.Appends s s' x.length (Py.bitOf x) :=
  Py.addAlignedArrayOfBits_spec s x hinv ha hroom

/-- T6 `add_aligned_unsigned` / `add_aligned_signed` (arbitrary width at an aligned cursor). -/
theorem C14_py_add_aligned_unsigned (s : Py.Ser) (value : Int) (bl : Nat) (hinv : s.Inv) (ha : s.off % 8 = 0)
    (hv : 0 ≤ value) (hbl : 1 ≤ bl) (hroom : s.off / 8 + (bl + 7) / 8 ≤ s.buf.length) :
    ∃ s', Py.addAlignedUnsigned s value bl = .ok s' ∧ Py.Appends s s' bl value.toNat.testBit :=
  Py.addAlignedUnsigned_spec s value bl hinv ha hv hbl hroom

theorem C14_py_add_aligned_signed (s : Py.Ser) (value : Int) (bl : Nat) (hinv : s.Inv) (ha : s.off % 8 = 0)
    (hbl : 2 ≤ bl) (hlo : -(2 ^ bl) ≤ value) (hroom : s.off / 8 + (bl + 7) / 8 ≤ s.buf.length) :
    ∃ s', Py.addAlignedSigned s value bl = .ok s' ∧
      Py.Appends s s' bl (if value < 0 then 2 ^ bl + value else value).toNat.testBit :=
  Py.addAlignedSigned_spec s value bl hinv ha hbl hlo hroom

/-- T6 `add_aligned_u8/u16/u32/u64`: the low 8/16/32/64 bits of a non-negative value (`u8` requires `< 256`). -/
theorem C14_py_add_aligned_uW (s : Py.Ser) (x : Int) (hinv : s.Inv) (ha : s.off % 8 = 0) (hx : 0 ≤ x) :
    (x < 256 → s.off / 8 + 1 ≤ s.buf.length →
      ∃ s', Py.addAlignedU8 s x = .ok s' ∧ Py.Appends s s' 8 x.toNat.testBit) ∧
    (s.off / 8 + 2 ≤ s.buf.length → ∃ s', Py.addAlignedU16 s x = .ok s' ∧ Py.Appends s s' 16 x.toNat.testBit) ∧
    (s.off / 8 + 4 ≤ s.buf.length → ∃ s', Py.addAlignedU32 s x = .ok s' ∧ Py.Appends s s' 32 x.toNat.testBit) ∧
    (s.off / 8 + 8 ≤ s.buf.length → ∃ s', Py.addAlignedU64 s x = .ok s' ∧ Py.Appends s s' 64 x.toNat.testBit) :=
  ⟨fun h r => Py.addAlignedU8_spec s x hinv ha hx h r, Py.addAlignedU16_spec s x hinv ha hx,
   Py.addAlignedU32_spec s x hinv ha hx, Py.addAlignedU64_spec s x hinv ha hx⟩

/-- T6 `add_aligned_i8/i16/i32/i64` on an in-range value: its two's-complement bits. -/
theorem C14_py_add_aligned_iW (W : Nat) (s : Py.Ser) (x : Int) (hW : W = 8 ∨ W = 16 ∨ W = 32 ∨ W = 64)
    (hinv : s.Inv) (ha : s.off % 8 = 0) (hlo : -(2 ^ (W - 1)) ≤ x) (hhi : x < 2 ^ (W - 1))
    (hroom : s.off / 8 + W / 8 ≤ s.buf.length) :
    ∃ s', Py.addAlignedI W s x = .ok s' ∧ Py.Appends s s' W (if x < 0 then 2 ^ W + x else x).toNat.testBit :=
  Py.addAlignedI_spec W s x hW hinv ha hlo hhi hroom

/-- `Serializer.pad_to_alignment(n)`: zero bits up to the next multiple of `n`. -/
theorem C14_py_pad_to_alignment (s : Py.Ser) (n : Nat) (hn : 0 < n) (hinv : s.Inv)
    (hroom : Py.padBits s.off n ≠ 0 → (s.off + Py.padBits s.off n - 1) / 8 < s.buf.length) :
    ∃ s', Py.padToAlignment s n = .ok s' ∧ Py.Appends s s' (Py.padBits s.off n) (fun _ => false) ∧
      s'.off % n = 0 :=
  Py.padToAlignment_spec s n hn hinv hroom

/-- T6 `fetch_unaligned_bytes`, for every buffer, cursor and count: never raises, never indexes outside, returns
`count` bytes with the zero-extended bits from the cursor on, advances the cursor by `8·count`. -/
theorem C14_py_fetch_unaligned_bytes (d : Py.De) (count : Nat) (hw : WF d.buf) :
    ∃ bs, Py.fetchUnalignedBytes d count = .ok (bs, ⟨d.buf, d.off + count * 8⟩) ∧ bs.length = count ∧ WF bs ∧
      ∀ i, bitAt bs i = (decide (i < 8 * count) && bitAt d.buf (d.off + i)) :=
  Py.fetchUnalignedBytes_spec d count hw

/-- T6 `fetch_unaligned_unsigned` / `fetch_aligned_unsigned`: the zero-extended field. -/
theorem C14_py_fetch_unsigned (d : Py.De) (bl : Nat) (hw : WF d.buf) (hbl : 1 ≤ bl) :
    Py.fetchUnalignedUnsigned d bl = .ok (Py.deField d bl, ⟨d.buf, d.off + bl⟩) ∧
    (d.off % 8 = 0 → Py.fetchAlignedUnsigned d bl = .ok (Py.deField d bl, ⟨d.buf, d.off + bl⟩)) :=
  ⟨Py.fetchUnalignedUnsigned_spec d bl hw hbl, Py.fetchAlignedUnsigned_spec d bl hw hbl⟩

/-- T6 `fetch_unaligned_signed` / `fetch_aligned_signed`: two's-complement sign extension. -/
theorem C14_py_fetch_signed (d : Py.De) (bl : Nat) (hw : WF d.buf) (hbl : 2 ≤ bl) :
    let v : Int := if (Py.deField d bl).testBit (bl - 1) then (Py.deField d bl : Int) - 2 ^ bl
                   else (Py.deField d bl : Int)
    Py.fetchUnalignedSigned d bl = .ok (v, ⟨d.buf, d.off + bl⟩) ∧
    (d.off % 8 = 0 → Py.fetchAlignedSigned d bl = .ok (v, ⟨d.buf, d.off + bl⟩)) :=
  ⟨Py.fetchUnalignedSigned_spec d bl hw hbl, Py.fetchAlignedSigned_spec d bl hw hbl⟩

/-- T6 `fetch_unaligned_bit`. -/
theorem C14_py_fetch_unaligned_bit (d : Py.De) :
    Py.fetchUnalignedBit d = .ok (bitAt d.buf d.off, ⟨d.buf, d.off + 1⟩) :=
  Py.fetchUnalignedBit_spec d

/-- T6 `fetch_aligned_u8…u64` / `fetch_aligned_i8…i64`. -/
theorem C14_py_fetch_aligned_W (W : Nat) (d : Py.De) (hW : W = 8 ∨ W = 16 ∨ W = 32 ∨ W = 64)
    (ha : d.off % 8 = 0) (hw : WF d.buf) :
    Py.fetchAlignedU W d = .ok (Py.deField d W, ⟨d.buf, d.off + W⟩) ∧
    Py.fetchAlignedI W d = .ok
      (if (Py.deField d W).testBit (W - 1) then (Py.deField d W : Int) - 2 ^ W else (Py.deField d W : Int),
       ⟨d.buf, d.off + W⟩) :=
  ⟨Py.fetchAlignedU_spec W d hW ha hw, Py.fetchAlignedI_spec W d hW ha hw⟩

/-- T6 `fetch_unaligned_array_of_bits` / `fetch_aligned_array_of_bits`, `fetch_aligned_bytes`. -/
theorem C14_py_fetch_arrays (d : Py.De) (count : Nat) (hw : WF d.buf) :
    Py.fetchUnalignedArrayOfBits d count
      = .ok ((List.range count).map (fun i => bitAt d.buf (d.off + i)), ⟨d.buf, d.off + count⟩) ∧
    (d.off % 8 = 0 → Py.fetchAlignedArrayOfBits d count
      = .ok ((List.range count).map (fun i => bitAt d.buf (d.off + i)), ⟨d.buf, d.off + count⟩)) ∧
    (d.off % 8 = 0 → ∃ bs, Py.fetchAlignedBytes d count = .ok (bs, ⟨d.buf, d.off + count * 8⟩) ∧
      bs.length = count ∧ ∀ i, bitAt bs i = (decide (i < 8 * count) && bitAt d.buf (d.off + i))) :=
  ⟨Py.fetchUnalignedArrayOfBits_spec d count hw, Py.fetchAlignedArrayOfBits_spec d count, fun ha => by
    obtain ⟨bs, h1, h2, _, h4⟩ := Py.fetchAlignedBytes_spec d count ha
    exact ⟨bs, h1, h2, h4⟩⟩

/-- `Deserializer.pad_to_alignment(n)`. -/
theorem C14_py_fetch_pad_to_alignment (d : Py.De) (n : Nat) (hn : 0 < n) :
    Py.dePadToAlignment d n = .ok ⟨d.buf, d.off + Py.padBits d.off n⟩ ∧ (d.off + Py.padBits d.off n) % n = 0 :=
  ⟨Py.dePadToAlignment_spec d n hn, Py.padBits_aligned _ _ hn⟩

/-- `ZeroExtendingBuffer.get_unsigned_slice(l, r)` for `l ≤ r`: `r - l` bytes, zero beyond the buffer. -/
theorem C14_py_get_unsigned_slice (buf : Buf) (l r : Nat) (h : l ≤ r) :
    ∃ out, Py.getUnsignedSlice buf l r = .ok out ∧ out.length = r - l ∧
      ∀ i, bitAt out i = (decide (i < 8 * (r - l)) && bitAt buf (8 * l + i)) := by
  obtain ⟨out, h1, h2, _, h4⟩ := Py.slice_bits buf l r h
  exact ⟨out, h1, h2, h4⟩

/-- serialize-then-deserialize at an arbitrary cursor: what `add_unaligned_unsigned` appended is what
`fetch_unaligned_unsigned` reads back (for a value that fits). -/
theorem C14_py_unsigned_round_trip (s : Py.Ser) (value : Int) (bl : Nat) (hinv : s.Inv) (hv : 0 ≤ value)
    (hfit : value < 2 ^ bl) (hbl : 1 ≤ bl) (hroom : s.off / 8 + (bl + 7) / 8 < s.buf.length) :
    ∃ s', Py.addUnalignedUnsigned s value bl = .ok s' ∧
      Py.fetchUnalignedUnsigned ⟨s'.buf, s.off⟩ bl = .ok (value.toNat, ⟨s'.buf, s.off + bl⟩) := by
  obtain ⟨s', h1, _, _, hinv', hbits⟩ := Py.addUnalignedUnsigned_spec s value bl hinv hv hbl hroom
  refine ⟨s', h1, ?_⟩
  rw [Py.fetchUnalignedUnsigned_spec ⟨s'.buf, s.off⟩ bl hinv'.1 hbl]
  congr 2
  apply Nat.eq_of_testBit_eq
  intro i
  unfold Py.deField
  rw [testBit_fieldOf]
  show (decide (i < bl) && bitAt s'.buf (s.off + i)) = _
  rw [hbits, if_neg (by omega), show s.off + i - s.off = i by omega]
  by_cases hi : i < bl
  · simp [hi]
  · have hlt : value.toNat < 2 ^ bl := by
      have : ((value.toNat : Nat) : Int) < ((2 ^ bl : Nat) : Int) := by
        rw [Int.toNat_of_nonneg hv]; exact_mod_cast hfit
      exact_mod_cast this
    have : value.toNat.testBit i = false :=
      Nat.testBit_lt_two_pow (Nat.lt_of_lt_of_le hlt (Nat.pow_le_pow_right (by omega) (by omega)))
    simp [hi, this]

/-! ### non-vacuity (Python) -/

example : Py.addUnalignedUnsigned ⟨[0, 0, 0, 0], 0⟩ 5 3 = .ok ⟨[5, 0, 0, 0], 3⟩ := by decide
example : Py.addUnalignedBytes ⟨[5, 0, 0, 0], 3⟩ [0xAB, 0xCD] = .ok ⟨[0x5D, 0x6D, 0x06, 0], 19⟩ := by decide
-- without the spare byte the byte loop raises IndexError
example : Py.addUnalignedBytes ⟨[5, 0], 3⟩ [0xAB, 0xCD] = .error .oob := by decide
-- a one-byte write past the end of the array is silently dropped by NumPy (outside the room hypothesis)
example : Py.addAlignedBytes ⟨[0, 0], 16⟩ [7] = .ok ⟨[0, 0], 24⟩ := by decide
example : Py.fetchUnalignedUnsigned ⟨[0xFF, 0x01], 3⟩ 9 = .ok (63, ⟨[0xFF, 0x01], 12⟩) := by decide
example : Py.fetchUnalignedSigned ⟨[0xFF, 0x01], 3⟩ 6 = .ok (-1, ⟨[0xFF, 0x01], 9⟩) := by decide
example : Py.addAlignedI 16 ⟨[0, 0, 0], 8⟩ (-2) = .ok ⟨[0, 0xFE, 0xFF], 24⟩ := by decide

end NunavutVerif.Bits
