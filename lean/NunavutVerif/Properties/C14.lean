import NunavutVerif.Lemmas.Bits
/-!
# C14 — support-library bit primitives are correct for all offsets, lengths and values (integer/bit part)

Property theorems only.  Definitions: `Model/Bits.lean` (C), `Model/BitsCpp.lean` (C++ `bitspan`),
`Model/BitsPy.lean` (Python `Serializer`/`Deserializer`); helper lemmas: `Lemmas/Bits*.lean`.
The half-float part of C14 is in `Properties/C14Float.lean`.

Every theorem quantifies over *all* buffers, offsets, lengths, sizes and values (no bound; induction over the
loop fuel / the byte list and bit-level lemmas over `Nat.testBit`).  A model function returns
`Except Err …`; `Err.oob` is an access outside a buffer, so `… = .ok r` *is* the statement "no out-of-bounds
access" (and no signed overflow, no wrap-around, no fuel exhaustion).  `bitAt b i` is bit `i` of buffer `b`
(LSB first in each byte, `false` outside), `zbit b size i` the same with only the first `size` bytes counted
(implicit zero extension), `fieldOf bit n` the number with bits `bit 0 … bit (n-1)`.
-/
namespace NunavutVerif.Bits

/-! ## C: `nunavut/support/serialization.h` -/

/-- T1 `nunavutCopyBits`, both branches (aligned `memmove` + last-byte mask; unaligned loop): under the documented
size precondition ("both source and destination shall be large enough") no access is out of bounds, the
destination keeps its size, and bit `i` of the result is source bit `sOff + (i - dOff)` inside
`[dOff, dOff+len)` and the old destination bit everywhere else. -/
theorem C14_copyBits (dst : Buf) (dOff len : Nat) (src : Buf) (sOff : Nat)
    (hs : len ≠ 0 → sOff + len ≤ src.length * 8) (hd : len ≠ 0 → dOff + len ≤ dst.length * 8) :
    ∃ r, copyBits dst dOff len src sOff = .ok r ∧ r.length = dst.length ∧ (WF src → WF dst → WF r) ∧
      ∀ i, bitAt r i = if dOff ≤ i ∧ i < dOff + len then bitAt src (sOff + (i - dOff)) else bitAt dst i :=
  copyBits_spec' dst dOff len src sOff hs hd

/-- T1 corollary: the result is *determined* by the specification, i.e. the aligned and the unaligned branch
compute the same function (any two results that meet the bit specification are the same buffer). -/
theorem C14_copyBits_unique (dst r₁ r₂ : Buf) (h₁ : r₁.length = dst.length) (h₂ : r₂.length = dst.length)
    (w₁ : WF r₁) (w₂ : WF r₂) (spec : Nat → Bool)
    (b₁ : ∀ i, bitAt r₁ i = spec i) (b₂ : ∀ i, bitAt r₂ i = spec i) : r₁ = r₂ :=
  eq_of_bitAt (by omega) w₁ w₂ (fun i => by rw [b₁, b₂])

/-- `nunavutSaturateBufferFragmentBitLength` is `min len (size·8 ∸ off)`. -/
theorem C14_saturate (size off len : Nat) : saturate size off len = min len (size * 8 - off) :=
  saturate_eq size off len

/-- T2 `nunavutGetBits`: for every offset, length and buffer size there is no out-of-bounds access (given an
output of at least `ceil(len/8)` bytes, as documented), the first `ceil(len/8)` output bytes hold bits
`[off, off+len)` of the buffer with bits beyond the buffer read as 0 and zero padding up to the byte, and the rest
of the output is untouched. -/
theorem C14_getBits (out buf : Buf) (size off len : Nat) (hsize : size ≤ buf.length)
    (hout : (len + 7) / 8 ≤ out.length) :
    ∃ r, getBits out buf size off len = .ok r ∧ r.length = out.length ∧ (WF buf → WF out → WF r) ∧
      ∀ i, bitAt r i =
        if i < (len + 7) / 8 * 8 then (decide (i < len) && zbit buf size (off + i)) else bitAt out i :=
  getBits_spec out buf size off len hsize hout

/-- T3a `nunavutSetUxx` (both `target_endianness` renderings): a too-small buffer is reported and left unchanged. -/
theorem C14_setUxx_too_small (little : Bool) (buf : Buf) (size off value len : Nat) (h : size * 8 < off + len) :
    setUxx little buf size off value len = .ok (errTooSmall, buf) :=
  setUxx_small little buf size off value len h

/-- T3b `nunavutSetUxx`: otherwise success is returned, nothing is accessed out of bounds, and exactly the
`min len 64` addressed bits change, to the low bits of the value. -/
theorem C14_setUxx_writes (little : Bool) (buf : Buf) (size off value len : Nat) (hsize : size ≤ buf.length)
    (h : ¬ size * 8 < off + len) :
    ∃ r, setUxx little buf size off value len = .ok (0, r) ∧ r.length = buf.length ∧ (WF buf → WF r) ∧
      ∀ i, bitAt r i = if off ≤ i ∧ i < off + min len 64 then value.testBit (i - off) else bitAt buf i :=
  setUxx_spec little buf size off value len hsize h

/-- T3c `nunavutSetIxx`: as `SetUxx`, the written bits are the two's-complement bits of the value. -/
theorem C14_setIxx (little : Bool) (buf : Buf) (size off : Nat) (value : Int) (len : Nat)
    (hsize : size ≤ buf.length) :
    (size * 8 < off + len → setIxx little buf size off value len = .ok (errTooSmall, buf)) ∧
    (¬ size * 8 < off + len →
      ∃ r, setIxx little buf size off value len = .ok (0, r) ∧ r.length = buf.length ∧ (WF buf → WF r) ∧
        ∀ i, bitAt r i =
          if off ≤ i ∧ i < off + min len 64 then (value % 2 ^ 64).toNat.testBit (i - off) else bitAt buf i) :=
  ⟨fun h => setUxx_small little buf size off _ len h, fun h => setUxx_spec little buf size off _ len hsize h⟩

/-- T3d `nunavutSetBit`: error ⇔ the bit lies outside the buffer (buffer unchanged); otherwise exactly that bit is
set to the value. -/
theorem C14_setBit (buf : Buf) (size off : Nat) (value : Bool) (hsize : size ≤ buf.length) :
    (size * 8 ≤ off → setBit buf size off value = .ok (errTooSmall, buf)) ∧
    (¬ size * 8 ≤ off →
      ∃ r, setBit buf size off value = .ok (0, r) ∧ r.length = buf.length ∧ (WF buf → WF r) ∧
        ∀ i, bitAt r i = if i = off then value else bitAt buf i) :=
  ⟨setBit_small buf size off value, setBit_spec buf size off value hsize⟩

/-- `fieldOf` is characterised by its bits (so the statements below determine the returned numbers). -/
theorem C14_fieldOf_bits (bit : Nat → Bool) (n i : Nat) :
    (fieldOf bit n).testBit i = (decide (i < n) && bit i) :=
  testBit_fieldOf bit n i

/-- T4a `nunavutGetU8/16/32/64` (`W` = 8, 16, 32, 64; both renderings): for every offset, length and size the
result is the zero-extended bit field of saturated width `min len W`; nothing is read out of bounds. -/
theorem C14_getU (little : Bool) (W : Nat) (buf : Buf) (size off len : Nat) (hW : W % 8 = 0)
    (hsize : size ≤ buf.length) (hw : WF buf) :
    getU little W buf size off len = .ok (fieldOf (fun i => zbit buf size (off + i)) (min len W)) :=
  getU_spec little W buf size off len hW hsize hw

/-- T4b `nunavutGetI8/16/32/64`: two's-complement sign extension of the field of `sat = min len W` bits
(`u - 2^sat` when its top bit is set), through the `(-(intW_t) ~val) - 1` formulation, without signed overflow. -/
theorem C14_getI (little : Bool) (W : Nat) (buf : Buf) (size off len : Nat) (hW : W % 8 = 0) (hW0 : 0 < W)
    (hW64 : W ≤ 64) (hsize : size ≤ buf.length) (hw : WF buf) :
    getI little W buf size off len = .ok
      (let sat := min len W
       let u := fieldOf (fun i => zbit buf size (off + i)) sat
       if sat > 0 ∧ u.testBit (sat - 1) then (u : Int) - 2 ^ sat else (u : Int)) :=
  getI_spec little W buf size off len hW hW0 hW64 hsize hw

/-- T4c `nunavutGetBit`: the addressed bit, `false` beyond the buffer. -/
theorem C14_getBit (buf : Buf) (size off : Nat) (hsize : size ≤ buf.length) (hw : WF buf) :
    getBit buf size off = .ok (zbit buf size off) := by
  unfold getBit
  rw [getU_spec false 8 buf size off 1 (by omega) hsize hw]
  simp only [bind, Except.bind]
  cases h : zbit buf size off <;> simp [fieldOf, h]

/-- The `target_endianness: little` rendering computes the same functions as the portable one. -/
theorem C14_little_eq_any (W : Nat) (buf : Buf) (size off len value : Nat) (v : Int) (hW : W % 8 = 0)
    (hW0 : 0 < W) (hW64 : W ≤ 64) (hsize : size ≤ buf.length) (hw : WF buf) :
    getU true W buf size off len = getU false W buf size off len ∧
    getI true W buf size off len = getI false W buf size off len ∧
    setUxx true buf size off value len = setUxx false buf size off value len ∧
    setIxx true buf size off v len = setIxx false buf size off v len := by
  have hset : ∀ value, setUxx true buf size off value len = setUxx false buf size off value len := by
    intro value
    by_cases h : size * 8 < off + len
    · rw [setUxx_small _ _ _ _ _ _ h, setUxx_small _ _ _ _ _ _ h]
    · obtain ⟨r₁, e₁, l₁, w₁, b₁⟩ := setUxx_spec true buf size off value len hsize h
      obtain ⟨r₂, e₂, l₂, w₂, b₂⟩ := setUxx_spec false buf size off value len hsize h
      rw [e₁, e₂, eq_of_bitAt (by omega) (w₁ hw) (w₂ hw) (fun i => by rw [b₁, b₂])]
  refine ⟨?_, ?_, hset value, hset _⟩
  · rw [getU_spec _ _ _ _ _ _ hW hsize hw, getU_spec _ _ _ _ _ _ hW hsize hw]
  · rw [getI_spec _ _ _ _ _ _ hW hW0 hW64 hsize hw, getI_spec _ _ _ _ _ _ hW hW0 hW64 hsize hw]

/-! ### non-vacuity: the hypotheses are met by non-trivial states, and the functions really compute -/

-- unaligned copy of 11 bits from source bit 3 to destination bit 5
example : copyBits [0xFF, 0x00, 0xFF] 5 11 [0xA5, 0x3C, 0x7E] 3 = .ok [0x9F, 0xF4, 0xFF] := by decide
-- aligned copy of 11 bits (memmove + last-byte mask)
example : copyBits [0xFF, 0xFF, 0xFF] 8 11 [0xA5, 0x3C, 0x7E] 8 = .ok [0xFF, 0x3C, 0xFE] := by decide
-- a destination that is too small is detected by the model (the precondition of T1 is not vacuous)
example : copyBits [0xFF] 5 11 [0xA5, 0x3C, 0x7E] 3 = .error .oob := by decide
-- zero extension beyond the buffer
example : getBits [0xAA, 0xAA, 0xAA] [0xFF, 0xFF] 2 12 9 = .ok [0x0F, 0x00, 0xAA] := by decide
example : setUxx false [0, 0, 0] 3 7 0x1FF 9 = .ok (0, [0x80, 0xFF, 0]) := by decide
example : setUxx true [0, 0] 2 8 1 9 = .ok (errTooSmall, [0, 0]) := by decide
example : getU false 16 [0x80, 0xFF, 0] 3 7 9 = .ok 0x1FF := by decide
example : getI false 16 [0x80, 0xFF, 0] 3 7 9 = .ok (-1) := by decide
example : getI true 8 [0xFF] 1 4 8 = .ok 15 := by decide

end NunavutVerif.Bits
