import NunavutVerif.Lemmas.DsdlRepr
import NunavutVerif.Lemmas.DsdlBytes
/-!
# C01 — the serializer's oracle is well defined and rejects exactly the values without representation

Property theorems only.  The wire format itself is the *definition* `serBits` (`Model/Dsdl.lean`, written
from the DSDL rules); that the generated C / C++ / Python code produces exactly these bytes is the
correspondence run by the harness (and the refinement proof of the implementation layer).  What is proved
here, for all types and all values: which values are accepted, which error the others get, that an error
never comes with bytes, and the shape facts of the output (whole bytes for composites, zero padding).
-/
namespace NunavutVerif.Dsdl

/-- A well-typed value is serialized iff it has a representation: every variable-length array within its
capacity and every union tag naming an option, at any nesting depth. -/
theorem C01_accepts_iff_representable (t : Ty) (v : Val) (ht : hasTy t v = true) :
    (∃ bs, serBits t v = .ok bs) ↔ representable t v = true := by
  have h := serOK t v ht
  constructor
  · intro ⟨bs, hb⟩
    cases hr : representable t v with
    | true => rfl
    | false => obtain ⟨e, he, _⟩ := h.2 hr; rw [hb] at he; cases he
  · exact h.1

/-- A well-typed value without representation is rejected with `badArrayLength` or `badUnionTag` —
never `illTyped`, never bytes. -/
theorem C01_unrepresentable_rejected (t : Ty) (v : Val) (ht : hasTy t v = true)
    (hr : representable t v = false) :
    ∃ e, serBits t v = .error e ∧ (e = .badArrayLength ∨ e = .badUnionTag) :=
  (serOK t v ht).2 hr

/-- The same at top level, on bytes: no bytes are produced. -/
theorem C01_unrepresentable_rejected_bytes (t : Ty) (v : Val) (ht : hasTy t v = true)
    (hr : representable t v = false) :
    ∃ e, serBytes t v = .error e ∧ (e = .badArrayLength ∨ e = .badUnionTag) := by
  have ht' : hasTy (topInner t) v = true := by cases t <;> simp_all [topInner, hasTy]
  have hr' : representable (topInner t) v = false := by
    cases t <;> simp_all [topInner, representable]
  obtain ⟨e, he, hk⟩ := (serOK (topInner t) v ht').2 hr'
  exact ⟨e, by simp [serBytes, serTop, he, Except.map], hk⟩

/-- A variable-length array longer than its capacity is rejected (whatever its elements). -/
theorem C01_rejects_long_array (t : Ty) (cap : Nat) (vs : List Val) (h : vs.length > cap) :
    serBits (.varr t cap) (.arr vs) = .error .badArrayLength := by
  simp [serBits, h]

/-- A union value naming an option that does not exist is rejected. -/
theorem C01_rejects_bad_tag (fs : List Ty) (k : Nat) (v : Val) (h : k ≥ fs.length) :
    serBits (.union fs) (.union k v) = .error .badUnionTag := by
  simp [serBits, h]

/-- Composites occupy whole bytes, so packing a top-level composite adds no bits: unpacking the bytes
gives exactly the specified bit string. -/
theorem C01_composite_bytes_exact (t : Ty) (hw : wf t = true) (hc : align (topInner t) = 8) (v : Val)
    (bs : List Bool) (hs : serTop t v = .ok bs) :
    serBytes t v = .ok (packBytes bs) ∧ unpackBytes (packBytes bs) = bs := by
  refine ⟨by simp [serBytes, hs, Except.map], ?_⟩
  have h := (lenOK (topInner t) (wf_topInner hw) v bs hs).2.2
  rw [hc] at h
  rw [unpack_pack, padLen_of_mod (Or.inr rfl) h]
  simp [zeros]

/-- In general the byte string is the bit string followed by zero bits up to a whole byte. -/
theorem C01_bytes_zero_padded (t : Ty) (v : Val) (bytes : List Nat) (hs : serBytes t v = .ok bytes) :
    ∃ bs, serTop t v = .ok bs ∧ unpackBytes bytes = bs ++ zeros (padLen 8 bs.length) := by
  unfold serBytes at hs
  rw [map_eq_ok] at hs
  obtain ⟨bs, hb, rfl⟩ := hs
  exact ⟨bs, hb, unpack_pack bs⟩

/-! ### Non-vacuity: bit order, padding, void, prefixes, tags, headers on a concrete nested type -/

/-- `{uint3 a; void2; bool b; Inner c; Uni u}`; `Inner` delimited `{uint8 x; uint16[<=2] y}`. -/
def exTy1 : Ty :=
  .struct [.uint 3 .sat, .void 2, .bool,
    .delim 64 (.struct [.uint 8 .sat, .varr (.uint 16 .sat) 2]),
    .union [.uint 5 .sat, .struct [.sint 8 .sat]]]

def exVal1 : Val :=
  .struct [.int 5, .void, .bool true, .struct [.int 0xAB, .arr [.int 0x0102]], .union 1 (.struct [.int (-2)])]

example : hasTy exTy1 exVal1 = true ∧ representable exTy1 exVal1 = true := by decide +kernel
-- a = 5 in bits 0..2, void 00, b in bit 5, pad to the byte; header = 4 bytes; x; prefix 1; y little endian;
-- tag 1; int8 -2 = 0xfe
example : serBytes exTy1 exVal1 =
    .ok [0x25, 0x04, 0, 0, 0, 0xAB, 0x01, 0x02, 0x01, 0x01, 0xFE] := by decide +kernel
/-- too long an array deep inside: rejected, with the array error. -/
example : serBytes exTy1 (.struct [.int 5, .void, .bool true,
    .struct [.int 0xAB, .arr [.int 1, .int 2, .int 3]], .union 1 (.struct [.int (-2)])]) =
    .error .badArrayLength := by decide +kernel
example : serBytes exTy1 (.struct [.int 5, .void, .bool true,
    .struct [.int 0xAB, .arr []], .union 2 .void]) = .error .badUnionTag := by decide +kernel

end NunavutVerif.Dsdl
