import NunavutVerif.Lemmas.DsdlLen
import NunavutVerif.Lemmas.DsdlBytes
/-!
# C05 — size bounds (specification level)

Property theorems only.  Quantifiers: all well-formed types (`wf` = PyDSDL's side conditions, in particular
`extent ≥ inner.extent` for delimited types), all values, all buffer capacities.
`maxBits` is what the generated `_SERIALIZATION_BUFFER_SIZE_BYTES_ = ceil(maxBits/8)` advertises, `extent` what
`_EXTENT_BYTES_` advertises (both compared with the generated constants by the harness through `bounds`).
The constant-literal half of C05 (`Model/CLiteral.lean`) is a separate slice.
-/
namespace NunavutVerif.Dsdl

/-- The serialized length never exceeds `maxBits`. -/
theorem C05_length_le_max (t : Ty) (hw : wf t = true) (v : Val) (bs : List Bool)
    (hs : serBits t v = .ok bs) : bs.length ≤ maxBits t :=
  (lenOK t hw v bs hs).2.1

/-- … and is at least `minBits`. -/
theorem C05_min_le_length (t : Ty) (hw : wf t = true) (v : Val) (bs : List Bool)
    (hs : serBits t v = .ok bs) : minBits t ≤ bs.length :=
  (lenOK t hw v bs hs).1

/-- The length is a multiple of the alignment: every composite (and every array of composites) occupies
whole bytes. -/
theorem C05_length_aligned (t : Ty) (hw : wf t = true) (v : Val) (bs : List Bool)
    (hs : serBits t v = .ok bs) : bs.length % align t = 0 :=
  (lenOK t hw v bs hs).2.2

/-- The advertised maximum never exceeds the advertised extent (top-level view: a delimited type's own
routine handles the inner composite; `wf` carries PyDSDL's `extent ≥ inner maximum`). -/
theorem C05_max_le_extent (t : Ty) (hw : wf t = true) : maxBits (topInner t) ≤ extent t :=
  maxBits_topInner_le_extent hw

/-- Bounds of composites are whole bytes: minimum, maximum and extent. -/
theorem C05_composite_bounds_whole_bytes (t : Ty) (hw : wf t = true) :
    (isComposite t = true ∨ ∃ e c, t = .delim e c) →
      minBits t % 8 = 0 ∧ maxBits t % 8 = 0 ∧ extent t % 8 = 0 := by
  intro h
  have h8 := fun x => padTo_mod (Or.inr rfl : (8 : Nat) = 1 ∨ 8 = 8) x
  rcases h with h | ⟨e, c, rfl⟩
  · cases t <;> simp [isComposite] at h
    · simp only [minBits, maxBits, extent]; exact ⟨h8 _, h8 _, h8 _⟩
    · simp only [minBits, maxBits, extent]; exact ⟨h8 _, h8 _, h8 _⟩
  · simp only [wf, Bool.and_eq_true, decide_eq_true_eq] at hw
    obtain ⟨⟨_, he8, _, _⟩, _⟩ := hw
    simp only [minBits, maxBits, extent, headerBits]
    exact ⟨trivial, by omega, he8⟩

/-- A buffer of the advertised size (and hence one of extent size) always suffices. -/
theorem C05_buffer_suffices (t : Ty) (hw : wf t = true) (v : Val) (bytes : List Nat)
    (hs : serBytes t v = .ok bytes) :
    bytes.length ≤ (maxBits (topInner t) + 7) / 8 ∧ bytes.length ≤ (extent t + 7) / 8 := by
  unfold serBytes at hs
  rw [map_eq_ok] at hs
  obtain ⟨bs, hb, rfl⟩ := hs
  have h1 := (lenOK (topInner t) (wf_topInner hw) v bs hb).2.1
  have h2 := maxBits_topInner_le_extent hw
  rw [packBytes_length]
  omega

/-- A buffer smaller than the maximal serialized size is refused, whatever the value. -/
theorem C05_serbuf_too_small (t : Ty) (v : Val) (cap : Nat) (h : cap * 8 < maxBits (topInner t)) :
    serBuf t v cap = .error .bufferTooSmall := by
  simp [serBuf, h]

/-- Otherwise `serbuf` is `ser`, and the produced bytes fit the buffer. -/
theorem C05_serbuf_large_enough (t : Ty) (hw : wf t = true) (v : Val) (cap : Nat)
    (h : ¬ cap * 8 < maxBits (topInner t)) :
    serBuf t v cap = serBytes t v ∧ ∀ bytes, serBytes t v = .ok bytes → bytes.length ≤ cap := by
  refine ⟨by simp [serBuf, h], fun bytes hs => ?_⟩
  have := (C05_buffer_suffices t hw v bytes hs).1
  omega

/-- The length of the byte string is the bit length rounded up. -/
theorem C05_bytes_length (t : Ty) (v : Val) (bs : List Bool) (hs : serTop t v = .ok bs) :
    ∃ bytes, serBytes t v = .ok bytes ∧ bytes.length = (bs.length + 7) / 8 := by
  exact ⟨packBytes bs, by simp [serBytes, hs, Except.map], packBytes_length bs⟩

/-! ### Non-vacuity -/

/-- `{uint3 a; Inner b; uint8[<=300] c}` with a delimited `Inner` of extent 64 bits. -/
def exTy5 : Ty :=
  .struct [.uint 3 .sat, .delim 64 (.struct [.uint 8 .sat, .varr (.uint 8 .sat) 3]),
    .varr (.uint 8 .trunc) 300]

example : wf exTy5 = true := by decide +kernel
example : boundsTop exTy5 = (56, 2520, 2520) := by decide +kernel
example : boundsTop (.delim 64 (.struct [.uint 8 .sat, .varr (.uint 8 .sat) 3])) = (16, 40, 64) := by
  decide +kernel
example : serBuf exTy5 (.struct [.int 1, .struct [.int 2, .arr []], .arr []]) 314 =
    .error .bufferTooSmall := by decide +kernel
example : serBuf exTy5 (.struct [.int 1, .struct [.int 2, .arr []], .arr [.int 7]]) 315 =
    .ok [1, 2, 0, 0, 0, 2, 0, 1, 0, 7] := by decide +kernel

end NunavutVerif.Dsdl
