import NunavutVerif.Lemmas.Html
import NunavutVerif.Lemmas.HtmlPage
import NunavutVerif.Gen.HtmlTpl
import NunavutVerif.Gen.HtmlRefs
/-!
# C20 — generated HTML documentation is well-formed, escaped and internally linked

Property theorems only.  Definitions: `Model/Html.lean`; helper lemmas: `Lemmas/Html.lean`; the template
abstraction `Gen/HtmlTpl.lean` is regenerated from the tree under check by `translate/htmltpl.py` on every run.

Quantifiers: all strings (escaping), all renderings of the template terms (balance), all page namespaces and all
type references with front-end-valid name components (links); `decide` only over the generated tables, whole.

The model describes the tree *after* the proposed fixes (autoescaping for the HTML language, `display_type` returns
escaped Markup, depth-aware link prefix, service request/response links, back link of type pages); the behaviour
before is kept as `…BeforeFix` with the negations as `example`s at the end.
-/
namespace NunavutVerif.Html
open NunavutVerif.Gen

/-! ## 1. Escaping: for all strings -/

/-- `escape s` contains none of `<`, `>`, `"`, `'`. -/
theorem C20_escape_no_markup_chars (s : Str) : ∀ c ∈ escape s, c ≠ '<' ∧ c ≠ '>' ∧ c ≠ '"' ∧ c ≠ '\'' :=
  fun _ h => mem_escape h

/-- Every `&` in `escape s` starts one of the five references, every other character is plain. -/
theorem C20_escape_amp_starts_entity (s : Str) : CharData entities (escape s) := escape_charData s

/-- Decoding the references gives back exactly the original text: the text appears as text, unchanged. -/
theorem C20_escape_roundtrip (s : Str) : unescape (escape s) = s := unescape_escape s

/-- An escaped leaf is character data in each context: no prefix of it moves the tokenizer out of element text,
out of a quoted attribute value, or out of a raw-text element. -/
theorem C20_escaped_leaf_is_character_data (s pre : Str) (hp : pre <+: escape s) :
    lexRun .data pre = .data ∧ lexRun .attrDq pre = .attrDq ∧ lexRun .attrSq pre = .attrSq ∧
    lexRun .rawText pre = .rawText := by
  have h := C20_escape_no_markup_chars s
  refine ⟨lexRun_prefix_stays (fun c hc => ?_) hp, lexRun_prefix_stays (fun c hc => ?_) hp,
          lexRun_prefix_stays (fun c hc => ?_) hp, lexRun_prefix_stays (fun c hc => ?_) hp⟩
  · simp [lexStep, (h c hc).1]
  · simp [lexStep, (h c hc).2.2.1]
  · simp [lexStep, (h c hc).2.2.2]
  · simp [lexStep, (h c hc).1]

/-- The same for the standard library's `html.escape`, which `filter_make_unique` applies itself. -/
theorem C20_std_escape_is_character_data (s pre : Str) (hp : pre <+: escapeStd s) :
    CharData entitiesStd (escapeStd s) ∧
    lexRun .data pre = .data ∧ lexRun .attrDq pre = .attrDq ∧ lexRun .attrSq pre = .attrSq := by
  have h : ∀ c ∈ escapeStd s, _ := fun c hc => mem_escapeStd hc
  refine ⟨escapeStd_charData s, lexRun_prefix_stays (fun c hc => ?_) hp, lexRun_prefix_stays (fun c hc => ?_) hp,
          lexRun_prefix_stays (fun c hc => ?_) hp⟩
  · simp [lexStep, (h c hc).1]
  · simp [lexStep, (h c hc).2.2.1]
  · simp [lexStep, (h c hc).2.2.2]

/-- Escaping has no history: in any run (any values before and after, in particular Markup values with the same
characters), what is emitted for a value is `escapeVal` of that value alone; a plain (non-Markup) value therefore always
comes out as character data, and a Markup value always unchanged. -/
theorem C20_escape_value_history_independent (before after : List Val) (v : Val) :
    (escapeRun (before ++ v :: after))[before.length]? = some (escapeVal v) ∧
    (v.markup = false → (∀ c ∈ escapeVal v, c ≠ '<' ∧ c ≠ '>' ∧ c ≠ '"' ∧ c ≠ '\'') ∧ unescape (escapeVal v) = v.text) ∧
    (v.markup = true → escapeVal v = v.text) := by
  refine ⟨by simp [escapeRun], ?_, ?_⟩
  · intro h
    simp only [escapeVal, h]
    exact ⟨fun _ hc => mem_escape hc, unescape_escape _⟩
  · intro h; simp [escapeVal, h]

/-- Inside a quoted JS string literal HTML escaping is not a protection; there only text over the front end's name
alphabet is placed (table check below), and such text is unchanged by escaping and stays inside the literal. -/
theorem C20_name_text_stays_in_js_string (s : Str) (h : ∀ c ∈ s, isNameOrDot c = true) (q : Char)
    (hq : q = '\'' ∨ q = '"') : escape s = s ∧ jsRun q (escape s) = true := by
  refine ⟨escape_of_nameOrDot h, ?_⟩
  rw [escape_of_nameOrDot h]
  apply jsRun_stays
  intro c hc
  obtain ⟨_, _, _, h4, h5, h6, h7, h8, _⟩ := nameOrDot_not_special (h c hc)
  rcases hq with rfl | rfl <;> simp [jsStep, h4, h5, h6, h7, h8]

/-- Ids are made of name characters when the name components are. -/
theorem C20_tag_id_alphabet (t : CType) (h : ∀ c ∈ t.comps, ValidComp c) : ∀ c ∈ tagId t, isNameChar c = true :=
  tagId_nameChars h

/-! ## 2. The generated leaf table: every leaf of DSDL origin is escaped -/

/-- Every `{{ }}` whose value comes from the DSDL definitions is escaped on every path (by the environment's real
autoescape answer for the defining template, an explicit `|e`, or the escaping filter that produced it). -/
theorem C20_every_dsdl_leaf_escaped : ∀ l ∈ HtmlTpl.leaves, l.origin.isDsdl = true → l.escaped = true := by
  decide

/-- The escaping decision is a function of the target language and the template name only: for the html target it is
ON for every template name, under every option variation the translator builds the real environment for (output
extension .xhtml/.txt/.HTML/.htm/.php/empty, namespace file stem, configuration overrides of the html section);
for another language the real answers are the file-name rule.  (`decide` over the whole generated table.) -/
theorem C20_escaping_decision_is_language_rule :
    (∀ r ∈ HtmlTpl.escapingDecisions, r.2.2.2 = autoescapeRule r.1 r.2.2.1) ∧
    (∀ r ∈ HtmlTpl.escapingDecisions, r.1 = "html" → r.2.2.2 = true) ∧
    (∀ name, autoescapeRule "html" name = true) := by
  refine ⟨by decide, by decide, fun _ => by simp [autoescapeRule]⟩

/-- The full per-leaf requirement: additionally, inside JS string literals only restricted-alphabet text, markup and
macro results only in element content. -/
theorem C20_every_leaf_ok : ∀ l ∈ HtmlTpl.leaves, l.ok = true := by decide

/-- The terms agree with the table: a hole is abstracted to character data only if its leaf is escaped or constant,
to a balanced snippet only if it is a markup-filter leaf; and no hole is left unescaped. -/
theorem C20_terms_match_leaf_table :
    (∀ m ∈ HtmlTpl.macros, termLeavesOk HtmlTpl.leaves m = true ∧ hasUnsafe m = false) ∧
    (∀ r ∈ HtmlTpl.roots, termLeavesOk HtmlTpl.leaves r.2 = true ∧ hasUnsafe r.2 = false) := by decide

/-! ## 3. Balance -/

/-- Soundness of the static stack-effect analysis, for any macro environment and any term: if every macro body is
neutral (under the assumption that macro calls are) and the term is neutral, every rendering is well nested. -/
theorem C20_balance_analysis_sound (env : List Tm) (t : Tm) (s : List Tok) (hm : macrosOk env = true)
    (hn : isNeutral env.length t = true) (hr : Renders env t s) : wellNested s = true := by
  have h := effect_sound hm hr .neutral (isNeutral_iff.mp hn) []
  simp [Eff.neutral] at h
  simp [wellNested, h]

/-- More generally the analysis computes the effect on the stack of open elements. -/
theorem C20_effect_sound (env : List Tm) (t : Tm) (s : List Tok) (e : Eff) (hm : macrosOk env = true)
    (he : effect env.length t = some e) (hr : Renders env t s) (st : List Tag) :
    runToks (e.pops ++ st) s = some (e.pushes ++ st) :=
  effect_sound hm hr e he st

/-- The analysis answers "neutral" for every macro and every root template of the generated abstraction. -/
theorem C20_templates_neutral :
    macrosOk HtmlTpl.macros = true ∧ ∀ r ∈ HtmlTpl.roots, isNeutral HtmlTpl.macros.length r.2 = true := by decide

/-- Hence every rendering of every root template is well nested. -/
theorem C20_every_page_well_nested (name : String) (t : Tm) (h : (name, t) ∈ HtmlTpl.roots) (s : List Tok)
    (hr : Renders HtmlTpl.macros t s) : wellNested s = true :=
  C20_balance_analysis_sound _ _ _ C20_templates_neutral.1 (C20_templates_neutral.2 _ h) hr

/-- The markup filter contributes balanced snippets only, for every type/attribute it is applied to, and each of
its pieces is a constant `span` tag or escaped text. -/
theorem C20_display_type_balanced (span : Tag) (d : DT) :
    Balanced (displayToks span d) ∧
    ∀ p ∈ displayPieces d, (∃ col, renderPiece p = spanOpen col) ∨ renderPiece p = spanClose ∨
      ∃ s, renderPiece p = escape s := by
  refine ⟨displayToks_balanced span d, ?_⟩
  intro p _
  cases p with
  | spanO col => exact .inl ⟨col, rfl⟩
  | spanC => exact .inr (.inl rfl)
  | lit s => exact .inr (.inr ⟨s, rfl⟩)
  | txt s => exact .inr (.inr ⟨s, rfl⟩)

/-! ## 4. Links -/

/-- The fragment of `url_from_type t` is the id of the entry that documents `t` (`tag_id` of `t`, or of its service
for a request/response type). -/
theorem C20_link_fragment_is_entry_id (t : CType) (h : '#' ∉ t.rootNamespace) :
    (splitFragment (urlFromType t)).2 = tagId t.entry := by
  have e : urlFromType t = ("../".toList ++ t.rootNamespace ++ ['/']) ++ '#' ::
      (replaceChar '.' ['_'] (if t.hasParentService then t.fullNamespace else t.fullName) ++
        versionSuffix t.major t.minor) := by simp [urlFromType]
  have hno : '#' ∉ "../".toList ++ t.rootNamespace ++ ['/'] := by
    intro hm
    simp only [List.mem_append] at hm
    rcases hm with (hm | hm) | hm
    · revert hm; decide
    · exact h hm
    · revert hm; decide
  rw [e, splitFragment_append hno]
  cases hps : t.hasParentService <;> simp [tagId, CType.entry, CType.fullName, CType.fullNamespace, hps]

/-- A reference to `t` on the page of *any* namespace `ns` (any depth) resolves to the page the generator writes
for `t`'s root namespace, with the entry id as fragment. -/
theorem C20_type_link_resolves (ns : List Str) (t : CType) (hns : ns ≠ []) (hv : ∀ c ∈ ns, ValidComp c)
    (hr : ValidComp t.rootNamespace) :
    resolve (nsPagePath ns) (typeHref ns t) = some (nsPagePath [t.rootNamespace], tagId t.entry) := by
  have hfrag : (replaceChar '.' ['_'] (if t.hasParentService then t.fullNamespace else t.fullName) ++
      versionSuffix t.major t.minor) = tagId t.entry := by
    cases hps : t.hasParentService <;> simp [tagId, CType.entry, CType.fullName, CType.fullNamespace, hps]
  unfold typeHref upPrefix urlFromType nsPagePath
  rw [countDots_join hv hns, hfrag]
  exact resolve_up_root hr hns

/-- …and that page contains the entry: the page of a namespace lists every type of the namespace and of all
namespaces nested in it (except the doc holder `_`). -/
theorem C20_namespace_page_lists_every_type (tree : NsTree) (t : CType) (ht : t ∈ allTypes tree)
    (hs : t.comps.getLastD [] ≠ ['_']) : tagId t ∈ entryIds tree :=
  entryIds_complete tree t ht hs

/-- The back link of a type page resolves to the page of the type's own namespace, fragment = the id of that
namespace's entry, which is the first namespace entry of that page. -/
theorem C20_back_link_resolves (t : CType) :
    resolve (typePagePath t) (backHref t) = some (nsPagePath t.comps.dropLast, nsId t.comps.dropLast) ∧
    ∀ types children, nsId t.comps.dropLast ∈ nsEntryIds (.node t.comps.dropLast types children) := by
  refine ⟨?_, fun _ _ => by simp [nsEntryIds]⟩
  have e : backHref t = indexPage ++ '#' :: nsId t.comps.dropLast := rfl
  unfold resolve
  rw [e, splitFragment_append (by decide)]
  have h1 : indexPage ≠ [] := by decide
  have h2 : splitOn '/' indexPage = [indexPage] := by decide
  have h4 : indexPage ≠ ['.', '.'] := by decide
  simp [h1, h2, h4, resolveSegs, typePagePath, nsPagePath]

/-- Every `href=` in the templates has one of the recognised forms; a type reference is only emitted for types
that have an entry of their own (guard `t.short_name != "_"`); the link prefix parameter is only ever
`"../" * T.full_name.count(".")` (at the root call) or passed through. -/
theorem C20_href_forms_recognised :
    (∀ h ∈ HtmlTpl.hrefs, hrefFormOk h.2.1 h.2.2 = true) ∧ (∀ b ∈ HtmlTpl.bindings, upBindingOk b = true) := by decide


/-! ## 5. The reference inventory: every anchor, every reference, every link of a generation run

`Model/HtmlPage.lean` computes, from the namespace tree of a run, every `id` and every reference (`href`, `data-target`,
`onclick`, `aria-controls`, `for`, the id selector of the inline script) of every page in document order; the tie compares
that list with the attributes a strict parser finds on the real pages, item by item. -/

/-- The model implements the whole inventory: the table of all anchor / reference / URL / event-handler attributes that the
translator finds in the templates equals the forms `nsPageItems` / `typePageItems` are written from; so do the page-dependent
DOM lookups of the templates' own scripts and the signature (default root) of `toggleCollapse`.  (`decide`, whole tables.) -/
theorem C20_reference_inventory_is_modelled :
    HtmlRefs.refs = expectedRefs ∧
    HtmlRefs.jsLookups.filter JsLookup.dynamic = expectedDynamicLookups ∧
    ("namespace_base.js", "toggleCollapse", expectedToggleSignature) ∈ HtmlRefs.jsFunctions := by decide

/-- the constant ids of a namespace page, from the generated table -/
def constIds : List String :=
  HtmlRefs.refs.filterMap fun r =>
    if r.scope == "root:Namespace.j2" && r.attr == "id" then (match r.parts with | [.lit s] => some s | _ => none) else none

/-- References with a constant target: every `getElementById("…")` of the templates' scripts and every `#id` selector of
their style sheets names one of the constant ids of the namespace page, which are the ids of the model's constant part. -/
theorem C20_constant_references_resolve :
    (∀ l ∈ HtmlRefs.jsLookups, ∀ s, l.constId = some s → s ∈ constIds) ∧
    (∀ c ∈ HtmlRefs.cssIds, c.1 = "root:Namespace.j2" ∧ c.2 ∈ constIds) ∧
    idsOf (nsPageHead ++ nsPageMid) = constIds.map String.toList := by decide

/-- **Every same-page reference resolves**, for every namespace tree: each `data-target="#s"`, `onclick="toggleCollapse(event,
's'…)"`, `aria-controls="s"`, `for="s"`, `href="#s"` and the inline script's `querySelector("#s")` on the page of a namespace
names an `id` that the same page defines; and the root element a `toggleCollapse` call names exists too. -/
theorem C20_same_page_references_resolve (tr : NsD) : ∀ it ∈ nsPageItems tr,
    (∀ s, it.sameRef = some s → s ∈ idsOf (nsPageItems tr)) ∧ (∀ r, it.rootRef = some r → r ∈ idsOf (nsPageItems tr)) := by
  intro it hit
  refine ⟨nsPageItems_refsSelf tr it hit, fun r hr => ?_⟩
  rcases (nsPageItems_shape tr it hit).1 r hr with rfl | rfl
  · exact head_ids_sub tr _ (by decide)
  · exact mid_ids_sub tr _ (by decide)

/-- The entries of all namespaces of the tree and of all listed types (the targets of the sidebar links and of the links
from other pages) are on the page, and so is the `…_sidebar` twin that `toggleCollapse` / `scrollSidebar` look up. -/
theorem C20_listed_entries_and_sidebar_twins (tr : NsD) : ∀ s ∈ topTargets tr,
    s ∈ idsOf (nsPageItems tr) ∧ s ++ sidebarSuffix ∈ idsOf (nsPageItems tr) :=
  fun s hs => ⟨topTargets_sub tr s hs, sidebar_ids_sub tr _ (twins_in_sidebar tr s hs)⟩

/-- **Every relative link of the output resolves**: for runs (one per root namespace) written into one output directory
that are laid out by name (`RunOk`) and closed under reference (`Closed`: the type a link is made for has its entry — its own,
or its service's for a request / response type — among the listed types of the run of its root namespace), every relative
`href` on every page the generator writes (the page of every namespace at every depth, the page of every type) resolves to a
file the generator writes, and its fragment is an `id` of that file. -/
theorem C20_every_link_of_the_site_resolves (runs : List NsD) (hok : ∀ run ∈ runs, RunOk run) (hcl : Closed runs) :
    ∀ f ∈ site runs, ∀ it ∈ f.2, ∀ h, it.relLink = some h → Resolves (site runs) f.1 h :=
  site_links_resolve runs hok hcl


/-- The same with the hypotheses in executable form (`runOkB`, `closedB`: what the driver evaluates for the real runs of the
tie, and what the examples below decide). -/
theorem C20_every_link_of_the_site_resolves_checked (runs : List NsD) (hok : runs.all runOkB = true) (hcl : closedB runs = true) :
    ∀ f ∈ site runs, ∀ it ∈ f.2, ∀ h, it.relLink = some h → Resolves (site runs) f.1 h :=
  site_links_resolve runs (fun run hrun => runOk_of_runOkB (List.all_eq_true.mp hok run hrun)) (closed_of_closedB hcl)

/-- The files of a run do not overwrite each other: two types are written to the same path only if they have the same name
and version, and no type page has the path of a namespace page. -/
theorem C20_page_files_distinct (a b : CType) (ha : a.comps ≠ []) (hb : b.comps ≠ []) :
    (typePagePath a = typePagePath b → a.comps = b.comps ∧ a.major = b.major ∧ a.minor = b.minor) ∧
    ∀ ns, typePagePath a ≠ nsPagePath ns :=
  ⟨typePagePath_inj ha hb, typePagePath_ne_nsPagePath a⟩


/-- **The bytes of a page are a function of the run's input only.**  `_generate_code` opens each output file with
`open(path, "w")`, i.e. replaces whatever is there (`writeFile`); the files of a run have pairwise different paths
(`C20_page_files_distinct`).  Then, whatever the output directory held before — the longer pages of an earlier state of the
definitions, pages of types that no longer exist — every file of the run reads back exactly the content rendered for it: a
regenerated page is well formed, escaped and linked iff the freshly generated one is.  (The tie generates an earlier, longer
and an earlier, shorter state into the same output directory first and compares every file with a fresh run, byte for byte.) -/
theorem C20_page_content_independent_of_previous_output {α : Type} (files : List (List Str × α)) (before₁ before₂ : OutDir α)
    (hpaths : (files.map (·.1)).Nodup) : ∀ f ∈ files,
    readFile (writeAll before₁ files) f.1 = some f.2 ∧ readFile (writeAll before₂ files) f.1 = some f.2 :=
  fun f hf => ⟨readFile_writeAll files before₁ hpaths f hf, readFile_writeAll files before₂ hpaths f hf⟩

/-- Which links a page has: the relative links of the page of namespace `tr` are exactly `"../" * depth` + `url_from_type`
of the types `linkedNs tr` lists (nested entries with `short_name != "_"`). -/
theorem C20_relative_links_are_type_links (tr : NsD) : ∀ it ∈ nsPageItems tr, ∀ h, it.relLink = some h →
    ∃ ct ∈ linkedNs tr, h = typeHref tr.name ct :=
  fun it hit => (nsPageItems_shape tr it hit).2

/-! ### When ids coincide -/

/-- **Exactly when two tag ids coincide**: when the dot-to-underscore flattenings of the two full names coincide and the
versions are equal.  The version suffix is never the cause (`_<major>_<minor>` is read back from the right). -/
theorem C20_tag_id_collision_iff (a b : CType) :
    tagId a = tagId b ↔ nsId a.comps = nsId b.comps ∧ a.major = b.major ∧ a.minor = b.minor := tagId_eq_iff a b

/-- The flattening is not injective: wherever a component `u_v` stands, the two components `u`, `v` give the same id —
`a.b_c.D` and `a.b.c_D`, a namespace `r.b_c` and a namespace `r.b.c` (for dot-free components). -/
theorem C20_flattening_collides (pre post : List Str) (u v : Str)
    (h : ∀ c ∈ pre ++ u :: v :: post, '.' ∉ c) :
    nsId (pre ++ (u ++ '_' :: v) :: post) = nsId (pre ++ u :: v :: post) ∧
    ∀ M m hps, tagId ⟨pre ++ (u ++ '_' :: v) :: post, M, m, hps⟩ = tagId ⟨pre ++ u :: v :: post, M, m, hps⟩ := by
  have h1 : ∀ c ∈ pre ++ (u ++ '_' :: v) :: post, '.' ∉ c := by
    intro c hc
    simp only [List.mem_append, List.mem_cons] at hc
    rcases hc with hc | rfl | hc
    · exact h c (by simp [hc])
    · intro hm
      simp only [List.mem_append, List.mem_cons] at hm
      rcases hm with hm | hm | hm
      · exact h u (by simp) hm
      · revert hm; decide
      · exact h v (by simp) hm
    · exact h c (by simp [hc])
  have e : nsId (pre ++ (u ++ '_' :: v) :: post) = nsId (pre ++ u :: v :: post) := by
    rw [nsId_eq_join h1, nsId_eq_join h, join_underscore_collides]
  exact ⟨e, fun M m hps => (tagId_eq_iff _ _).mpr ⟨e, rfl, rfl⟩⟩

/-- …and that is the only cause: on names whose components contain no underscore the ids of namespaces are distinct and
the tag ids of types with distinct (name, version) are distinct. -/
theorem C20_ids_distinct_without_underscores (a b : CType)
    (ha : ∀ c ∈ a.comps, ValidComp c ∧ '_' ∉ c) (hb : ∀ c ∈ b.comps, ValidComp c ∧ '_' ∉ c) :
    (nsId a.comps = nsId b.comps → a.comps = b.comps) ∧
    (tagId a = tagId b → a.comps = b.comps ∧ a.major = b.major ∧ a.minor = b.minor) := by
  have hinj : nsId a.comps = nsId b.comps → a.comps = b.comps := by
    intro h
    rw [nsId_eq_join (fun c hc => validComp_noDot (ha c hc).1), nsId_eq_join (fun c hc => validComp_noDot (hb c hc).1)] at h
    exact join_injective_of_no_underscore (fun c hc => ⟨(ha c hc).1.1, (ha c hc).2⟩) (fun c hc => ⟨(hb c hc).1.1, (hb c hc).2⟩) h
  exact ⟨hinj, fun h => let ⟨h1, h2, h3⟩ := (tagId_eq_iff a b).mp h; ⟨hinj h1, h2, h3⟩⟩


/-- **Ids are unique on a page** when the names are simple (`simpleRun`, decidable): every name component is alphanumeric
and starts with a letter — in particular has no underscore —, no namespace component is `sidebar` or `array<digits>`, no
namespace id is one of the page's constant ids, every minor version is below 10, request / response types are not listed,
and the namespaces and listed types of the tree are pairwise different.  Then all `id`s of the page of the namespace — the
constant ones, the sidebar twins, the namespace and type entries and every `make_unique` result of the nested entries — are
pairwise distinct, so a fragment link or a script lookup reaches exactly the intended element.  Each condition is needed:
the examples below violate one each and have two equal ids. -/
theorem C20_page_ids_unique (tr : NsD) (h : simpleRun tr = true) : (idsOf (nsPageItems tr)).Nodup := page_ids_nodup tr h

/-! ### Ids in selectors, links as URLs -/

/-- Ids are used by the scripts as `#` + id selectors built by plain concatenation.  For front-end-valid names (components of
name characters, the first one not starting with a digit) every kind of id the templates make is a CSS identifier, so the
selector selects by id: the id of a namespace entry, of a type entry, their `_sidebar` twins, the result of `make_unique`
on any of them, and the id of an array entry. -/
theorem C20_ids_are_css_identifiers :
    (∀ name : List Str, (∀ c ∈ name, ValidComp c) → FirstOk name →
      isCssIdent (nsId name) = true ∧ isCssIdent (nsId name ++ sidebarSuffix) = true) ∧
    (∀ t : CType, (∀ c ∈ t.comps, ValidComp c) → FirstOk t.comps →
      isCssIdent (tagId t) = true ∧ isCssIdent (tagId t ++ sidebarSuffix) = true ∧
      ∀ seen, isCssIdent (makeUnique seen (tagId t)).1 = true) ∧
    (∀ es : Str, (∀ ch ∈ es, isNameOrDot ch = true ∨ ch = ' ') → (∃ c t, es = c :: t ∧ (c.isAlpha = true ∨ c = '_')) →
      isCssIdent (tagIdArray es) = true ∧ ∀ seen, isCssIdent (makeUnique seen (tagIdArray es)).1 = true) := by
  refine ⟨fun name hv hf => ?_, fun t hv hf => ?_, fun es hs hf => ?_⟩
  · exact ⟨isCssIdent_of_identLike (nsId_identLike hv hf),
      isCssIdent_of_identLike ((nsId_identLike hv hf).append sidebarSuffix_nameChars)⟩
  · exact ⟨isCssIdent_of_identLike (tagId_identLike hv hf),
      isCssIdent_of_identLike ((tagId_identLike hv hf).append sidebarSuffix_nameChars),
      fun seen => isCssIdent_of_identLike (makeUnique_identLike (tagId_identLike hv hf) seen)⟩
  · exact ⟨isCssIdent_of_identLike (tagIdArray_identLike hs hf),
      fun seen => isCssIdent_of_identLike (makeUnique_identLike (tagIdArray_identLike hs hf) seen)⟩

/-- The URL context.  The templates HTML-escape the value of `href` but nothing percent-encodes it; the links made from
DSDL names need neither: every character of a type link and of a back link stands for itself in a URL path / fragment,
escaping leaves the link unchanged, and there is no `:` (no scheme can be formed), `%` or `?`. -/
theorem C20_links_are_plain_urls (ns : List Str) (t : CType) (hv : ∀ c ∈ t.comps, ValidComp c) :
    (urlSafe (typeHref ns t) = true ∧ escape (typeHref ns t) = typeHref ns t ∧ ':' ∉ typeHref ns t ∧ '%' ∉ typeHref ns t ∧
      '?' ∉ typeHref ns t) ∧
    (urlSafe (backHref t) = true ∧ escape (backHref t) = backHref t ∧ ':' ∉ backHref t ∧ '%' ∉ backHref t ∧ '?' ∉ backHref t) := by
  refine ⟨allLinkChars_props ?_, allLinkChars_props (backHref_linkChars hv)⟩
  intro c hc
  rcases List.mem_append.mp hc with h | h
  · exact upPrefix_linkChars _ c h
  · exact urlFromType_linkChars hv c h

/-- Every context the templates place an expression in is one of those with a lemma above (element text and quoted
attribute values: `C20_escaped_leaf_is_character_data`; JS string literals: `C20_name_text_stays_in_js_string`; URL
attributes: `C20_links_are_plain_urls`); none is placed in a style sheet or a single-quoted attribute; and free text — a
documentation comment — is only ever placed in element content.  (`decide`, whole leaf table.) -/
theorem C20_every_context_is_covered :
    (∀ l ∈ HtmlTpl.leaves, l.ctx = .data ∨ l.ctx = .attrDq ∨ l.ctx = .attrJs ∨ l.ctx = .script ∨ l.ctx = .attrUrl) ∧
    (∀ l ∈ HtmlTpl.leaves, l.origin = .doc → l.ctx = .data) ∧
    (∀ l ∈ HtmlTpl.leaves, l.ctx = .attrUrl → l.origin = .const ∨ l.origin = .name ∨ l.origin = .ident ∨ l.origin = .url) := by decide

/-! ## 6. The constant markup of the templates -/

/-- Every tag of the constant template text is well formed (unique attribute names, every value quoted, void elements never
closed, only void elements self-closing, no attributes on end tags); every `&` is a complete known character reference
or the parameter separator of a URL inside an attribute; no raw-text element contains `<!--`, the bundled assets contain no
expression; every page template is empty (`ServiceType.j2`: the page of a service is an empty file) or starts
`<!DOCTYPE html><html><head>` and has a `<title>` and a `<meta charset>`.  (`decide`, whole tables.) -/
theorem C20_constant_markup_well_formed :
    (∀ t ∈ HtmlRefs.tagFacts, t.ok = true) ∧ (∀ r ∈ HtmlRefs.charRefs, charRefOk r = true) ∧
    (∀ r ∈ HtmlRefs.rawTexts, r.ok = true) ∧ (∀ h ∈ HtmlRefs.pageHeads, h.ok = true) ∧
    (HtmlRefs.pageHeads.filter (·.empty)).map (·.root) = ["ServiceType.j2"] := by decide +kernel

/-! ## Non-vacuity -/

example : escape "</pre><script>alert(1)</script> & \"q\" 'x' -->".toList =
    "&lt;/pre&gt;&lt;script&gt;alert(1)&lt;/script&gt; &amp; &#34;q&#34; &#39;x&#39; --&gt;".toList := by decide

example : (HtmlTpl.leaves.filter fun l => l.origin == .doc).length ≥ 5 := by decide
example : HtmlTpl.roots.length = 5 ∧ HtmlTpl.macros.length = 3 := by decide

/-- a real rendering shape: `<p><a></a></p><div><pre></pre><hr></div>` -/
example : wellNested [.op 8, .op 6, .cl 6, .cl 8, .op 10, .op 9, .cl 9, .vd 16, .cl 10] = true := by decide
example : wellNested [.op 8, .op 6, .cl 8, .cl 6] = false := by decide

/-- the analysis rejects a template with an unbalanced `</div>` in one branch -/
example : isNeutral 0 (Tm.sq [Tm.o 10, Tm.al [Tm.sq [Tm.c 10], Tm.sq []], Tm.c 10]) = false := by decide

example : resolve (nsPagePath ["reg".toList, "udral".toList, "service".toList])
    (typeHref ["reg".toList, "udral".toList, "service".toList] ⟨["uavcan".toList, "si".toList, "Scalar".toList], 1, 0, false⟩) =
    some (["uavcan".toList, indexPage], "uavcan_si_Scalar_1_0".toList) := by decide

/-- equal characters, different kind: the plain one is escaped, the Markup one is not, in either order -/
example : escapeRun [⟨true, "<b>".toList⟩, ⟨false, "<b>".toList⟩, ⟨true, "<b>".toList⟩] =
    ["<b>".toList, "&lt;b&gt;".toList, "<b>".toList] := by decide


/-! ### The reference inventory: a run with every kind of id collision (replayed on the real generator by the tie,
corpus set `07_id_collisions`) -/

def collisionRun : NsD :=
  let ty (comps : List String) (M m : Nat) (attrs : List Ent) : Ent := .comp ⟨comps.map String.toList, M, m, false⟩ false attrs
  let b11 := ty ["r", "B"] 1 1 []
  .node ["r".toList]
    [ty ["r", "A"] 1 0 [], ty ["r", "B"] 1 10 [], b11, ty ["r", "H"] 1 0 [b11, b11]]
    [.node ["r".toList, "A_1_0".toList] [ty ["r", "A_1_0", "Q"] 1 0 []] [],
     .node ["r".toList, "b".toList] [ty ["r", "b", "c_D"] 1 0 []] [],
     .node ["r".toList, "b_c".toList] [ty ["r", "b_c", "D"] 1 0 []] [],
     .node ["r".toList, "x".toList] [ty ["r", "x", "Y"] 1 0 []] [],
     .node ["r".toList, "x_sidebar".toList] [ty ["r", "x_sidebar", "Z"] 1 0 []] []]

/-- ids are NOT unique in general: flattened names (`r.b_c.D` / `r.b.c_D`, the type `r.A` v1.0 / the namespace `r.A_1_0`),
the counter `make_unique` appends (`r.B` v1.1 nested, first occurrence → `r_B_1_10` = the entry of `r.B` v1.10), the
`_sidebar` suffix (namespace `r.x_sidebar` / the sidebar twin of `r.x`). -/
example : (idsOf (nsPageItems collisionRun)).count "r_b_c_D_1_0".toList = 2 ∧
    (idsOf (nsPageItems collisionRun)).count "r_A_1_0".toList = 2 ∧
    (idsOf (nsPageItems collisionRun)).count "r_B_1_10".toList = 2 ∧
    (idsOf (nsPageItems collisionRun)).count "r_x_sidebar".toList = 2 := by decide


/-- a run with simple names: nested entries of the same type twice, arrays, a service, several versions -/
def simpleExampleRun : NsD :=
  let ct (comps : List String) (M m : Nat) (hps := false) : CType := ⟨comps.map String.toList, M, m, hps⟩
  let u := Ent.comp (ct ["reg", "U"] 1 2) false []
  let v := Ent.comp (ct ["reg", "n1", "V"] 1 0) false [u, .arr "reg.U.1.2".toList [u], .arr "saturated uint8".toList []]
  .node ["reg".toList]
    [.comp (ct ["reg", "Svc"] 2 0) true
       [.comp (ct ["reg", "Svc", "Request"] 2 0 true) false [u], .comp (ct ["reg", "Svc", "Response"] 2 0 true) false [v]],
     u, .comp (ct ["reg", "U"] 1 0) false []]
    [.node ["reg".toList, "n1".toList] [v] [.node ["reg".toList, "n1".toList, "Deep".toList] [] []]]

example : simpleRun simpleExampleRun = true ∧ (idsOf (nsPageItems simpleExampleRun)).length = 36 := by decide

/-- the hypotheses of the link theorem hold for both example runs (and all their links resolve, above) -/
example : [collisionRun, simpleExampleRun].all runOkB = true ∧ closedB [collisionRun] = true ∧ closedB [simpleExampleRun] = true := by
  decide

/-- each collision witness violates the condition -/
example : simpleRun collisionRun = false ∧ simpleRun (.node ["search".toList] [] []) = false := by decide


/-- what an opener that does not truncate would leave behind when the new page is shorter: the new page followed by the tail
of the old one (a second `</html>`): not the rendered content -/
example : overwriteInPlace "<html><pre>long old text</pre></html>".toList "<html><pre>new</pre></html>".toList =
    "<html><pre>new</pre></html>re></html>".toList ∧
    readFile (writeFile [(["ns".toList, indexPage], "<html><pre>long old text</pre></html>".toList)] ["ns".toList, indexPage]
      "<html><pre>new</pre></html>".toList) ["ns".toList, indexPage] = some "<html><pre>new</pre></html>".toList := by decide

/-- a root namespace named like a constant id of the page -/
example : (idsOf (nsPageItems (.node ["search".toList] [] []))).count "search".toList = 2 := by decide

/-- still every reference of that page has a target, and every link of the run resolves -/
example : (siteLinkVerdicts (site [collisionRun])).length = 11 ∧ (siteLinkVerdicts (site [collisionRun])).all (·.2.2) = true := by decide

/-- a nested entry has no `_sidebar` twin (the script's lookup `#r_B_1_10_sidebar` would find the twin of another entry,
`#r_B_1_11_sidebar` nothing): an observation outside the property, only listed entries have twins -/
example : "r_B_1_11".toList ∈ idsOf (nsPageItems collisionRun) ∧
    "r_B_1_11_sidebar".toList ∉ idsOf (nsPageItems collisionRun) := by decide

example : HtmlRefs.refs.length = 39 ∧ HtmlRefs.tagFacts.length ≥ 200 ∧ HtmlRefs.jsLookups.length ≥ 25 := by decide +kernel

/-! ## Before the fixes (regression witnesses) -/

/-- F16: with `select_autoescape(("htm","html","xml","json"))` keyed on template names that all end in `.j2`, no
leaf was escaped; this is the row of `<pre class="docs">{{ t.doc }}</pre>` as the translator produced it then. -/
def docLeafBeforeFix : Leaf := ⟨"type_info.j2", 60, "t.doc", .doc, .data, false, false, "none"⟩

example : docLeafBeforeFix.origin.isDsdl = true ∧ docLeafBeforeFix.escaped = false ∧ docLeafBeforeFix.ok = false := by
  decide

example : autoescapeRuleBeforeFix "html" (some "type_info.j2") = false ∧ autoescapeRule "c" (some "page.HTML") = true ∧
    autoescapeRule "c" (some "type_info.j2") = false ∧ (HtmlTpl.escapingDecisions.filter (·.1 == "html")).length ≥ 60 := by decide

/-- Unescaped, the doc text leaves character data … -/
example : lexRun .data "</pre><script>alert(1)</script>".toList ≠ .data := by decide

/-- … the hole is `wild`, the analysis refuses the term, and there is a rendering that is not well nested
(`<pre>` `</pre><script>…</script>` `</pre>`). -/
def docBlockBeforeFix : Tm := Tm.sq [Tm.o 9, Tm.un 0, Tm.c 9]

example : isNeutral 0 docBlockBeforeFix = false := by decide

example : ∃ s, Renders [] docBlockBeforeFix s ∧ wellNested s = false :=
  ⟨[.op 9] ++ ([.cl 9, .op 4, .cl 4] ++ [.cl 9]),
   .seq (.tok _) (.seq (.wild 0 _) (.tok _)), by decide⟩

/-- `display_type` wrote the array bound `[<=N]` with a raw `<`. -/
example : '<' ∈ displayTypeBeforeFix (.varArr (.other "ns.B.1.0".toList) 2) ∧
    (∀ pre, pre <+: displayTypeBeforeFix (.varArr (.other "ns.B.1.0".toList) 2) → True) ∧
    displayType (.varArr (.other "ns.B.1.0".toList) 2) =
      "ns.B.1.0<span style=\"color: green\">[&lt;=2]</span>".toList := by
  refine ⟨by decide, fun _ _ => trivial, by decide⟩

/-- Links on the page of a nested namespace pointed one directory too low (`ns/ns/` instead of `ns/`). -/
example : resolve (nsPagePath ["ns".toList, "sub".toList])
    (typeHrefBeforeFix ["ns".toList, "sub".toList] ⟨["ns".toList, "A".toList], 1, 0, false⟩) =
    some (["ns".toList, "ns".toList, indexPage], "ns_A_1_0".toList) := by decide

/-- Links to a service's request type pointed to an anchor no page contains. -/
example : (splitFragment (urlFromTypeBeforeFix ⟨["ns".toList, "S".toList, "Request".toList], 1, 0, true⟩)).2 =
    "ns_S_Request_1_0".toList ∧
    tagId (CType.entry ⟨["ns".toList, "S".toList, "Request".toList], 1, 0, true⟩) = "ns_S_1_0".toList := by decide

/-- A field of a doc-holder type (`ns._.0.1`) was linked to an entry that no page has. -/
example : hrefFormOk ["nested"] [.ex "up", .ex "t|url_from_type"] = false := by decide

/-- The back link of every type page was the constant `/reg/Namespace.html`. -/
example : hrefFormOk [] [.lit "/reg/Namespace.html"] = false := by decide

/-- The inline script of a nested namespace's page selected `"#" + T.full_name`: with a dot inside this is not an id
selector (`#r.b` = id `r` with class `b`), the lookup finds nothing and the script throws. -/
example : (nsPageItemsBeforeFix (.node ["r".toList, "b".toList] [] [])).getLast? = some (.jsSel "r.b".toList) ∧
    isCssIdent "r.b".toList = false ∧ "r.b".toList ∉ idsOf (nsPageItemsBeforeFix (.node ["r".toList, "b".toList] [] [])) ∧
    (nsPageItems (.node ["r".toList, "b".toList] [] [])).getLast? = some (.jsSel "r_b".toList) ∧ isCssIdent "r_b".toList = true := by
  decide

/-- No page declared its character encoding (the row of `Namespace.j2` as the translator produced it then). -/
example : PageHead.ok ⟨"Namespace.j2", false, true, ["html", "head", "title"], true, false⟩ = false := by decide


end NunavutVerif.Html
