import NunavutVerif.Lemmas.Html
import NunavutVerif.Gen.HtmlTpl
/-!
# C20 — generated HTML documentation is well-formed, escaped and internally linked

Property theorems only.  Definitions: `Model/Html.lean`; helper lemmas: `Lemmas/Html.lean`; the template
abstraction `Gen/HtmlTpl.lean` is regenerated from the tree under check by `translate/htmltpl.py` on every run.

Quantifiers: all strings (escaping), all renderings of the template terms (balance), all page namespaces and all
type references with front-end-valid name components (links); `decide` only over the generated tables, whole.

The model describes the tree *after* the proposed fixes (autoescaping for the HTML language, `display_type` returns
escaped Markup, depth-aware link prefix, service request/response links, back link of type pages); the behaviour
before is kept as `…BeforeFix` with the negations as `example`s at the end.
-/
namespace NunavutVerif.Html
open NunavutVerif.Gen

/-! ## 1. Escaping: for all strings -/

/-- `escape s` contains none of `<`, `>`, `"`, `'`. -/
theorem C20_escape_no_markup_chars (s : Str) : ∀ c ∈ escape s, c ≠ '<' ∧ c ≠ '>' ∧ c ≠ '"' ∧ c ≠ '\'' :=
  fun _ h => mem_escape h

/-- Every `&` in `escape s` starts one of the five references, every other character is plain. -/
theorem C20_escape_amp_starts_entity (s : Str) : CharData entities (escape s) := escape_charData s

/-- Decoding the references gives back exactly the original text: the text appears as text, unchanged. -/
theorem C20_escape_roundtrip (s : Str) : unescape (escape s) = s := unescape_escape s

/-- An escaped leaf is character data in each context: no prefix of it moves the tokenizer out of element text,
out of a quoted attribute value, or out of a raw-text element. -/
theorem C20_escaped_leaf_is_character_data (s pre : Str) (hp : pre <+: escape s) :
    lexRun .data pre = .data ∧ lexRun .attrDq pre = .attrDq ∧ lexRun .attrSq pre = .attrSq ∧
    lexRun .rawText pre = .rawText := by
  have h := C20_escape_no_markup_chars s
  refine ⟨lexRun_prefix_stays (fun c hc => ?_) hp, lexRun_prefix_stays (fun c hc => ?_) hp,
          lexRun_prefix_stays (fun c hc => ?_) hp, lexRun_prefix_stays (fun c hc => ?_) hp⟩
  · simp [lexStep, (h c hc).1]
  · simp [lexStep, (h c hc).2.2.1]
  · simp [lexStep, (h c hc).2.2.2]
  · simp [lexStep, (h c hc).1]

/-- The same for the standard library's `html.escape`, which `filter_make_unique` applies itself. -/
theorem C20_std_escape_is_character_data (s pre : Str) (hp : pre <+: escapeStd s) :
    CharData entitiesStd (escapeStd s) ∧
    lexRun .data pre = .data ∧ lexRun .attrDq pre = .attrDq ∧ lexRun .attrSq pre = .attrSq := by
  have h : ∀ c ∈ escapeStd s, _ := fun c hc => mem_escapeStd hc
  refine ⟨escapeStd_charData s, lexRun_prefix_stays (fun c hc => ?_) hp, lexRun_prefix_stays (fun c hc => ?_) hp,
          lexRun_prefix_stays (fun c hc => ?_) hp⟩
  · simp [lexStep, (h c hc).1]
  · simp [lexStep, (h c hc).2.2.1]
  · simp [lexStep, (h c hc).2.2.2]

/-- Escaping has no history: in any run (any values before and after, in particular Markup values with the same
characters), what is emitted for a value is `escapeVal` of that value alone; a plain (non-Markup) value therefore always
comes out as character data, and a Markup value always unchanged. -/
theorem C20_escape_value_history_independent (before after : List Val) (v : Val) :
    (escapeRun (before ++ v :: after))[before.length]? = some (escapeVal v) ∧
    (v.markup = false → (∀ c ∈ escapeVal v, c ≠ '<' ∧ c ≠ '>' ∧ c ≠ '"' ∧ c ≠ '\'') ∧ unescape (escapeVal v) = v.text) ∧
    (v.markup = true → escapeVal v = v.text) := by
  refine ⟨by simp [escapeRun], ?_, ?_⟩
  · intro h
    simp only [escapeVal, h]
    exact ⟨fun _ hc => mem_escape hc, unescape_escape _⟩
  · intro h; simp [escapeVal, h]

/-- Inside a quoted JS string literal HTML escaping is not a protection; there only text over the front end's name
alphabet is placed (table check below), and such text is unchanged by escaping and stays inside the literal. -/
theorem C20_name_text_stays_in_js_string (s : Str) (h : ∀ c ∈ s, isNameOrDot c = true) (q : Char)
    (hq : q = '\'' ∨ q = '"') : escape s = s ∧ jsRun q (escape s) = true := by
  refine ⟨escape_of_nameOrDot h, ?_⟩
  rw [escape_of_nameOrDot h]
  apply jsRun_stays
  intro c hc
  obtain ⟨_, _, _, h4, h5, h6, h7, h8, _⟩ := nameOrDot_not_special (h c hc)
  rcases hq with rfl | rfl <;> simp [jsStep, h4, h5, h6, h7, h8]

/-- Ids are made of name characters when the name components are. -/
theorem C20_tag_id_alphabet (t : CType) (h : ∀ c ∈ t.comps, ValidComp c) : ∀ c ∈ tagId t, isNameChar c = true :=
  tagId_nameChars h

/-! ## 2. The generated leaf table: every leaf of DSDL origin is escaped -/

/-- Every `{{ }}` whose value comes from the DSDL definitions is escaped on every path (by the environment's real
autoescape answer for the defining template, an explicit `|e`, or the escaping filter that produced it). -/
theorem C20_every_dsdl_leaf_escaped : ∀ l ∈ HtmlTpl.leaves, l.origin.isDsdl = true → l.escaped = true := by
  decide

/-- The escaping decision is a function of the target language and the template name only: for the html target it is
ON for every template name, under every option variation the translator builds the real environment for (output
extension .xhtml/.txt/.HTML/.htm/.php/empty, namespace file stem, configuration overrides of the html section);
for another language the real answers are the file-name rule.  (`decide` over the whole generated table.) -/
theorem C20_escaping_decision_is_language_rule :
    (∀ r ∈ HtmlTpl.escapingDecisions, r.2.2.2 = autoescapeRule r.1 r.2.2.1) ∧
    (∀ r ∈ HtmlTpl.escapingDecisions, r.1 = "html" → r.2.2.2 = true) ∧
    (∀ name, autoescapeRule "html" name = true) := by
  refine ⟨by decide, by decide, fun _ => by simp [autoescapeRule]⟩

/-- The full per-leaf requirement: additionally, inside JS string literals only restricted-alphabet text, markup and
macro results only in element content. -/
theorem C20_every_leaf_ok : ∀ l ∈ HtmlTpl.leaves, l.ok = true := by decide

/-- The terms agree with the table: a hole is abstracted to character data only if its leaf is escaped or constant,
to a balanced snippet only if it is a markup-filter leaf; and no hole is left unescaped. -/
theorem C20_terms_match_leaf_table :
    (∀ m ∈ HtmlTpl.macros, termLeavesOk HtmlTpl.leaves m = true ∧ hasUnsafe m = false) ∧
    (∀ r ∈ HtmlTpl.roots, termLeavesOk HtmlTpl.leaves r.2 = true ∧ hasUnsafe r.2 = false) := by decide

/-! ## 3. Balance -/

/-- Soundness of the static stack-effect analysis, for any macro environment and any term: if every macro body is
neutral (under the assumption that macro calls are) and the term is neutral, every rendering is well nested. -/
theorem C20_balance_analysis_sound (env : List Tm) (t : Tm) (s : List Tok) (hm : macrosOk env = true)
    (hn : isNeutral env.length t = true) (hr : Renders env t s) : wellNested s = true := by
  have h := effect_sound hm hr .neutral (isNeutral_iff.mp hn) []
  simp [Eff.neutral] at h
  simp [wellNested, h]

/-- More generally the analysis computes the effect on the stack of open elements. -/
theorem C20_effect_sound (env : List Tm) (t : Tm) (s : List Tok) (e : Eff) (hm : macrosOk env = true)
    (he : effect env.length t = some e) (hr : Renders env t s) (st : List Tag) :
    runToks (e.pops ++ st) s = some (e.pushes ++ st) :=
  effect_sound hm hr e he st

/-- The analysis answers "neutral" for every macro and every root template of the generated abstraction. -/
theorem C20_templates_neutral :
    macrosOk HtmlTpl.macros = true ∧ ∀ r ∈ HtmlTpl.roots, isNeutral HtmlTpl.macros.length r.2 = true := by decide

/-- Hence every rendering of every root template is well nested. -/
theorem C20_every_page_well_nested (name : String) (t : Tm) (h : (name, t) ∈ HtmlTpl.roots) (s : List Tok)
    (hr : Renders HtmlTpl.macros t s) : wellNested s = true :=
  C20_balance_analysis_sound _ _ _ C20_templates_neutral.1 (C20_templates_neutral.2 _ h) hr

/-- The markup filter contributes balanced snippets only, for every type/attribute it is applied to, and each of
its pieces is a constant `span` tag or escaped text. -/
theorem C20_display_type_balanced (span : Tag) (d : DT) :
    Balanced (displayToks span d) ∧
    ∀ p ∈ displayPieces d, (∃ col, renderPiece p = spanOpen col) ∨ renderPiece p = spanClose ∨
      ∃ s, renderPiece p = escape s := by
  refine ⟨displayToks_balanced span d, ?_⟩
  intro p _
  cases p with
  | spanO col => exact .inl ⟨col, rfl⟩
  | spanC => exact .inr (.inl rfl)
  | lit s => exact .inr (.inr ⟨s, rfl⟩)
  | txt s => exact .inr (.inr ⟨s, rfl⟩)

/-! ## 4. Links -/

/-- The fragment of `url_from_type t` is the id of the entry that documents `t` (`tag_id` of `t`, or of its service
for a request/response type). -/
theorem C20_link_fragment_is_entry_id (t : CType) (h : '#' ∉ t.rootNamespace) :
    (splitFragment (urlFromType t)).2 = tagId t.entry := by
  have e : urlFromType t = ("../".toList ++ t.rootNamespace ++ ['/']) ++ '#' ::
      (replaceChar '.' ['_'] (if t.hasParentService then t.fullNamespace else t.fullName) ++
        versionSuffix t.major t.minor) := by simp [urlFromType]
  have hno : '#' ∉ "../".toList ++ t.rootNamespace ++ ['/'] := by
    intro hm
    simp only [List.mem_append] at hm
    rcases hm with (hm | hm) | hm
    · revert hm; decide
    · exact h hm
    · revert hm; decide
  rw [e, splitFragment_append hno]
  cases hps : t.hasParentService <;> simp [tagId, CType.entry, CType.fullName, CType.fullNamespace, hps]

/-- A reference to `t` on the page of *any* namespace `ns` (any depth) resolves to the page the generator writes
for `t`'s root namespace, with the entry id as fragment. -/
theorem C20_type_link_resolves (ns : List Str) (t : CType) (hns : ns ≠ []) (hv : ∀ c ∈ ns, ValidComp c)
    (hr : ValidComp t.rootNamespace) :
    resolve (nsPagePath ns) (typeHref ns t) = some (nsPagePath [t.rootNamespace], tagId t.entry) := by
  have hfrag : (replaceChar '.' ['_'] (if t.hasParentService then t.fullNamespace else t.fullName) ++
      versionSuffix t.major t.minor) = tagId t.entry := by
    cases hps : t.hasParentService <;> simp [tagId, CType.entry, CType.fullName, CType.fullNamespace, hps]
  unfold typeHref upPrefix urlFromType nsPagePath
  rw [countDots_join hv hns, hfrag]
  exact resolve_up_root hr hns

/-- …and that page contains the entry: the page of a namespace lists every type of the namespace and of all
namespaces nested in it (except the doc holder `_`). -/
theorem C20_namespace_page_lists_every_type (tree : NsTree) (t : CType) (ht : t ∈ allTypes tree)
    (hs : t.comps.getLastD [] ≠ ['_']) : tagId t ∈ entryIds tree :=
  entryIds_complete tree t ht hs

/-- The back link of a type page resolves to the page of the type's own namespace, fragment = the id of that
namespace's entry, which is the first namespace entry of that page. -/
theorem C20_back_link_resolves (t : CType) :
    resolve (typePagePath t) (backHref t) = some (nsPagePath t.comps.dropLast, nsId t.comps.dropLast) ∧
    ∀ types children, nsId t.comps.dropLast ∈ nsEntryIds (.node t.comps.dropLast types children) := by
  refine ⟨?_, fun _ _ => by simp [nsEntryIds]⟩
  have e : backHref t = indexPage ++ '#' :: nsId t.comps.dropLast := rfl
  unfold resolve
  rw [e, splitFragment_append (by decide)]
  have h1 : indexPage ≠ [] := by decide
  have h2 : splitOn '/' indexPage = [indexPage] := by decide
  have h4 : indexPage ≠ ['.', '.'] := by decide
  simp [h1, h2, h4, resolveSegs, typePagePath, nsPagePath]

/-- Every `href=` in the templates has one of the recognised forms; a type reference is only emitted for types
that have an entry of their own (guard `t.short_name != "_"`); the link prefix parameter is only ever
`"../" * T.full_name.count(".")` (at the root call) or passed through. -/
theorem C20_href_forms_recognised :
    (∀ h ∈ HtmlTpl.hrefs, hrefFormOk h.2.1 h.2.2 = true) ∧ (∀ b ∈ HtmlTpl.bindings, upBindingOk b = true) := by decide

/-! ## Non-vacuity -/

example : escape "</pre><script>alert(1)</script> & \"q\" 'x' -->".toList =
    "&lt;/pre&gt;&lt;script&gt;alert(1)&lt;/script&gt; &amp; &#34;q&#34; &#39;x&#39; --&gt;".toList := by decide

example : (HtmlTpl.leaves.filter fun l => l.origin == .doc).length ≥ 5 := by decide
example : HtmlTpl.roots.length = 5 ∧ HtmlTpl.macros.length = 3 := by decide

/-- a real rendering shape: `<p><a></a></p><div><pre></pre><hr></div>` -/
example : wellNested [.op 8, .op 6, .cl 6, .cl 8, .op 10, .op 9, .cl 9, .vd 16, .cl 10] = true := by decide
example : wellNested [.op 8, .op 6, .cl 8, .cl 6] = false := by decide

/-- the analysis rejects a template with an unbalanced `</div>` in one branch -/
example : isNeutral 0 (Tm.sq [Tm.o 10, Tm.al [Tm.sq [Tm.c 10], Tm.sq []], Tm.c 10]) = false := by decide

example : resolve (nsPagePath ["reg".toList, "udral".toList, "service".toList])
    (typeHref ["reg".toList, "udral".toList, "service".toList] ⟨["uavcan".toList, "si".toList, "Scalar".toList], 1, 0, false⟩) =
    some (["uavcan".toList, indexPage], "uavcan_si_Scalar_1_0".toList) := by decide

/-- equal characters, different kind: the plain one is escaped, the Markup one is not, in either order -/
example : escapeRun [⟨true, "<b>".toList⟩, ⟨false, "<b>".toList⟩, ⟨true, "<b>".toList⟩] =
    ["<b>".toList, "&lt;b&gt;".toList, "<b>".toList] := by decide

/-! ## Before the fixes (regression witnesses) -/

/-- F16: with `select_autoescape(("htm","html","xml","json"))` keyed on template names that all end in `.j2`, no
leaf was escaped; this is the row of `<pre class="docs">{{ t.doc }}</pre>` as the translator produced it then. -/
def docLeafBeforeFix : Leaf := ⟨"type_info.j2", 60, "t.doc", .doc, .data, false, false, "none"⟩

example : docLeafBeforeFix.origin.isDsdl = true ∧ docLeafBeforeFix.escaped = false ∧ docLeafBeforeFix.ok = false := by
  decide

example : autoescapeRuleBeforeFix "html" (some "type_info.j2") = false ∧ autoescapeRule "c" (some "page.HTML") = true ∧
    autoescapeRule "c" (some "type_info.j2") = false ∧ (HtmlTpl.escapingDecisions.filter (·.1 == "html")).length ≥ 60 := by decide

/-- Unescaped, the doc text leaves character data … -/
example : lexRun .data "</pre><script>alert(1)</script>".toList ≠ .data := by decide

/-- … the hole is `wild`, the analysis refuses the term, and there is a rendering that is not well nested
(`<pre>` `</pre><script>…</script>` `</pre>`). -/
def docBlockBeforeFix : Tm := Tm.sq [Tm.o 9, Tm.un 0, Tm.c 9]

example : isNeutral 0 docBlockBeforeFix = false := by decide

example : ∃ s, Renders [] docBlockBeforeFix s ∧ wellNested s = false :=
  ⟨[.op 9] ++ ([.cl 9, .op 4, .cl 4] ++ [.cl 9]),
   .seq (.tok _) (.seq (.wild 0 _) (.tok _)), by decide⟩

/-- `display_type` wrote the array bound `[<=N]` with a raw `<`. -/
example : '<' ∈ displayTypeBeforeFix (.varArr (.other "ns.B.1.0".toList) 2) ∧
    (∀ pre, pre <+: displayTypeBeforeFix (.varArr (.other "ns.B.1.0".toList) 2) → True) ∧
    displayType (.varArr (.other "ns.B.1.0".toList) 2) =
      "ns.B.1.0<span style=\"color: green\">[&lt;=2]</span>".toList := by
  refine ⟨by decide, fun _ _ => trivial, by decide⟩

/-- Links on the page of a nested namespace pointed one directory too low (`ns/ns/` instead of `ns/`). -/
example : resolve (nsPagePath ["ns".toList, "sub".toList])
    (typeHrefBeforeFix ["ns".toList, "sub".toList] ⟨["ns".toList, "A".toList], 1, 0, false⟩) =
    some (["ns".toList, "ns".toList, indexPage], "ns_A_1_0".toList) := by decide

/-- Links to a service's request type pointed to an anchor no page contains. -/
example : (splitFragment (urlFromTypeBeforeFix ⟨["ns".toList, "S".toList, "Request".toList], 1, 0, true⟩)).2 =
    "ns_S_Request_1_0".toList ∧
    tagId (CType.entry ⟨["ns".toList, "S".toList, "Request".toList], 1, 0, true⟩) = "ns_S_1_0".toList := by decide

/-- A field of a doc-holder type (`ns._.0.1`) was linked to an entry that no page has. -/
example : hrefFormOk ["nested"] [.ex "up", .ex "t|url_from_type"] = false := by decide

/-- The back link of every type page was the constant `/reg/Namespace.html`. -/
example : hrefFormOk [] [.lit "/reg/Namespace.html"] = false := by decide

end NunavutVerif.Html
