import NunavutVerif.Lemmas.Variant
import NunavutVerif.Lemmas.CppObj
import NunavutVerif.Lemmas.CBuf
import NunavutVerif.Gen.VariantTables
import NunavutVerif.Gen.CArrayKinds
import NunavutVerif.Gen.ErrorCodes
/-!
# C04 — generated C/C++ codecs are memory-safe, total and free of prior-state influence

What a theorem can carry (the rest — undefined behaviour and leaks of the *compiled* code — is the sanitizer
correspondence of `harness/c04.py`):

* **C++14 `VariantType`** (`Model/Variant.lean`, programs regenerated from the real generator's output into
  `Gen/VariantTables.lean`): for every well-formed program and EVERY sequence of constructions, `emplace<i>`,
  copy/move assignments (self-assignment included) and destructions: no destructor runs on a member that is not
  live, no storage is reused or released while a member that owns memory is live, no copy reads a destroyed member,
  "exactly the active alternative is live" holds after every operation, nothing is left at the end; every generated
  program is well-formed (`decide` over the whole table).
* **Prior-state independence** (`Model/CppObj.lean`): decoding into ANY destination of the right layout — C object
  with junk in inactive union members and beyond `count`, C++ object holding the result of any earlier decode —
  yields exactly the value, size and error of the specification `Dsdl.deBits`; hence two prior states can never be
  told apart.
* **Index safety of the emitted checks** (`Model/CBuf.lean`): with the up-front capacity check every buffer index of
  serialization is in bounds for every object (counts and tags outside their range included) and every capacity
  including 0; deserialization never leaves the object; under the capacity-override option the exact conditions.
  Round 2: every array kind of the C templates (variable / fixed x bit-packed, bulk-copied, element loop) with the
  dimension and the comparison bounds the translator reads off the generated headers for {override off, on} x
  {endianness any, little} (`Gen/CArrayKinds.lean`): `Row.safe` decided over the whole table, hence no object overrun for any
  capacity and any user-reduced capacity not above it (the documented precondition, enforced by `#error`); the condition
  is exact (an unprotected array has an input that leaves the object).
* **Totality**: every exit of the model is success or a code of the table regenerated from the support templates
  (`Gen/ErrorCodes.lean`: `NUNAVUT_ERROR_*`, `nunavut::support::Error`), `NULL` arguments included.
-/
namespace NunavutVerif.Properties.C04
open NunavutVerif

/-! ## 1. the C++14 built-in variant -/
section variant
open NunavutVerif.Variant

/-- Every operation sequence on a world that satisfies the invariant runs without a fault (no wild destructor call,
    no leak by overwriting, no read of a destroyed member, no type confusion) and re-establishes "exactly the
    active alternative is live" in every object — for every well-formed program, i.e. for every field-kind list. -/
theorem C04_variant_every_op_sequence_safe (p : Prog) (hwf : p.wf = true) (ops : List Op) (w : World)
    (hw : worldInv p w = true) : ∃ w', run p w ops = .ok w' ∧ worldInv p w' = true := by
  obtain ⟨w', h, hi, _⟩ := run_inv (WF.of_wf hwf) ops (worldInv_iff.mp hw)
  exact ⟨w', h, worldInv_iff.mpr hi⟩

/-- From nothing: any program of constructions, emplacements, assignments and destructions over `k` object slots,
    followed by the destruction of whatever is still constructed, ends without a fault and with no object left:
    nothing leaked, nothing destroyed twice. -/
theorem C04_variant_nothing_left_at_end (p : Prog) (hwf : p.wf = true) (k : Nat) (ops : List Op) :
    ∃ w', run p (emptyWorld k) (ops ++ dtorAll k) = .ok w' ∧ allGone w' = true := by
  have wf := WF.of_wf hwf
  obtain ⟨w1, h1, hi1, l1⟩ := run_inv wf ops (WInv_empty p k)
  obtain ⟨w2, h2, _, l2, z2, _⟩ := dtorAll_inv wf k hi1
  refine ⟨w2, by rw [run_append, h1]; exact h2, allGone_of fun i hi => z2 i ?_⟩
  have : (emptyWorld k).length = k := by simp [emptyWorld]
  omega

/-- The destructor of an object that satisfies the invariant: `destroy_current()` does not fault and afterwards no
    member that owns memory is live when the storage goes away. -/
theorem C04_variant_destructor_releases_everything (p : Prog) (hwf : p.wf = true) (o : Obj) (ho : objInv p o = true) :
    ∃ o', execMethod p p.dtor 0 .none o = .ok o' ∧ release p o' = .ok () :=
  dtor_inv (WF.of_wf hwf) (objInv_iff.mp ho)

/-- `a = a` and `a = std::move(a)` leave the object untouched. -/
theorem C04_variant_self_assignment_noop (p : Prog) (hwf : p.wf = true) (o : Obj) :
    execMethod p p.copyAssign 0 .self o = .ok o ∧ execMethod p p.moveAssign 0 .self o = .ok o :=
  selfAssign_noop (WF.of_wf hwf) o

/-- `emplace<i>()` makes exactly alternative `i` the live one. -/
theorem C04_variant_emplace_activates (p : Prog) (hwf : p.wf = true) (o : Obj) (ho : objInv p o = true) (i : Nat)
    (hi : i < p.n) : ∃ o', execMethod p p.emplace i .none o = .ok o' ∧ objInv p o' = true ∧ o'.tag = i := by
  obtain ⟨o', h, hinv, ht⟩ := emplace_inv (WF.of_wf hwf) (objInv_iff.mp ho) hi
  exact ⟨o', h, objInv_iff.mpr hinv, ht⟩

/-- Every program that the generator emits today (all field-kind lists of the translator's domain: every list over
    {primitive, std::array, variable-length array, nested owner, nested flat} of length 2–3, over the first three of
    length 4, over {primitive, variable-length array} of length 5) is well-formed. -/
theorem C04_variant_generated_tables_wellformed :
    (Gen.VariantTables.chunks.all fun c => c.all fun kp => kp.2.wf) = true := by decide

/-- … hence every generated union is safe under every operation sequence. -/
theorem C04_variant_generated_unions_safe (kinds : String) (p : Prog) (hm : (kinds, p) ∈ Gen.VariantTables.progs)
    (k : Nat) (ops : List Op) :
    ∃ w', run p (emptyWorld k) (ops ++ dtorAll k) = .ok w' ∧ allGone w' = true := by
  have hall := C04_variant_generated_tables_wellformed
  have hwf : p.wf = true := by
    simp only [Gen.VariantTables.progs, List.mem_flatten] at hm
    obtain ⟨c, hc, hkp⟩ := hm
    have := List.all_eq_true.mp (List.all_eq_true.mp hall c hc) (kinds, p) hkp
    simpa using this
  exact C04_variant_nothing_left_at_end p hwf k ops

/-! non-vacuity: a generated program, and a world with live objects -/
example : ∃ kp ∈ Gen.VariantTables.progs, kp.1 = "pv" := by decide
example : worldInv pvBeforeFix (worldWith pvBeforeFix 1) = true := by decide

/-! ### regression: the template before the repair (negation witnesses, replayed on the real code by the harness) -/

/-- the table of `{uint8 a; uint8[<=4] b}` before the repair is not well-formed … -/
example : pvBeforeFix.wf = false := by decide
example : destroyOk pvBeforeFix = false ∧ destroyCovers pvBeforeFix = false := by decide
/-- … `set_a(); set_b()` (from a state where `a` is active): `destroy_current()` runs `~vector` on `b`, which does
    not exist — the wild free that ASan reports -/
example : run pvBeforeFix (worldWith pvBeforeFix 0) [.emplace 0 1] = .error (.wildDestroy 1) := by decide
/-- … and `set_b(); ~U()`: tag 1 has no branch, the vector is never destroyed — the leak that LeakSanitizer reports -/
example : run pvBeforeFix (worldWith pvBeforeFix 1) [.dtor 0] = .error (.leak 1) := by decide
/-- the default constructor itself runs a destructor on storage where nothing lives -/
example : run pvBeforeFix (emptyWorld 1) [.ctor 0] = .error (.wildDestroy 1) := by decide
example : run vpIndexFixedOnly (emptyWorld 1) [.ctor 0] = .error (.wildDestroy 0) := by decide
/-- without the guard `a = a` destroys the member it is about to copy from -/
example : run vpIndexFixedOnly (worldWith vpIndexFixedOnly 0) [.copyAssign 0 0] = .error (.readDead 0) := by decide
example : run vpIndexFixedOnly (worldWith vpIndexFixedOnly 0) [.moveAssign 0 0] = .error (.readDead 0) := by decide

end variant

/-! ## 2. prior-state independence of deserialization -/
section prior
open NunavutVerif.Dsdl NunavutVerif.CppObj

/-- Decoding into ANY destination object of the right layout — whatever values, counts, inactive union members,
    C union tags and container contents it holds — gives exactly the specification's outcome: the same error, or
    the same size and an object whose abstract value is the specified value (and which still has the layout, so
    the statement applies again to the next decode into it). -/
theorem C04_decode_into_any_object_refines_spec (t : Ty) (bs : List Bool) (o : Obj) (hok : okTy t = true)
    (hs : shape t o = true) :
    match deBits t bs with
    | .error e => deInto t bs o = .error (.de e)
    | .ok (v, n) => ∃ o', deInto t bs o = .ok (o', n) ∧ abs t o' = some v ∧ shape t o' = true := by
  have := deInto_ref t bs o hok hs
  unfold Ref at this
  unfold deInto
  cases hd : deBits t bs with
  | error e => rw [hd] at this; exact this
  | ok vn => obtain ⟨v, n⟩ := vn; rw [hd] at this; exact this

/-- The outcome of a deserialization — decoded value, consumed size, error — does not depend on what the
    destination held before the call. -/
theorem C04_prior_state_independence (t : Ty) (bs : List Bool) (o₁ o₂ : Obj) (hok : okTy t = true)
    (h₁ : shape t o₁ = true) (h₂ : shape t o₂ = true) :
    match deInto t bs o₁, deInto t bs o₂ with
    | .ok (a, n), .ok (b, m) => abs t a = abs t b ∧ (abs t a).isSome = true ∧ n = m
    | .error e₁, .error e₂ => e₁ = e₂
    | _, _ => False := by
  have r1 := deInto_ref t bs o₁ hok h₁
  have r2 := deInto_ref t bs o₂ hok h₂
  unfold Ref at r1 r2
  unfold deInto
  cases hd : deBits t bs with
  | error e => rw [hd] at r1 r2; simp only at r1 r2; rw [r1, r2]
  | ok vn =>
    obtain ⟨v, n⟩ := vn
    rw [hd] at r1 r2; simp only at r1 r2
    obtain ⟨a, ha, va, _⟩ := r1
    obtain ⟨b, hb, vb, _⟩ := r2
    rw [ha, hb]
    simp [va, vb]

/-- Histories: after any successful earlier decode into the object, the next decode behaves as into a fresh,
    value-initialised object. -/
theorem C04_decode_after_decode_same_as_fresh (t : Ty) (bs₁ bs₂ : List Bool) (o o₁ : Obj) (n₁ : Nat)
    (hok : okTy t = true) (hs : shape t o = true) (h1 : deInto t bs₁ o = .ok (o₁, n₁)) :
    match deInto t bs₂ o₁, deInto t bs₂ (defaultX t) with
    | .ok (a, n), .ok (b, m) => abs t a = abs t b ∧ (abs t a).isSome = true ∧ n = m
    | .error e₁, .error e₂ => e₁ = e₂
    | _, _ => False := by
  have r1 := deInto_ref t bs₁ o hok hs
  unfold Ref at r1
  unfold deInto at h1
  have hs1 : shape t o₁ = true := by
    cases hd : deBits t bs₁ with
    | error e => rw [hd] at r1; simp only at r1; rw [r1] at h1; cases h1
    | ok vn =>
      obtain ⟨v, n⟩ := vn
      rw [hd] at r1; simp only at r1
      obtain ⟨a, ha, _, sa⟩ := r1
      rw [ha] at h1; cases h1; exact sa
  exact C04_prior_state_independence t bs₂ o₁ (defaultX t) hok hs1 (shape_default t hok)

/-! non-vacuity and regression.  `uint8 a; uint8[<=4] b`, bytes `05 01 07` (a = 5, b = [7]). -/
def tAB : Ty := .struct [.uint 8 .sat, .varr (.uint 8 .sat) 4]
def bytesAB : List Bool := unpackBytes [5, 1, 7]
/-- a C destination full of junk: `count` far outside the capacity, junk elements -/
def junkC : Obj := .struct [.leaf (.int 170), .varr [.leaf (.int 170), .leaf (.int 170), .leaf (.int 170), .leaf (.int 170)] 43690]
/-- a C++ destination that already holds the result of an earlier decode -/
def usedX : Obj := .struct [.leaf (.int 9), .vec [.leaf (.int 1), .leaf (.int 2)]]

example : shape tAB junkC = true ∧ shape tAB usedX = true ∧ okTy tAB = true := by decide
example : (deInto tAB bytesAB junkC).toOption.map (fun r => sizes r.1) = some [1] := by decide
example : (deInto tAB bytesAB usedX).toOption.map (fun r => sizes r.1) = some [1] := by decide
/-- before the repair the C++ container is appended to: the same bytes decode to a 3-element array when the
    destination held 2 elements, to a 1-element array when it was fresh — the outcome depends on the prior state -/
example : (deIntoBeforeFix tAB bytesAB usedX).toOption.map (fun r => sizes r.1) = some [3] := by decide
example : (deIntoBeforeFix tAB bytesAB (defaultX tAB)).toOption.map (fun r => sizes r.1) = some [1] := by decide

end prior

/-! ## 3. index safety of the emitted checks -/
section bounds
open NunavutVerif.CBuf

/-- Default build (capacity check compiled in, no capacity overridden): for EVERY object — counts above the
    capacity and union tags outside the option range included — and every buffer capacity including 0, serialization
    never indexes outside the buffer or the object; it ends in success or a documented error code. -/
theorem C04_c_serialize_in_bounds (cs : Bool) (m : Msg) (o : MObj) (capBytes : Nat)
    (hno : ∀ f ∈ m.fields, noOverride f = true) : (ser true cs m o capBytes).isOob = false := by
  have hcmp : ∀ f ∈ m.fields, okCmp cs f = true := fun f hf => okCmp_of_noOverride cs (hno f hf)
  have hmax : ∀ f ∈ m.fields, fieldMaxB cs f = fieldMax f := fun f hf => fieldMaxB_of_noOverride cs (hno f hf)
  unfold ser
  by_cases hc : 8 * capBytes < msgMax fieldMax m
  · simp [hc, Out.isOob]
  · simp only [hc, decide_false, Bool.and_false, Bool.false_eq_true, if_false]
    cases m with
    | struct fs =>
      cases o with
      | struct vs =>
        simp only [Msg.fields] at hcmp hmax
        simp only [msgMax] at hc
        have e := sumMax_congr (l := fs) hmax
        have := le_pad8 (sumMax fieldMax fs)
        rw [padEnd_isOob]
        exact (serFields_safe cs (8 * capBytes) fs vs 0 hcmp (by omega)).notOob
      | union _ _ => simp [Out.isOob]
    | union tb tc fs =>
      cases o with
      | struct _ => simp [Out.isOob]
      | union tag vs =>
        simp only [Msg.fields] at hcmp hmax
        simp only [msgMax] at hc
        simp only
        have hp := le_pad8 (tb + maxMax fieldMax fs)
        rw [write_none (by omega)]
        simp only
        cases hf : nth? fs tag with
        | none => simp [Out.isOob]
        | some f =>
          cases hv : nth? vs tag with
          | none => simp [Out.isOob]
          | some v =>
            simp only
            have hm := nth?_mem hf
            have := le_maxMax fieldMax hm
            rw [padEnd_isOob]
            exact (serField_safe cs (8 * capBytes) tb f v (hcmp f hm) (by rw [hmax f hm]; omega)).notOob

/-- The capacity-override option, object side.  When the emitted length comparison uses the capacity of the array
    that is really there (`cmpStorage = true`), serialization never reads outside the object — for every object,
    every buffer size, with or without the capacity check.  Bit arrays are never compared by `sizeof`: for them the
    condition is `okBits` (the bound of either comparison is within `8 * sizeof(bitpacked)`), which holds for every
    generated header by `C04_c_array_kinds_table_safe`. -/
theorem C04_c_serialize_override_never_leaves_object (checkCap : Bool) (m : Msg) (o : MObj) (capBytes : Nat)
    (hb : ∀ f ∈ m.fields, okBits f = true) : (ser checkCap true m o capBytes).isOobObject = false := by
  unfold ser
  by_cases hc : (checkCap && decide (8 * capBytes < msgMax fieldMax m)) = true
  · simp [hc, Out.isOobObject]
  · simp only [hc, Bool.false_eq_true, ↓reduceIte]
    cases m with
    | struct fs =>
      cases o with
      | struct vs =>
        rw [padEnd_isOobObject]
        exact serFields_noObj true (8 * capBytes) fs vs 0 fun f hf => okCmp_storage f (hb f hf)
      | union _ _ => rfl
    | union tb tc fs =>
      cases o with
      | struct _ => rfl
      | union tag vs =>
        simp only
        cases hw : write tc (8 * capBytes) 0 tb with
        | some r => exact write_notObj hw
        | none =>
          simp only
          cases hf : nth? fs tag with
          | none => rfl
          | some f =>
            cases hv : nth? vs tag with
            | none => rfl
            | some v =>
              simp only
              rw [padEnd_isOobObject]
              exact serField_noObj true (8 * capBytes) tb f v (okCmp_storage f (hb f (nth?_mem hf)))

/-- The capacity-override option, buffer side: with the capacity check compiled out the per-primitive checks protect
    only what is written through the checked setter; everything is in bounds exactly under the user's obligation
    "the buffer holds the largest message the reduced capacities allow". -/
theorem C04_c_serialize_override_buffer_condition (m : Msg) (o : MObj) (capBytes : Nat)
    (hb : ∀ f ∈ m.fields, okBits f = true)
    (hbuf : msgMax (fieldMaxB true) m ≤ 8 * capBytes) : (ser false true m o capBytes).isOob = false := by
  unfold ser
  simp only [Bool.false_and, Bool.false_eq_true, if_false]
  cases m with
  | struct fs =>
    cases o with
    | struct vs =>
      simp only [msgMax] at hbuf
      have := le_pad8 (sumMax (fieldMaxB true) fs)
      rw [padEnd_isOob]
      exact (serFields_safe true (8 * capBytes) fs vs 0 (fun f hf => okCmp_storage f (hb f hf)) (by omega)).notOob
    | union _ _ => rfl
  | union tb tc fs =>
    cases o with
    | struct _ => rfl
    | union tag vs =>
      simp only [msgMax] at hbuf
      simp only
      have hp := le_pad8 (tb + maxMax (fieldMaxB true) fs)
      rw [write_none (by omega)]
      simp only
      cases hf : nth? fs tag with
      | none => rfl
      | some f =>
        cases hv : nth? vs tag with
        | none => rfl
        | some v =>
          simp only
          have := le_maxMax (fieldMaxB true) (nth?_mem hf)
          rw [padEnd_isOob]
          exact (serField_safe true (8 * capBytes) tb f v (okCmp_storage f (hb f (nth?_mem hf))) (by omega)).notOob

/-- When do the per-write checks alone protect the buffer?  Exactly when EVERY write goes through the bounds-checked
    setter (the C++ serializer as it is; not the C serializer, see the `sBytes` example below): then the up-front capacity
    check may be compiled out (`checkCap = false`, the `…_DISABLE_SERIALIZATION_BUFFER_CHECK_` switch of the override
    option) and still no buffer size, zero included, and no object can make serialization leave the buffer or the object. -/
theorem C04_serialize_all_writes_checked_any_buffer (checkCap cs : Bool) (m : Msg) (o : MObj) (capBytes : Nat)
    (h : ∀ f ∈ m.fields, okCmp cs f = true ∧ allChecked f = true) (ht : m.tagOk = true) :
    (ser checkCap cs m o capBytes).isOob = false := by
  unfold ser
  by_cases hc : (checkCap && decide (8 * capBytes < msgMax fieldMax m)) = true
  · simp [hc, Out.isOob]
  · simp only [hc, Bool.false_eq_true, ↓reduceIte]
    cases m with
    | struct fs =>
      cases o with
      | struct vs =>
        rw [padEnd_isOob]
        exact serFields_checked cs (8 * capBytes) fs vs 0 h
      | union _ _ => rfl
    | union tb tc fs =>
      simp only [Msg.tagOk] at ht
      subst ht
      cases o with
      | struct _ => rfl
      | union tag vs =>
        simp only
        rcases write_true_cases (8 * capBytes) 0 tb with e | e
        · rw [e]
          simp only
          cases hf : nth? fs tag with
          | none => rfl
          | some f =>
            cases hv : nth? vs tag with
            | none => rfl
            | some v =>
              simp only
              rw [padEnd_isOob]
              exact serField_checked cs (8 * capBytes) tb f v (h f (nth?_mem hf)).1 (h f (nth?_mem hf)).2
        · rw [e]; rfl

/-- Deserialization never writes outside the object, for every input (`rd` is any content of any buffer, size 0
    included — reads saturate) — provided the emitted length comparison protects the array that is really there:
    always in a default build, and under the override option when it compares with the real capacity. -/
theorem C04_c_deserialize_in_bounds (cs : Bool) (rd : Nat → Nat → Nat) (m : Msg)
    (h : ∀ f ∈ m.fields, okCmp cs f = true) : (de cs rd m).isOob = false := by
  cases m with
  | struct fs => exact deFields_safe cs rd fs 0 h
  | union tb tc fs =>
    simp only [de]
    cases hf : nth? fs (rd 0 tb) with
    | none => rfl
    | some f => exact deField_safe cs rd tb f (h f (nth?_mem hf))

theorem C04_c_deserialize_in_bounds_default (cs : Bool) (rd : Nat → Nat → Nat) (m : Msg)
    (hno : ∀ f ∈ m.fields, noOverride f = true) : (de cs rd m).isOob = false :=
  C04_c_deserialize_in_bounds cs rd m fun f hf => okCmp_of_noOverride cs (hno f hf)

theorem C04_c_deserialize_in_bounds_override (rd : Nat → Nat → Nat) (m : Msg) (hb : ∀ f ∈ m.fields, okBits f = true) :
    (de true rd m).isOob = false :=
  C04_c_deserialize_in_bounds true rd m fun f hf => okCmp_storage f (hb f hf)

/-! regression / exactness: `uint8 a; uint16[<=6] xs; uint8 b` with `…_xs_ARRAY_CAPACITY_` user-defined as 2. -/
def sOv : Msg := .struct [.prim 8 false, .varr 8 16 6 2 false true, .prim 8 false]
def sBytes : Msg := .struct [.prim 8 false, .varr 8 8 6 2 false false, .prim 8 false]
/-- the templates as they are compare with the DSDL capacity 6: a wire count of 3 is accepted and element 2 of a
    2-element array is written … -/
example : de false (fun off _ => if off = 8 then 3 else 0) sOv = .oobObject 2 2 := by decide
/-- … and an object whose count is 3 is read past its array -/
example : ser false false sOv (.struct [.prim, .count 3, .prim]) 64 = .oobObject 2 2 := by decide
/-- comparing with the real capacity turns both into the documented error -/
example : de true (fun off _ => if off = 8 then 3 else 0) sOv = .err .badArrayLength := by decide
example : ser false true sOv (.struct [.prim, .count 3, .prim]) 64 = .err .badArrayLength := by decide
/-- buffer side, check compiled out, buffer one byte short of what the reduced capacities need: elements written
    through the checked setter give the documented error, a bulk-copied byte array overruns the buffer -/
example : ser false true sOv (.struct [.prim, .count 2, .prim]) 5 = .err .bufferTooSmall := by decide
example : ser false true sBytes (.struct [.prim, .count 2, .prim]) 3 = .oobBuffer 16 16 := by decide
/-- the bound of `C04_c_serialize_override_buffer_condition` is tight: 4 bytes = 8 + 8 + 2·8 bits are enough -/
example : ser false true sBytes (.struct [.prim, .count 2, .prim]) 5 = .ok 40 := by decide
/-- all writes checked (C++), check compiled out, every buffer size 0..7 for a message that needs 5 bytes: documented error -/
example : (List.range 5).all (fun cap => ser false false (.struct [.prim 8 true, .varr 8 8 6 6 true true, .prim 8 true])
    (.struct [.prim, .count 2, .prim]) cap == .err .bufferTooSmall) = true := by decide
/-- … one bulk-copied (unchecked) byte array is enough to lose that -/
example : ser false false (.struct [.prim 8 true, .varr 8 8 6 6 true false, .prim 8 true]) (.struct [.prim, .count 2, .prim]) 3
    = .oobBuffer 16 16 := by decide
/-- default build, count far above the capacity, zero-sized buffer -/
example : ser true false (.struct [.prim 8 false, .varr 8 8 6 6 false false]) (.struct [.prim, .count 99999]) 0 = .err .bufferTooSmall := by decide
example : ser true false (.struct [.prim 8 false, .varr 8 8 6 6 false false]) (.struct [.prim, .count 99999]) 8 = .err .badArrayLength := by decide

/-! ### round 2: every array kind, the override option, exactness, totality -/

/-- EXACTNESS, deserializer: one array field never makes `_deserialize_` leave the object, for every buffer content,
    IF AND ONLY IF the bound of the emitted comparison is within the array that is really there. -/
theorem C04_c_deserialize_object_safe_iff (cs : Bool) (f : Field) :
    (∀ rd off, (deField cs rd off f).isOob = false) ↔ okDe cs f = true := by
  constructor
  · intro h
    cases hd : okDe cs f with
    | true => rfl
    | false =>
      obtain ⟨rd, hr⟩ := deField_oob_of_not_okDe cs 0 f hd
      have := h rd 0
      cases hx : deField cs rd 0 f <;> rw [hx] at hr this <;> simp_all [Out.isOob, Out.isOobObject]
  · intro h rd off
    exact deField_safe_okDe cs rd off f h

/-- EXACTNESS, serializer: no object (any `count`) and no buffer size makes `_serialize_` read outside the object
    IF AND ONLY IF the bound of the emitted comparison is within the array that is really there. -/
theorem C04_c_serialize_object_safe_iff (cs : Bool) (f : Field) :
    (∀ capBits off v, (serField cs capBits off f v).isOobObject = false) ↔ okSer cs f = true := by
  constructor
  · intro h
    cases hd : okSer cs f with
    | true => rfl
    | false =>
      obtain ⟨capBits, v, hr⟩ := serField_oob_of_not_okSer cs 0 f hd
      rw [h capBits 0 v] at hr
      cases hr
  · intro h capBits off v
    exact serField_noObj_okSer cs capBits off f v h

/-- A variable-length BIT array under the override option: `bitpacked` is dimensioned from the DSDL capacity and both
    comparisons use the DSDL literal (what the templates emit), or dimension and comparisons all follow the macro —
    then for EVERY user capacity not above the DSDL capacity (the documented precondition; the header `#error`s
    otherwise) no input and no object makes the codec touch a byte outside `bitpacked`. -/
theorem C04_c_bit_array_safe_for_every_reduced_capacity (lp cap sl : Nat) (sm : Bool) (cS cD : Cmp) (lpc : Bool)
    (hred : sl ≤ cap) (hS : sm = true → cS = .macro) (hD : sm = true → cD = .macro) :
    (∀ rd off, (deField false rd off (.vbits lp cap sl sm cS cD lpc)).isOob = false) ∧
    (∀ capBits off v, (serField false capBits off (.vbits lp cap sl sm cS cD lpc) v).isOobObject = false) := by
  have hb := okBits_vbits lp cap sl sm cS cD lpc hred hS hD
  have hc : okCmp false (.vbits lp cap sl sm cS cD lpc) = true := by simpa [okBits, okCmp] using hb
  exact ⟨fun rd off => deField_safe false rd off _ hc, fun capBits off v => serField_noObj false capBits off _ v hc⟩

/-- … and it is exactly the combination "dimension from the macro, comparison against the DSDL literal" that leaves the object:
    capacity 20 reduced to 2 leaves one byte, a count of 9 is accepted and the second byte is touched. -/
example : de false (fun off _ => if off = 8 then 9 else 0) (.struct [.prim 8 false, .vbits 8 20 2 true .lit .lit false, .prim 8 false])
    = .oobObject 1 1 := by decide
example : ser false false (.struct [.prim 8 false, .vbits 8 20 2 true .lit .lit false, .prim 8 false]) (.struct [.prim, .count 9, .prim]) 64
    = .oobObject 1 1 := by decide
/-- the shipped shape (dimension from the DSDL capacity): the same input is fine, 21 is refused -/
example : de false (fun off _ => if off = 8 then 9 else 0) (.struct [.prim 8 false, .vbits 8 20 2 false .lit .lit false, .prim 8 false])
    = .ok 33 := by decide
example : de false (fun off _ => if off = 8 then 21 else 0) (.struct [.prim 8 false, .vbits 8 20 2 false .lit .lit false, .prim 8 false])
    = .err .badArrayLength := by decide

/-- Every row of the table regenerated from the headers the generator emits — 10 array kinds x {override off, on} x
    {endianness any, little} — passes the decidable criterion `Row.safe`.  (FAILS to build when a template sizes an array
    from the user-overridable macro and keeps comparing with the DSDL capacity.) -/
theorem C04_c_array_kinds_table_safe : Gen.CArrayKinds.rows.all Row.safe = true := by decide

/-- a field of a generated type: a primitive, or an array of a kind of the table with any prefix / element width, any
    DSDL capacity and any user capacity not above it -/
def FromTable (cs : Bool) (f : Field) : Prop :=
  (∃ w c, f = .prim w c) ∨
    ∃ r ∈ Gen.CArrayKinds.rows, (r.isVarr = true → r.cs = cs) ∧ ∃ lp eb cap usr, usr ≤ cap ∧ r.field lp eb cap usr = some f

/-- every field built from a row of the generated table — any widths, any DSDL capacity, any user capacity not above it —
    has length comparisons that protect the array as it is dimensioned -/
theorem C04_c_generated_array_kinds_comparisons_protect {cs : Bool} {f : Field} (h : FromTable cs f) : okCmp cs f = true := by
  rcases h with ⟨w, c, rfl⟩ | ⟨r, hr, hcs, lp, eb, cap, usr, hu, hf⟩
  · rfl
  · have hs : r.safe = true := List.all_eq_true.mp C04_c_array_kinds_table_safe r hr
    obtain ⟨g, hg, hok⟩ := Row.safe_field r hs lp eb cap usr hu
    rw [hf] at hg
    cases hg
    cases hv : r.isVarr with
    | true => rw [← hcs hv]; exact hok
    | false => rw [okCmp_cs_irrelevant cs r.cs f (Row.field_not_varr r hv lp eb cap usr f hf)]; exact hok

/-- EVERY ARRAY KIND x OVERRIDE ON/OFF x EVERY USER-REDUCED CAPACITY.  A message whose fields are primitives and arrays of the
    kinds of the table: no object (counts and tags outside their range included), no buffer size, with or without the
    up-front capacity check, makes `_serialize_` read outside the object; no buffer content makes `_deserialize_` write
    outside the object.  Precondition: the user capacity does not exceed the DSDL capacity. -/
theorem C04_c_generated_array_kinds_never_leave_object (cs : Bool) (m : Msg) (hm : ∀ f ∈ m.fields, FromTable cs f) :
    (∀ checkCap o capBytes, (ser checkCap cs m o capBytes).isOobObject = false) ∧ (∀ rd, (de cs rd m).isOob = false) := by
  have hc : ∀ f ∈ m.fields, okCmp cs f = true := fun f hf => C04_c_generated_array_kinds_comparisons_protect (hm f hf)
  refine ⟨?_, fun rd => C04_c_deserialize_in_bounds cs rd m hc⟩
  intro checkCap o capBytes
  unfold ser
  by_cases hcc : (checkCap && decide (8 * capBytes < msgMax fieldMax m)) = true
  · simp [hcc, Out.isOobObject]
  · simp only [hcc, Bool.false_eq_true, ↓reduceIte]
    cases m with
    | struct fs =>
      cases o with
      | struct vs =>
        rw [padEnd_isOobObject]
        exact serFields_noObj cs (8 * capBytes) fs vs 0 hc
      | union _ _ => rfl
    | union tb tc fs =>
      cases o with
      | struct _ => rfl
      | union tag vs =>
        simp only
        cases hw : write tc (8 * capBytes) 0 tb with
        | some r => exact write_notObj hw
        | none =>
          simp only
          cases hf : nth? fs tag with
          | none => rfl
          | some f =>
            cases hv : nth? vs tag with
            | none => rfl
            | some v =>
              simp only
              rw [padEnd_isOobObject]
              exact serField_noObj cs (8 * capBytes) tb f v (hc f (nth?_mem hf))

/-- The criterion is not too strict: a row that fails it and that the model can express yields, for DSDL capacity 16
    reduced to 1, an input on which the deserializer or the serializer leaves the object. -/
theorem C04_c_rejected_array_kind_has_failing_input (r : Row) (h : r.safe = false) (lp eb : Nat) (f : Field)
    (hf : r.field lp eb 16 1 = some f) :
    (∃ rd, (deField r.cs rd 0 f).isOobObject = true) ∨ (∃ capBits v, (serField r.cs capBits 0 f v).isOobObject = true) := by
  have hu := Row.rejected_field r h lp eb f hf
  rw [okCmp_iff] at hu
  cases hs : okSer r.cs f with
  | false => exact .inr (serField_oob_of_not_okSer r.cs 0 f hs)
  | true =>
    rw [hs] at hu
    simp only [Bool.true_and] at hu
    exact .inl (deField_oob_of_not_okDe r.cs 0 f hu)

/-- non-vacuity: the table has the override rows; a seeded row "bit array dimensioned from the macro, compared with the
    literal" is expressible and fails the criterion -/
example : (Gen.CArrayKinds.rows.filter fun r => r.override && r.overridable).length = 10 := by decide
example : (Gen.CArrayKinds.rows.filter fun r => r.isVarr && r.override).all (fun r => r.cs) = true := by decide
example : ({ kind := "VBool", override := true, little := false, varLen := true, bits := true, overridable := true, storMacro := true,
             cmpSer := .lit, cmpDe := .lit, lpChecked := false, elemsChecked := false } : Row).safe = false := by decide
example : FromTable true (.varr 8 16 6 2 false true) :=
  .inr ⟨{ kind := "VZero", override := true, little := false, varLen := true, bits := false, overridable := true, storMacro := true,
          cmpSer := .storage, cmpDe := .storage, lpChecked := false, elemsChecked := true }, by decide, fun _ => rfl, 8, 16, 6, 2,
        by decide, by decide⟩

/-! #### totality: success or a documented code -/

/-- the model's error codes are codes of the table regenerated from the support templates — by name and by value — and
    each of them is one the templates really return; the C++ enumerators carry the same values -/
theorem C04_model_error_codes_documented (e : CErr) :
    (e.macroName, e.code) ∈ Gen.ErrorCodes.c ∧ e.macroName ∈ Gen.ErrorCodes.cReturned ∧
      ∀ n, e.cppName = some n → (n, e.code) ∈ Gen.ErrorCodes.cpp ∧ n ∈ Gen.ErrorCodes.cppReturned := by
  cases e <;> decide

/-- every code a template returns is a documented one (C and C++), codes are distinct, positive and below 128, and the
    two languages agree on the values of the codes both have -/
theorem C04_returned_codes_documented :
    (∀ n ∈ Gen.ErrorCodes.cReturned, n ∈ Gen.ErrorCodes.c.map (·.1)) ∧
    (∀ n ∈ Gen.ErrorCodes.cppReturned, n ∈ Gen.ErrorCodes.cpp.map (·.1)) ∧
    (Gen.ErrorCodes.c.map (·.2)).Nodup ∧ (Gen.ErrorCodes.cpp.map (·.2)).Nodup ∧
    (∀ p ∈ Gen.ErrorCodes.c ++ Gen.ErrorCodes.cpp, 0 < p.2 ∧ p.2 < 128) ∧
    (∀ p ∈ Gen.ErrorCodes.cpp, p.2 ∈ Gen.ErrorCodes.c.map (·.2)) := by
  decide

/-- a return of the generated routine: success, or the negation of a documented code -/
def Out.documented : Out → Prop
  | .ok _ => True
  | .err e => (e.macroName, e.code) ∈ Gen.ErrorCodes.c
  | _ => False

/-- an outcome that is a return (not a memory fault, not a layout mismatch) is success or a code of the generated table -/
theorem C04_c_every_exit_documented {r : Out} (h : r.isExit = true) : Out.documented r := by
  cases r with
  | ok n => trivial
  | err e => exact (C04_model_error_codes_documented e).1
  | _ => simp [Out.isExit] at h

/-- TOTALITY, serializer, default build: for every object of the generated type (any counts, any tag), every buffer size
    and every combination of `NULL` arguments the routine returns success or a documented code. -/
theorem C04_c_serialize_total (objNull bufNull sizeNull cs : Bool) (m : Msg) (o : MObj) (capBytes : Nat)
    (hno : ∀ f ∈ m.fields, noOverride f = true) (hfit : MObj.fits m o = true) :
    Out.documented (serApi objNull bufNull sizeNull true cs m o capBytes) := by
  unfold serApi
  split
  · exact (C04_model_error_codes_documented .invalidArgument).1
  · exact C04_c_every_exit_documented (Out.isExit_of (C04_c_serialize_in_bounds cs m o capBytes hno) (ser_notShape true cs m o capBytes hfit))

/-- TOTALITY, serializer, override option with the capacity check compiled out: the same under the user's obligation. -/
theorem C04_c_serialize_override_total (objNull bufNull sizeNull : Bool) (m : Msg) (o : MObj) (capBytes : Nat)
    (hb : ∀ f ∈ m.fields, okBits f = true) (hbuf : msgMax (fieldMaxB true) m ≤ 8 * capBytes) (hfit : MObj.fits m o = true) :
    Out.documented (serApi objNull bufNull sizeNull false true m o capBytes) := by
  unfold serApi
  split
  · exact (C04_model_error_codes_documented .invalidArgument).1
  · exact C04_c_every_exit_documented (Out.isExit_of (C04_c_serialize_override_buffer_condition m o capBytes hb hbuf) (ser_notShape false true m o capBytes hfit))

/-- TOTALITY, deserializer: every buffer content and size (0 and a `NULL` buffer included), every combination of `NULL`
    arguments: success or a documented code. -/
theorem C04_c_deserialize_total (objNull bufNull sizeNull cs : Bool) (sizeBytes : Nat) (rd : Nat → Nat → Nat) (m : Msg)
    (h : ∀ f ∈ m.fields, okCmp cs f = true) : Out.documented (deApi objNull bufNull sizeNull sizeBytes cs rd m) := by
  unfold deApi
  split
  · exact (C04_model_error_codes_documented .invalidArgument).1
  · exact C04_c_every_exit_documented (Out.isExit_of (C04_c_deserialize_in_bounds cs rd m h) (de_notShape cs rd m))

/-- non-vacuity: each documented outcome of the model is reached -/
example : serApi true false false true false sOv (.struct [.prim, .count 1, .prim]) 64 = .err .invalidArgument := by decide
example : deApi false true false 0 false (fun _ _ => 0) sOv = .ok 24 := by decide
example : deApi false true false 3 false (fun _ _ => 0) sOv = .err .invalidArgument := by decide
example : ser true false (.union 8 false [.prim 8 false, .fbits 20]) (.union 7 [.prim, .prim]) 8 = .err .badUnionTag := by decide
example : ser true false (.struct [.farr 16 3 true, .fbits 20]) (.struct [.prim, .prim]) 9 = .ok 72 := by decide
example : ser true false (.struct [.farr 16 3 true, .fbits 20]) (.struct [.prim, .prim]) 8 = .err .bufferTooSmall := by decide

end bounds

end NunavutVerif.Properties.C04
