import NunavutVerif.Lemmas.GenPyEnv
import NunavutVerif.Lemmas.GenPyFloat
/-!
# C01 / C02 / C18 — the generated **Python** codecs refine the DSDL specification

`Properties/C01.lean` and `C02.lean` state the laws of the *specification* (`Model/Dsdl.lean`: `serBits`, `deBits`).
This file ties the *emitted algorithm* to it: `Model/GenPy.lean` transcribes what `lang/py/templates/serialization.j2`,
`deserialization.j2`, `base.j2` emit and what `nunavut_support.serialize` / `deserialize` / `fork_bytes` do, calling
the C14 models of the `Serializer` / `Deserializer` / `ZeroExtendingBuffer` primitives (`Model/BitsPy.lean`); the
theorems below say that this implementation-shaped model computes exactly the specification — for **every** type
PyDSDL can produce, **every** object the generated classes admit, **every** byte string, at **every** cursor position
(fields in the middle of a structure, elements of arrays, options of unions, nested and delimited composites), by
structural induction over the type on top of C14's contracts.

Vocabulary (`Lemmas/GenPyDefs.lean`, `GenPySer.lean`, `GenPyDe.lean`)
* `env : Env` — what the generated code takes from outside: PyDSDL's bit-length-set residues (`env.lr`, the alignment
  oracle behind `offset|alignment_prefix`), NumPy (`view(Byte)`, `frombuffer`), CPython floats (`struct.pack/unpack`,
  comparisons).  `EnvSound env` = the oracle is sound (`LrSound`) and NumPy / CPython obey `NpSound` / `FloatSound`.
  `stdEnv` is the environment the driver `genpy` runs; `EnvSound stdEnv` is proved (last section).
* `wf t` (specification) and `pyWf t` (signed integers saturated, ≥ 2 bits: what PyDSDL accepts); `topLevel t`.
* `inDom b t v` — the objects the generated classes admit (C18): scalar integers inside the DSDL range, array
  elements inside the NumPy dtype (`b = true`), fixed arrays of their length; *not* restricted: over-long variable
  arrays and union objects without a set attribute (the serializer must refuse them itself).
* `AppL s s' bits` — C14's `Appends` on a bit list: cursor advanced by `bits.length`, buffer size unchanged, bits below
  the old cursor untouched, the new bits are `bits`, **every bit from the new cursor on is zero** (`s'.Inv`).
* `Match r s pre spec` — the emitted code `r` started in `s` appended `pre ++ bits` when `spec = ok bits`, raised the
  mapped exception (`excOf`) when `spec` is an error.  `DeMatch r d pad spec` — the decoder returned the spec's value
  with the cursor at `d.off + pad + n`, or raised the `FormatError` of the spec's error kind.
-/
namespace NunavutVerif.GenPy
open NunavutVerif.Dsdl
open NunavutVerif.Bits (Buf Err bitAt WF)
open NunavutVerif.Bits.Py

/-! ## C01 — serialization -/

/-- **C01, Python target, top level.**  `nunavut_support.serialize(obj)` returns exactly the specification's bytes;
an over-long variable array fails the emitted `assert` (`AssertionError`), a union object with no attribute set
raises `RuntimeError('Malformed union')`; no other exception (no `IndexError` / broadcast `ValueError` from the
NumPy buffer, no failed internal assertion, no `ValueError` of `fork_bytes`). -/
theorem C01_py_serialize_refines_spec (env : Env) (hs : EnvSound env) (t : Ty) (v : Val) (hw : wf t = true)
    (hpw : pyWf t = true) (hc : topLevel t = true) (hdom : inDom false t v = true) :
    serializePy env t v = match serBytes t v with
      | .ok bytes => .ok bytes
      | .error e => .error (excOf e) :=
  serializePy_spec env hs t v hw hpw hc hdom

/-- **C01, every field at every cursor.**  `_serialize_any(t, ref, offset)` started at *any* cursor position of a
serializer whose tail is zero, with a true offset claim and room for the largest representation plus the spare byte,
appends the zero padding to the field's alignment followed by exactly `serBits t v` — through whichever method family
(`add_aligned_*`, `add_aligned_unsigned/signed`, `add_unaligned_*`, the bulk array methods, the element loop, the
nested call, the forked serializer with the back-patched delimiter header) the template selected. -/
theorem C01_py_serialize_any_refines_spec (env : Env) (hs : EnvSound env) (t : Ty) (hw : wf t = true)
    (hpw : pyWf t = true) (o : AOff) (s : Ser) (v : Val) (b : Bool) (hinv : s.Inv)
    (hclaim : Sound o (s.off + padLen (align t) s.off)) (hroom : Room s (padLen (align t) s.off + maxBits t))
    (hdom : inDom b t v = true) :
    Match (serAny env t o s v) s (zeros (padLen (align t) s.off)) (serBits t v) :=
  (serRef_all env hs t hw hpw).1 o s v b hinv hclaim hroom hdom

/-- **C01, the class method.**  `obj._serialize_(_ser_)` at a byte-aligned cursor appends exactly `serBits t v`
(the same statement the delimited case uses for the forked serializer). -/
theorem C01_py_serialize_method_refines_spec (env : Env) (hs : EnvSound env) (t : Ty) (hw : wf t = true)
    (hpw : pyWf t = true) (hc : isComposite t = true) (s : Ser) (v : Val) (b : Bool) (hinv : s.Inv)
    (hal : s.off % 8 = 0) (hroom : Room s (maxBits t)) (hdom : inDom b t v = true) :
    Match (serObj env t s v) s [] (serBits t v) :=
  (serRef_all env hs t hw hpw).2 hc s v b hinv hal hroom hdom

/-- **The cursor invariant.**  Whenever a field has been serialized, every bit of the buffer at or above the cursor
is zero, the cursor has advanced by exactly the padding plus the field's length, the buffer has kept its size and
nothing below the old cursor has changed.  (The invariant is what makes `|=`-style unaligned writes and
`skip_bits` padding correct; it holds for `Serializer.new` and — this theorem, applied at every `_serialize_any` the
emitted code executes — after every field, element, option and nested object.) -/
theorem C01_py_cursor_invariant (env : Env) (hs : EnvSound env) (t : Ty) (hw : wf t = true) (hpw : pyWf t = true)
    (o : AOff) (s s' : Ser) (v : Val) (b : Bool) (hinv : s.Inv)
    (hclaim : Sound o (s.off + padLen (align t) s.off)) (hroom : Room s (padLen (align t) s.off + maxBits t))
    (hdom : inDom b t v = true) (hrun : serAny env t o s v = .ok s') :
    s'.Inv ∧ s'.buf.length = s.buf.length ∧ (∀ i, i < s.off → bitAt s'.buf i = bitAt s.buf i) ∧
    ∃ bits, serBits t v = .ok bits ∧ s'.off = s.off + padLen (align t) s.off + bits.length := by
  have h := (serRef_all env hs t hw hpw).1 o s v b hinv hclaim hroom hdom
  cases hsb : serBits t v with
  | error e => rw [hsb] at h; simp only [Match] at h; rw [h] at hrun; cases hrun
  | ok bits =>
    rw [hsb] at h
    obtain ⟨s1, h1, happ⟩ := h
    rw [h1] at hrun; cases hrun
    refine ⟨happ.inv, happ.len, fun i hi => ?_, bits, rfl, by simpa [Nat.add_assoc] using happ.off⟩
    have := happ.2.2.2 i
    rw [this, if_pos hi]

/-- A representable object is serialized without any exception. -/
theorem C01_py_representable_never_raises (env : Env) (hs : EnvSound env) (t : Ty) (v : Val) (hw : wf t = true)
    (hpw : pyWf t = true) (hc : topLevel t = true) (hdom : inDom false t v = true) (bytes : List Nat)
    (hrep : serBytes t v = .ok bytes) : serializePy env t v = .ok bytes := by
  rw [C01_py_serialize_refines_spec env hs t v hw hpw hc hdom, hrep]

/-- An object without a serialized representation produces no bytes: the emitted `assert len(x) <= cap` /
`raise RuntimeError('Malformed union')` is reached (and nothing else is raised before it). -/
theorem C01_py_unrepresentable_rejected (env : Env) (hs : EnvSound env) (t : Ty) (v : Val) (hw : wf t = true)
    (hpw : pyWf t = true) (hc : topLevel t = true) (hdom : inDom false t v = true) :
    (serBytes t v = .error .badArrayLength → serializePy env t v = .error .assertion) ∧
    (serBytes t v = .error .badUnionTag → serializePy env t v = .error .malformedUnion) := by
  constructor <;> intro h <;> rw [C01_py_serialize_refines_spec env hs t v hw hpw hc hdom, h] <;> rfl

/-! ## C02 — deserialization -/

/-- **C02, Python target, top level.**  `nunavut_support.deserialize(cls, [bytes])` returns the specification's value
(and its deserializer has consumed the specification's size) for every byte string; it returns `None` exactly when
the specification reports one of its three errors. -/
theorem C02_py_deserialize_refines_spec (env : Env) (hs : EnvSound env) (t : Ty) (bytes : Buf) (hw : wf t = true)
    (hpw : pyWf t = true) (hc : topLevel t = true) (hwf : WF bytes) :
    deserializePy env t bytes = match deBytes t bytes with
      | .ok r => .ok (some r)
      | .error _ => .ok none :=
  deserializePy_spec env hs t bytes hw hpw hc hwf

/-- **C02, every field at every cursor**, also past the end of the data (implicit zero extension inside
`ZeroExtendingBuffer`) and inside a forked deserializer bounded by a delimiter header: `_deserialize_any` returns
the specification's value and advances the cursor by the padding plus the specification's length; a specification
error is the `FormatError` raised at the corresponding site of the template (array length prefix > capacity, union
tag ≥ option count, delimiter header > `max(remaining_bit_length, 0)`); nothing else is raised — no `IndexError`,
no failed `assert`, no `ValueError` from `fork_bytes` or from a setter of the generated constructor, no NumPy
`OverflowError` storing an element. -/
theorem C02_py_deserialize_any_refines_spec (env : Env) (hs : EnvSound env) (t : Ty) (hw : wf t = true)
    (hpw : pyWf t = true) (o : AOff) (d : De) (hwf : WF d.buf)
    (hclaim : Sound o (d.off + padLen (align t) d.off)) :
    DeMatch (deAny env t o d) d (padLen (align t) d.off)
      (deBits t ((unpackBytes d.buf).drop (d.off + padLen (align t) d.off))) :=
  (deRef_all env hs t hw hpw).1 o d hwf hclaim

/-- the error kind is visible in the model: the raise site of the `FormatError` is the specification's error -/
theorem C02_py_format_error_site (env : Env) (hs : EnvSound env) (t : Ty) (bytes : Buf) (hw : wf t = true)
    (hpw : pyWf t = true) (hc : topLevel t = true) (hwf : WF bytes) :
    deObj env (topInner t) ⟨bytes, 0⟩ = match deBits (topInner t) (unpackBytes bytes) with
      | .ok (v, n) => .ok (v, ⟨bytes, n⟩)
      | .error e => .error (.format e) :=
  deObj_top_spec env hs t bytes hw hpw hc hwf

/-- "This function will never raise an exception for invalid input data" (docstring of `deserialize`): for every
byte string the outcome is an object or `None`. -/
theorem C02_py_deserialize_never_raises (env : Env) (hs : EnvSound env) (t : Ty) (bytes : Buf) (hw : wf t = true)
    (hpw : pyWf t = true) (hc : topLevel t = true) (hwf : WF bytes) :
    ∃ r, deserializePy env t bytes = .ok r := by
  rw [C02_py_deserialize_refines_spec env hs t bytes hw hpw hc hwf]
  cases deBytes t bytes with
  | ok r => exact ⟨_, rfl⟩
  | error e => exact ⟨_, rfl⟩

/-- `None` ⇔ the specification rejects the byte string. -/
theorem C02_py_none_iff_spec_error (env : Env) (hs : EnvSound env) (t : Ty) (bytes : Buf) (hw : wf t = true)
    (hpw : pyWf t = true) (hc : topLevel t = true) (hwf : WF bytes) :
    deserializePy env t bytes = .ok none ↔ ∃ e, deBytes t bytes = .error e := by
  rw [C02_py_deserialize_refines_spec env hs t bytes hw hpw hc hwf]
  cases deBytes t bytes with
  | ok r => simp
  | error e => simp

/-- serialize-then-deserialize through the *implementation-shaped* models returns the cast-adjusted object (the
specification's round trip, C03, carried over by the two refinements) -/
theorem C01_py_round_trip (env : Env) (hs : EnvSound env) (t : Ty) (v : Val) (bytes : List Nat) (hw : wf t = true)
    (hpw : pyWf t = true) (hc : topLevel t = true) (hdom : inDom false t v = true)
    (hser : serializePy env t v = .ok bytes) :
    serBytes t v = .ok bytes ∧
    deserializePy env t bytes = match deBytes t bytes with
      | .ok r => .ok (some r)
      | .error _ => .ok none := by
  have h := C01_py_serialize_refines_spec env hs t v hw hpw hc hdom
  rw [hser] at h
  cases hsb : serBytes t v with
  | error e => rw [hsb] at h; cases h
  | ok bs =>
    rw [hsb] at h
    cases h
    refine ⟨rfl, C02_py_deserialize_refines_spec env hs t bytes hw hpw hc ?_⟩
    simp only [serBytes, serTop] at hsb
    rw [map_eq_ok] at hsb
    obtain ⟨bits, _, rfl⟩ := hsb
    exact WF_packBytes bits

/-! ## C18 — the generated classes on the codec path -/

/-- Every value the deserializer hands to the generated constructor passes the property setter of its field (the
integer range check C18 models with `intLo`/`intHi`, the float range check, the array length check): the
`ValueError` of a setter is unreachable from `deserialize`. -/
theorem C18_py_decoded_values_pass_setters (env : Env) (hf : FloatSound env) (t : Ty) (hw : wf t = true)
    (bs : List Bool) (v : Val) (n : Nat) (h : deBits t bs = .ok (v, n)) : ctorOK env t v = true :=
  ctorOK_of_deBits env hf hw h

/-- …and fits the NumPy array it is stored into element by element (no NumPy 2 `OverflowError`). -/
theorem C18_py_decoded_elements_fit_dtype (t : Ty) (hw : wf t = true) (bs : List Bool) (v : Val) (n : Nat)
    (h : deBits t bs = .ok (v, n)) : npStore t v = .ok v :=
  npStore_of_deBits hw h

/-- The scalar integers of `inDom` are exactly those the generated setter accepts (C18's
`C18_int_out_of_range_raises_ValueError`, restated on `PyObj.setField`): outside the set the setter raises
`ValueError`, inside it stores the value. -/
theorem C18_py_admitted_integers_are_setter_range (np : PyObj.Oracle) (n : Nat) (m : Cast) (c : Bool) (i : Int) :
    (inDom false (.uint n m) (.int i) = true → PyObj.setField np (.int false n c) (.int i) = .ok (.int i)) ∧
    (inDom false (.uint n m) (.int i) = false → PyObj.setField np (.int false n c) (.int i) = .error .value) ∧
    (1 ≤ n → inDom false (.sint n m) (.int i) = true → PyObj.setField np (.int true n c) (.int i) = .ok (.int i)) ∧
    (1 ≤ n → inDom false (.sint n m) (.int i) = false →
      PyObj.setField np (.int true n c) (.int i) = .error .value) := by
  have hp := two_pow_pos_int n
  have hp1 := two_pow_pos_int (n - 1)
  refine ⟨fun h => ?_, fun h => ?_, fun _ h => ?_, fun _ h => ?_⟩
  · simp only [inDom, Bool.false_eq_true, if_false, decide_eq_true_eq] at h
    have : PyObj.intLo false n ≤ i ∧ i ≤ PyObj.intHi false n := by
      simp only [PyObj.intLo, PyObj.intHi, Bool.false_eq_true, if_false]; omega
    simp [PyObj.setField, PyObj.pyInt, bind, Except.bind, this, pure, Except.pure]
  · simp only [inDom, Bool.false_eq_true, if_false, decide_eq_false_iff_not] at h
    have : ¬ (PyObj.intLo false n ≤ i ∧ i ≤ PyObj.intHi false n) := by
      simp only [PyObj.intLo, PyObj.intHi, Bool.false_eq_true, if_false]; omega
    simp [PyObj.setField, PyObj.pyInt, bind, Except.bind, this, throw, throwThe, MonadExceptOf.throw]
  · simp only [inDom, Bool.false_eq_true, if_false, decide_eq_true_eq] at h
    have : PyObj.intLo true n ≤ i ∧ i ≤ PyObj.intHi true n := by
      simp only [PyObj.intLo, PyObj.intHi, if_true]; omega
    simp [PyObj.setField, PyObj.pyInt, bind, Except.bind, this, pure, Except.pure]
  · simp only [inDom, Bool.false_eq_true, if_false, decide_eq_false_iff_not] at h
    have : ¬ (PyObj.intLo true n ≤ i ∧ i ≤ PyObj.intHi true n) := by
      simp only [PyObj.intLo, PyObj.intHi, if_true]; omega
    simp [PyObj.setField, PyObj.pyInt, bind, Except.bind, this, throw, throwThe, MonadExceptOf.throw]

/-! ## The environment of the driver -/

/-- The concrete alignment analysis (`lenRes`: residues modulo 8 of a type's bit lengths, which is all
`is_aligned_at_byte()` asks of PyDSDL's `BitLengthSet`) is a sound oracle. -/
theorem C01_py_alignment_oracle_sound : LrSound lenRes := lenRes_sound

/-- The little-endian NumPy oracles of the driver obey the NumPy laws. -/
theorem C01_py_numpy_oracles_lawful : NpSound stdEnv := stdEnv_np

/-- The IEEE float operations of the driver obey the CPython float laws: the emitted `isfinite` / compare saturation
text followed by `struct.pack` with its `OverflowError` fallback is the specification's `narrow` (both cast modes,
binary16 / 32 / 64 — the rounding at the overflow threshold is the content); `struct.unpack` is `widen`; a decoded
float passes the range check of the generated setter. -/
theorem C01_py_float_oracles_lawful : FloatSound stdEnv := stdEnv_float

/-- All hypotheses of the refinement theorems hold for the environment the driver `genpy` executes. -/
theorem C01_py_driver_env_sound : EnvSound stdEnv := ⟨lenRes_sound, stdEnv_float, stdEnv_np⟩

/-- The driver's `ser` answers are the specification's — no hypothesis left. -/
theorem C01_py_driver_serialize (t : Ty) (v : Val) (hw : wf t = true) (hpw : pyWf t = true)
    (hc : topLevel t = true) (hdom : inDom false t v = true) :
    serializePy stdEnv t v = match serBytes t v with
      | .ok bytes => .ok bytes
      | .error e => .error (excOf e) :=
  C01_py_serialize_refines_spec stdEnv C01_py_driver_env_sound t v hw hpw hc hdom

/-- The driver's `de` answers are the specification's — no hypothesis left. -/
theorem C02_py_driver_deserialize (t : Ty) (bytes : Buf) (hw : wf t = true) (hpw : pyWf t = true)
    (hc : topLevel t = true) (hwf : WF bytes) :
    deserializePy stdEnv t bytes = match deBytes t bytes with
      | .ok r => .ok (some r)
      | .error _ => .ok none :=
  C02_py_deserialize_refines_spec stdEnv C01_py_driver_env_sound t bytes hw hpw hc hwf

/-! ## non-vacuity -/

/-- `struct { uint3 a; int5[<=2] b; delimited { uint7 x; uint8[<=1] y } c }` -/
def exTy : Ty :=
  .struct [.uint 3 .sat, .varr (.sint 5 .sat) 2, .delim 64 (.struct [.uint 7 .sat, .varr (.uint 8 .sat) 1])]

def exVal : Val := .struct [.int 5, .arr [.int (-3), .int 200], .struct [.int 100, .arr [.int 7]]]

example : wf exTy = true ∧ pyWf exTy = true ∧ topLevel exTy = true := by decide +kernel
-- the element 200 of `int5[]` lives in an `int8` array only up to 127: not admitted …
example : inDom false exTy exVal = false := by decide +kernel
-- … -3 and 100 are; 100 is saturated to 15 by the emitted `max(min(x, 15), -16)`
example : inDom false exTy (.struct [.int 5, .arr [.int (-3), .int 100], .struct [.int 100, .arr [.int 7]]]) = true := by
  decide +kernel
example : serializePy stdEnv exTy (.struct [.int 5, .arr [.int (-3), .int 100], .struct [.int 100, .arr [.int 7]]])
    = .ok [0x15, 0xe8, 0x0f, 0x03, 0x00, 0x00, 0x00, 0xe4, 0x80, 0x03] := by decide +kernel
example : deserializePy stdEnv exTy [0x15, 0xe8, 0x0f, 0x03, 0x00, 0x00, 0x00, 0xe4, 0x80, 0x03]
    = .ok (some (.struct [.int 5, .arr [.int (-3), .int 15], .struct [.int 100, .arr [.int 7]]], 10)) := by decide +kernel
-- over-long array: the emitted assert
example : serializePy stdEnv exTy (.struct [.int 5, .arr [.int 0, .int 0, .int 0], .struct [.int 0, .arr []]])
    = .error .assertion := by decide +kernel
-- delimiter header larger than the remaining data ⇒ `None`; truncated input ⇒ zero extension
example : deserializePy stdEnv exTy [0x15, 0xe8, 0x0f, 0x09, 0x00, 0x00, 0x00, 0xe4] = .ok none := by decide +kernel
example : deserializePy stdEnv exTy [0x15]
    = .ok (some (.struct [.int 5, .arr [.int 0, .int 0], .struct [.int 0, .arr []]], 1)) := by decide +kernel

end NunavutVerif.GenPy
