import NunavutVerif.Lemmas.Options
import NunavutVerif.Lemmas.OptionFlow
import NunavutVerif.Gen.OptionEmit
/-!
# C17 — headers generated with different language options cannot be compiled together

Property theorems only (definitions: `Model/Options.lean`, `Model/Crc32.lean`, and — round 2 — `Model/OptionExpr.lean`
(the emitted C / C++ comparison expression), `Model/OptionEmit.lean` (the emission table read from the templates and its
meaning), `Model/OptionFlow.lean` (how a requested value reaches the templates; histories of API calls in one process);
generated tables: `Gen/OptionDomain.lean`, `Gen/OptionEmit.lean`; helper lemmas: `Lemmas/Options.lean`,
`Lemmas/OptionFlow.lean`).

Quantifiers.  The guard theorems (`C17_accepted_iff`, `C17_guard_reports_exactly_the_differences`,
`C17_accepted_iff_same_values`) hold for *all* option sets, all rendering functions and both languages.  The
statements about "documented" option sets quantify over every option set drawn from the generated table
(`Documented (Gen.domain lang) o`: the documented keys in order, every value one of the documented values of its
key) — an exponentially large family handled by proof, with `decide +kernel` used only for facts about the finite
generated table itself (over the whole table).

Reading of the omit case (`--omit-serialization-support`): no support header exists then, so there is nothing a
type header could be inconsistent with and C17 makes no claim.  The model records what the templates do
(`C17_pod_headers`): POD type headers of neither language carry option assertions (C since the repair of DESIGN F10,
repo commit 22e33a6).
-/
namespace NunavutVerif.Options
open NunavutVerif.Crc32

/-! ## 1. the guard relation -/

/-- T1 (text level).  The translation unit passes the guard block iff every assertion of the type header finds a
definition of its name in the support header whose stored value compares equal. -/
theorem C17_accepted_iff (lang : Lang) (defs asrt : List (String × Int)) :
    accepted lang defs asrt = true ↔
      ∀ a ∈ asrt, ∃ d, defs.lookup a.1 = some d ∧ cmp lang d a.2 = true := by
  unfold accepted diagnostics
  rw [List.isEmpty_iff, List.filterMap_eq_nil_iff]
  constructor
  · intro h a ha
    have := h a ha
    unfold checkOne at this
    cases hl : defs.lookup a.1 with
    | none => simp [hl] at this
    | some d =>
      refine ⟨d, rfl, ?_⟩
      simp only [hl] at this
      cases hc : cmp lang d a.2 with
      | true => rfl
      | false => simp [hc] at this
  · intro h a ha
    obtain ⟨d, hl, hc⟩ := h a ha
    simp [checkOne, hl, hc]

/-- T1 (key level), all option sets, both languages.  If the two sets are compared faithfully (values encode into
the `uint32` range and the two values of one key do not collide under `enc`) and no two keys render to the same
name, then compiling a type header generated with `o₂` against a support header generated with `o₁` reports exactly:
a mismatch for every key on which they differ, an undefined name for every key of `o₂` missing in `o₁`, and
nothing else. -/
theorem C17_guard_reports_exactly_the_differences (lang : Lang) (name : String → String) (o₁ o₂ : OptSet)
    (hf : Faithful o₁ o₂)
    (hinj : ∀ k₂ ∈ keys o₂, ∀ k' ∈ keys o₁, name k' = name k₂ → k' = k₂) :
    together lang false name o₁ o₂ = some (expected name o₁ o₂) := by
  obtain ⟨f₁, f₂, f₃⟩ := hf
  obtain ⟨d, hd⟩ := render_isSome name o₁ (fun kv hkv => by
    obtain ⟨n, hn, _⟩ := encFits_iff.mp (f₁ kv hkv); simp [hn])
  obtain ⟨a, ha, hda⟩ := diagnostics_eq_expected lang name o₁ d hd f₁ o₂ f₂ f₃ hinj
  have hasrt : asserts lang false name o₂ = some a := by
    cases lang <;> simp [asserts, ha]
  simp [together, defines, hd, hasrt, hda]

/-- T1 (acceptance).  Under the same side conditions the translation unit is accepted iff every option of the
type header's set is present in the support header's set with the same value. -/
theorem C17_accepted_iff_same_values (lang : Lang) (name : String → String) (o₁ o₂ : OptSet)
    (hf : Faithful o₁ o₂)
    (hinj : ∀ k₂ ∈ keys o₂, ∀ k' ∈ keys o₁, name k' = name k₂ → k' = k₂) :
    together lang false name o₁ o₂ = some [] ↔ ∀ kv ∈ o₂, o₁.lookup kv.1 = some kv.2 := by
  rw [C17_guard_reports_exactly_the_differences lang name o₁ o₂ hf hinj]
  constructor
  · intro h
    exact expected_nil_lookup name o₁ o₂ (Option.some.inj h)
  · intro h
    congr 1
    unfold expected
    rw [List.filterMap_eq_nil_iff]
    intro kv hkv
    simp [h kv hkv]

/-- What the guard cannot see (the code as it is): options that only the support header's set has.  The guard is
a one-sided inclusion, not an equality test — hence the requirement, checked below on the generated table, that
every documented option is always present. -/
theorem C17_support_only_options_unnoticed (lang : Lang) (name : String → String) (o₁ o₂ : OptSet)
    (hf : Faithful o₁ o₂)
    (hinj : ∀ k₂ ∈ keys o₂, ∀ k' ∈ keys o₁, name k' = name k₂ → k' = k₂)
    (hsub : ∀ kv ∈ o₂, o₁.lookup kv.1 = some kv.2) :
    together lang false name o₁ o₂ = some [] :=
  (C17_accepted_iff_same_values lang name o₁ o₂ hf hinj).mpr hsub

/-! ## 2. the generated table: `enc` on the documented values -/

-- the Boolean checks of `Lemmas/Options.lean`, evaluated by the kernel over the whole generated table
private theorem tableNames (lang : Lang) : tableNamesOK (Gen.domain lang) = true := by
  cases lang <;> decide +kernel
private theorem tableFits (lang : Lang) : tableFitsOK (Gen.domain lang) = true := by
  cases lang <;> decide +kernel
private theorem tableInj (lang : Lang) : tableInjOK (Gen.domain lang) = true := by
  cases lang <;> decide +kernel


/-- T2.  `enc` is injective on the documented value set of every documented option, in both languages (a CRC-32
collision between two documented strings, or a bool/int/str clash inside one option, would fail here). -/
theorem C17_enc_injective_on_documented (lang : Lang) :
    ∀ e ∈ Gen.domain lang, ∀ a ∈ e.values, ∀ b ∈ e.values, enc a = enc b → a = b := by
  intro e he a ha b hb hab
  have hi := tableInj lang
  simp only [tableInjOK, List.all_eq_true, Bool.or_eq_true, bne_iff_ne, ne_eq, beq_iff_eq] at hi
  rcases hi e he e he with h | h
  · exact absurd rfl h
  · rcases h a ha b hb with h | h
    · exact absurd hab h
    · exact h

/-- The model's `enc` prints, for every documented value, the number the real
`filter_to_static_assertion_value` printed when the table was generated — and the table covers every documented
value. -/
theorem C17_enc_agrees_with_filter_on_documented :
    (∀ p ∈ Gen.encRef, enc p.1 = some p.2) ∧
    (∀ lang, ∀ e ∈ Gen.domain lang, ∀ v ∈ e.values, v ∈ Gen.encRef.map Prod.fst) := by
  refine ⟨by decide +kernel, ?_⟩
  intro lang
  cases lang <;> decide +kernel

/-- Every documented value encodes, and into the range a C++ `std::uint32_t` holds. -/
theorem C17_documented_values_fit (lang : Lang) : ∀ e ∈ Gen.domain lang, ∀ v ∈ e.values, encFits v = true := by
  have hf := tableFits lang
  simp only [tableFitsOK, List.all_eq_true] at hf
  exact hf

/-- Every bool and every string option — documented or not — encodes into the `uint32` range. -/
theorem C17_bool_and_string_values_fit : (∀ b, encFits (.bool b) = true) ∧ (∀ s, encFits (.str s) = true) :=
  ⟨encFits_bool, encFits_str⟩

/-- Documented keys are pairwise distinct and render to pairwise distinct names (`macrofy` / `id` of the real
code, recorded in the table). -/
theorem C17_documented_names_distinct (lang : Lang) :
    (Gen.domain lang |>.map (·.key)).Nodup ∧ (Gen.domain lang |>.map (·.name)).Nodup := by
  cases lang <;> decide +kernel

/-- Every documented option is `#define`d by the real support header and asserted by the real type header
(observed by rendering the templates of the tree under check), and the four guard loops are a plain
`for key, value in options.items()` without `if`, `continue` or `break` around the printing statement and without
a loop filter other than the omit test `not nunavut.support.omit` (template AST). -/
theorem C17_every_documented_option_guarded :
    (∀ lang, ∀ e ∈ Gen.domain lang, e.defined = true ∧ e.asserted = true) ∧
    Gen.guardLoopPlain.length = 4 ∧ (∀ p ∈ Gen.guardLoopPlain, p.2 = true) := by
  refine ⟨?_, by decide +kernel, by decide +kernel⟩
  intro lang
  cases lang <;> decide +kernel

/-- Every documented option has a built-in default, i.e. is present in every option set.  (Fails for a key that
exists only when a CLI switch is given: a support header generated with the switch and type headers generated
without it then differ in a documented option and still compile together — `C17_support_only_options_unnoticed`.) -/
theorem C17_every_documented_option_always_present (lang : Lang) : ∀ e ∈ Gen.domain lang, e.always = true := by
  cases lang <;> decide +kernel

/-- The omit case as the templates handle it (rendered with `--omit-serialization-support`): the model's `asserts`
agrees with the observation — neither language emits option assertions into POD headers (C since the F10 repair). -/
theorem C17_pod_headers (lang : Lang) (name : String → String) (o : OptSet) :
    Gen.assertsWhenOmitted lang = false ∧ asserts lang true name o = some [] := by
  refine ⟨by cases lang <;> decide +kernel, rfl⟩

/-! ## 3. documented option sets, both languages -/

/-- T3a.  Identical documented option sets compile together. -/
theorem C17_identical_accepted (lang : Lang) (o : OptSet) (h : Documented (Gen.domain lang) o) :
    together lang false (nameOf (Gen.domain lang)) o o = some [] := by
  rw [together_documented (tableNames lang) (tableFits lang) (tableInj lang) lang h h]
  congr 1
  apply expected_self
  exact List.Nodup.sublist (documented_keys_sublist _ o h) (C17_documented_names_distinct lang).1

/-- T3b for two documented sets over the same keys (provable without `C17_every_documented_option_always_present`;
this is the form that survives if that table fact is recorded as a known finding instead of being repaired):
different sets are rejected, and the diagnostics name exactly the options on which they differ. -/
theorem C17_different_rejected_same_keys (lang : Lang) (o₁ o₂ : OptSet)
    (h₁ : Documented (Gen.domain lang) o₁) (h₂ : Documented (Gen.domain lang) o₂)
    (hk : keys o₁ = keys o₂) (hne : o₁ ≠ o₂) :
    ∃ ds, together lang false (nameOf (Gen.domain lang)) o₁ o₂ = some ds ∧ ds ≠ [] ∧
      (∀ d ∈ ds, ∃ kv₂ ∈ o₂, ∃ v₁, o₁.lookup kv₂.1 = some v₁ ∧ v₁ ≠ kv₂.2 ∧
        d = .mismatch (nameOf (Gen.domain lang) kv₂.1)) ∧
      (∀ kv₂ ∈ o₂, ∀ v₁, o₁.lookup kv₂.1 = some v₁ → v₁ ≠ kv₂.2 →
        Diag.mismatch (nameOf (Gen.domain lang) kv₂.1) ∈ ds) := by
  refine ⟨_, together_documented (tableNames lang) (tableFits lang) (tableInj lang) lang h₁ h₂, ?_, ?_, ?_⟩
  · intro hnil
    apply hne
    have hnd : (keys o₂).Nodup :=
      List.Nodup.sublist (documented_keys_sublist _ o₂ h₂) (C17_documented_names_distinct lang).1
    exact eq_of_keys_eq_of_lookup o₁ o₂ hk hnd (expected_nil_lookup _ o₁ o₂ hnil)
  · intro d hd
    unfold expected at hd
    rw [List.mem_filterMap] at hd
    obtain ⟨kv₂, hkv₂, hd⟩ := hd
    have hnd : (keys o₁).Nodup :=
      List.Nodup.sublist (documented_keys_sublist _ o₁ h₁) (C17_documented_names_distinct lang).1
    have hmem : kv₂.1 ∈ keys o₁ := by rw [hk]; exact List.mem_map_of_mem (f := Prod.fst) hkv₂
    obtain ⟨kv₁, hkv₁, hk1⟩ := List.mem_map.mp hmem
    have hl : o₁.lookup kv₂.1 = some kv₁.2 := by rw [← hk1]; exact lookup_of_mem_nodup o₁ hnd kv₁ hkv₁
    simp only [hl] at hd
    by_cases hv : kv₁.2 = kv₂.2
    · simp [hv] at hd
    · simp only [hv, if_false, Option.some.injEq] at hd
      exact ⟨kv₂, hkv₂, kv₁.2, hl, hv, hd.symm⟩
  · intro kv₂ hkv₂ v₁ hl hv
    unfold expected
    rw [List.mem_filterMap]
    exact ⟨kv₂, hkv₂, by simp [hl, hv]⟩

/-- T3b.  Two documented option sets that differ in at least one documented option value do not compile together,
in either language, and the diagnostics name exactly the differing options. -/
theorem C17_different_rejected (lang : Lang) (o₁ o₂ : OptSet)
    (h₁ : Documented (Gen.domain lang) o₁) (h₂ : Documented (Gen.domain lang) o₂) (hne : o₁ ≠ o₂) :
    ∃ ds, together lang false (nameOf (Gen.domain lang)) o₁ o₂ = some ds ∧ ds ≠ [] ∧
      (∀ d ∈ ds, ∃ kv₂ ∈ o₂, ∃ v₁, o₁.lookup kv₂.1 = some v₁ ∧ v₁ ≠ kv₂.2 ∧
        d = .mismatch (nameOf (Gen.domain lang) kv₂.1)) ∧
      (∀ kv₂ ∈ o₂, ∀ v₁, o₁.lookup kv₂.1 = some v₁ → v₁ ≠ kv₂.2 →
        Diag.mismatch (nameOf (Gen.domain lang) kv₂.1) ∈ ds) := by
  have ha := C17_every_documented_option_always_present lang
  have hk : keys o₁ = keys o₂ := by
    rw [documented_keys_eq _ o₁ ha h₁, documented_keys_eq _ o₂ ha h₂]
  exact C17_different_rejected_same_keys lang o₁ o₂ h₁ h₂ hk hne

/-- T3, the property in one line: two documented option sets compile together iff they are identical. -/
theorem C17_compile_together_iff_identical (lang : Lang) (o₁ o₂ : OptSet)
    (h₁ : Documented (Gen.domain lang) o₁) (h₂ : Documented (Gen.domain lang) o₂) :
    together lang false (nameOf (Gen.domain lang)) o₁ o₂ = some [] ↔ o₁ = o₂ := by
  constructor
  · intro h
    apply Classical.byContradiction
    intro hne
    obtain ⟨ds, hds, hnil, _⟩ := C17_different_rejected lang o₁ o₂ h₁ h₂ hne
    rw [h] at hds
    exact hnil (Option.some.inj hds).symm
  · intro h
    subst h
    exact C17_identical_accepted lang o₁ h₁

/-- The built-in defaults of each language: documented option sets exist (hypotheses of T3 are satisfiable). -/
def defaultsOf (dom : List DocOpt) : OptSet :=
  dom.filterMap fun e => match e.always, e.values with
    | true, v :: _ => some (e.key, v)
    | _, _ => none

/-! ## 3'. translation units with several type headers -/

/-- A translation unit with any number of generated type headers — each generated with its own option set, in any
include order, one header possibly including another — passes iff *every* header on its own is accepted against the
support header: no header's check is waived because another header of the unit passed (or was seen first). -/
theorem C17_tu_accepted_iff_every_header (lang : Lang) (pod : Bool) (name : String → String) (o₁ : OptSet)
    (hs : List OptSet) :
    acceptedTU lang pod name o₁ hs = true ↔ ∀ o ∈ hs, together lang pod name o₁ o = some [] := by
  unfold acceptedTU
  induction hs with
  | nil => simp [togetherTU]
  | cons o r ih =>
    simp only [togetherTU, List.mem_cons, forall_eq_or_imp]
    cases h1 : together lang pod name o₁ o with
    | none =>
      constructor
      · intro h; simp at h
      · intro h; simp at h
    | some d =>
      cases h2 : togetherTU lang pod name o₁ r with
      | none =>
        simp only [h2] at ih
        constructor
        · intro h; simp at h
        · intro h; exact absurd (ih.mpr h.2) (by simp)
      | some ds =>
        simp only [h2] at ih
        simp only [List.all_cons, Bool.and_eq_true, Option.some.injEq]
        rw [ih, List.isEmpty_iff]

/-- For documented option sets: the unit compiles iff every type header was generated with exactly the support
header's option set — in particular a mismatching header is rejected wherever it stands in the include order. -/
theorem C17_tu_documented_accepted_iff_all_identical (lang : Lang) (o₁ : OptSet) (hs : List OptSet)
    (h₁ : Documented (Gen.domain lang) o₁) (h₂ : ∀ o ∈ hs, Documented (Gen.domain lang) o) :
    acceptedTU lang false (nameOf (Gen.domain lang)) o₁ hs = true ↔ ∀ o ∈ hs, o = o₁ := by
  rw [C17_tu_accepted_iff_every_header]
  constructor
  · intro h o ho
    exact ((C17_compile_together_iff_identical lang o₁ o h₁ (h₂ o ho)).mp (h o ho)).symm
  · intro h o ho
    exact (C17_compile_together_iff_identical lang o₁ o h₁ (h₂ o ho)).mpr (h o ho).symm

/-- The seeded scenario as a closed instance: first header matches the support header, a later one does not. -/
example :
    let o₁ := defaultsOf (Gen.domain .cpp)
    let o₂ := o₁.map fun kv => if kv.1 = "target_endianness" then (kv.1, OptVal.str "little") else kv
    togetherTU .cpp false (nameOf (Gen.domain .cpp)) o₁ [o₁, o₂]
      = some [[], [.mismatch (nameOf (Gen.domain .cpp) "target_endianness")]] ∧
    acceptedTU .cpp false (nameOf (Gen.domain .cpp)) o₁ [o₁, o₂] = false := by
  decide +kernel

/-! ## 4. CRC-32 -/

/-- The bitwise model meets the standard check value of CRC-32/ISO-HDLC (zlib, binascii). -/
theorem C17_crc32_check_value : crc32Str "123456789" = 0xCBF43926 := by decide +kernel

/-- The CRC of any string is a 32-bit number. -/
theorem C17_crc32_range (s : String) : crc32Str s < 2 ^ 32 := crc32Str_lt s

/-! ## 5. the emitted comparison (round 2) -/

/-- The closed form `cmp` used by the guard theorems *is* the expression the templates emit — `static_assert( N == v )`
with `N` a macro for the numeral `d` (C) or a `constexpr std::uint32_t` initialised from it (C++) — as a C11 / C++14
compiler evaluates it (literal typing, unary minus, conversion on initialisation, usual arithmetic conversions; LP64),
for all numerals a `long` can hold. -/
theorem C17_cmp_is_the_emitted_expression (lang : Lang) (d v : Int)
    (hd : d.natAbs < 9223372036854775808) (hv : v.natAbs < 9223372036854775808) :
    evalAssert (defFormOf lang) .eq d v = some (cmp lang d v) :=
  evalAssert_eq_cmp lang d v hd hv

/-- Soundness of the comparison operator: on numbers of the `uint32` range (every bool and string option, every
documented value: `C17_bool_and_string_values_fit`, `C17_documented_values_fit`) the emitted assertion passes iff the
two numbers are equal, in both languages. -/
theorem C17_assertion_passes_iff_equal (lang : Lang) (d v : Int)
    (hd : 0 ≤ d ∧ d < 4294967296) (hv : 0 ≤ v ∧ v < 4294967296) :
    evalAssert (defFormOf lang) .eq d v = some (decide (d = v)) := by
  rw [evalAssert_eq_cmp lang d v (by omega) (by omega), cmp_eq_decide lang hd hv]

/-- C++ beyond that range: the assertion passes iff the two numbers are equal *as unsigned 32-bit values* (the
definition is stored in a `std::uint32_t`), for every definition a `long` can hold and every asserted numeral in
`(-2^31, 2^32)`; C compares the two numerals exactly. -/
theorem C17_assertion_compares_unsigned_32_bit (d v : Int) (hd : d.natAbs < 9223372036854775808) :
    (-2147483648 < v ∧ v < 4294967296 →
      evalAssert (defFormOf .cpp) .eq d v = some (decide (d % 4294967296 = v % 4294967296))) ∧
    (v.natAbs < 9223372036854775808 → evalAssert (defFormOf .c) .eq d v = some (decide (d = v))) := by
  constructor
  · intro hv
    rw [evalAssert_eq_cmp .cpp d v hd (by omega), cmp_cpp_mod d v hv]
  · intro hv
    rw [evalAssert_eq_cmp .c d v hd hv]
    simp [cmp, stored, int_beq_decide]

/-! ## 6. the emission table read from the templates (round 2) -/

/-- The table `Gen.emitSites` (Jinja AST of the four anchored templates and of everything they import / include /
extend, regenerated on every run): every header kind has exactly one emission site; it is a plain output statement in a
`for key, value in options.items()` loop; the only conditions on it are the header's own include guard and — on the type
side of both languages — `not nunavut.support.omit`; the printed name is `"NUNAVUT_SUPPORT_LANGUAGE_OPTION_{}".format(key)
| ln.c.macrofy` (C) / `key | id` (C++) on both sides; the printed number is `value | to_static_assertion_value`; the
statements are `#define N V`, `constexpr std::uint32_t N = V;` and `static_assert( [nunavut::support::options::]N == V, …`.
Any other guard (a per-translation-unit once guard, `#ifdef static_assert`, an `if` on the key or the value, a `{% set %}`
block rendered once, another operand type or operator …) is in the table by name and makes this statement false. -/
theorem C17_emission_table_shape : tableOK Gen.emitSites = true := by decide +kernel

/-- Hence the meaning of the table is the hand-written model: for every pair of name filters, every option set (not
only documented ones) and both values of `nunavut.support.omit`, the support header carries `defines` and a type header
carries `asserts`. -/
theorem C17_emission_table_is_the_model (nf : NameFilters) (lang : Lang) (om : Bool) (o : OptSet) :
    tableRender Gen.emitSites nf lang .support om o = some (defines (canonicalName nf lang) o) ∧
    tableRender Gen.emitSites nf lang .type om o = some (asserts lang om (canonicalName nf lang) o) := by
  constructor
  · rw [tableRender_of_ok C17_emission_table_shape]; rfl
  · rw [tableRender_of_ok C17_emission_table_shape]
    cases om <;> rfl

/-- Every documented option is defined on the support side — always — and asserted on the type side exactly when
serialization support is not omitted: for every documented option set the support header defines precisely the rendered
names of its keys, a type header asserts precisely the same names, and a POD header (`omit`) asserts nothing. -/
theorem C17_every_documented_option_emitted (nf : NameFilters) (lang : Lang) (o : OptSet)
    (h : Documented (Gen.domain lang) o) :
    ∃ d a, (∀ om, tableRender Gen.emitSites nf lang .support om o = some (some d)) ∧
      tableRender Gen.emitSites nf lang .type false o = some (some a) ∧
      tableRender Gen.emitSites nf lang .type true o = some (some []) ∧
      d.map Prod.fst = (keys o).map (canonicalName nf lang) ∧ a = d := by
  have hf := C17_documented_values_fit lang
  obtain ⟨d, hd⟩ := render_isSome (canonicalName nf lang) o (fun kv hkv => by
    obtain ⟨e, he, _, hv⟩ := documented_mem _ o h kv hkv
    obtain ⟨n, hn, _⟩ := encFits_iff.mp (hf e he kv.2 hv)
    simp [hn])
  refine ⟨d, d, ?_, ?_, ?_, render_keys _ o d hd, rfl⟩
  · intro om
    rw [(C17_emission_table_is_the_model nf lang om o).1, defines, hd]
  · rw [(C17_emission_table_is_the_model nf lang false o).2]; simp [asserts, hd]
  · rw [(C17_emission_table_is_the_model nf lang true o).2]; simp [asserts]

/-! ## 7. the value an option had for *this* run (round 2) -/

/-- Glue, stated for every history of API calls in one process (`generate_types`, constructing generator objects,
passes of `generate_all` on kept generator objects with varying `omit_serialization_support`), every built-in
configuration and every pair of templates: the result of each call is the one determined by *its own* request — the
encodings of the effective values (`defaults ⊕ request`, then the language-standard preset) of the request given to that
call (for a pass: to the construction of its generator) and that pass's own `omit` flag.  Nothing an earlier call
requested is in force later. -/
theorem C17_history_emits_requested_values (lang : Lang) (file : LangConfig) (E : Emitter) (cs : List Call) :
    runHistory lang file E [] cs = specHistory lang file E [] cs :=
  runHistory_eq_spec lang file E cs [] [] (inv_nil lang file)

/-- The property over histories: take any two `generate_types` calls (with serialization support) of one process whose
effective option sets are documented ones.  Both generate; the support header of the one and the type headers of the
other pass the option guard iff the two effective sets are identical. -/
theorem C17_history_runs_compile_together_iff_identical (lang : Lang) (cs : List Call)
    (req₁ req₂ o₁ o₂ : OptSet) (r₁ r₂ : RunResult)
    (hc₁ : (Call.generateTypes req₁ false, r₁) ∈
      cs.zip (runHistory lang (Gen.fileConfig lang) (modelEmitter lang (nameOf (Gen.domain lang))) [] cs))
    (hc₂ : (Call.generateTypes req₂ false, r₂) ∈
      cs.zip (runHistory lang (Gen.fileConfig lang) (modelEmitter lang (nameOf (Gen.domain lang))) [] cs))
    (he₁ : effective lang (Gen.fileConfig lang) req₁ = .ok o₁) (he₂ : effective lang (Gen.fileConfig lang) req₂ = .ok o₂)
    (hd₁ : Documented (Gen.domain lang) o₁) (hd₂ : Documented (Gen.domain lang) o₂) :
    ∃ d₁ a₁ d₂ a₂, r₁ = .ok ⟨some d₁, a₁⟩ ∧ r₂ = .ok ⟨some d₂, a₂⟩ ∧ (accepted lang d₁ a₂ = true ↔ o₁ = o₂) := by
  rw [C17_history_emits_requested_values] at hc₁ hc₂
  obtain ⟨p₁, hr₁⟩ := specHistory_zip _ _ _ cs [] _ _ hc₁
  obtain ⟨p₂, hr₂⟩ := specHistory_zip _ _ _ cs [] _ _ hc₂
  have hiff := C17_compile_together_iff_identical lang o₁ o₂ hd₁ hd₂
  have hs₁ := C17_identical_accepted lang o₁ hd₁
  have hs₂ := C17_identical_accepted lang o₂ hd₂
  simp only [together, asserts] at hiff hs₁ hs₂
  cases hdef₁ : defines (nameOf (Gen.domain lang)) o₁ with
  | none => simp [hdef₁] at hs₁
  | some d₁ =>
    cases hdef₂ : defines (nameOf (Gen.domain lang)) o₂ with
    | none => simp [hdef₂] at hs₂
    | some d₂ =>
      have ha₁ : render (nameOf (Gen.domain lang)) o₁ = some d₁ := hdef₁
      have ha₂ : render (nameOf (Gen.domain lang)) o₂ = some d₂ := hdef₂
      refine ⟨d₁, d₁, d₂, d₂, ?_, ?_, ?_⟩
      · simp [hr₁, specCall, specRun, he₁, modelEmitter, hdef₁, asserts, ha₁]
      · simp [hr₂, specCall, specRun, he₂, modelEmitter, hdef₂, asserts, ha₂]
      · rw [← hiff]
        simp [hdef₁, ha₂, accepted, List.isEmpty_iff]

/-- Delivery: however a request reaches a fresh builder — any number of configuration files, then any number of override
calls — the language object is handed `validate` of `merged` (built-in, files in order, the last override). -/
theorem C17_delivery_reaches_the_templates (lang : Lang) (file : LangConfig) (d : Delivery) :
    (((Builder.fresh file).deliver d).create lang).2 = effectiveDelivered lang file d :=
  deliver_create lang file d

/-- The documented precedence, per option key: an explicit override (API call / CLI flag; the last call) beats every
file, a later file beats an earlier one, and only a key no source mentions keeps its built-in default.  No source is
dropped: an option set only in an earlier file is still in force when a later file sets other options of the section. -/
theorem C17_delivery_precedence (file : LangConfig) (d : Delivery) (k : String) :
    (merged file d).lookup k =
      match lastVal (d.overrides.getLast?.getD []) k with
      | some v => some v
      | none =>
        match d.files.reverse.findSome? (fun f => lastVal f k) with
        | some v => some v
        | none => file.options.lookup k := by
  rw [merged, lookup_update, lookup_files]
  cases lastVal (d.overrides.getLast?.getD []) k <;>
    cases d.files.reverse.findSome? (fun f => lastVal f k) <;> rfl

example :
    let te := "target_endianness"
    let d : Delivery := ⟨[[(te, .str "little")], [("enable_serialization_asserts", .bool true)]], []⟩
    let d' : Delivery := ⟨[[(te, .str "big")], [(te, .str "little")]], [[("std", .str "c11")], []]⟩
    (match effectiveDelivered .c (Gen.fileConfig .c) d with
      | .ok o => (o.lookup te, o.lookup "enable_serialization_asserts") | .error _ => (none, none))
      = (some (.str "little"), some (.bool true)) ∧
    (match effectiveDelivered .c (Gen.fileConfig .c) d' with
      | .ok o => (o.lookup te, o.lookup "std") | .error _ => (none, none)) = (some (.str "little"), some (.str "c11")) := by
  decide +kernel

/-- Non-vacuity and the seeded classes as closed instances.  A process that calls `generate_types` with
`target_endianness = little` and then without options: the second run emits the encoding of `any`, and its type headers do
not pass against the first run's support header. -/
example :
    let E := modelEmitter .c (nameOf (Gen.domain .c))
    let rs := runHistory .c (Gen.fileConfig .c) E [] [.generateTypes [("target_endianness", .str "little")] false, .generateTypes [] false]
    let te := "NUNAVUT_SUPPORT_LANGUAGE_OPTION_TARGET_ENDIANNESS"
    rs.map (fun r => match r with
      | .ok ⟨some d, a⟩ => (d.lookup te, a.lookup te)
      | _ => (none, none)) = [(some 434322821, some 434322821), (some 1693710260, some 1693710260)] ∧
    (match rs with
      | [.ok ⟨some d₁, _⟩, .ok ⟨some d₂, a₂⟩] => (accepted .c d₁ a₂, accepted .c d₂ a₂)
      | _ => (true, false)) = (false, true) := by
  decide +kernel

/-- One generator object used for a pass without and then a pass with serialization support: the second pass's headers
carry the full guard block (6 assertions in C), the first pass's none. -/
example :
    let E := modelEmitter .c (nameOf (Gen.domain .c))
    let rs := runHistory .c (Gen.fileConfig .c) E [] [.newGenerators "g" [("target_endianness", .str "little")], .pass "g" true, .pass "g" false]
    rs.head? = some .created ∧
    rs.map (fun r => match r with
      | .ok ⟨d, a⟩ => (d.map List.length, a.length, d == some a)
      | _ => (none, 0, false)) = [(none, 0, false), (none, 0, false), (some 6, 6, true)] := by
  decide +kernel

/-- What the theorem excludes: a builder kept per process (the state `generate_types` does *not* have).  With it the
override of the first call stays merged into the shared configuration and the second call — which requests nothing —
is handed `little`. -/
example :
    let b₀ := Builder.fresh (Gen.fileConfig .c)
    let r₁ := (b₀.setOverride [("target_endianness", .str "little")]).create .c
    let r₂ := (r₁.1.setOverride []).create .c
    (match r₂.2 with | .ok o => o.lookup "target_endianness" | .error _ => none) = some (.str "little") ∧
    (match effective .c (Gen.fileConfig .c) [] with | .ok o => o.lookup "target_endianness" | .error _ => none) = some (.str "any") := by
  decide +kernel

/-- The C++ language-standard preset is part of the effective set (`--language-standard c++17-pmr`), invalid
constructor conventions are rejected as the real validation does. -/
example :
    (match effective .cpp (Gen.fileConfig .cpp) [("std", .str "c++17-pmr")] with
      | .ok o => (o.lookup "std", o.lookup "std_flavor", o.lookup "allocator_include")
      | .error _ => (none, none, none)) = (some (.str "c++17"), some (.str "pmr"), some (.str "<memory_resource>")) ∧
    (match effective .cpp (Gen.fileConfig .cpp) [("ctor_convention", .str "Uses_Leading_Allocator")] with
      | .error e => some e | .ok _ => none) = some .allocatorRequired ∧
    (match effective .cpp (Gen.fileConfig .cpp) [("ctor_convention", .str "nope")] with
      | .error e => some e | .ok _ => none) = some .badCtor := by
  decide +kernel

-- the expression model on the corners, and a form outside it (the seeded `type_definition_option` helper type)
example : evalAssert (.constexprVar .uint32) .eq 4294967301 5 = some true ∧
    evalAssert .macro .eq 4294967301 5 = some false ∧
    evalAssert (.constexprVar .uint32) .eq (-1) 4294967295 = some true ∧
    evalAssert (.constexprVar .uint32) .eq 2147483648 (-2147483648) = some false ∧
    evalAssert (.constexprVar .uint32) .eq 4294967295 (-1) = some true ∧
    evalAssert (.constexprVar (.other "type_definition_option")) .eq 1 2 = none := by decide +kernel

/-! ## examples: non-vacuity, the documented doctests of the filter, the defect before the fix -/

-- the three doctests of `filter_to_static_assertion_value`, and its `ValueError`
example : enc (.str "Any") = some 1556001108 ∧ enc (.int 123) = some 123 ∧ enc (.bool true) = some 1 ∧
    enc .other = none := by decide +kernel
example : crc32 [] = 0 ∧ crc32Str "é" = crc32 [0xC3, 0xA9] ∧ utf8 "€😀" = [0xE2, 0x82, 0xAC, 0xF0, 0x9F, 0x98, 0x80] := by
  decide +kernel

example : Documented (Gen.domain .c) (defaultsOf (Gen.domain .c)) := by decide +kernel
example : Documented (Gen.domain .cpp) (defaultsOf (Gen.domain .cpp)) := by decide +kernel
example : (defaultsOf (Gen.domain .cpp)).length = 14 ∧ 5 ≤ (defaultsOf (Gen.domain .c)).length := by decide +kernel

/-- A single-option difference: little-endian types against an `any` support header, C. -/
example :
    let o₁ := defaultsOf (Gen.domain .c)
    let o₂ := o₁.map fun kv => if kv.1 = "target_endianness" then (kv.1, OptVal.str "little") else kv
    Documented (Gen.domain .c) o₂ ∧
    together .c false (nameOf (Gen.domain .c)) o₁ o₂
      = some [.mismatch (nameOf (Gen.domain .c) "target_endianness")] := by
  decide +kernel

/-- A multi-option difference in C++ (`c++17-pmr` types against the default support header): one diagnostic per
differing option, in the order of the type header.  Names are taken from the generated table (`key | id` strops:
since repo commit ab91152 the key `std` is rendered `_std` on both sides). -/
example :
    let o₁ := defaultsOf (Gen.domain .cpp)
    let o₂ := o₁.map fun kv =>
      if kv.1 = "std" then (kv.1, OptVal.str "c++17")
      else if kv.1 = "std_flavor" then (kv.1, OptVal.str "pmr")
      else if kv.1 = "allocator_include" then (kv.1, OptVal.str "<memory_resource>")
      else kv
    Documented (Gen.domain .cpp) o₂ ∧
    together .cpp false (nameOf (Gen.domain .cpp)) o₁ o₂
      = some (["std", "std_flavor", "allocator_include"].map fun k => .mismatch (nameOf (Gen.domain .cpp) k)) := by
  decide +kernel

/-- A type header asserting a key the support header does not define. -/
example : together .c false id [("a", .bool true)] [("a", .bool true), ("b", .str "x")] = some [.undefined "b"] := by
  decide +kernel

/-- The C++ `uint32` storage (outside the documented domain): an int option ≥ 2^32 does not even compile against
itself, and two different ints can pass. -/
example : together .cpp false id [("n", .int 4294967301)] [("n", .int 4294967301)] = some [.mismatch "n"] ∧
    together .cpp false id [("n", .int 4294967301)] [("n", .int 5)] = some [] ∧
    together .c false id [("n", .int 4294967301)] [("n", .int 5)] = some [.mismatch "n"] := by decide +kernel

/-- Before the fix (`std` had no built-in default in the C language options: it existed only under
`--language-standard`).  The documented C domain as it was then: -/
def domainCBeforeFix : List DocOpt := [
  { key := "target_endianness", name := "NUNAVUT_SUPPORT_LANGUAGE_OPTION_TARGET_ENDIANNESS",
    values := [.str "any", .str "big", .str "little"], always := true, defined := true, asserted := true },
  { key := "omit_float_serialization_support", name := "NUNAVUT_SUPPORT_LANGUAGE_OPTION_OMIT_FLOAT_SERIALIZATION_SUPPORT",
    values := [.bool false, .bool true], always := true, defined := true, asserted := true },
  { key := "enable_serialization_asserts", name := "NUNAVUT_SUPPORT_LANGUAGE_OPTION_ENABLE_SERIALIZATION_ASSERTS",
    values := [.bool false, .bool true], always := true, defined := true, asserted := true },
  { key := "enable_override_variable_array_capacity",
    name := "NUNAVUT_SUPPORT_LANGUAGE_OPTION_ENABLE_OVERRIDE_VARIABLE_ARRAY_CAPACITY",
    values := [.bool false, .bool true], always := true, defined := true, asserted := true },
  { key := "cast_format", name := "NUNAVUT_SUPPORT_LANGUAGE_OPTION_CAST_FORMAT",
    values := [.str "(({type}) {value})", .str "static_cast<{type}>({value})"],
    always := true, defined := true, asserted := true },
  { key := "std", name := "NUNAVUT_SUPPORT_LANGUAGE_OPTION_STD",
    values := [.str "c11", .str "c++14", .str "cetl++14-17", .str "c++17", .str "c++17-pmr", .str "c++20"],
    always := false, defined := true, asserted := true }]

/-- The negation of the property on the old domain: `nnvg -std c11` for the support header, no `-std` for the type
headers — two documented option sets that differ (in `std`) and compile together. -/
example :
    let o₂ := defaultsOf domainCBeforeFix
    let o₁ := o₂ ++ [("std", OptVal.str "c11")]
    Documented domainCBeforeFix o₁ ∧ Documented domainCBeforeFix o₂ ∧ o₁ ≠ o₂ ∧
    together .c false (nameOf domainCBeforeFix) o₁ o₂ = some [] := by
  decide +kernel

end NunavutVerif.Options
