import NunavutVerif.Lemmas.Options
/-!
# C17 — headers generated with different language options cannot be compiled together

Property theorems only (definitions: `Model/Options.lean`, `Model/Crc32.lean`; generated table:
`Gen/OptionDomain.lean`; helper lemmas: `Lemmas/Options.lean`).

Quantifiers.  The guard theorems (`C17_accepted_iff`, `C17_guard_reports_exactly_the_differences`,
`C17_accepted_iff_same_values`) hold for *all* option sets, all rendering functions and both languages.  The
statements about "documented" option sets quantify over every option set drawn from the generated table
(`Documented (Gen.domain lang) o`: the documented keys in order, every value one of the documented values of its
key) — an exponentially large family handled by proof, with `decide +kernel` used only for facts about the finite
generated table itself (over the whole table).

Reading of the omit case (`--omit-serialization-support`): no support header exists then, so there is nothing a
type header could be inconsistent with and C17 makes no claim.  The model records what the templates do
(`C17_pod_headers`): POD type headers of neither language carry option assertions (C since the repair of DESIGN F10,
repo commit 22e33a6).
-/
namespace NunavutVerif.Options
open NunavutVerif.Crc32

/-! ## 1. the guard relation -/

/-- T1 (text level).  The translation unit passes the guard block iff every assertion of the type header finds a
definition of its name in the support header whose stored value compares equal. -/
theorem C17_accepted_iff (lang : Lang) (defs asrt : List (String × Int)) :
    accepted lang defs asrt = true ↔
      ∀ a ∈ asrt, ∃ d, defs.lookup a.1 = some d ∧ cmp lang d a.2 = true := by
  unfold accepted diagnostics
  rw [List.isEmpty_iff, List.filterMap_eq_nil_iff]
  constructor
  · intro h a ha
    have := h a ha
    unfold checkOne at this
    cases hl : defs.lookup a.1 with
    | none => simp [hl] at this
    | some d =>
      refine ⟨d, rfl, ?_⟩
      simp only [hl] at this
      cases hc : cmp lang d a.2 with
      | true => rfl
      | false => simp [hc] at this
  · intro h a ha
    obtain ⟨d, hl, hc⟩ := h a ha
    simp [checkOne, hl, hc]

/-- T1 (key level), all option sets, both languages.  If the two sets are compared faithfully (values encode into
the `uint32` range and the two values of one key do not collide under `enc`) and no two keys render to the same
name, then compiling a type header generated with `o₂` against a support header generated with `o₁` reports exactly:
a mismatch for every key on which they differ, an undefined name for every key of `o₂` missing in `o₁`, and
nothing else. -/
theorem C17_guard_reports_exactly_the_differences (lang : Lang) (name : String → String) (o₁ o₂ : OptSet)
    (hf : Faithful o₁ o₂)
    (hinj : ∀ k₂ ∈ keys o₂, ∀ k' ∈ keys o₁, name k' = name k₂ → k' = k₂) :
    together lang false name o₁ o₂ = some (expected name o₁ o₂) := by
  obtain ⟨f₁, f₂, f₃⟩ := hf
  obtain ⟨d, hd⟩ := render_isSome name o₁ (fun kv hkv => by
    obtain ⟨n, hn, _⟩ := encFits_iff.mp (f₁ kv hkv); simp [hn])
  obtain ⟨a, ha, hda⟩ := diagnostics_eq_expected lang name o₁ d hd f₁ o₂ f₂ f₃ hinj
  have hasrt : asserts lang false name o₂ = some a := by
    cases lang <;> simp [asserts, ha]
  simp [together, defines, hd, hasrt, hda]

/-- T1 (acceptance).  Under the same side conditions the translation unit is accepted iff every option of the
type header's set is present in the support header's set with the same value. -/
theorem C17_accepted_iff_same_values (lang : Lang) (name : String → String) (o₁ o₂ : OptSet)
    (hf : Faithful o₁ o₂)
    (hinj : ∀ k₂ ∈ keys o₂, ∀ k' ∈ keys o₁, name k' = name k₂ → k' = k₂) :
    together lang false name o₁ o₂ = some [] ↔ ∀ kv ∈ o₂, o₁.lookup kv.1 = some kv.2 := by
  rw [C17_guard_reports_exactly_the_differences lang name o₁ o₂ hf hinj]
  constructor
  · intro h
    exact expected_nil_lookup name o₁ o₂ (Option.some.inj h)
  · intro h
    congr 1
    unfold expected
    rw [List.filterMap_eq_nil_iff]
    intro kv hkv
    simp [h kv hkv]

/-- What the guard cannot see (the code as it is): options that only the support header's set has.  The guard is
a one-sided inclusion, not an equality test — hence the requirement, checked below on the generated table, that
every documented option is always present. -/
theorem C17_support_only_options_unnoticed (lang : Lang) (name : String → String) (o₁ o₂ : OptSet)
    (hf : Faithful o₁ o₂)
    (hinj : ∀ k₂ ∈ keys o₂, ∀ k' ∈ keys o₁, name k' = name k₂ → k' = k₂)
    (hsub : ∀ kv ∈ o₂, o₁.lookup kv.1 = some kv.2) :
    together lang false name o₁ o₂ = some [] :=
  (C17_accepted_iff_same_values lang name o₁ o₂ hf hinj).mpr hsub

/-! ## 2. the generated table: `enc` on the documented values -/

-- the Boolean checks of `Lemmas/Options.lean`, evaluated by the kernel over the whole generated table
private theorem tableNames (lang : Lang) : tableNamesOK (Gen.domain lang) = true := by
  cases lang <;> decide +kernel
private theorem tableFits (lang : Lang) : tableFitsOK (Gen.domain lang) = true := by
  cases lang <;> decide +kernel
private theorem tableInj (lang : Lang) : tableInjOK (Gen.domain lang) = true := by
  cases lang <;> decide +kernel


/-- T2.  `enc` is injective on the documented value set of every documented option, in both languages (a CRC-32
collision between two documented strings, or a bool/int/str clash inside one option, would fail here). -/
theorem C17_enc_injective_on_documented (lang : Lang) :
    ∀ e ∈ Gen.domain lang, ∀ a ∈ e.values, ∀ b ∈ e.values, enc a = enc b → a = b := by
  intro e he a ha b hb hab
  have hi := tableInj lang
  simp only [tableInjOK, List.all_eq_true, Bool.or_eq_true, bne_iff_ne, ne_eq, beq_iff_eq] at hi
  rcases hi e he e he with h | h
  · exact absurd rfl h
  · rcases h a ha b hb with h | h
    · exact absurd hab h
    · exact h

/-- The model's `enc` prints, for every documented value, the number the real
`filter_to_static_assertion_value` printed when the table was generated — and the table covers every documented
value. -/
theorem C17_enc_agrees_with_filter_on_documented :
    (∀ p ∈ Gen.encRef, enc p.1 = some p.2) ∧
    (∀ lang, ∀ e ∈ Gen.domain lang, ∀ v ∈ e.values, v ∈ Gen.encRef.map Prod.fst) := by
  refine ⟨by decide +kernel, ?_⟩
  intro lang
  cases lang <;> decide +kernel

/-- Every documented value encodes, and into the range a C++ `std::uint32_t` holds. -/
theorem C17_documented_values_fit (lang : Lang) : ∀ e ∈ Gen.domain lang, ∀ v ∈ e.values, encFits v = true := by
  have hf := tableFits lang
  simp only [tableFitsOK, List.all_eq_true] at hf
  exact hf

/-- Every bool and every string option — documented or not — encodes into the `uint32` range. -/
theorem C17_bool_and_string_values_fit : (∀ b, encFits (.bool b) = true) ∧ (∀ s, encFits (.str s) = true) :=
  ⟨encFits_bool, encFits_str⟩

/-- Documented keys are pairwise distinct and render to pairwise distinct names (`macrofy` / `id` of the real
code, recorded in the table). -/
theorem C17_documented_names_distinct (lang : Lang) :
    (Gen.domain lang |>.map (·.key)).Nodup ∧ (Gen.domain lang |>.map (·.name)).Nodup := by
  cases lang <;> decide +kernel

/-- Every documented option is `#define`d by the real support header and asserted by the real type header
(observed by rendering the templates of the tree under check), and the four guard loops are a plain
`for key, value in options.items()` without `if`, `continue` or `break` around the printing statement and without
a loop filter other than the omit test `not nunavut.support.omit` (template AST). -/
theorem C17_every_documented_option_guarded :
    (∀ lang, ∀ e ∈ Gen.domain lang, e.defined = true ∧ e.asserted = true) ∧
    Gen.guardLoopPlain.length = 4 ∧ (∀ p ∈ Gen.guardLoopPlain, p.2 = true) := by
  refine ⟨?_, by decide +kernel, by decide +kernel⟩
  intro lang
  cases lang <;> decide +kernel

/-- Every documented option has a built-in default, i.e. is present in every option set.  (Fails for a key that
exists only when a CLI switch is given: a support header generated with the switch and type headers generated
without it then differ in a documented option and still compile together — `C17_support_only_options_unnoticed`.) -/
theorem C17_every_documented_option_always_present (lang : Lang) : ∀ e ∈ Gen.domain lang, e.always = true := by
  cases lang <;> decide +kernel

/-- The omit case as the templates handle it (rendered with `--omit-serialization-support`): the model's `asserts`
agrees with the observation — neither language emits option assertions into POD headers (C since the F10 repair). -/
theorem C17_pod_headers (lang : Lang) (name : String → String) (o : OptSet) :
    Gen.assertsWhenOmitted lang = false ∧ asserts lang true name o = some [] := by
  refine ⟨by cases lang <;> decide +kernel, rfl⟩

/-! ## 3. documented option sets, both languages -/

/-- T3a.  Identical documented option sets compile together. -/
theorem C17_identical_accepted (lang : Lang) (o : OptSet) (h : Documented (Gen.domain lang) o) :
    together lang false (nameOf (Gen.domain lang)) o o = some [] := by
  rw [together_documented (tableNames lang) (tableFits lang) (tableInj lang) lang h h]
  congr 1
  apply expected_self
  exact List.Nodup.sublist (documented_keys_sublist _ o h) (C17_documented_names_distinct lang).1

/-- T3b for two documented sets over the same keys (provable without `C17_every_documented_option_always_present`;
this is the form that survives if that table fact is recorded as a known finding instead of being repaired):
different sets are rejected, and the diagnostics name exactly the options on which they differ. -/
theorem C17_different_rejected_same_keys (lang : Lang) (o₁ o₂ : OptSet)
    (h₁ : Documented (Gen.domain lang) o₁) (h₂ : Documented (Gen.domain lang) o₂)
    (hk : keys o₁ = keys o₂) (hne : o₁ ≠ o₂) :
    ∃ ds, together lang false (nameOf (Gen.domain lang)) o₁ o₂ = some ds ∧ ds ≠ [] ∧
      (∀ d ∈ ds, ∃ kv₂ ∈ o₂, ∃ v₁, o₁.lookup kv₂.1 = some v₁ ∧ v₁ ≠ kv₂.2 ∧
        d = .mismatch (nameOf (Gen.domain lang) kv₂.1)) ∧
      (∀ kv₂ ∈ o₂, ∀ v₁, o₁.lookup kv₂.1 = some v₁ → v₁ ≠ kv₂.2 →
        Diag.mismatch (nameOf (Gen.domain lang) kv₂.1) ∈ ds) := by
  refine ⟨_, together_documented (tableNames lang) (tableFits lang) (tableInj lang) lang h₁ h₂, ?_, ?_, ?_⟩
  · intro hnil
    apply hne
    have hnd : (keys o₂).Nodup :=
      List.Nodup.sublist (documented_keys_sublist _ o₂ h₂) (C17_documented_names_distinct lang).1
    exact eq_of_keys_eq_of_lookup o₁ o₂ hk hnd (expected_nil_lookup _ o₁ o₂ hnil)
  · intro d hd
    unfold expected at hd
    rw [List.mem_filterMap] at hd
    obtain ⟨kv₂, hkv₂, hd⟩ := hd
    have hnd : (keys o₁).Nodup :=
      List.Nodup.sublist (documented_keys_sublist _ o₁ h₁) (C17_documented_names_distinct lang).1
    have hmem : kv₂.1 ∈ keys o₁ := by rw [hk]; exact List.mem_map_of_mem (f := Prod.fst) hkv₂
    obtain ⟨kv₁, hkv₁, hk1⟩ := List.mem_map.mp hmem
    have hl : o₁.lookup kv₂.1 = some kv₁.2 := by rw [← hk1]; exact lookup_of_mem_nodup o₁ hnd kv₁ hkv₁
    simp only [hl] at hd
    by_cases hv : kv₁.2 = kv₂.2
    · simp [hv] at hd
    · simp only [hv, if_false, Option.some.injEq] at hd
      exact ⟨kv₂, hkv₂, kv₁.2, hl, hv, hd.symm⟩
  · intro kv₂ hkv₂ v₁ hl hv
    unfold expected
    rw [List.mem_filterMap]
    exact ⟨kv₂, hkv₂, by simp [hl, hv]⟩

/-- T3b.  Two documented option sets that differ in at least one documented option value do not compile together,
in either language, and the diagnostics name exactly the differing options. -/
theorem C17_different_rejected (lang : Lang) (o₁ o₂ : OptSet)
    (h₁ : Documented (Gen.domain lang) o₁) (h₂ : Documented (Gen.domain lang) o₂) (hne : o₁ ≠ o₂) :
    ∃ ds, together lang false (nameOf (Gen.domain lang)) o₁ o₂ = some ds ∧ ds ≠ [] ∧
      (∀ d ∈ ds, ∃ kv₂ ∈ o₂, ∃ v₁, o₁.lookup kv₂.1 = some v₁ ∧ v₁ ≠ kv₂.2 ∧
        d = .mismatch (nameOf (Gen.domain lang) kv₂.1)) ∧
      (∀ kv₂ ∈ o₂, ∀ v₁, o₁.lookup kv₂.1 = some v₁ → v₁ ≠ kv₂.2 →
        Diag.mismatch (nameOf (Gen.domain lang) kv₂.1) ∈ ds) := by
  have ha := C17_every_documented_option_always_present lang
  have hk : keys o₁ = keys o₂ := by
    rw [documented_keys_eq _ o₁ ha h₁, documented_keys_eq _ o₂ ha h₂]
  exact C17_different_rejected_same_keys lang o₁ o₂ h₁ h₂ hk hne

/-- T3, the property in one line: two documented option sets compile together iff they are identical. -/
theorem C17_compile_together_iff_identical (lang : Lang) (o₁ o₂ : OptSet)
    (h₁ : Documented (Gen.domain lang) o₁) (h₂ : Documented (Gen.domain lang) o₂) :
    together lang false (nameOf (Gen.domain lang)) o₁ o₂ = some [] ↔ o₁ = o₂ := by
  constructor
  · intro h
    apply Classical.byContradiction
    intro hne
    obtain ⟨ds, hds, hnil, _⟩ := C17_different_rejected lang o₁ o₂ h₁ h₂ hne
    rw [h] at hds
    exact hnil (Option.some.inj hds).symm
  · intro h
    subst h
    exact C17_identical_accepted lang o₁ h₁

/-- The built-in defaults of each language: documented option sets exist (hypotheses of T3 are satisfiable). -/
def defaultsOf (dom : List DocOpt) : OptSet :=
  dom.filterMap fun e => match e.always, e.values with
    | true, v :: _ => some (e.key, v)
    | _, _ => none

/-! ## 3'. translation units with several type headers -/

/-- A translation unit with any number of generated type headers — each generated with its own option set, in any
include order, one header possibly including another — passes iff *every* header on its own is accepted against the
support header: no header's check is waived because another header of the unit passed (or was seen first). -/
theorem C17_tu_accepted_iff_every_header (lang : Lang) (pod : Bool) (name : String → String) (o₁ : OptSet)
    (hs : List OptSet) :
    acceptedTU lang pod name o₁ hs = true ↔ ∀ o ∈ hs, together lang pod name o₁ o = some [] := by
  unfold acceptedTU
  induction hs with
  | nil => simp [togetherTU]
  | cons o r ih =>
    simp only [togetherTU, List.mem_cons, forall_eq_or_imp]
    cases h1 : together lang pod name o₁ o with
    | none =>
      constructor
      · intro h; simp at h
      · intro h; simp at h
    | some d =>
      cases h2 : togetherTU lang pod name o₁ r with
      | none =>
        simp only [h2] at ih
        constructor
        · intro h; simp at h
        · intro h; exact absurd (ih.mpr h.2) (by simp)
      | some ds =>
        simp only [h2] at ih
        simp only [List.all_cons, Bool.and_eq_true, Option.some.injEq]
        rw [ih, List.isEmpty_iff]

/-- For documented option sets: the unit compiles iff every type header was generated with exactly the support
header's option set — in particular a mismatching header is rejected wherever it stands in the include order. -/
theorem C17_tu_documented_accepted_iff_all_identical (lang : Lang) (o₁ : OptSet) (hs : List OptSet)
    (h₁ : Documented (Gen.domain lang) o₁) (h₂ : ∀ o ∈ hs, Documented (Gen.domain lang) o) :
    acceptedTU lang false (nameOf (Gen.domain lang)) o₁ hs = true ↔ ∀ o ∈ hs, o = o₁ := by
  rw [C17_tu_accepted_iff_every_header]
  constructor
  · intro h o ho
    exact ((C17_compile_together_iff_identical lang o₁ o h₁ (h₂ o ho)).mp (h o ho)).symm
  · intro h o ho
    exact (C17_compile_together_iff_identical lang o₁ o h₁ (h₂ o ho)).mpr (h o ho).symm

/-- The seeded scenario as a closed instance: first header matches the support header, a later one does not. -/
example :
    let o₁ := defaultsOf (Gen.domain .cpp)
    let o₂ := o₁.map fun kv => if kv.1 = "target_endianness" then (kv.1, OptVal.str "little") else kv
    togetherTU .cpp false (nameOf (Gen.domain .cpp)) o₁ [o₁, o₂]
      = some [[], [.mismatch (nameOf (Gen.domain .cpp) "target_endianness")]] ∧
    acceptedTU .cpp false (nameOf (Gen.domain .cpp)) o₁ [o₁, o₂] = false := by
  decide +kernel

/-! ## 4. CRC-32 -/

/-- The bitwise model meets the standard check value of CRC-32/ISO-HDLC (zlib, binascii). -/
theorem C17_crc32_check_value : crc32Str "123456789" = 0xCBF43926 := by decide +kernel

/-- The CRC of any string is a 32-bit number. -/
theorem C17_crc32_range (s : String) : crc32Str s < 2 ^ 32 := crc32Str_lt s

/-! ## examples: non-vacuity, the documented doctests of the filter, the defect before the fix -/

-- the three doctests of `filter_to_static_assertion_value`, and its `ValueError`
example : enc (.str "Any") = some 1556001108 ∧ enc (.int 123) = some 123 ∧ enc (.bool true) = some 1 ∧
    enc .other = none := by decide +kernel
example : crc32 [] = 0 ∧ crc32Str "é" = crc32 [0xC3, 0xA9] ∧ utf8 "€😀" = [0xE2, 0x82, 0xAC, 0xF0, 0x9F, 0x98, 0x80] := by
  decide +kernel

example : Documented (Gen.domain .c) (defaultsOf (Gen.domain .c)) := by decide +kernel
example : Documented (Gen.domain .cpp) (defaultsOf (Gen.domain .cpp)) := by decide +kernel
example : (defaultsOf (Gen.domain .cpp)).length = 14 ∧ 5 ≤ (defaultsOf (Gen.domain .c)).length := by decide +kernel

/-- A single-option difference: little-endian types against an `any` support header, C. -/
example :
    let o₁ := defaultsOf (Gen.domain .c)
    let o₂ := o₁.map fun kv => if kv.1 = "target_endianness" then (kv.1, OptVal.str "little") else kv
    Documented (Gen.domain .c) o₂ ∧
    together .c false (nameOf (Gen.domain .c)) o₁ o₂
      = some [.mismatch (nameOf (Gen.domain .c) "target_endianness")] := by
  decide +kernel

/-- A multi-option difference in C++ (`c++17-pmr` types against the default support header): one diagnostic per
differing option, in the order of the type header.  Names are taken from the generated table (`key | id` strops:
since repo commit ab91152 the key `std` is rendered `_std` on both sides). -/
example :
    let o₁ := defaultsOf (Gen.domain .cpp)
    let o₂ := o₁.map fun kv =>
      if kv.1 = "std" then (kv.1, OptVal.str "c++17")
      else if kv.1 = "std_flavor" then (kv.1, OptVal.str "pmr")
      else if kv.1 = "allocator_include" then (kv.1, OptVal.str "<memory_resource>")
      else kv
    Documented (Gen.domain .cpp) o₂ ∧
    together .cpp false (nameOf (Gen.domain .cpp)) o₁ o₂
      = some (["std", "std_flavor", "allocator_include"].map fun k => .mismatch (nameOf (Gen.domain .cpp) k)) := by
  decide +kernel

/-- A type header asserting a key the support header does not define. -/
example : together .c false id [("a", .bool true)] [("a", .bool true), ("b", .str "x")] = some [.undefined "b"] := by
  decide +kernel

/-- The C++ `uint32` storage (outside the documented domain): an int option ≥ 2^32 does not even compile against
itself, and two different ints can pass. -/
example : together .cpp false id [("n", .int 4294967301)] [("n", .int 4294967301)] = some [.mismatch "n"] ∧
    together .cpp false id [("n", .int 4294967301)] [("n", .int 5)] = some [] ∧
    together .c false id [("n", .int 4294967301)] [("n", .int 5)] = some [.mismatch "n"] := by decide +kernel

/-- Before the fix (`std` had no built-in default in the C language options: it existed only under
`--language-standard`).  The documented C domain as it was then: -/
def domainCBeforeFix : List DocOpt := [
  { key := "target_endianness", name := "NUNAVUT_SUPPORT_LANGUAGE_OPTION_TARGET_ENDIANNESS",
    values := [.str "any", .str "big", .str "little"], always := true, defined := true, asserted := true },
  { key := "omit_float_serialization_support", name := "NUNAVUT_SUPPORT_LANGUAGE_OPTION_OMIT_FLOAT_SERIALIZATION_SUPPORT",
    values := [.bool false, .bool true], always := true, defined := true, asserted := true },
  { key := "enable_serialization_asserts", name := "NUNAVUT_SUPPORT_LANGUAGE_OPTION_ENABLE_SERIALIZATION_ASSERTS",
    values := [.bool false, .bool true], always := true, defined := true, asserted := true },
  { key := "enable_override_variable_array_capacity",
    name := "NUNAVUT_SUPPORT_LANGUAGE_OPTION_ENABLE_OVERRIDE_VARIABLE_ARRAY_CAPACITY",
    values := [.bool false, .bool true], always := true, defined := true, asserted := true },
  { key := "cast_format", name := "NUNAVUT_SUPPORT_LANGUAGE_OPTION_CAST_FORMAT",
    values := [.str "(({type}) {value})", .str "static_cast<{type}>({value})"],
    always := true, defined := true, asserted := true },
  { key := "std", name := "NUNAVUT_SUPPORT_LANGUAGE_OPTION_STD",
    values := [.str "c11", .str "c++14", .str "cetl++14-17", .str "c++17", .str "c++17-pmr", .str "c++20"],
    always := false, defined := true, asserted := true }]

/-- The negation of the property on the old domain: `nnvg -std c11` for the support header, no `-std` for the type
headers — two documented option sets that differ (in `std`) and compile together. -/
example :
    let o₂ := defaultsOf domainCBeforeFix
    let o₁ := o₂ ++ [("std", OptVal.str "c11")]
    Documented domainCBeforeFix o₁ ∧ Documented domainCBeforeFix o₂ ∧ o₁ ≠ o₂ ∧
    together .c false (nameOf domainCBeforeFix) o₁ o₂ = some [] := by
  decide +kernel

end NunavutVerif.Options
