import NunavutVerif.Lemmas.PyObj
namespace NunavutVerif.PyObj
end NunavutVerif.PyObj
