import NunavutVerif.Lemmas.PyObj
import NunavutVerif.Lemmas.PyReflect
/-!
# C18 — generated Python data objects validate, reflect and convert faithfully

Property theorems only (definitions: `Model/PyObj.lean`, helper lemmas: `Lemmas/PyObj.lean`).
Quantifiers: all field types, all candidate values of the modelled Python universe `Py`, every lawful NumPy oracle
`np` (`NumPy`: what `numpy.array(x, dtype).flatten()` returns fits the dtype; built-in lists of in-dtype scalars and
same-dtype arrays convert to themselves), all constructor argument lists, all assignment sequences, all well-typed
objects.  The concrete oracle run by the driver is the lawful `numpy` (Lemmas).

Statement 3 of the property (`_MODEL_` equals the source model): the logic of Nunavut — which model object is handed
to which class template, that a run writes every output whatever the directory holds, the package aliases — is
modelled in `Model/PyReflect.lean` and proved in section 3b; `pickle`/`gzip`/`base85` of the Python runtime enter as
an abstract codec with `dec (enc m) = some m` and are tied by executing the generated modules.
-/
namespace NunavutVerif.PyObj

/-! ## 1. a setter raises or stores a value of the field's type -/

/-- T1 (every field type, every candidate): if the setter returns, what it stored is — for a scalar — in the DSDL
range of the field (`float`: in range, or infinite/NaN, or any value at 64 bit); for an array an ndarray of the
element dtype whose length is `== capacity` (fixed) / `<= capacity` (variable) and whose elements fit the dtype;
for a composite an instance of exactly the field's class.  (`ndOK`: a candidate ndarray holds what its dtype can
hold.)  Otherwise it raised (`ValueError`, `TypeError`, `OverflowError` as coded). -/
theorem C18_setter_stores_value_of_field_type (np : NumPy) (t : Ty) (x v : Py) (hnd : ndOK x = true)
    (h : setField np.array t x = .ok v) : stored t v = true := by
  cases t with
  | bool => obtain ⟨b, rfl⟩ := setField_bool_ok _ _ _ h; rfl
  | int s w c =>
    obtain ⟨i, _, rfl, h1, h2⟩ := setField_int_ok _ _ _ _ _ _ h
    simp [stored, hasTy, h1, h2]
  | float w c =>
    obtain ⟨f, _, rfl, hf⟩ := setField_float_ok _ _ _ _ _ h
    simpa [stored, hasTy] using hf
  | arr fixed cap e =>
    obtain ⟨xs, rfl, hl, hall⟩ := assignArray_stored np fixed cap e x v hnd h
    simp only [stored, hl, decide_true, Bool.true_and, List.all_eq_true]
    exact hall
  | comp cls u fs =>
    obtain ⟨slots, rfl, rfl⟩ := setField_comp_ok _ _ _ _ _ _ h
    simp [stored]

/-
Full statement of the property's first clause (NOT a theorem of the unchanged code — see the witnesses below):
  ∀ np t x v, ndOK x → instances inside x are well-typed → setField np.array t x = .ok v → hasTy true t v
i.e. every array element is also in the *DSDL* range of its element type and every element of a composite array is an
instance of the element class.  The emitted code checks neither (known finding `py-array-elements-not-range-checked`).
Proved below for the field types where the dtype range equals the DSDL range (`fullyChecked`).
-/

/-- T1, DSDL-level well-typedness, for every field type except arrays of integers narrower than their numpy dtype and
arrays of composites (`fullyChecked`, decidable).  `hobj`: the candidate, if it is an instance of the field's class,
is itself a well-typed instance (the heap invariant the constructors and setters maintain). -/
theorem C18_setter_sound_partial (np : NumPy) (t : Ty) (x v : Py) (hck : fullyChecked t = true)
    (hnd : ndOK x = true)
    (hobj : ∀ cls u fs slots, t = .comp cls u fs → x = .obj cls slots → hasTy true t x = true)
    (h : setField np.array t x = .ok v) : hasTy true t v = true := by
  cases t with
  | bool => obtain ⟨b, rfl⟩ := setField_bool_ok _ _ _ h; rfl
  | int s w c =>
    obtain ⟨i, _, rfl, h1, h2⟩ := setField_int_ok _ _ _ _ _ _ h
    simp [hasTy, h1, h2]
  | float w c =>
    obtain ⟨f, _, rfl, hf⟩ := setField_float_ok _ _ _ _ _ h
    simpa [hasTy] using hf
  | comp cls u fs =>
    obtain ⟨slots, rfl, rfl⟩ := setField_comp_ok _ _ _ _ _ _ h
    exact hobj cls u fs slots rfl rfl
  | arr fixed cap e =>
    obtain ⟨xs, rfl, hl, hall⟩ := assignArray_stored np fixed cap e x v hnd h
    have hall' : xs.all (inDT (dtypeOf e)) = true := List.all_eq_true.2 hall
    cases e with
    | bool => simp [hasTy, hl, hall', primNonInt]
    | float w c => simp [hasTy, hl, hall', primNonInt]
    | int s w c =>
      have hw : pickWidth w = w := by simp [fullyChecked] at hck; exact hck.symm
      have : xs.all (hasTy true (.int s w c)) = true :=
        List.all_eq_true.2 (fun y hy => inDT_hasTy_int s w c y hw (hall y hy))
      simp [hasTy, hl, hall', this]
    | arr _ _ _ => simp [fullyChecked] at hck
    | comp _ _ _ => simp [fullyChecked] at hck

/-- Witness that the full statement fails on the unchanged code: `uint7[<=4] v`, `obj.v = [200]` stores 200
(replayed on the generated class by the harness). -/
example : setField npArray (.arr false 4 (.int false 7 false)) (.list [.int 200])
      = .ok (.nd (.u 8) [.int 200])
    ∧ hasTy true (.arr false 4 (.int false 7 false)) (.nd (.u 8) [.int 200]) = false := by
  constructor <;> rfl

/-- … `numpy.array([300])` (int64) offered to `uint8[<=4]` is wrapped to 44 and stored. -/
example : setField npArray (.arr false 4 (.int false 8 false)) (.nd (.i 64) [.int 300])
      = .ok (.nd (.u 8) [.int 44]) := by rfl

set_option maxRecDepth 100000 in
/-- … `[1e39]` offered to `float32[<=3]` is stored as `[inf]` (1e39 = 5^39 · 2^39). -/
example : setField npArray (.arr false 3 (.float 32 false)) (.list [.float (.fin false (5 ^ 39 * 2 ^ 39 * one))])
      = .ok (.nd (.f 32) [.float (.inf false)]) := by rfl

/-- … an array of composites accepts anything (`obj.vin = [1]`). -/
example : setField npArray (.arr false 2 (.comp 7 false [])) (.list [.int 1]) = .ok (.nd .obj [.int 1]) := by rfl

/-- The excluded region of `C18_setter_sound_partial` is exact: for **every** field type outside `fullyChecked` (of a
shape DSDL admits, capacity ≥ 1) there is a candidate — a full-length ndarray of the element dtype holding `max + 1`
of the narrower DSDL integer type, resp. integers in an array of composites — that the setter stores although it is not
a value of the field's type.  No oracle is involved (the zero-copy binding). -/
theorem C18_setter_unsound_outside_fullyChecked (np : Oracle) (t : Ty) (hw : wf t = true)
    (hcap : ∀ fixed cap e, t = .arr fixed cap e → 1 ≤ cap) (hck : fullyChecked t = false) :
    ndOK (unsoundWitness t) = true ∧ setField np t (unsoundWitness t) = .ok (unsoundWitness t)
      ∧ hasTy true t (unsoundWitness t) = false := by
  cases t with
  | bool => simp [fullyChecked] at hck
  | int s w c => simp [fullyChecked] at hck
  | float w c => simp [fullyChecked] at hck
  | comp cls u fs => simp [fullyChecked] at hck
  | arr fixed cap e =>
    have hc := hcap fixed cap e rfl
    obtain ⟨n, rfl⟩ : ∃ n, cap = n + 1 := ⟨cap - 1, by omega⟩
    cases e with
    | bool => simp [fullyChecked] at hck
    | float w c => simp [fullyChecked] at hck
    | arr f2 c2 e2 => simp [wf, isArr] at hw
    | int s w c =>
      simp only [fullyChecked, decide_eq_false_iff_not] at hck
      simp only [wf, isArr, Bool.not_false, Bool.true_and, Bool.and_eq_true, decide_eq_true_eq] at hw
      have hlt : w < pickWidth w := by have := le_pickWidth w hw.2; omega
      have hin := inDT_hi_succ s w c hw.1 hlt
      have hbad : hasTy true (.int s w c) (.int (intHi s w + 1)) = false := by
        simp only [hasTy, Bool.and_eq_false_iff, decide_eq_false_iff_not]; right; omega
      refine ⟨?_, ?_, ?_⟩
      · simp [unsoundWitness, ndOK, List.replicate_succ, hin]
      · simpa [unsoundWitness, setField] using
          assignArray_nd_same np fixed (n + 1) (.int s w c) (List.replicate (n + 1) (.int (intHi s w + 1)))
            (by rw [List.length_replicate]; exact lenOK_self _ _)
      · have hall : (List.replicate (n + 1) (Py.int (intHi s w + 1))).all (hasTy true (.int s w c)) = false := by
          simp [List.replicate_succ, hbad]
        simp only [unsoundWitness, hasTy, primNonInt, isInt, hall, Bool.not_true, Bool.and_false, Bool.or_false,
          Bool.and_false]
    | comp cls u fs =>
      refine ⟨?_, ?_, ?_⟩
      · simp [unsoundWitness, ndOK, dtypeOf, inDT]
      · simpa [unsoundWitness, setField] using
          assignArray_nd_same np fixed (n + 1) (.comp cls u fs) (List.replicate (n + 1) (.int 1))
            (by rw [List.length_replicate]; exact lenOK_self _ _)
      · simp [unsoundWitness, hasTy, primNonInt, isInt, List.replicate_succ]

/-- T1 restated as tightly as the unchanged code allows: the setter of a field type establishes full DSDL
well-typedness for every candidate **iff** the type is `fullyChecked` — i.e. the failure region is exactly "array of
integers narrower than their numpy dtype, or array of composites" (known finding `py-array-elements-not-range-checked`). -/
theorem C18_setter_sound_iff_fullyChecked (np : NumPy) (t : Ty) (hw : wf t = true)
    (hcap : ∀ fixed cap e, t = .arr fixed cap e → 1 ≤ cap) :
    (∀ x v, ndOK x = true →
        (∀ cls u fs slots, t = .comp cls u fs → x = .obj cls slots → hasTy true t x = true) →
        setField np.array t x = .ok v → hasTy true t v = true)
      ↔ fullyChecked t = true := by
  constructor
  · intro h
    cases hck : fullyChecked t with
    | true => rfl
    | false =>
      obtain ⟨h1, h2, h3⟩ := C18_setter_unsound_outside_fullyChecked np.array t hw hcap hck
      have := h (unsoundWitness t) (unsoundWitness t) h1
        (fun cls u fs slots ht => by subst ht; simp [fullyChecked] at hck) h2
      rw [h3] at this; exact absurd this (by decide)
  · intro hck x v hnd hobj h
    exact C18_setter_sound_partial np t x v hck hnd hobj h

/-- Non-vacuity of the three statements above on `uint7[<=4]` and on an array of composites. -/
example : fullyChecked (.arr false 4 (.int false 7 false)) = false
    ∧ unsoundWitness (.arr false 2 (.int false 7 false)) = .nd (.u 8) [.int 128, .int 128]
    ∧ setField npArray (.arr false 4 (.int false 7 false)) (.list [.int 127, .int 0]) = .ok (.nd (.u 8) [.int 127, .int 0])
    ∧ unsoundWitness (.arr true 1 (.comp 3 false [.bool])) = .nd .obj [.int 1] := by
  refine ⟨rfl, rfl, rfl, rfl⟩

/-! ### composite fields: exactly the declared class -/

/-- A composite-typed field accepts an instance of a generated class **iff** that class is the declared one — same
namespace, same short name, same major **and** minor version; every other class of the run (another minor or major
version, a namesake from another namespace, a structurally identical definition) raises `ValueError`. -/
theorem C18_composite_setter_accepts_exactly_declared_class (np : Oracle) (tbl : List ClsKey) (decl cand : ClsKey)
    (union : Bool) (fs : List Ty) (slots : List Py) (hd : decl ∈ tbl) :
    (cand = decl → setField np (.comp (clsOf tbl decl) union fs) (.obj (clsOf tbl cand) slots)
        = .ok (.obj (clsOf tbl decl) slots))
    ∧ (cand ≠ decl → setField np (.comp (clsOf tbl decl) union fs) (.obj (clsOf tbl cand) slots) = .error .value) := by
  constructor
  · rintro rfl; simp [setField, pure, Except.pure]
  · intro hne
    have : clsOf tbl cand ≠ clsOf tbl decl := fun h => hne (idxOf_inj tbl decl cand hd h.symm).symm
    simp [setField, this, throw, throwThe, MonadExceptOf.throw]

/-- … in particular an instance created through the package alias `Name_M` (the newest minor version,
`C18_alias_is_newest_minor`) is accepted by a field declared as `Name.M.m` iff `m` is that newest minor: a field
declared with an OLDER minor version rejects it.  (`hfree`: no class of the package is itself called `Name_M`.) -/
theorem C18_alias_instance_accepted_iff_declared_is_newest (np : Oracle) (tbl : List ClsKey) (decl : ClsKey)
    (union : Bool) (fs : List Ty) (slots : List Py) (hd : decl ∈ tbl)
    (hfree : ∀ k ∈ tbl, k.ns = decl.ns → keyRef k ≠ aliasName decl.name decl.major) :
    (∃ v, setViaAlias np tbl decl union fs decl.ns decl.name decl.major slots = .ok v)
      ↔ newestMinor ((tbl.filter (fun k => k.ns = decl.ns)).map keyTyId) decl.name decl.major = some decl.minor := by
  have hnone : (tbl.filter (fun k => k.ns = decl.ns)).find? (fun k => keyRef k = aliasName decl.name decl.major) = none := by
    rw [List.find?_eq_none]
    intro k hk
    obtain ⟨hkt, hkn⟩ := List.mem_filter.1 hk
    simp only [decide_eq_true_eq] at hkn
    simpa using hfree k hkt hkn
  simp only [setViaAlias, hnone]
  cases hk : newestMinor ((tbl.filter (fun k => k.ns = decl.ns)).map keyTyId) decl.name decl.major with
  | none => simp
  | some k =>
    have hacc := C18_composite_setter_accepts_exactly_declared_class np tbl decl
      ⟨decl.ns, decl.name, decl.major, k⟩ union fs slots hd
    simp only [Option.some.injEq]
    constructor
    · rintro ⟨v, hv⟩
      by_cases hkm : k = decl.minor
      · exact hkm
      · have hne : (⟨decl.ns, decl.name, decl.major, k⟩ : ClsKey) ≠ decl := by
          intro h; exact hkm (by rw [← h])
        rw [hacc.2 hne] at hv; simp at hv
    · rintro rfl
      exact ⟨_, hacc.1 rfl⟩

/-- Non-vacuity (`Point.1.0`, `Point.1.1`, `other.Point.1.0`): a field declared `geo.Point.1.0` rejects an instance of
`geo.Point_1` (= `Point_1_1`), of `Point_1_1`, of `other.Point_1_0`; a field declared `geo.Point.1.1` accepts the alias. -/
example :
    let tbl : List ClsKey := [⟨["v", "geo"], "Point", 1, 0⟩, ⟨["v", "geo"], "Point", 1, 1⟩, ⟨["v", "other"], "Point", 1, 0⟩]
    setViaAlias npArray tbl ⟨["v", "geo"], "Point", 1, 0⟩ false [.bool] ["v", "geo"] "Point" 1 [.bool true] = .error .value
    ∧ setViaAlias npArray tbl ⟨["v", "geo"], "Point", 1, 1⟩ false [.bool] ["v", "geo"] "Point" 1 [.bool true]
        = .ok (.obj 1 [.bool true])
    ∧ setField npArray (.comp (clsOf tbl ⟨["v", "geo"], "Point", 1, 0⟩) false [.bool])
        (.obj (clsOf tbl ⟨["v", "other"], "Point", 1, 0⟩) [.bool true]) = .error .value
    ∧ setViaAlias npArray tbl ⟨["v", "geo"], "Point", 1, 0⟩ false [.bool] ["v", "geo"] "Nope" 1 [] = .error .other := by
  refine ⟨?_, ?_, ?_, ?_⟩ <;> rfl

/-- `A.1.2` next to `A_1.2.0` (corpus `alias.json`): `pn.A_1_2` is the class of `A.1.2`, so a field declared
`A_1.2.0` rejects `pn.A_1_2()` and a field declared `A.1.2` accepts it. -/
example :
    let tbl : List ClsKey := [⟨["pn"], "A", 1, 2⟩, ⟨["pn"], "A_1", 2, 0⟩]
    setViaAlias npArray tbl ⟨["pn"], "A_1", 2, 0⟩ false [] ["pn"] "A_1" 2 [] = .error .value
    ∧ setViaAlias npArray tbl ⟨["pn"], "A", 1, 2⟩ false [] ["pn"] "A_1" 2 [] = .ok (.obj 0 [])
    ∧ setViaAlias npArray tbl ⟨["pn"], "A", 1, 2⟩ false [] ["pn"] "A" 1 [] = .ok (.obj 0 []) := by
  refine ⟨?_, ?_, ?_⟩ <;> rfl

/-! ### out-of-range and wrong-length candidates raise `ValueError` (and exactly which ones do not) -/

/-- An `int` outside the field's inclusive range raises `ValueError` — for saturated and truncated fields alike
(the cast mode `c` is not consulted), for every width and signedness. -/
theorem C18_int_out_of_range_raises_ValueError (np : Oracle) (s : Bool) (w : Nat) (c : Bool) (i : Int)
    (h : ¬ (intLo s w ≤ i ∧ i ≤ intHi s w)) : setField np (.int s w c) (.int i) = .error .value := by
  simp [setField, pyInt, bind, Except.bind, h, throw, throwThe, MonadExceptOf.throw]

/-- A finite `float` beyond `±max` of a float16/float32 field raises `ValueError`, whatever the cast mode. -/
theorem C18_float_out_of_range_raises_ValueError (np : Oracle) (w : Nat) (c neg : Bool) (a : Nat)
    (hw : w < 64) (h : fmax w < a) : setField np (.float w c) (.float (.fin neg a)) = .error .value := by
  have h1 : ¬ (64 ≤ w) := by omega
  have h2 : ¬ (a ≤ fmax w) := by omega
  simp [setField, pyFloat, bind, Except.bind, floatOK, h1, h2, throw, throwThe, MonadExceptOf.throw]

/-- What the float setter does *not* reject: infinities and NaN at every width, and every float at 64 bit
(there the range of the field is the range of a Python float). -/
theorem C18_float_unchecked_cases (np : Oracle) (w : Nat) (c : Bool) (f : F)
    (h : 64 ≤ w ∨ f = .nan ∨ ∃ n, f = .inf n) : setField np (.float w c) (.float f) = .ok (.float f) := by
  have : floatOK w f = true := by
    rcases h with h | h | ⟨n, h⟩
    · simp [floatOK, h]
    · subst h; simp [floatOK]
    · subst h; simp [floatOK]
  simp [setField, pyFloat, bind, Except.bind, this, pure, Except.pure]

/-- Values that are out of range but do not raise `ValueError`: the exception comes from `int()`/`float()`
(known finding `py-out-of-range-raises-overflowerror`; nothing is stored). -/
example : setField npArray (.int false 7 false) (.float (.inf false)) = .error .overflow
    ∧ setField npArray (.arr false 4 (.int false 8 false)) (.list [.int 256]) = .error .overflow := by
  constructor <;> rfl

/-- A `bytes`/`bytearray` (or, for string-like arrays, `str`) source of a forbidden length raises `ValueError`
(repaired code: `fix: generated Python setters reject over-long bytes …`). -/
theorem C18_bytes_wrong_length_raises_ValueError (np : Oracle) (fixed : Bool) (cap : Nat) (e : Ty) (m : Bool)
    (bs : List Nat) (hb : byteLike e = true) (hl : lenOK fixed cap bs.length = false) :
    setField np (.arr fixed cap e) (.bytes m bs) = .error .value
    ∧ (strLike fixed e = true → setField np (.arr fixed cap e) (.str bs) = .error .value) := by
  constructor
  · have henc : encodeStr fixed e (.bytes m bs) = .bytes m bs := by unfold encodeStr; split <;> rfl
    simp [setField, assignArray, assignCore, henc, hb, hl, throw, throwThe, MonadExceptOf.throw]
  · intro hs
    have henc : encodeStr fixed e (.str bs) = .bytes false bs := by simp [encodeStr, hs]
    simp [setField, assignArray, assignCore, henc, hb, hl, throw, throwThe, MonadExceptOf.throw]

/-- Regression witness for the code before the fix: `uint8[<=4] v`, `obj.v = b"00007"` (5 bytes) stored `[7]`
because `numpy.array(b"00007", uint8)` parses the buffer as a decimal literal; `b"12345"` raised `OverflowError`. -/
example : assignArrayBeforeFix npArray false 4 (.int false 8 false) (.bytes false [48, 48, 48, 48, 55])
      = .ok (.nd (.u 8) [.int 7])
    ∧ assignArrayBeforeFix npArray false 4 (.int false 8 false) (.bytes false [49, 50, 51, 52, 53]) = .error .overflow
    ∧ assignArray npArray false 4 (.int false 8 false) (.bytes false [48, 48, 48, 48, 55]) = .error .value := by
  refine ⟨?_, ?_, ?_⟩ <;> rfl

/-- A list of Python scalars that are values of the element dtype (or generated objects for a composite array), and
an ndarray of the element dtype, raise `ValueError` when their length is not `== capacity` / `<= capacity`. -/
theorem C18_sequence_wrong_length_raises_ValueError (np : NumPy) (fixed : Bool) (cap : Nat) (e : Ty) (xs : List Py)
    (hall : ∀ y ∈ xs, inDT (dtypeOf e) y = true ∧ (dtypeOf e = .obj → isObj y = true))
    (hl : lenOK fixed cap xs.length = false) :
    setField np.array (.arr fixed cap e) (.list xs) = .error .value
    ∧ setField np.array (.arr fixed cap e) (.nd (dtypeOf e) xs) = .error .value := by
  have hslow1 : slowPath np.array fixed cap (dtypeOf e) (.list xs) = .error .value := by
    simp [slowPath, np.builtin _ xs hall, bind, Except.bind, hl, throw, throwThe, MonadExceptOf.throw]
  have hslow2 : slowPath np.array fixed cap (dtypeOf e) (.nd (dtypeOf e) xs) = .error .value := by
    simp [slowPath, np.same _ xs (fun y hy => (hall y hy).1), bind, Except.bind, hl, throw, throwThe,
      MonadExceptOf.throw]
  constructor
  · have henc : encodeStr fixed e (.list xs) = .list xs := by unfold encodeStr; split <;> rfl
    simp only [setField, assignArray, assignCore, henc]
    split <;> simpa [fastPath] using hslow1
  · have henc : encodeStr fixed e (.nd (dtypeOf e) xs) = .nd (dtypeOf e) xs := by unfold encodeStr; split <;> rfl
    simp only [setField, assignArray, assignCore, henc]
    split <;> simpa [fastPath, hl] using hslow2

/-- Inside the excluded region the setter is still sound for the candidates the property talks about: a list whose
elements are values of the element type (integers in the *DSDL* range, well-typed instances of the element class)
is stored as exactly those elements, or rejected for its length — whatever lawful oracle `numpy.array` is. -/
theorem C18_setter_sound_on_well_typed_elements (np : NumPy) (fixed : Bool) (cap : Nat) (e : Ty) (xs : List Py) (v : Py)
    (hw : wf (.arr fixed cap e) = true) (he : isInt e = true ∨ isComp e = true)
    (hall : ∀ y ∈ xs, hasTy true e y = true)
    (h : setField np.array (.arr fixed cap e) (.list xs) = .ok v) :
    v = .nd (dtypeOf e) xs ∧ hasTy true (.arr fixed cap e) v = true := by
  have hin : ∀ y ∈ xs, inDT (dtypeOf e) y = true ∧ (dtypeOf e = .obj → isObj y = true) := by
    intro y hy
    have hty := hall y hy
    cases e with
    | int s w c =>
      simp only [wf, isArr, Bool.not_false, Bool.true_and, Bool.and_eq_true, decide_eq_true_eq] at hw
      exact ⟨hasTy_int_inDT s w c y hw.2 hty, fun hd => by cases s <;> simp [dtypeOf] at hd⟩
    | comp cls u fs =>
      refine ⟨by simp [dtypeOf, inDT], fun _ => ?_⟩
      cases y <;> simp_all [hasTy, isObj]
    | bool => simp [isInt, isComp] at he
    | float w c => simp [isInt, isComp] at he
    | arr a b c => simp [isInt, isComp] at he
  cases hl : lenOK fixed cap xs.length with
  | false =>
    have := (C18_sequence_wrong_length_raises_ValueError np fixed cap e xs hin hl).1
    rw [this] at h; simp at h
  | true =>
    have hst := assignArray_list np fixed cap e xs hin hl
    simp only [setField] at h
    rw [hst] at h
    have hv : v = .nd (dtypeOf e) xs := by simpa using h.symm
    subst hv
    refine ⟨rfl, ?_⟩
    simp only [hasTy, decide_true, Bool.true_and, hl, Bool.and_eq_true, Bool.or_eq_true]
    exact ⟨List.all_eq_true.2 (fun y hy => (hin y hy).1), Or.inr (List.all_eq_true.2 hall)⟩

/-! ### constructors -/

/-- The structure constructor returns only objects all of whose fields satisfy T1 (an absent/`None` argument stores
the field's default); the class is the constructed one. -/
theorem C18_struct_ctor_sound (np : NumPy) (cls : Nat) (fs : List Ty) (args : List Py) (o : Py)
    (hnd : ∀ a ∈ args, ndOK a = true)
    (h : construct np.array (.comp cls false fs) args = .ok o) :
    ∃ slots, o = .obj cls slots ∧ storedS fs slots = true := by
  have key : ∀ (fs : List Ty) (args slots : List Py), (∀ a ∈ args, ndOK a = true) →
      ctorStruct np.array fs args = .ok slots → storedS fs slots = true := by
    intro fs
    induction fs with
    | nil => intro args slots _ h; simp [ctorStruct, pure, Except.pure] at h; subst h; rfl
    | cons f fs ih =>
      intro args slots hnd h
      simp only [ctorStruct] at h
      cases hv : setField np.array f (if isNone (args.headD Py.none) = true then defaultVal f else args.headD Py.none) with
      | error _ => rw [hv] at h; simp [bind, Except.bind] at h
      | ok v =>
        rw [hv] at h
        cases hr : ctorStruct np.array fs args.tail with
        | error _ => rw [hr] at h; simp [bind, Except.bind] at h
        | ok rest =>
          rw [hr] at h
          simp [bind, Except.bind, pure, Except.pure] at h
          subst h
          have hndv : ndOK (if isNone (args.headD Py.none) = true then defaultVal f else args.headD Py.none) = true := by
            split
            · exact ndOK_default f
            · cases args with
              | nil => rfl
              | cons a as => exact hnd a List.mem_cons_self
          have h1 := C18_setter_stores_value_of_field_type np f _ v hndv hv
          have h2 := ih args.tail rest (fun a ha => hnd a (List.mem_of_mem_tail ha)) hr
          simp [storedS, h1, h2]
  simp only [construct] at h
  cases hs : ctorStruct np.array fs args with
  | error _ => rw [hs] at h; simp [Except.map] at h
  | ok slots =>
    rw [hs] at h; simp [Except.map] at h
    exact ⟨slots, h.symm, key fs args slots hnd hs⟩

/-! ## 2. a union always holds exactly one option -/

/-- Every union constructor call that returns yields an object with exactly one option that is not `None`
(whatever the arguments, the option types and the oracle). -/
theorem C18_union_ctor_one_option (np : Oracle) (cls : Nat) (fs : List Ty) (args : List Py) (o : Py)
    (h : construct np (.comp cls true fs) args = .ok o) :
    ∃ slots, o = .obj cls slots ∧ slots.length = fs.length ∧ countSome slots = 1 := by
  simp only [construct] at h
  cases hl : ctorUnionLoop np fs args 0 (fs.map (fun _ => Py.none), 0) with
  | error _ => rw [hl] at h; simp [bind, Except.bind] at h
  | ok st =>
    obtain ⟨slots, cnt⟩ := st
    rw [hl] at h
    obtain ⟨h1, _, _, h4⟩ := ctorUnionLoop_inv np fs args 0 _ 0 slots cnt (by simp) hl
    simp only [bind, Except.bind] at h
    split at h
    · -- no argument: default-initialise the first option
      cases fs with
      | nil => simp [throw, throwThe, MonadExceptOf.throw] at h
      | cons f0 rest =>
        simp only at h
        cases hv : setField np f0 (defaultVal f0) with
        | error _ => rw [hv] at h; simp at h
        | ok v =>
          rw [hv] at h; simp [pure, Except.pure] at h
          refine ⟨_, h.symm, ?_, ?_⟩
          · rw [length_oneHot, h1]; simp
          · exact countSome_oneHot slots 0 v (by rw [h1]; simp) (setField_not_none np f0 _ v hv)
    · split at h
      · rename_i _ hc
        simp [pure, Except.pure] at h
        exact ⟨slots, h.symm, by rw [h1]; simp, h4 (by omega)⟩
      · simp [throw, throwThe, MonadExceptOf.throw] at h

/-- A union constructor call with two or more options given never returns an object. -/
theorem C18_union_ctor_two_options_raises (np : Oracle) (cls : Nat) (fs : List Ty) (args : List Py)
    (h2 : 2 ≤ givenArgs fs.length args) : ∀ o, construct np (.comp cls true fs) args ≠ .ok o := by
  intro o h
  simp only [construct] at h
  cases hl : ctorUnionLoop np fs args 0 (fs.map (fun _ => Py.none), 0) with
  | error _ => rw [hl] at h; simp [bind, Except.bind] at h
  | ok st =>
    obtain ⟨slots, cnt⟩ := st
    rw [hl] at h
    obtain ⟨_, hc, _, _⟩ := ctorUnionLoop_inv np fs args 0 _ 0 slots cnt (by simp) hl
    simp only [bind, Except.bind] at h
    split at h
    · omega
    · split at h
      · omega
      · simp [throw, throwThe, MonadExceptOf.throw] at h

set_option maxRecDepth 100000 in
/-- … and when every setter involved accepts its value the exception is the `ValueError` of `_init_cnt_ > 1`
(otherwise it is the exception of the first failing setter, in field order). -/
example : construct npArray (.comp 1 true [.int false 7 false, .float 32 false]) [.int 1, .int 2] = .error .value
    ∧ construct npArray (.comp 1 true [.int false 7 false, .float 32 false]) [.none, .str [120]] = .error .value
    ∧ construct npArray (.comp 1 true [.int false 7 false, .float 32 false]) [.none, .list []] = .error .type := by
  refine ⟨?_, ?_, ?_⟩ <;> rfl

/-- `C()` selects and default-initialises the first option. -/
theorem C18_union_ctor_default_first_option (np : Oracle) (cls : Nat) (f0 : Ty) (rest : List Ty) (args : List Py)
    (h0 : givenArgs (f0 :: rest).length args = 0) :
    construct np (.comp cls true (f0 :: rest)) args = .ok (defaultVal (.comp cls true (f0 :: rest))) := by
  have loop : ∀ (fs : List Ty) (args : List Py) (i : Nat) (st : List Py × Nat),
      givenArgs fs.length args = 0 → ctorUnionLoop np fs args i st = .ok st := by
    intro fs
    induction fs with
    | nil => intro args i st _; rfl
    | cons f fs ih =>
      intro args i st hg
      obtain ⟨slots, cnt⟩ := st
      have hg' : (if isNone (args.headD Py.none) = true then 0 else 1) + givenArgs fs.length args.tail = 0 := hg
      have hn : isNone (args.headD Py.none) = true := by
        cases hh : isNone (args.headD Py.none) with
        | true => rfl
        | false => rw [hh] at hg'; simp at hg'
      have hrest : givenArgs fs.length args.tail = 0 := by omega
      simp only [ctorUnionLoop, hn, if_true]
      exact ih args.tail (i + 1) (slots, cnt) hrest
  simp only [construct, loop (f0 :: rest) args 0 _ h0, bind, Except.bind, setField_default, if_true]
  simp [pure, Except.pure, defaultVal, defaultU, oneHot]

/-- A union setter that returns leaves exactly the assigned option selected. -/
theorem C18_union_setter_one_option (np : Oracle) (cls : Nat) (fs : List Ty) (i : Nat) (x : Py) (c : Nat)
    (slots : List Py) (o' : Py) (h : objSet np (.comp cls true fs) i x (.obj c slots) = .ok o') :
    ∃ slots', o' = .obj c slots' ∧ slots'.length = slots.length ∧ countSome slots' = 1 := by
  simp only [objSet] at h
  split at h
  · simp at h
  · rename_i f _
    cases hv : setField np f x with
    | error _ => rw [hv] at h; simp [bind, Except.bind] at h
    | ok v =>
      rw [hv] at h
      simp only [bind, Except.bind] at h
      split at h
      · rename_i hi
        simp [pure, Except.pure] at h
        exact ⟨_, h.symm, length_oneHot _ _ _, countSome_oneHot slots i v hi (setField_not_none np f x v hv)⟩
      · simp [throw, throwThe, MonadExceptOf.throw] at h

/-- T2, the invariant: after a constructor call that returns, and after every further assignment — accepted or
raising, in any number and order, with any candidate values — the union holds exactly one option. -/
theorem C18_union_invariant (np : Oracle) (cls : Nat) (fs : List Ty) (args : List Py) (o : Py)
    (ops : List (Nat × Py)) (h : construct np (.comp cls true fs) args = .ok o) :
    ∃ slots, runOps np (.comp cls true fs) o ops = .obj cls slots ∧ slots.length = fs.length ∧ countSome slots = 1 := by
  obtain ⟨slots, rfl, hlen, hone⟩ := C18_union_ctor_one_option np cls fs args o h
  clear h
  induction ops generalizing slots with
  | nil => exact ⟨slots, rfl, hlen, hone⟩
  | cons op ops ih =>
    obtain ⟨i, x⟩ := op
    simp only [runOps]
    cases hs : objSet np (.comp cls true fs) i x (.obj cls slots) with
    | error _ => exact ih slots hlen hone
    | ok o' =>
      obtain ⟨slots', rfl, hl', h1'⟩ := C18_union_setter_one_option np cls fs i x cls slots o' hs
      exact ih slots' (by rw [hl', hlen]) h1'

/-- Non-vacuity: a union with an array and a composite option; construct with the array option, assign an
out-of-range value (raises, state kept), the composite option, then the first option. -/
example :
    let U := Ty.comp 5 true [.int false 7 false, .arr false 3 (.int false 8 false), .comp 2 false [.bool]]
    construct npArray U [.none, .bytes false [97, 98]] = .ok (.obj 5 [.none, .nd (.u 8) [.int 97, .int 98], .none])
    ∧ runOps npArray U (.obj 5 [.none, .nd (.u 8) [.int 97, .int 98], .none])
        [(0, .int 200), (2, .obj 2 [.bool true]), (2, .int 3), (0, .int 5)] = .obj 5 [.int 5, .none, .none] := by
  constructor <;> rfl

/-! ## 4. `update_from_builtin(C(), to_builtin(o))` reproduces `o` -/

/-- T3: for every composite type `t` of a shape DSDL admits (`wf`) and every well-typed object `o` of it
(`hasTy false`: scalars in range, arrays of the element dtype within capacity, exactly-one-option unions, nested
instances well-typed — array elements need only fit the numpy dtype, so objects holding unchecked narrow-integer
elements are included), `to_builtin` succeeds and `update_from_builtin` applied to **any** well-typed destination
`d` of the same type — in particular a fresh `C()` — returns an object equal to `o` field by field, dtype by dtype
(hence with the same serialization).  Structural induction over the nested type (`rt_all`). -/
theorem C18_builtin_roundtrip (np : NumPy) (t : Ty) (o d : Py) (hw : wf t = true) (hc : isComp t = true)
    (ho : hasTy false t o = true) (hd : hasTy false t d = true) :
    ∃ b, toBuiltin t o = .ok b ∧ update np.array t d b = .ok o := by
  obtain ⟨b, h1, _, h3⟩ := rt_all np t hw o ho
  refine ⟨b, h1, ?_⟩
  have hobj : isObj d = true := by
    cases t with
    | comp cls u fs => cases d <;> simp_all [hasTy, isObj]
    | _ => simp [isComp] at hc
  simp only [update, hc, hobj, Bool.and_self, if_true]
  exact h3 d (Or.inr hd)

/-- … with the fresh object `C()` as destination (the property's statement). -/
theorem C18_builtin_roundtrip_fresh (np : NumPy) (t : Ty) (o : Py) (hw : wf t = true) (hc : isComp t = true)
    (ho : hasTy false t o = true) :
    ∃ b, toBuiltin t o = .ok b ∧ update np.array t (defaultVal t) b = .ok o :=
  C18_builtin_roundtrip np t o (defaultVal t) hw hc ho (hasTy_default t hw)

/-- The fresh object is what the argument-free constructor returns (structures: every field default; unions: T2). -/
theorem C18_struct_ctor_default (np : Oracle) (cls : Nat) (fs : List Ty) :
    construct np (.comp cls false fs) [] = .ok (defaultVal (.comp cls false fs)) := by
  have key : ∀ fs : List Ty, ctorStruct np fs [] = .ok (defaultS fs) := by
    intro fs
    induction fs with
    | nil => rfl
    | cons f fs ih =>
      simp [ctorStruct, isNone, setField_default, ih, bind, Except.bind, pure, Except.pure, defaultS]
  simp [construct, key, Except.map, defaultVal]

set_option maxRecDepth 100000 in
/-- Non-vacuity: a structure with a string-like array, a narrow-integer array holding an out-of-DSDL-range element,
a float32 array with NaN, a union field with a composite-array option selected and a nested structure. -/
example :
    let I := Ty.comp 2 false [.int false 7 false, .bool]
    let U := Ty.comp 3 true [.float 32 false, .arr true 2 I]
    let S := Ty.comp 1 false [.arr false 5 (.int false 8 false), .arr false 4 (.int false 7 false),
                              .arr false 3 (.float 32 false), U, I]
    let o := Py.obj 1 [.nd (.u 8) [.int 104, .int 105], .nd (.u 8) [.int 1, .int 200],
                       .nd (.f 32) [.float .nan, .float (.fin true 0)],
                       .obj 3 [.none, .nd .obj [.obj 2 [.int 3, .bool true], .obj 2 [.int 0, .bool false]]],
                       .obj 2 [.int 127, .bool false]]
    wf S = true ∧ hasTy false S o = true ∧ hasTy true S o = false
    ∧ toBuiltin S o = .ok (.dict [.str [104, 105], .list [.int 1, .int 200], .list [.float .nan, .float (.fin true 0)],
          .dict [.missing, .list [.dict [.int 3, .bool true] false, .dict [.int 0, .bool false] false]] false,
          .dict [.int 127, .bool false] false] false)
    ∧ update npArray S (defaultVal S) (.dict [.str [104, 105], .list [.int 1, .int 200],
          .list [.float .nan, .float (.fin true 0)],
          .dict [.missing, .list [.dict [.int 3, .bool true] false, .dict [.int 0, .bool false] false]] false,
          .dict [.int 127, .bool false] false] false) = .ok o := by
  refine ⟨?_, ?_, ?_, ?_, ?_⟩ <;> rfl

/-- `update_from_builtin` with keys missing keeps the destination's values, an unknown key raises `ValueError`,
two union keys: the later *field* wins. -/
example :
    let U := Ty.comp 3 true [.int false 7 false, .bool]
    update npArray U (.obj 3 [.int 5, .none]) (.dict [.missing, .missing] false) = .ok (.obj 3 [.int 5, .none])
    ∧ update npArray U (.obj 3 [.int 5, .none]) (.dict [] true) = .error .value
    ∧ update npArray U (.obj 3 [.int 5, .none]) (.dict [.int 1, .bool true] false) = .ok (.obj 3 [.none, .bool true]) := by
  refine ⟨?_, ?_, ?_⟩ <;> rfl

/-- Statement 2 carried through `update_from_builtin`: applied to a union object that holds exactly one option, with
**any** source — a dict with any keys (none, several, unknown ones), a positional list or tuple, a bare scalar —
a call that returns leaves exactly one option selected (the loop assigns through the union setters). -/
theorem C18_update_keeps_one_option (np : Oracle) (cls c : Nat) (fs : List Ty) (slots : List Py) (v o : Py)
    (h1 : countSome slots = 1) (h : update np (.comp cls true fs) (.obj c slots) v = .ok o) :
    ∃ slots', o = .obj c slots' ∧ slots'.length = slots.length ∧ countSome slots' = 1 := by
  simp only [update, isComp, isObj, Bool.and_self, if_true, updSlot, isNone, Bool.false_eq_true, if_false] at h
  split at h
  · rename_i c' sl vals extra heq
    cases heq
    cases hq : updU np fs vals [] slots with
    | error _ => rw [hq] at h; simp [bind, Except.bind] at h
    | ok res =>
      rw [hq] at h
      simp only [bind, Except.bind] at h
      split at h
      · simp [throw, throwThe, MonadExceptOf.throw] at h
      · simp only [pure, Except.pure, Except.ok.injEq] at h
        obtain ⟨r1, r2⟩ := updU_one np fs vals [] slots res (by simpa using h1) hq
        exact ⟨res, h.symm, by simpa using r2, r1⟩
  · simp at h
  · rename_i src _ _ c' sl heq _ _
    cases heq
    cases hp : positional true fs src with
    | error _ => rw [hp] at h; simp [bind, Except.bind] at h
    | ok vals =>
      rw [hp] at h
      simp only [bind, Except.bind] at h
      cases hq : updU np fs vals [] slots with
      | error _ => rw [hq] at h; simp at h
      | ok res =>
        rw [hq] at h
        simp only [pure, Except.pure, Except.ok.injEq] at h
        obtain ⟨r1, r2⟩ := updU_one np fs vals [] slots res (by simpa using h1) hq
        exact ⟨res, h.symm, by simpa using r2, r1⟩
  · simp at h

/-- A source dict with a key that names no field never yields an object (`ValueError: No such fields`, or the
exception of a field assignment that failed before the check). -/
theorem C18_update_rejects_unknown_keys (np : Oracle) (t : Ty) (d o : Py) (vals : List Py) :
    update np t d (.dict vals true) ≠ .ok o := by
  intro h
  unfold update at h
  split at h
  · cases t with
    | comp cls union fs =>
      simp only [updSlot] at h
      split at h
      · rename_i c sl vals' extra _ hv
        cases hv
        cases hq : (if union = true then updU np fs vals [] sl else updS np fs sl vals) with
        | error _ => rw [hq] at h; simp [bind, Except.bind] at h
        | ok res => rw [hq] at h; simp [bind, Except.bind, throw, throwThe, MonadExceptOf.throw] at h
      · simp at h
      · rename_i hnd _
        exact absurd rfl (hnd vals true)
      · simp at h
    | _ => simp_all [isComp]
  · simp at h

set_option maxRecDepth 100000 in
/-- Positional sources, `None`, byte strings and the error cases of `update_from_builtin` in the model
(`S` = structure {uint8[<=4] name; U u; uint7 n}, `U` = union {uint7 a; bool b}): a bare scalar / a short list fill
the first fields; more values than fields are handed to the first field when it is an array (then the length check
of its setter decides); two values for a two-option union select the LAST option, three are too many (`TypeError`); `None` for an integer: `TypeError`;
`bytes` / `str` / list for a byte array; an over-long string: `ValueError`; a union nested in an array of unions. -/
example :
    let U := Ty.comp 3 true [.int false 7 false, .bool]
    let S := Ty.comp 1 false [.arr false 4 (.int false 8 false), U, .int false 7 false]
    let A := Ty.comp 4 false [.arr false 2 U]
    let d := defaultVal S
    update npArray S d (.str [104, 105]) = .ok (.obj 1 [.nd (.u 8) [.int 104, .int 105], .obj 3 [.int 0, .none], .int 0])
    ∧ update npArray S d (.list [.bytes false [1, 2], .list [.int 5], .int 9])
        = .ok (.obj 1 [.nd (.u 8) [.int 1, .int 2], .obj 3 [.int 5, .none], .int 9])
    ∧ update npArray S d (.list [.int 1, .int 2, .int 3, .int 4]) = .ok (.obj 1 [.nd (.u 8) [.int 1, .int 2, .int 3, .int 4], .obj 3 [.int 0, .none], .int 0])
    ∧ update npArray S d (.list [.int 1, .int 2, .int 3, .int 4, .int 5]) = .error .value
    ∧ update npArray U (defaultVal U) (.list [.int 1, .int 2]) = .ok (.obj 3 [.none, .bool true])
    ∧ update npArray U (defaultVal U) (.list [.int 1, .int 2, .int 3]) = .error .type
    ∧ update npArray S d (.dict [.missing, .missing, .none] false) = .error .type
    ∧ update npArray S d (.dict [.str [97, 98, 99, 100, 101], .missing, .missing] false) = .error .value
    ∧ update npArray S d (.dict [.missing, .dict [.missing, .none] false, .missing] false)
        = .ok (.obj 1 [.nd (.u 8) [], .obj 3 [.none, .bool false], .int 0])
    ∧ update npArray A (defaultVal A) (.dict [.list [.dict [.missing, .bool true] false, .list [.int 7]]] false)
        = .ok (.obj 4 [.nd .obj [.obj 3 [.none, .bool true], .obj 3 [.int 7, .none]]])
    ∧ update npArray A (defaultVal A) (.dict [.none] false) = .error .type
    ∧ updateTop npArray true (.comp 9 false []) (.obj 9 []) (.dict [] false) = .error .type
    ∧ toBuiltinTop true (.comp 9 false []) (.obj 9 []) = .error .type := by
  refine ⟨?_, ?_, ?_, ?_, ?_, ?_, ?_, ?_, ?_, ?_, ?_, ?_, ?_⟩ <;> rfl

/-! ## 3. reflection: package aliases and `get_class` (the `_MODEL_` blob itself is compared by the harness) -/

/-- The alias `Name_M` of a namespace package refers to a minor version that exists and is numerically the
greatest of that `(name, major)` — for every set of types (minors 9 vs 10, 3 vs 100 included) and **whatever the
`@deprecated` flags are**: the bound ranges over deprecated and non-deprecated definitions alike, so a deprecated
newest minor is still the one aliased. -/
theorem C18_alias_is_newest_minor (tys : List TyId) (name : String) (major k : Nat)
    (h : newestMinor tys name major = some k) :
    (∃ d, (⟨name, major, k, d⟩ : TyId) ∈ tys) ∧
      ∀ t ∈ tys, t.name = name → t.major = major → t.minor ≤ k := by
  obtain ⟨hk, hall⟩ := maxMinor_spec _ k h
  constructor
  · obtain ⟨t, ht, rfl⟩ := List.mem_map.1 hk
    obtain ⟨htm, hp⟩ := List.mem_filter.1 ht
    simp only [decide_eq_true_eq] at hp
    obtain ⟨rfl, rfl⟩ := hp
    exact ⟨t.deprecated, htm⟩
  · intro t ht hn hm
    exact hall t.minor (List.mem_map.2 ⟨t, List.mem_filter.2 ⟨ht, by simp [hn, hm]⟩, rfl⟩)

/-- The selection is blind to deprecation: flipping any `@deprecated` flags changes no alias. -/
theorem C18_alias_ignores_deprecation (tys : List TyId) (flip : TyId → Bool) (name : String) (major : Nat) :
    newestMinor (tys.map fun t => { t with deprecated := flip t }) name major = newestMinor tys name major := by
  unfold newestMinor
  congr 1
  induction tys with
  | nil => rfl
  | cons t ts ih =>
    simp only [List.map_cons]
    by_cases hp : (t.name = name ∧ t.major = major)
    · rw [List.filter_cons_of_pos (by simpa using hp), List.filter_cons_of_pos (by simpa using hp)]
      simp only [List.map_cons]
      rw [ih]
    · rw [List.filter_cons_of_neg (by simpa using hp), List.filter_cons_of_neg (by simpa using hp)]
      exact ih

/-- Newest minor deprecated, older one not: the alias is still the newest (1.1), not 1.0. -/
example : newestMinor [⟨"DepNew", 1, 0, false⟩, ⟨"DepNew", 1, 1, true⟩] "DepNew" 1 = some 1
    ∧ newestMinor [⟨"DepMid", 1, 0, false⟩, ⟨"DepMid", 1, 1, true⟩, ⟨"DepMid", 1, 2, false⟩, ⟨"DepMid", 1, 3, true⟩]
        "DepMid" 1 = some 3 := by
  constructor <;> decide

/-- Every generated type has its alias, and the alias is at least as new. -/
theorem C18_alias_exists (tys : List TyId) (t : TyId) (ht : t ∈ tys) :
    ∃ k, newestMinor tys t.name t.major = some k ∧ t.minor ≤ k := by
  have hmem : t.minor ∈ (tys.filter (fun u => u.name = t.name ∧ u.major = t.major)).map (·.minor) :=
    List.mem_map.2 ⟨t, List.mem_filter.2 ⟨ht, by simp⟩, rfl⟩
  obtain ⟨k, hk⟩ := maxMinor_some_of_mem _ _ hmem
  exact ⟨k, hk, (maxMinor_spec _ k hk).2 _ hmem⟩

/-- Lexicographic order would pick the wrong one: among minors 0..12 the integer maximum is 12 (text: "9"),
and 100 beats 3. -/
example : newestMinor ((List.range 13).map (fun m => ⟨"Many", 1, m, false⟩) ++ [⟨"Zero", 0, 3, false⟩, ⟨"Zero", 0, 100, false⟩]) "Many" 1 = some 12
    ∧ aliases ((List.range 13).map (fun m => ⟨"Many", 1, m, false⟩) ++ [⟨"Zero", 0, 3, false⟩, ⟨"Zero", 0, 100, false⟩])
        = [⟨"Many", 1, 12, false⟩, ⟨"Zero", 0, 100, false⟩] := by
  constructor <;> decide

/-- `get_class`'s module walk finds the generated package of every namespace path, whatever the generator's set
of reserved names is (keywords, builtins, …): if the package tree contains the stropped path and does not contain a
module under the *unstropped* reserved name, `do_import` returns the stropped path. -/
theorem C18_get_class_finds_stropped_package (reserved : String → Bool) (ex : List String → Bool)
    (comps : List String)
    (hgen : ∀ a b c, comps = a ++ c :: b → ex (a.map (strop reserved) ++ [strop reserved c]) = true)
    (hno : ∀ a b c, comps = a ++ c :: b → reserved c = true → ex (a.map (strop reserved) ++ [c]) = false) :
    doImport ex [] comps = some (comps.map (strop reserved)) := by
  have := doImport_strop reserved ex comps [] (by simpa using hgen) (by simpa using hno)
  simpa using this

/-- Non-vacuity: namespace `kw.filter.if` with builtins and keywords reserved. -/
example :
    let reserved := fun s => s = "filter" || s = "if"
    let tree := [["kw"], ["kw", "filter_"], ["kw", "filter_", "if_"]]
    doImport (fun p => tree.contains p) [] ["kw", "filter", "if"] = some ["kw", "filter_", "if_"]
    ∧ ["kw", "filter", "if"].map (strop reserved) = ["kw", "filter_", "if_"] := by
  constructor <;> decide

/-! ## 3b. reflection: `get_model(C)` is the model that was rendered, a function of the run's input only

(definitions: `Model/PyReflect.lean`, namespace `NunavutVerif.PyReflect`; the theorems stay in this file's namespace) -/
open NunavutVerif.PyReflect

/-- `filter_pickle` / `_restore_constant_` (`lang/py/__init__.py`, `base.j2`): whatever the three library stages are
(`pickle`, `gzip`, `base85` — abstract bijections), cutting the text into 100-character string literals and letting
Python concatenate the adjacent literals loses nothing: `_restore_constant_(filter_pickle(m)) = m`; every emitted
literal is non-empty and at most 100 characters long.  (`pipelineCodec` packages this as the `Codec` of the
theorems below.) -/
theorem C18_restore_constant_inverts_filter_pickle {M Y : Type} (pk : Stage M Y) (gz : Stage Y Y)
    (b85 : Stage Y (List Char)) (m : M) :
    restoreConstant pk gz b85 (filterPickle pk gz b85 m) = some m
    ∧ ∀ seg ∈ filterPickle pk gz b85 m, seg ≠ [] ∧ seg.length ≤ 100 :=
  ⟨restoreConstant_filterPickle pk gz b85 m, fun seg h => segmentsAux_bound 100 (by decide) _ _ seg h⟩

/-- Non-vacuity (segment length 3 instead of 100): eight characters give literals of 3, 3 and 2 characters. -/
example : segments 3 ['a', 'b', 'c', 'd', 'e', 'f', 'g', 'h'] = [['a', 'b', 'c'], ['d', 'e', 'f'], ['g', 'h']]
    ∧ segments 100 [] = [] ∧ segments 2 ['a', 'b', 'c', 'd'] = [['a', 'b'], ['c', 'd']] := by
  refine ⟨?_, ?_, ?_⟩ <;> decide

/-- With overwriting allowed (the default) a generation run never fails on what the directory already holds. -/
theorem C18_regeneration_never_blocked {M B : Type} (c : Codec M B) (fs : FS B) (defs : List (Def M)) :
    ∃ fs', generateAll c true fs defs = .ok fs' :=
  writeAll_allow _ _

/-- T3 (every pre-existing directory content `fs`, every codec, both overwrite settings, every run whose definitions
have distinct module files none of which is called like a namespace package): after a run that returns, `get_model`
of **every** class of the run is the model the run was given for that class — the definition's own model for a
message class and for the outer class of a service, `request_type` / `response_type` for the nested `Request` /
`Response` classes.  Nothing about `fs` (older revisions of the same files, their age, other files) appears. -/
theorem C18_get_model_is_rendered_model {M B : Type} (c : Codec M B) (allow : Bool) (fs fs' : FS B)
    (defs : List (Def M)) (hmods : (defs.map modulePath).Nodup) (hdisj : ∀ d ∈ defs, modulePath d ∉ packages defs)
    (h : generateAll c allow fs defs = .ok fs') (d : Def M) (hd : d ∈ defs) :
    classModel c fs' (modulePath d) [shortRef d] = some d.model
    ∧ ∀ rq rs, d.svc = some (rq, rs) →
        classModel c fs' (modulePath d) [shortRef d, "Request"] = some rq
        ∧ classModel c fs' (modulePath d) [shortRef d, "Response"] = some rs := by
  have hspec := (writeAll_spec allow (outputs c defs) fs fs' (outputs_nodup c defs hmods hdisj) h).1
  have hfile : fs' (modulePath d) = some (renderType c d) :=
    hspec (modulePath d, renderType c d) (by
      simp only [outputs, List.mem_append, List.mem_map]
      exact Or.inl ⟨d, hd, rfl⟩)
  cases hs : d.svc with
  | none =>
    refine ⟨?_, fun rq rs h => by simp at h⟩
    simp [classModel, hfile, renderType, hs, List.lookup, c.inv]
  | some p =>
    obtain ⟨rq, rs⟩ := p
    refine ⟨?_, ?_⟩
    · simp [classModel, hfile, renderType, hs, List.lookup, c.inv]
    · intro rq' rs' he
      simp only [Option.some.injEq, Prod.mk.injEq] at he
      obtain ⟨rfl, rfl⟩ := he
      constructor <;> simp [classModel, hfile, renderType, hs, List.lookup, c.inv]

/-- … stated as independence: two runs with the same input into two *arbitrary* directories (any earlier revisions
in them, either overwrite setting) leave identical content under every output path of the run; and paths that are not
outputs of the run keep what they held (stale modules of deleted definitions stay as they were). -/
theorem C18_generated_files_independent_of_directory {M B : Type} (c : Codec M B) (a1 a2 : Bool)
    (fs1 fs2 fs1' fs2' : FS B) (defs : List (Def M))
    (hmods : (defs.map modulePath).Nodup) (hdisj : ∀ d ∈ defs, modulePath d ∉ packages defs)
    (h1 : generateAll c a1 fs1 defs = .ok fs1') (h2 : generateAll c a2 fs2 defs = .ok fs2') :
    (∀ p ∈ (outputs c defs).map Prod.fst, fs1' p = fs2' p)
    ∧ (∀ p, p ∉ (outputs c defs).map Prod.fst → fs1' p = fs1 p) := by
  have hn := outputs_nodup c defs hmods hdisj
  obtain ⟨s1, f1⟩ := writeAll_spec a1 (outputs c defs) fs1 fs1' hn h1
  obtain ⟨s2, _⟩ := writeAll_spec a2 (outputs c defs) fs2 fs2' hn h2
  refine ⟨?_, f1⟩
  intro p hp
  obtain ⟨pf, hpf, rfl⟩ := List.mem_map.1 hp
  rw [s1 pf hpf, s2 pf hpf]

/-- … and so is the model of a class independent of every *other* definition of the run: it is `d.model` for any
run that contains `d` (corollary, spelled out for two different runs into the same directory history). -/
theorem C18_get_model_independent_of_other_definitions {M B : Type} (c : Codec M B) (fs1 fs2 fs1' fs2' : FS B)
    (defs1 defs2 : List (Def M)) (d : Def M) (hd1 : d ∈ defs1) (hd2 : d ∈ defs2)
    (hm1 : (defs1.map modulePath).Nodup) (hj1 : ∀ d ∈ defs1, modulePath d ∉ packages defs1)
    (hm2 : (defs2.map modulePath).Nodup) (hj2 : ∀ d ∈ defs2, modulePath d ∉ packages defs2)
    (h1 : generateAll c true fs1 defs1 = .ok fs1') (h2 : generateAll c true fs2 defs2 = .ok fs2') :
    classModel c fs1' (modulePath d) [shortRef d] = classModel c fs2' (modulePath d) [shortRef d] := by
  rw [(C18_get_model_is_rendered_model c true fs1 fs1' defs1 hm1 hj1 h1 d hd1).1,
    (C18_get_model_is_rendered_model c true fs2 fs2' defs2 hm2 hj2 h2 d hd2).1]

/-- `get_model(pkg.Name_M_m)` — the versioned name of a class in its namespace package — is the model of exactly that
definition, for **every** run: no alias can rebind the name of a generated class (repaired `Namespace.j2`; before the
fix `Foo_1.2.0` next to `Foo.1.2` made `pkg.Foo_1_2` the class of `Foo_1.2.0`, see the example below). -/
theorem C18_get_model_through_versioned_name {M B : Type} (c : Codec M B) (allow : Bool) (fs fs' : FS B)
    (defs : List (Def M)) (hmods : (defs.map modulePath).Nodup) (hdisj : ∀ d ∈ defs, modulePath d ∉ packages defs)
    (h : generateAll c allow fs defs = .ok fs') (d : Def M) (hd : d ∈ defs) (hns : d.ns ≠ []) :
    getModelVia c fs' d.ns (shortRef d) = some d.model := by
  have hspec := (writeAll_spec allow (outputs c defs) fs fs' (outputs_nodup c defs hmods hdisj) h).1
  have hpkg : fs' d.ns = some (renderPackage defs d.ns) :=
    hspec (d.ns, renderPackage defs d.ns) (by
      simp only [outputs, List.mem_append, List.mem_map]
      refine Or.inr ⟨d.ns, ?_, rfl⟩
      simp only [packages, mem_dedup, List.mem_flatMap]
      exact ⟨d, hd, self_mem_prefixes d.ns hns⟩)
  have hhere : d ∈ defs.filter (fun e => e.ns = d.ns) := List.mem_filter.2 ⟨hd, by simp⟩
  have hlook : (((aliasTable (defs.filter fun e => e.ns = d.ns)).filter fun a =>
      !((defs.filter fun e => e.ns = d.ns).map shortRef).contains a.1).lookup (shortRef d)) = none := by
    apply lookup_none_of_keys
    intro e he hkey
    have := (List.mem_filter.1 he).2
    rw [hkey] at this
    have hin : ((defs.filter fun e => e.ns = d.ns).map shortRef).contains (shortRef d) = true :=
      List.contains_iff_mem.2 (List.mem_map.2 ⟨d, hhere, rfl⟩)
    simp only [hin, Bool.not_true] at this
    exact absurd this (by decide)
  simp only [getModelVia, packageAttr, hpkg, renderPackage, hlook, Option.getD_none, find_import defs d hd,
    Option.bind_some]
  exact (C18_get_model_is_rendered_model c allow fs fs' defs hmods hdisj h d hd).1

/-- `get_model(pkg.Name_M)` — lookup through the alias of the namespace package — is the model of the definition
with the **newest minor** version of `(Name, M)` in that package (`hk`), in the same run.  `halias`: no other
`(name, major)` of the package spells the same alias; `hfree`: no class of the package is called `Name_M` (then the
alias is not emitted at all — Python reads both as plain strings). -/
theorem C18_get_model_through_alias {M B : Type} (c : Codec M B) (allow : Bool) (fs fs' : FS B) (defs : List (Def M))
    (hmods : (defs.map modulePath).Nodup) (hdisj : ∀ d ∈ defs, modulePath d ∉ packages defs)
    (h : generateAll c allow fs defs = .ok fs') (d : Def M) (hd : d ∈ defs) (hns : d.ns ≠ [])
    (hk : newestMinor ((defs.filter fun e => e.ns = d.ns).map tyId) d.name d.major = some d.minor)
    (halias : ∀ e ∈ defs, e.ns = d.ns → aliasName e.name e.major = aliasName d.name d.major →
      e.name = d.name ∧ e.major = d.major)
    (hfree : ∀ e ∈ defs, e.ns = d.ns → shortRef e ≠ aliasName d.name d.major) :
    getModelVia c fs' d.ns (aliasName d.name d.major) = some d.model := by
  have hspec := (writeAll_spec allow (outputs c defs) fs fs' (outputs_nodup c defs hmods hdisj) h).1
  have hpkg : fs' d.ns = some (renderPackage defs d.ns) :=
    hspec (d.ns, renderPackage defs d.ns) (by
      simp only [outputs, List.mem_append, List.mem_map]
      refine Or.inr ⟨d.ns, ?_, rfl⟩
      simp only [packages, mem_dedup, List.mem_flatMap]
      exact ⟨d, hd, self_mem_prefixes d.ns hns⟩)
  have hhere : d ∈ defs.filter (fun e => e.ns = d.ns) := List.mem_filter.2 ⟨hd, by simp⟩
  have hkeep : ((defs.filter fun e => e.ns = d.ns).map shortRef).contains (aliasName d.name d.major) = false := by
    rw [Bool.eq_false_iff]
    intro hc
    obtain ⟨e, he, hse⟩ := List.mem_map.1 (List.contains_iff_mem.1 hc)
    obtain ⟨hed, hens⟩ := List.mem_filter.1 he
    simp only [decide_eq_true_eq] at hens
    exact hfree e hed hens hse
  -- the alias table maps `Name_M` to the short reference name of `d`
  have hlook : (((aliasTable (defs.filter fun e => e.ns = d.ns)).filter fun a =>
      !((defs.filter fun e => e.ns = d.ns).map shortRef).contains a.1).lookup (aliasName d.name d.major))
      = some (shortRef d) := by
    apply lookup_of_unique
    · obtain ⟨u, hu, hun, hum⟩ := aliasesFrom_complete ((defs.filter fun e => e.ns = d.ns).map tyId)
        ((defs.filter fun e => e.ns = d.ns).map tyId) [] (tyId d) (List.mem_map.2 ⟨d, hhere, rfl⟩)
        (by simp) ⟨d.minor, hk⟩
      simp only [tyId] at hun hum
      refine ⟨(aliasName u.name u.major, s!"{u.name}_{u.major}_{u.minor}"), List.mem_filter.2
        ⟨List.mem_map.2 ⟨u, hu, rfl⟩, ?_⟩, by simp [hun, hum]⟩
      simp only [hun, hum, hkeep, Bool.not_false]
    · intro e he hkey
      obtain ⟨u, hu, rfl⟩ := List.mem_map.1 (List.mem_filter.1 he).1
      have hnew := aliasesFrom_sound _ _ _ u hu
      obtain ⟨⟨dep, hmem⟩, _⟩ := C18_alias_is_newest_minor _ _ _ _ hnew
      obtain ⟨e0, he0, hte⟩ := List.mem_map.1 hmem
      obtain ⟨he0d, he0ns⟩ := List.mem_filter.1 he0
      simp only [decide_eq_true_eq] at he0ns
      simp only [tyId, TyId.mk.injEq] at hte
      have := halias e0 he0d he0ns (by rw [hte.1, hte.2.1]; exact hkey)
      have hun : u.name = d.name := by rw [← hte.1]; exact this.1
      have hum : u.major = d.major := by rw [← hte.2.1]; exact this.2
      rw [hun, hum, hk] at hnew
      simp only [Option.some.injEq] at hnew
      simp only [shortRef, hun, hum, ← hnew]
  simp only [getModelVia, packageAttr, hpkg, renderPackage, hlook, Option.getD_some, find_import defs d hd,
    Option.bind_some]
  exact (C18_get_model_is_rendered_model c allow fs fs' defs hmods hdisj h d hd).1

/-- The defect repaired by `fix: a Python package alias no longer rebinds the name of a generated class`
(replayed on the generated package by the harness, corpus `alias.json`): with `A.1.2` and `A_1.2.0` in one namespace
the alias of the second (`A_1_2 = A_1_2_0`) used to shadow the class of the first. -/
example :
    let defs : List (Def String) := [⟨["pn"], "A", 1, 2, "mA", none⟩, ⟨["pn"], "A_1", 2, 0, "mB", none⟩]
    let mods : FS String := write (write emptyFS ["pn", "A_1_2"] (renderType idCodec defs[0]))
      ["pn", "A_1_2_0"] (renderType idCodec defs[1])
    getModelVia idCodec (write mods ["pn"] (renderPackageBeforeFix defs ["pn"])) ["pn"] "A_1_2" = some "mB"
    ∧ getModelVia idCodec (write mods ["pn"] (renderPackage defs ["pn"])) ["pn"] "A_1_2" = some "mA"
    ∧ getModelVia idCodec (write mods ["pn"] (renderPackage defs ["pn"])) ["pn"] "A_1" = some "mA"
    ∧ getModelVia idCodec (write mods ["pn"] (renderPackage defs ["pn"])) ["pn"] "A_1_2_0" = some "mB" := by
  refine ⟨?_, ?_, ?_, ?_⟩ <;> decide

/-- Non-vacuity: the history of seeded C18-13 in the model.  Revision 0 (`Bar` = m0, `Foo` nests it = f0) is generated
into an empty directory; then only `Bar` is edited, which changes the model of `Foo` too (f1), and the namespace is
regenerated into the same directory: `get_model(Foo_1_0)` is f1, the alias follows the new minor version, and a
definition that is no longer part of the run keeps its stale module. -/
example :
    let r0 : List (Def String) := [⟨["ns"], "Bar", 1, 0, "m0", none⟩, ⟨["ns"], "Foo", 1, 0, "f0", none⟩,
                                   ⟨["ns"], "Gone", 1, 0, "g", none⟩, ⟨["ns"], "Svc", 1, 0, "s0", some ("q0", "r0")⟩]
    let r1 : List (Def String) := [⟨["ns"], "Bar", 1, 0, "m1", none⟩, ⟨["ns"], "Bar", 1, 1, "m1b", none⟩,
                                   ⟨["ns"], "Foo", 1, 0, "f1", none⟩, ⟨["ns"], "Svc", 1, 0, "s1", some ("q1", "r1")⟩]
    let fs := regenerate idCodec emptyFS [r0, r1]
    classModel idCodec fs ["ns", "Foo_1_0"] ["Foo_1_0"] = some "f1"
    ∧ classModel idCodec fs ["ns", "Svc_1_0"] ["Svc_1_0", "Request"] = some "q1"
    ∧ getModelVia idCodec fs ["ns"] "Bar_1" = some "m1b"
    ∧ getModelVia idCodec (regenerate idCodec emptyFS [r0]) ["ns"] "Bar_1" = some "m0"
    ∧ classModel idCodec fs ["ns", "Gone_1_0"] ["Gone_1_0"] = some "g"
    ∧ getModelVia idCodec fs ["ns"] "Gone_1" = none
    ∧ (match generateAll idCodec false (regenerate idCodec emptyFS [r0]) r1 with
        | .error .exists => true
        | _ => false) = true := by
  refine ⟨?_, ?_, ?_, ?_, ?_, ?_, ?_⟩ <;> decide

end NunavutVerif.PyObj
