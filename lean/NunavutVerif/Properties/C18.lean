import NunavutVerif.Lemmas.PyObj
/-!
# C18 — generated Python data objects validate, reflect and convert faithfully

Property theorems only (definitions: `Model/PyObj.lean`, helper lemmas: `Lemmas/PyObj.lean`).
Quantifiers: all field types, all candidate values of the modelled Python universe `Py`, every lawful NumPy oracle
`np` (`NumPy`: what `numpy.array(x, dtype).flatten()` returns fits the dtype; built-in lists of in-dtype scalars and
same-dtype arrays convert to themselves), all constructor argument lists, all assignment sequences, all well-typed
objects.  The concrete oracle run by the driver is the lawful `numpy` (Lemmas).

Statement 3 of the property (`_MODEL_` equals the source model) is about `pickle`/`gzip`/`base85` of the Python
runtime and has no model here; it is checked structurally on every generated class by the harness.
-/
namespace NunavutVerif.PyObj

/-! ## 1. a setter raises or stores a value of the field's type -/

/-- T1 (every field type, every candidate): if the setter returns, what it stored is — for a scalar — in the DSDL
range of the field (`float`: in range, or infinite/NaN, or any value at 64 bit); for an array an ndarray of the
element dtype whose length is `== capacity` (fixed) / `<= capacity` (variable) and whose elements fit the dtype;
for a composite an instance of exactly the field's class.  (`ndOK`: a candidate ndarray holds what its dtype can
hold.)  Otherwise it raised (`ValueError`, `TypeError`, `OverflowError` as coded). -/
theorem C18_setter_stores_value_of_field_type (np : NumPy) (t : Ty) (x v : Py) (hnd : ndOK x = true)
    (h : setField np.array t x = .ok v) : stored t v = true := by
  cases t with
  | bool => obtain ⟨b, rfl⟩ := setField_bool_ok _ _ _ h; rfl
  | int s w c =>
    obtain ⟨i, _, rfl, h1, h2⟩ := setField_int_ok _ _ _ _ _ _ h
    simp [stored, hasTy, h1, h2]
  | float w c =>
    obtain ⟨f, _, rfl, hf⟩ := setField_float_ok _ _ _ _ _ h
    simpa [stored, hasTy] using hf
  | arr fixed cap e =>
    obtain ⟨xs, rfl, hl, hall⟩ := assignArray_stored np fixed cap e x v hnd h
    simp only [stored, hl, decide_true, Bool.true_and, List.all_eq_true]
    exact hall
  | comp cls u fs =>
    obtain ⟨slots, rfl, rfl⟩ := setField_comp_ok _ _ _ _ _ _ h
    simp [stored]

/-
Full statement of the property's first clause (NOT a theorem of the unchanged code — see the witnesses below):
  ∀ np t x v, ndOK x → instances inside x are well-typed → setField np.array t x = .ok v → hasTy true t v
i.e. every array element is also in the *DSDL* range of its element type and every element of a composite array is an
instance of the element class.  The emitted code checks neither (known finding `py-array-elements-not-range-checked`).
Proved below for the field types where the dtype range equals the DSDL range (`fullyChecked`).
-/

/-- T1, DSDL-level well-typedness, for every field type except arrays of integers narrower than their numpy dtype and
arrays of composites (`fullyChecked`, decidable).  `hobj`: the candidate, if it is an instance of the field's class,
is itself a well-typed instance (the heap invariant the constructors and setters maintain). -/
theorem C18_setter_sound_partial (np : NumPy) (t : Ty) (x v : Py) (hck : fullyChecked t = true)
    (hnd : ndOK x = true)
    (hobj : ∀ cls u fs slots, t = .comp cls u fs → x = .obj cls slots → hasTy true t x = true)
    (h : setField np.array t x = .ok v) : hasTy true t v = true := by
  cases t with
  | bool => obtain ⟨b, rfl⟩ := setField_bool_ok _ _ _ h; rfl
  | int s w c =>
    obtain ⟨i, _, rfl, h1, h2⟩ := setField_int_ok _ _ _ _ _ _ h
    simp [hasTy, h1, h2]
  | float w c =>
    obtain ⟨f, _, rfl, hf⟩ := setField_float_ok _ _ _ _ _ h
    simpa [hasTy] using hf
  | comp cls u fs =>
    obtain ⟨slots, rfl, rfl⟩ := setField_comp_ok _ _ _ _ _ _ h
    exact hobj cls u fs slots rfl rfl
  | arr fixed cap e =>
    obtain ⟨xs, rfl, hl, hall⟩ := assignArray_stored np fixed cap e x v hnd h
    have hall' : xs.all (inDT (dtypeOf e)) = true := List.all_eq_true.2 hall
    cases e with
    | bool => simp [hasTy, hl, hall', primNonInt]
    | float w c => simp [hasTy, hl, hall', primNonInt]
    | int s w c =>
      have hw : pickWidth w = w := by simp [fullyChecked] at hck; exact hck.symm
      have : xs.all (hasTy true (.int s w c)) = true :=
        List.all_eq_true.2 (fun y hy => inDT_hasTy_int s w c y hw (hall y hy))
      simp [hasTy, hl, hall', this]
    | arr _ _ _ => simp [fullyChecked] at hck
    | comp _ _ _ => simp [fullyChecked] at hck

/-- Witness that the full statement fails on the unchanged code: `uint7[<=4] v`, `obj.v = [200]` stores 200
(replayed on the generated class by the harness). -/
example : setField npArray (.arr false 4 (.int false 7 false)) (.list [.int 200])
      = .ok (.nd (.u 8) [.int 200])
    ∧ hasTy true (.arr false 4 (.int false 7 false)) (.nd (.u 8) [.int 200]) = false := by
  constructor <;> rfl

/-- … `numpy.array([300])` (int64) offered to `uint8[<=4]` is wrapped to 44 and stored. -/
example : setField npArray (.arr false 4 (.int false 8 false)) (.nd (.i 64) [.int 300])
      = .ok (.nd (.u 8) [.int 44]) := by rfl

set_option maxRecDepth 100000 in
/-- … `[1e39]` offered to `float32[<=3]` is stored as `[inf]` (1e39 = 5^39 · 2^39). -/
example : setField npArray (.arr false 3 (.float 32 false)) (.list [.float (.fin false (5 ^ 39 * 2 ^ 39 * one))])
      = .ok (.nd (.f 32) [.float (.inf false)]) := by rfl

/-- … an array of composites accepts anything (`obj.vin = [1]`). -/
example : setField npArray (.arr false 2 (.comp 7 false [])) (.list [.int 1]) = .ok (.nd .obj [.int 1]) := by rfl

/-! ### out-of-range and wrong-length candidates raise `ValueError` (and exactly which ones do not) -/

/-- An `int` outside the field's inclusive range raises `ValueError` — for saturated and truncated fields alike
(the cast mode `c` is not consulted), for every width and signedness. -/
theorem C18_int_out_of_range_raises_ValueError (np : Oracle) (s : Bool) (w : Nat) (c : Bool) (i : Int)
    (h : ¬ (intLo s w ≤ i ∧ i ≤ intHi s w)) : setField np (.int s w c) (.int i) = .error .value := by
  simp [setField, pyInt, bind, Except.bind, h, throw, throwThe, MonadExceptOf.throw]

/-- A finite `float` beyond `±max` of a float16/float32 field raises `ValueError`, whatever the cast mode. -/
theorem C18_float_out_of_range_raises_ValueError (np : Oracle) (w : Nat) (c neg : Bool) (a : Nat)
    (hw : w < 64) (h : fmax w < a) : setField np (.float w c) (.float (.fin neg a)) = .error .value := by
  have h1 : ¬ (64 ≤ w) := by omega
  have h2 : ¬ (a ≤ fmax w) := by omega
  simp [setField, pyFloat, bind, Except.bind, floatOK, h1, h2, throw, throwThe, MonadExceptOf.throw]

/-- What the float setter does *not* reject: infinities and NaN at every width, and every float at 64 bit
(there the range of the field is the range of a Python float). -/
theorem C18_float_unchecked_cases (np : Oracle) (w : Nat) (c : Bool) (f : F)
    (h : 64 ≤ w ∨ f = .nan ∨ ∃ n, f = .inf n) : setField np (.float w c) (.float f) = .ok (.float f) := by
  have : floatOK w f = true := by
    rcases h with h | h | ⟨n, h⟩
    · simp [floatOK, h]
    · subst h; simp [floatOK]
    · subst h; simp [floatOK]
  simp [setField, pyFloat, bind, Except.bind, this, pure, Except.pure]

/-- Values that are out of range but do not raise `ValueError`: the exception comes from `int()`/`float()`
(known finding `py-out-of-range-raises-overflowerror`; nothing is stored). -/
example : setField npArray (.int false 7 false) (.float (.inf false)) = .error .overflow
    ∧ setField npArray (.arr false 4 (.int false 8 false)) (.list [.int 256]) = .error .overflow := by
  constructor <;> rfl

/-- A `bytes`/`bytearray` (or, for string-like arrays, `str`) source of a forbidden length raises `ValueError`
(repaired code: `fix: generated Python setters reject over-long bytes …`). -/
theorem C18_bytes_wrong_length_raises_ValueError (np : Oracle) (fixed : Bool) (cap : Nat) (e : Ty) (m : Bool)
    (bs : List Nat) (hb : byteLike e = true) (hl : lenOK fixed cap bs.length = false) :
    setField np (.arr fixed cap e) (.bytes m bs) = .error .value
    ∧ (strLike fixed e = true → setField np (.arr fixed cap e) (.str bs) = .error .value) := by
  constructor
  · have henc : encodeStr fixed e (.bytes m bs) = .bytes m bs := by unfold encodeStr; split <;> rfl
    simp [setField, assignArray, assignCore, henc, hb, hl, throw, throwThe, MonadExceptOf.throw]
  · intro hs
    have henc : encodeStr fixed e (.str bs) = .bytes false bs := by simp [encodeStr, hs]
    simp [setField, assignArray, assignCore, henc, hb, hl, throw, throwThe, MonadExceptOf.throw]

/-- Regression witness for the code before the fix: `uint8[<=4] v`, `obj.v = b"00007"` (5 bytes) stored `[7]`
because `numpy.array(b"00007", uint8)` parses the buffer as a decimal literal; `b"12345"` raised `OverflowError`. -/
example : assignArrayBeforeFix npArray false 4 (.int false 8 false) (.bytes false [48, 48, 48, 48, 55])
      = .ok (.nd (.u 8) [.int 7])
    ∧ assignArrayBeforeFix npArray false 4 (.int false 8 false) (.bytes false [49, 50, 51, 52, 53]) = .error .overflow
    ∧ assignArray npArray false 4 (.int false 8 false) (.bytes false [48, 48, 48, 48, 55]) = .error .value := by
  refine ⟨?_, ?_, ?_⟩ <;> rfl

/-- A list of Python scalars that are values of the element dtype (or generated objects for a composite array), and
an ndarray of the element dtype, raise `ValueError` when their length is not `== capacity` / `<= capacity`. -/
theorem C18_sequence_wrong_length_raises_ValueError (np : NumPy) (fixed : Bool) (cap : Nat) (e : Ty) (xs : List Py)
    (hall : ∀ y ∈ xs, inDT (dtypeOf e) y = true ∧ (dtypeOf e = .obj → isObj y = true))
    (hl : lenOK fixed cap xs.length = false) :
    setField np.array (.arr fixed cap e) (.list xs) = .error .value
    ∧ setField np.array (.arr fixed cap e) (.nd (dtypeOf e) xs) = .error .value := by
  have hslow1 : slowPath np.array fixed cap (dtypeOf e) (.list xs) = .error .value := by
    simp [slowPath, np.builtin _ xs hall, bind, Except.bind, hl, throw, throwThe, MonadExceptOf.throw]
  have hslow2 : slowPath np.array fixed cap (dtypeOf e) (.nd (dtypeOf e) xs) = .error .value := by
    simp [slowPath, np.same _ xs (fun y hy => (hall y hy).1), bind, Except.bind, hl, throw, throwThe,
      MonadExceptOf.throw]
  constructor
  · have henc : encodeStr fixed e (.list xs) = .list xs := by unfold encodeStr; split <;> rfl
    simp only [setField, assignArray, assignCore, henc]
    split <;> simpa [fastPath] using hslow1
  · have henc : encodeStr fixed e (.nd (dtypeOf e) xs) = .nd (dtypeOf e) xs := by unfold encodeStr; split <;> rfl
    simp only [setField, assignArray, assignCore, henc]
    split <;> simpa [fastPath, hl] using hslow2

/-! ### constructors -/

/-- The structure constructor returns only objects all of whose fields satisfy T1 (an absent/`None` argument stores
the field's default); the class is the constructed one. -/
theorem C18_struct_ctor_sound (np : NumPy) (cls : Nat) (fs : List Ty) (args : List Py) (o : Py)
    (hnd : ∀ a ∈ args, ndOK a = true)
    (h : construct np.array (.comp cls false fs) args = .ok o) :
    ∃ slots, o = .obj cls slots ∧ storedS fs slots = true := by
  have key : ∀ (fs : List Ty) (args slots : List Py), (∀ a ∈ args, ndOK a = true) →
      ctorStruct np.array fs args = .ok slots → storedS fs slots = true := by
    intro fs
    induction fs with
    | nil => intro args slots _ h; simp [ctorStruct, pure, Except.pure] at h; subst h; rfl
    | cons f fs ih =>
      intro args slots hnd h
      simp only [ctorStruct] at h
      cases hv : setField np.array f (if isNone (args.headD Py.none) = true then defaultVal f else args.headD Py.none) with
      | error _ => rw [hv] at h; simp [bind, Except.bind] at h
      | ok v =>
        rw [hv] at h
        cases hr : ctorStruct np.array fs args.tail with
        | error _ => rw [hr] at h; simp [bind, Except.bind] at h
        | ok rest =>
          rw [hr] at h
          simp [bind, Except.bind, pure, Except.pure] at h
          subst h
          have hndv : ndOK (if isNone (args.headD Py.none) = true then defaultVal f else args.headD Py.none) = true := by
            split
            · exact ndOK_default f
            · cases args with
              | nil => rfl
              | cons a as => exact hnd a List.mem_cons_self
          have h1 := C18_setter_stores_value_of_field_type np f _ v hndv hv
          have h2 := ih args.tail rest (fun a ha => hnd a (List.mem_of_mem_tail ha)) hr
          simp [storedS, h1, h2]
  simp only [construct] at h
  cases hs : ctorStruct np.array fs args with
  | error _ => rw [hs] at h; simp [Except.map] at h
  | ok slots =>
    rw [hs] at h; simp [Except.map] at h
    exact ⟨slots, h.symm, key fs args slots hnd hs⟩

/-! ## 2. a union always holds exactly one option -/

/-- Every union constructor call that returns yields an object with exactly one option that is not `None`
(whatever the arguments, the option types and the oracle). -/
theorem C18_union_ctor_one_option (np : Oracle) (cls : Nat) (fs : List Ty) (args : List Py) (o : Py)
    (h : construct np (.comp cls true fs) args = .ok o) :
    ∃ slots, o = .obj cls slots ∧ slots.length = fs.length ∧ countSome slots = 1 := by
  simp only [construct] at h
  cases hl : ctorUnionLoop np fs args 0 (fs.map (fun _ => Py.none), 0) with
  | error _ => rw [hl] at h; simp [bind, Except.bind] at h
  | ok st =>
    obtain ⟨slots, cnt⟩ := st
    rw [hl] at h
    obtain ⟨h1, _, _, h4⟩ := ctorUnionLoop_inv np fs args 0 _ 0 slots cnt (by simp) hl
    simp only [bind, Except.bind] at h
    split at h
    · -- no argument: default-initialise the first option
      cases fs with
      | nil => simp [throw, throwThe, MonadExceptOf.throw] at h
      | cons f0 rest =>
        simp only at h
        cases hv : setField np f0 (defaultVal f0) with
        | error _ => rw [hv] at h; simp at h
        | ok v =>
          rw [hv] at h; simp [pure, Except.pure] at h
          refine ⟨_, h.symm, ?_, ?_⟩
          · rw [length_oneHot, h1]; simp
          · exact countSome_oneHot slots 0 v (by rw [h1]; simp) (setField_not_none np f0 _ v hv)
    · split at h
      · rename_i _ hc
        simp [pure, Except.pure] at h
        exact ⟨slots, h.symm, by rw [h1]; simp, h4 (by omega)⟩
      · simp [throw, throwThe, MonadExceptOf.throw] at h

/-- A union constructor call with two or more options given never returns an object. -/
theorem C18_union_ctor_two_options_raises (np : Oracle) (cls : Nat) (fs : List Ty) (args : List Py)
    (h2 : 2 ≤ givenArgs fs.length args) : ∀ o, construct np (.comp cls true fs) args ≠ .ok o := by
  intro o h
  simp only [construct] at h
  cases hl : ctorUnionLoop np fs args 0 (fs.map (fun _ => Py.none), 0) with
  | error _ => rw [hl] at h; simp [bind, Except.bind] at h
  | ok st =>
    obtain ⟨slots, cnt⟩ := st
    rw [hl] at h
    obtain ⟨_, hc, _, _⟩ := ctorUnionLoop_inv np fs args 0 _ 0 slots cnt (by simp) hl
    simp only [bind, Except.bind] at h
    split at h
    · omega
    · split at h
      · omega
      · simp [throw, throwThe, MonadExceptOf.throw] at h

set_option maxRecDepth 100000 in
/-- … and when every setter involved accepts its value the exception is the `ValueError` of `_init_cnt_ > 1`
(otherwise it is the exception of the first failing setter, in field order). -/
example : construct npArray (.comp 1 true [.int false 7 false, .float 32 false]) [.int 1, .int 2] = .error .value
    ∧ construct npArray (.comp 1 true [.int false 7 false, .float 32 false]) [.none, .str [120]] = .error .value
    ∧ construct npArray (.comp 1 true [.int false 7 false, .float 32 false]) [.none, .list []] = .error .type := by
  refine ⟨?_, ?_, ?_⟩ <;> rfl

/-- `C()` selects and default-initialises the first option. -/
theorem C18_union_ctor_default_first_option (np : Oracle) (cls : Nat) (f0 : Ty) (rest : List Ty) (args : List Py)
    (h0 : givenArgs (f0 :: rest).length args = 0) :
    construct np (.comp cls true (f0 :: rest)) args = .ok (defaultVal (.comp cls true (f0 :: rest))) := by
  have loop : ∀ (fs : List Ty) (args : List Py) (i : Nat) (st : List Py × Nat),
      givenArgs fs.length args = 0 → ctorUnionLoop np fs args i st = .ok st := by
    intro fs
    induction fs with
    | nil => intro args i st _; rfl
    | cons f fs ih =>
      intro args i st hg
      obtain ⟨slots, cnt⟩ := st
      have hg' : (if isNone (args.headD Py.none) = true then 0 else 1) + givenArgs fs.length args.tail = 0 := hg
      have hn : isNone (args.headD Py.none) = true := by
        cases hh : isNone (args.headD Py.none) with
        | true => rfl
        | false => rw [hh] at hg'; simp at hg'
      have hrest : givenArgs fs.length args.tail = 0 := by omega
      simp only [ctorUnionLoop, hn, if_true]
      exact ih args.tail (i + 1) (slots, cnt) hrest
  simp only [construct, loop (f0 :: rest) args 0 _ h0, bind, Except.bind, setField_default, if_true]
  simp [pure, Except.pure, defaultVal, defaultU, oneHot]

/-- A union setter that returns leaves exactly the assigned option selected. -/
theorem C18_union_setter_one_option (np : Oracle) (cls : Nat) (fs : List Ty) (i : Nat) (x : Py) (c : Nat)
    (slots : List Py) (o' : Py) (h : objSet np (.comp cls true fs) i x (.obj c slots) = .ok o') :
    ∃ slots', o' = .obj c slots' ∧ slots'.length = slots.length ∧ countSome slots' = 1 := by
  simp only [objSet] at h
  split at h
  · simp at h
  · rename_i f _
    cases hv : setField np f x with
    | error _ => rw [hv] at h; simp [bind, Except.bind] at h
    | ok v =>
      rw [hv] at h
      simp only [bind, Except.bind] at h
      split at h
      · rename_i hi
        simp [pure, Except.pure] at h
        exact ⟨_, h.symm, length_oneHot _ _ _, countSome_oneHot slots i v hi (setField_not_none np f x v hv)⟩
      · simp [throw, throwThe, MonadExceptOf.throw] at h

/-- T2, the invariant: after a constructor call that returns, and after every further assignment — accepted or
raising, in any number and order, with any candidate values — the union holds exactly one option. -/
theorem C18_union_invariant (np : Oracle) (cls : Nat) (fs : List Ty) (args : List Py) (o : Py)
    (ops : List (Nat × Py)) (h : construct np (.comp cls true fs) args = .ok o) :
    ∃ slots, runOps np (.comp cls true fs) o ops = .obj cls slots ∧ slots.length = fs.length ∧ countSome slots = 1 := by
  obtain ⟨slots, rfl, hlen, hone⟩ := C18_union_ctor_one_option np cls fs args o h
  clear h
  induction ops generalizing slots with
  | nil => exact ⟨slots, rfl, hlen, hone⟩
  | cons op ops ih =>
    obtain ⟨i, x⟩ := op
    simp only [runOps]
    cases hs : objSet np (.comp cls true fs) i x (.obj cls slots) with
    | error _ => exact ih slots hlen hone
    | ok o' =>
      obtain ⟨slots', rfl, hl', h1'⟩ := C18_union_setter_one_option np cls fs i x cls slots o' hs
      exact ih slots' (by rw [hl', hlen]) h1'

/-- Non-vacuity: a union with an array and a composite option; construct with the array option, assign an
out-of-range value (raises, state kept), the composite option, then the first option. -/
example :
    let U := Ty.comp 5 true [.int false 7 false, .arr false 3 (.int false 8 false), .comp 2 false [.bool]]
    construct npArray U [.none, .bytes false [97, 98]] = .ok (.obj 5 [.none, .nd (.u 8) [.int 97, .int 98], .none])
    ∧ runOps npArray U (.obj 5 [.none, .nd (.u 8) [.int 97, .int 98], .none])
        [(0, .int 200), (2, .obj 2 [.bool true]), (2, .int 3), (0, .int 5)] = .obj 5 [.int 5, .none, .none] := by
  constructor <;> rfl

/-! ## 4. `update_from_builtin(C(), to_builtin(o))` reproduces `o` -/

/-- T3: for every composite type `t` of a shape DSDL admits (`wf`) and every well-typed object `o` of it
(`hasTy false`: scalars in range, arrays of the element dtype within capacity, exactly-one-option unions, nested
instances well-typed — array elements need only fit the numpy dtype, so objects holding unchecked narrow-integer
elements are included), `to_builtin` succeeds and `update_from_builtin` applied to **any** well-typed destination
`d` of the same type — in particular a fresh `C()` — returns an object equal to `o` field by field, dtype by dtype
(hence with the same serialization).  Structural induction over the nested type (`rt_all`). -/
theorem C18_builtin_roundtrip (np : NumPy) (t : Ty) (o d : Py) (hw : wf t = true) (hc : isComp t = true)
    (ho : hasTy false t o = true) (hd : hasTy false t d = true) :
    ∃ b, toBuiltin t o = .ok b ∧ update np.array t d b = .ok o := by
  obtain ⟨b, h1, _, h3⟩ := rt_all np t hw o ho
  refine ⟨b, h1, ?_⟩
  have hobj : isObj d = true := by
    cases t with
    | comp cls u fs => cases d <;> simp_all [hasTy, isObj]
    | _ => simp [isComp] at hc
  simp only [update, hc, hobj, Bool.and_self, if_true]
  exact h3 d (Or.inr hd)

/-- … with the fresh object `C()` as destination (the property's statement). -/
theorem C18_builtin_roundtrip_fresh (np : NumPy) (t : Ty) (o : Py) (hw : wf t = true) (hc : isComp t = true)
    (ho : hasTy false t o = true) :
    ∃ b, toBuiltin t o = .ok b ∧ update np.array t (defaultVal t) b = .ok o :=
  C18_builtin_roundtrip np t o (defaultVal t) hw hc ho (hasTy_default t hw)

/-- The fresh object is what the argument-free constructor returns (structures: every field default; unions: T2). -/
theorem C18_struct_ctor_default (np : Oracle) (cls : Nat) (fs : List Ty) :
    construct np (.comp cls false fs) [] = .ok (defaultVal (.comp cls false fs)) := by
  have key : ∀ fs : List Ty, ctorStruct np fs [] = .ok (defaultS fs) := by
    intro fs
    induction fs with
    | nil => rfl
    | cons f fs ih =>
      simp [ctorStruct, isNone, setField_default, ih, bind, Except.bind, pure, Except.pure, defaultS]
  simp [construct, key, Except.map, defaultVal]

set_option maxRecDepth 100000 in
/-- Non-vacuity: a structure with a string-like array, a narrow-integer array holding an out-of-DSDL-range element,
a float32 array with NaN, a union field with a composite-array option selected and a nested structure. -/
example :
    let I := Ty.comp 2 false [.int false 7 false, .bool]
    let U := Ty.comp 3 true [.float 32 false, .arr true 2 I]
    let S := Ty.comp 1 false [.arr false 5 (.int false 8 false), .arr false 4 (.int false 7 false),
                              .arr false 3 (.float 32 false), U, I]
    let o := Py.obj 1 [.nd (.u 8) [.int 104, .int 105], .nd (.u 8) [.int 1, .int 200],
                       .nd (.f 32) [.float .nan, .float (.fin true 0)],
                       .obj 3 [.none, .nd .obj [.obj 2 [.int 3, .bool true], .obj 2 [.int 0, .bool false]]],
                       .obj 2 [.int 127, .bool false]]
    wf S = true ∧ hasTy false S o = true ∧ hasTy true S o = false
    ∧ toBuiltin S o = .ok (.dict [.str [104, 105], .list [.int 1, .int 200], .list [.float .nan, .float (.fin true 0)],
          .dict [.missing, .list [.dict [.int 3, .bool true] false, .dict [.int 0, .bool false] false]] false,
          .dict [.int 127, .bool false] false] false)
    ∧ update npArray S (defaultVal S) (.dict [.str [104, 105], .list [.int 1, .int 200],
          .list [.float .nan, .float (.fin true 0)],
          .dict [.missing, .list [.dict [.int 3, .bool true] false, .dict [.int 0, .bool false] false]] false,
          .dict [.int 127, .bool false] false] false) = .ok o := by
  refine ⟨?_, ?_, ?_, ?_, ?_⟩ <;> rfl

/-- `update_from_builtin` with keys missing keeps the destination's values, an unknown key raises `ValueError`,
two union keys: the later *field* wins. -/
example :
    let U := Ty.comp 3 true [.int false 7 false, .bool]
    update npArray U (.obj 3 [.int 5, .none]) (.dict [.missing, .missing] false) = .ok (.obj 3 [.int 5, .none])
    ∧ update npArray U (.obj 3 [.int 5, .none]) (.dict [] true) = .error .value
    ∧ update npArray U (.obj 3 [.int 5, .none]) (.dict [.int 1, .bool true] false) = .ok (.obj 3 [.none, .bool true]) := by
  refine ⟨?_, ?_, ?_⟩ <;> rfl

/-! ## 3. reflection: package aliases and `get_class` (the `_MODEL_` blob itself is compared by the harness) -/

/-- The alias `Name_M` of a namespace package refers to a minor version that exists and is numerically the
greatest of that `(name, major)` — for every set of types (minors 9 vs 10, 3 vs 100 included) and **whatever the
`@deprecated` flags are**: the bound ranges over deprecated and non-deprecated definitions alike, so a deprecated
newest minor is still the one aliased. -/
theorem C18_alias_is_newest_minor (tys : List TyId) (name : String) (major k : Nat)
    (h : newestMinor tys name major = some k) :
    (∃ d, (⟨name, major, k, d⟩ : TyId) ∈ tys) ∧
      ∀ t ∈ tys, t.name = name → t.major = major → t.minor ≤ k := by
  obtain ⟨hk, hall⟩ := maxMinor_spec _ k h
  constructor
  · obtain ⟨t, ht, rfl⟩ := List.mem_map.1 hk
    obtain ⟨htm, hp⟩ := List.mem_filter.1 ht
    simp only [decide_eq_true_eq] at hp
    obtain ⟨rfl, rfl⟩ := hp
    exact ⟨t.deprecated, htm⟩
  · intro t ht hn hm
    exact hall t.minor (List.mem_map.2 ⟨t, List.mem_filter.2 ⟨ht, by simp [hn, hm]⟩, rfl⟩)

/-- The selection is blind to deprecation: flipping any `@deprecated` flags changes no alias. -/
theorem C18_alias_ignores_deprecation (tys : List TyId) (flip : TyId → Bool) (name : String) (major : Nat) :
    newestMinor (tys.map fun t => { t with deprecated := flip t }) name major = newestMinor tys name major := by
  unfold newestMinor
  congr 1
  induction tys with
  | nil => rfl
  | cons t ts ih =>
    simp only [List.map_cons]
    by_cases hp : (t.name = name ∧ t.major = major)
    · rw [List.filter_cons_of_pos (by simpa using hp), List.filter_cons_of_pos (by simpa using hp)]
      simp only [List.map_cons]
      rw [ih]
    · rw [List.filter_cons_of_neg (by simpa using hp), List.filter_cons_of_neg (by simpa using hp)]
      exact ih

/-- Newest minor deprecated, older one not: the alias is still the newest (1.1), not 1.0. -/
example : newestMinor [⟨"DepNew", 1, 0, false⟩, ⟨"DepNew", 1, 1, true⟩] "DepNew" 1 = some 1
    ∧ newestMinor [⟨"DepMid", 1, 0, false⟩, ⟨"DepMid", 1, 1, true⟩, ⟨"DepMid", 1, 2, false⟩, ⟨"DepMid", 1, 3, true⟩]
        "DepMid" 1 = some 3 := by
  constructor <;> decide

/-- Every generated type has its alias, and the alias is at least as new. -/
theorem C18_alias_exists (tys : List TyId) (t : TyId) (ht : t ∈ tys) :
    ∃ k, newestMinor tys t.name t.major = some k ∧ t.minor ≤ k := by
  have hmem : t.minor ∈ (tys.filter (fun u => u.name = t.name ∧ u.major = t.major)).map (·.minor) :=
    List.mem_map.2 ⟨t, List.mem_filter.2 ⟨ht, by simp⟩, rfl⟩
  obtain ⟨k, hk⟩ := maxMinor_some_of_mem _ _ hmem
  exact ⟨k, hk, (maxMinor_spec _ k hk).2 _ hmem⟩

/-- Lexicographic order would pick the wrong one: among minors 0..12 the integer maximum is 12 (text: "9"),
and 100 beats 3. -/
example : newestMinor ((List.range 13).map (fun m => ⟨"Many", 1, m, false⟩) ++ [⟨"Zero", 0, 3, false⟩, ⟨"Zero", 0, 100, false⟩]) "Many" 1 = some 12
    ∧ aliases ((List.range 13).map (fun m => ⟨"Many", 1, m, false⟩) ++ [⟨"Zero", 0, 3, false⟩, ⟨"Zero", 0, 100, false⟩])
        = [⟨"Many", 1, 12, false⟩, ⟨"Zero", 0, 100, false⟩] := by
  constructor <;> decide

/-- `get_class`'s module walk finds the generated package of every namespace path, whatever the generator's set
of reserved names is (keywords, builtins, …): if the package tree contains the stropped path and does not contain a
module under the *unstropped* reserved name, `do_import` returns the stropped path. -/
theorem C18_get_class_finds_stropped_package (reserved : String → Bool) (ex : List String → Bool)
    (comps : List String)
    (hgen : ∀ a b c, comps = a ++ c :: b → ex (a.map (strop reserved) ++ [strop reserved c]) = true)
    (hno : ∀ a b c, comps = a ++ c :: b → reserved c = true → ex (a.map (strop reserved) ++ [c]) = false) :
    doImport ex [] comps = some (comps.map (strop reserved)) := by
  have := doImport_strop reserved ex comps [] (by simpa using hgen) (by simpa using hno)
  simpa using this

/-- Non-vacuity: namespace `kw.filter.if` with builtins and keywords reserved. -/
example :
    let reserved := fun s => s = "filter" || s = "if"
    let tree := [["kw"], ["kw", "filter_"], ["kw", "filter_", "if_"]]
    doImport (fun p => tree.contains p) [] ["kw", "filter", "if"] = some ["kw", "filter_", "if_"]
    ∧ ["kw", "filter", "if"].map (strop reserved) = ["kw", "filter_", "if_"] := by
  constructor <;> decide

end NunavutVerif.PyObj
