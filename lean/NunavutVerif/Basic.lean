def hello := "world"
