/-
Line-protocol helpers shared by the correspondence drivers (core Lean only).
Strings travel as '.'-separated decimal Unicode scalar values ("" = empty string, written "-").
-/
namespace NunavutVerif.Proto

def splitOnChar (s : String) (c : Char) : List String :=
  (s.splitOn (String.singleton c))

/-- "97.98" ↦ ['a','b'];  "-" or "" ↦ []. -/
def decodeStr (s : String) : Option (List Char) :=
  if s = "-" ∨ s = "" then some [] else
  (splitOnChar s '.').mapM (fun t => t.toNat?.map Char.ofNat)

def encodeStr (cs : List Char) : String :=
  if cs.isEmpty then "-" else ".".intercalate (cs.map (fun c => toString c.toNat))

def decodeNat (s : String) : Option Nat := s.toNat?

def decodeInt (s : String) : Option Int := s.toInt?

/-- Read stdin line by line, answer each line with `f`. -/
partial def serve (f : String → String) : IO Unit := do
  let stdin ← IO.getStdin
  let stdout ← IO.getStdout
  let rec loop : IO Unit := do
    let line ← stdin.getLine
    if line.isEmpty then return ()
    let l := if line.endsWith "\n" then (line.dropEnd 1).toString else line
    stdout.putStrLn (f l)
    loop
  loop
  stdout.flush

end NunavutVerif.Proto
