import NunavutVerif.Lemmas.GenCppSer
/-!
GenCpp refinement, part 4: the *frame* of the generated C++ serializer.  Every `bitspan` setter changes exactly the
addressed bits (C14 contracts), so — unlike the C code, whose byte stores may overrun up to the next byte boundary —
the generated C++ serializer never changes a bit at or above its final cursor, and the function as a whole leaves
every byte at or above the size it returns as it was.  No hypothesis on the type or the object: the statement is
about every run that succeeds.
-/
namespace NunavutVerif.GenCpp
open NunavutVerif.Dsdl NunavutVerif.Bits
open NunavutVerif.GenC (AOff resBits W liftP eTooSmall eBadArrayLength eBadUnionTag eBadDelimiterHeader
  satInt isStd storW floatBits serLoop lowBits satV)

/-- a site that succeeds moves the cursor forward, keeps the size of the data and changes no bit at or above the new
cursor -/
def Below (r : Except Err W) (data : Buf) (off : Nat) : Prop :=
  ∀ d' off', r = .ok (d', off') →
    off ≤ off' ∧ d'.length = data.length ∧ (WF data → WF d') ∧ ∀ i, off' ≤ i → bitAt d' i = bitAt data i

/-- a generated function that succeeds keeps the size of its span and changes no bit at or above the size it returns -/
def FnBelow (inner : Buf → Nat → Except Err W) : Prop :=
  ∀ sub off0 sub' size, inner sub off0 = .ok (sub', size) →
    sub'.length = sub.length ∧ (WF sub → WF sub') ∧ ∀ i, 8 * size ≤ i → bitAt sub' i = bitAt sub i

theorem Below.refl (data : Buf) (off : Nat) : Below (.ok (data, off)) data off := by
  intro d' off' h
  simp only [Except.ok.injEq, Prod.mk.injEq] at h
  obtain ⟨rfl, rfl⟩ := h
  exact ⟨Nat.le_refl _, rfl, id, fun _ _ => rfl⟩

theorem Below.error (e : Err) (data : Buf) (off : Nat) : Below (.error e) data off := by
  intro d' off' h; cases h

/-- sequencing: what a later site leaves alone above its cursor, the earlier one left alone too -/
theorem Below.step {data d1 : Buf} {off o1 : Nat} {r : Except Err W}
    (h1 : o1 ≥ off ∧ d1.length = data.length ∧ (WF data → WF d1) ∧ ∀ i, o1 ≤ i → bitAt d1 i = bitAt data i)
    (h2 : Below r d1 o1) : Below r data off := by
  intro d' off' h
  obtain ⟨a1, a2, a3, a4⟩ := h2 d' off' h
  exact ⟨by omega, by omega, fun hw => a3 (h1.2.2.1 hw), fun i hi => by rw [a4 i hi, h1.2.2.2 i (by omega)]⟩

theorem assertX_below {o : Opts} {c : Prop} [Decidable c] {r : Except Err W} {data : Buf} {off : Nat}
    (h : Below r data off) : Below (assertX o c r) data off := by
  unfold assertX
  split
  · exact Below.error _ _ _
  · exact h

theorem anyGuardS_below {o : Opts} {t : Ty} {d : AOff} {b : Buf} {f : Nat} {r : Except Err W} {data : Buf} {off : Nat}
    (h : Below r data off) : Below (anyGuardS o t d b f r) data off := by
  unfold anyGuardS
  exact assertX_below (assertX_below (assertX_below h))

/-! ### the setters -/

theorem setUxx_frame (data : Buf) (off value n : Nat) (d' : Buf)
    (h : chkX (Cpp.setUxx ⟨data, off⟩ value n) = .ok d') :
    d'.length = data.length ∧ (WF data → WF d') ∧ ∀ i, off + n ≤ i → bitAt d' i = bitAt data i := by
  rw [Cpp.setUxx_eq] at h
  by_cases hs : data.length * 8 < off + n
  · simp [Bits.setUxx, hs, chkX, errTooSmall] at h
  · obtain ⟨r, hr, hl, hwf, hbits⟩ := setUxx_spec false data data.length off value n (Nat.le_refl _) hs
    rw [hr, chkX_ok] at h
    cases h
    exact ⟨hl, hwf, fun i hi => by rw [hbits i, if_neg (by omega)]⟩

theorem serInt_below (signed : Bool) (n : Nat) (sat : Bool) (v : Int) (data : Buf) (off : Nat) :
    Below (serInt signed n sat v data off) data off := by
  intro d' off' h
  unfold serInt at h
  simp only at h
  have hsv : (if sat = true ∧ ¬ isStd n = true then satInt signed n v else v) = satV signed n sat v := rfl
  rw [hsv] at h
  generalize satV signed n sat v = z at h
  have e : (if signed = true then Cpp.setIxx ⟨data, off⟩ z n else Cpp.setUxx ⟨data, off⟩ (toU64 z) n)
      = Cpp.setUxx ⟨data, off⟩ (lowBits 64 z) n := by
    cases signed <;> rfl
  rw [e] at h
  cases hc : chkX (Cpp.setUxx ⟨data, off⟩ (lowBits 64 z) n) with
  | error e => rw [hc] at h; cases h
  | ok d =>
    rw [hc] at h
    simp only [Except.ok.injEq, Prod.mk.injEq] at h
    obtain ⟨rfl, rfl⟩ := h
    obtain ⟨hl, hwf, hf⟩ := setUxx_frame data off _ n d hc
    exact ⟨by omega, hl, hwf, hf⟩

theorem serFloat_below (n : Nat) (m : Cast) (x : Nat) (data : Buf) (off : Nat) :
    Below (serFloat n m x data off) data off := by
  intro d' off' h
  unfold serFloat at h
  cases hc : chkX (Cpp.setUxx ⟨data, off⟩ (floatBits n m x) n) with
  | error e => rw [hc] at h; cases h
  | ok d =>
    rw [hc] at h
    simp only [Except.ok.injEq, Prod.mk.injEq] at h
    obtain ⟨rfl, rfl⟩ := h
    obtain ⟨hl, hwf, hf⟩ := setUxx_frame data off _ n d hc
    exact ⟨by omega, hl, hwf, hf⟩

theorem serVoid_below (n : Nat) (data : Buf) (off : Nat) : Below (serVoid n data off) data off := by
  intro d' off' h
  unfold serVoid at h
  by_cases hs : n > Cpp.Span.size ⟨data, off⟩
  · rw [Cpp.setZeros_small _ _ hs] at h
    simp [chkX, errTooSmall] at h
  · obtain ⟨r, hr, hl, hwf, hbits⟩ := Cpp.setZeros_spec ⟨data, off⟩ n hs
    rw [hr, chkX_ok] at h
    simp only [Except.ok.injEq, Prod.mk.injEq] at h
    obtain ⟨rfl, rfl⟩ := h
    exact ⟨by omega, hl, hwf, fun i hi => by rw [hbits i, if_neg (by simp only; omega)]⟩

theorem serBool_below (v : Bool) (data : Buf) (off : Nat) : Below (serBool v data off) data off := by
  intro d' off' h
  unfold serBool at h
  rw [Cpp.setBit_eq] at h
  by_cases hs : data.length * 8 ≤ off
  · simp [Bits.setBit, hs, chkX, errTooSmall] at h
  · obtain ⟨r, hr, hl, hwf, hbits⟩ := setBit_spec data data.length off v (Nat.le_refl _) hs
    rw [hr, chkX_ok] at h
    simp only [Except.ok.injEq, Prod.mk.injEq] at h
    obtain ⟨rfl, rfl⟩ := h
    exact ⟨by omega, hl, hwf, fun i hi => by rw [hbits i, if_neg (by omega)]⟩

theorem padSer_below (n : Nat) (data : Buf) (off : Nat) (hn : n = 1 ∨ n = 8) : Below (padSer n data off) data off := by
  rcases hn with rfl | rfl
  · unfold padSer
    simp only [show ¬ (1 > 1) by decide, if_false]
    exact Below.refl _ _
  · intro d' off' h
    unfold padSer at h
    simp only [show (8 : Nat) > 1 by decide, if_true] at h
    obtain ⟨h1, h2, h3⟩ := Cpp.pad_spec ⟨data, off⟩ 8 (by decide) (by decide)
    by_cases ha : off % 8 = 0
    · rw [h1 ha] at h
      simp only [ne_eq, not_true_eq_false, if_false, Except.ok.injEq, Prod.mk.injEq] at h
      obtain ⟨rfl, rfl⟩ := h
      exact ⟨Nat.le_refl _, rfl, id, fun _ _ => rfl⟩
    · by_cases hs : 8 - off % 8 > Cpp.Span.size ⟨data, off⟩
      · rw [h2 ha hs] at h
        simp [errTooSmall] at h
      · obtain ⟨r, hr, _, hl, hwf, hbits⟩ := h3 ha hs
        simp only at hr hl hwf hbits
        rw [hr] at h
        simp only [ne_eq, not_true_eq_false, if_false, Except.ok.injEq, Prod.mk.injEq] at h
        obtain ⟨rfl, rfl⟩ := h
        exact ⟨by omega, hl, hwf, fun i hi => by rw [hbits i, if_neg (by omega)]⟩

/-! ### loops, nested calls, the function skeleton -/

theorem serLoop_below (elem : Val → Buf → Nat → Except Err W) (helem : ∀ v b f, Below (elem v b f) b f) :
    ∀ (vs : List Val) (data : Buf) (off : Nat), Below (serLoop elem vs data off) data off := by
  intro vs
  induction vs with
  | nil => intro data off; simp only [serLoop]; exact Below.refl _ _
  | cons v vs ih =>
    intro data off
    simp only [serLoop]
    cases hc : elem v data off with
    | error e => exact Below.error _ _ _
    | ok p =>
      obtain ⟨b, o'⟩ := p
      exact Below.step (helem v data off b o' hc) (ih b o')

theorem window_frame (inner : Buf → Nat → Except Err W) (hin : FnBelow inner) (data : Buf)
    (first nbytes noff : Nat) (sub : Buf) (size : Nat) (h3 : first + nbytes ≤ data.length)
    (hi : inner ((data.drop first).take nbytes) noff = .ok (sub, size)) :
    (data.take first ++ sub ++ data.drop (first + nbytes)).length = data.length ∧
    (WF data → WF (data.take first ++ sub ++ data.drop (first + nbytes))) ∧
    ∀ i, 8 * first + size * 8 ≤ i →
      bitAt (data.take first ++ sub ++ data.drop (first + nbytes)) i = bitAt data i := by
  have hwl : ((data.drop first).take nbytes).length = nbytes := by
    simp only [List.length_take, List.length_drop]; omega
  obtain ⟨hl, hwf, hf⟩ := hin _ _ _ _ hi
  rw [hwl] at hl
  have htl : (data.take first).length = first := by simp [List.length_take]; omega
  refine ⟨by simp only [List.length_append, htl, hl, List.length_drop]; omega, ?_, ?_⟩
  · intro hw
    exact GenC.WF_append (GenC.WF_append (GenC.WF_take hw _) (hwf (GenC.WF_take (GenC.WF_drop hw _) _)))
      (GenC.WF_drop hw _)
  intro i hi'
  rw [GenC.bitAt_append, GenC.bitAt_append, htl]
  simp only [List.length_append, htl, hl]
  by_cases hA : i < 8 * (first + nbytes)
  · rw [if_pos hA, if_neg (by omega), hf _ (by omega), GenC.bitAt_take, GenC.bitAt_drop]
    have : (i - 8 * first) / 8 < nbytes := by omega
    simp only [this, decide_true, Bool.true_and]
    congr 1; omega
  · rw [if_neg hA, GenC.bitAt_drop]
    congr 1; omega

theorem nestedSer_below (o : Opts) (inner : Buf → Nat → Except Err W) (hin : FnBelow inner) (isDelim : Bool)
    (minB maxB : Nat) (data : Buf) (off : Nat) :
    Below (nestedSer o inner isDelim minB maxB data off) data off := by
  intro d' off' h
  unfold nestedSer at h
  simp only at h
  generalize (maxB + 7) / 8 * 8 = S at h
  cases isDelim with
  | false =>
    simp only [Bool.false_eq_true, if_false] at h
    obtain ⟨s1, s2⟩ := Cpp.subspan_spec ⟨data, off⟩ 0 S
    by_cases hs : data.length * 8 < off + 0 + S
    · rw [s1 (by simpa using hs)] at h
      simp [errTooSmall] at h
    · obtain ⟨first, nbytes, noff, hsub, h1, h2, h3, _⟩ := s2 (by simpa using hs)
      simp only at h1 h3
      rw [hsub] at h
      simp only [ne_eq, not_true_eq_false, if_false] at h
      unfold assertX at h
      split at h
      · cases h
      · cases hi : inner ((data.drop first).take nbytes) noff with
        | error e => rw [hi] at h; cases h
        | ok p =>
          obtain ⟨sub, size⟩ := p
          rw [hi] at h
          simp only at h
          split at h
          · cases h
          · obtain ⟨kl, kw, kf⟩ := window_frame inner hin data first nbytes noff sub size h3 hi
            simp only [Except.ok.injEq, Prod.mk.injEq] at h
            obtain ⟨rfl, rfl⟩ := h
            exact ⟨by omega, kl, kw, fun i hi' => kf i (by omega)⟩
  | true =>
    simp only [if_true] at h
    obtain ⟨s1, s2⟩ := Cpp.subspan_spec ⟨data, off⟩ 32 S
    by_cases hs : data.length * 8 < off + 32 + S
    · rw [s1 (by simpa using hs)] at h
      simp [errTooSmall] at h
    · obtain ⟨first, nbytes, noff, hsub, h1, h2, h3, _⟩ := s2 (by simpa using hs)
      simp only at h1 h3
      rw [hsub] at h
      simp only [ne_eq, not_true_eq_false, if_false] at h
      unfold assertX at h
      split at h
      · cases h
      · cases hi : inner ((data.drop first).take nbytes) noff with
        | error e => rw [hi] at h; cases h
        | ok p =>
          obtain ⟨sub, size⟩ := p
          rw [hi] at h
          simp only at h
          split at h
          · cases h
          · obtain ⟨kl, kw, kf⟩ := window_frame inner hin data first nbytes noff sub size h3 hi
            cases hc : chkX (Cpp.setUxx ⟨data.take first ++ sub ++ data.drop (first + nbytes), off⟩ size 32) with
            | error e => rw [hc] at h; cases h
            | ok d =>
              rw [hc] at h
              simp only [Except.ok.injEq, Prod.mk.injEq] at h
              obtain ⟨rfl, rfl⟩ := h
              obtain ⟨hl, hwf, hf⟩ := setUxx_frame _ off size 32 d hc
              exact ⟨by omega, by omega, fun hw => hwf (kw hw), fun i hi' => by rw [hf i (by omega), kf i (by omega)]⟩

theorem topSer_fnBelow (o : Opts) (minB maxB : Nat) (body : Buf → Nat → Except Err W)
    (hbody : ∀ b f, Below (body b f) b f) : FnBelow (topSer o minB maxB body) := by
  intro sub off0 sub' size h
  unfold topSer at h
  split at h
  · simp only [Except.ok.injEq, Prod.mk.injEq] at h
    obtain ⟨rfl, rfl⟩ := h
    exact ⟨rfl, id, fun _ _ => rfl⟩
  · split at h
    · cases h
    · unfold assertX at h
      split at h
      · cases h
      · cases hb : body sub off0 with
        | error e => rw [hb] at h; cases h
        | ok p =>
          obtain ⟨d1, o1⟩ := p
          rw [hb] at h
          simp only at h
          cases hp : padSer 8 d1 o1 with
          | error e => rw [hp] at h; cases h
          | ok q =>
            obtain ⟨d2, o2⟩ := q
            rw [hp] at h
            simp only at h
            split at h
            · cases h
            · split at h
              · cases h
              · simp only [Except.ok.injEq, Prod.mk.injEq] at h
                obtain ⟨rfl, rfl⟩ := h
                obtain ⟨a1, a2, a3, a4⟩ := hbody sub off0 d1 o1 hb
                obtain ⟨b1, b2, b3, b4⟩ := padSer_below 8 d1 o1 (Or.inr rfl) d2 o2 hp
                refine ⟨by omega, fun hw => b3 (a3 hw), fun i hi => ?_⟩
                simp only [offsetBytesCeil] at hi
                rw [b4 i (by omega), a4 i (by omega)]

/-! ### the induction over the type -/

def BelowP (o : Opts) (t : Ty) : Prop :=
  (∀ v d data off, Below (serAny o t v d data off) data off) ∧ (∀ v, FnBelow (serFn o t v))

theorem serFields_below (o : Opts) : ∀ fs : List Ty, (∀ f ∈ fs, BelowP o f) →
    ∀ (vs : List Val) (first : Bool) (d : AOff) (data : Buf) (off : Nat),
      Below (GenCpp.serFields o fs vs first d data off) data off := by
  intro fs
  induction fs with
  | nil =>
    intro _ vs first d data off
    cases vs with
    | nil => simp only [GenCpp.serFields]; exact Below.refl _ _
    | cons v vs => simp only [GenCpp.serFields]; exact Below.error _ _ _
  | cons f fs ih =>
    intro hT vs first d data off
    cases vs with
    | nil => simp only [GenCpp.serFields]; exact Below.error _ _ _
    | cons v vs =>
      simp only [GenCpp.serFields]
      have hpad : Below (if first = true then (Except.ok (data, off) : Except Err W) else padSer (align f) data off)
          data off := by
        cases first with
        | true => simp only [if_true]; exact Below.refl _ _
        | false => simp only [Bool.false_eq_true, if_false]; exact padSer_below _ _ _ (align_cases f)
      cases hp : (if first = true then (Except.ok (data, off) : Except Err W) else padSer (align f) data off) with
      | error e => exact Below.error _ _ _
      | ok p =>
        obtain ⟨d0, o0⟩ := p
        simp only
        have h1 : Below (anyGuardS o f (d.pad (align f)) d0 o0 (serAny o f v (d.pad (align f)) d0 o0)) d0 o0 :=
          anyGuardS_below ((hT f (by simp)).1 v _ d0 o0)
        cases hc : anyGuardS o f (d.pad (align f)) d0 o0 (serAny o f v (d.pad (align f)) d0 o0) with
        | error e => exact Below.error _ _ _
        | ok q =>
          obtain ⟨d1, o1⟩ := q
          simp only
          exact Below.step (hpad d0 o0 hp)
            (Below.step (h1 d1 o1 hc) (ih (fun g hg => hT g (List.mem_cons_of_mem _ hg)) vs false _ d1 o1))

theorem serNth_below (o : Opts) : ∀ fs : List Ty, (∀ f ∈ fs, BelowP o f) →
    ∀ (k : Nat) (v : Val) (d : AOff) (data : Buf) (off : Nat),
      Below (GenCpp.serNth o fs k v d data off) data off := by
  intro fs
  induction fs with
  | nil => intro _ k v d data off; simp only [GenCpp.serNth]; exact Below.error _ _ _
  | cons f fs ih =>
    intro hT k v d data off
    cases k with
    | zero => simp only [GenCpp.serNth]; exact anyGuardS_below ((hT f (by simp)).1 v d data off)
    | succ k =>
      simp only [GenCpp.serNth]
      exact ih (fun g hg => hT g (List.mem_cons_of_mem _ hg)) k v d data off

theorem unionBody_below (o : Opts) (fs : List Ty) (hT : ∀ f ∈ fs, BelowP o f) (k : Nat) (v : Val) (b : Buf) (f : Nat) :
    Below (match serInt false (tagBits fs.length) false (k : Int) b f with
      | .error e => .error e
      | .ok (b, f) => GenCpp.serNth o fs k v (AOff.single (tagBits fs.length)) b f) b f := by
  cases hc : serInt false (tagBits fs.length) false (k : Int) b f with
  | error e => exact Below.error _ _ _
  | ok p =>
    obtain ⟨b1, f1⟩ := p
    exact Below.step (serInt_below _ _ _ _ b f b1 f1 hc) (serNth_below o fs hT k v _ b1 f1)

theorem belowP (o : Opts) (t : Ty) : BelowP o t := by
  refine Ty.ind (P := BelowP o) ?_ ?_ ?_ ?_ ?_ ?_ ?_ ?_ ?_ ?_ t
  · intro n m
    refine ⟨fun v d data off => ?_, fun v => ?_⟩
    · cases v <;> simp only [serAny] <;> first | exact serInt_below _ _ _ _ _ _ | exact Below.error _ _ _
    · intro sub off0 sub' size h; cases v <;> simp [serFn] at h
  · intro n m
    refine ⟨fun v d data off => ?_, fun v => ?_⟩
    · cases v <;> simp only [serAny] <;> first | exact serInt_below _ _ _ _ _ _ | exact Below.error _ _ _
    · intro sub off0 sub' size h; cases v <;> simp [serFn] at h
  · intro n m
    refine ⟨fun v d data off => ?_, fun v => ?_⟩
    · cases v <;> simp only [serAny] <;> first | exact serFloat_below _ _ _ _ _ | exact Below.error _ _ _
    · intro sub off0 sub' size h; cases v <;> simp [serFn] at h
  · refine ⟨fun v d data off => ?_, fun v => ?_⟩
    · cases v <;> simp only [serAny] <;> first | exact serBool_below _ _ _ | exact Below.error _ _ _
    · intro sub off0 sub' size h; cases v <;> simp [serFn] at h
  · intro n
    refine ⟨fun v d data off => ?_, fun v => ?_⟩
    · cases v <;> simp only [serAny] <;> first | exact serVoid_below _ _ _ | exact Below.error _ _ _
    · intro sub off0 sub' size h; cases v <;> simp [serFn] at h
  · -- fixed array
    intro t n ih
    refine ⟨fun v d data off => ?_, fun v => ?_⟩
    · cases v with
      | arr vs =>
        simp only [serAny]
        split
        · have hl := serLoop_below
            (fun v b f => anyGuardS o t (d.add (AOff.rangeRep (resBits t) (n - 1) AOff.zero)) b f
              (serAny o t v (d.add (AOff.rangeRep (resBits t) (n - 1) AOff.zero)) b f))
            (fun v b f => anyGuardS_below (ih.1 v _ b f)) vs data off
          cases hc : serLoop (fun v b f => anyGuardS o t (d.add (AOff.rangeRep (resBits t) (n - 1) AOff.zero)) b f
              (serAny o t v (d.add (AOff.rangeRep (resBits t) (n - 1) AOff.zero)) b f)) vs data off with
          | error e => exact Below.error _ _ _
          | ok p =>
            obtain ⟨b1, o1⟩ := p
            simp only
            exact assertX_below (Below.step (hl b1 o1 hc) (Below.refl _ _))
        · exact Below.error _ _ _
      | _ => simp only [serAny]; exact Below.error _ _ _
    · intro sub off0 sub' size h; cases v <;> simp [serFn] at h
  · -- variable array
    intro t c ih
    refine ⟨fun v d data off => ?_, fun v => ?_⟩
    · cases v with
      | arr vs =>
        simp only [serAny]
        split
        · exact Below.error _ _ _
        · cases hc : serInt false (prefixBits c) false (vs.length : Int) data off with
          | error e => exact Below.error _ _ _
          | ok p =>
            obtain ⟨b1, o1⟩ := p
            simp only
            exact Below.step (serInt_below _ _ _ _ data off b1 o1 hc)
              (assertX_below (serLoop_below _ (fun v b f => anyGuardS_below (ih.1 v _ b f)) vs b1 o1))
      | _ => simp only [serAny]; exact Below.error _ _ _
    · intro sub off0 sub' size h; cases v <;> simp [serFn] at h
  · -- struct
    intro fs ih
    have hfn : ∀ vs, FnBelow (topSer o (minBits (.struct fs)) (maxBits (.struct fs))
        (fun b f => GenCpp.serFields o fs vs true AOff.zero b f)) :=
      fun vs => topSer_fnBelow o _ _ _ (fun b f => serFields_below o fs ih vs true _ b f)
    refine ⟨fun v d data off => ?_, fun v => ?_⟩
    · cases v with
      | struct vs => simp only [serAny]; exact nestedSer_below o _ (hfn vs) _ _ _ _ _
      | _ => simp only [serAny]; exact Below.error _ _ _
    · cases v with
      | struct vs =>
        have e : serFn o (.struct fs) (.struct vs) = topSer o (minBits (.struct fs)) (maxBits (.struct fs))
            (fun b f => GenCpp.serFields o fs vs true AOff.zero b f) := by
          funext b c; simp only [serFn]
        rw [e]; exact hfn vs
      | _ => intro sub off0 sub' size h; simp [serFn] at h
  · -- union
    intro fs ih
    have hfn : ∀ (k : Nat) (v : Val), FnBelow (topSer o (minBits (.union fs)) (maxBits (.union fs)) (fun b f =>
        match serInt false (tagBits fs.length) false (k : Int) b f with
        | .error e => .error e
        | .ok (b, f) => GenCpp.serNth o fs k v (AOff.single (tagBits fs.length)) b f)) :=
      fun k v => topSer_fnBelow o _ _ _ (fun b f => unionBody_below o fs ih k v b f)
    refine ⟨fun v d data off => ?_, fun v => ?_⟩
    · cases v with
      | union k v => simp only [serAny]; exact nestedSer_below o _ (hfn k v) _ _ _ _ _
      | _ => simp only [serAny]; exact Below.error _ _ _
    · cases v with
      | union k v =>
        have e : serFn o (.union fs) (.union k v) = topSer o (minBits (.union fs)) (maxBits (.union fs)) (fun b f =>
            match serInt false (tagBits fs.length) false (k : Int) b f with
            | .error e => .error e
            | .ok (b, f) => GenCpp.serNth o fs k v (AOff.single (tagBits fs.length)) b f) := by
          funext b c; simp only [serFn] <;> rfl
        rw [e]; exact hfn k v
      | _ => intro sub off0 sub' size h; simp [serFn] at h
  · -- delimited
    intro ext inner ih
    refine ⟨fun v d data off => ?_, fun v => ?_⟩
    · have e : serAny o (.delim ext inner) v d data off =
          nestedSer o (serFn o inner v) true (minBits inner) (maxBits inner) data off := by
        cases v <;> simp only [serAny]
      rw [e]
      exact nestedSer_below o _ (ih.2 v) _ _ _ _ _
    · have e : serFn o (.delim ext inner) v = serFn o inner v := by
        funext b c; cases v <;> simp only [serFn]
      rw [e]; exact ih.2 v

/-- **Frame of the generated serializer**: a run that succeeds keeps the size of the buffer and changes no bit at or
above the size it returns. -/
theorem serializeCpp_frame (o : Opts) (t : Ty) (v : Val) (buf buf' : Buf) (n : Nat)
    (h : serializeCpp o t v buf = .ok (buf', n)) :
    buf'.length = buf.length ∧ (WF buf → WF buf') ∧ ∀ i, 8 * n ≤ i → bitAt buf' i = bitAt buf i :=
  (belowP o t).2 v buf 0 buf' n h

/-- the same on bytes: everything from the returned size on is what the buffer held before the call -/
theorem serializeCpp_tail_untouched (o : Opts) (t : Ty) (v : Val) (buf buf' : Buf) (n : Nat) (hwf : WF buf)
    (h : serializeCpp o t v buf = .ok (buf', n)) : buf'.drop n = buf.drop n := by
  obtain ⟨hl, hw, hf⟩ := serializeCpp_frame o t v buf buf' n h
  apply eq_of_bitAt
  · simp only [List.length_drop, hl]
  · exact GenC.WF_drop (hw hwf) _
  · exact GenC.WF_drop hwf _
  · intro i
    rw [GenC.bitAt_drop, GenC.bitAt_drop]
    exact hf _ (by omega)

end NunavutVerif.GenCpp
