import NunavutVerif.Model.GenC
import NunavutVerif.Lemmas.Bits
import NunavutVerif.Lemmas.DsdlBytes
import NunavutVerif.Lemmas.DsdlLen
/-!
GenC refinement, part 1: the bridge between the spec's bit lists (`List Bool`, `natToBits`, `readNat`, `packBytes`,
`unpackBytes`) and the checked byte buffers of the C14 primitive models (`bitAt`, `zbit`, `fieldOf`).
-/
namespace NunavutVerif.GenC
open NunavutVerif.Dsdl NunavutVerif.Bits

/-- bit `i` of a bit list, `false` past the end -/
def gb (bs : List Bool) (i : Nat) : Bool := bs.getD i false

theorem gb_nil (i : Nat) : gb [] i = false := by simp [gb]

theorem gb_cons_zero (b : Bool) (bs : List Bool) : gb (b :: bs) 0 = b := by simp [gb]

theorem gb_cons_succ (b : Bool) (bs : List Bool) (i : Nat) : gb (b :: bs) (i + 1) = gb bs i := by simp [gb]

theorem gb_of_ge {bs : List Bool} {i : Nat} (h : bs.length ≤ i) : gb bs i = false := by
  simp [gb, List.getD_eq_getElem?_getD, List.getElem?_eq_none h]

theorem gb_append (a b : List Bool) (i : Nat) :
    gb (a ++ b) i = if i < a.length then gb a i else gb b (i - a.length) := by
  unfold gb
  simp only [List.getD_eq_getElem?_getD]
  by_cases h : i < a.length
  · simp [h, List.getElem?_append_left h]
  · simp [h, List.getElem?_append_right (Nat.le_of_not_lt h)]

theorem gb_drop (bs : List Bool) (k i : Nat) : gb (bs.drop k) i = gb bs (k + i) := by
  simp [gb, List.getD_eq_getElem?_getD, List.getElem?_drop]

theorem gb_take (bs : List Bool) (k i : Nat) : gb (bs.take k) i = (decide (i < k) && gb bs i) := by
  unfold gb
  simp only [List.getD_eq_getElem?_getD, List.getElem?_take]
  by_cases h : i < k <;> simp [h]

theorem gb_zeros (k i : Nat) : gb (zeros k) i = false := by
  unfold gb zeros
  simp only [List.getD_eq_getElem?_getD, List.getElem?_replicate]
  by_cases h : i < k <;> simp [h]

theorem gb_singleton (b : Bool) (i : Nat) : gb [b] i = (decide (i = 0) && b) := by
  cases i <;> simp [gb]

/-- two bit lists of the same length with the same bits are equal -/
theorem ext_gb {a b : List Bool} (hl : a.length = b.length) (h : ∀ i, i < a.length → gb a i = gb b i) : a = b := by
  apply List.ext_getElem hl
  intro i h1 h2
  have := h i h1
  simpa [gb, List.getD_eq_getElem?_getD, List.getElem?_eq_getElem h1, List.getElem?_eq_getElem h2] using this

theorem gb_natToBits (n : Nat) : ∀ (x i : Nat), gb (natToBits n x) i = (decide (i < n) && x.testBit i) := by
  induction n with
  | zero => intro x i; simp [natToBits, gb_nil]
  | succ n ih =>
    intro x i
    cases i with
    | zero =>
      simp only [natToBits, gb_cons_zero, Nat.testBit_zero]
      by_cases h : x % 2 = 1 <;> simp [h]
    | succ i =>
      simp only [natToBits, gb_cons_succ, ih, Nat.testBit_succ]
      by_cases h : i < n <;> simp [h]

theorem gb_unpackBytes (b : Buf) : ∀ i, gb (unpackBytes b) i = bitAt b i := by
  induction b with
  | nil => intro i; simp [unpackBytes, gb_nil, bitAt_nil]
  | cons x xs ih =>
    intro i
    simp only [unpackBytes, gb_append, natToBits_length, gb_natToBits, bitAt_cons, ih]
    by_cases h : i < 8 <;> simp [h]

theorem testBit_bitsToNat (bs : List Bool) : ∀ i, (bitsToNat bs).testBit i = gb bs i := by
  induction bs with
  | nil => intro i; simp [bitsToNat, gb_nil]
  | cons b bs ih =>
    intro i
    cases i with
    | zero =>
      simp only [bitsToNat, gb_cons_zero, Nat.testBit_zero]
      cases b <;> simp <;> omega
    | succ i =>
      simp only [bitsToNat, gb_cons_succ, Nat.testBit_succ]
      rw [← ih i]
      congr 1
      cases b <;> simp <;> omega

theorem readNat_eq_fieldOf (n : Nat) (bs : List Bool) : readNat n bs = fieldOf (gb bs) n := by
  apply Nat.eq_of_testBit_eq
  intro i
  simp only [readNat, testBit_bitsToNat, gb_take, testBit_fieldOf]

theorem fieldOf_congr {f g : Nat → Bool} {n : Nat} (h : ∀ i, i < n → f i = g i) : fieldOf f n = fieldOf g n := by
  apply Nat.eq_of_testBit_eq
  intro i
  simp only [testBit_fieldOf]
  by_cases hi : i < n
  · simp [hi, h i hi]
  · simp [hi]

/-! ### bytes of a buffer as bits -/

/-- the bits a deserializer sees: the first `cap` bytes of the buffer -/
def bitsOf (buf : Buf) (cap : Nat) : List Bool := unpackBytes (buf.take cap)

theorem bitsOf_length {buf : Buf} {cap : Nat} (h : cap ≤ buf.length) : (bitsOf buf cap).length = 8 * cap := by
  simp [bitsOf, unpackBytes_length, List.length_take, Nat.min_eq_left h]

theorem bitAt_take (b : Buf) (k i : Nat) : bitAt (b.take k) i = (decide (i / 8 < k) && bitAt b i) := by
  unfold bitAt
  simp only [List.getElem?_take]
  by_cases h : i / 8 < k <;> simp [h]

theorem gb_bitsOf (buf : Buf) (cap i : Nat) : gb (bitsOf buf cap) i = zbit buf cap i := by
  simp only [bitsOf, gb_unpackBytes, bitAt_take, zbit]
  congr 1
  by_cases h : i / 8 < cap
  · simp [h]; omega
  · simp [h]; omega

theorem readNat_bitsOf (buf : Buf) (cap off n : Nat) :
    readNat n ((bitsOf buf cap).drop off) = fieldOf (fun i => zbit buf cap (off + i)) n := by
  rw [readNat_eq_fieldOf]
  apply fieldOf_congr
  intro i _
  rw [gb_drop, gb_bitsOf]

theorem bitAt_drop (b : Buf) (k i : Nat) : bitAt (b.drop k) i = bitAt b (8 * k + i) := by
  unfold bitAt
  have e1 : (8 * k + i) / 8 = k + i / 8 := by omega
  have e2 : (8 * k + i) % 8 = i % 8 := by omega
  simp [List.getElem?_drop, e1, e2]

theorem bitAt_append (a b : Buf) (i : Nat) :
    bitAt (a ++ b) i = if i < 8 * a.length then bitAt a i else bitAt b (i - 8 * a.length) := by
  unfold bitAt
  by_cases h : i < 8 * a.length
  · have : i / 8 < a.length := by omega
    simp [h, List.getElem?_append_left this]
  · have h1 : a.length ≤ i / 8 := by omega
    have e1 : (i - 8 * a.length) / 8 = i / 8 - a.length := by omega
    have e2 : (i - 8 * a.length) % 8 = i % 8 := by omega
    simp [h, List.getElem?_append_right h1, e1, e2]

theorem unpackBytes_drop (b : Buf) (k : Nat) : unpackBytes (b.drop k) = (unpackBytes b).drop (8 * k) := by
  apply ext_gb
  · simp [unpackBytes_length, List.length_drop]; omega
  · intro i _
    rw [gb_unpackBytes, gb_drop, gb_unpackBytes, bitAt_drop]

theorem unpackBytes_take (b : Buf) (k : Nat) : unpackBytes (b.take k) = (unpackBytes b).take (8 * k) := by
  apply ext_gb
  · simp [unpackBytes_length, List.length_take]
  · intro i hi
    rw [gb_unpackBytes, gb_take, gb_unpackBytes, bitAt_take]
    congr 1
    by_cases h : i / 8 < k
    · simp [h]; omega
    · simp [h]; omega

/-- the sub-buffer a nested deserializer gets: `&buffer[k]` with `size` bytes -/
theorem bitsOf_sub {buf : Buf} {cap k size : Nat} (h : k + size ≤ cap) :
    bitsOf (buf.drop k) size = ((bitsOf buf cap).drop (8 * k)).take (8 * size) := by
  unfold bitsOf
  rw [← unpackBytes_drop, ← unpackBytes_take]
  congr 1
  rw [List.drop_take, List.take_take]
  congr 1
  omega

/-! ### WF -/

theorem WF_take {b : Buf} (h : WF b) (k : Nat) : WF (b.take k) := fun x hx => h x (List.mem_of_mem_take hx)

theorem WF_drop {b : Buf} (h : WF b) (k : Nat) : WF (b.drop k) := fun x hx => h x (List.mem_of_mem_drop hx)

theorem WF_append {a b : Buf} (ha : WF a) (hb : WF b) : WF (a ++ b) := by
  intro x hx
  rcases List.mem_append.mp hx with h | h
  · exact ha x h
  · exact hb x h

theorem WF_replicate' (n v : Nat) (hv : v < 256) : WF (List.replicate n v) := by
  intro x hx
  rw [List.mem_replicate] at hx
  omega

theorem bitsToNat_lt_256 (bs : List Bool) (h : bs.length ≤ 8) : bitsToNat bs < 256 := by
  have := bitsToNat_lt bs
  have : 2 ^ bs.length ≤ 2 ^ 8 := Nat.pow_le_pow_right (by decide) h
  omega

theorem WF_packBytes (bs : List Bool) : WF (packBytes bs) := by
  fun_induction packBytes bs with
  | case1 => intro x hx; cases hx
  | case2 b0 b1 b2 b3 b4 b5 b6 b7 rest ih =>
    intro x hx
    rcases List.mem_cons.mp hx with h | h
    · subst h; exact bitsToNat_lt_256 _ (by simp)
    · exact ih x h
  | case3 bs h1 h2 =>
    intro x hx
    simp only [List.mem_singleton] at hx
    subst hx
    apply bitsToNat_lt_256
    -- fewer than 8 bits are left
    match bs, h2 with
    | [], _ => simp
    | [_], _ => simp
    | [_, _], _ => simp
    | [_, _, _], _ => simp
    | [_, _, _, _], _ => simp
    | [_, _, _, _, _], _ => simp
    | [_, _, _, _, _, _], _ => simp
    | [_, _, _, _, _, _, _], _ => simp
    | _ :: _ :: _ :: _ :: _ :: _ :: _ :: _ :: _, h2 => exact absurd rfl (h2 _ _ _ _ _ _ _ _ _)

theorem bitAt_packBytes (bs : List Bool) (i : Nat) : bitAt (packBytes bs) i = gb bs i := by
  rw [← gb_unpackBytes, unpack_pack, gb_append]
  by_cases h : i < bs.length
  · simp [h]
  · simp [h, gb_zeros, gb_of_ge (Nat.le_of_not_lt h)]

/-- The result bytes: a buffer whose first `8k` bits are `bits` starts with `packBytes bits`. -/
theorem take_eq_packBytes {buf : Buf} {bits : List Bool} {k : Nat} (hw : WF buf) (hk : k ≤ buf.length)
    (hl : bits.length = 8 * k) (h : ∀ i, i < bits.length → bitAt buf i = gb bits i) :
    buf.take k = packBytes bits := by
  apply eq_of_bitAt
  · rw [packBytes_length, List.length_take, hl]; omega
  · exact WF_take hw k
  · exact WF_packBytes bits
  · intro i
    rw [bitAt_take, bitAt_packBytes]
    by_cases hi : i < bits.length
    · have : i / 8 < k := by omega
      simp [this, h i hi]
    · have : ¬ i / 8 < k := by omega
      simp [this, gb_of_ge (Nat.le_of_not_lt hi)]

end NunavutVerif.GenC
