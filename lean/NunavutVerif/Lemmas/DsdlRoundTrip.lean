import NunavutVerif.Lemmas.DsdlLen
import NunavutVerif.Lemmas.DsdlFloat
/-!
Round trip of the DSDL specification model: decoding what the serializer produced (followed by anything)
returns the cast-adjusted value and consumes exactly the produced bits.
-/
namespace NunavutVerif.Dsdl

/-- The claim proved by induction over the type. -/
def RtOK (t : Ty) : Prop :=
  wf t = true → ∀ v bs, serBits t v = .ok bs →
    ∀ rest, deBits t (bs ++ rest) = .ok (castAdjust t v, bs.length)

theorem serAll_rt {t : Ty}
    (h : ∀ v bs, serBits t v = .ok bs → ∀ rest, deBits t (bs ++ rest) = .ok (castAdjust t v, bs.length)) :
    ∀ vs bs, serAllWith (serBits t) vs = .ok bs →
      ∀ rest, deAllWith (deBits t) vs.length (bs ++ rest) = .ok (List.map (castAdjust t) vs, bs.length) := by
  intro vs
  induction vs with
  | nil => intro bs hs rest; simp [serAllWith] at hs; subst hs; simp [deAllWith, List.map]
  | cons v vs ih =>
    intro bs hs rest
    simp only [serAllWith] at hs
    split at hs
    · cases hs
    · rename_i a ha
      split at hs
      · cases hs
      · rename_i b hb
        cases hs
        have h1 := h v a ha (b ++ rest)
        have h2 := ih b hb rest
        simp only [List.length_cons, deAllWith, List.append_assoc, h1, List.drop_left, h2, List.map,
          List.length_append]

theorem serFields_rt {fs : List Ty} (ih : ∀ f ∈ fs, RtOK f) (hw : wfAll fs = true) :
    ∀ vs off bs, serFields fs vs off = .ok bs →
      ∀ pre rest, pre.length = off →
        deFields fs (pre ++ bs ++ rest) off = .ok (adjFields fs vs, off + bs.length) := by
  induction fs with
  | nil =>
    intro vs off bs hs pre rest _
    cases vs <;> simp [serFields] at hs
    subst hs; simp [deFields, adjFields]
  | cons f fs ihf =>
    intro vs off bs hs pre rest hpre
    simp only [wfAll, Bool.and_eq_true] at hw
    cases vs with
    | nil => simp [serFields] at hs
    | cons v vs =>
      simp only [serFields] at hs
      split at hs
      · cases hs
      · rename_i a ha
        split at hs
        · cases hs
        · rename_i b hb
          cases hs
          have h1 := ih f (List.mem_cons_self ..) hw.1 v a ha (b ++ rest)
          have h2 := ihf (fun g hg => ih g (List.mem_cons_of_mem _ hg)) hw.2 vs _ b hb
            (pre ++ zeros (padLen (align f) off) ++ a) rest
            (by simp [padTo, hpre]; omega)
          have e1 : pre ++ (zeros (padLen (align f) off) ++ a ++ b) ++ rest
              = (pre ++ zeros (padLen (align f) off)) ++ (a ++ (b ++ rest)) := by
            simp [List.append_assoc]
          have e2 : pre ++ (zeros (padLen (align f) off) ++ a ++ b) ++ rest
              = pre ++ zeros (padLen (align f) off) ++ a ++ b ++ rest := by
            simp [List.append_assoc]
          have hd : ((pre ++ zeros (padLen (align f) off)) ++ (a ++ (b ++ rest))).drop
              (padTo (align f) off) = a ++ (b ++ rest) :=
            List.drop_left' (by simp [padTo, hpre])
          simp only [deFields, adjFields]
          rw [e1, hd, h1]
          simp only []
          rw [← e1, e2, h2]
          simp only [List.length_append, zeros_length, padTo]
          congr 2
          omega

theorem serNth_rt {fs : List Ty} (ih : ∀ f ∈ fs, RtOK f) (hw : wfAll fs = true) :
    ∀ k v bs, serNth fs k v = .ok bs →
      ∀ rest, deNth fs k (bs ++ rest) = .ok (adjNth fs k v, bs.length) := by
  induction fs with
  | nil => intro k v bs hs; simp [serNth] at hs
  | cons f fs ihf =>
    intro k v bs hs rest
    simp only [wfAll, Bool.and_eq_true] at hw
    cases k with
    | zero =>
      simp only [serNth] at hs
      simpa [deNth, adjNth] using ih f (List.mem_cons_self ..) hw.1 v bs hs rest
    | succ k =>
      simp only [serNth] at hs
      simpa [deNth, adjNth] using
        ihf (fun g hg => ih g (List.mem_cons_of_mem _ hg)) hw.2 k v bs hs rest

theorem lt_two_pow_tagBits {k n : Nat} (hk : k < n) (hn : n ≤ 2 ^ 64) : k < 2 ^ tagBits n := by
  have h1 : n - 1 < 2 ^ 64 := by omega
  have h2 := lt_two_pow_stdWidth h1
  unfold tagBits
  omega

theorem rtOK (t : Ty) : RtOK t := by
  refine Ty.ind (P := RtOK) ?_ ?_ ?_ ?_ ?_ ?_ ?_ ?_ ?_ ?_ t
  · intro n m _ v bs h rest
    cases v <;> simp [serBits] at h
    subst h
    simp [deBits, castAdjust, readNat_of_lt (castU_lt n m _)]
  · intro n m _ v bs h rest
    cases v <;> simp [serBits] at h
    subst h
    simp [deBits, castAdjust, readNat_of_lt (castS_lt n m _)]
  · intro n m hw v bs h rest
    simp only [wf, decide_eq_true_eq] at hw
    cases v <;> simp [serBits] at h
    subst h
    simp [deBits, castAdjust, readNat_of_lt (narrow_lt hw m _)]
  · intro _ v bs h rest
    cases v <;> simp [serBits] at h
    subst h
    rename_i b
    cases b <;> simp [deBits, castAdjust, readNat, bitsToNat]
  · intro n _ v bs h rest
    cases v <;> simp [serBits] at h
    subst h; simp [deBits, castAdjust]
  · intro t n ih hw v bs h rest
    simp only [wf] at hw
    cases v with
    | arr vs =>
      simp only [serBits] at h
      split at h
      · rename_i hn
        have := serAll_rt (ih hw) vs bs h rest
        subst hn
        simp [deBits, castAdjust, this]
      · cases h
    | _ => simp [serBits] at h
  · intro t cap ih hw v bs h rest
    simp only [wf, Bool.and_eq_true, decide_eq_true_eq] at hw
    cases v with
    | arr vs =>
      simp only [serBits] at h
      split at h
      · cases h
      · rename_i hn
        rw [map_eq_ok] at h
        obtain ⟨b, hb, rfl⟩ := h
        have h1 := serAll_rt (ih hw.2) vs b hb rest
        have hlt : vs.length < 2 ^ prefixBits cap := by
          have := lt_two_pow_stdWidth hw.1
          unfold prefixBits
          exact Nat.lt_of_le_of_lt (by omega) this
        have hr : readNat (prefixBits cap) (natToBits (prefixBits cap) vs.length ++ (b ++ rest))
            = vs.length := readNat_of_lt hlt _
        simp only [deBits, castAdjust, List.append_assoc, hr]
        rw [if_neg (by omega), List.drop_left' (natToBits_length ..), h1]
        simp
    | _ => simp [serBits] at h
  · intro fs ih hw v bs h rest
    simp only [wf] at hw
    cases v with
    | struct vs =>
      simp only [serBits] at h
      rw [map_eq_ok] at h
      obtain ⟨b, hb, rfl⟩ := h
      have h1 := serFields_rt ih hw vs 0 b hb [] (zeros (padLen 8 b.length) ++ rest) rfl
      simp only [List.nil_append, Nat.zero_add] at h1
      simp only [deBits, castAdjust, List.append_assoc, h1, List.length_append, zeros_length, padTo]
    | _ => simp [serBits] at h
  · intro fs ih hw v bs h rest
    simp only [wf, Bool.and_eq_true, decide_eq_true_eq] at hw
    cases v with
    | union k v =>
      simp only [serBits] at h
      split at h
      · cases h
      · rename_i hk
        rw [map_eq_ok] at h
        obtain ⟨b, hb, rfl⟩ := h
        have h1 := serNth_rt ih hw.2 k v b hb
          (zeros (padLen 8 (natToBits (tagBits fs.length) k ++ b).length) ++ rest)
        have hlt : k < 2 ^ tagBits fs.length := lt_two_pow_tagBits (by omega) hw.1.2
        have hr : ∀ tl, readNat (tagBits fs.length) (natToBits (tagBits fs.length) k ++ tl) = k :=
          fun tl => readNat_of_lt hlt tl
        simp only [deBits, castAdjust, List.append_assoc, hr]
        rw [if_neg (by omega), List.drop_left' (natToBits_length ..), h1]
        simp [padTo]; omega
    | _ => simp [serBits] at h
  · intro e t ih hw v bs h rest
    simp only [wf, Bool.and_eq_true, decide_eq_true_eq] at hw
    obtain ⟨⟨hc, he8, hmax, hsmall⟩, hwt⟩ := hw
    simp only [serBits] at h
    rw [map_eq_ok] at h
    obtain ⟨b, hb, rfl⟩ := h
    have hl := lenOK t hwt v b hb
    rw [align_of_isComposite hc] at hl
    have h1 := ih hwt v b hb []
    rw [List.append_nil] at h1
    have hlt : b.length / 8 < 2 ^ headerBits := by simp only [headerBits]; omega
    have hr : readNat headerBits (natToBits headerBits (b.length / 8) ++ (b ++ rest))
        = b.length / 8 := readNat_of_lt hlt _
    have h8 : 8 * (b.length / 8) = b.length := by omega
    simp only [deBits, castAdjust, List.append_assoc, hr, h8]
    rw [List.drop_left' (natToBits_length ..), if_neg (by simp), List.take_left' rfl, h1]
    simp [headerBits]

end NunavutVerif.Dsdl
