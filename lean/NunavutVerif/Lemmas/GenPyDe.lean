import NunavutVerif.Lemmas.GenPyDePrim
/-!
Refinement of the deserializer, stages 2–7: arrays, structures, unions, sealed nesting, delimited nesting
(`fork_bytes` bounded by the header, header compared with the saturated remaining length), by structural induction
over the type; and the top-level `deserialize` (value, consumed size, `FormatError` ↔ `None`).
-/
namespace NunavutVerif.GenPy
open NunavutVerif.Dsdl
open NunavutVerif.Bits (Buf Err bitAt WF)
open NunavutVerif.Bits.Py

/-- The emitted code `r`, started with the cursor at `d.off`, does what the specification result says: the value and
a cursor advanced by the padding and the object's length (possibly beyond the data: zero extension) — or the
`FormatError` of the same raise site.  No other exception. -/
def DeMatch (r : Except Exc (Val × De)) (d : De) (pad : Nat) (spec : Except DeErr (Val × Nat)) : Prop :=
  match spec with
  | .ok (v, n) => r = .ok (v, ⟨d.buf, d.off + pad + n⟩)
  | .error e => r = .error (.format e)

/-- refinement claim for `_deserialize_any(t, …)` at an arbitrary cursor -/
def DeRef (env : Env) (t : Ty) : Prop :=
  ∀ (o : AOff) (d : De), WF d.buf → Sound o (d.off + padLen (align t) d.off) →
    DeMatch (deAny env t o d) d (padLen (align t) d.off)
      (deBits t ((unpackBytes d.buf).drop (d.off + padLen (align t) d.off)))

/-- refinement claim for the static method `_deserialize_` of the class of `t` at a byte-aligned cursor -/
def DeObjRef (env : Env) (t : Ty) : Prop :=
  ∀ (d : De), WF d.buf → d.off % 8 = 0 →
    DeMatch (deObj env t d) d 0 (deBits t ((unpackBytes d.buf).drop d.off))

theorem dePad_spec (a : Nat) (ha : a = 1 ∨ a = 8) (d : De) :
    dePad a d = .ok ⟨d.buf, d.off + padLen a d.off⟩ := by
  rcases ha with rfl | rfl
  · simp [dePad]
  · simp only [dePad, show (8 : Nat) > 1 by omega, if_true, dePadToAlignment_spec d 8 (by omega), lift,
      padBits_eq_padLen]

theorem dePad8_spec (d : De) : lift (dePadToAlignment d 8) = .ok ⟨d.buf, d.off + padLen 8 d.off⟩ := by
  simp only [dePadToAlignment_spec d 8 (by omega), lift, padBits_eq_padLen]

/-! ### the element loop -/

theorem deElems_spec (env : Env) (t : Ty) (oe : AOff) (hw : wf t = true) (ih : DeRef env t) :
    ∀ (c : Nat) (d : De), WF d.buf → d.off % align t = 0 → (c ≠ 0 → Sound oe d.off) →
      (2 ≤ c → oe ≠ none → ∀ bs v n, deBits t bs = .ok (v, n) → n % 8 = 0) →
      match deAllWith (deBits t) c (bitsAt d) with
      | .ok (vs, n) => deElemsWith (deAny env t oe) (npStore t) c d = .ok (vs, ⟨d.buf, d.off + n⟩)
      | .error e => deElemsWith (deAny env t oe) (npStore t) c d = .error (.format e) := by
  intro c
  induction c with
  | zero => intro d _ _ _ _; simp [deAllWith, deElemsWith]
  | succ c ihc =>
    intro d hwb hal hs hkeep
    have hpad : padLen (align t) d.off = 0 := padLen_zero_of_mod (align_cases t) hal
    have h1 := ih oe d hwb (by rw [hpad]; exact hs (by omega))
    rw [hpad, Nat.add_zero] at h1
    simp only [deAllWith, deElemsWith, bitsAt]
    cases hd : deBits t ((unpackBytes d.buf).drop d.off) with
    | error e =>
      rw [hd] at h1
      simp only [DeMatch] at h1
      simp only [h1]
    | ok r =>
      obtain ⟨v, n⟩ := r
      rw [hd] at h1
      simp only [DeMatch, Nat.add_zero] at h1
      have hl := deLenOK t hw _ _ _ hd
      have hsound : c ≠ 0 → Sound oe (d.off + n) := by
        intro hc
        cases hoe : oe with
        | none => intro r hr; cases hr
        | some r0 =>
          have := hkeep (by omega) (by rw [hoe]; simp) _ _ _ hd
          rw [← hoe]
          exact (hs (by omega)).of_mod (by omega)
      have h2 := ihc ⟨d.buf, d.off + n⟩ hwb (by
          simp only []
          rcases align_cases t with h | h <;> rw [h] at hal hl ⊢ <;> omega)
        hsound (fun h2 => hkeep (by omega))
      simp only [bitsAt, ← List.drop_drop] at h2
      rw [List.drop_drop] at h2
      simp only [h1, npStore_of_deBits hw hd]
      rw [show d.off + n = d.off + n from rfl] at h2
      cases hrest : deAllWith (deBits t) c ((unpackBytes d.buf).drop (d.off + n)) with
      | error e =>
        rw [hrest] at h2
        simp only [List.drop_drop, hrest, h2]
      | ok r2 =>
        obtain ⟨vs, m⟩ := r2
        rw [hrest] at h2
        simp only [List.drop_drop, hrest, h2, Nat.add_assoc]

/-- the three element paths after the (optional) padding and the length prefix -/
theorem deArrBody_spec (env : Env) (hnp : NpSound env) (t : Ty) (hw : wf t = true) (ih : DeRef env t)
    (oa oe : AOff) (c : Nat) (d : De) (hwb : WF d.buf) (hal : d.off % align t = 0)
    (hoa : Sound oa d.off) (hoe : c ≠ 0 → Sound oe d.off)
    (hkeep : 2 ≤ c → oe ≠ none → ∀ bs v n, deBits t bs = .ok (v, n) → n % 8 = 0) :
    match deAllWith (deBits t) c (bitsAt d) with
    | .ok (vs, n) => deArrBody env (deAny env t oe) t oa.isAligned c d = .ok (.arr vs, ⟨d.buf, d.off + n⟩)
    | .error e => deArrBody env (deAny env t oe) t oa.isAligned c d = .error (.format e) := by
  by_cases hb : isBoolTy t = true
  · have hp : arrPath t = .bits := by simp [arrPath, hb]
    have := isBoolTy_eq hb
    subst this
    obtain ⟨vs, h1, h2⟩ := deBitArray_spec oa.isAligned c d hwb (fun h => hoa.aligned h)
    rw [h1]
    simp only [deArrBody, hp, h2]
  · by_cases hs : isStdPrim t = true
    · have hp : arrPath t = .std := by simp [arrPath, hb, hs]
      obtain ⟨vs, h1, h2⟩ := deStdArray_spec env hnp oa.isAligned t c d hwb (fun h => hoa.aligned h) hs hw
      rw [h1]
      simp only [deArrBody, hp, h2]
    · have hp : arrPath t = .loop := by simp [arrPath, hb, hs]
      have h := deElems_spec env t oe hw ih c d hwb hal hoe hkeep
      simp only [deArrBody, hp, deElemArray]
      cases hd : deAllWith (deBits t) c (bitsAt d) with
      | error e => rw [hd] at h; simp only [h]
      | ok r => obtain ⟨vs, n⟩ := r; rw [hd] at h; simp only [h]

/-! ### arrays -/

theorem deAll_mod {t : Ty} (hw : wf t = true) {c : Nat} {bs : List Bool} {vs : List Val} {n : Nat}
    (h : deAllWith (deBits t) c bs = .ok (vs, n)) : n % align t = 0 :=
  (deAll_len (A := minBits t) (fun bs v n h => deLenOK t hw bs v n h) c bs vs n h).2

theorem fixedArr_de (env : Env) (hs : EnvSound env) (t : Ty) (n : Nat) (hw : wf t = true) (ih : DeRef env t) :
    DeRef env (.arr t n) := by
  intro o d hwb hsound
  simp only [align] at hsound ⊢
  have hd0 := dePad_spec (align t) (align_cases t) d
  have hal0 : (d.off + padLen (align t) d.off) % align t = 0 := by
    have := padTo_mod (align_cases t) d.off
    simpa [padTo] using this
  have hoe : n ≠ 0 → Sound (o.add ((env.lr t).rep (n - 1))) (d.off + padLen (align t) d.off) := by
    intro _
    have := hsound.add (l := (env.lr t).rep (n - 1)) (len := 0) (by
      intro r hr
      simp only [AOff.rep] at hr
      split at hr
      · cases hr; rfl
      · split at hr
        · split at hr
          · cases hr; rfl
          · cases hr
        · cases hr)
    simpa using this
  have hkeep : 2 ≤ n → o.add ((env.lr t).rep (n - 1)) ≠ none →
      ∀ bs v k, deBits t bs = .ok (v, k) → k % 8 = 0 := by
    intro h2 hne bs v k hdv
    cases hlr : env.lr t with
    | none =>
      exfalso; apply hne
      simp only [AOff.rep, hlr, show ¬ n - 1 = 0 by omega, if_false]
      cases o <;> rfl
    | some x =>
      by_cases hx : x % 8 = 0
      · have := (hs.lr t x hw hlr).2 bs v k hdv
        omega
      · exfalso; apply hne
        simp only [AOff.rep, hlr, show ¬ n - 1 = 0 by omega, if_false, hx]
        cases o <;> rfl
  have hbody := deArrBody_spec env hs.np t hw ih o (o.add ((env.lr t).rep (n - 1))) n
    ⟨d.buf, d.off + padLen (align t) d.off⟩ hwb hal0 hsound hoe hkeep
  simp only [deAny, deArrWith, hd0, bind, Except.bind, deBits]
  simp only [bitsAt] at hbody
  cases hda : deAllWith (deBits t) n ((unpackBytes d.buf).drop (d.off + padLen (align t) d.off)) with
  | error e =>
    rw [hda] at hbody
    simp only [DeMatch, hbody]
  | ok r =>
    obtain ⟨vs, used⟩ := r
    rw [hda] at hbody
    have hm := deAll_mod hw hda
    have hpad2 : padLen (align t) (d.off + padLen (align t) d.off + used) = 0 := by
      apply padLen_zero_of_mod (align_cases t)
      rcases align_cases t with h | h <;> rw [h] at hal0 hm ⊢ <;> omega
    simp only [DeMatch, hbody, dePad_spec (align t) (align_cases t), hpad2, Nat.add_zero]

theorem varArr_de (env : Env) (hs : EnvSound env) (t : Ty) (cap : Nat) (hw : wf (.varr t cap) = true)
    (ih : DeRef env t) : DeRef env (.varr t cap) := by
  intro o d hwb hsound
  have hwt : wf t = true := by simp only [wf, Bool.and_eq_true] at hw; exact hw.2
  have hcap : cap < 2 ^ 64 := by simp only [wf, Bool.and_eq_true, decide_eq_true_eq] at hw; exact hw.1
  simp only [align] at hsound ⊢
  have hd0 := dePad_spec (align t) (align_cases t) d
  have hal0 : (d.off + padLen (align t) d.off) % align t = 0 := by
    have := padTo_mod (align_cases t) d.off
    simpa [padTo] using this
  have hp8 : prefixBits cap % 8 = 0 := stdWidth_mod8 cap
  have hpc := stdWidth_cases cap
  have hplt : cap < 2 ^ prefixBits cap := lt_two_pow_stdWidth hcap
  -- the length prefix
  have hint := deInt_spec o.isAligned false (prefixBits cap) ⟨d.buf, d.off + padLen (align t) d.off⟩ hwb
    (fun h => hsound.aligned h) (by unfold prefixBits; omega) (by intro h; cases h)
  simp only [Bool.false_eq_true, if_false, bitsAt] at hint
  simp only [deAny, deVarrWith, hd0, bind, Except.bind, deBits, hint]
  generalize hk : readNat (prefixBits cap) ((unpackBytes d.buf).drop (d.off + padLen (align t) d.off)) = k
  have hge : decide ((k : Int) ≥ 0) = true := by simp
  simp only [hge, assertThat_true, Int.toNat_natCast]
  by_cases hlen : k > cap
  · have : (k : Int) > (cap : Int) := by omega
    simp only [hlen, this, if_true, DeMatch]
  · have : ¬ (k : Int) > (cap : Int) := by omega
    simp only [hlen, this, if_false]
    -- what the oracle's claim about the array type says about the elements
    have hlrv : ∀ r, env.lr (.varr t cap) = some r →
        r % 8 = 0 ∧ (1 ≤ cap → ∀ bs v n, deBits t bs = .ok (v, n) → n % 8 = 0) := by
      intro r hr
      have hl := (hs.lr (.varr t cap) r hw hr).2
      have e0 := hl [] (.arr []) (prefixBits cap) (by
        have : readNat (prefixBits cap) [] = 0 := by simp [readNat, bitsToNat]
        simp [deBits, this, deAllWith])
      refine ⟨by omega, fun hc bs v n hdv => ?_⟩
      have e1 := hl (natToBits (prefixBits cap) 1 ++ bs) (.arr [v]) (prefixBits cap + n) (by
        have h1 : readNat (prefixBits cap) (natToBits (prefixBits cap) 1 ++ bs) = 1 :=
          readNat_of_lt (by
            have : 1 < 2 ^ prefixBits cap := Nat.one_lt_two_pow (by unfold prefixBits; omega)
            exact this) bs
        have h2 : (natToBits (prefixBits cap) 1 ++ bs).drop (prefixBits cap) = bs :=
          List.drop_left' (natToBits_length _ _)
        simp [deBits, h1, h2, deAllWith, hdv, show ¬ 1 > cap by omega])
      omega
    have hoa : Sound (o.add (some (prefixBits cap))) (d.off + padLen (align t) d.off + prefixBits cap) :=
      hsound.add (by intro r hr; cases hr; rfl)
    have hoe : k ≠ 0 → Sound (o.add (env.lr (.varr t cap))) (d.off + padLen (align t) d.off + prefixBits cap) := by
      intro _
      exact hsound.add (by intro r hr; have := (hlrv r hr).1; omega)
    have hkeep : 2 ≤ k → o.add (env.lr (.varr t cap)) ≠ none →
        ∀ bs v n, deBits t bs = .ok (v, n) → n % 8 = 0 := by
      intro h2 hne bs v n hdv
      cases hlr : env.lr (.varr t cap) with
      | none => exfalso; apply hne; rw [hlr]; cases o <;> rfl
      | some r => exact (hlrv r hlr).2 (by omega) bs v n hdv
    have hal1 : (d.off + padLen (align t) d.off + prefixBits cap) % align t = 0 := by
      rcases align_cases t with h | h <;> rw [h] at hal0 ⊢ <;> omega
    have hbody := deArrBody_spec env hs.np t hwt ih (o.add (some (prefixBits cap)))
      (o.add (env.lr (.varr t cap))) k ⟨d.buf, d.off + padLen (align t) d.off + prefixBits cap⟩ hwb hal1 hoa hoe
      hkeep
    simp only [bitsAt, ← List.drop_drop] at hbody
    cases hda : deAllWith (deBits t) k
        (((unpackBytes d.buf).drop (d.off + padLen (align t) d.off)).drop (prefixBits cap)) with
    | error e =>
      simp only [List.drop_drop] at hda hbody
      rw [hda] at hbody
      simp only [DeMatch, hbody]
    | ok r =>
      obtain ⟨vs, used⟩ := r
      simp only [List.drop_drop] at hda hbody
      rw [hda] at hbody
      have hm := deAll_mod hwt hda
      have hpad2 : padLen (align t) (d.off + padLen (align t) d.off + prefixBits cap + used) = 0 := by
        apply padLen_zero_of_mod (align_cases t)
        rcases align_cases t with h | h <;> rw [h] at hal1 hm ⊢ <;> omega
      simp only [] at hbody
      simp only [DeMatch, hbody, dePad_spec (align t) (align_cases t), hpad2, Nat.add_zero]
      simp only [Nat.add_assoc]

end NunavutVerif.GenPy
