import NunavutVerif.Lemmas.Float16Pack
import NunavutVerif.Lemmas.Float16Spec
/-!
`pack` rounds to nearest: the bracket `mid(r-1, r) ≤ |x| ≤ mid(r, r+1)` for `r = pack |x|`, by arithmetic in
the region where the scaled product is a normal number (binary32 exponent field ≥ 113) and in the region that
collapses to zero (exponent field ≤ 100), and from a finite table (`chkKey`, checked by the kernel in
`Lemmas/F16Tables/K*.lean`) for the 12·2048 keys with exponent field 101..112.
-/
namespace NunavutVerif.Float16

/-! ### binary16 magnitudes are strictly increasing in the pattern -/

theorem F16.mag_strict (p q : Nat) (hpq : p < q) (hq : q < 32768) : F16.mag p < F16.mag q := by
  have A_lt : ∀ r, r < 32768 → (r + 114688) * 8192 < 2147483648 := by intro r hr; omega
  have h1024 : F16.mag 1024 = 1024 * 2 ^ 125 := by decide
  have hsub : ∀ r, r < 1024 → F16.mag r = r * 2 ^ 125 := by
    intro r hr
    rw [F16.mag_eq r (by omega), if_pos (by omega), Nat.mod_eq_of_lt hr]
  by_cases hq1 : q < 1024
  · rw [hsub p (by omega), hsub q hq1]
    exact Nat.mul_lt_mul_of_pos_right hpq (Nat.two_pow_pos _)
  · by_cases hp1 : p < 1024
    · have h1 : F16.mag p < F16.mag 1024 := by
        rw [hsub p hp1, h1024]; exact Nat.mul_lt_mul_of_pos_right hp1 (Nat.two_pow_pos _)
      have h2 : F16.mag 1024 ≤ F16.mag q := by
        rw [← embed 1024 (by omega) (by omega), ← embed q (by omega) hq]
        exact F32.mag_mono _ _ (by omega) (A_lt q hq)
      omega
    · rw [← embed p (by omega) (by omega), ← embed q (by omega) hq]
      exact F32.mag_strict _ _ (by omega) (A_lt q hq)

theorem F16.mag_mono (p q : Nat) (hpq : p ≤ q) (hq : q < 32768) : F16.mag p ≤ F16.mag q := by
  by_cases h : p = q
  · subst h; exact Nat.le_refl _
  · exact Nat.le_of_lt (F16.mag_strict p q (by omega) hq)

/-! ### the bracket -/

/-- `r` is a nearest binary16 magnitude pattern for the binary32 magnitude pattern `a`:
`|a|` lies between the midpoints towards the two neighbours of `r`. -/
def Bracket (a r : Nat) : Prop :=
  (r = 0 ∨ F16.mag (r - 1) + F16.mag r ≤ 2 * F32.mag a) ∧ 2 * F32.mag a ≤ F16.mag r + F16.mag (r + 1)

/-- Distance of two naturals. -/
def dist (a b : Nat) : Nat := (a - b) + (b - a)

theorem nearest_of_bracket (a r p : Nat) (hb : Bracket a r) (hr : r < 31744) (hp : p < 31744) :
    dist (F16.mag r) (F32.mag a) ≤ dist (F16.mag p) (F32.mag a) := by
  unfold dist
  obtain ⟨hlo, hhi⟩ := hb
  by_cases h1 : p = r
  · subst h1; omega
  · by_cases h2 : p < r
    · have hr0 : ¬ r = 0 := by omega
      have hlo' := hlo.resolve_left hr0
      have m1 := F16.mag_mono p (r - 1) (by omega) (by omega)
      have m2 := F16.mag_mono (r - 1) r (by omega) (by omega)
      omega
    · have m1 := F16.mag_mono (r + 1) p (by omega) (by omega)
      have m2 := F16.mag_mono r (r + 1) (by omega) (by omega)
      omega

/-! ### linear interpolation inside a binade -/

theorem lin_avg_le (e x y z : Nat) (he : 1 ≤ e) (he2 : e < 255)
    (hx1 : e * 8388608 ≤ x) (hx2 : x ≤ (e + 1) * 8388608)
    (hy1 : e * 8388608 ≤ y) (hy2 : y ≤ (e + 1) * 8388608)
    (hz1 : e * 8388608 ≤ z) (hz2 : z ≤ (e + 1) * 8388608)
    (h : x + y ≤ 2 * z) : F32.mag x + F32.mag y ≤ 2 * F32.mag z := by
  rw [F32.mag_lin x e he hx1 hx2 (by omega), F32.mag_lin y e he hy1 hy2 (by omega),
    F32.mag_lin z e he hz1 hz2 (by omega)]
  generalize 2 ^ (e - 1) = K
  rw [← Nat.add_mul, ← Nat.mul_assoc]
  exact Nat.mul_le_mul_right K (by omega)

theorem lin_avg_ge (e x y z : Nat) (he : 1 ≤ e) (he2 : e < 255)
    (hx1 : e * 8388608 ≤ x) (hx2 : x ≤ (e + 1) * 8388608)
    (hy1 : e * 8388608 ≤ y) (hy2 : y ≤ (e + 1) * 8388608)
    (hz1 : e * 8388608 ≤ z) (hz2 : z ≤ (e + 1) * 8388608)
    (h : 2 * z ≤ x + y) : 2 * F32.mag z ≤ F32.mag x + F32.mag y := by
  rw [F32.mag_lin x e he hx1 hx2 (by omega), F32.mag_lin y e he hy1 hy2 (by omega),
    F32.mag_lin z e he hz1 hz2 (by omega)]
  generalize 2 ^ (e - 1) = K
  rw [← Nat.add_mul, ← Nat.mul_assoc]
  exact Nat.mul_le_mul_right K (by omega)

theorem lin_avg_lt (e x y z : Nat) (he : 1 ≤ e) (he2 : e < 255)
    (hx1 : e * 8388608 ≤ x) (hx2 : x ≤ (e + 1) * 8388608)
    (hy1 : e * 8388608 ≤ y) (hy2 : y ≤ (e + 1) * 8388608)
    (hz1 : e * 8388608 ≤ z) (hz2 : z ≤ (e + 1) * 8388608)
    (h : x + y < 2 * z) : F32.mag x + F32.mag y < 2 * F32.mag z := by
  rw [F32.mag_lin x e he hx1 hx2 (by omega), F32.mag_lin y e he hy1 hy2 (by omega),
    F32.mag_lin z e he hz1 hz2 (by omega)]
  have hK : 0 < 2 ^ (e - 1) := Nat.two_pow_pos _
  generalize 2 ^ (e - 1) = K at hK
  rw [← Nat.add_mul, ← Nat.mul_assoc]
  exact Nat.mul_lt_mul_of_pos_right (by omega) hK

theorem lin_avg_gt (e x y z : Nat) (he : 1 ≤ e) (he2 : e < 255)
    (hx1 : e * 8388608 ≤ x) (hx2 : x ≤ (e + 1) * 8388608)
    (hy1 : e * 8388608 ≤ y) (hy2 : y ≤ (e + 1) * 8388608)
    (hz1 : e * 8388608 ≤ z) (hz2 : z ≤ (e + 1) * 8388608)
    (h : 2 * z < x + y) : 2 * F32.mag z < F32.mag x + F32.mag y := by
  rw [F32.mag_lin x e he hx1 hx2 (by omega), F32.mag_lin y e he hy1 hy2 (by omega),
    F32.mag_lin z e he hz1 hz2 (by omega)]
  have hK : 0 < 2 ^ (e - 1) := Nat.two_pow_pos _
  generalize 2 ^ (e - 1) = K at hK
  rw [← Nat.add_mul, ← Nat.mul_assoc]
  exact Nat.mul_lt_mul_of_pos_right (by omega) hK

/-- Round-to-nearest with ties to even, as a bracket: in addition to `Bracket`, an odd result pattern is
never produced at a midpoint (both midpoint inequalities are strict). -/
def BracketEven (a r : Nat) : Prop :=
  Bracket a r ∧
  (r % 2 = 1 → F16.mag (r - 1) + F16.mag r < 2 * F32.mag a ∧ 2 * F32.mag a < F16.mag r + F16.mag (r + 1))

/-- In the range of the normal halves the value is piecewise linear in the pattern, so "within 4096 patterns
of the embedded half `(r + 112·1024)·8192`" is "between the two midpoints". -/
theorem bracket_close (a r : Nat) (ha : 947912704 ≤ a) (hr1 : 1024 ≤ r) (hr2 : r < 31744)
    (h1 : (r + 114688) * 8192 ≤ a + 4096) (h2 : a ≤ (r + 114688) * 8192 + 4096)
    (hodd : r % 2 = 1 → (r + 114688) * 8192 < a + 4096 ∧ a < (r + 114688) * 8192 + 4096) :
    BracketEven a r := by
  have s1 := F16.mag_strict (r - 1) r (by lia) (by lia)
  have s2 := F16.mag_strict r (r + 1) (by lia) (by lia)
  have emb := embed r hr1 (by lia)
  by_cases hge : (r + 114688) * 8192 ≤ a
  · -- a at or above the embedded half: the lower side is trivial, the upper side is linear interpolation
    have m2 : F16.mag r ≤ F32.mag a := by
      rw [← emb]; exact F32.mag_mono _ _ hge (by lia)
    have up : 2 * F32.mag a ≤ F16.mag r + F16.mag (r + 1) := by
      rw [← emb, ← embed (r + 1) (by lia) (by lia)]
      exact lin_avg_ge ((r + 114688) * 8192 / 8388608) _ _ _ (by lia) (by lia)
        (by lia) (by lia) (by lia) (by lia) (by lia) (by lia) (by lia)
    refine ⟨⟨Or.inr (by lia), up⟩, fun ho => ⟨by lia, ?_⟩⟩
    have hs := (hodd ho).2
    rw [← emb, ← embed (r + 1) (by lia) (by lia)]
    exact lin_avg_gt ((r + 114688) * 8192 / 8388608) _ _ _ (by lia) (by lia)
      (by lia) (by lia) (by lia) (by lia) (by lia) (by lia) (by lia)
  · -- a below the embedded half (then r ≥ 1025): the upper side is trivial
    have hr3 : 1025 ≤ r := by lia
    have m2 : F32.mag a ≤ F16.mag r := by
      rw [← emb]; exact F32.mag_mono _ _ (by lia) (by lia)
    have emb1 := embed (r - 1) (by lia) (by lia)
    have lo : F16.mag (r - 1) + F16.mag r ≤ 2 * F32.mag a := by
      rw [← emb, ← emb1]
      exact lin_avg_le ((r - 1 + 114688) * 8192 / 8388608) _ _ _ (by lia) (by lia)
        (by lia) (by lia) (by lia) (by lia) (by lia) (by lia) (by lia)
    refine ⟨⟨Or.inr lo, by lia⟩, fun ho => ⟨?_, by lia⟩⟩
    have hs := (hodd ho).1
    rw [← emb, ← emb1]
    exact lin_avg_lt ((r - 1 + 114688) * 8192 / 8388608) _ _ _ (by lia) (by lia)
      (by lia) (by lia) (by lia) (by lia) (by lia) (by lia) (by lia)

/-! ### region A: binary32 exponent field ≥ 113 (the scaled product is normal) -/

theorem packKey_affine (t : Nat) (h1 : 231424 ≤ t) (h2 : t < 522240) :
    packKey t = min ((t + 1 - 229376) / 2) 31744 := by
  unfold packKey
  rw [f32mul_magic_normal (t * 4096) (by omega) (by omega)]
  omega

/-- Overflow boundary: keys from `0x477FF` on (|x| ≥ 65520) give the infinity pattern. -/
theorem packKey_overflow (t : Nat) (h1 : 292863 ≤ t) (h2 : t < 522240) : packKey t = 31744 := by
  rw [packKey_affine t (by omega) h2]; omega

theorem bracket_affine (t j : Nat) (h1 : 231424 ≤ t) (h2 : t < 292863) (hj : j < 4096) :
    Bracket (t * 4096 + j) (packKey t) ∧ packKey t < 31744 := by
  have hk : packKey t = (t + 1 - 229376) / 2 := by
    rw [packKey_affine t h1 (by omega)]; omega
  rw [hk]
  generalize hr : (t + 1 - 229376) / 2 = r
  have hr1 : 1024 ≤ r := by omega
  have hr2 : r < 31744 := by omega
  refine ⟨⟨Or.inr ?_, ?_⟩, hr2⟩
  · -- lower midpoint
    by_cases hev : t % 2 = 0
    · have hA : t * 4096 = (r + 114688) * 8192 := by lia
      have m1 := F16.mag_mono (r - 1) r (by lia) (by lia)
      have m2 : F16.mag r ≤ F32.mag (t * 4096 + j) := by
        rw [← embed r hr1 (by lia)]
        exact F32.mag_mono _ _ (by lia) (by lia)
      lia
    · have hr3 : 1025 ≤ r := by lia
      rw [← embed (r - 1) (by lia) (by lia), ← embed r hr1 (by lia)]
      have hA : t * 4096 + 4096 = (r + 114688) * 8192 := by lia
      exact lin_avg_le ((r - 1 + 114688) * 8192 / 8388608) _ _ _ (by lia) (by lia)
        (by lia) (by lia) (by lia) (by lia) (by lia) (by lia) (by lia)
  · -- upper midpoint
    by_cases hev : t % 2 = 0
    · have hA : t * 4096 = (r + 114688) * 8192 := by lia
      rw [← embed r hr1 (by lia), ← embed (r + 1) (by lia) (by lia)]
      exact lin_avg_ge ((r + 114688) * 8192 / 8388608) _ _ _ (by lia) (by lia)
        (by lia) (by lia) (by lia) (by lia) (by lia) (by lia) (by lia)
    · have hA : t * 4096 + 4096 = (r + 114688) * 8192 := by lia
      have m1 := F16.mag_mono r (r + 1) (by lia) (by lia)
      have m2 : F32.mag (t * 4096 + j) ≤ F16.mag r := by
        rw [← embed r hr1 (by lia)]
        exact F32.mag_mono _ _ (by lia) (by lia)
      lia

/-! ### region Z: binary32 exponent field ≤ 100 (|x| < 2^-26): the result is zero -/

theorem packKey_zero (t : Nat) (h : t < 206848) : packKey t = 0 := by
  unfold packKey
  have := f32mul_magic_small (t * 4096) (by omega)
  omega

theorem bracket_zero (a : Nat) (h : a < 847249408) : Bracket a 0 := by
  refine ⟨Or.inl rfl, ?_⟩
  have h1 := F32.mag_strict a 847249408 h (by omega)
  have h2 : F32.mag 847249408 = 2 ^ 123 := by decide
  have h3 : F16.mag 0 + F16.mag (0 + 1) = 4 * 2 ^ 123 := by decide
  rw [h3]; omega

/-! ### the finite tables (checked chunk-wise by the kernel in `Lemmas/F16Tables/*.lean`) -/

/-- Table entry for the key `t` (all inputs `t·4096 .. t·4096+4095`): the result is finite, both midpoint
inequalities hold at the end points of the class, and the result does not exceed that of the next key. -/
def chkKey (t : Nat) : Bool :=
  let r := packKey t
  Nat.blt r 31744 &&
  (Nat.beq r 0 || Nat.ble (F16.mag (r - 1) + F16.mag r) (2 * F32.mag (t * 4096))) &&
  Nat.ble (2 * F32.mag (t * 4096 + 4095)) (F16.mag r + F16.mag (r + 1)) &&
  Nat.ble r (packKey (t + 1))

theorem chkKey_spec (t : Nat) (h : chkKey t = true) (ht : t < 522240) :
    packKey t < 31744 ∧ (∀ j, j < 4096 → Bracket (t * 4096 + j) (packKey t)) ∧ packKey t ≤ packKey (t + 1) := by
  simp only [chkKey, Bool.and_eq_true, Bool.or_eq_true, Nat.blt_eq, Nat.ble_eq, Nat.beq_eq] at h
  obtain ⟨⟨⟨h1, h2⟩, h3⟩, h4⟩ := h
  refine ⟨h1, ?_, h4⟩
  intro j hj
  have m1 := F32.mag_mono (t * 4096) (t * 4096 + j) (by omega) (by omega)
  have m2 := F32.mag_mono (t * 4096 + j) (t * 4096 + 4095) (by omega) (by omega)
  refine ⟨?_, by omega⟩
  cases h2 with
  | inl h0 => exact Or.inl h0
  | inr hl => exact Or.inr (by lia)

/-- Table entry for the binary16 pattern `h`: `unpack` is exact and keeps the sign, `pack ∘ unpack` is the
identity on non-NaN patterns, NaN stays NaN, infinity stays infinity (also for the repaired packer
`packRneC` and for the round-to-nearest-even packer `packRne` of the Python target). -/
def chkHalf (h : Nat) : Bool :=
  let u := unpack h
  Nat.blt u 4294967296 && Nat.beq (u / 2147483648) (h / 32768) &&
  (bif F16.isNaN h then F32.isNaN u && F16.isNaN (pack u) && F16.isNaN (packRne u) && F16.isNaN (packRneC u)
   else Nat.beq (pack u) h && Nat.beq (packRne u) h && Nat.beq (packRneC u) h &&
        (bif F16.isInf h then F32.isInf u else F32.isFinite u && Nat.beq (F32.mag u) (F16.mag h)))
end NunavutVerif.Float16
