import NunavutVerif.Lemmas.Bits
import NunavutVerif.Lemmas.BitsCpp
import NunavutVerif.Lemmas.BitsPy
import NunavutVerif.Model.BitsGlue
/-! Helper lemmas for the remaining entry points of the support libraries (C14 round 2). -/
namespace NunavutVerif.Bits

/-! ### bits of sub-buffers -/

theorem bitAt_append_bytes (a b : Buf) (i : Nat) :
    bitAt (a ++ b) i = if i / 8 < a.length then bitAt a i else bitAt b (i - 8 * a.length) := by
  unfold bitAt
  by_cases h : i / 8 < a.length
  · rw [if_pos h, List.getElem?_append_left h]
  · rw [if_neg h, List.getElem?_append_right (by omega)]
    have e1 : (i - 8 * a.length) / 8 = i / 8 - a.length := by omega
    have e2 : (i - 8 * a.length) % 8 = i % 8 := by omega
    rw [e1, e2]

theorem bitAt_take_bytes (buf : Buf) (k i : Nat) :
    bitAt (buf.take k) i = (decide (i / 8 < k) && bitAt buf i) := by
  unfold bitAt
  by_cases h : i / 8 < k
  · rw [List.getElem?_take_of_lt h]; simp [h]
  · rw [List.getElem?_take_eq_none (by omega)]; simp [h]

theorem bitAt_drop_bytes (buf : Buf) (k i : Nat) : bitAt (buf.drop k) i = bitAt buf (8 * k + i) := by
  unfold bitAt
  rw [List.getElem?_drop]
  have e1 : (8 * k + i) / 8 = k + i / 8 := by omega
  have e2 : (8 * k + i) % 8 = i % 8 := by omega
  rw [e1, e2]

theorem WF_take_bytes {b : Buf} (h : WF b) (k : Nat) : WF (b.take k) := fun x hx => h x (List.mem_of_mem_take hx)
theorem WF_drop_bytes {b : Buf} (h : WF b) (k : Nat) : WF (b.drop k) := fun x hx => h x (List.mem_of_mem_drop hx)
theorem WF_append_bytes {a b : Buf} (ha : WF a) (hb : WF b) : WF (a ++ b) := by
  intro x hx
  rcases List.mem_append.mp hx with h | h
  · exact ha x h
  · exact hb x h

/-! ### C: float set/get round trip -/

theorem field_after_set (r : Buf) (size off W bits : Nat) (hfit : off + W ≤ size * 8) (hb : bits < 2 ^ W)
    (hbits : ∀ i, i < W → bitAt r (off + i) = bits.testBit i) :
    fieldOf (fun i => zbit r size (off + i)) W = bits := by
  apply Nat.eq_of_testBit_eq
  intro i
  rw [testBit_fieldOf]
  by_cases hi : i < W
  · simp only [hi, decide_true, Bool.true_and, zbit, show off + i < size * 8 by omega, hbits i hi]
  · have : bits.testBit i = false :=
      Nat.testBit_lt_two_pow (Nat.lt_of_lt_of_le hb (Nat.pow_le_pow_right (by omega) (by omega)))
    simp [hi, this]

theorem setF_getF (little : Bool) (W : Nat) (buf : Buf) (size off bits : Nat) (hW : W % 8 = 0) (hW64 : W ≤ 64)
    (hsize : size ≤ buf.length) (hw : WF buf) (hb : bits < 2 ^ W) (h : ¬ size * 8 < off + W) :
    ∃ r, setF little W buf size off bits = .ok (0, r) ∧ getF little W r size off = .ok bits := by
  obtain ⟨r, h1, h2, h3, h4⟩ := setUxx_spec little buf size off bits W hsize h
  refine ⟨r, h1, ?_⟩
  unfold getF
  rw [getU_spec little W r size off W hW (by omega) (h3 hw), Nat.min_self]
  congr 1
  apply field_after_set r size off W bits (by omega) hb
  intro i hi
  rw [h4, if_pos ⟨by omega, by omega⟩]
  congr 1; omega

namespace Cpp

theorem Span.size_eq (sp : Span) : sp.size = sp.data.length * 8 - sp.off := by
  unfold Span.size
  by_cases h : sp.data.length * 8 < sp.off <;> simp [h] <;> omega

/-! ### C++ windows -/

theorem subspan1_spec (sp : Span) (bits : Nat) :
    (subspan1 sp bits).off = (sp.off + bits) % 8 ∧
    (subspan1 sp bits).data.length = sp.data.length - (sp.off + bits) / 8 ∧
    (subspan1 sp bits).size = sp.size - bits ∧
    ∀ i, bitAt (subspan1 sp bits).data ((subspan1 sp bits).off + i) = bitAt sp.data (sp.off + bits + i) := by
  have hlen : (subspan1 sp bits).data.length = sp.data.length - (sp.off + bits) / 8 := by
    unfold subspan1
    simp only [List.length_take, List.length_drop]
    by_cases h : (sp.off + bits) / 8 < sp.data.length <;> simp [h] <;> omega
  refine ⟨rfl, hlen, ?_, ?_⟩
  · rw [Span.size_eq, Span.size_eq, hlen]
    show _ - (sp.off + bits) % 8 = _
    omega
  · intro i
    show bitAt ((sp.data.drop ((sp.off + bits) / 8)).take _) ((sp.off + bits) % 8 + i) = _
    rw [bitAt_take_bytes, bitAt_drop_bytes]
    have e : 8 * ((sp.off + bits) / 8) + ((sp.off + bits) % 8 + i) = sp.off + bits + i := by omega
    rw [e]
    by_cases h : (sp.off + bits) / 8 < sp.data.length
    · by_cases h2 : ((sp.off + bits) % 8 + i) / 8 < sp.data.length - (sp.off + bits) / 8
      · simp [h, h2]
      · have : sp.data.length ≤ (sp.off + bits + i) / 8 := by omega
        simp [h, h2, bitAt_of_ge this]
    · have : sp.data.length ≤ (sp.off + bits + i) / 8 := by omega
      simp [h, bitAt_of_ge this]

theorem subspanBytes_spec (sp : Span) (sizeBytes : Nat) :
    (subspanBytes sp sizeBytes).off = 0 ∧
    (subspanBytes sp sizeBytes).data.length = min sizeBytes (sp.data.length - sp.off / 8) ∧
    ∀ i, bitAt (subspanBytes sp sizeBytes).data i =
      (decide (i / 8 < sizeBytes) && bitAt sp.data (8 * (sp.off / 8) + i)) := by
  refine ⟨rfl, ?_, ?_⟩
  · unfold subspanBytes
    simp only [List.length_take, List.length_drop]
    by_cases h : sp.off / 8 < sp.data.length
    · by_cases h2 : sizeBytes < sp.data.length - sp.off / 8 <;> simp [h, h2] <;> omega
    · simp [h]; omega
  · intro i
    unfold subspanBytes
    simp only
    rw [bitAt_take_bytes, bitAt_drop_bytes]
    by_cases h : sp.off / 8 < sp.data.length
    · simp only [h, if_true]
      by_cases h2 : sizeBytes < sp.data.length - sp.off / 8
      · simp [h2]
      · simp only [h2, if_false]
        by_cases h3 : i / 8 < sp.data.length - sp.off / 8
        · have : i / 8 < sizeBytes := by omega
          simp [h3, this]
        · have : sp.data.length ≤ (8 * (sp.off / 8) + i) / 8 := by omega
          simp [h3, bitAt_of_ge this]
    · have h1 : sp.data.length ≤ (8 * sp.data.length + i) / 8 := by omega
      have h2 : sp.data.length ≤ (8 * (sp.off / 8) + i) / 8 := by omega
      simp [h, bitAt_of_ge h1, bitAt_of_ge h2]

/-! ### `align_offset_to<n>` -/

theorem and_clear_low (x k : Nat) (hk : k ≤ 64) (hx : x < 2 ^ 64) :
    x &&& (2 ^ 64 - 1 - (2 ^ k - 1)) = x / 2 ^ k * 2 ^ k := by
  have hmask : 2 ^ 64 - 1 - (2 ^ k - 1) = (2 ^ (64 - k) - 1) <<< k := by
    rw [Nat.shiftLeft_eq, Nat.sub_mul, ← Nat.pow_add, show 64 - k + k = 64 by omega]
    have : 2 ^ k ≤ 2 ^ 64 := Nat.pow_le_pow_right (by omega) hk
    have : 0 < 2 ^ k := Nat.pow_pos (by omega)
    omega
  rw [hmask]
  apply Nat.eq_of_testBit_eq
  intro i
  rw [Nat.testBit_and, Nat.testBit_shiftLeft, Nat.testBit_two_pow_sub_one, ← Nat.shiftLeft_eq,
    ← Nat.shiftRight_eq_div_pow, Nat.testBit_shiftLeft, Nat.testBit_shiftRight]
  by_cases h1 : k ≤ i
  · by_cases h2 : i - k < 64 - k
    · simp [h1, h2, show k + (i - k) = i by omega]
    · have : x.testBit i = false :=
        Nat.testBit_lt_two_pow (Nat.lt_of_lt_of_le hx (Nat.pow_le_pow_right (by omega) (by omega)))
      simp [h1, h2, this]
  · simp [h1]

theorem alignOffsetTo_spec (k : Nat) (sp : Span) (hk : k ≤ 6) (hoff : sp.off + 2 ^ k ≤ 2 ^ 64) :
    (alignOffsetTo (2 ^ k) sp).data = sp.data ∧
    (alignOffsetTo (2 ^ k) sp).off = (sp.off + (2 ^ k - 1)) / 2 ^ k * 2 ^ k := by
  refine ⟨rfl, ?_⟩
  unfold alignOffsetTo
  have hp : 0 < 2 ^ k := Nat.pow_pos (by omega)
  have hlt : sp.off + (2 ^ k - 1) < 2 ^ 64 := by omega
  simp only [Nat.mod_eq_of_lt hlt]
  exact and_clear_low _ k (by omega) hlt

theorem roundUp_props (x n : Nat) (hn : 0 < n) :
    x ≤ (x + (n - 1)) / n * n ∧ (x + (n - 1)) / n * n < x + n ∧ ((x + (n - 1)) / n * n) % n = 0 := by
  have h1 := Nat.div_add_mod (x + (n - 1)) n
  have h2 := Nat.mod_lt (x + (n - 1)) hn
  have h3 : (x + (n - 1)) / n * n = n * ((x + (n - 1)) / n) := Nat.mul_comm _ _
  refine ⟨by omega, by omega, ?_⟩
  rw [h3]; exact Nat.mul_mod_right _ _

end Cpp

namespace Py

/-! ### Python serializer: skipping, the `buffer` view, forks -/

theorem skipBits_appends (s : Ser) (n : Nat) (hinv : s.Inv) :
    Appends s ⟨s.buf, s.off + n⟩ n (fun _ => false) := by
  refine ⟨rfl, rfl, ⟨hinv.1, fun i hi => hinv.2 i (by simp only at hi; omega)⟩, fun i => ?_⟩
  by_cases h : i < s.off
  · simp [h]
  · have := hinv.2 i (by omega)
    simp [h, this]

theorem bufferView_spec (s : Ser) :
    (bufferView s).length = min ((s.off + 7) / 8) s.buf.length ∧
    ∀ i, bitAt (bufferView s) i = (decide (i / 8 < (s.off + 7) / 8) && bitAt s.buf i) := by
  refine ⟨by simp [bufferView, List.length_take], fun i => ?_⟩
  simp [bufferView, bitAt_take_bytes]

theorem forkBytes_ok (s : Ser) (k : Nat) (ha : s.off % 8 = 0) (hroom : s.off / 8 + k + 1 ≤ s.buf.length) :
    forkBytes s k = .ok ⟨(s.buf.drop (s.off / 8)).take (k + 1), 0⟩ := by
  simp only [forkBytes, ha, ne_eq, not_true_eq_false, if_false, List.length_drop]
  rw [if_neg (by omega)]

theorem fork_inv (s : Ser) (k : Nat) (hinv : s.Inv) (ha : s.off % 8 = 0) :
    (⟨(s.buf.drop (s.off / 8)).take (k + 1), 0⟩ : Ser).Inv := by
  refine ⟨WF_take_bytes (WF_drop_bytes hinv.1 _) _, fun i _ => ?_⟩
  simp only
  rw [bitAt_take_bytes, bitAt_drop_bytes, hinv.2 _ (by omega)]
  simp

theorem joinFork_bits (s f : Ser) (hle : s.off / 8 + f.buf.length ≤ s.buf.length) :
    (joinFork s f).length = s.buf.length ∧
    ∀ i, bitAt (joinFork s f) i =
      if i / 8 < s.off / 8 then bitAt s.buf i
      else if i / 8 < s.off / 8 + f.buf.length then bitAt f.buf (i - 8 * (s.off / 8)) else bitAt s.buf i := by
  have htl : (s.buf.take (s.off / 8)).length = s.off / 8 := by rw [List.length_take]; omega
  constructor
  · simp only [joinFork, List.length_append, List.length_take, List.length_drop]; omega
  · intro i
    simp only [joinFork]
    rw [bitAt_append_bytes]
    simp only [List.length_append, htl]
    by_cases h1 : i / 8 < s.off / 8
    · rw [if_pos (by omega), if_pos h1, bitAt_append_bytes, htl, if_pos h1, bitAt_take_bytes]
      simp [h1]
    · rw [if_neg h1]
      by_cases h2 : i / 8 < s.off / 8 + f.buf.length
      · rw [if_pos h2, if_pos h2, bitAt_append_bytes, htl, if_neg h1]
      · rw [if_neg h2, if_neg h2, bitAt_drop_bytes]
        congr 1; omega

/-- writing through the fork is writing into the parent: what the fork appended is appended to the parent once the
parent skips over it -/
theorem fork_join_appends (s f' : Ser) (k n : Nat) (bit : Nat → Bool) (hinv : s.Inv) (ha : s.off % 8 = 0)
    (hroom : s.off / 8 + k + 1 ≤ s.buf.length)
    (happ : Appends ⟨(s.buf.drop (s.off / 8)).take (k + 1), 0⟩ f' n bit) :
    Appends s ⟨joinFork s f', s.off + n⟩ n bit := by
  obtain ⟨hoff, hlen, hinv', hbits⟩ := happ
  simp only [List.length_take, List.length_drop] at hlen
  have hflen : f'.buf.length = k + 1 := by omega
  obtain ⟨jl, jb⟩ := joinFork_bits s f' (by omega)
  have hfork : ∀ j, bitAt ((s.buf.drop (s.off / 8)).take (k + 1)) j = false := by
    intro j
    rw [bitAt_take_bytes, bitAt_drop_bytes, hinv.2 _ (by omega)]; simp
  have hfb : ∀ j, bitAt f'.buf j = (decide (j < n) && bit j) := by
    intro j
    rw [hbits j]
    simp only [Nat.not_lt_zero, if_false, Nat.zero_add, Nat.sub_zero]
  refine ⟨rfl, jl, ⟨?_, ?_⟩, ?_⟩
  · exact WF_append_bytes (WF_append_bytes (WF_take_bytes hinv.1 _) hinv'.1) (WF_drop_bytes hinv.1 _)
  · intro i hi
    simp only at hi
    show bitAt (joinFork s f') i = false
    rw [jb i, if_neg (by omega)]
    by_cases h2 : i / 8 < s.off / 8 + f'.buf.length
    · rw [if_pos h2, hfb]
      have : ¬ i - 8 * (s.off / 8) < n := by omega
      simp [this]
    · rw [if_neg h2]; exact hinv.2 i (by omega)
  · intro i
    show bitAt (joinFork s f') i = _
    rw [jb i]
    by_cases h1 : i < s.off
    · rw [if_pos (by omega), if_pos h1]
    · rw [if_neg (by omega), if_neg h1]
      have e : i - 8 * (s.off / 8) = i - s.off := by omega
      by_cases h2 : i / 8 < s.off / 8 + f'.buf.length
      · rw [if_pos h2, hfb, e]
        by_cases h3 : i < s.off + n
        · simp [h3, show i - s.off < n by omega]
        · simp [h3, show ¬ i - s.off < n by omega]
      · rw [if_neg h2, hinv.2 i (by omega)]
        have hfz : bitAt f'.buf (i - s.off) = false := bitAt_of_ge (by omega)
        rw [hfb] at hfz
        by_cases h3 : i < s.off + n
        · have : i - s.off < n := by omega
          simp only [this, decide_true, Bool.true_and] at hfz
          simp [h3, hfz]
        · simp [h3]

/-! ### deserializer forks -/

theorem zebForkBytes_spec (buf : Buf) (o l : Nat) :
    (o + l ≤ buf.length ∨ l = 0 → ∃ out, zebForkBytes buf o l = .ok out ∧ out.length = l ∧
      ∀ i, bitAt out i = (decide (i / 8 < l) && bitAt buf (8 * o + i))) ∧
    (¬ (o + l ≤ buf.length ∨ l = 0) → zebForkBytes buf o l = .error .usage) := by
  constructor
  · intro h
    by_cases hl : l = 0
    · subst hl
      refine ⟨[], ?_, rfl, fun i => by simp [bitAt]⟩
      simp [zebForkBytes]
      omega
    · have hle : o + l ≤ buf.length := by rcases h with h | h; exact h; exact absurd h hl
      refine ⟨(buf.drop o).take l, ?_, by simp [List.length_take, List.length_drop]; omega, fun i => ?_⟩
      · simp [zebForkBytes, hl]; omega
      · rw [bitAt_take_bytes, bitAt_drop_bytes]
  · intro h
    have hl : l ≠ 0 := fun e => h (.inr e)
    have : ¬ o + l ≤ buf.length := fun e => h (.inl e)
    simp [zebForkBytes, hl]
    omega

theorem deForkBytes_spec (d : De) (k : Nat) :
    ((d.off % 8 = 0 ∧ d.off / 8 + k ≤ d.buf.length) ∨ (d.off % 8 = 0 ∧ k = 0) →
      ∃ f, deForkBytes d k = .ok f ∧ f.off = 0 ∧ f.buf.length = k ∧
        ∀ i, bitAt f.buf i = (decide (i / 8 < k) && bitAt d.buf (d.off + i))) ∧
    (¬ ((d.off % 8 = 0 ∧ d.off / 8 + k ≤ d.buf.length) ∨ (d.off % 8 = 0 ∧ k = 0)) →
      deForkBytes d k = .error .usage) := by
  by_cases ha : d.off % 8 = 0
  · have hrem : ((max (remainingBitLength d) 0).toNat) = d.buf.length * 8 - d.off := by
      simp only [remainingBitLength, zebBitLength]; omega
    have hrem8 : (d.buf.length * 8 - d.off) % 8 = 0 := by omega
    constructor
    · intro h
      have hk : d.off / 8 + k ≤ d.buf.length ∨ k = 0 := by rcases h with h | h; exact .inl h.2; exact .inr h.2
      obtain ⟨out, ho, hol, hob⟩ := (zebForkBytes_spec d.buf (d.off / 8) k).1 hk
      refine ⟨⟨out, 0⟩, ?_, rfl, hol, fun i => ?_⟩
      · unfold deForkBytes
        simp only [ha, ne_eq, not_true_eq_false, if_false, hrem, hrem8]
        rw [if_neg (by omega)]
        simp [ho, hol, bind, Except.bind]
      · rw [hob]
        congr 2; omega
    · intro h
      have h1 : ¬ d.off / 8 + k ≤ d.buf.length := fun e => h (.inl ⟨ha, e⟩)
      have h2 : k ≠ 0 := fun e => h (.inr ⟨ha, e⟩)
      unfold deForkBytes
      simp only [ha, ne_eq, not_true_eq_false, if_false, hrem, hrem8]
      rw [if_pos (by omega)]
  · constructor
    · intro h; rcases h with h | h <;> exact absurd h.1 ha
    · intro _; simp [deForkBytes, ha]

end Py
end NunavutVerif.Bits
