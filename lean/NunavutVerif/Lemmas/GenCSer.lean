import NunavutVerif.Lemmas.GenCSerA
/-!
GenC refinement, part 6: the generated serializer refines `serBits`, for every type — loops, struct fields, union
options, and the structural induction over `Ty`.
-/
namespace NunavutVerif.GenC
open NunavutVerif.Dsdl NunavutVerif.Bits
open AOff

/-- `_serialize_any` for type `t` refines the specification at every position that has room for `t`. -/
def SerOKC (o : Opts) (t : Ty) : Prop :=
  wf t = true → wfC t = true → ∀ v cap d buf off, hasTy t v = true → storageOK t v = true → WF buf →
    cap ≤ buf.length → off + maxBits t ≤ 8 * cap → Adm d off → off % align t = 0 →
    SerRefines (serAny o t v cap d buf off) (serBits t v) buf off

/-- the generated function of a composite `t` refines the specification -/
def FnOKC (o : Opts) (t : Ty) : Prop :=
  wf t = true → wfC t = true → isComposite t = true → ∀ v, hasTy t v = true → storageOK t v = true →
    FnOK (serFn o t v) (serBits t v) (maxBits t)

def SerP (o : Opts) (t : Ty) : Prop := SerOKC o t ∧ FnOKC o t

/-! ### data-free types -/

def TrivOK (t : Ty) : Prop :=
  wf t = true → wfC t = true → maxBits t = 0 → ∀ v, hasTy t v = true → serBits t v = .ok []

theorem serAll_triv {t : Ty} (h : ∀ v, hasTy t v = true → serBits t v = .ok []) :
    ∀ vs : List Val, vs.all (hasTy t) = true → serAllWith (serBits t) vs = .ok [] := by
  intro vs
  induction vs with
  | nil => intro _; rfl
  | cons v vs ih =>
    intro hv
    simp only [List.all_cons, Bool.and_eq_true] at hv
    simp [serAllWith, h v hv.1, ih hv.2]

theorem serFields_triv : ∀ fs : List Ty, (∀ f ∈ fs, TrivOK f) → wfAll fs = true → wfCAll fs = true →
    ∀ vs off, hasTyFields fs vs = true → maxFields fs off = off → Dsdl.serFields fs vs off = .ok [] := by
  intro fs
  induction fs with
  | nil =>
    intro _ _ _ vs off ht _
    cases vs with
    | nil => rfl
    | cons v vs => simp [hasTyFields] at ht
  | cons f fs ih =>
    intro hT hw hwC vs off ht hm
    cases vs with
    | nil => simp [hasTyFields] at ht
    | cons v vs =>
      simp only [hasTyFields, Bool.and_eq_true] at ht
      simp only [wfAll, Bool.and_eq_true] at hw
      simp only [wfCAll, Bool.and_eq_true] at hwC
      simp only [maxFields] at hm
      have h1 := maxFields_ge fs (padTo (align f) off + maxBits f)
      have h2 := padTo_ge (align f) off
      have hpad : padTo (align f) off = off := by omega
      have hmax : maxBits f = 0 := by omega
      have hf := hT f (by simp) hw.1 hwC.1 hmax v ht.1
      have hpl : padLen (align f) off = 0 := by simp only [padTo] at hpad; omega
      have hrest := ih (fun g hg => hT g (List.mem_cons_of_mem _ hg)) hw.2 hwC.2 vs off ht.2
        (by rw [hpad, hmax] at hm; simpa using hm)
      simp only [Dsdl.serFields, hf, hpad, List.length_nil, Nat.add_zero, hrest, hpl, zeros, List.replicate_zero,
        List.append_nil]

theorem trivOK (t : Ty) : TrivOK t := by
  refine Ty.ind (P := TrivOK) ?_ ?_ ?_ ?_ ?_ ?_ ?_ ?_ ?_ ?_ t
  · intro n m hw _ hm; simp [wf, maxBits] at hw hm; omega
  · intro n m hw _ hm; simp [wf, maxBits] at hw hm; omega
  · intro n m hw _ hm; simp [wf, maxBits] at hw hm; omega
  · intro _ _ hm; simp [maxBits] at hm
  · intro n _ hwC hm; simp [wfC, maxBits] at hwC hm; omega
  · intro t n ih hw hwC hm v ht
    simp only [wf] at hw
    simp only [wfC, Bool.and_eq_true] at hwC
    simp only [maxBits, Nat.mul_eq_zero] at hm
    cases v with
    | arr vs =>
      simp only [hasTy, Bool.and_eq_true, beq_iff_eq] at ht
      simp only [serBits, ht.1, if_true]
      rcases hm with h | h
      · subst h
        have : vs = [] := List.eq_nil_of_length_eq_zero ht.1
        subst this; rfl
      · exact serAll_triv (ih hw hwC.2 h) vs ht.2
    | _ => simp [hasTy] at ht
  · intro t c _ _ _ hm
    simp only [maxBits, prefixBits] at hm
    rcases stdWidth_cases c with h | h | h | h <;> omega
  · intro fs ih hw hwC hm v ht
    simp only [wf] at hw
    simp only [wfC] at hwC
    simp only [maxBits] at hm
    have h1 := padTo_ge 8 (maxFields fs 0)
    cases v with
    | struct vs =>
      simp only [hasTy] at ht
      have := serFields_triv fs ih hw hwC vs 0 ht (by omega)
      simp [serBits, this, map_ok', padLen, zeros]
    | _ => simp [hasTy] at ht
  · intro fs _ _ _ hm
    simp only [maxBits, tagBits] at hm
    have h1 := padTo_ge 8 (stdWidth (fs.length - 1) + maxOpts fs)
    rcases stdWidth_cases (fs.length - 1) with h | h | h | h <;> omega
  · intro e t _ _ _ hm
    simp [maxBits, headerBits] at hm

/-! ### small facts -/

theorem fixedLen_len {t : Ty} (hw : wf t = true) (hf : fixedLen t = true) {v : Val} {bits : List Bool}
    (h : serBits t v = .ok bits) : bits.length = maxBits t := by
  have := lenOK t hw v bits h
  simp only [fixedLen, beq_iff_eq] at hf
  omega

theorem maxBits_composite_mod8 {t : Ty} (h : isComposite t = true) : maxBits t % 8 = 0 := by
  cases t <;> simp [isComposite] at h
  · simp only [maxBits]; exact padTo_mod (Or.inr rfl) _
  · simp only [maxBits]; exact padTo_mod (Or.inr rfl) _

theorem align_mod_of_mod8 (t : Ty) {x : Nat} (h : x % 8 = 0) : x % align t = 0 := by
  rcases align_cases t with e | e <;> rw [e] <;> omega

theorem tagBits_cases (n : Nat) : tagBits n = 8 ∨ tagBits n = 16 ∨ tagBits n = 32 ∨ tagBits n = 64 :=
  stdWidth_cases _

theorem prefixBits_cases (n : Nat) : prefixBits n = 8 ∨ prefixBits n = 16 ∨ prefixBits n = 32 ∨ prefixBits n = 64 :=
  stdWidth_cases _

theorem zeroCost_maxBits {o : Opts} {t : Ty} (h : zeroCost o t = true) : maxBits t = primBits t := by
  cases t <;> simp [zeroCost] at h <;> rfl

theorem serElems_nonbool (o : Opts) (t : Ty) (ht : t ≠ .bool) (elem : Val → Buf → Nat → Except Err W)
    (vs : List Val) (storN : Nat) (post : Option (Nat × Nat)) (buf : Buf) (off : Nat) :
    serElems o t elem vs storN post buf off =
      if zeroCost o t then
        match liftP (copyBits buf off (vs.length * primBits t) (arrRep t vs storN) 0) with
        | .error e => .error e
        | .ok b => .ok (b, off + vs.length * primBits t)
      else
        match serLoop elem vs buf off with
        | .error e => .error e
        | .ok (b, off') => assertC o (inRange (off' - off) post = true) (.ok (b, off')) := by
  cases t <;> first | exact absurd rfl ht | rfl

/-! ### the element loop -/

section
set_option linter.unusedSectionVars false
variable (o : Opts) (hs : o.Sound)
include hs

theorem serLoop_refines (t : Ty) (hT : SerOKC o t) (hw : wf t = true) (hwC : wfC t = true) (cap : Nat)
    (d0 R : AOff) (off0 K : Nat) (hd0 : Adm d0 off0) (hR : ∀ x, Sums (resBits t) K x → Adm R x) :
    ∀ (vs : List Val) (buf : Buf) (off j x : Nat), (∀ v ∈ vs, hasTy t v = true ∧ storageOK t v = true) → WF buf →
      cap ≤ buf.length → off + vs.length * maxBits t ≤ 8 * cap → off % align t = 0 → off = off0 + x →
      Sums (resBits t) j x → j + vs.length ≤ K + 1 →
      SerRefines (serLoop (fun v b f => anyGuard o t (some (cap * 8)) (d0.add R) f (serAny o t v cap (d0.add R) b f))
          vs buf off)
        (serAllWith (serBits t) vs) buf off := by
  intro vs
  induction vs with
  | nil =>
    intro buf off j x _ _ _ _ _ _ _ _
    simp only [serLoop, serAllWith, SerRefines]
    exact ⟨buf, by simp, Wrote.refl buf off⟩
  | cons v vs ih =>
    intro buf off j x hall hwf hcap hroom hal hoff hsum hjk
    simp only [List.length_cons] at hroom hjk
    have hadm : Adm (d0.add R) off := by
      rw [hoff]; exact adm_add hd0 (hR x (sums_mono hsum (by omega)))
    have hv := hall v (by simp)
    have h1 := hT hw hwC v cap (d0.add R) buf off hv.1 hv.2 hwf hcap
      (by rw [Nat.succ_mul] at hroom; omega) hadm hal
    simp only [serLoop, serAllWith]
    rw [anyGuard_ok o hs t _ _ _ _ hal hadm (by
      simp only [optLe, decide_eq_true_eq]; rw [Nat.succ_mul] at hroom; omega)]
    cases hsv : serBits t v with
    | error e =>
      rw [hsv] at h1
      simp only [SerRefines] at h1 ⊢
      rw [h1]
    | ok a =>
      rw [hsv] at h1
      simp only [SerRefines] at h1
      obtain ⟨b1, hb1, hw1⟩ := h1
      have hlen := lenOK t hw v a hsv
      have hres := resOK t hw v a hsv
      have h2 := ih b1 (off + a.length) (j + 1) (x + a.length) (fun w hw' => hall w (List.mem_cons_of_mem _ hw'))
        (hw1.wf hwf) (by rw [hw1.len]; exact hcap) (by rw [Nat.succ_mul] at hroom; omega)
        (by rcases align_cases t with e | e <;> rw [e] at hal hlen ⊢ <;> omega) (by omega)
        (sums_step hsum hres) (by omega)
      rw [hb1]
      dsimp only
      cases hsa : serAllWith (serBits t) vs with
      | error e =>
        rw [hsa] at h2
        simp only [SerRefines] at h2 ⊢
        rw [h2]
      | ok b =>
        rw [hsa] at h2
        simp only [SerRefines] at h2 ⊢
        exact SerStep.trans hw1 h2

theorem serElems_refines (t : Ty) (hT : SerOKC o t) (hw : wf t = true) (hwC : wfC t = true) (cap : Nat)
    (d0 R : AOff) (K : Nat) (hR : ∀ x, Sums (resBits t) K x → Adm R x)
    (vs : List Val) (storN : Nat) (post : Option (Nat × Nat)) (buf : Buf) (off : Nat) (hd0 : Adm d0 off)
    (hall : ∀ v ∈ vs, hasTy t v = true ∧ storageOK t v = true) (hwf : WF buf)
    (hcap : cap ≤ buf.length) (hroom : off + vs.length * maxBits t ≤ 8 * cap) (hal : off % align t = 0)
    (hk : vs.length ≤ K + 1)
    (hpost : ∀ bits, serAllWith (serBits t) vs = .ok bits → inRange bits.length post = true) :
    SerRefines (serElems o t (fun v b f => anyGuard o t (some (cap * 8)) (d0.add R) f (serAny o t v cap (d0.add R) b f))
        vs storN post buf off)
      (serAllWith (serBits t) vs) buf off := by
  by_cases hb : t = .bool
  · subst hb
    -- packed bit array
    rw [serAll_bool vs (fun v hv => (hall v hv).1)]
    simp only [SerRefines, serElems]
    simp only [maxBits, Nat.mul_one] at hroom
    have hlen : (vs.map asBool).length = vs.length := by simp
    obtain ⟨r, hr, hwr⟩ := copyBits_wrote buf (bitRep vs storN) off vs.length (vs.map asBool)
      (WF_padRight (WF_packBytes _) _)
      (by rw [bitRep, length_padRight, packBytes_length, hlen]; omega) (by omega) hlen
      (by
        intro i hi
        rw [bitRep, bitAt_padRight _ _ _ (by rw [packBytes_length, hlen]; omega), bitAt_packBytes])
    rw [hr]
    exact ⟨r, by simp, hwr⟩
  · rw [serElems_nonbool o t hb]
    by_cases hz : zeroCost o t = true
    · -- member array copied as it is
      simp only [hz, if_true]
      obtain ⟨bits, hbits, hbl, hrl, hwfr, hv⟩ := serAll_zeroCost o t hz hw vs hall
      rw [hbits]
      simp only [SerRefines]
      rw [zeroCost_maxBits hz] at hroom
      obtain ⟨b, hb8, _⟩ : ∃ b, primBits t % 8 = 0 ∧ b = 0 := by
        cases vs with
        | nil =>
          refine ⟨0, ?_, rfl⟩
          cases t <;> simp [zeroCost] at hz
          · have := isStd_storW hz.2; have := storW_mod8 ‹Nat›; simp only [primBits]; omega
          · have := isStd_storW hz.2; have := storW_mod8 ‹Nat›; simp only [primBits]; omega
          · simp only [primBits]; omega
        | cons v vs =>
          obtain ⟨_, _, _, _, h8, _⟩ := elem_zeroCost o t v hz hw (hall v (by simp)).1 (hall v (by simp)).2
          exact ⟨0, h8, rfl⟩
      obtain ⟨r, hr, hwr⟩ := copyBits_wrote buf (arrRep t vs storN) off (vs.length * primBits t) bits
        (WF_padRight hwfr _)
        (by
          rw [arrRep, length_padRight, hrl]
          have : vs.length * (primBits t / 8) * 8 = vs.length * primBits t := by
            rw [Nat.mul_assoc]; congr 1; omega
          omega)
        (by omega) hbl
        (by
          intro i hi
          rw [arrRep, bitAt_padRight _ _ _ (by
            rw [hrl]
            have : 8 * (vs.length * (primBits t / 8)) = vs.length * primBits t := by
              rw [Nat.mul_left_comm]; congr 1; omega
            omega)]
          exact hv i hi)
      rw [hr]
      exact ⟨r, by simp [hbl], hwr⟩
    · simp only [hz, Bool.false_eq_true, if_false]
      have hl := serLoop_refines o hs t hT hw hwC cap d0 R off K hd0 hR vs buf off 0 0 hall hwf hcap hroom hal rfl
        (sums_zero _ _) (by omega)
      cases hsa : serAllWith (serBits t) vs with
      | error e =>
        rw [hsa] at hl
        simp only [SerRefines] at hl ⊢
        rw [hl]
      | ok bits =>
        rw [hsa] at hl
        simp only [SerRefines] at hl ⊢
        obtain ⟨b1, hb1, hw1⟩ := hl
        rw [hb1]
        dsimp only
        rw [assertC_ok o (show inRange (off + bits.length - off) post = true by
          rw [Nat.add_sub_cancel_left]; exact hpost bits hsa)]
        exact ⟨b1, rfl, hw1⟩

/-! ### struct fields and union options -/

theorem serFields_refines : ∀ fs : List Ty, (∀ f ∈ fs, SerOKC o f) → wfAll fs = true → wfCAll fs = true →
    ∀ (vs : List Val) (first : Bool) (cap : Nat) (d : AOff) (buf : Buf) (off : Nat),
      hasTyFields fs vs = true → storageOKFields fs vs = true → WF buf → cap ≤ buf.length →
      maxFields fs off ≤ 8 * cap → Adm d off → (first = true → off = 0) →
      SerRefines (GenC.serFields o fs vs first cap d buf off) (Dsdl.serFields fs vs off) buf off := by
  intro fs
  induction fs with
  | nil =>
    intro _ _ _ vs first cap d buf off ht _ _ _ _ _ _
    cases vs with
    | nil =>
      simp only [GenC.serFields, Dsdl.serFields, SerRefines]
      exact ⟨buf, by simp, Wrote.refl buf off⟩
    | cons v vs => simp [hasTyFields] at ht
  | cons f fs ih =>
    intro hT hw hwC vs first cap d buf off ht hst hwf hcap hroom hd hfirst
    cases vs with
    | nil => simp [hasTyFields] at ht
    | cons v vs =>
      simp only [hasTyFields, Bool.and_eq_true] at ht
      simp only [storageOKFields, Bool.and_eq_true] at hst
      simp only [wfAll, Bool.and_eq_true] at hw
      simp only [wfCAll, Bool.and_eq_true] at hwC
      simp only [maxFields] at hroom
      have hge := maxFields_ge fs (padTo (align f) off + maxBits f)
      -- padding before the field
      have hpad : ∃ b0, (if first = true then (Except.ok (buf, off) : Except Err W) else padSer o (align f) cap buf off)
          = .ok (b0, padTo (align f) off) ∧ Wrote buf b0 off (zeros (padLen (align f) off)) := by
        cases first with
        | true =>
          have h0 := hfirst rfl
          subst h0
          have : padLen (align f) 0 = 0 := by rcases align_cases f with e | e <;> rw [e] <;> rfl
          simp only [if_true, padTo, this, zeros, List.replicate_zero]
          exact ⟨buf, rfl, Wrote.refl buf 0⟩
        | false =>
          obtain ⟨b0, hb0, hw0⟩ := padSer_wrote o (align f) cap buf off (align_cases f) hcap (by omega)
          simp only [zeros_length] at hb0
          exact ⟨b0, by simpa [padTo] using hb0, hw0⟩
      obtain ⟨b0, hb0, hw0⟩ := hpad
      have h1 := hT f (by simp) hw.1 hwC.1 v cap (d.pad (align f)) b0 (padTo (align f) off) ht.1 hst.1 (hw0.wf hwf)
        (by rw [hw0.len]; exact hcap) (by omega) (adm_pad (align_cases f) hd) (padTo_mod (align_cases f) off)
      simp only [GenC.serFields, Dsdl.serFields, hb0]
      rw [anyGuard_ok o hs f _ _ _ _ (padTo_mod (align_cases f) off) (adm_pad (align_cases f) hd) (by
        simp only [optLe, decide_eq_true_eq]; omega)]
      cases hsv : serBits f v with
      | error e =>
        rw [hsv] at h1
        simp only [SerRefines] at h1 ⊢
        rw [h1]
      | ok a =>
        rw [hsv] at h1
        simp only [SerRefines] at h1
        obtain ⟨b1, hb1, hw1⟩ := h1
        have hlen := lenOK f hw.1 v a hsv
        have hres := resOK f hw.1 v a hsv
        have h2 := ih (fun g hg => hT g (List.mem_cons_of_mem _ hg)) hw.2 hwC.2 vs false cap
          ((d.pad (align f)).add (resBits f)) b1 (padTo (align f) off + a.length) ht.2 hst.2 (hw1.wf (hw0.wf hwf))
          (by rw [hw1.len, hw0.len]; exact hcap)
          (by have := maxFields_mono fs (by omega : padTo (align f) off + a.length ≤ padTo (align f) off + maxBits f); omega)
          (adm_add (adm_pad (align_cases f) hd) hres) (by intro h; cases h)
        rw [hb1]
        dsimp only
        cases hsa : Dsdl.serFields fs vs (padTo (align f) off + a.length) with
        | error e =>
          rw [hsa] at h2
          simp only [SerRefines] at h2 ⊢
          rw [h2]
        | ok b =>
          rw [hsa] at h2
          simp only [SerRefines] at h2 ⊢
          have hw01 : Wrote buf b1 off (zeros (padLen (align f) off) ++ a) := by
            apply hw0.trans
            simpa [padTo] using hw1
          generalize GenC.serFields o fs vs false cap ((d.pad (align f)).add (resBits f)) b1
            (padTo (align f) off + a.length) = r at h2 ⊢
          have e : padTo (align f) off + a.length = off + (zeros (padLen (align f) off) ++ a).length := by
            simp [padTo]; omega
          rw [e] at h2
          have := SerStep.trans hw01 h2
          simpa [List.append_assoc] using this

theorem serNth_bad : ∀ (fs : List Ty) (k : Nat) (v : Val) (cap : Nat) (d : AOff) (buf : Buf) (off : Nat),
    k ≥ fs.length → GenC.serNth o fs k v cap d buf off = .error eBadUnionTag := by
  intro fs
  induction fs with
  | nil => intro k v cap d buf off _; simp [GenC.serNth]
  | cons f fs ih =>
    intro k v cap d buf off hk
    cases k with
    | zero => simp at hk
    | succ k =>
      simp only [GenC.serNth]
      exact ih k v cap d buf off (by simpa using hk)

theorem serNth_refines : ∀ fs : List Ty, (∀ f ∈ fs, SerOKC o f) → wfAll fs = true → wfCAll fs = true →
    ∀ (k : Nat) (v : Val) (cap : Nat) (d : AOff) (buf : Buf) (off : Nat),
      hasTyNth fs k v = true → storageOKNth fs k v = true → WF buf → cap ≤ buf.length →
      off + maxOpts fs ≤ 8 * cap → Adm d off → off % 8 = 0 →
      SerRefines (GenC.serNth o fs k v cap d buf off) (Dsdl.serNth fs k v) buf off := by
  intro fs
  induction fs with
  | nil =>
    intro _ _ _ k v cap d buf off _ _ _ _ _ _ _
    simp [GenC.serNth, Dsdl.serNth, SerRefines, embedS]
  | cons f fs ih =>
    intro hT hw hwC k v cap d buf off ht hst hwf hcap hroom hd hal
    simp only [wfAll, Bool.and_eq_true] at hw
    simp only [wfCAll, Bool.and_eq_true] at hwC
    simp only [maxOpts] at hroom
    cases k with
    | zero =>
      simp only [hasTyNth] at ht
      simp only [storageOKNth] at hst
      simp only [GenC.serNth, Dsdl.serNth]
      rw [anyGuard_ok o hs f _ _ _ _ (align_mod_of_mod8 f hal) hd (by simp only [optLe, decide_eq_true_eq]; omega)]
      exact hT f (by simp) hw.1 hwC.1 v cap d buf off ht hst hwf hcap (by omega) hd (align_mod_of_mod8 f hal)
    | succ k =>
      simp only [hasTyNth] at ht
      simp only [storageOKNth] at hst
      simp only [GenC.serNth, Dsdl.serNth]
      exact ih (fun g hg => hT g (List.mem_cons_of_mem _ hg)) hw.2 hwC.2 k v cap d buf off ht hst hwf hcap
        (by omega) hd hal

/-! ### the induction over the type -/

theorem fnOKC_noncomposite {t : Ty} (h : isComposite t = false) : FnOKC o t := by
  intro _ _ hc; rw [h] at hc; cases hc

theorem serP_struct (fs : List Ty) (ih : ∀ f ∈ fs, SerP o f) : SerP o (.struct fs) := by
  have hfn : FnOKC o (.struct fs) := by
    intro hw hwC _ v ht hst
    simp only [wf] at hw
    simp only [wfC] at hwC
    cases v with
    | struct vs =>
      simp only [hasTy] at ht
      simp only [storageOK] at hst
      have e : serFn o (.struct fs) (.struct vs) =
          topSer o (minBits (.struct fs)) (maxBits (.struct fs))
            (fun c b => GenC.serFields o fs vs true c AOff.zero b 0) := by
        funext b c; simp only [serFn] <;> rfl
      rw [e]
      have hspec : serBits (.struct fs) (.struct vs) =
          (Dsdl.serFields fs vs 0).map fun bs => bs ++ zeros (padLen 8 bs.length) := by simp only [serBits]
      rw [hspec]
      have hpg := padTo_ge 8 (maxFields fs 0)
      apply topSer_fnOK
      · intro sub capS hwf hc hmx
        simp only [maxBits] at hmx
        exact serFields_refines o hs fs (fun f hf => (ih f hf).1) hw hwC vs true capS AOff.zero sub 0 ht hst hwf hc
          (by omega) (adm_zero rfl) (fun _ => rfl)
      · intro bits hb
        have := lenOK (.struct fs) (by simpa [wf] using hw) (.struct vs) (bits ++ zeros (padLen 8 bits.length))
          (by simp only [serBits, hb, map_ok'])
        simp only [List.length_append, zeros_length] at this
        simp only [padTo]
        exact ⟨this.1, this.2.1⟩
      · intro h0
        simp only [maxBits] at h0
        exact serFields_triv fs (fun f _ => trivOK f) hw hwC vs 0 ht (by omega)
    | _ => simp [hasTy] at ht
  refine ⟨?_, hfn⟩
  intro hw hwC v cap d buf off ht hst hwf hcap hroom hd hal
  have hf := hfn hw hwC rfl v ht hst
  cases v with
  | struct vs =>
    have e : serAny o (.struct fs) (.struct vs) cap d buf off =
        nestedSer o (serFn o (.struct fs) (.struct vs)) false (fixedLen (.struct fs)) (minBits (.struct fs))
          (maxBits (.struct fs)) cap d buf off := by
      simp only [serAny, serFn]
    rw [e]
    simp only [align] at hal
    exact nestedSer_refines o hs _ _ false _ _ _ hf (maxBits_composite_mod8 rfl)
      (fun hfx bits hb => fixedLen_len hw hfx hb)
      (fun bits hb => ⟨(lenOK _ hw _ bits hb).1, (lenOK _ hw _ bits hb).2.1⟩)
      cap d buf off hwf hcap hal hd (by simpa using hroom)
  | _ => simp [hasTy] at ht

theorem serP_union (fs : List Ty) (ih : ∀ f ∈ fs, SerP o f) : SerP o (.union fs) := by
  have hfn : FnOKC o (.union fs) := by
    intro hw hwC _ v ht hst
    simp only [wf, Bool.and_eq_true, decide_eq_true_eq] at hw
    simp only [wfC] at hwC
    cases v with
    | union k v =>
      simp only [hasTy] at ht
      simp only [storageOK] at hst
      have e : serFn o (.union fs) (.union k v) =
          topSer o (minBits (.union fs)) (maxBits (.union fs)) (fun c b =>
            match serInt o false (tagBits fs.length) (tagBits fs.length) false (k : Int) c AOff.zero b 0 with
            | .error e => .error e
            | .ok (b, f) => GenC.serNth o fs k v c (AOff.single (tagBits fs.length)) b f) := by
        funext b c; simp only [serFn] <;> rfl
      rw [e]
      have hspec : serBits (.union fs) (.union k v) =
          (if k ≥ fs.length then (.error .badUnionTag : Except SerErr (List Bool))
            else (Dsdl.serNth fs k v).map (natToBits (tagBits fs.length) k ++ ·)).map
            fun bs => bs ++ zeros (padLen 8 bs.length) := by
        simp only [serBits]
        by_cases hk : k ≥ fs.length
        · simp only [hk, if_true, map_error']
        · simp only [hk, if_false]
          cases Dsdl.serNth fs k v <;> rfl
      rw [hspec]
      have htb := tagBits_cases fs.length
      have hpg := padTo_ge 8 (tagBits fs.length + maxOpts fs)
      apply topSer_fnOK
      · intro sub capS hwf hc hmx
        simp only [maxBits] at hmx
        obtain ⟨b1, hb1, hw1⟩ := serInt_wrote o hs false (tagBits fs.length) (tagBits fs.length) false (k : Int) capS
          AOff.zero sub 0 (by omega) (Nat.le_refl _) (by omega) (by omega) hc (by omega) (adm_zero rfl)
        have htag : natToBits (tagBits fs.length) (lowBits (tagBits fs.length) (satV false (tagBits fs.length) false (k : Int)))
            = natToBits (tagBits fs.length) k := by
          have : satV false (tagBits fs.length) false (k : Int) = (k : Int) := by simp [satV]
          rw [this, lowBits_natCast, natToBits_mod]
        rw [htag] at hb1 hw1
        simp only [natToBits_length, Nat.zero_add] at hb1
        rw [hb1]
        dsimp only
        by_cases hk : k ≥ fs.length
        · simp only [hk, if_true, SerRefines]
          rw [serNth_bad o hs fs k v _ _ _ _ hk]; rfl
        · simp only [hk, if_false]
          have h2 := serNth_refines o hs fs (fun f hf => (ih f hf).1) hw.2 hwC k v capS (AOff.single (tagBits fs.length))
            b1 (tagBits fs.length) ht hst (hw1.wf hwf) (by rw [hw1.len]; exact hc) (by omega) (adm_single _) (by omega)
          cases hsn : Dsdl.serNth fs k v with
          | error e =>
            rw [hsn] at h2
            simp only [SerRefines, map_error'] at h2 ⊢
            exact h2
          | ok bs =>
            rw [hsn] at h2
            simp only [SerRefines, map_ok'] at h2 ⊢
            have := SerStep.trans hw1 (by simpa using h2)
            exact this
      · intro bits hb
        have hwu : wf (.union fs) = true := by simpa [wf] using hw
        have := lenOK (.union fs) hwu (.union k v) (bits ++ zeros (padLen 8 bits.length))
          (by rw [hspec, hb, map_ok'])
        simp only [List.length_append, zeros_length] at this
        simp only [padTo]
        exact ⟨this.1, this.2.1⟩
      · intro h0
        simp only [maxBits] at h0
        omega
    | _ => simp [hasTy] at ht
  refine ⟨?_, hfn⟩
  intro hw hwC v cap d buf off ht hst hwf hcap hroom hd hal
  have hf := hfn hw hwC rfl v ht hst
  cases v with
  | union k v =>
    have e : serAny o (.union fs) (.union k v) cap d buf off =
        nestedSer o (serFn o (.union fs) (.union k v)) false (fixedLen (.union fs)) (minBits (.union fs))
          (maxBits (.union fs)) cap d buf off := by
      simp only [serAny, serFn]
    rw [e]
    simp only [align] at hal
    exact nestedSer_refines o hs _ _ false _ _ _ hf (maxBits_composite_mod8 rfl)
      (fun hfx bits hb => fixedLen_len hw hfx hb)
      (fun bits hb => ⟨(lenOK _ hw _ bits hb).1, (lenOK _ hw _ bits hb).2.1⟩)
      cap d buf off hwf hcap hal hd (by simpa using hroom)
  | _ => simp [hasTy] at ht

theorem serP (t : Ty) : SerP o t := by
  refine Ty.ind (P := SerP o) ?_ ?_ ?_ ?_ ?_ ?_ ?_ ?_ ?_ ?_ t
  · -- uint
    intro n m
    refine ⟨?_, fnOKC_noncomposite o hs rfl⟩
    intro hw hwC v cap d buf off ht hst hwf hcap hroom hd hal
    simp only [wf, decide_eq_true_eq] at hw
    cases v <;> simp [hasTy] at ht
    rename_i i
    simp only [storageOK, decide_eq_true_eq] at hst
    simp only [maxBits] at hroom
    simp only [serAny, serBits, SerRefines]
    rw [castU_eq_lowBits n m i hst.1 hst.2]
    exact serInt_wrote o hs false n (storW n) (m == .sat) i cap d buf off hw.1 (storW_ge n hw.2) (storW_mod8 n)
      (storW_le n) hcap hroom hd
  · -- sint
    intro n m
    refine ⟨?_, fnOKC_noncomposite o hs rfl⟩
    intro hw hwC v cap d buf off ht hst hwf hcap hroom hd hal
    simp only [wf, decide_eq_true_eq] at hw
    cases v <;> simp [hasTy] at ht
    rename_i i
    simp only [storageOK, decide_eq_true_eq] at hst
    simp only [maxBits] at hroom
    simp only [serAny, serBits, SerRefines]
    rw [castS_eq_lowBits n m i hst.1 hst.2]
    exact serInt_wrote o hs true n (storW n) (m == .sat) i cap d buf off hw.1 (storW_ge n hw.2) (storW_mod8 n)
      (storW_le n) hcap hroom hd
  · -- float
    intro n m
    refine ⟨?_, fnOKC_noncomposite o hs rfl⟩
    intro hw hwC v cap d buf off ht hst hwf hcap hroom hd hal
    simp only [wf, decide_eq_true_eq] at hw
    cases v <;> simp [hasTy] at ht
    rename_i x
    simp only [storageOK, decide_eq_true_eq] at hst
    simp only [maxBits] at hroom
    simp only [serAny, serBits, SerRefines]
    rw [← floatBits_eq_narrow hw m x ht hst]
    exact serFloat_wrote o hs n m x cap d buf off hw hcap hroom hd
  · -- bool
    refine ⟨?_, fnOKC_noncomposite o hs rfl⟩
    intro hw hwC v cap d buf off ht hst hwf hcap hroom hd hal
    cases v <;> simp [hasTy] at ht
    rename_i b
    simp only [maxBits] at hroom
    simp only [serAny, serBits, SerRefines]
    exact serBool_wrote o hs b d buf off hwf (by omega) hd
  · -- void
    intro n
    refine ⟨?_, fnOKC_noncomposite o hs rfl⟩
    intro hw hwC v cap d buf off ht hst hwf hcap hroom hd hal
    simp only [wfC, decide_eq_true_eq] at hwC
    cases v <;> simp [hasTy] at ht
    simp only [maxBits] at hroom
    simp only [serAny, serBits, SerRefines]
    exact serVoid_wrote o hs n cap d buf off hwC.1 hwC.2 hcap hroom hd
  · -- fixed array
    intro t n ih
    refine ⟨?_, fnOKC_noncomposite o hs rfl⟩
    intro hw hwC v cap d buf off ht hst hwf hcap hroom hd hal
    simp only [wf] at hw
    simp only [wfC, Bool.and_eq_true] at hwC
    cases v with
    | arr vs =>
      simp only [hasTy, Bool.and_eq_true, beq_iff_eq, List.all_eq_true] at ht
      simp only [storageOK, List.all_eq_true] at hst
      simp only [maxBits] at hroom
      simp only [align] at hal
      simp only [serAny, serBits, ht.1, if_true]
      exact serElems_refines o hs t ih.1 hw hwC.2 cap d (AOff.rangeRep (resBits t) (n - 1) AOff.zero) (n - 1)
        (fun x hx => adm_rangeRep_zero hx) vs n _ buf off hd (fun v hv => ⟨ht.2 v hv, hst v hv⟩) hwf hcap
        (by rw [ht.1]; exact hroom) hal (by omega)
        (by
          intro bits hb
          have := serAll_len (fun v bs h => lenOK t hw v bs h) vs bits hb
          simp only [inRange, decide_eq_true_eq]
          rw [← ht.1]; exact ⟨this.1, this.2.1⟩)
    | _ => simp [hasTy] at ht
  · -- variable array
    intro t c ih
    refine ⟨?_, fnOKC_noncomposite o hs rfl⟩
    intro hw hwC v cap d buf off ht hst hwf hcap hroom hd hal
    simp only [wf, Bool.and_eq_true, decide_eq_true_eq] at hw
    simp only [wfC] at hwC
    cases v with
    | arr vs =>
      simp only [hasTy, List.all_eq_true] at ht
      simp only [storageOK, Bool.and_eq_true, decide_eq_true_eq, List.all_eq_true] at hst
      simp only [maxBits] at hroom
      simp only [align] at hal
      simp only [serAny, serBits]
      by_cases hlen : vs.length > c
      · simp [hlen, SerRefines, embedS]
      · simp only [hlen, if_false]
        have hp := prefixBits_cases c
        -- the length prefix
        obtain ⟨b1, hb1, hw1⟩ := serInt_wrote o hs false (prefixBits c) 64 false (vs.length : Int) cap d buf off
          (by omega) (by omega) (by omega) (by omega) hcap (by omega) hd
        have hpre : natToBits (prefixBits c) (lowBits (prefixBits c) (satV false (prefixBits c) false (vs.length : Int)))
            = natToBits (prefixBits c) vs.length := by
          have : satV false (prefixBits c) false (vs.length : Int) = (vs.length : Int) := by simp [satV]
          rw [this, lowBits_natCast, natToBits_mod]
        rw [hpre] at hb1 hw1
        simp only [natToBits_length] at hb1
        rw [hb1]
        dsimp only
        rw [assertC_ok o (fun ho => hs.aligned (adm_add hd (adm_single (prefixBits c))) ho)]
        have hmul : vs.length * maxBits t ≤ c * maxBits t := Nat.mul_le_mul_right _ (by omega)
        have h2 := serElems_refines o hs t ih.1 hw.2 hwC cap d (resBits (.varr t c)) c
          (fun x hx => by simpa [resBits] using adm_rangeRep_zero hx) vs c none b1 (off + prefixBits c)
          (adm_congr (by omega) hd) (fun v hv => ⟨ht v hv, hst.2 v hv⟩) (hw1.wf hwf) (by rw [hw1.len]; exact hcap)
          (by omega) (by rcases align_cases t with e | e <;> rw [e] at hal ⊢ <;> omega) (by omega)
          (fun _ _ => rfl)
        cases hsa : serAllWith (serBits t) vs with
        | error e =>
          rw [hsa] at h2
          simp only [SerRefines, map_error'] at h2 ⊢
          exact h2
        | ok bs =>
          rw [hsa] at h2
          simp only [SerRefines, map_ok'] at h2 ⊢
          exact SerStep.trans hw1 (by simpa using h2)
    | _ => simp [hasTy] at ht
  · exact fun fs ih => serP_struct o hs fs ih
  · exact fun fs ih => serP_union o hs fs ih
  · -- delimited
    intro ext inner ih
    refine ⟨?_, fnOKC_noncomposite o hs rfl⟩
    intro hw hwC v cap d buf off ht hst hwf hcap hroom hd hal
    simp only [wf, Bool.and_eq_true, decide_eq_true_eq] at hw
    simp only [wfC] at hwC
    obtain ⟨⟨hcomp, hext⟩, hwi⟩ := hw
    have hti : hasTy inner v = true := by simpa [hasTy] using ht
    have hsti : storageOK inner v = true := by
      cases inner <;> simp [isComposite] at hcomp <;> simpa [storageOK] using hst
    have hf := ih.2 hwi hwC hcomp v hti hsti
    have e : serAny o (.delim ext inner) v cap d buf off =
        nestedSer o (serFn o inner v) true (fixedLen inner) (minBits inner) (maxBits inner) cap d buf off := by
      cases inner <;> simp [isComposite] at hcomp <;> cases v <;> simp only [serAny]
    have hspec : serBits (.delim ext inner) v =
        (serBits inner v).map fun bs => natToBits 32 (bs.length / 8) ++ bs := by
      cases inner <;> simp [isComposite] at hcomp <;> cases v <;> simp only [serBits, headerBits]
    rw [e, hspec]
    simp only [align] at hal
    simp only [maxBits, headerBits] at hroom
    have := nestedSer_refines o hs _ _ true (fixedLen inner) _ _ hf (maxBits_composite_mod8 hcomp)
      (fun hfx bits hb => fixedLen_len hwi hfx hb)
      (fun bits hb => ⟨(lenOK _ hwi _ bits hb).1, (lenOK _ hwi _ bits hb).2.1⟩)
      cap d buf off hwf hcap hal hd (by simp only [if_true]; omega)
    simpa using this

/-! ### the generated serializer, top level -/

theorem wfC_topInner {t : Ty} (h : wfC t = true) : wfC (topInner t) = true := by
  cases t <;> simp_all [topInner, wfC]

theorem hasTy_topInner {t : Ty} {v : Val} (h : hasTy t v = true) : hasTy (topInner t) v = true := by
  cases t <;> simp_all [topInner, hasTy]

theorem storageOK_topInner {t : Ty} {v : Val} (hw : wf t = true) (h : storageOK t v = true) :
    storageOK (topInner t) v = true := by
  cases t with
  | delim e inner =>
    simp only [wf, Bool.and_eq_true] at hw
    have hc := hw.1.1
    cases inner <;> simp [isComposite] at hc <;> simpa [topInner, storageOK] using h
  | _ => simpa [topInner] using h

theorem serializeC_eq (t : Ty) (v : Val) (buf : Buf) (cap : Nat) :
    serializeC o t v buf cap = serFn o (topInner t) v buf cap := by
  unfold serializeC
  cases t <;> rfl

theorem serFn_tooSmall (T : Ty) (hc : isComposite T = true) (v : Val) (ht : hasTy T v = true) (buf : Buf)
    (cap : Nat) (h : 8 * cap < maxBits T) : serFn o T v buf cap = .error eTooSmall := by
  cases T <;> simp [isComposite] at hc
  · cases v <;> simp [hasTy] at ht
    simp only [serFn, topSer]
    rw [if_neg (by omega), if_pos h]
  · cases v <;> simp [hasTy] at ht
    simp only [serFn, topSer]
    rw [if_neg (by omega), if_pos h]

/-- (b) a buffer that cannot hold the longest representation is refused before anything is written. -/
theorem serializeC_tooSmall (t : Ty) (hc : isComposite (topInner t) = true) (v : Val) (ht : hasTy t v = true)
    (buf : Buf) (cap : Nat) (h : 8 * cap < maxBits (topInner t)) :
    serializeC o t v buf cap = .error eTooSmall := by
  rw [serializeC_eq o hs]
  exact serFn_tooSmall o hs _ hc v (hasTy_topInner o hs ht) buf cap h

/-- (c) otherwise the generated serializer produces exactly the specified bytes, or the specified error. -/
theorem serializeC_refines (t : Ty) (hw : wf t = true) (hwC : wfC t = true) (hc : isComposite (topInner t) = true)
    (v : Val) (ht : hasTy t v = true) (hst : storageOK t v = true) (buf : Buf) (cap : Nat) (hwf : WF buf)
    (hcap : cap ≤ buf.length) (hroom : maxBits (topInner t) ≤ 8 * cap) :
    match serBytes t v with
    | .ok bytes => ∃ buf', serializeC o t v buf cap = .ok (buf', bytes.length) ∧ buf'.take bytes.length = bytes ∧
        buf'.length = buf.length ∧ WF buf'
    | .error e => serializeC o t v buf cap = .error (embedS e) := by
  rw [serializeC_eq o hs]
  have hf := (serP o hs (topInner t)).2 (wf_topInner hw) (wfC_topInner o hs hwC) hc v (hasTy_topInner o hs ht)
    (storageOK_topInner o hs hw hst) buf cap hwf hcap hroom
  simp only [serBytes, serTop]
  cases hsb : serBits (topInner t) v with
  | error e =>
    rw [hsb] at hf
    simpa [map_error'] using hf
  | ok bits =>
    rw [hsb] at hf
    simp only [map_ok']
    obtain ⟨h8, sub', hin, hwr⟩ := hf
    have hlen := lenOK (topInner t) (wf_topInner hw) v bits hsb
    have hbl : (packBytes bits).length = bits.length / 8 := by rw [packBytes_length]; omega
    refine ⟨sub', by rw [hin, hbl], ?_, hwr.len, hwr.wf hwf⟩
    rw [hbl]
    apply take_eq_packBytes (hwr.wf hwf) (by rw [hwr.len]; omega) (by omega)
    intro i hi
    simpa using hwr.new i hi

end

end NunavutVerif.GenC
