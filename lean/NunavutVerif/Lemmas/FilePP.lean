import NunavutVerif.Model.FilePP
/-!
Lemmas about `Model/FilePP.lean`: objects are left as they were by a pure call semantics (so the operations issued for a
file do not depend on the files before it), frame and locality of `interp` for the built-in file post-processors.
-/
namespace NunavutVerif.FilePP
open NunavutVerif.LineBuffer (Str)

/-! ### Purity: the objects survive a file unchanged -/

theorem callReal_pure (py : Str) (ren : Nat → Str → Str) : Sem.Pure (callReal py ren) := by
  intro o p
  cases o <;> rfl

theorem callAll_pure (sem : Sem) (h : Sem.Pure sem) (objs : List Obj) (p : Str) : (callAll sem objs p).2 = objs := by
  induction objs generalizing p with
  | nil => rfl
  | cons o os ih =>
    unfold callAll
    by_cases hf : o.isFilePP = true
    · simp only [hf, if_true]
      rw [ih, h]
    · simp only [hf]
      simp [ih]

theorem fileEvents_pure (sem : Sem) (h : Sem.Pure sem) (objs : List Obj) (j : Job) :
    (fileEvents sem objs j).2 = objs := by
  unfold fileEvents
  cases j.kind <;> simp [callAll_pure sem h]

theorem runEvents_pure (sem : Sem) (h : Sem.Pure sem) (objs : List Obj) (jobs : List Job) :
    runEvents sem objs jobs = (jobs.map fun j => (fileEvents sem objs j).1, objs) := by
  induction jobs with
  | nil => rfl
  | cons j js ih =>
    unfold runEvents
    simp only [fileEvents_pure sem h, ih, List.map_cons]

/-! ### interp -/

theorem interp_append (prog : Prog) (ren : Nat → Str → Str) (dm : Nat) (w : World) (a b : List Event) :
    interp prog ren dm w (a ++ b) = interp prog ren dm (interp prog ren dm w a) b := by
  induction a generalizing w with
  | nil => rfl
  | cons e es ih => simp [interp, ih]

theorem step_err_sticky (prog : Prog) (ren : Nat → Str → Str) (dm : Nat) (w : World) (e : Event)
    (h : (step prog ren dm w e).err = none) : w.err = none := by
  cases hw : w.err with
  | none => rfl
  | some x => simp [step, hw] at h

theorem interp_err_sticky (prog : Prog) (ren : Nat → Str → Str) (dm : Nat) (w : World) (evs : List Event)
    (h : (interp prog ren dm w evs).err = none) : w.err = none := by
  induction evs generalizing w with
  | nil => exact h
  | cons e es ih => exact step_err_sticky prog ren dm w e (ih _ h)

/-- The operations the built-in post-processors issue for the file at `p`: everything is about `p`; a command line
names only `p` and paths of `keep`. -/
def EvAt (keep : List Str) (p : Str) : Event → Prop
  | .reset _ => True
  | .raiseUnknown => True
  | .overwrite q _ => q = p
  | .write q _ _ => q = p
  | .copy q _ _ => q = p
  | .chmod q _ => q = p
  | .exec argv _ => argv.getLast? = some p ∧ ∀ a ∈ argv.dropLast, a ∈ keep
  | .custom _ _ => False

theorem FS.set_ne (fs : FS) (p q : Str) (f : Option File) (h : q ≠ p) : (fs.set p f).get q = fs.get q := by
  simp [FS.set, h]

theorem FS.set_eq (fs : FS) (p : Str) (f : Option File) : (fs.set p f).get p = f := by
  simp [FS.set]

/-- Frame of one operation: a path other than `p` that is protected from the program keeps its file. -/
theorem step_frame (prog : Prog) (ren : Nat → Str → Str) (dm : Nat) (keep : List Str) (hF : prog.EditsLastOnly keep)
    (w : World) (e : Event) (p q : Str) (he : EvAt keep p e) (hq : q ≠ p) :
    (step prog ren dm w e).fs.get q = w.fs.get q := by
  unfold step
  cases hw : w.err with
  | some x => rfl
  | none =>
    cases e with
    | reset k => rfl
    | raiseUnknown => rfl
    | overwrite p' allow =>
      have : p' = p := he
      subst this
      simp only
      cases hf : w.fs.get p' with
      | none => rfl
      | some f =>
        by_cases ha : allow = true
        · simp [ha, FS.set_ne _ _ _ _ hq]
        · simp [ha]
    | write p' b l =>
      have : p' = p := he
      subst this
      simp [FS.set_ne _ _ _ _ hq]
    | copy p' b m =>
      have : p' = p := he
      subst this
      simp [FS.set_ne _ _ _ _ hq]
    | chmod p' m =>
      have : p' = p := he
      subst this
      simp only
      cases hf : w.fs.get p' with
      | none => rfl
      | some f => simp [FS.set_ne _ _ _ _ hq]
    | exec argv chk =>
      simp only
      apply hF argv w.fs q he.2
      rw [he.1]
      exact fun h => hq (Option.some.inj h)
    | custom k p' => exact absurd he (by simp [EvAt])

theorem interp_frame (prog : Prog) (ren : Nat → Str → Str) (dm : Nat) (keep : List Str) (hF : prog.EditsLastOnly keep)
    (evs : List Event) (w : World) (q : Str) (he : ∀ e ∈ evs, ∃ p, EvAt keep p e ∧ q ≠ p) :
    (interp prog ren dm w evs).fs.get q = w.fs.get q := by
  induction evs generalizing w with
  | nil => rfl
  | cons e es ih =>
    simp only [interp]
    rw [ih _ (fun e' h' => he e' (List.mem_cons_of_mem _ h'))]
    obtain ⟨p, hp, hne⟩ := he e List.mem_cons_self
    exact step_frame prog ren dm keep hF w e p q hp hne

theorem mem_of_last_dropLast (argv : Argv) (p a : Str) (hl : argv.getLast? = some p) (ha : a ∈ argv)
    {keep : List Str} (hk : ∀ b ∈ argv.dropLast, b ∈ keep) : a = p ∨ a ∈ keep := by
  obtain ⟨ys, hys⟩ := List.getLast?_eq_some_iff.mp hl
  subst hys
  rw [List.dropLast_concat] at hk
  rcases List.mem_append.mp ha with h | h
  · exact Or.inr (hk a h)
  · exact Or.inl (by simpa using h)

/-- Two worlds that agree on `p` and on the protected paths, and are both (not) in error. -/
def Agree (keep : List Str) (p : Str) (w w' : World) : Prop :=
  w.err = w'.err ∧ ∀ q, (q = p ∨ q ∈ keep) → w.fs.get q = w'.fs.get q

theorem step_local (prog : Prog) (ren : Nat → Str → Str) (dm : Nat) (keep : List Str) (hF : prog.EditsLastOnly keep)
    (hL : prog.Local) (w w' : World) (e : Event) (p : Str) (he : EvAt keep p e) (h : Agree keep p w w') :
    Agree keep p (step prog ren dm w e) (step prog ren dm w' e) := by
  obtain ⟨herr, hfs⟩ := h
  unfold step
  cases hw : w.err with
  | some x =>
    have hw' : w'.err = some x := by rw [← herr, hw]
    simp only [hw']
    exact ⟨by rw [hw, hw'], hfs⟩
  | none =>
    have hw' : w'.err = none := by rw [← herr, hw]
    simp only [hw']
    have hp := hfs p (Or.inl rfl)
    cases e with
    | reset k => exact ⟨rfl, hfs⟩
    | raiseUnknown => exact ⟨rfl, hfs⟩
    | overwrite p' allow =>
      have : p' = p := he
      subst this
      simp only [← hp]
      cases hf : w.fs.get p' with
      | none => exact ⟨rfl, hfs⟩
      | some f =>
        by_cases ha : allow = true
        · simp only [ha, if_true]
          refine ⟨rfl, fun q hq => ?_⟩
          by_cases hqp : q = p'
          · subst hqp; simp [FS.set_eq]
          · simp [FS.set_ne _ _ _ _ hqp, hfs q hq]
        · simp only [ha]
          exact ⟨rfl, hfs⟩
    | write p' b l =>
      have : p' = p := he
      subst this
      simp only [← hp]
      refine ⟨rfl, fun q hq => ?_⟩
      by_cases hqp : q = p'
      · subst hqp; simp [FS.set_eq]
      · simp [FS.set_ne _ _ _ _ hqp, hfs q hq]
    | copy p' b m =>
      have : p' = p := he
      subst this
      refine ⟨rfl, fun q hq => ?_⟩
      by_cases hqp : q = p'
      · subst hqp; simp [FS.set_eq]
      · simp [FS.set_ne _ _ _ _ hqp, hfs q hq]
    | chmod p' m =>
      have : p' = p := he
      subst this
      simp only [← hp]
      cases hf : w.fs.get p' with
      | none => exact ⟨rfl, hfs⟩
      | some f =>
        refine ⟨rfl, fun q hq => ?_⟩
        by_cases hqp : q = p'
        · subst hqp; simp [FS.set_eq]
        · simp [FS.set_ne _ _ _ _ hqp, hfs q hq]
    | exec argv chk =>
      have hargs : ∀ a ∈ argv, w.fs.get a = w'.fs.get a := fun a ha => hfs a (mem_of_last_dropLast argv p a he.1 ha he.2)
      obtain ⟨hl1, hl2⟩ := hL argv w.fs w'.fs hargs
      simp only [hl2]
      refine ⟨rfl, fun q hq => ?_⟩
      show (prog argv w.fs).1.get q = (prog argv w'.fs).1.get q
      by_cases hm : q ∈ argv
      · exact hl1 q hm
      · have hne : some q ≠ argv.getLast? := by
          rw [he.1]
          intro h
          exact hm (Option.some.inj h ▸ List.mem_of_getLast? he.1)
        rw [hF argv w.fs q he.2 hne, hF argv w'.fs q he.2 hne]
        exact hfs q hq
    | custom k p' => exact absurd he (by simp [EvAt])

theorem interp_local (prog : Prog) (ren : Nat → Str → Str) (dm : Nat) (keep : List Str) (hF : prog.EditsLastOnly keep)
    (hL : prog.Local) (evs : List Event) (w w' : World) (p : Str) (he : ∀ e ∈ evs, EvAt keep p e)
    (h : Agree keep p w w') : Agree keep p (interp prog ren dm w evs) (interp prog ren dm w' evs) := by
  induction evs generalizing w w' with
  | nil => exact h
  | cons e es ih =>
    simp only [interp]
    exact ih _ _ (fun e' h' => he e' (List.mem_cons_of_mem _ h'))
      (step_local prog ren dm keep hF hL w w' e p (he e List.mem_cons_self) h)

/-! ### The operations of the built-in post-processors are about the file they are called with -/

theorem runArgs_cases (py : Str) (cmd : Argv) (p : Str) :
    runArgs py cmd p = (py :: cmd) ++ [p] ∨ runArgs py cmd p = cmd ++ [p] := by
  unfold runArgs
  simp only
  generalize (match (cmd ++ [p]).head? with | some a => endsWithPy a | none => false) = c
  cases c <;> simp

theorem runArgs_last (py : Str) (cmd : Argv) (p : Str) : (runArgs py cmd p).getLast? = some p := by
  rcases runArgs_cases py cmd p with h | h <;> rw [h] <;> exact List.getLast?_concat

theorem runArgs_dropLast (py : Str) (cmd : Argv) (p a : Str) (h : a ∈ (runArgs py cmd p).dropLast) :
    a = py ∨ a ∈ cmd := by
  rcases runArgs_cases py cmd p with h' | h' <;> rw [h', List.dropLast_concat] at h
  · simpa using h
  · exact Or.inr h

theorem callAll_builtin_events (py : Str) (ren : Nat → Str → Str) (keep : List Str) (objs : List Obj) (p : Str)
    (hb : builtinOnly objs = true) (hk : ∀ a, a = py ∨ a ∈ cfgArgs objs → a ∈ keep) :
    ∀ e ∈ (callAll (callReal py ren) objs p).1, EvAt keep p e := by
  induction objs with
  | nil => intro e he; cases he
  | cons o os ih =>
    cases o with
    | line k =>
      have := ih (by simpa [builtinOnly] using hb) (by intro a ha; exact hk a (by simpa [cfgArgs] using ha))
      simpa [callAll, Obj.isFilePP] using this
    | setMode m =>
      have := ih (by simpa [builtinOnly] using hb) (by intro a ha; exact hk a (by simpa [cfgArgs] using ha))
      intro e he
      simp only [callAll, Obj.isFilePP, if_true, callReal, List.cons_append, List.nil_append, List.mem_cons] at he
      rcases he with he | he
      · subst he; rfl
      · exact this e he
    | ext cmd chk =>
      have := ih (by simpa [builtinOnly] using hb)
        (by intro a ha
            rcases ha with ha | ha
            · exact hk a (Or.inl ha)
            · exact hk a (Or.inr (by simp [cfgArgs, ha])))
      intro e he
      simp only [callAll, Obj.isFilePP, if_true, callReal, List.cons_append, List.nil_append, List.mem_cons] at he
      rcases he with he | he
      · subst he
        refine ⟨runArgs_last py cmd p, fun a ha => ?_⟩
        rcases runArgs_dropLast py cmd p a ha with h | h
        · exact hk a (Or.inl h)
        · exact hk a (Or.inr (by simp [cfgArgs, h]))
      · exact this e he
    | custom k => simp [builtinOnly] at hb
    | unknown k => simp [builtinOnly] at hb

theorem classify_events (keep : List Str) (p : Str) (objs : List Obj) : ∀ e ∈ classify objs, EvAt keep p e := by
  induction objs with
  | nil => intro e he; cases he
  | cons o os ih =>
    cases o <;> simp only [classify] <;> intro e he
    · rcases List.mem_cons.mp he with h | h
      · subst h; trivial
      · exact ih e h
    · exact ih e he
    · exact ih e he
    · exact ih e he
    · rcases List.mem_cons.mp he with h | h
      · subst h; trivial
      · cases h

theorem fileEvents_builtin_events (py : Str) (ren : Nat → Str → Str) (keep : List Str) (objs : List Obj) (j : Job)
    (hb : builtinOnly objs = true) (hk : ∀ a, a = py ∨ a ∈ cfgArgs objs → a ∈ keep) :
    ∀ e ∈ (fileEvents (callReal py ren) objs j).1, EvAt keep j.path e := by
  have hc := callAll_builtin_events py ren keep objs j.path hb hk
  have hcl := classify_events keep j.path objs
  intro e he
  unfold fileEvents at he
  cases hkind : j.kind with
  | generate =>
    simp only [hkind, List.mem_append, List.mem_cons, List.not_mem_nil, or_false] at he
    rcases he with (he | he | he) | he
    · exact hcl e he
    · subst he; rfl
    · subst he; rfl
    · exact hc e he
  | copy m =>
    simp only [hkind, List.mem_append, List.mem_cons, List.not_mem_nil, or_false] at he
    rcases he with ((he | he) | he) | he
    · split at he
      · simp at he; subst he; trivial
      · cases he
    · subst he; rfl
    · split at he
      · simp at he; subst he; rfl
      · simp only [List.mem_append, List.mem_map, List.mem_cons, List.not_mem_nil, or_false] at he
        rcases he with ⟨k, _, hk'⟩ | he
        · subst hk'; trivial
        · subst he; rfl
    · exact hc e he

/-! ### The main lemma: the file at `j.path` after a whole run is the file after generating `j` alone -/

theorem run_file_independent (prog : Prog) (ren : Nat → Str → Str) (dm : Nat) (py : Str) (objs : List Obj)
    (hb : builtinOnly objs = true) (hF : prog.EditsLastOnly (py :: cfgArgs objs)) (hL : prog.Local)
    (pre post : List Job) (j : Job)
    (hout : ∀ k ∈ pre ++ j :: post, k.path ∉ py :: cfgArgs objs)
    (hpre : ∀ k ∈ pre, k.path ≠ j.path) (hpost : ∀ k ∈ post, k.path ≠ j.path)
    (fs fs' : FS) (hagree : ∀ q, (q = j.path ∨ q ∈ py :: cfgArgs objs) → fs.get q = fs'.get q)
    (hok : (runWorld prog ren dm (callReal py ren) objs (pre ++ j :: post) fs).err = none) :
    (runWorld prog ren dm (callReal py ren) objs (pre ++ j :: post) fs).fs.get j.path =
      (fileWorld prog ren dm (callReal py ren) objs j fs').fs.get j.path ∧
    (fileWorld prog ren dm (callReal py ren) objs j fs').err = none := by
  let keep := py :: cfgArgs objs
  have hk : ∀ a, a = py ∨ a ∈ cfgArgs objs → a ∈ keep := by
    intro a ha
    rcases ha with h | h
    · simp [keep, h]
    · simp [keep, h]
  have hev := fun k => fileEvents_builtin_events py ren keep objs k hb hk
  unfold runWorld fileWorld at *
  rw [runEvents_pure _ (callReal_pure py ren)] at hok ⊢
  simp only [List.map_append, List.map_cons, List.flatten_append, List.flatten_cons, interp_append] at hok ⊢
  -- the three stages
  generalize hw1 : interp prog ren dm ⟨fs, [], none⟩
    (List.map (fun j => (fileEvents (callReal py ren) objs j).1) pre).flatten = w1 at hok ⊢
  generalize hw2 : interp prog ren dm w1 (fileEvents (callReal py ren) objs j).1 = w2 at hok ⊢
  have herr2 : w2.err = none := interp_err_sticky prog ren dm w2 _ hok
  have herr1 : w1.err = none := by
    rw [← hw2] at herr2
    exact interp_err_sticky prog ren dm w1 _ herr2
  -- stage 1 leaves `j.path` and the protected paths alone
  have hfr1 : ∀ q, (q = j.path ∨ q ∈ keep) → w1.fs.get q = fs.get q := by
    intro q hq
    rw [← hw1]
    apply interp_frame prog ren dm keep hF
    intro e he
    obtain ⟨evs, hevs, hmem⟩ := List.mem_flatten.mp he
    obtain ⟨k, hkpre, hkeq⟩ := List.mem_map.mp hevs
    subst hkeq
    refine ⟨k.path, hev k e hmem, ?_⟩
    rcases hq with hq | hq
    · rw [hq]; exact fun h => hpre k hkpre h.symm
    · intro h
      exact hout k (List.mem_append_left _ hkpre) (h ▸ hq)
  -- stage 2: locality
  have hag : Agree keep j.path w1 ⟨fs', [], none⟩ := by
    refine ⟨herr1, fun q hq => ?_⟩
    rw [hfr1 q hq]
    exact hagree q hq
  have hloc := interp_local prog ren dm keep hF hL (fileEvents (callReal py ren) objs j).1 w1 ⟨fs', [], none⟩ j.path
    (hev j) hag
  rw [hw2] at hloc
  -- stage 3: frame again
  have hfr3 : (interp prog ren dm w2 (List.map (fun j => (fileEvents (callReal py ren) objs j).1) post).flatten).fs.get j.path
      = w2.fs.get j.path := by
    apply interp_frame prog ren dm keep hF
    intro e he
    obtain ⟨evs, hevs, hmem⟩ := List.mem_flatten.mp he
    obtain ⟨k, hkpost, hkeq⟩ := List.mem_map.mp hevs
    subst hkeq
    exact ⟨k.path, hev k e hmem, fun h => hpost k hkpost h.symm⟩
  refine ⟨?_, ?_⟩
  · rw [hfr3]
    exact hloc.2 j.path (Or.inl rfl)
  · rw [← hloc.1]; exact herr2

/-! ### SetFileMode last in the list -/

theorem callAll_append_builtin (py : Str) (ren : Nat → Str → Str) (a b : List Obj) (p : Str)
    (hb : builtinOnly a = true) :
    (callAll (callReal py ren) (a ++ b) p).1 = (callAll (callReal py ren) a p).1 ++ (callAll (callReal py ren) b p).1 := by
  induction a with
  | nil => simp [callAll]
  | cons o os ih =>
    cases o with
    | line k => simpa [callAll, Obj.isFilePP] using ih (by simpa [builtinOnly] using hb)
    | setMode m => simpa [callAll, Obj.isFilePP, callReal] using ih (by simpa [builtinOnly] using hb)
    | ext cmd chk => simpa [callAll, Obj.isFilePP, callReal] using ih (by simpa [builtinOnly] using hb)
    | custom k => simp [builtinOnly] at hb
    | unknown k => simp [builtinOnly] at hb

theorem fileEvents_setMode_last (py : Str) (ren : Nat → Str → Str) (front : List Obj) (mode : Nat) (j : Job)
    (hb : builtinOnly front = true) :
    ∃ evs, (fileEvents (callReal py ren) (front ++ [.setMode mode]) j).1 = evs ++ [.chmod j.path mode] := by
  have hc := callAll_append_builtin py ren front [.setMode mode] j.path hb
  have hlast : (callAll (callReal py ren) [.setMode mode] j.path).1 = [.chmod j.path mode] := by
    simp [callAll, Obj.isFilePP, callReal]
  unfold fileEvents
  cases j.kind with
  | generate =>
    exact ⟨classify (front ++ [.setMode mode]) ++
      [.overwrite j.path j.allow, .write j.path j.bytes (lineIds (front ++ [.setMode mode]))] ++
      (callAll (callReal py ren) front j.path).1, by simp only [hc, hlast, ← List.append_assoc]⟩
  | copy m =>
    exact ⟨(if hasUnknown (front ++ [.setMode mode]) then [Event.raiseUnknown] else []) ++ [.overwrite j.path j.allow] ++
        (if lineIds (front ++ [.setMode mode]) = [] then [Event.copy j.path j.bytes m]
         else (lineIds (front ++ [.setMode mode])).map Event.reset ++
          [.write j.path j.bytes (lineIds (front ++ [.setMode mode]))]) ++
      (callAll (callReal py ren) front j.path).1, by simp only [hc, hlast, ← List.append_assoc]⟩

theorem step_chmod_ok (prog : Prog) (ren : Nat → Str → Str) (dm : Nat) (w : World) (p : Str) (m : Nat)
    (h : (step prog ren dm w (.chmod p m)).err = none) :
    ((step prog ren dm w (.chmod p m)).fs.get p).map File.mode = some m := by
  have hw := step_err_sticky prog ren dm w _ h
  unfold step at h ⊢
  simp only [hw] at h ⊢
  cases hf : w.fs.get p with
  | none => simp [hf] at h
  | some f => simp [FS.set_eq]

/-! ### The recording program of the tie is an in-place editor in the sense of the hypotheses (non-vacuity) -/

theorem stubEdit_ne (marker : Nat → Str) (fs : FS) (l q : Str) (h : q ≠ l) : (stubEdit marker fs l).get q = fs.get q := by
  unfold stubEdit
  cases fs.get l with
  | none => rfl
  | some f => exact FS.set_ne _ _ _ _ h

theorem stubProg_editsLastOnly (marker : Nat → Str) (failOn keep : List Str) :
    (stubProg marker false failOn).EditsLastOnly keep := by
  intro argv fs q _ hq
  unfold stubProg
  simp only [Bool.false_eq_true, if_false]
  cases hl : argv.getLast? with
  | none => rfl
  | some l =>
    rw [hl] at hq
    simp only [List.foldl]
    exact stubEdit_ne marker fs l q (fun h => hq (by rw [h]))

theorem stubProg_local (marker : Nat → Str) (failOn : List Str) : (stubProg marker false failOn).Local := by
  intro argv fs fs' hag
  unfold stubProg
  simp only [Bool.false_eq_true, if_false]
  cases hl : argv.getLast? with
  | none => exact ⟨fun p hp => hag p hp, trivial⟩
  | some l =>
    refine ⟨fun p hp => ?_, trivial⟩
    simp only [List.foldl]
    have hlmem : l ∈ argv := List.mem_of_getLast? hl
    by_cases hpl : p = l
    · subst hpl
      unfold stubEdit
      rw [← hag p hp]
      cases fs.get p with
      | none => simp [hag p hp]
      | some f => simp [FS.set_eq]
    · rw [stubEdit_ne marker fs l p hpl, stubEdit_ne marker fs' l p hpl]
      exact hag p hp

end NunavutVerif.FilePP
