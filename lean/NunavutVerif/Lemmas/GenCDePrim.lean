import NunavutVerif.Lemmas.GenCSpec
/-!
GenC refinement, part 7: what one emitted deserialization site computes, for every path of every primitive field
macro, from the C14 contracts of the getters; the relation between the generated code's `offset_bits` and the
specification's virtual offset.
-/
namespace NunavutVerif.GenC
open NunavutVerif.Dsdl NunavutVerif.Bits
open AOff

/-! ### the generated code's offset versus the specification's

After a sealed nested object that was cut short by the end of the buffer the generated code continues at
`capacity_bits`, the specification at the (larger) virtual offset: from there on both read zeros only. -/

/-- `c` = `offset_bits` of the generated code, `s` = offset of the specification, `cap` = `capacity_bytes` -/
def Rel (cap c s : Nat) : Prop := c ≤ s ∧ c % 8 = s % 8 ∧ (c = s ∨ 8 * cap ≤ c)

theorem Rel.refl (cap x : Nat) : Rel cap x x := ⟨Nat.le_refl _, rfl, Or.inl rfl⟩

theorem Rel.add {cap c s : Nat} (h : Rel cap c s) (n : Nat) : Rel cap (c + n) (s + n) := by
  obtain ⟨h1, h2, h3⟩ := h
  refine ⟨by omega, by omega, ?_⟩
  rcases h3 with e | e
  · exact Or.inl (by omega)
  · exact Or.inr (by omega)

theorem Rel.trans {cap a c s n : Nat} (h1 : Rel cap a (c + n)) (h2 : Rel cap c s) : Rel cap a (s + n) := by
  obtain ⟨a1, a2, a3⟩ := h1
  obtain ⟨b1, b2, b3⟩ := h2
  refine ⟨by omega, by omega, ?_⟩
  rcases a3 with e | e
  · rcases b3 with f | f
    · exact Or.inl (by omega)
    · exact Or.inr (by omega)
  · exact Or.inr e

theorem Rel.pad {cap c s a : Nat} (ha : a = 1 ∨ a = 8) (h : Rel cap c s) : Rel cap (padTo a c) (padTo a s) := by
  obtain ⟨h1, h2, h3⟩ := h
  rcases ha with rfl | rfl
  · have e : ∀ x, padTo 1 x = x := by intro x; simp [padTo, padLen, Nat.mod_one]
    rw [e, e]; exact ⟨h1, h2, h3⟩
  · simp only [padTo, padLen]
    refine ⟨by omega, by omega, ?_⟩
    rcases h3 with e | e
    · exact Or.inl (by omega)
    · exact Or.inr (by omega)

theorem Rel.drop {buf : Buf} {cap c s : Nat} (hcap : cap ≤ buf.length) (h : Rel cap c s) :
    (bitsOf buf cap).drop c = (bitsOf buf cap).drop s := by
  obtain ⟨_, _, h3⟩ := h
  rcases h3 with e | e
  · rw [e]
  · have hl := bitsOf_length hcap
    rw [List.drop_eq_nil_of_le (by omega), List.drop_eq_nil_of_le (by omega)]

theorem padDe_eq (a off : Nat) (ha : a = 1 ∨ a = 8) : padDe a off = padTo a off := by
  rcases ha with rfl | rfl
  · simp [padDe, padTo, padLen, Nat.mod_one]
  · simp only [padDe, padTo, padLen, show (8 : Nat) > 1 by decide, if_true]; omega

/-! ### reading the buffer -/

theorem zbit_of_ge {buf : Buf} {cap i : Nat} (h : cap * 8 ≤ i) : zbit buf cap i = false := by
  simp [zbit]; omega

theorem fieldOf_false (n : Nat) : fieldOf (fun _ => false) n = 0 := by
  induction n with
  | zero => rfl
  | succ n ih => simp [fieldOf, ih]

theorem zbit_eq_bitAt {buf : Buf} {cap i : Nat} (h : i < cap * 8) : zbit buf cap i = bitAt buf i := by
  simp [zbit, h]

/-- `_deserialize_integer`, unsigned (also length prefixes, tags, delimiter headers) -/
theorem deUint_spec (o : Opts) (hs : o.Sound) (n : Nat) (d : AOff) (buf : Buf) (cap off : Nat)
    (hn1 : 1 ≤ n) (hn64 : n ≤ 64) (hw : WF buf) (hcap : cap ≤ buf.length) (hd : Adm d off) :
    deUint o n d buf cap off = .ok (readNat n ((bitsOf buf cap).drop off)) := by
  rw [readNat_bitsOf]
  unfold deUint
  by_cases h1 : o.orc d = true ∧ n ≤ 8
  · have hal := hs.aligned hd h1.1
    simp only [h1, and_self, if_true]
    by_cases h2 : off + n ≤ cap * 8
    · have hlt : off / 8 < buf.length := by omega
      simp only [h2, if_true, get?_ok hlt, liftP]
      congr 1
      apply Nat.eq_of_testBit_eq
      intro i
      rw [Nat.testBit_and, Nat.testBit_two_pow_sub_one, testBit_fieldOf]
      by_cases hi : i < n
      · rw [zbit_eq_bitAt (by omega), bitAt_of_lt (by omega)]
        have e1 : (off + i) / 8 = off / 8 := by omega
        have e2 : (off + i) % 8 = i := by omega
        simp [hi, e1, e2]
      · simp [hi]
    · simp only [h2, if_false]
      congr 1
      rw [← fieldOf_false n]
      apply fieldOf_congr
      intro i _
      exact (zbit_of_ge (by omega)).symm
  · simp only [h1, if_false]
    rw [getU_spec o.little (storW n) buf cap off n (storW_mod8 n) hcap hw, Nat.min_eq_left (storW_ge n hn64)]
    rfl

theorem testBit_top {u n : Nat} (hn : 1 ≤ n) (hu : u < 2 ^ n) : u.testBit (n - 1) = decide (2 ^ (n - 1) ≤ u) := by
  have hp : 2 ^ n = 2 * 2 ^ (n - 1) := by
    have : n = (n - 1) + 1 := by omega
    rw [this, Nat.pow_succ, Nat.mul_comm]; simp
  by_cases h : 2 ^ (n - 1) ≤ u
  · simp only [h, decide_true]
    rw [Nat.testBit_eq_decide_div_mod_eq]
    have hpos : 0 < 2 ^ (n - 1) := Nat.pow_pos (by decide)
    have h1 : u / 2 ^ (n - 1) < 2 := (Nat.div_lt_iff_lt_mul hpos).mpr (by omega)
    have h2 : 1 ≤ u / 2 ^ (n - 1) := (Nat.le_div_iff_mul_le hpos).mpr (by omega)
    simp; omega
  · simp only [h, decide_false]
    exact Nat.testBit_lt_two_pow (by omega)

/-- `_deserialize_integer`, signed -/
theorem deSint_spec (o : Opts) (n : Nat) (buf : Buf) (cap off : Nat)
    (hn1 : 1 ≤ n) (hn64 : n ≤ 64) (hw : WF buf) (hcap : cap ≤ buf.length) :
    deSint o n buf cap off = .ok (Dsdl.signExtend n (readNat n ((bitsOf buf cap).drop off))) := by
  rw [readNat_bitsOf]
  unfold deSint
  rw [getI_spec o.little (storW n) buf cap off n (storW_mod8 n) (storW_pos n) (storW_le n) hcap hw]
  simp only [liftP, Nat.min_eq_left (storW_ge n hn64)]
  congr 1
  generalize hu : fieldOf (fun i => zbit buf cap (off + i)) n = u
  have hlt : u < 2 ^ n := by rw [← hu]; exact fieldOf_lt _ n
  rw [testBit_top hn1 hlt]
  simp only [Dsdl.signExtend]
  by_cases h : 2 ^ (n - 1) ≤ u
  · have : n > 0 := by omega
    simp only [this, h, decide_true, and_self, if_true]
    rw [if_neg (by omega)]
  · simp only [h, decide_false, Bool.false_eq_true, and_false, if_false]
    rw [if_pos (by omega)]

theorem readNat_one (bs : List Bool) : (readNat 1 bs == 1) = gb bs 0 := by
  rw [readNat_eq_fieldOf]
  simp only [fieldOf]
  cases gb bs 0 <;> simp

/-- `_deserialize_boolean` -/
theorem deBool_spec (o : Opts) (hs : o.Sound) (d : AOff) (buf : Buf) (cap off : Nat)
    (hcap : cap ≤ buf.length) (hd : Adm d off) :
    deBool o d buf cap off = .ok (readNat 1 ((bitsOf buf cap).drop off) == 1) := by
  rw [readNat_one, gb_drop, gb_bitsOf, Nat.add_zero]
  unfold deBool
  by_cases h : off < cap * 8
  · have hlt : off / 8 < buf.length := by omega
    simp only [h, if_true, get?_ok hlt, liftP]
    congr 1
    rw [zbit_eq_bitAt h, bitAt_of_lt hlt]
    by_cases h1 : o.orc d = true
    · have hal := hs.aligned hd h1
      simp only [h1, if_true]
      have := and_two_pow_ne_zero buf[off / 8] 0
      simp only [Nat.shiftLeft_zero] at this
      rw [this, hal]
    · simp only [h1, Bool.false_eq_true, if_false]
      exact and_two_pow_ne_zero _ _
  · simp only [h, if_false]
    rw [zbit_of_ge (by omega)]

/-- `_deserialize_float` -/
theorem deFloat_spec (o : Opts) (n : Nat) (buf : Buf) (cap off : Nat) (hn : n = 16 ∨ n = 32 ∨ n = 64)
    (hw : WF buf) (hcap : cap ≤ buf.length) :
    deFloat o n buf cap off = .ok (widen n (readNat n ((bitsOf buf cap).drop off))) := by
  rw [readNat_bitsOf]
  unfold deFloat
  rw [getU_spec o.little n buf cap off n (by omega) hcap hw, Nat.min_self]
  rfl

end NunavutVerif.GenC
