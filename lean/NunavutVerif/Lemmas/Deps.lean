import NunavutVerif.Model.Deps
import NunavutVerif.Lemmas.Namespace
/-!
Helper lemmas for `Properties/C06.lean`: the dependency builder only ever adds (monotone in the names and in every
flag), direct ⊑ transitive, every collected name is below the type, the flag that `get_includes` looks at is set whenever
the emitted text uses the corresponding facility, sorting keeps membership, and the closed `provides` table entries.
-/
namespace NunavutVerif.Deps
open NunavutVerif.Namespace (Str Path PathR Err makePath asPosix)

/-! ## sorting keeps the elements -/

theorem mem_insertS {x y : Str} {l : List Str} : y ∈ insertS x l ↔ y = x ∨ y ∈ l := by
  induction l with
  | nil => simp [insertS]
  | cons a as ih =>
    simp only [insertS]
    split
    · simp
    · simp [ih]; constructor
      · rintro (h | h | h) <;> simp [h]
      · rintro (h | h | h) <;> simp [h]

theorem mem_sortS {y : Str} {l : List Str} : y ∈ sortS l ↔ y ∈ l := by
  induction l with
  | nil => simp [sortS]
  | cons a as ih => simp [sortS, mem_insertS, ih]

/-! ## the order on `Deps` -/

structure Deps.Le (x y : Deps) : Prop where
  names : ∀ n ∈ x.names, n ∈ y.names
  i : x.usesInteger = true → y.usesInteger = true
  f : x.usesFloat = true → y.usesFloat = true
  v : x.usesVla = true → y.usesVla = true
  a : x.usesArray = true → y.usesArray = true
  ba : x.usesBoolStaticArray = true → y.usesBoolStaticArray = true
  b : x.usesBool = true → y.usesBool = true
  p : x.usesPrimStaticArray = true → y.usesPrimStaticArray = true
  u : x.usesUnion = true → y.usesUnion = true

theorem Deps.Le.refl (a : Deps) : a.Le a := ⟨fun _ h => h, id, id, id, id, id, id, id, id⟩

theorem Deps.Le.trans {a b c : Deps} (h1 : a.Le b) (h2 : b.Le c) : a.Le c :=
  ⟨fun n h => h2.names n (h1.names n h), h2.i ∘ h1.i, h2.f ∘ h1.f, h2.v ∘ h1.v, h2.a ∘ h1.a, h2.ba ∘ h1.ba, h2.b ∘ h1.b,
   h2.p ∘ h1.p, h2.u ∘ h1.u⟩

theorem le_classifyFixed (e : Ty) (d : Deps) : d.Le (classifyFixed e d) := by
  cases e <;> exact ⟨fun _ h => h, by simp [classifyFixed], by simp [classifyFixed], by simp [classifyFixed],
    by simp [classifyFixed], by simp [classifyFixed], by simp [classifyFixed], by simp [classifyFixed], by simp [classifyFixed]⟩

theorem classifyFixed_le {d d' : Deps} (e : Ty) (h : d.Le d') : (classifyFixed e d).Le (classifyFixed e d') := by
  cases e <;> exact ⟨h.names, by simpa [classifyFixed] using h.i, by simpa [classifyFixed] using h.f,
    by simpa [classifyFixed] using h.v, by simpa [classifyFixed] using h.a, by simpa [classifyFixed] using h.ba,
    by simpa [classifyFixed] using h.b, by simpa [classifyFixed] using h.p, by simpa [classifyFixed] using h.u⟩

theorem le_addName (d : Deps) (n : TName) : d.Le { d with names := d.names ++ [n] } :=
  ⟨fun _ h => by simp [h], id, id, id, id, id, id, id, id⟩

/-! ## the builder only adds -/

mutual
  theorem extractTy_mono (tr : Bool) : ∀ (t : Ty) (d : Deps), d.Le (extractTy tr t d)
    | .void, d => by simp only [extractTy]; exact Deps.Le.refl d
    | .bool, d => by simp only [extractTy]; exact ⟨fun _ h => h, id, id, id, id, id, fun _ => rfl, id, id⟩
    | .int, d => by simp only [extractTy]; exact ⟨fun _ h => h, fun _ => rfl, id, id, id, id, id, id, id⟩
    | .float, d => by simp only [extractTy]; exact ⟨fun _ h => h, id, fun _ => rfl, id, id, id, id, id, id⟩
    | .comp c, d => by simp only [extractTy]; exact extractComp_mono tr c d
    | .fixedArr e, d => by
      simp only [extractTy]; exact (le_classifyFixed e d).trans (extractTy_mono tr e _)
    | .varArr e, d => by
      simp only [extractTy]
      have h1 : d.Le { d with usesVla := true } := ⟨fun _ h => h, id, id, fun _ => rfl, id, id, id, id, id⟩
      exact h1.trans (extractTy_mono tr e _)
  theorem extractComp_mono (tr : Bool) : ∀ (c : Comp) (d : Deps), d.Le (extractComp tr c d)
    | .mk n u s fs cs, d => by
      simp only [extractComp]
      split
      · exact Deps.Le.refl d
      · split
        · exact (le_addName d n).trans ((extractList_mono tr fs _).trans (extractList_mono tr cs _))
        · exact le_addName d n
  theorem extractList_mono (tr : Bool) : ∀ (l : List Ty) (d : Deps), d.Le (extractList tr l d)
    | [], d => by simp only [extractList]; exact Deps.Le.refl d
    | t :: ts, d => by
      simp only [extractList]; exact (extractTy_mono tr t d).trans (extractList_mono tr ts _)
end

theorem extractList_append (tr : Bool) (a b : List Ty) (d : Deps) :
    extractList tr (a ++ b) d = extractList tr b (extractList tr a d) := by
  induction a generalizing d with
  | nil => simp [extractList]
  | cons x xs ih => simp [extractList, ih]

/-! ## direct ⊑ transitive -/

theorem extractComp_false_le_true (c : Comp) {d d' : Deps} (h : d.Le d') :
    (extractComp false c d).Le (extractComp true c d') := by
  obtain ⟨n, u, s, fs, cs⟩ := c
  simp only [extractComp]
  by_cases h1 : n ∈ d.names
  · simp only [h1, if_true]
    have h3 := extractComp_mono true (.mk n u s fs cs) d'
    simp only [extractComp] at h3
    exact h.trans h3
  · simp only [h1, if_false, Bool.false_eq_true]
    by_cases h2 : n ∈ d'.names
    · simp only [h2, if_true]
      exact ⟨fun m hm => by
        rcases List.mem_append.mp hm with hm | hm
        · exact h.names m hm
        · simp at hm; subst hm; exact h2, h.i, h.f, h.v, h.a, h.ba, h.b, h.p, h.u⟩
    · simp only [h2, if_false, if_true]
      have h3 : ({ d with names := d.names ++ [n] } : Deps).Le { d' with names := d'.names ++ [n] } :=
        ⟨fun m hm => by
          rcases List.mem_append.mp hm with hm | hm
          · exact List.mem_append.mpr (Or.inl (h.names m hm))
          · exact List.mem_append.mpr (Or.inr hm), h.i, h.f, h.v, h.a, h.ba, h.b, h.p, h.u⟩
      exact h3.trans ((extractList_mono true fs _).trans (extractList_mono true cs _))

theorem extractTy_false_le_true : ∀ (t : Ty) {d d' : Deps}, d.Le d' → (extractTy false t d).Le (extractTy true t d')
  | .void, d, d', h => by simpa only [extractTy] using h
  | .bool, d, d', h => by
    simp only [extractTy]; exact ⟨h.names, h.i, h.f, h.v, h.a, h.ba, fun _ => rfl, h.p, h.u⟩
  | .int, d, d', h => by
    simp only [extractTy]; exact ⟨h.names, fun _ => rfl, h.f, h.v, h.a, h.ba, h.b, h.p, h.u⟩
  | .float, d, d', h => by
    simp only [extractTy]; exact ⟨h.names, h.i, fun _ => rfl, h.v, h.a, h.ba, h.b, h.p, h.u⟩
  | .comp c, d, d', h => by simp only [extractTy]; exact extractComp_false_le_true c h
  | .fixedArr e, d, d', h => by
    simp only [extractTy]; exact extractTy_false_le_true e (classifyFixed_le e h)
  | .varArr e, d, d', h => by
    simp only [extractTy]
    exact extractTy_false_le_true e ⟨h.names, h.i, h.f, fun _ => rfl, h.a, h.ba, h.b, h.p, h.u⟩

theorem extractList_false_le_true : ∀ (l : List Ty) {d d' : Deps}, d.Le d' →
    (extractList false l d).Le (extractList true l d')
  | [], d, d', h => by simpa only [extractList] using h
  | t :: ts, d, d', h => by
    simp only [extractList]; exact extractList_false_le_true ts (extractTy_false_le_true t h)

/-! ## every collected name is below the type -/

mutual
  theorem extractTy_names (tr : Bool) : ∀ (t : Ty) (d : Deps) (n : TName),
      n ∈ (extractTy tr t d).names → n ∈ d.names ∨ n ∈ reachTy t
    | .void, d, n, h => by simp only [extractTy] at h; exact Or.inl h
    | .bool, d, n, h => by simp only [extractTy] at h; exact Or.inl h
    | .int, d, n, h => by simp only [extractTy] at h; exact Or.inl h
    | .float, d, n, h => by simp only [extractTy] at h; exact Or.inl h
    | .comp c, d, n, h => by
      simp only [extractTy] at h; simp only [reachTy]; exact extractComp_names tr c d n h
    | .fixedArr e, d, n, h => by
      simp only [extractTy] at h; simp only [reachTy]
      rcases extractTy_names tr e _ n h with h | h
      · left; cases e <;> simpa [classifyFixed] using h
      · exact Or.inr h
    | .varArr e, d, n, h => by
      simp only [extractTy] at h; simp only [reachTy]
      rcases extractTy_names tr e _ n h with h | h
      · exact Or.inl h
      · exact Or.inr h
  theorem extractComp_names (tr : Bool) : ∀ (c : Comp) (d : Deps) (n : TName),
      n ∈ (extractComp tr c d).names → n ∈ d.names ∨ n ∈ reachComp c
    | .mk m u s fs cs, d, n, h => by
      simp only [extractComp] at h
      simp only [reachComp, List.mem_cons, List.mem_append]
      split at h
      · exact Or.inl h
      · split at h
        · rcases extractList_names tr cs _ n h with h | h
          · rcases extractList_names tr fs _ n h with h | h
            · rcases List.mem_append.mp h with h | h
              · exact Or.inl h
              · simp at h; exact Or.inr (Or.inl h)
            · exact Or.inr (Or.inr (Or.inl h))
          · exact Or.inr (Or.inr (Or.inr h))
        · rcases List.mem_append.mp h with h | h
          · exact Or.inl h
          · simp at h; exact Or.inr (Or.inl h)
  theorem extractList_names (tr : Bool) : ∀ (l : List Ty) (d : Deps) (n : TName),
      n ∈ (extractList tr l d).names → n ∈ d.names ∨ n ∈ reachList l
    | [], d, n, h => by simp only [extractList] at h; exact Or.inl h
    | t :: ts, d, n, h => by
      simp only [extractList] at h; simp only [reachList, List.mem_append]
      rcases extractList_names tr ts _ n h with h | h
      · rcases extractTy_names tr t d n h with h | h
        · exact Or.inl h
        · exact Or.inr (Or.inl h)
      · exact Or.inr (Or.inr h)
end

/-! ## the flag `get_includes` looks at is set when the text uses the facility (direct mode) -/

/-- What C++ `get_includes` has to see for a facility of a field declaration. -/
def xFlag (f : Fac) (d : Deps) : Prop :=
  match f with
  | .xFixedInt => d.usesInteger = true
  | .xArray => d.usesArray = true ∨ d.usesPrimStaticArray = true
  | .xBitset => d.usesBoolStaticArray = true
  | .xVla => d.usesVla = true
  | _ => False

theorem xFlag_mono {f : Fac} {d d' : Deps} (h : d.Le d') (hf : xFlag f d) : xFlag f d' := by
  cases f <;> simp only [xFlag] at hf ⊢ <;> first
    | exact h.i hf | exact h.ba hf | exact h.v hf | exact hf.elim
    | exact hf.elim (fun x => Or.inl (h.a x)) (fun x => Or.inr (h.p x))

theorem xTyFac_flag (o : Opts) : ∀ (t : Ty) (d : Deps) (f : Fac), f ∈ xTyFac o t → xFlag f (extractTy false t d)
  | .void, d, f, h => by simp [xTyFac] at h
  | .bool, d, f, h => by simp [xTyFac] at h
  | .float, d, f, h => by simp [xTyFac] at h
  | .comp _, d, f, h => by simp [xTyFac] at h
  | .int, d, f, h => by
    simp only [xTyFac] at h
    split at h
    · simp at h; subst h; simp [xFlag, extractTy]
    · simp at h
  | .fixedArr .bool, d, f, h => by
    simp only [xTyFac, List.mem_singleton] at h; subst h
    simp [xFlag, extractTy, classifyFixed]
  | .fixedArr .void, d, f, h => by
    simp only [xTyFac, List.mem_cons] at h
    rcases h with h | h
    · subst h; simp [xFlag, extractTy, classifyFixed]
    · simp [xTyFac] at h
  | .fixedArr .int, d, f, h => by
    simp only [xTyFac, List.mem_cons] at h
    rcases h with h | h
    · subst h; simp [xFlag, extractTy, classifyFixed]
    · exact xFlag_mono (Deps.Le.refl _) (by simpa only [extractTy] using xTyFac_flag o .int (classifyFixed .int d) f h)
  | .fixedArr .float, d, f, h => by
    simp only [xTyFac, List.mem_cons] at h
    rcases h with h | h
    · subst h; simp [xFlag, extractTy, classifyFixed]
    · simp [xTyFac] at h
  | .fixedArr (.comp c), d, f, h => by
    simp only [xTyFac, List.mem_cons] at h
    rcases h with h | h
    · subst h
      have := (extractTy_mono false (.comp c) (classifyFixed (.comp c) d)).a (by simp [classifyFixed])
      simp only [xFlag, extractTy] at this ⊢; exact Or.inl this
    · simp [xTyFac] at h
  | .fixedArr (.fixedArr e), d, f, h => by
    simp only [xTyFac, List.mem_cons] at h
    rcases h with h | h
    · subst h
      have := (extractTy_mono false (.fixedArr e) (classifyFixed (.fixedArr e) d)).a (by simp [classifyFixed])
      simp only [xFlag, extractTy] at this ⊢; exact Or.inl this
    · have := xTyFac_flag o (.fixedArr e) (classifyFixed (.fixedArr e) d) f (by simpa only [xTyFac] using h)
      simpa only [extractTy] using this
  | .fixedArr (.varArr e), d, f, h => by
    simp only [xTyFac, List.mem_cons] at h
    rcases h with h | h
    · subst h
      have := (extractTy_mono false (.varArr e) (classifyFixed (.varArr e) d)).a (by simp [classifyFixed])
      simp only [xFlag, extractTy] at this ⊢; exact Or.inl this
    · have := xTyFac_flag o (.varArr e) (classifyFixed (.varArr e) d) f (by simpa only [xTyFac, List.mem_cons] using h)
      simpa only [extractTy] using this
  | .varArr e, d, f, h => by
    simp only [xTyFac, List.mem_cons] at h
    rcases h with h | h
    · subst h
      have := (extractTy_mono false e { d with usesVla := true }).v rfl
      simpa only [xFlag, extractTy] using this
    · have := xTyFac_flag o e { d with usesVla := true } f h
      simpa only [extractTy] using this

theorem xTyFac_flag_list (o : Opts) : ∀ (l : List Ty) (d : Deps) (t : Ty) (f : Fac), t ∈ l → f ∈ xTyFac o t →
    xFlag f (extractList false l d)
  | [], _, _, _, h, _ => by simp at h
  | x :: xs, d, t, f, h, hf => by
    simp only [extractList]
    rcases List.mem_cons.mp h with h | h
    · subst h; exact xFlag_mono (extractList_mono false xs _) (xTyFac_flag o t d f hf)
    · exact xTyFac_flag_list o xs _ t f h hf

/-- `xFixedInt` is only declared for a field when `use_standard_types` is on. -/
theorem xTyFac_fixedInt_useStd (o : Opts) : ∀ (t : Ty), Fac.xFixedInt ∈ xTyFac o t → o.useStd = true
  | .void, h => by simp [xTyFac] at h
  | .bool, h => by simp [xTyFac] at h
  | .float, h => by simp [xTyFac] at h
  | .comp _, h => by simp [xTyFac] at h
  | .int, h => by
    simp only [xTyFac] at h
    split at h
    · assumption
    · simp at h
  | .fixedArr .bool, h => by simp [xTyFac] at h
  | .fixedArr .void, h => by simp [xTyFac] at h
  | .fixedArr .int, h => by
    simp only [xTyFac, List.mem_cons] at h
    rcases h with h | h
    · cases h
    · exact xTyFac_fixedInt_useStd o .int h
  | .fixedArr .float, h => by simp [xTyFac] at h
  | .fixedArr (.comp c), h => by simp [xTyFac] at h
  | .fixedArr (.fixedArr e), h => by
    simp only [xTyFac, List.mem_cons] at h
    rcases h with h | h
    · cases h
    · exact xTyFac_fixedInt_useStd o (.fixedArr e) (by simpa only [xTyFac] using h)
  | .fixedArr (.varArr e), h => by
    simp only [xTyFac, List.mem_cons] at h
    rcases h with h | h
    · cases h
    · exact xTyFac_fixedInt_useStd o (.varArr e) (by simpa only [xTyFac, List.mem_cons] using h)
  | .varArr e, h => by
    simp only [xTyFac, List.mem_cons] at h
    rcases h with h | h
    · cases h
    · exact xTyFac_fixedInt_useStd o e h

/-- Facilities of field declarations are among these four. -/
theorem xTyFac_kinds (o : Opts) : ∀ (t : Ty) (f : Fac), f ∈ xTyFac o t →
    f = .xFixedInt ∨ f = .xArray ∨ f = .xBitset ∨ f = .xVla
  | .void, f, h => by simp [xTyFac] at h
  | .bool, f, h => by simp [xTyFac] at h
  | .float, f, h => by simp [xTyFac] at h
  | .comp _, f, h => by simp [xTyFac] at h
  | .int, f, h => by
    simp only [xTyFac] at h
    split at h
    · simp at h; exact Or.inl h
    · simp at h
  | .fixedArr .bool, f, h => by simp [xTyFac] at h; simp [h]
  | .fixedArr .void, f, h => by simp [xTyFac] at h; simp [h]
  | .fixedArr .int, f, h => by
    simp only [xTyFac, List.mem_cons] at h
    rcases h with h | h
    · simp [h]
    · exact xTyFac_kinds o .int f h
  | .fixedArr .float, f, h => by simp [xTyFac] at h; simp [h]
  | .fixedArr (.comp c), f, h => by simp [xTyFac] at h; simp [h]
  | .fixedArr (.fixedArr e), f, h => by
    simp only [xTyFac, List.mem_cons] at h
    rcases h with h | h
    · simp [h]
    · exact xTyFac_kinds o (.fixedArr e) f (by simpa only [xTyFac] using h)
  | .fixedArr (.varArr e), f, h => by
    simp only [xTyFac, List.mem_cons] at h
    rcases h with h | h
    · simp [h]
    · exact xTyFac_kinds o (.varArr e) f (by simpa only [xTyFac, List.mem_cons] using h)
  | .varArr e, f, h => by
    simp only [xTyFac, List.mem_cons] at h
    rcases h with h | h
    · simp [h]
    · exact xTyFac_kinds o e f h

/-! ## C: the definition part only uses these -/

def cDefKinds (f : Fac) : Prop :=
  f = .cStaticAssert ∨ f = .cBool ∨ f = .cFixedInt ∨ f = .cSizeT ∨ f = .cNull

theorem cFieldFac_kinds (o : Opts) : ∀ (t : Ty) (f : Fac), f ∈ cFieldFac o t → cDefKinds f
  | .void, f, h => by simp [cFieldFac] at h
  | .bool, f, h => by simp [cFieldFac] at h; simp [cDefKinds, h]
  | .float, f, h => by simp [cFieldFac] at h
  | .comp _, f, h => by simp [cFieldFac] at h
  | .int, f, h => by
    simp only [cFieldFac] at h
    split at h
    · simp at h; simp [cDefKinds, h]
    · simp at h
  | .fixedArr .bool, f, h => by simp [cFieldFac] at h; simp [cDefKinds, h]
  | .fixedArr .void, f, h => by simp [cFieldFac] at h
  | .fixedArr .int, f, h => cFieldFac_kinds o .int f (by simpa only [cFieldFac] using h)
  | .fixedArr .float, f, h => by simp [cFieldFac] at h
  | .fixedArr (.comp c), f, h => by simp [cFieldFac] at h
  | .fixedArr (.fixedArr e), f, h => cFieldFac_kinds o (.fixedArr e) f (by simpa only [cFieldFac] using h)
  | .fixedArr (.varArr e), f, h => cFieldFac_kinds o (.varArr e) f (by simpa only [cFieldFac] using h)
  | .varArr .bool, f, h => by
    simp [cFieldFac] at h; rcases h with h | h <;> simp [cDefKinds, h]
  | .varArr .void, f, h => by simp [cFieldFac] at h; simp [cDefKinds, h]
  | .varArr .int, f, h => by
    simp only [cFieldFac, List.mem_append, List.mem_singleton] at h
    rcases h with h | h
    · exact cFieldFac_kinds o .int f h
    · simp [cDefKinds, h]
  | .varArr .float, f, h => by simp [cFieldFac] at h; simp [cDefKinds, h]
  | .varArr (.comp c), f, h => by simp [cFieldFac] at h; simp [cDefKinds, h]
  | .varArr (.fixedArr e), f, h => by
    simp only [cFieldFac, List.mem_append, List.mem_singleton] at h
    rcases h with h | h
    · exact cFieldFac_kinds o (.fixedArr e) f (by simpa only [cFieldFac] using h)
    · simp [cDefKinds, h]
  | .varArr (.varArr e), f, h => by
    simp only [cFieldFac, List.mem_append, List.mem_singleton] at h
    rcases h with h | h
    · exact cFieldFac_kinds o (.varArr e) f (by simpa only [cFieldFac] using h)
    · simp [cDefKinds, h]

theorem cCompFac_kinds (o : Opts) (c : Comp) (f : Fac) (h : f ∈ cCompFac o c) : cDefKinds f := by
  simp only [cCompFac, List.mem_append, List.mem_singleton, List.mem_flatMap] at h
  rcases h with h | h
  · simp [cDefKinds, h]
  · split at h
    · simp only [List.mem_append, List.mem_flatMap] at h
      rcases h with (⟨t, _, ht⟩ | h) | h
      · exact cFieldFac_kinds o t f ht
      · split at h <;> simp at h; simp [cDefKinds, h]
      · split at h <;> simp at h; rcases h with h | h <;> simp [cDefKinds, h]
    · split at h
      · simp at h; simp [cDefKinds, h]
      · simp only [List.mem_flatMap] at h
        obtain ⟨t, _, ht⟩ := h
        exact cFieldFac_kinds o t f ht

/-! ## closed facts about the header names and the `provides` table -/

theorem angle_limits : angle (lit "limits") = lit "<limits>" := by decide
theorem angle_cstdint : angle (lit "cstdint") = hCstdint := by decide
theorem angle_array : angle (lit "array") = lit "<array>" := by decide
theorem angle_bitset : angle (lit "bitset") = lit "<bitset>" := by decide
theorem angle_variant : angle (lit "variant") = lit "<variant>" := by decide
theorem angle_type_traits : angle (lit "type_traits") = lit "<type_traits>" := by decide
theorem angle_memory : angle (lit "memory") = lit "<memory>" := by decide
theorem angle_new : angle (lit "new") = lit "<new>" := by decide
theorem angle_utility : angle (lit "utility") = lit "<utility>" := by decide

theorem std_limits_limits : stdProvides (lit "<limits>") .xLimits = true := by decide
theorem std_limits_sizeT : stdProvides (lit "<limits>") .xSizeT = true := by decide
theorem std_cstdint : stdProvides hCstdint .xFixedInt = true := by decide
theorem std_array : stdProvides (lit "<array>") .xArray = true := by decide
theorem std_bitset : stdProvides (lit "<bitset>") .xBitset = true := by decide
theorem std_variant : stdProvides (lit "<variant>") .xVariant = true := by decide
theorem std_type_traits : stdProvides (lit "<type_traits>") .xTypeTraits = true := by decide
theorem std_utility : stdProvides (lit "<utility>") .xUtility = true := by decide
theorem std_new : stdProvides (lit "<new>") .xNew = true := by decide
theorem std_memory : stdProvides (lit "<memory>") .xMemory = true := by decide
theorem std_assert : stdProvides hAssert .cStaticAssert = true := by decide
theorem std_stdbool : stdProvides hStdbool .cBool = true := by decide
theorem std_stddef_sizeT : stdProvides hStddef .cSizeT = true := by decide
theorem std_stddef_null : stdProvides hStddef .cNull = true := by decide
theorem std_stdint : stdProvides hStdint .cFixedInt = true := by decide

/-- Everything the C serialization functions (and the definitions) may use comes with the C support header. -/
theorem support_c_all : ∀ f, (cDefKinds f ∨ f ∈ serFac .c) → supportProvides .c f = true := by
  intro f h
  rcases h with (h | h | h | h | h) | h
  · subst h; decide
  · subst h; decide
  · subst h; decide
  · subst h; decide
  · subst h; decide
  · revert f; decide

/-- Everything the C++ serialization functions may use comes with the C++ support header, except `<limits>` which every
generated header includes itself. -/
theorem support_cpp_all : ∀ f ∈ serFac .cpp, f = .xLimits ∨ supportProvides .cpp f = true := by decide

theorem support_cpp_self : supportProvides .cpp .xSupport = true := by decide

theorem provides_of_std {lang : Lang} {o : Opts} {inc : Str} {f : Fac} (h : stdProvides inc f = true) :
    provides lang o inc f = true := by simp [provides, h]

theorem provides_of_support {lang : Lang} {o : Opts} {s : Str} {f : Fac} (ho : o.omitSer = false) (hs : s ∈ o.support)
    (h : supportProvides lang f = true) : provides lang o (punct o s) f = true := by
  have : punct o s ∈ o.support.map (punct o) := List.mem_map.mpr ⟨s, hs, rfl⟩
  simp [provides, ho, h, this]

theorem provides_vla {lang : Lang} {o : Opts} {f : Fac} (hne : o.vlaInc ≠ []) (hf : f = .xVla ∨ f = .xMemory) :
    provides lang o o.vlaInc f = true := by
  rcases hf with hf | hf <;> simp [provides, hne, hf]

theorem provides_alloc {lang : Lang} {o : Opts} {f : Fac} (hne : o.allocInc ≠ [])
    (hf : f = .xAlloc ∨ f = .xUtility ∨ f = .xMemory) : provides lang o o.allocInc f = true := by
  rcases hf with hf | hf | hf <;> simp [provides, hne, hf]

theorem covered_of_mem {lang : Lang} {o : Opts} {incs : List Str} {f : Fac} {i : Str} (hi : i ∈ incs)
    (hp : provides lang o i f = true) : covered lang o incs f = true := by
  simp only [covered, List.any_eq_true]; exact ⟨i, hi, hp⟩

/-! ## taking the emitted list apart -/

theorem pathIncludes_support {pcfg : Namespace.Cfg} {o : Opts} {d : Deps} {ps : List Str}
    (h : pathIncludes pcfg o d = .ok ps) (ho : o.omitSer = false) {s : Str} (hs : s ∈ o.support) : punct o s ∈ ps := by
  simp only [pathIncludes] at h
  split at h
  · cases h
  · cases h
    simp only [ho, Bool.false_eq_true, if_false, List.map_append, List.mem_append, List.mem_map]
    exact Or.inr ⟨s, hs, rfl⟩

theorem depPaths_mem {pcfg : Namespace.Cfg} : ∀ {ns : List TName} {ps : List Str}, depPaths pcfg ns = .ok ps →
    ∀ p ∈ ps, ∃ n ∈ ns, ∃ rel, makePath pcfg n = .ok rel ∧ p = asPosix rel
  | [], ps, h, p, hp => by simp only [depPaths] at h; cases h; simp at hp
  | n :: ns, ps, h, p, hp => by
    simp only [depPaths] at h
    split at h
    · cases h
    · rename_i rel hrel
      split at h
      · cases h
      · rename_i ps' hps'
        cases h
        rcases List.mem_cons.mp hp with hp | hp
        · exact ⟨n, List.mem_cons_self .., rel, hrel, hp⟩
        · obtain ⟨m, hm, r, h1, h2⟩ := depPaths_mem hps' p hp
          exact ⟨m, List.mem_cons_of_mem _ hm, r, h1, h2⟩

theorem pathIncludes_mem {pcfg : Namespace.Cfg} {o : Opts} {d : Deps} {ps : List Str}
    (h : pathIncludes pcfg o d = .ok ps) {p : Str} (hp : p ∈ ps) :
    (o.omitSer = false ∧ ∃ s ∈ o.support, p = punct o s) ∨
    (∃ n ∈ d.names, ∃ rel, makePath pcfg n = .ok rel ∧ p = punct o (asPosix rel)) := by
  simp only [pathIncludes] at h
  split at h
  · cases h
  · rename_i qs hqs
    cases h
    simp only [List.map_append, List.mem_append, List.mem_map] at hp
    rcases hp with ⟨q, hq, rfl⟩ | ⟨s, hs, rfl⟩
    · obtain ⟨n, hn, rel, h1, h2⟩ := depPaths_mem hqs q hq
      exact Or.inr ⟨n, hn, rel, h1, by rw [h2]⟩
    · by_cases ho : o.omitSer = true
      · simp [ho] at hs
      · simp only [Bool.not_eq_true] at ho
        exact Or.inl ⟨ho, s, by simpa [ho] using hs, rfl⟩

theorem filterIncludes_inv {getInc : Opts → Deps → List Str} {pcfg : Namespace.Cfg} {o : Opts} {d : Deps} {l : List Str}
    (h : filterIncludesWith getInc pcfg o d = .ok l) :
    ∃ ps, pathIncludes pcfg o d = .ok ps ∧ ∀ x, x ∈ l ↔ (x ∈ ps ∨ x ∈ getInc o d) := by
  simp only [filterIncludesWith] at h
  split at h
  · cases h
  · rename_i ps hps
    cases h
    exact ⟨ps, hps, fun x => by simp [mem_sortS]⟩

theorem emitted_c_inv {pcfg : Namespace.Cfg} {o : Opts} {t : Top} {incs : List Str}
    (h : emitted .c pcfg o t = .ok incs) :
    ∃ ps, pathIncludes pcfg o (direct t) = .ok ps ∧
      ∀ x, x ∈ incs ↔ (x ∈ ps ∨ x ∈ cStd o (direct t) ∨ x ∈ cOmitBlock o) := by
  simp only [emitted] at h
  split at h
  · cases h
  · rename_i l hl
    cases h
    obtain ⟨ps, hps, hmem⟩ := filterIncludes_inv hl
    exact ⟨ps, hps, fun x => by simp [hmem, or_assoc]⟩

theorem emitted_cpp_inv {pcfg : Namespace.Cfg} {o : Opts} {t : Top} {incs : List Str}
    (h : emitted .cpp pcfg o t = .ok incs) :
    ∃ ps l, pathIncludes pcfg o (direct t) = .ok ps ∧ (∀ x, x ∈ l ↔ (x ∈ ps ∨ x ∈ cppGetIncludes o (direct t))) ∧
      incs = l ++ cppUnionBlock o t ++ cppPortBlock t.fixedPort l := by
  simp only [emitted] at h
  split at h
  · cases h
  · rename_i l hl
    cases h
    obtain ⟨ps, hps, hmem⟩ := filterIncludes_inv hl
    exact ⟨ps, l, hps, hmem, rfl⟩

theorem mem_cppGetIncludes_std {o : Opts} {d : Deps} {n : Str} (h : n ∈ cppStdNames o d) :
    angle n ∈ cppGetIncludes o d := by
  simp only [cppGetIncludes, cppGetIncludesWith, List.mem_append, List.mem_map]
  exact Or.inl (Or.inl ⟨n, mem_sortS.mpr h, rfl⟩)

theorem mem_cppGetIncludes_alloc {o : Opts} {d : Deps} (h : o.allocInc ≠ []) : o.allocInc ∈ cppGetIncludes o d := by
  simp [cppGetIncludes, cppGetIncludesWith, h]

theorem mem_cppGetIncludes_vla {o : Opts} {d : Deps} (h : o.vlaInc ≠ []) (hv : d.usesVla = true) :
    o.vlaInc ∈ cppGetIncludes o d := by
  simp [cppGetIncludes, cppGetIncludesWith, h, hv]

/-- The fixed-port block makes sure `<cstdint>` is there. -/
theorem cstdint_of_fixedPort (l m : List Str) : hCstdint ∈ l ++ m ++ cppPortBlock true l := by
  by_cases h : hCstdint ∈ l
  · exact List.mem_append.mpr (Or.inl (List.mem_append.mpr (Or.inl h)))
  · simp [cppPortBlock, h]

/-! ## the union test of the fixed builder -/

theorem buildMany_single (u : Top → Bool) (tr : Bool) (t : Top) :
    buildMany u tr [t] = extractList tr t.dataTypes (if u t then { usesInteger := true, usesUnion := true } else {}) := by
  simp [buildMany, buildStep]

theorem direct_usesUnion {t : Top} (h : t.definesUnion = true) : (direct t).usesUnion = true := by
  rw [direct, buildMany_single, h]
  exact (extractList_mono false _ _).u rfl

theorem direct_flag {o : Opts} {t : Top} {ty : Ty} {f : Fac} (hty : ty ∈ t.dataTypes) (hf : f ∈ xTyFac o ty) :
    xFlag f (direct t) := by
  rw [direct, buildMany_single]
  exact xTyFac_flag_list o _ _ ty f hty hf

theorem part_isUnion_definesUnion {t : Top} {c : Comp} (hc : c ∈ t.parts) (hu : c.isUnion = true) :
    t.definesUnion = true := by
  cases t with
  | msg c' p => simp [Top.parts] at hc; subst hc; simpa [Top.definesUnion] using hu
  | svc n rq rs p =>
    simp [Top.parts] at hc
    rcases hc with hc | hc <;> subst hc <;> simp [Top.definesUnion, hu]

theorem part_fields_dataTypes {t : Top} {c : Comp} (hc : c ∈ t.parts) {ty : Ty} (h : ty ∈ c.fields ∨ ty ∈ c.consts) :
    ty ∈ t.dataTypes := by
  have h' : ty ∈ c.attrs := by simp [Comp.attrs]; exact h
  cases t with
  | msg c' p => simp [Top.parts] at hc; subst hc; simpa [Top.dataTypes] using h'
  | svc n rq rs p =>
    simp [Top.parts] at hc
    rcases hc with hc | hc <;> subst hc <;> simp [Top.dataTypes, h']

/-! ## brackets -/

/-- Identifier characters: no bracket, no slash, no newline. -/
def plainName (n : Str) : Prop := ∀ c ∈ n, c ≠ '{' ∧ c ≠ '}' ∧ c ≠ '/' ∧ c ≠ '\n'

theorem depthAfter_other (c : Char) (rest : Str) (d : Nat) (h1 : c ≠ '{') (h2 : c ≠ '}') :
    depthAfter (c :: rest) d = depthAfter rest d := by
  rw [depthAfter.eq_def]
  split <;> simp_all

theorem depthAfter_plain (n : Str) (hn : plainName n) (rest : Str) (d : Nat) :
    depthAfter (n ++ rest) d = depthAfter rest d := by
  induction n with
  | nil => rfl
  | cons c cs ih =>
    have hc := hn c (List.mem_cons_self ..)
    simp only [List.cons_append]
    rw [depthAfter_other _ _ _ hc.1 hc.2.1]
    exact ih (fun x hx => hn x (List.mem_cons_of_mem _ hx))

theorem stripLineComments_other (c : Char) (rest : Str) (h : c ≠ '/') :
    stripLineComments (c :: rest) = c :: stripLineComments rest := by
  rw [stripLineComments.eq_def]
  split <;> simp_all

theorem stripLineComments_comment (rest : Str) :
    stripLineComments ('/' :: '/' :: rest) = stripLineComments.skipLine rest := by
  rw [stripLineComments.eq_def]; simp

theorem skipLine_plain (n : Str) (hn : plainName n) (rest : Str) :
    stripLineComments.skipLine (n ++ rest) = stripLineComments.skipLine rest := by
  induction n with
  | nil => rfl
  | cons c cs ih =>
    have hc := hn c (List.mem_cons_self ..)
    simp only [List.cons_append]
    rw [stripLineComments.skipLine.eq_def]
    split
    · simp at *
    · rename_i h; simp at h; exact absurd h.1 hc.2.2.2
    · rename_i h; simp at h; obtain ⟨rfl, rfl⟩ := h
      exact ih (fun x hx => hn x (List.mem_cons_of_mem _ hx))

theorem skipLine_nl (rest : Str) : stripLineComments.skipLine ('\n' :: rest) = '\n' :: stripLineComments rest := by
  rw [stripLineComments.skipLine.eq_def]; simp

theorem depthAfter_close (rest : Str) (d : Nat) : depthAfter ('}' :: rest) (d + 1) = depthAfter rest d := by
  rw [depthAfter.eq_def]; simp

theorem depthAfter_open (rest : Str) (d : Nat) : depthAfter ('{' :: rest) d = depthAfter rest (d + 1) := by
  rw [depthAfter.eq_def]; simp

/-! ## taking `xCompFac` / `xCompMay` apart -/

theorem mem_xCompFac {o : Opts} {fp : Bool} {c : Comp} {f : Fac} (h : f ∈ xCompFac o fp c) :
    f = .xSizeT ∨ f = .xLimits ∨ (fp = true ∧ f = .xFixedInt)
    ∨ (∃ ty, (ty ∈ c.fields ∨ ty ∈ c.consts) ∧ f ∈ xTyFac o ty)
    ∨ (c.isUnion = true ∧ hasVariant o = true ∧ (f = .xVariant ∨ f = .xTypeTraits))
    ∨ (c.isUnion = true ∧ hasVariant o = false ∧ (f = .xTypeTraits ∨ f = .xUtility ∨ f = .xNew))
    ∨ (o.allocCtor = true ∧ f = .xAlloc) := by
  unfold xCompFac at h
  simp only [List.mem_append, List.mem_flatMap, List.mem_filter] at h
  rcases h with ((((h | h) | h) | h) | h) | h
  · simp at h; rcases h with h | h <;> simp [h]
  · by_cases hp : fp = true <;> simp [hp] at h
    exact Or.inr (Or.inr (Or.inl ⟨hp, h⟩))
  · obtain ⟨ty, ⟨hty, _⟩, hf⟩ := h
    exact Or.inr (Or.inr (Or.inr (Or.inl ⟨ty, Or.inl hty, hf⟩)))
  · obtain ⟨ty, hty, hf⟩ := h
    exact Or.inr (Or.inr (Or.inr (Or.inl ⟨ty, Or.inr hty, hf⟩)))
  · by_cases hu : c.isUnion = true <;> by_cases hv : hasVariant o = true <;> simp [hu, hv] at h
    · exact Or.inr (Or.inr (Or.inr (Or.inr (Or.inl ⟨hu, hv, h⟩))))
    · exact Or.inr (Or.inr (Or.inr (Or.inr (Or.inr (Or.inl ⟨hu, by simpa using hv, h⟩)))))
  · by_cases ha : o.allocCtor = true <;> simp [ha] at h
    exact Or.inr (Or.inr (Or.inr (Or.inr (Or.inr (Or.inr ⟨ha, h⟩)))))

theorem mem_xCompMay {o : Opts} {c : Comp} {f : Fac} (h : f ∈ xCompMay o c) :
    (c.isUnion = true ∧ hasVariant o = false ∧ f = .xMemory) ∨ (o.allocCtor = true ∧ (f = .xUtility ∨ f = .xMemory)) := by
  unfold xCompMay at h
  simp only [List.mem_append] at h
  rcases h with h | h
  · by_cases hu : c.isUnion = true <;> by_cases hv : hasVariant o = true <;> simp [hu, hv] at h
    exact Or.inl ⟨hu, by simpa using hv, h⟩
  · by_cases ha : o.allocCtor = true <;> simp [ha] at h
    exact Or.inr ⟨ha, h⟩

end NunavutVerif.Deps
