import NunavutVerif.Model.Html
/-!
Helper lemmas for C20 (escaping, tokenizer states, stack effects, relative links).
-/
namespace NunavutVerif.Html

/-! ## replaceChar / escape -/

theorem replaceChar_append (x : Char) (r a b : Str) :
    replaceChar x r (a ++ b) = replaceChar x r a ++ replaceChar x r b := by
  induction a with
  | nil => simp [replaceChar]
  | cons c a ih => by_cases h : c = x <;> simp [replaceChar, h, ih]

theorem escape_cons (c : Char) (s : Str) : escape (c :: s) = escChar c ++ escape s := by
  unfold escape escChar
  by_cases h1 : c = '&'
  · subst h1; simp [replaceChar]
  by_cases h2 : c = '>'
  · subst h2; simp [replaceChar]
  by_cases h3 : c = '<'
  · subst h3; simp [replaceChar]
  by_cases h4 : c = '\''
  · subst h4; simp [replaceChar]
  by_cases h5 : c = '"'
  · subst h5; simp [replaceChar]
  simp [replaceChar, h1, h2, h3, h4, h5]

theorem escape_nil : escape [] = [] := by simp [escape, replaceChar]

theorem escape_eq_flatMap (s : Str) : escape s = s.flatMap escChar := by
  induction s with
  | nil => simp [escape_nil]
  | cons c s ih => simp [escape_cons, ih]

theorem escape_append (a b : Str) : escape (a ++ b) = escape a ++ escape b := by
  simp [escape_eq_flatMap]

theorem escapeStd_cons (c : Char) (s : Str) : escapeStd (c :: s) = escCharStd c ++ escapeStd s := by
  unfold escapeStd escCharStd
  by_cases h1 : c = '&'
  · subst h1; simp [replaceChar]
  by_cases h2 : c = '<'
  · subst h2; simp [replaceChar]
  by_cases h3 : c = '>'
  · subst h3; simp [replaceChar]
  by_cases h4 : c = '"'
  · subst h4; simp [replaceChar]
  by_cases h5 : c = '\''
  · subst h5; simp [replaceChar]
  simp [replaceChar, h1, h2, h3, h4, h5]

theorem escapeStd_eq_flatMap (s : Str) : escapeStd s = s.flatMap escCharStd := by
  induction s with
  | nil => simp [escapeStd, replaceChar]
  | cons c s ih => simp [escapeStd_cons, ih]

/-- No character of an escaped character is markup-significant. -/
theorem mem_escChar {c d : Char} (h : d ∈ escChar c) : d ≠ '<' ∧ d ≠ '>' ∧ d ≠ '"' ∧ d ≠ '\'' := by
  unfold escChar at h
  split at h
  · simp at h; rcases h with h | h | h | h | h <;> subst h <;> decide
  split at h
  · simp at h; rcases h with h | h | h | h <;> subst h <;> decide
  split at h
  · simp at h; rcases h with h | h | h | h <;> subst h <;> decide
  split at h
  · simp at h; rcases h with h | h | h | h | h <;> subst h <;> decide
  split at h
  · simp at h; rcases h with h | h | h | h | h <;> subst h <;> decide
  · simp at h; subst h
    refine ⟨?_, ?_, ?_, ?_⟩ <;> assumption

theorem mem_escCharStd {c d : Char} (h : d ∈ escCharStd c) : d ≠ '<' ∧ d ≠ '>' ∧ d ≠ '"' ∧ d ≠ '\'' := by
  unfold escCharStd at h
  split at h
  · simp at h; rcases h with h | h | h | h | h <;> subst h <;> decide
  split at h
  · simp at h; rcases h with h | h | h | h <;> subst h <;> decide
  split at h
  · simp at h; rcases h with h | h | h | h <;> subst h <;> decide
  split at h
  · simp at h; rcases h with h | h | h | h | h | h <;> subst h <;> decide
  split at h
  · simp at h; rcases h with h | h | h | h | h | h <;> subst h <;> decide
  · simp at h; subst h
    refine ⟨?_, ?_, ?_, ?_⟩ <;> assumption

theorem mem_escape {s : Str} {d : Char} (h : d ∈ escape s) : d ≠ '<' ∧ d ≠ '>' ∧ d ≠ '"' ∧ d ≠ '\'' := by
  rw [escape_eq_flatMap] at h
  obtain ⟨c, _, hc⟩ := List.mem_flatMap.mp h
  exact mem_escChar hc

theorem mem_escapeStd {s : Str} {d : Char} (h : d ∈ escapeStd s) : d ≠ '<' ∧ d ≠ '>' ∧ d ≠ '"' ∧ d ≠ '\'' := by
  rw [escapeStd_eq_flatMap] at h
  obtain ⟨c, _, hc⟩ := List.mem_flatMap.mp h
  exact mem_escCharStd hc

theorem escape_charData (s : Str) : CharData entities (escape s) := by
  induction s with
  | nil => rw [escape_nil]; exact .nil
  | cons c s ih =>
    rw [escape_cons]
    unfold escChar
    split
    · exact .ent _ '&' _ (by simp [entities]) ih
    split
    · exact .ent _ '>' _ (by simp [entities]) ih
    split
    · exact .ent _ '<' _ (by simp [entities]) ih
    split
    · exact .ent _ '\'' _ (by simp [entities]) ih
    split
    · exact .ent _ '"' _ (by simp [entities]) ih
    · exact .plain c _ ‹_› ‹_› ‹_› ‹_› ‹_› ih

theorem escapeStd_charData (s : Str) : CharData entitiesStd (escapeStd s) := by
  induction s with
  | nil => simp [escapeStd, replaceChar]; exact .nil
  | cons c s ih =>
    rw [escapeStd_cons]
    unfold escCharStd
    split
    · exact .ent _ '&' _ (by simp [entitiesStd]) ih
    split
    · exact .ent _ '<' _ (by simp [entitiesStd]) ih
    split
    · exact .ent _ '>' _ (by simp [entitiesStd]) ih
    split
    · exact .ent _ '"' _ (by simp [entitiesStd]) ih
    split
    · exact .ent _ '\'' _ (by simp [entitiesStd]) ih
    · exact .plain c _ ‹_› ‹_› ‹_› ‹_› ‹_› ih

theorem unescape_escChar (c : Char) (r : Str) : unescape (escChar c ++ r) = c :: unescape r := by
  unfold escChar
  split
  · subst_vars; simp [unescape]
  split
  · subst_vars; simp [unescape]
  split
  · subst_vars; simp [unescape]
  split
  · subst_vars; simp [unescape]
  split
  · subst_vars; simp [unescape]
  · rename_i h _ _ _ _
    show unescape (c :: r) = c :: unescape r
    rw [unescape.eq_def]
    simp [h]

theorem unescape_escape (s : Str) : unescape (escape s) = s := by
  induction s with
  | nil => simp [escape_nil, unescape]
  | cons c s ih => rw [escape_cons, unescape_escChar, ih]

/-! ## tokenizer states -/

theorem lexRun_append (q : LexSt) (a b : Str) : lexRun q (a ++ b) = lexRun (lexRun q a) b := by
  simp [lexRun, List.foldl_append]

theorem lexRun_stays {q : LexSt} {s : Str} (h : ∀ c ∈ s, lexStep q c = q) : lexRun q s = q := by
  induction s with
  | nil => rfl
  | cons c s ih =>
    have hc := h c (by simp)
    simp only [lexRun, List.foldl_cons, hc]
    exact ih (fun d hd => h d (by simp [hd]))

theorem lexRun_prefix_stays {q : LexSt} {s pre : Str} (h : ∀ c ∈ s, lexStep q c = q) (hp : pre <+: s) :
    lexRun q pre = q :=
  lexRun_stays (fun c hc => h c (hp.subset hc))

theorem jsRun_stays {q : Char} {s : Str} (h : ∀ c ∈ s, jsStep q true c = true) : jsRun q s = true := by
  unfold jsRun
  induction s with
  | nil => rfl
  | cons c s ih =>
    have hc := h c (by simp)
    simp only [List.foldl_cons, hc]
    exact ih (fun d hd => h d (by simp [hd]))

theorem nameOrDot_not_special {c : Char} (h : isNameOrDot c = true) :
    c ≠ '&' ∧ c ≠ '<' ∧ c ≠ '>' ∧ c ≠ '"' ∧ c ≠ '\'' ∧ c ≠ '\\' ∧ c ≠ '\n' ∧ c ≠ '\r' ∧ c ≠ '/' ∧ c ≠ '#' := by
  refine ⟨?_, ?_, ?_, ?_, ?_, ?_, ?_, ?_, ?_, ?_⟩ <;> (intro e; subst e; revert h; decide)

theorem nameChar_not_dot {c : Char} (h : isNameChar c = true) : c ≠ '.' := by
  intro e; subst e; revert h; decide

theorem nameChar_nameOrDot {c : Char} (h : isNameChar c = true) : isNameOrDot c = true := by
  simp [isNameOrDot, h]

theorem escChar_of_nameOrDot {c : Char} (h : isNameOrDot c = true) : escChar c = [c] := by
  obtain ⟨h1, h2, h3, h4, h5, _⟩ := nameOrDot_not_special h
  simp [escChar, h1, h2, h3, h4, h5]

theorem escape_of_nameOrDot {s : Str} (h : ∀ c ∈ s, isNameOrDot c = true) : escape s = s := by
  induction s with
  | nil => exact escape_nil
  | cons c s ih =>
    rw [escape_cons, escChar_of_nameOrDot (h c (by simp)), ih (fun d hd => h d (by simp [hd]))]
    rfl

/-! ## nesting -/

theorem runToks_append (st : List Tag) (a b : List Tok) :
    runToks st (a ++ b) = (runToks st a).bind (fun st' => runToks st' b) := by
  induction a generalizing st with
  | nil => simp [runToks]
  | cons t a ih =>
    cases t with
    | op t => simp [runToks, ih]
    | vd t => simp [runToks, ih]
    | cl t =>
      cases st with
      | nil => simp [runToks]
      | cons x st =>
        by_cases h : x = t
        · simp [runToks, h, ih]
        · simp [runToks, h]

theorem balanced_run {s : List Tok} (h : Balanced s) : ∀ st, runToks st s = some st := by
  induction h with
  | nil => intro st; rfl
  | vd t => intro st; simp [runToks]
  | wrap t s _ ih =>
    intro st
    show runToks st (Tok.op t :: (s ++ [Tok.cl t])) = some st
    simp [runToks, runToks_append, ih]
  | app a b _ _ iha ihb => intro st; simp [runToks_append, iha, ihb]

/-- `s` realises the effect `e`: on any stack that starts with `e.pops` it succeeds and replaces them by `e.pushes`. -/
def Realizes (s : List Tok) (e : Eff) : Prop :=
  ∀ st, runToks (e.pops ++ st) s = some (e.pushes ++ st)

theorem cancel_spec {pu po rp rq : List Tag} (h : cancel pu po = some (rp, rq)) :
    ∃ common, pu = common ++ rp ∧ po = common ++ rq ∧ (rp = [] ∨ rq = []) := by
  induction pu generalizing po with
  | nil =>
    cases po with
    | nil => simp [cancel] at h; obtain ⟨rfl, rfl⟩ := h; exact ⟨[], rfl, rfl, .inl rfl⟩
    | cons b po => simp [cancel] at h; obtain ⟨rfl, rfl⟩ := h; exact ⟨[], rfl, rfl, .inl rfl⟩
  | cons a pu ih =>
    cases po with
    | nil => simp [cancel] at h; obtain ⟨rfl, rfl⟩ := h; exact ⟨[], rfl, rfl, .inr rfl⟩
    | cons b po =>
      by_cases hab : a = b
      · subst hab
        simp [cancel] at h
        obtain ⟨cm, h1, h2, h3⟩ := ih h
        exact ⟨a :: cm, by simp [h1], by simp [h2], h3⟩
      · simp [cancel, hab] at h

theorem realizes_comp {s₁ s₂ : List Tok} {e₁ e₂ e : Eff} (h₁ : Realizes s₁ e₁) (h₂ : Realizes s₂ e₂)
    (hc : e₁.comp e₂ = some e) : Realizes (s₁ ++ s₂) e := by
  obtain ⟨p1, q1⟩ := e₁
  obtain ⟨p2, q2⟩ := e₂
  unfold Eff.comp at hc
  simp only at hc
  split at hc
  · cases hc
  · rename_i rp rq hcan
    cases hc
    obtain ⟨cm, hpu, hpo, hz⟩ := cancel_spec hcan
    subst hpu hpo
    intro st
    rw [runToks_append]
    have r1 := h₁ (rq ++ st)
    simp only [List.append_assoc] at r1 ⊢
    rw [r1]
    simp only [Option.bind_some]
    rcases hz with rfl | rfl
    · -- the first part leaves open exactly a prefix of what the second closes
      have r2 := h₂ st
      simpa [List.append_assoc] using r2
    · -- everything the second part closes was opened by the first
      have r2 := h₂ (rp ++ st)
      simpa [List.append_assoc] using r2

theorem realizes_tok (t : Tok) : Realizes [t] (tokEff t) := by
  intro st
  cases t <;> simp [tokEff, runToks, Eff.neutral]

theorem realizes_neutral_of_balanced {s : List Tok} (h : Balanced s) : Realizes s .neutral := by
  intro st; simpa [Eff.neutral] using balanced_run h st

theorem isNeutral_iff {nm : Nat} {t : Tm} : isNeutral nm t = true ↔ effect nm t = some .neutral := by
  simp [isNeutral]

theorem macrosOk_get {env : List Tm} (h : macrosOk env = true) {m : Nat} {b : Tm} (hb : env[m]? = some b) :
    effect env.length b = some .neutral := by
  have hmem : b ∈ env := List.mem_of_getElem? hb
  have := (List.all_eq_true.mp h) b hmem
  exact isNeutral_iff.mp this

/-- Soundness of the stack-effect analysis. -/
theorem effect_sound {env : List Tm} (hm : macrosOk env = true) {t : Tm} {s : List Tok} (hr : Renders env t s) :
    ∀ e, effect env.length t = some e → Realizes s e := by
  induction hr with
  | eps => intro e h; simp [effect] at h; subst h; intro st; simp [Eff.neutral, runToks]
  | tok t => intro e h; simp [effect] at h; subst h; exact realizes_tok t
  | chars n => intro e h; simp [effect] at h; subst h; intro st; simp [Eff.neutral, runToks]
  | snip n s hb => intro e h; simp [effect] at h; subst h; exact realizes_neutral_of_balanced hb
  | wild n s => intro e h; simp [effect] at h
  | seq _ _ iha ihb =>
    intro e h
    simp only [effect] at h
    split at h
    · rename_i e₁ e₂ h1 h2
      exact realizes_comp (iha e₁ h1) (ihb e₂ h2) h
    · cases h
  | altL _ iha =>
    intro e h
    simp only [effect] at h
    split at h
    · rename_i e₁ e₂ h1 h2
      split at h
      · cases h; exact iha _ h1
      · cases h
    · cases h
  | altR _ ihb =>
    intro e h
    simp only [effect] at h
    split at h
    · rename_i e₁ e₂ h1 h2
      split at h
      · rename_i heq; cases h; exact ihb _ (heq ▸ h2)
      · cases h
    · cases h
  | starNil =>
    intro e h
    simp only [effect] at h
    split at h
    · split at h
      · cases h; intro st; simp [Eff.neutral, runToks]
      · cases h
    · cases h
  | @starCons a s₁ s₂ _ _ iha ihs =>
    intro e h
    have h' := h
    simp only [effect] at h
    split at h
    · rename_i e₁ h1
      split at h
      · rename_i hn
        cases h
        have r1 := iha _ (hn ▸ h1)
        have r2 := ihs _ h'
        exact realizes_comp r1 r2 (by simp [Eff.comp, Eff.neutral, cancel])
      · cases h
    · cases h
  | @call m b s hb _ ih =>
    intro e h
    simp only [effect] at h
    split at h
    · cases h; exact ih _ (macrosOk_get hm hb)
    · cases h

/-! ## display_type -/

theorem displayToks_balanced (span : Tag) (d : DT) : Balanced (displayToks span d) := by
  have pair : Balanced [Tok.op span, Tok.cl span] := by
    have := Balanced.wrap span [] .nil
    simpa using this
  induction d with
  | fixedArr el cap ih =>
    have : displayToks span (.fixedArr el cap) = displayToks span el ++ [Tok.op span, Tok.cl span] := by
      simp [displayToks, displayPieces, pieceToks]
    rw [this]; exact .app _ _ ih pair
  | varArr el cap ih =>
    have : displayToks span (.varArr el cap) = displayToks span el ++ [Tok.op span, Tok.cl span] := by
      simp [displayToks, displayPieces, pieceToks]
    rw [this]; exact .app _ _ ih pair
  | padding s =>
    have : displayToks span (.padding s) = [Tok.op span, Tok.cl span] := by
      simp [displayToks, displayPieces, pieceToks]
    rw [this]; exact pair
  | field dt name ih =>
    have : displayToks span (.field dt name) = displayToks span dt ++ [] := by
      simp [displayToks, displayPieces, pieceToks]
    rw [this]; exact .app _ _ ih .nil
  | const dt name value ih =>
    have : displayToks span (.const dt name value) =
        displayToks span dt ++ ([Tok.op span, Tok.cl span] ++ [Tok.op span, Tok.cl span]) := by
      simp [displayToks, displayPieces, pieceToks]
    rw [this]; exact .app _ _ ih (.app _ _ pair pair)
  | prim sat s =>
    have : displayToks span (.prim sat s) = [Tok.op span, Tok.cl span] ++ [Tok.op span, Tok.cl span] := by
      cases sat <;> simp [displayToks, displayPieces, pieceToks]
    rw [this]; exact .app _ _ pair pair
  | other s =>
    have : displayToks span (.other s) = [] := by simp [displayToks, displayPieces, pieceToks]
    rw [this]; exact .nil

/-! ## ids and links -/

/-- A name component as the front end accepts it: non-empty, letters / digits / underscore. -/
def ValidComp (c : Str) : Prop := c ≠ [] ∧ ∀ ch ∈ c, isNameChar ch = true

theorem splitFragment_append {a b : Str} (h : '#' ∉ a) : splitFragment (a ++ '#' :: b) = (a, b) := by
  induction a with
  | nil => simp [splitFragment]
  | cons c a ih =>
    have hc : c ≠ '#' := fun e => h (by simp [e])
    have ha : '#' ∉ a := fun e => h (by simp [e])
    simp [splitFragment, hc, ih ha]

theorem splitOn_noSep {sep : Char} {a : Str} (h : sep ∉ a) : splitOn sep a = [a] := by
  induction a with
  | nil => rfl
  | cons c a ih =>
    have hc : c ≠ sep := fun e => h (by simp [e])
    have ha : sep ∉ a := fun e => h (by simp [e])
    simp [splitOn, hc, ih ha]

theorem splitOn_append {sep : Char} {a : Str} (b : Str) (h : sep ∉ a) :
    splitOn sep (a ++ sep :: b) = a :: splitOn sep b := by
  induction a with
  | nil => simp [splitOn]
  | cons c a ih =>
    have hc : c ≠ sep := fun e => h (by simp [e])
    have ha : sep ∉ a := fun e => h (by simp [e])
    simp [splitOn, hc, ih ha]

theorem repeatStr_succ' (s : Str) (n : Nat) : repeatStr s n ++ s = repeatStr s (n + 1) := by
  induction n with
  | zero => simp [repeatStr]
  | succ n ih => simp only [repeatStr, List.append_assoc]; rw [ih]; simp [repeatStr]

theorem splitOn_ups (n : Nat) (rest : Str) :
    splitOn '/' (repeatStr "../".toList n ++ rest) = List.replicate n ['.', '.'] ++ splitOn '/' rest := by
  induction n with
  | zero => simp [repeatStr]
  | succ n ih =>
    have : repeatStr "../".toList (n + 1) ++ rest = ['.', '.'] ++ '/' :: (repeatStr "../".toList n ++ rest) := by
      simp [repeatStr]
    rw [this, splitOn_append _ (by decide), ih]
    simp [List.replicate_succ]

theorem mem_repeatStr {s : Str} {n : Nat} {c : Char} (h : c ∈ repeatStr s n) : c ∈ s := by
  induction n with
  | zero => simp [repeatStr] at h
  | succ n ih => simp only [repeatStr, List.mem_append] at h; rcases h with h | h; exact h; exact ih h

theorem resolveSegs_ups (rdir : List Str) (n : Nat) (a : Str) (rest : List Str) (h : n ≤ rdir.length) :
    resolveSegs rdir (List.replicate n ['.', '.'] ++ a :: rest) = resolveSegs (rdir.drop n) (a :: rest) := by
  induction n generalizing rdir with
  | zero => simp
  | succ n ih =>
    cases rdir with
    | nil => simp at h
    | cons d rdir =>
      have hl : n ≤ rdir.length := by simpa using h
      have e : List.replicate (n + 1) ['.', '.'] ++ a :: rest =
          ['.', '.'] :: (List.replicate n ['.', '.'] ++ a :: rest) := by simp [List.replicate_succ]
      rw [e]
      cases hrep : List.replicate n ['.', '.'] ++ a :: rest with
      | nil => simp at hrep
      | cons x xs =>
        have : resolveSegs (d :: rdir) (['.', '.'] :: x :: xs) = resolveSegs rdir (x :: xs) := by
          simp [resolveSegs]
        rw [this, ← hrep, ih rdir hl]
        simp

theorem countChar_append (x : Char) (a b : Str) : countChar x (a ++ b) = countChar x a + countChar x b := by
  induction a with
  | nil => simp [countChar]
  | cons c a ih => simp [countChar, ih]; omega

theorem countChar_zero {x : Char} {a : Str} (h : x ∉ a) : countChar x a = 0 := by
  induction a with
  | nil => rfl
  | cons c a ih =>
    have hc : c ≠ x := fun e => h (by simp [e])
    have ha : x ∉ a := fun e => h (by simp [e])
    simp [countChar, hc, ih ha]

theorem validComp_noDot {c : Str} (h : ValidComp c) : '.' ∉ c :=
  fun hm => nameChar_not_dot (h.2 _ hm) rfl

theorem countDots_join {ns : List Str} (h : ∀ c ∈ ns, ValidComp c) (hne : ns ≠ []) :
    countChar '.' (joinWith '.' ns) = ns.length - 1 := by
  induction ns with
  | nil => exact absurd rfl hne
  | cons a l ih =>
    cases l with
    | nil => simp [joinWith, countChar_zero (validComp_noDot (h a (by simp)))]
    | cons b l =>
      have hl : ∀ c ∈ b :: l, ValidComp c := fun c hc => h c (by simp [hc])
      have := ih hl (by simp)
      have e : joinWith '.' (a :: b :: l) = a ++ '.' :: joinWith '.' (b :: l) := rfl
      rw [e, countChar_append, countChar_zero (validComp_noDot (h a (by simp)))]
      simp only [countChar, if_true, this]
      simp; omega

theorem validComp_notSpecial {c : Str} (h : ValidComp c) :
    '#' ∉ c ∧ '/' ∉ c ∧ c ≠ [] ∧ c ≠ ['.'] ∧ c ≠ ['.', '.'] := by
  obtain ⟨hne, hc⟩ := h
  refine ⟨?_, ?_, hne, ?_, ?_⟩
  · intro hm; exact (nameOrDot_not_special (nameChar_nameOrDot (hc _ hm))).2.2.2.2.2.2.2.2.2 rfl
  · intro hm; exact (nameOrDot_not_special (nameChar_nameOrDot (hc _ hm))).2.2.2.2.2.2.2.2.1 rfl
  · intro e; subst e; exact nameChar_not_dot (hc '.' (by simp)) rfl
  · intro e; subst e; exact nameChar_not_dot (hc '.' (by simp)) rfl

/-- Resolution of `"../" * n ++ "../" ++ root ++ "/#" ++ frag` from a page `n + 1` directories deep. -/
theorem resolve_up_root {dir : List Str} {root frag : Str} (hr : ValidComp root) (hd : dir ≠ []) :
    resolve (dir ++ [indexPage])
        (repeatStr "../".toList (dir.length - 1) ++ ("../".toList ++ root ++ "/#".toList ++ frag)) =
      some ([root, indexPage], frag) := by
  obtain ⟨h1, h2, h3, h4, h5⟩ := validComp_notSpecial hr
  have hlen : dir.length - 1 + 1 = dir.length := by
    cases dir with
    | nil => exact absurd rfl hd
    | cons a l => simp
  have e : repeatStr "../".toList (dir.length - 1) ++ ("../".toList ++ root ++ "/#".toList ++ frag) =
      (repeatStr "../".toList dir.length ++ (root ++ ['/'])) ++ '#' :: frag := by
    rw [← hlen, ← repeatStr_succ']
    simp [hlen]
  have hno : '#' ∉ repeatStr "../".toList dir.length ++ (root ++ ['/']) := by
    intro hm
    rcases List.mem_append.mp hm with hm | hm
    · have := mem_repeatStr hm; revert this; decide
    · rcases List.mem_append.mp hm with hm | hm
      · exact h1 hm
      · revert hm; decide
  unfold resolve
  rw [e, splitFragment_append hno]
  have hpath : repeatStr "../".toList dir.length ++ (root ++ ['/']) ≠ [] := by
    cases root with
    | nil => exact absurd rfl h3
    | cons c r => simp
  simp only [hpath, if_false]
  have hs : splitOn '/' (root ++ ['/']) = [root, []] := by
    have := splitOn_append (sep := '/') (a := root) [] h2
    simpa [splitOn] using this
  rw [splitOn_ups, hs]
  have hdl : (dir ++ [indexPage]).dropLast.reverse = dir.reverse := by simp
  rw [hdl, resolveSegs_ups dir.reverse dir.length root [[]] (by simp)]
  have : dir.reverse.drop dir.length = [] := by simp
  rw [this]
  have h3' : ¬ (root = [] ∨ root = ['.']) := by
    intro h; rcases h with h | h; exact h3 h; exact h4 h
  simp [resolveSegs, h3', h5]

/-- Every character of a tag id is a name character. -/
theorem replaceDots_nameChars {s : Str} (h : ∀ c ∈ s, isNameOrDot c = true) :
    ∀ c ∈ replaceChar '.' ['_'] s, isNameChar c = true := by
  induction s with
  | nil => intro c hc; simp [replaceChar] at hc
  | cons d s ih =>
    intro c hc
    have hs : ∀ c ∈ s, isNameOrDot c = true := fun c hc => h c (by simp [hc])
    by_cases hd : d = '.'
    · simp [replaceChar, hd] at hc
      rcases hc with rfl | hc
      · decide
      · exact ih hs c hc
    · simp [replaceChar, hd] at hc
      rcases hc with rfl | hc
      · have := h c (by simp)
        simp [isNameOrDot, hd] at this
        exact this
      · exact ih hs c hc

theorem join_nameOrDot {l : List Str} (h : ∀ c ∈ l, ValidComp c) : ∀ ch ∈ joinWith '.' l, isNameOrDot ch = true := by
  induction l with
  | nil => intro ch hc; simp [joinWith] at hc
  | cons a l ih =>
    cases l with
    | nil => intro ch hc; simp [joinWith] at hc; exact nameChar_nameOrDot ((h a (by simp)).2 ch hc)
    | cons b l =>
      intro ch hc
      simp only [joinWith, List.mem_append, List.mem_cons] at hc
      rcases hc with hc | rfl | hc
      · exact nameChar_nameOrDot ((h a (by simp)).2 ch hc)
      · decide
      · exact ih (fun c hc => h c (by simp [hc])) ch (by simpa [joinWith] using hc)

theorem dec_nameChars (n : Nat) : ∀ c ∈ dec n, isNameChar c = true := by
  intro c hc
  have := Nat.isDigit_of_mem_toDigits (by decide) (by decide) hc
  simp [isNameChar, Char.isAlphanum, this]

theorem tagId_nameChars {t : CType} (h : ∀ c ∈ t.comps, ValidComp c) : ∀ c ∈ tagId t, isNameChar c = true := by
  intro c hc
  simp only [tagId, versionSuffix, List.mem_append, List.mem_cons] at hc
  rcases hc with hc | (rfl | hc) | (rfl | hc)
  · exact replaceDots_nameChars (join_nameOrDot h) c hc
  · decide
  · exact dec_nameChars _ c hc
  · decide
  · exact dec_nameChars _ c hc

mutual
theorem entryIds_complete (tree : NsTree) (t : CType) (ht : t ∈ allTypes tree) (hs : t.comps.getLastD [] ≠ ['_']) :
    tagId t ∈ entryIds tree := by
  match tree with
  | .node name types children =>
    simp only [allTypes, List.mem_append] at ht
    simp only [entryIds, List.mem_append]
    rcases ht with ht | ht
    · left
      exact List.mem_map.mpr ⟨t, List.mem_filter.mpr ⟨ht, by simpa using hs⟩, rfl⟩
    · right
      exact entryIdsL_complete children t ht hs
theorem entryIdsL_complete (l : List NsTree) (t : CType) (ht : t ∈ allTypesL l) (hs : t.comps.getLastD [] ≠ ['_']) :
    tagId t ∈ entryIdsL l := by
  match l with
  | [] => simp [allTypesL] at ht
  | n :: l =>
    simp only [allTypesL, List.mem_append] at ht
    simp only [entryIdsL, List.mem_append]
    rcases ht with ht | ht
    · left; exact entryIds_complete n t ht hs
    · right; exact entryIdsL_complete l t ht hs
end

end NunavutVerif.Html
