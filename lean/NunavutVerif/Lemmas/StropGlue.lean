import NunavutVerif.Model.StropGlue
import NunavutVerif.Lemmas.Strop
/-!
Lemmas about the glue model (`Model/StropGlue.lean`): the heap is only appended to, an encoder's tables depend only on
the list objects its section refers to, the cache invariant.
-/
set_option linter.unusedSimpArgs false

namespace NunavutVerif.StropGlue
open NunavutVerif.Regex NunavutVerif.Strop

/-! ### heap extension -/

theorem get_append_lt {h ext : Heap} {a : Nat} (ha : a < h.length) : (h ++ ext)[a]? = h[a]? :=
  List.getElem?_append_left ha

/-- the entries of a mapping refer to objects below `n` -/
def entriesWf (n : Nat) (es : List (Str × Leaf)) : Bool := (es.flatMap (fun e => leafRefs e.2)).all (· < n)

theorem entriesWf_cons {n : Nat} {k : Str} {l : Leaf} {es : List (Str × Leaf)} :
    entriesWf n ((k, l) :: es) = ((leafRefs l).all (· < n) && entriesWf n es) := by
  simp [entriesWf, List.all_append]

theorem buildMap_append (compile : Str → Option Re) (h ext : Heap) (es : List (Str × Leaf))
    (m : List (Str × List Re)) (anyl : List Re) (hwf : entriesWf h.length es = true) :
    buildMap compile (h ++ ext) es m anyl = buildMap compile h es m anyl := by
  induction es generalizing m anyl with
  | nil => simp [buildMap]
  | cons e rest ih =>
    obtain ⟨k, l⟩ := e
    rw [entriesWf_cons, Bool.and_eq_true] at hwf
    cases l with
    | list a =>
      have ha : a < h.length := by simpa [leafRefs] using hwf.1
      simp only [buildMap, get_append_lt ha]
      cases h[a]? with
      | none => rfl
      | some srcs =>
        simp only
        cases compileAll compile srcs with
        | none => rfl
        | some ps =>
          simp only
          split
          · rfl
          · exact ih _ _ hwf.2
    | str s => simp [buildMap]
    | null => simp [buildMap]
    | bool b => simp [buildMap]
    | num n => simp [buildMap]
    | other => simp [buildMap]

/-! ### well-formed sections -/

theorem aget_mem {α : Type} {m : List (Str × α)} {k : Str} {v : α} (h : aget m k = some v) : (k, v) ∈ m := by
  induction m with
  | nil => simp [aget] at h
  | cons e rest ih =>
    obtain ⟨k', v'⟩ := e
    simp only [aget] at h
    split at h
    · rename_i hk
      cases h
      simp [hk]
    · exact List.mem_cons_of_mem _ (ih h)

theorem secWf_val {n : Nat} {sec : Section} {k : Str} {v : CVal} (hwf : secWf n sec = true) (h : aget sec k = some v) :
    (valRefs v).all (· < n) = true := by
  have hm := aget_mem h
  simp only [secWf, secRefs, List.all_eq_true, List.mem_flatMap] at hwf ⊢
  intro a ha
  exact hwf a ⟨(k, v), hm, ha⟩

theorem getDict_wf {n : Nat} {sec : Section} (k : Str) (hwf : secWf n sec = true) : entriesWf n (getDict sec k) = true := by
  unfold getDict
  cases hg : aget sec k with
  | none => simp [entriesWf]
  | some v =>
    cases v with
    | leaf l => simp [entriesWf]
    | dict es =>
      have := secWf_val hwf hg
      simpa [entriesWf, valRefs] using this

theorem getList_wf {n : Nat} {sec : Section} {k : Str} {a : Nat} (hwf : secWf n sec = true) (h : getList sec k = some a) :
    a < n := by
  unfold getList at h
  cases hg : aget sec k with
  | none => simp [hg] at h
  | some v =>
    cases v with
    | dict es => simp [hg] at h
    | leaf l =>
      cases l <;> simp [hg] at h
      subst h
      have := secWf_val hwf hg
      simpa [valRefs, leafRefs] using this

/-! ### `reservedObject` / `newEncoder`: appends only; the tables read through the heap -/

/-- What `reservedObject` (the code: no in-place extension) returns: the heap grows by `ext`, the address is valid and the
object it names holds the configured list followed by the additions. -/
theorem reservedObject_spec {h : Heap} {sec : Section} {add : Option (List Str)} {a : Nat} {h' : Heap}
    (hr : reservedObject false h sec add = .ok (a, h')) :
    ∃ ext, h' = h ++ ext ∧ a < h'.length ∧
      h'[a]? = some ((match getList sec kReserved with | some b => (h[b]?).getD [] | none => []) ++ add.getD []) := by
  unfold reservedObject at hr
  cases hg : getList sec kReserved with
  | some b =>
    simp only [hg] at hr
    cases hb : h[b]? with
    | none => simp [hb] at hr
    | some base =>
      simp only [hb, Except.ok.injEq] at hr
      have hblt : b < h.length := by
        rcases Nat.lt_or_ge b h.length with hlt | hge
        · exact hlt
        · rw [List.getElem?_eq_none hge] at hb; cases hb
      cases add with
      | none =>
        simp only [withAdditional, Prod.mk.injEq] at hr
        obtain ⟨rfl, rfl⟩ := hr
        exact ⟨[], by simp, hblt, by simp [hb]⟩
      | some x =>
        simp only [withAdditional, Prod.mk.injEq] at hr
        obtain ⟨rfl, rfl⟩ := hr
        refine ⟨[base ++ x], rfl, by simp, ?_⟩
        simp [hb]
  | none =>
    simp only [hg, Except.ok.injEq] at hr
    cases add with
    | none =>
      simp only [withAdditional, Prod.mk.injEq] at hr
      obtain ⟨rfl, rfl⟩ := hr
      exact ⟨[[]], rfl, by simp, by simp⟩
    | some x =>
      simp only [withAdditional, Prod.mk.injEq] at hr
      obtain ⟨rfl, rfl⟩ := hr
      refine ⟨[[], [] ++ x], by simp, by simp, ?_⟩
      simp [List.getElem?_append_right]


theorem resolvedReserved_of_object {h : Heap} {sec : Section} {add : Option (List Str)} :
    (∀ a h', reservedObject false h sec add = .ok (a, h') → ∃ l, resolvedReserved h sec add = .ok l ∧ h'[a]? = some l) ∧
    (∀ e, reservedObject false h sec add = .error e → resolvedReserved h sec add = .error e) := by
  unfold reservedObject resolvedReserved
  cases hg : getList sec kReserved with
  | some b =>
    cases hb : h[b]? with
    | none => simp [hb]
    | some base =>
      simp only [hb]
      have hblt : b < h.length := by
        rcases Nat.lt_or_ge b h.length with hlt | hge
        · exact hlt
        · rw [List.getElem?_eq_none hge] at hb; cases hb
      cases add with
      | none =>
        refine ⟨?_, by simp⟩
        intro a h' hr
        simp only [withAdditional, Except.ok.injEq, Prod.mk.injEq] at hr
        obtain ⟨rfl, rfl⟩ := hr
        exact ⟨base, by simp, hb⟩
      | some x =>
        refine ⟨?_, by simp⟩
        intro a h' hr
        simp only [withAdditional, Except.ok.injEq, Prod.mk.injEq] at hr
        have hr' : (h.length, h ++ [base ++ x]) = (a, h') := by simpa using hr
        simp only [Prod.mk.injEq] at hr'
        obtain ⟨rfl, rfl⟩ := hr'
        exact ⟨base ++ x, by simp, by simp⟩
  | none =>
    cases add with
    | none =>
      refine ⟨?_, by simp⟩
      intro a h' hr
      simp only [withAdditional, Except.ok.injEq, Prod.mk.injEq] at hr
      obtain ⟨rfl, rfl⟩ := hr
      exact ⟨[], by simp, by simp⟩
    | some x =>
      refine ⟨?_, by simp⟩
      intro a h' hr
      have hr' : ((h ++ [[]]).length, (h ++ [[]]) ++ [[] ++ x]) = (a, h') := by simpa [withAdditional] using hr
      simp only [Prod.mk.injEq] at hr'
      obtain ⟨rfl, rfl⟩ := hr'
      exact ⟨x, by simp, by simp⟩

/-- `newEncoder` only appends to the heap and the address it hands to the encoder is an object of the new heap. -/
theorem newEncoder_frame {compile : Str → Option Re} {h : Heap} {sec : Section} {lc : LangCode} {e : Enc} {h' : Heap}
    (hn : newEncoder compile h sec lc = .ok (e, h')) : ∃ ext, h' = h ++ ext ∧ e.reserved < h'.length := by
  unfold newEncoder newEncoderG at hn
  split at hn; · cases hn
  split at hn; · cases hn
  split at hn; · cases hn
  rename_i ra h1 hr
  split at hn; · cases hn
  simp only [Except.ok.injEq, Prod.mk.injEq] at hn
  obtain ⟨rfl, rfl⟩ := hn
  obtain ⟨ext, hext, hlt, _⟩ := reservedObject_spec hr
  exact ⟨ext, hext, hlt⟩

/-- `assemble` = its closed form: the tables are a function of the section and the contents of the objects it names. -/
theorem assemble_eq_closed (space : List (Nat × Nat)) (compile : Str → Option Re) (h : Heap) (sec : Section) (lc : LangCode) :
    assemble space compile h sec lc = assembleClosed space compile h sec lc := by
  unfold assemble assembleClosed newEncoder newEncoderG
  cases buildMap compile h (getDict sec kPatterns) [] [] with
  | error e => rfl
  | ok pats =>
    cases buildMap compile h (getDict sec kRules) [] [] with
    | error e => rfl
    | ok rules =>
      simp only
      cases hr : reservedObject false h sec lc.additional with
      | error e => simp [resolvedReserved_of_object.2 e hr]
      | ok r =>
        obtain ⟨a, h'⟩ := r
        obtain ⟨l, hl, hget⟩ := resolvedReserved_of_object.1 a h' hr
        simp only [hl]
        cases readScalars sec with
        | error e => rfl
        | ok sc => simp [Enc.cfg, hget]

/-- what an encoder built by `newEncoder` shows through the heap it was built on is `assemble` -/
theorem newEncoder_cfg {space : List (Nat × Nat)} {compile : Str → Option Re} {h : Heap} {sec : Section} {lc : LangCode}
    {e : Enc} {h' : Heap} (hn : newEncoder compile h sec lc = .ok (e, h')) :
    assemble space compile h sec lc = .ok (e.cfg space h') := by
  simp [assemble, hn]

theorem newEncoder_error {space : List (Nat × Nat)} {compile : Str → Option Re} {h : Heap} {sec : Section} {lc : LangCode}
    {x : AErr} (hn : newEncoder compile h sec lc = .error x) : assemble space compile h sec lc = .error x := by
  simp [assemble, hn]

theorem resolvedReserved_append {h ext : Heap} {sec : Section} {add : Option (List Str)} (hwf : secWf h.length sec = true) :
    resolvedReserved (h ++ ext) sec add = resolvedReserved h sec add := by
  unfold resolvedReserved
  cases hg : getList sec kReserved with
  | none => rfl
  | some a => simp only [get_append_lt (getList_wf hwf hg)]

/-- Objects appended to the heap (by other encoders, other contexts) do not change what a section assembles to. -/
theorem assemble_append (space : List (Nat × Nat)) (compile : Str → Option Re) (h ext : Heap) (sec : Section)
    (lc : LangCode) (hwf : secWf h.length sec = true) :
    assemble space compile (h ++ ext) sec lc = assemble space compile h sec lc := by
  rw [assemble_eq_closed, assemble_eq_closed]
  unfold assembleClosed
  rw [buildMap_append compile h ext _ _ _ (getDict_wf kPatterns hwf), buildMap_append compile h ext _ _ _ (getDict_wf kRules hwf),
    resolvedReserved_append hwf]

/-- An existing encoder's tables do not change when objects are appended. -/
theorem cfg_append (space : List (Nat × Nat)) (h ext : Heap) (e : Enc) (he : e.reserved < h.length) :
    e.cfg space (h ++ ext) = e.cfg space h := by
  simp [Enc.cfg, get_append_lt he]

theorem secWf_mono {n m : Nat} {sec : Section} (hnm : n ≤ m) (hwf : secWf n sec = true) : secWf m sec = true := by
  simp only [secWf, List.all_eq_true, decide_eq_true_eq] at hwf ⊢
  intro a ha
  exact Nat.lt_of_lt_of_le (hwf a ha) hnm


/-! ### the state machine -/

/-- every section of the defaults document refers to list objects of the document only -/
def docWf (d : Doc) : Bool := d.sections.all (fun e => secWf d.cells.length e.2)

/-- The invariant of a process. -/
structure Inv (env : Env) (p : Proc) : Prop where
  /-- the configurations refer to existing list objects -/
  secs : ∀ ctx ∈ p.ctxs, ∀ lang sec, aget ctx.sections lang = some sec → secWf p.heap.length sec = true
  /-- so do the encoders -/
  encs : ∀ e ∈ p.encoders, e.reserved < p.heap.length
  /-- a cached `_token_encoder` shows the tables its section assembles to -/
  built : ∀ ctx ∈ p.ctxs, ∀ lang ei, aget ctx.encs lang = some ei →
    ∃ sec lc e, aget ctx.sections lang = some sec ∧ env.code lang = some lc ∧ p.encoders[ei]? = some e ∧
      assemble env.space env.compile p.heap sec lc = .ok (e.cfg env.space p.heap)
  /-- every entry of the lru cache is what `strop` answers now -/
  cache : ∀ ent ∈ p.lru, ∃ e, p.encoders[ent.1.1]? = some e ∧
    strop (e.cfg env.space p.heap) ent.1.2.1 ent.1.2.2 = .ok ent.2

theorem inv_init (env : Env) : Inv env Proc.init :=
  ⟨by simp [Proc.init], by simp [Proc.init], by simp [Proc.init], by simp [Proc.init]⟩

theorem lruFind_mem {l : List (Key × Str)} {k : Key} {r : Str} (h : lruFind l k = some r) : (k, r) ∈ l := by
  induction l with
  | nil => simp [lruFind] at h
  | cons e rest ih =>
    obtain ⟨k', v⟩ := e
    simp only [lruFind] at h
    split at h
    · rename_i hk
      cases h
      simp [hk]
    · exact List.mem_cons_of_mem _ (ih h)

/-- appending objects keeps the invariant -/
theorem Inv.append {env : Env} {p : Proc} (hi : Inv env p) (ext : Heap) : Inv env { p with heap := p.heap ++ ext } := by
  refine ⟨?_, ?_, ?_, ?_⟩
  · intro ctx hc lang sec hs
    exact secWf_mono (by simp) (hi.secs ctx hc lang sec hs)
  · intro e he
    have := hi.encs e he
    simp only [List.length_append]
    omega
  · intro ctx hc lang ei hb
    obtain ⟨sec, lc, e, h1, h2, h3, h4⟩ := hi.built ctx hc lang ei hb
    refine ⟨sec, lc, e, h1, h2, h3, ?_⟩
    have he : e.reserved < p.heap.length := hi.encs e (List.mem_of_getElem? h3)
    simp only
    rw [assemble_append _ _ _ _ _ _ (hi.secs ctx hc lang sec h1), cfg_append _ _ _ _ he]
    exact h4
  · intro ent hent
    obtain ⟨e, h1, h2⟩ := hi.cache ent hent
    refine ⟨e, h1, ?_⟩
    have he : e.reserved < p.heap.length := hi.encs e (List.mem_of_getElem? h1)
    simp only
    rw [cfg_append _ _ _ _ he]
    exact h2

/-- `cachedStrop` answers what `strop` answers on the encoder's tables, whatever the cache holds, and keeps the invariant;
heap, contexts and encoders are untouched. -/
theorem cachedStrop_spec {env : Env} {p : Proc} (hi : Inv env p) {ei : Nat} {enc : Enc} (he : p.encoders[ei]? = some enc)
    (raw ty : Str) :
    (cachedStrop env p ei enc raw ty).2.1 = strop (enc.cfg env.space p.heap) raw ty ∧
    Inv env (cachedStrop env p ei enc raw ty).1 ∧
    (cachedStrop env p ei enc raw ty).1.heap = p.heap ∧ (cachedStrop env p ei enc raw ty).1.ctxs = p.ctxs ∧
    (cachedStrop env p ei enc raw ty).1.encoders = p.encoders := by
  cases hf : lruFind p.lru (ei, raw, ty) with
  | some r =>
    have hcs : cachedStrop env p ei enc raw ty =
        ({ p with lru := ((ei, raw, ty), r) :: lruRemove p.lru (ei, raw, ty), hits := p.hits + 1 }, .ok r, true) := by
      simp [cachedStrop, hf]
    rw [hcs]
    have hm := lruFind_mem hf
    obtain ⟨e, h1, h2⟩ := hi.cache _ hm
    simp only at h1 h2
    rw [he] at h1
    cases h1
    refine ⟨h2.symm, ⟨hi.secs, hi.encs, hi.built, ?_⟩, rfl, rfl, rfl⟩
    intro ent hent
    simp only [List.mem_cons] at hent
    rcases hent with rfl | hent
    · exact ⟨enc, he, h2⟩
    · exact hi.cache ent (List.mem_filter.mp hent).1
  | none =>
    cases hs : strop (enc.cfg env.space p.heap) raw ty with
    | error e =>
      have hcs : cachedStrop env p ei enc raw ty = ({ p with misses := p.misses + 1 }, .error e, false) := by
        simp [cachedStrop, hf, hs]
      rw [hcs]
      exact ⟨rfl, ⟨hi.secs, hi.encs, hi.built, hi.cache⟩, rfl, rfl, rfl⟩
    | ok r =>
      have hcs : cachedStrop env p ei enc raw ty =
          ({ p with lru := (((ei, raw, ty), r) :: p.lru).take env.maxsize, misses := p.misses + 1 }, .ok r, false) := by
        simp [cachedStrop, hf, hs]
      rw [hcs]
      refine ⟨rfl, ⟨hi.secs, hi.encs, hi.built, ?_⟩, rfl, rfl, rfl⟩
      intro ent hent
      have hent' := List.mem_of_mem_take hent
      simp only [List.mem_cons] at hent'
      rcases hent' with rfl | hent'
      · exact ⟨enc, he, hs⟩
      · exact hi.cache ent hent'

theorem aget_dset_same {α : Type} (m : List (Str × α)) (k : Str) (v : α) : aget (dset m k v) k = some v := by
  induction m with
  | nil => simp [dset, aget]
  | cons e rest ih =>
    obtain ⟨k', v'⟩ := e
    by_cases hk : k' = k
    · simp [dset, aget, hk]
    · simp [dset, aget, hk, ih]

theorem aget_dset_other {α : Type} (m : List (Str × α)) (k k2 : Str) (v : α) (hne : k2 ≠ k) :
    aget (dset m k v) k2 = aget m k2 := by
  induction m with
  | nil => simp [dset, aget, Ne.symm hne]
  | cons e rest ih =>
    obtain ⟨k', v'⟩ := e
    by_cases hk : k' = k
    · subst hk
      simp [dset, aget, Ne.symm hne]
    · by_cases hk2 : k' = k2
      · subst hk2
        simp [dset, aget, hk]
      · simp [dset, aget, hk, hk2, ih]

/-- what a step may do to a process: keep the invariant, append to the heap, keep every context's configuration -/
structure Extends (env : Env) (p p' : Proc) : Prop where
  inv : Inv env p'
  heap : ∃ ext, p'.heap = p.heap ++ ext
  ctxs : ∀ (ci : Nat) (ctx : Ctx), p.ctxs[ci]? = some ctx → ∃ ctx' : Ctx, p'.ctxs[ci]? = some ctx' ∧ ctx'.sections = ctx.sections

theorem Extends.refl {env : Env} {p : Proc} (hi : Inv env p) : Extends env p p :=
  ⟨hi, ⟨[], by simp⟩, fun _ ctx h => ⟨ctx, h, rfl⟩⟩

theorem Extends.trans {env : Env} {p q r : Proc} (h1 : Extends env p q) (h2 : Extends env q r) : Extends env p r := by
  refine ⟨h2.inv, ?_, ?_⟩
  · obtain ⟨e1, he1⟩ := h1.heap
    obtain ⟨e2, he2⟩ := h2.heap
    exact ⟨e1 ++ e2, by rw [he2, he1, List.append_assoc]⟩
  · intro ci ctx hc
    obtain ⟨c1, hc1, hs1⟩ := h1.ctxs ci ctx hc
    obtain ⟨c2, hc2, hs2⟩ := h2.ctxs ci c1 hc1
    exact ⟨c2, hc2, hs2.trans hs1⟩

/-- `cached_property`: the encoder handed out shows, through the heap afterwards, exactly what the section assembles to
(on the heap before) — whether it was cached or built by this call; a failure is `assemble`'s failure. -/
theorem getEncoder_spec {env : Env} {p : Proc} (hi : Inv env p) {ci : Nat} {ctx : Ctx} (hc : p.ctxs[ci]? = some ctx)
    {lang : Str} {sec : Section} {lc : LangCode} (hs : aget ctx.sections lang = some sec) (hl : env.code lang = some lc) :
    (∀ x, getEncoder env p ci ctx lang sec lc = .error x → assemble env.space env.compile p.heap sec lc = .error x) ∧
    (∀ ei p1 b, getEncoder env p ci ctx lang sec lc = .ok (ei, p1, b) →
      Extends env p p1 ∧ ∃ e, p1.encoders[ei]? = some e ∧
        assemble env.space env.compile p.heap sec lc = .ok (e.cfg env.space p1.heap)) := by
  have hmem : ctx ∈ p.ctxs := List.mem_of_getElem? hc
  unfold getEncoder
  cases hb : aget ctx.encs lang with
  | some ei =>
    refine ⟨by simp, ?_⟩
    intro ei' p1 b hr
    simp only [Except.ok.injEq, Prod.mk.injEq] at hr
    obtain ⟨rfl, rfl, rfl⟩ := hr
    obtain ⟨sec', lc', e, h1, h2, h3, h4⟩ := hi.built ctx hmem lang ei hb
    rw [hs] at h1; cases h1
    rw [hl] at h2; cases h2
    exact ⟨Extends.refl hi, e, h3, h4⟩
  | none =>
    simp only
    cases hn : newEncoder env.compile p.heap sec lc with
    | error x =>
      refine ⟨?_, by simp⟩
      intro y hy
      cases hy
      exact newEncoder_error hn
    | ok r =>
      obtain ⟨enc, h'⟩ := r
      refine ⟨by simp, ?_⟩
      intro ei p1 b hr
      simp only [Except.ok.injEq, Prod.mk.injEq] at hr
      obtain ⟨rfl, rfl, rfl⟩ := hr
      obtain ⟨ext, rfl, hlt⟩ := newEncoder_frame hn
      have hia := hi.append ext
      have hcfg : assemble env.space env.compile p.heap sec lc = .ok (enc.cfg env.space (p.heap ++ ext)) := newEncoder_cfg hn
      refine ⟨⟨⟨?_, ?_, ?_, ?_⟩, ⟨ext, rfl⟩, ?_⟩, enc, by simp, hcfg⟩
      · -- sections
        intro c hcm lang' sec' hs'
        simp only at hcm
        rcases List.mem_or_eq_of_mem_set hcm with hcm | rfl
        · exact hia.secs c hcm lang' sec' hs'
        · exact hia.secs ctx hmem lang' sec' hs'
      · -- encoders
        intro e he
        simp only [List.mem_append, List.mem_singleton] at he
        rcases he with he | rfl
        · exact hia.encs e he
        · exact hlt
      · -- cached encoders
        intro c hcm lang' ei' hb'
        simp only at hcm
        have hold : ∀ c0 ∈ p.ctxs, ∀ ei0, aget c0.encs lang' = some ei0 →
            ∃ sec lc e, aget c0.sections lang' = some sec ∧ env.code lang' = some lc ∧
              (p.encoders ++ [enc])[ei0]? = some e ∧
              assemble env.space env.compile (p.heap ++ ext) sec lc = .ok (e.cfg env.space (p.heap ++ ext)) := by
          intro c0 hc0 ei0 hb0
          obtain ⟨sec0, lc0, e0, g1, g2, g3, g4⟩ := hia.built c0 hc0 lang' ei0 hb0
          refine ⟨sec0, lc0, e0, g1, g2, ?_, g4⟩
          have hlt0 : ei0 < p.encoders.length := by
            rcases Nat.lt_or_ge ei0 p.encoders.length with h | h
            · exact h
            · rw [List.getElem?_eq_none h] at g3; cases g3
          rw [List.getElem?_append_left hlt0]
          exact g3
        rcases List.mem_or_eq_of_mem_set hcm with hcm | rfl
        · exact hold c hcm ei' hb'
        · simp only at hb'
          by_cases hlang : lang' = lang
          · subst hlang
            rw [aget_dset_same] at hb'
            cases hb'
            refine ⟨sec, lc, enc, hs, hl, by simp, ?_⟩
            rw [assemble_append _ _ _ _ _ _ (hi.secs ctx hmem lang' sec hs)]
            exact hcfg
          · rw [aget_dset_other _ _ _ _ hlang] at hb'
            exact hold ctx hmem ei' hb'
      · -- lru
        intro ent hent
        obtain ⟨e, g1, g2⟩ := hia.cache ent hent
        refine ⟨e, ?_, g2⟩
        have hlt0 : ent.1.1 < p.encoders.length := by
          rcases Nat.lt_or_ge ent.1.1 p.encoders.length with h | h
          · exact h
          · rw [List.getElem?_eq_none h] at g1; cases g1
        simp only
        rw [List.getElem?_append_left hlt0]
        exact g1
      · -- contexts keep their configuration
        intro cj c hcj
        simp only
        by_cases hij : ci = cj
        · subst hij
          rw [hc] at hcj; cases hcj
          have hlen : ci < p.ctxs.length := by
            rcases Nat.lt_or_ge ci p.ctxs.length with h | h
            · exact h
            · rw [List.getElem?_eq_none h] at hc; cases hc
          exact ⟨{ ctx with encs := dset ctx.encs lang p.encoders.length }, by simp [List.getElem?_set_self hlen], rfl⟩
        · exact ⟨c, by simp [List.getElem?_set_ne hij, hcj], rfl⟩


/-! ### the specification is stable; `use` meets it -/

theorem pureAnswer_append (env : Env) (h ext : Heap) (secs : List (Str × Section)) (lang : Str) (inst : Inst) (ty : Str)
    (hwf : ∀ sec, aget secs lang = some sec → secWf h.length sec = true) :
    pureAnswer env (h ++ ext) secs lang inst ty = pureAnswer env h secs lang inst ty := by
  unfold pureAnswer
  cases hs : aget secs lang with
  | none => rfl
  | some sec =>
    cases env.code lang with
    | none => rfl
    | some lc =>
      simp only
      rw [assemble_append _ _ _ _ _ _ (hwf sec hs)]

theorem use_spec {env : Env} {p : Proc} (hi : Inv env p) (ci : Nat) (lang : Str) (inst : Inst) (ty : Str) :
    Extends env p (use env p ci lang inst ty).1 ∧
    ∀ ctx, p.ctxs[ci]? = some ctx →
      (use env p ci lang inst ty).2.result = pureAnswer env p.heap ctx.sections lang inst ty := by
  unfold use
  cases hc : p.ctxs[ci]? with
  | none => exact ⟨Extends.refl hi, by simp⟩
  | some ctx =>
    simp only
    cases hs : aget ctx.sections lang with
    | none =>
      refine ⟨Extends.refl hi, ?_⟩
      intro c hcc; cases hcc
      simp [pureAnswer, hs]
    | some sec =>
      cases hl : env.code lang with
      | none =>
        refine ⟨Extends.refl hi, ?_⟩
        intro c hcc; cases hcc
        simp [pureAnswer, hs, hl]
      | some lc =>
        simp only
        cases hst : lc.strops with
        | false =>
          refine ⟨by simpa using Extends.refl hi, ?_⟩
          intro c hcc; cases hcc
          simp [pureAnswer, hs, hl, hst]
        | true =>
          simp only [Bool.not_true, Bool.false_eq_true, ↓reduceIte]
          have hg := getEncoder_spec hi hc hs hl
          cases hge : getEncoder env p ci ctx lang sec lc with
          | error x =>
            refine ⟨Extends.refl hi, ?_⟩
            intro c hcc; cases hcc
            simp [pureAnswer, hs, hl, hst, hg.1 x hge]
          | ok r =>
            obtain ⟨ei, p1, b⟩ := r
            obtain ⟨hext, e, he, hasm⟩ := hg.2 ei p1 b hge
            simp only [he]
            obtain ⟨hres, hinv2, hheap, hctxs, hencs⟩ := cachedStrop_spec hext.inv he (rawName inst) ty
            have hext2 : Extends env p (cachedStrop env p1 ei e (rawName inst) ty).1 := by
              refine ⟨hinv2, ?_, ?_⟩
              · rw [hheap]; exact hext.heap
              · rw [hctxs]; exact hext.ctxs
            have hans : pureAnswer env p.heap ctx.sections lang inst ty =
                (match strop (e.cfg env.space p1.heap) (rawName inst) ty with
                 | .error x => .error (.strop x)
                 | .ok r => .ok r) := by
              simp [pureAnswer, hs, hl, hst, hasm]
              cases strop (e.cfg env.space p1.heap) (rawName inst) ty <;> rfl
            generalize hcs : cachedStrop env p1 ei e (rawName inst) ty = res at hres hext2
            obtain ⟨p2, r2, hit⟩ := res
            simp only at hres hext2
            cases r2 with
            | ok r =>
              refine ⟨hext2, ?_⟩
              intro c hcc; cases hcc
              rw [hans, ← hres]
            | error x =>
              refine ⟨hext2, ?_⟩
              intro c hcc; cases hcc
              rw [hans, ← hres]

/-! ### `load` -/

theorem all_lt_mono {n m : Nat} {l : List Nat} (hnm : n ≤ m) (h : l.all (· < n) = true) : l.all (· < m) = true := by
  simp only [List.all_eq_true, decide_eq_true_eq] at h ⊢
  intro a ha
  exact Nat.lt_of_lt_of_le (h a ha) hnm

theorem secWf_cons {n : Nat} {k : Str} {v : CVal} {sec : Section} :
    secWf n ((k, v) :: sec) = ((valRefs v).all (· < n) && secWf n sec) := by
  simp [secWf, secRefs, List.all_append]

theorem secWf_dset {n : Nat} {sec : Section} {k : Str} {v : CVal} (hs : secWf n sec = true)
    (hv : (valRefs v).all (· < n) = true) : secWf n (dset sec k v) = true := by
  induction sec with
  | nil => simp [dset, secWf_cons, hv, secWf, secRefs]
  | cons e rest ih =>
    obtain ⟨k', v'⟩ := e
    rw [secWf_cons, Bool.and_eq_true] at hs
    by_cases hk : k' = k
    · simp [dset, hk, secWf_cons, hv, hs.2]
    · simp [dset, hk, secWf_cons, hs.1, ih hs.2]

theorem entriesWf_dset {n : Nat} {es : List (Str × Leaf)} {k : Str} {l : Leaf} (hs : entriesWf n es = true)
    (hv : (leafRefs l).all (· < n) = true) : entriesWf n (dset es k l) = true := by
  induction es with
  | nil => simp [dset, entriesWf_cons, hv, entriesWf]
  | cons e rest ih =>
    obtain ⟨k', v'⟩ := e
    rw [entriesWf_cons, Bool.and_eq_true] at hs
    by_cases hk : k' = k
    · simp [dset, hk, entriesWf_cons, hv, hs.2]
    · simp [dset, hk, entriesWf_cons, hs.1, ih hs.2]

theorem entriesWf_mono {n m : Nat} {es : List (Str × Leaf)} (hnm : n ≤ m) (h : entriesWf n es = true) :
    entriesWf m es = true := all_lt_mono hnm h

theorem mergeEntries_wf {n : Nat} (target src : List (Str × Leaf)) (ht : entriesWf n target = true)
    (hs : entriesWf n src = true) : entriesWf n (mergeEntries target src) = true := by
  induction src generalizing target with
  | nil => simpa [mergeEntries] using ht
  | cons e rest ih =>
    obtain ⟨k, l⟩ := e
    rw [entriesWf_cons, Bool.and_eq_true] at hs
    simp only [mergeEntries]
    exact ih _ (entriesWf_dset ht hs.1) hs.2

theorem allocEntries_spec (h : Heap) (es : List (Str × List Str)) :
    ∃ ext, (allocEntries h es).1 = h ++ ext ∧ entriesWf (allocEntries h es).1.length (allocEntries h es).2 = true := by
  induction es generalizing h with
  | nil => exact ⟨[], by simp [allocEntries], by simp [allocEntries, entriesWf]⟩
  | cons e rest ih =>
    obtain ⟨k, xs⟩ := e
    obtain ⟨ext, h1, h2⟩ := ih (h ++ [xs])
    refine ⟨[xs] ++ ext, by simp [allocEntries, h1], ?_⟩
    simp only [allocEntries, entriesWf_cons, Bool.and_eq_true]
    refine ⟨?_, h2⟩
    simp [leafRefs, h1]

theorem applyOverride_spec (h : Heap) (sec : Section) (k : Str) (v : OVal) (hwf : secWf h.length sec = true) :
    ∃ ext, (applyOverride h sec k v).1 = h ++ ext ∧
      secWf (applyOverride h sec k v).1.length (applyOverride h sec k v).2 = true := by
  cases v with
  | str s => exact ⟨[], by simp [applyOverride], secWf_dset hwf (by simp [valRefs, leafRefs])⟩
  | bool b => exact ⟨[], by simp [applyOverride], secWf_dset hwf (by simp [valRefs, leafRefs])⟩
  | num n => exact ⟨[], by simp [applyOverride], secWf_dset hwf (by simp [valRefs, leafRefs])⟩
  | list xs =>
    refine ⟨[xs], by simp [applyOverride], ?_⟩
    simp only [applyOverride]
    exact secWf_dset (secWf_mono (by simp) hwf) (by simp [valRefs, leafRefs])
  | dict es =>
    obtain ⟨ext, h1, h2⟩ := allocEntries_spec h es
    have hle : h.length ≤ (allocEntries h es).1.length := by rw [h1]; simp
    have hwf' := secWf_mono hle hwf
    simp only [applyOverride]
    cases hg : aget sec k with
    | none =>
      exact ⟨ext, h1, secWf_dset hwf' (by simpa [valRefs, entriesWf] using mergeEntries_wf [] _ (by simp [entriesWf]) h2)⟩
    | some cv =>
      cases cv with
      | leaf l =>
        exact ⟨ext, h1, secWf_dset hwf' (by simpa [valRefs, entriesWf] using mergeEntries_wf [] _ (by simp [entriesWf]) h2)⟩
      | dict old =>
        have hold : entriesWf (allocEntries h es).1.length old = true := by
          have := secWf_val hwf' hg
          simpa [valRefs, entriesWf] using this
        exact ⟨ext, h1, secWf_dset hwf' (by simpa [valRefs, entriesWf] using mergeEntries_wf old _ hold h2)⟩

theorem applyOverrides_spec (h : Heap) (sec : Section) (ov : List (Str × OVal)) (hwf : secWf h.length sec = true) :
    ∃ ext, (applyOverrides h sec ov).1 = h ++ ext ∧
      secWf (applyOverrides h sec ov).1.length (applyOverrides h sec ov).2 = true := by
  induction ov generalizing h sec with
  | nil => exact ⟨[], by simp [applyOverrides], by simpa [applyOverrides] using hwf⟩
  | cons e rest ih =>
    obtain ⟨k, v⟩ := e
    obtain ⟨e1, g1, g2⟩ := applyOverride_spec h sec k v hwf
    obtain ⟨e2, g3, g4⟩ := ih _ _ g2
    refine ⟨e1 ++ e2, ?_, ?_⟩
    · simp only [applyOverrides]
      rw [g3, g1, List.append_assoc]
    · simpa [applyOverrides] using g4

theorem relocLeaf_refs (off n : Nat) (l : Leaf) (h : (leafRefs l).all (· < n) = true) :
    (leafRefs (relocLeaf off l)).all (· < off + n) = true := by
  cases l <;> simp [relocLeaf, leafRefs] at h ⊢
  omega

theorem relocVal_refs (off n : Nat) (v : CVal) (h : (valRefs v).all (· < n) = true) :
    (valRefs (relocVal off v)).all (· < off + n) = true := by
  cases v with
  | leaf l => exact relocLeaf_refs off n l h
  | dict es =>
    simp only [valRefs, relocVal, List.all_eq_true, List.mem_flatMap, List.mem_map, decide_eq_true_eq] at h ⊢
    rintro a ⟨e', ⟨e, he, rfl⟩, ha⟩
    have hl : (leafRefs e.2).all (· < n) = true := by
      simp only [List.all_eq_true, decide_eq_true_eq]
      intro b hb
      exact h b ⟨e, he, hb⟩
    have := relocLeaf_refs off n e.2 hl
    simp only [List.all_eq_true, decide_eq_true_eq] at this
    exact this a ha

theorem relocSec_wf (off n : Nat) (sec : Section) (h : secWf n sec = true) : secWf (off + n) (relocSec off sec) = true := by
  induction sec with
  | nil => simp [relocSec, secWf, secRefs]
  | cons e rest ih =>
    obtain ⟨k, v⟩ := e
    rw [secWf_cons, Bool.and_eq_true] at h
    have : relocSec off ((k, v) :: rest) = (k, relocVal off v) :: relocSec off rest := by simp [relocSec]
    rw [this, secWf_cons, Bool.and_eq_true]
    exact ⟨relocVal_refs off n v h.1, ih h.2⟩

theorem aget_map_reloc (off : Nat) (secs : List (Str × Section)) (k : Str) :
    aget (secs.map (fun e => (e.1, relocSec off e.2))) k = (aget secs k).map (relocSec off) := by
  induction secs with
  | nil => simp [aget]
  | cons e rest ih =>
    obtain ⟨k', v⟩ := e
    by_cases hk : k' = k
    · simp [aget, hk]
    · simp [aget, hk, ih]

theorem docWf_get {d : Doc} (hd : docWf d = true) {k : Str} {sec : Section} (h : aget d.sections k = some sec) :
    secWf d.cells.length sec = true := by
  have hm := aget_mem h
  simp only [docWf, List.all_eq_true] at hd
  exact hd _ hm

/-- a new context extends the process: fresh objects appended, nothing existing touched -/
theorem load_spec {env : Env} (hd : docWf env.doc = true) {p p' : Proc} (hi : Inv env p) (target : Str)
    (ov : List (Str × OVal)) (hl : load env p target ov = .ok p') : Extends env p p' := by
  unfold load at hl
  simp only at hl
  cases hg : aget (env.doc.sections.map (fun e => (e.1, relocSec p.heap.length e.2))) target with
  | none => simp [hg] at hl
  | some tsec =>
    simp only [hg, Except.ok.injEq] at hl
    subst hl
    have hrel : ∀ k sec, aget (env.doc.sections.map (fun e => (e.1, relocSec p.heap.length e.2))) k = some sec →
        secWf (p.heap ++ env.doc.cells).length sec = true := by
      intro k sec hk
      rw [aget_map_reloc] at hk
      cases hk0 : aget env.doc.sections k with
      | none => simp [hk0] at hk
      | some s0 =>
        simp only [hk0, Option.map_some, Option.some.injEq] at hk
        subst hk
        simpa using relocSec_wf p.heap.length _ s0 (docWf_get hd hk0)
    obtain ⟨ext, g1, g2⟩ := applyOverrides_spec (p.heap ++ env.doc.cells) tsec ov (hrel target tsec hg)
    have hheap : (applyOverrides (p.heap ++ env.doc.cells) tsec ov).1 = p.heap ++ (env.doc.cells ++ ext) := by
      rw [g1, List.append_assoc]
    have hia := hi.append (env.doc.cells ++ ext)
    refine ⟨⟨?_, ?_, ?_, ?_⟩, ⟨env.doc.cells ++ ext, hheap⟩, ?_⟩
    · intro c hcm lang sec hs
      simp only [List.mem_append, List.mem_singleton] at hcm
      simp only [hheap]
      rcases hcm with hcm | rfl
      · exact hia.secs c hcm lang sec hs
      · simp only at hs
        by_cases hlang : lang = target
        · subst hlang
          rw [aget_dset_same] at hs
          cases hs
          simpa [hheap] using g2
        · rw [aget_dset_other _ _ _ _ hlang] at hs
          exact secWf_mono (by simp) (hrel lang sec hs)
    · intro e he
      simp only [hheap]
      exact hia.encs e he
    · intro c hcm lang ei hb
      simp only [List.mem_append, List.mem_singleton] at hcm
      simp only [hheap]
      rcases hcm with hcm | rfl
      · exact hia.built c hcm lang ei hb
      · simp [aget] at hb
    · intro ent hent
      simp only [hheap]
      exact hia.cache ent hent
    · intro ci c hc
      have hlen : ci < p.ctxs.length := by
        rcases Nat.lt_or_ge ci p.ctxs.length with h | h
        · exact h
        · rw [List.getElem?_eq_none h] at hc; cases hc
      exact ⟨c, by simp [List.getElem?_append_left hlen, hc], rfl⟩

theorem step_spec {env : Env} (hd : docWf env.doc = true) {p : Proc} (hi : Inv env p) (op : Op) :
    Extends env p (step env p op) := by
  cases op with
  | load t ov =>
    simp only [step]
    cases hl : load env p t ov with
    | ok p' => exact load_spec hd hi t ov hl
    | error e => exact Extends.refl hi
  | use ci lang inst ty => exact (use_spec hi ci lang inst ty).1

theorem run_spec {env : Env} (hd : docWf env.doc = true) (ops : List Op) {p : Proc} (hi : Inv env p) :
    Extends env p (run env p ops) := by
  induction ops generalizing p with
  | nil => exact Extends.refl hi
  | cons op rest ih =>
    have h1 := step_spec hd hi op
    exact h1.trans (ih h1.inv)


/-! ### the wrapper: `str()` of a non-string instance is never empty -/

theorem decCore_ne_nil (fuel n : Nat) (acc : Str) (h : acc ≠ []) : decCore fuel n acc ≠ [] := by
  induction fuel generalizing n acc with
  | zero => simpa [decCore] using h
  | succ f ih =>
    simp only [decCore]
    split
    · simp
    · exact ih _ _ (by simp)

theorem decimal_ne_nil (n : Nat) : decimal n ≠ [] := by
  unfold decimal
  simp only [decCore]
  split
  · simp
  · exact decCore_ne_nil _ _ _ (by simp)

theorem atomStr_ne_nil (a : Atom) (h : ∀ s, a ≠ .text s) : atomStr a ≠ [] := by
  cases a with
  | text s => exact absurd rfl (h s)
  | int neg n =>
    simp only [atomStr]
    split
    · simp
    · exact decimal_ne_nil n
  | bool b => cases b <;> simp [atomStr, sTrue, sFalse]
  | none => simp [atomStr, sNone]

/-! ### an id type without entries of its own is treated with the `all` entries only -/

theorem lookup_allOnly_patterns (cfg : Cfg) (k : Str) (hk : k = tyAll ∨ lookup cfg.patterns k = none) :
    lookup (allOnly cfg).patterns k = lookup cfg.patterns k := by
  simp only [allOnly]
  cases ha : lookup cfg.patterns tyAll with
  | none =>
    rcases hk with rfl | hk
    · simp [lookup, ha]
    · simp [lookup, hk]
  | some v =>
    rcases hk with rfl | hk
    · simp [lookup, ha]
    · by_cases hka : tyAll = k
      · subst hka; rw [ha] at hk; cases hk
      · simp [lookup, hka, hk]

theorem lookup_allOnly_rules (cfg : Cfg) (k : Str) (hk : k = tyAll ∨ lookup cfg.rules k = none) :
    lookup (allOnly cfg).rules k = lookup cfg.rules k := by
  simp only [allOnly]
  cases ha : lookup cfg.rules tyAll with
  | none =>
    rcases hk with rfl | hk
    · simp [lookup, ha]
    · simp [lookup, hk]
  | some v =>
    rcases hk with rfl | hk
    · simp [lookup, ha]
    · by_cases hka : tyAll = k
      · subst hka; rw [ha] at hk; cases hk
      · simp [lookup, hka, hk]

theorem strop_allOnly (cfg : Cfg) (tok ty : Str) (hu : unknownType cfg ty = true) :
    strop (allOnly cfg) tok ty = strop cfg tok ty := by
  simp only [unknownType, Bool.and_eq_true, Option.isNone_iff_eq_none] at hu
  have hp1 : ∀ s, patDry (allOnly cfg) tyAll s = patDry cfg tyAll s := fun s => by
    simp only [patDry, lookup_allOnly_patterns cfg tyAll (Or.inl rfl)]
  have hp2 : ∀ s, patDry (allOnly cfg) (lowerAscii ty) s = patDry cfg (lowerAscii ty) s := fun s => by
    simp only [patDry, lookup_allOnly_patterns cfg _ (Or.inr hu.1)]
  have hd1 : ∀ s, encodeDry (allOnly cfg) tyAll s = encodeDry cfg tyAll s := fun s => by
    simp only [encodeDry, lookup_allOnly_rules cfg tyAll (Or.inl rfl)]
  have hd2 : ∀ s, encodeDry (allOnly cfg) (lowerAscii ty) s = encodeDry cfg (lowerAscii ty) s := fun s => by
    simp only [encodeDry, lookup_allOnly_rules cfg _ (Or.inr hu.2)]
  have hf : encFilter (allOnly cfg) = encFilter cfg := rfl
  have hr1 : ∀ s, encodeReal (allOnly cfg) tyAll s = encodeReal cfg tyAll s := fun s => by
    simp only [encodeReal, lookup_allOnly_rules cfg tyAll (Or.inl rfl), hf]
  have hr2 : ∀ s, encodeReal (allOnly cfg) (lowerAscii ty) s = encodeReal cfg (lowerAscii ty) s := fun s => by
    simp only [encodeReal, lookup_allOnly_rules cfg _ (Or.inr hu.2), hf]
  have hk : ∀ s, isReserved (allOnly cfg) s = isReserved cfg s := fun _ => rfl
  have hw : ∀ s, wrap (allOnly cfg) s = wrap cfg s := fun _ => rfl
  have hh1 : (allOnly cfg).stropHandler = cfg.stropHandler := rfl
  have hh2 : (allOnly cfg).encHandler = cfg.encHandler := rfl
  have hps1 : ∀ s, patStrop (allOnly cfg) tyAll s = patStrop cfg tyAll s := fun s => by
    unfold patStrop; rw [hp1]; rfl
  have hps2 : ∀ s, patStrop (allOnly cfg) (lowerAscii ty) s = patStrop cfg (lowerAscii ty) s := fun s => by
    unfold patStrop; rw [hp2]; rfl
  have hks : ∀ s, kwStrop (allOnly cfg) s = kwStrop cfg s := fun _ => rfl
  have hrp : ∀ s, realPipeline (allOnly cfg) (lowerAscii ty) s = realPipeline cfg (lowerAscii ty) s := fun s => by
    unfold realPipeline
    simp only [hr1, hr2, hks, hps1, hps2]
  have hb : stropTraceBeforeFix (allOnly cfg) tok ty = stropTraceBeforeFix cfg tok ty := by
    unfold stropTraceBeforeFix
    simp only [hrp, hp1, hp2, hd1, hd2, hk, hh1, hh2]
  have hv : ∀ s, verify (allOnly cfg) (lowerAscii ty) s = verify cfg (lowerAscii ty) s := fun s => by
    unfold verify
    simp only [hp1, hp2, hd1, hd2, hk]
  have ht : stropTrace (allOnly cfg) tok ty = stropTrace cfg tok ty := by
    unfold stropTrace
    simp only [hb, hv]
  unfold strop
  rw [ht]


/-! ### building several encoders one after the other -/

theorem buildAll_append (compile : Str → Option Re) (h : Heap) (l : List (Section × LangCode)) :
    ∃ ext, buildAll compile h l = h ++ ext := by
  induction l generalizing h with
  | nil => exact ⟨[], by simp [buildAll]⟩
  | cons e rest ih =>
    obtain ⟨sec, lc⟩ := e
    simp only [buildAll]
    cases hn : newEncoder compile h sec lc with
    | error x => exact ih h
    | ok r =>
      obtain ⟨enc, h'⟩ := r
      obtain ⟨e1, rfl, _⟩ := newEncoder_frame hn
      obtain ⟨e2, he2⟩ := ih (h ++ e1)
      exact ⟨e1 ++ e2, by simp only; rw [he2, List.append_assoc]⟩

/-- `strop` raises `ValueError` for the id type `all` only -/
theorem strop_valueError {cfg : Cfg} {tok ty : Str} (h : strop cfg tok ty = .error .valueError) : lowerAscii ty = tyAll := by
  by_cases hty : lowerAscii ty = tyAll
  · exact hty
  · exfalso
    have hrec : ∀ (bad : Bool) (hd : Handler) (pe : Err) (s : Str) (f : Bool), pe ≠ .valueError →
        recheck bad hd pe s f ≠ .error .valueError := by
      intro bad hd pe s f hpe
      unfold recheck
      cases bad with
      | false => simp
      | true =>
        simp only [↓reduceIte]
        unfold runHandler
        cases hd with
        | none => simpa using fun hx => hpe hx
        | cStyle =>
          cases cHandler s with
          | none => simpa using fun hx => hpe hx
          | some r => simp
    have hb : stropTraceBeforeFix cfg tok ty ≠ .error .valueError := by
      unfold stropTraceBeforeFix
      simp only [hty, ↓reduceIte]
      intro hx
      split at hx
      · rename_i e he
        cases hx
        exact hrec _ _ _ _ _ (by simp) he
      · split at hx
        · rename_i e he
          cases hx
          exact hrec _ _ _ _ _ (by simp) he
        · exact hrec _ _ _ _ _ (by simp) hx
    unfold strop stropTrace at h
    split at h
    · rename_i e he
      simp only [Except.map] at h
      cases h
      exact hb he
    · simp [Except.map] at h
    · rename_i r hr
      split at h
      · simp [Except.map] at h
      · rename_i e he
        simp only [Except.map, Except.error.injEq] at h
        subst h
        unfold verify at he
        split at he
        · cases he
        · split at he
          · cases he
          · split at he <;> cases he

/-! ### relocation: a context created late in a process is the context of a fresh process, shifted -/

def relocEntries (off : Nat) (es : List (Str × Leaf)) : List (Str × Leaf) := es.map (fun e => (e.1, relocLeaf off e.2))

theorem relocVal_dict (off : Nat) (es : List (Str × Leaf)) : relocVal off (.dict es) = .dict (relocEntries off es) := rfl

theorem aget_relocSec (off : Nat) (sec : Section) (k : Str) : aget (relocSec off sec) k = (aget sec k).map (relocVal off) := by
  induction sec with
  | nil => simp [relocSec, aget]
  | cons e rest ih =>
    obtain ⟨k', v⟩ := e
    have : relocSec off ((k', v) :: rest) = (k', relocVal off v) :: relocSec off rest := by simp [relocSec]
    rw [this]
    by_cases hk : k' = k
    · simp [aget, hk]
    · simp [aget, hk, ih]

theorem leafStr_reloc (off : Nat) (l : Leaf) : leafStr (relocLeaf off l) = leafStr l := by
  cases l <;> rfl

theorem getStr_reloc (off : Nat) (sec : Section) (k : Str) (d : Option Str) : getStr (relocSec off sec) k d = getStr sec k d := by
  unfold getStr
  rw [aget_relocSec]
  cases aget sec k with
  | none => rfl
  | some v =>
    cases v with
    | leaf l => simp [relocVal, leafStr_reloc]
    | dict es => simp [relocVal]

theorem getBool_reloc (off : Nat) (sec : Section) (k : Str) (d : Bool) : getBool (relocSec off sec) k d = getBool sec k d := by
  unfold getBool
  rw [getStr_reloc]

theorem readScalars_reloc (off : Nat) (sec : Section) : readScalars (relocSec off sec) = readScalars sec := by
  unfold readScalars
  simp only [getStr_reloc, getBool_reloc]

theorem getList_reloc (off : Nat) (sec : Section) (k : Str) : getList (relocSec off sec) k = (getList sec k).map (· + off) := by
  unfold getList
  rw [aget_relocSec]
  cases aget sec k with
  | none => rfl
  | some v =>
    cases v with
    | dict es => simp [relocVal]
    | leaf l => cases l <;> simp [relocVal, relocLeaf]

theorem getDict_reloc (off : Nat) (sec : Section) (k : Str) : getDict (relocSec off sec) k = relocEntries off (getDict sec k) := by
  unfold getDict
  rw [aget_relocSec]
  cases aget sec k with
  | none => simp [relocEntries]
  | some v =>
    cases v with
    | dict es => simp [relocVal, relocEntries]
    | leaf l => simp [relocVal, relocEntries]

theorem get_shift (pre h : Heap) (a : Nat) : (pre ++ h)[a + pre.length]? = h[a]? := by
  rw [List.getElem?_append_right (by omega)]
  simp

theorem buildMap_reloc (compile : Str → Option Re) (pre h : Heap) (es : List (Str × Leaf)) (m : List (Str × List Re))
    (anyl : List Re) :
    buildMap compile (pre ++ h) (relocEntries pre.length es) m anyl = buildMap compile h es m anyl := by
  induction es generalizing m anyl with
  | nil => simp [relocEntries, buildMap]
  | cons e rest ih =>
    obtain ⟨k, l⟩ := e
    have hc : relocEntries pre.length ((k, l) :: rest) = (k, relocLeaf pre.length l) :: relocEntries pre.length rest := by
      simp [relocEntries]
    rw [hc]
    cases l with
    | list a =>
      simp only [relocLeaf, buildMap, get_shift]
      cases h[a]? with
      | none => rfl
      | some srcs =>
        simp only
        cases compileAll compile srcs with
        | none => rfl
        | some ps =>
          simp only
          split
          · rfl
          · exact ih _ _
    | str s => simp [relocLeaf, buildMap]
    | null => simp [relocLeaf, buildMap]
    | bool b => simp [relocLeaf, buildMap]
    | num n => simp [relocLeaf, buildMap]
    | other => simp [relocLeaf, buildMap]

theorem resolvedReserved_reloc (pre h : Heap) (sec : Section) (add : Option (List Str)) :
    resolvedReserved (pre ++ h) (relocSec pre.length sec) add = resolvedReserved h sec add := by
  unfold resolvedReserved
  rw [getList_reloc]
  cases getList sec kReserved with
  | none => rfl
  | some a => simp only [Option.map_some, get_shift]

/-- The tables do not depend on where in the heap the configuration's list objects live. -/
theorem assemble_reloc (space : List (Nat × Nat)) (compile : Str → Option Re) (pre h : Heap) (sec : Section) (lc : LangCode) :
    assemble space compile (pre ++ h) (relocSec pre.length sec) lc = assemble space compile h sec lc := by
  rw [assemble_eq_closed, assemble_eq_closed]
  unfold assembleClosed
  rw [getDict_reloc, getDict_reloc, buildMap_reloc, buildMap_reloc, resolvedReserved_reloc, readScalars_reloc]

theorem dset_map {α β : Type} (f : α → β) (m : List (Str × α)) (k : Str) (v : α) :
    (dset m k v).map (fun e => (e.1, f e.2)) = dset (m.map (fun e => (e.1, f e.2))) k (f v) := by
  induction m with
  | nil => simp [dset]
  | cons e rest ih =>
    obtain ⟨k', v'⟩ := e
    by_cases hk : k' = k
    · simp [dset, hk]
    · simp [dset, hk, ih]

theorem relocSec_dset (off : Nat) (sec : Section) (k : Str) (v : CVal) :
    relocSec off (dset sec k v) = dset (relocSec off sec) k (relocVal off v) := by
  unfold relocSec
  exact dset_map (relocVal off) sec k v

theorem relocEntries_dset (off : Nat) (es : List (Str × Leaf)) (k : Str) (l : Leaf) :
    relocEntries off (dset es k l) = dset (relocEntries off es) k (relocLeaf off l) := by
  unfold relocEntries
  exact dset_map (relocLeaf off) es k l

theorem mergeEntries_reloc (off : Nat) (target src : List (Str × Leaf)) :
    relocEntries off (mergeEntries target src) = mergeEntries (relocEntries off target) (relocEntries off src) := by
  induction src generalizing target with
  | nil => simp [mergeEntries, relocEntries]
  | cons e rest ih =>
    obtain ⟨k, l⟩ := e
    have hc : relocEntries off ((k, l) :: rest) = (k, relocLeaf off l) :: relocEntries off rest := by simp [relocEntries]
    rw [hc]
    simp only [mergeEntries]
    rw [ih, relocEntries_dset]

theorem allocEntries_shift (pre h : Heap) (es : List (Str × List Str)) :
    allocEntries (pre ++ h) es = (pre ++ (allocEntries h es).1, relocEntries pre.length (allocEntries h es).2) := by
  induction es generalizing h with
  | nil => simp [allocEntries, relocEntries]
  | cons e rest ih =>
    obtain ⟨k, xs⟩ := e
    simp only [allocEntries]
    rw [List.append_assoc, ih (h ++ [xs])]
    simp [relocEntries, relocLeaf, Nat.add_comm]

theorem applyOverride_shift (pre h : Heap) (sec : Section) (k : Str) (v : OVal) :
    applyOverride (pre ++ h) (relocSec pre.length sec) k v =
      (pre ++ (applyOverride h sec k v).1, relocSec pre.length (applyOverride h sec k v).2) := by
  cases v with
  | str s => simp [applyOverride, relocSec_dset, relocVal, relocLeaf]
  | bool b => simp [applyOverride, relocSec_dset, relocVal, relocLeaf]
  | num n => simp [applyOverride, relocSec_dset, relocVal, relocLeaf]
  | list xs => simp [applyOverride, relocSec_dset, relocVal, relocLeaf, Nat.add_comm]
  | dict es =>
    simp only [applyOverride, allocEntries_shift, aget_relocSec]
    have hnil : relocEntries pre.length [] = [] := rfl
    cases aget sec k with
    | none => simp [relocSec_dset, relocVal_dict, mergeEntries_reloc, hnil]
    | some cv =>
      cases cv with
      | leaf l =>
        have hl : relocVal pre.length (.leaf l) = .leaf (relocLeaf pre.length l) := rfl
        simp [relocSec_dset, hl, relocVal_dict, mergeEntries_reloc, hnil]
      | dict old => simp [relocSec_dset, relocVal_dict, mergeEntries_reloc]

theorem applyOverrides_shift (pre h : Heap) (sec : Section) (ov : List (Str × OVal)) :
    applyOverrides (pre ++ h) (relocSec pre.length sec) ov =
      (pre ++ (applyOverrides h sec ov).1, relocSec pre.length (applyOverrides h sec ov).2) := by
  induction ov generalizing h sec with
  | nil => simp [applyOverrides]
  | cons e rest ih =>
    obtain ⟨k, v⟩ := e
    simp only [applyOverrides, applyOverride_shift]
    exact ih _ _

/-- `load` anywhere in a history = `standalone`, shifted by the size of the heap at that moment. -/
theorem load_eq_standalone (env : Env) (p : Proc) (target : Str) (ov : List (Str × OVal)) :
    (standalone env target ov = none ∧ load env p target ov = .error .keyError) ∨
    (∃ h0 s0, standalone env target ov = some (h0, s0) ∧
      load env p target ov = .ok (Proc.mk (p.heap ++ h0)
        (p.ctxs ++ [Ctx.mk (s0.map (fun e => (e.1, relocSec p.heap.length e.2))) []]) p.encoders p.lru p.hits p.misses)) := by
  unfold standalone load
  simp only [aget_map_reloc]
  cases aget env.doc.sections target with
  | none => exact Or.inl ⟨rfl, rfl⟩
  | some tsec =>
    refine Or.inr ⟨_, _, rfl, ?_⟩
    simp only [Option.map_some, applyOverrides_shift]
    rw [dset_map (relocSec p.heap.length)]

theorem pureAnswer_reloc (env : Env) (pre h : Heap) (secs : List (Str × Section)) (lang : Str) (inst : Inst) (ty : Str) :
    pureAnswer env (pre ++ h) (secs.map (fun e => (e.1, relocSec pre.length e.2))) lang inst ty =
      pureAnswer env h secs lang inst ty := by
  unfold pureAnswer
  rw [aget_map_reloc]
  cases aget secs lang with
  | none => rfl
  | some sec =>
    simp only [Option.map_some]
    cases env.code lang with
    | none => rfl
    | some lc => simp only [assemble_reloc]

end NunavutVerif.StropGlue
