import NunavutVerif.Model.ConfigHeap
/-!
Frame / separation lemmas for the object-level merge (`Model/ConfigHeap.lean`).

A *region* is a predicate on addresses.  `Closed h A`: every address of `A` is allocated in `h` and every
reference stored in its object stays in `A`.  `Frame h A h'`: `h'` differs from `h` only inside `A` and by
allocation at the end, and `A` together with the new addresses is closed again.
-/
namespace NunavutVerif.Config

variable {κ σ : Type} [DecidableEq κ]

def Closed (h : Heap κ σ) (A : Nat → Prop) : Prop :=
  ∀ a, A a → ∃ o, h[a]? = some o ∧ ∀ k b, (k, HV.ref b) ∈ o → A b

/-- addresses allocated between two heap sizes -/
def Fresh (n m : Nat) (a : Nat) : Prop := n ≤ a ∧ a < m

structure Frame (h : Heap κ σ) (A : Nat → Prop) (h' : Heap κ σ) : Prop where
  len : h.length ≤ h'.length
  same : ∀ a, a < h.length → ¬ A a → h'[a]? = h[a]?
  closed : Closed h' (fun a => A a ∨ Fresh h.length h'.length a)

omit [DecidableEq κ] in
theorem Closed.lt {h : Heap κ σ} {A : Nat → Prop} (hc : Closed h A) {a : Nat} (ha : A a) : a < h.length := by
  obtain ⟨o, ho, _⟩ := hc a ha
  exact (List.getElem?_eq_some_iff.mp ho).1

omit [DecidableEq κ] in
theorem Closed.congr {h : Heap κ σ} {A A' : Nat → Prop} (hc : Closed h A) (e : ∀ a, A a ↔ A' a) :
    Closed h A' := by
  intro a ha
  obtain ⟨o, ho, hk⟩ := hc a ((e a).mpr ha)
  exact ⟨o, ho, fun k b hb => (e b).mp (hk k b hb)⟩

omit [DecidableEq κ] in
/-- A closed region survives any change that leaves its objects alone. -/
theorem Closed.of_same {h h' : Heap κ σ} {B : Nat → Prop} (hc : Closed h B)
    (hs : ∀ a, B a → h'[a]? = h[a]?) : Closed h' B := by
  intro a ha
  obtain ⟨o, ho, hk⟩ := hc a ha
  exact ⟨o, by rw [hs a ha, ho], hk⟩

omit [DecidableEq κ] in
theorem Frame.refl {h : Heap κ σ} {A : Nat → Prop} (hc : Closed h A) : Frame h A h :=
  ⟨Nat.le_refl _, fun _ _ _ => rfl, hc.congr fun a => ⟨.inl, fun x => x.elim id fun f => absurd f.2 (by have := f.1; omega)⟩⟩

omit [DecidableEq κ] in
theorem Frame.trans {h h1 h2 : Heap κ σ} {A : Nat → Prop} (f1 : Frame h A h1)
    (f2 : Frame h1 (fun a => A a ∨ Fresh h.length h1.length a) h2) : Frame h A h2 := by
  refine ⟨Nat.le_trans f1.len f2.len, ?_, ?_⟩
  · intro a ha hna
    rw [f2.same a (Nat.lt_of_lt_of_le ha f1.len) (by
      intro hx; rcases hx with hx | hx
      · exact hna hx
      · have := hx.1; omega), f1.same a ha hna]
  · refine f2.closed.congr fun a => ?_
    have l1 := f1.len
    have l2 := f2.len
    simp only [Fresh]
    constructor
    · rintro ((h | h) | h)
      · exact .inl h
      · exact .inr ⟨h.1, by omega⟩
      · exact .inr ⟨by omega, h.2⟩
    · rintro (h | h)
      · exact .inl (.inl h)
      · by_cases hx : a < h1.length
        · exact .inl (.inr ⟨h.1, hx⟩)
        · exact .inr ⟨by omega, h.2⟩

omit [DecidableEq κ] in
/-- Everything outside the written region is untouched — in particular a disjoint closed region (a
source document, another builder's configuration). -/
theorem Frame.other {h h' : Heap κ σ} {A B : Nat → Prop} (f : Frame h A h') (hb : Closed h B)
    (hd : ∀ a, A a → B a → False) : (∀ a, B a → h'[a]? = h[a]?) ∧ Closed h' B := by
  have hs : ∀ a, B a → h'[a]? = h[a]? := fun a ha => f.same a (hb.lt ha) (fun hx => hd a hx ha)
  exact ⟨hs, hb.of_same hs⟩

omit [DecidableEq κ] in
theorem Frame.disjoint {h h' : Heap κ σ} {A B : Nat → Prop} (_f : Frame h A h') (hb : Closed h B)
    (hd : ∀ a, A a → B a → False) : ∀ a, (A a ∨ Fresh h.length h'.length a) → B a → False := by
  intro a ha hB
  rcases ha with ha | ha
  · exact hd a ha hB
  · have := hb.lt hB; have := ha.1; omega

/-! ### objects -/

theorem mem_oset : ∀ (o : Obj κ σ) (k : κ) (v : HV σ) (e : κ × HV σ), e ∈ oset o k v → e ∈ o ∨ e = (k, v)
  | [], k, v, e, h => by simp [oset] at h; exact .inr h
  | (k0, v0) :: r, k, v, e, h => by
    by_cases hk : k0 = k
    · simp only [oset, hk, if_true, List.mem_cons] at h
      rcases h with h | h
      · exact .inr h
      · exact .inl (List.mem_cons_of_mem _ h)
    · simp only [oset, hk, if_false, List.mem_cons] at h
      rcases h with h | h
      · exact .inl (h ▸ List.mem_cons_self)
      · rcases mem_oset r k v e h with h | h
        · exact .inl (List.mem_cons_of_mem _ h)
        · exact .inr h

theorem mem_assignH (o : Obj κ σ) (k : κ) (v : HV σ) (e : κ × HV σ) (h : e ∈ assignH o k v) :
    e ∈ o ∨ e = (k, v) := by
  unfold assignH at h
  split at h
  · exact mem_oset _ _ _ e h
  · exact .inl h
  · exact mem_oset _ _ _ e h

theorem oget_mem : ∀ (o : Obj κ σ) (k : κ) (v : HV σ), oget o k = some v → (k, v) ∈ o
  | [], _, _, h => by simp [oget] at h
  | (k0, v0) :: r, k, v, h => by
    by_cases hk : k0 = k
    · simp [oget, hk] at h; subst hk; subst h; exact List.mem_cons_self
    · simp [oget, hk] at h; exact List.mem_cons_of_mem _ (oget_mem r k v h)

/-! ### elementary heap updates are frames -/

omit [DecidableEq κ] in
/-- Overwriting an object of the region with one whose references stay in the region. -/
theorem Frame.set {h : Heap κ σ} {A : Nat → Prop} (hc : Closed h A) {t : Nat} (ht : A t) (o' : Obj κ σ)
    (ho' : ∀ k b, (k, HV.ref b) ∈ o' → A b) : Frame h A (h.set t o') := by
  refine ⟨by simp, ?_, ?_⟩
  · intro a _ hna
    have : t ≠ a := fun e => hna (e ▸ ht)
    simp [this]
  · intro a ha
    rcases ha with ha | ha
    · by_cases e : t = a
      · subst e
        exact ⟨o', by simp [hc.lt ht], fun k b hb => .inl (ho' k b hb)⟩
      · obtain ⟨o, ho, hk⟩ := hc a ha
        exact ⟨o, by simp [e, ho], fun k b hb => .inl (hk k b hb)⟩
    · have := ha.1; have := ha.2; simp at *; omega

omit [DecidableEq κ] in
/-- Allocating an object whose references point into the region (or to itself). -/
theorem Frame.alloc {h : Heap κ σ} {A : Nat → Prop} (hc : Closed h A) (o : Obj κ σ)
    (ho : ∀ k b, (k, HV.ref b) ∈ o → A b) : Frame h A (h ++ [o]) := by
  refine ⟨by simp, ?_, ?_⟩
  · intro a ha _
    simp [List.getElem?_append_left ha]
  · intro a ha
    rcases ha with ha | ha
    · obtain ⟨o1, ho1, hk⟩ := hc a ha
      exact ⟨o1, by rw [List.getElem?_append_left (hc.lt ha)]; exact ho1, fun k b hb => .inl (hk k b hb)⟩
    · have h1 := ha.1; have h2 := ha.2
      simp at h2
      have : a = h.length := by omega
      subst this
      exact ⟨o, by simp, fun k b hb => .inl (ho k b hb)⟩


/-! ### specifications of the two recursive procedures -/

/-- A copy procedure: allocates only, and what it allocates (on top of an already closed block of fresh
objects starting at `n`) refers to fresh objects only. -/
def CopySpec (g : Heap κ σ → Nat → Except HErr (Heap κ σ × Nat)) : Prop :=
  ∀ (n : Nat) (h : Heap κ σ) (s : Nat) (h' : Heap κ σ) (na : Nat) (B : Nat → Prop),
    n ≤ h.length → Closed h (Fresh n h.length) → Closed h B → (∀ a, B a → a < n) → B s →
    g h s = .ok (h', na) →
    h.length ≤ h'.length ∧ (∀ a, a < h.length → h'[a]? = h[a]?) ∧
    Closed h' (Fresh n h'.length) ∧ Fresh n h'.length na

/-- A merge procedure: a frame on the target's region, for any source region disjoint from it. -/
def MergeSpec (f : Heap κ σ → Nat → Nat → Except HErr (Heap κ σ)) : Prop :=
  ∀ (h : Heap κ σ) (t s : Nat) (h' : Heap κ σ) (A B : Nat → Prop),
    Closed h A → Closed h B → (∀ a, A a → B a → False) → A t → B s → f h t s = .ok h' → Frame h A h'

omit [DecidableEq κ] in
theorem Fresh.mono {n m m' a : Nat} (h : Fresh n m a) (hm : m ≤ m') : Fresh n m' a := ⟨h.1, by have := h.2; omega⟩

omit [DecidableEq κ] in
theorem copyEntries_spec (rec : Heap κ σ → Nat → Except HErr (Heap κ σ × Nat)) (hrec : CopySpec rec) :
    ∀ (o : Obj κ σ) (n : Nat) (h h' : Heap κ σ) (o' : Obj κ σ) (B : Nat → Prop),
    n ≤ h.length → Closed h (Fresh n h.length) → Closed h B → (∀ a, B a → a < n) →
    (∀ k b, (k, HV.ref b) ∈ o → B b) → copyEntries rec h o = .ok (h', o') →
    h.length ≤ h'.length ∧ (∀ a, a < h.length → h'[a]? = h[a]?) ∧
    Closed h' (Fresh n h'.length) ∧ (∀ k b, (k, HV.ref b) ∈ o' → Fresh n h'.length b) := by
  intro o
  induction o with
  | nil =>
    intro n h h' o' B _ hf _ _ _ he
    simp only [copyEntries, Except.ok.injEq, Prod.mk.injEq] at he
    obtain ⟨rfl, rfl⟩ := he
    exact ⟨Nat.le_refl _, fun _ _ => rfl, hf, by simp⟩
  | cons e r ih =>
    intro n h h' o' B hn hf hB hlt ho he
    obtain ⟨k, v⟩ := e
    cases v with
    | ref a =>
      simp only [copyEntries] at he
      cases h1e : rec h a with
      | error e => simp [h1e] at he
      | ok p1 =>
        obtain ⟨h1, a'⟩ := p1
        simp only [h1e] at he
        cases hr : copyEntries rec h1 r with
        | error e => simp [hr] at he
        | ok p =>
          obtain ⟨h2, r'⟩ := p
          simp only [hr, Except.ok.injEq, Prod.mk.injEq] at he
          obtain ⟨rfl, rfl⟩ := he
          obtain ⟨l1, s1, c1, f1⟩ := hrec n h a h1 a' B hn hf hB hlt (ho k a List.mem_cons_self) h1e
          have hB1 : Closed h1 B := hB.of_same fun a ha => s1 a (Nat.lt_of_lt_of_le (hlt a ha) hn)
          obtain ⟨l2, s2, c2, f2⟩ := ih n h1 h2 r' B (Nat.le_trans hn l1) c1 hB1 hlt
            (fun k b hb => ho k b (List.mem_cons_of_mem _ hb)) hr
          refine ⟨Nat.le_trans l1 l2, fun a ha => by rw [s2 a (Nat.lt_of_lt_of_le ha l1), s1 a ha], c2, ?_⟩
          intro k' b hb
          rcases List.mem_cons.mp hb with hb | hb
          · simp only [Prod.mk.injEq, HV.ref.injEq] at hb
            rw [hb.2]; exact f1.mono l2
          · exact f2 k' b hb
    | _ =>
      simp only [copyEntries] at he
      cases hr : copyEntries rec h r with
      | error e => simp [hr] at he
      | ok p =>
        obtain ⟨h2, r'⟩ := p
        simp only [hr, Except.ok.injEq, Prod.mk.injEq] at he
        obtain ⟨rfl, rfl⟩ := he
        obtain ⟨l, sm, cl, rf⟩ := ih n h h2 r' B hn hf hB hlt
          (fun k b hb => ho k b (List.mem_cons_of_mem _ hb)) hr
        refine ⟨l, sm, cl, ?_⟩
        intro k' b hb
        rcases List.mem_cons.mp hb with hb | hb
        · simp at hb
        · exact rf k' b hb

omit [DecidableEq κ] in
theorem deepCopyH_spec : ∀ fuel : Nat, CopySpec (deepCopyH (κ := κ) (σ := σ) fuel)
  | 0 => by intro n h s h' na B _ _ _ _ _ he; simp [deepCopyH] at he
  | fuel + 1 => by
    intro n h s h' na B hn hf hB hlt hs he
    simp only [deepCopyH] at he
    obtain ⟨o, ho, hk⟩ := hB s hs
    simp only [ho] at he
    cases hc : copyEntries (deepCopyH fuel) h o with
    | error e => simp [hc] at he
    | ok p =>
      obtain ⟨h2, o'⟩ := p
      simp only [hc, Except.ok.injEq, Prod.mk.injEq] at he
      obtain ⟨rfl, rfl⟩ := he
      obtain ⟨l, sm, cl, rf⟩ := copyEntries_spec (deepCopyH fuel) (deepCopyH_spec fuel) o n h h2 o' B hn hf hB hlt hk hc
      refine ⟨by simp; omega, ?_, ?_, ?_⟩
      · intro a ha
        rw [List.getElem?_append_left (Nat.lt_of_lt_of_le ha l)]; exact sm a ha
      · intro a ha
        simp only [List.length_append, List.length_cons, List.length_nil] at ha
        by_cases hx : a < h2.length
        · obtain ⟨o1, ho1, hk1⟩ := cl a ⟨ha.1, hx⟩
          refine ⟨o1, by rw [List.getElem?_append_left hx]; exact ho1, fun k b hb => ?_⟩
          exact (hk1 k b hb).mono (by simp)
        · have : a = h2.length := by have := ha.2; omega
          subst this
          exact ⟨o', by simp, fun k b hb => (rf k b hb).mono (by simp)⟩
      · exact ⟨Nat.le_trans hn l, by simp⟩

/-! ### the merge is a frame on the target's region -/

theorem writeKey_frame {h h' : Heap κ σ} {A : Nat → Prop} (hc : Closed h A) {t : Nat} (ht : A t) (k : κ)
    (v : HV σ) (hv : ∀ b, v = .ref b → A b) (he : writeKey h t k v = .ok h') : Frame h A h' := by
  unfold writeKey at he
  obtain ⟨o, ho, hk⟩ := hc t ht
  simp only [ho, Except.ok.injEq] at he
  subst he
  refine Frame.set hc ht _ fun k' b hb => ?_
  rcases mem_oset o k v _ hb with hb | hb
  · exact hk k' b hb
  · simp only [Prod.mk.injEq] at hb; exact hv b hb.2.symm

theorem mergeChildH_frame (recM : Heap κ σ → Nat → Nat → Except HErr (Heap κ σ))
    (recC : Heap κ σ → Nat → Except HErr (Heap κ σ × Nat)) (hM : MergeSpec recM) (hC : CopySpec recC)
    {h h' : Heap κ σ} {A B : Nat → Prop} (hA : Closed h A) (hB : Closed h B)
    (hd : ∀ a, A a → B a → False) {t sa : Nat} (ht : A t) (hs : B sa) (k : κ)
    (he : mergeChildH recM recC true h t k sa = .ok h') : Frame h A h' := by
  unfold mergeChildH at he
  obtain ⟨to, hto, hk⟩ := hA t ht
  simp only [hto] at he
  cases hg : oget to k with
  | none =>
    simp only [hg] at he
    have f0 : Frame h A (h ++ [[]]) := Frame.alloc hA [] (by simp)
    cases hr : recM (h ++ [[]]) h.length sa with
    | error e => simp [hr] at he
    | ok h1 =>
      simp only [hr] at he
      obtain ⟨_, hB0⟩ := f0.other hB hd
      have f1 := hM _ _ _ _ _ B f0.closed hB0 (f0.disjoint hB hd) (.inr ⟨Nat.le_refl _, by simp⟩) hs hr
      have f01 := f0.trans f1
      have hlen : h.length < h1.length := by have := f1.len; simp at this; omega
      exact f01.trans (writeKey_frame f01.closed (.inl ht) k _
        (by intro b hb; cases hb; exact .inr ⟨Nat.le_refl _, hlen⟩) he)
  | some tv =>
    cases tv with
    | ref ta =>
      simp only [hg] at he
      have hta : A ta := hk k ta (oget_mem to k _ hg)
      cases hr : recM h ta sa with
      | error e => simp [hr] at he
      | ok h1 =>
        simp only [hr] at he
        have f1 := hM _ _ _ _ A B hA hB hd hta hs hr
        exact f1.trans (writeKey_frame f1.closed (.inl ht) k _ (by intro b hb; cases hb; exact .inl hta) he)
    | _ =>
      simp only [hg, if_true] at he
      cases hc : recC h sa with
      | error e => simp [hc] at he
      | ok p =>
        obtain ⟨h1, na⟩ := p
        simp only [hc] at he
        obtain ⟨l, sm, cl, fr⟩ := hC h.length h sa h1 na B (Nat.le_refl _)
          (fun a ha => absurd ha.2 (by have := ha.1; omega)) hB (fun a ha => hB.lt ha) hs hc
        have f1 : Frame h A h1 := by
          refine ⟨l, fun a ha _ => sm a ha, ?_⟩
          intro a ha
          rcases ha with ha | ha
          · obtain ⟨o, ho, hko⟩ := hA a ha
            exact ⟨o, by rw [sm a (hA.lt ha)]; exact ho, fun k b hb => .inl (hko k b hb)⟩
          · obtain ⟨o, ho, hko⟩ := cl a ha
            exact ⟨o, ho, fun k b hb => .inr (hko k b hb)⟩
        exact f1.trans (writeKey_frame f1.closed (.inl ht) k _ (by intro b hb; cases hb; exact .inr fr) he)

theorem stepH_frame (recM : Heap κ σ → Nat → Nat → Except HErr (Heap κ σ))
    (recC : Heap κ σ → Nat → Except HErr (Heap κ σ × Nat)) (hM : MergeSpec recM) (hC : CopySpec recC)
    {h h' : Heap κ σ} {A B : Nat → Prop} (hA : Closed h A) (hB : Closed h B)
    (hd : ∀ a, A a → B a → False) {t s : Nat} (ht : A t) (hs : B s) (n : Nat) (k : κ)
    (he : stepH recM recC true t s n h k = .ok h') : Frame h A h' := by
  unfold stepH at he
  obtain ⟨cur, hcur, hkc⟩ := hB s hs
  simp only [hcur] at he
  split at he
  · simp at he
  · cases hg : oget cur k with
    | none => simp [hg] at he
    | some sv =>
      cases sv with
      | ref sa =>
        simp only [hg] at he
        exact mergeChildH_frame recM recC hM hC hA hB hd ht (hkc k sa (oget_mem cur k _ hg)) k he
      | _ =>
        simp only [hg] at he
        obtain ⟨to, hto, hk⟩ := hA t ht
        simp only [hto, Except.ok.injEq] at he
        subst he
        refine Frame.set hA ht _ fun k' b hb => ?_
        rcases mem_assignH to k _ _ hb with hb | hb
        · exact hk k' b hb
        · simp at hb

theorem loopH_frame (recM : Heap κ σ → Nat → Nat → Except HErr (Heap κ σ))
    (recC : Heap κ σ → Nat → Except HErr (Heap κ σ × Nat)) (hM : MergeSpec recM) (hC : CopySpec recC)
    (t s n : Nat) : ∀ (ks : List κ) (h h' : Heap κ σ) (A B : Nat → Prop), Closed h A → Closed h B →
    (∀ a, A a → B a → False) → A t → B s → loopH recM recC true t s n h ks = .ok h' → Frame h A h' := by
  intro ks
  induction ks with
  | nil =>
    intro h h' A B hA _ _ _ _ he
    simp only [loopH] at he
    split at he
    · simp at he
    · split at he
      · simp at he
      · simp only [Except.ok.injEq] at he; subst he; exact Frame.refl hA
  | cons k ks ih =>
    intro h h' A B hA hB hd ht hs he
    simp only [loopH] at he
    cases h1e : stepH recM recC true t s n h k with
    | error e => simp [h1e] at he
    | ok h1 =>
      simp only [h1e] at he
      have f1 := stepH_frame recM recC hM hC hA hB hd ht hs n k h1e
      obtain ⟨_, hB1⟩ := f1.other hB hd
      exact f1.trans (ih h1 h' _ B f1.closed hB1 (f1.disjoint hB hd) (.inl ht) hs he)

/-- **Frame theorem** for the repaired `deep_update`, any recursion bound. -/
theorem mergeH_spec : ∀ fuel : Nat, MergeSpec (mergeH (κ := κ) (σ := σ) true fuel)
  | 0 => by intro h t s h' A B _ _ _ _ _ he; simp [mergeH] at he
  | fuel + 1 => by
    intro h t s h' A B hA hB hd ht hs he
    simp only [mergeH] at he
    obtain ⟨so, hso, _⟩ := hB s hs
    obtain ⟨to, hto, _⟩ := hA t ht
    simp only [hso, hto] at he
    exact loopH_frame _ _ (mergeH_spec fuel) (deepCopyH_spec fuel) t s so.length _ h h' A B hA hB hd ht hs he


theorem mergeAllH_frame (fuel : Nat) (t : Nat) : ∀ (ss : List Nat) (h h' : Heap κ σ) (A B : Nat → Prop),
    Closed h A → Closed h B → (∀ a, A a → B a → False) → A t → (∀ s ∈ ss, B s) →
    mergeAllH true fuel h t ss = .ok h' → Frame h A h'
  | [], h, h', A, B, hA, _, _, _, _, he => by
    simp only [mergeAllH, Except.ok.injEq] at he; subst he; exact Frame.refl hA
  | s :: ss, h, h', A, B, hA, hB, hd, ht, hs, he => by
    simp only [mergeAllH] at he
    cases h1e : mergeH true fuel h t s with
    | error e => simp [h1e] at he
    | ok h1 =>
      simp only [h1e] at he
      have f1 := mergeH_spec fuel h t s h1 A B hA hB hd ht (hs s List.mem_cons_self) h1e
      obtain ⟨_, hB1⟩ := f1.other hB hd
      exact f1.trans (mergeAllH_frame fuel t ss h1 h' _ B f1.closed hB1 (f1.disjoint hB hd) (.inl ht)
        (fun s' h' => hs s' (List.mem_cons_of_mem _ h')) he)

theorem updateAllH_frame (fuel : Nat) (c : Nat) : ∀ (us : List (κ × Nat)) (h h' : Heap κ σ) (A B : Nat → Prop),
    Closed h A → Closed h B → (∀ a, A a → B a → False) → A c → (∀ u ∈ us, B u.2) →
    updateAllH true fuel h c us = .ok h' → Frame h A h'
  | [], h, h', A, B, hA, _, _, _, _, he => by
    simp only [updateAllH, Except.ok.injEq] at he; subst he; exact Frame.refl hA
  | (name, s) :: us, h, h', A, B, hA, hB, hd, hc, hs, he => by
    simp only [updateAllH] at he
    cases h1e : updateSectionH true fuel h c name s with
    | error e => simp [h1e] at he
    | ok h1 =>
      simp only [h1e] at he
      have f1 : Frame h A h1 := mergeChildH_frame _ _ (mergeH_spec fuel) (deepCopyH_spec fuel) hA hB hd hc
        (hs (name, s) List.mem_cons_self) name h1e
      obtain ⟨_, hB1⟩ := f1.other hB hd
      exact f1.trans (updateAllH_frame fuel c us h1 h' _ B f1.closed hB1 (f1.disjoint hB hd) (.inl hc)
        (fun u h' => hs u (List.mem_cons_of_mem _ h')) he)

/-! ### a freshly loaded document is a closed region of new objects -/

omit [DecidableEq κ] in
theorem Closed.fresh_append {n : Nat} {h : Heap κ σ} (o : Obj κ σ) (_hn : n ≤ h.length)
    (hc : Closed h (Fresh n h.length)) (ho : ∀ k b, (k, HV.ref b) ∈ o → Fresh n h.length b) :
    Closed (h ++ [o]) (Fresh n (h ++ [o]).length) := by
  intro a ha
  simp only [List.length_append, List.length_cons, List.length_nil] at ha ⊢
  by_cases hx : a < h.length
  · obtain ⟨o1, ho1, hk1⟩ := hc a ⟨ha.1, hx⟩
    exact ⟨o1, by rw [List.getElem?_append_left hx]; exact ho1, fun k b hb => (hk1 k b hb).mono (by omega)⟩
  · have : a = h.length := by have := ha.2; omega
    subst this
    exact ⟨o, by simp, fun k b hb => (ho k b hb).mono (by omega)⟩

mutual
theorem allocV_spec : ∀ (v : V κ σ) (n : Nat) (h : Heap κ σ), n ≤ h.length → Closed h (Fresh n h.length) →
    h.length ≤ (allocV h v).1.length ∧ (∀ a, a < h.length → (allocV h v).1[a]? = h[a]?) ∧
    Closed (allocV h v).1 (Fresh n (allocV h v).1.length) ∧
    (∀ b, (allocV h v).2 = .ref b → Fresh n (allocV h v).1.length b)
  | .scalar x, n, h, _, hc => by simp [allocV, hc]
  | .dflt x, n, h, _, hc => by simp [allocV, hc]
  | .list x, n, h, _, hc => by simp [allocV, hc]
  | .map m, n, h, hn, hc => by
    obtain ⟨l, sm, cl, rf⟩ := allocM_spec m n h hn hc
    simp only [allocV]
    refine ⟨by simp; omega, ?_, Closed.fresh_append _ (Nat.le_trans hn l) cl rf, ?_⟩
    · intro a ha
      rw [List.getElem?_append_left (Nat.lt_of_lt_of_le ha l)]; exact sm a ha
    · intro b hb
      simp only [HV.ref.injEq] at hb
      subst hb
      exact ⟨Nat.le_trans hn l, by simp⟩
theorem allocM_spec : ∀ (m : M κ σ) (n : Nat) (h : Heap κ σ), n ≤ h.length → Closed h (Fresh n h.length) →
    h.length ≤ (allocV.allocM h m).1.length ∧ (∀ a, a < h.length → (allocV.allocM h m).1[a]? = h[a]?) ∧
    Closed (allocV.allocM h m).1 (Fresh n (allocV.allocM h m).1.length) ∧
    (∀ k b, (k, HV.ref b) ∈ (allocV.allocM h m).2 → Fresh n (allocV.allocM h m).1.length b)
  | .nil, n, h, _, hc => by simp [allocV.allocM, hc]
  | .cons k v rest, n, h, hn, hc => by
    obtain ⟨l1, s1, c1, f1⟩ := allocV_spec v n h hn hc
    obtain ⟨l2, s2, c2, f2⟩ := allocM_spec rest n (allocV h v).1 (Nat.le_trans hn l1) c1
    simp only [allocV.allocM]
    refine ⟨Nat.le_trans l1 l2, fun a ha => by rw [s2 a (Nat.lt_of_lt_of_le ha l1), s1 a ha], c2, ?_⟩
    intro k' b hb
    rcases List.mem_cons.mp hb with hb | hb
    · simp only [Prod.mk.injEq] at hb
      exact (f1 b hb.2.symm).mono l2
    · exact f2 k' b hb
end

/-! ### reading a closed region back gives the same value when its objects are untouched -/

omit [DecidableEq κ] in
theorem foldr_unfoldStep_congr (r r' : HV σ → Option (V κ σ)) (i : Option (M κ σ)) :
    ∀ (l : List (κ × HV σ)), (∀ e ∈ l, r e.2 = r' e.2) →
      l.foldr (unfoldStep r) i = l.foldr (unfoldStep r') i
  | [], _ => rfl
  | e :: l, h => by
    simp only [List.foldr_cons, unfoldStep]
    rw [foldr_unfoldStep_congr r r' i l (fun e' he' => h e' (List.mem_cons_of_mem _ he')),
      h e List.mem_cons_self]

omit [DecidableEq κ] in
theorem unfoldH_congr {h h' : Heap κ σ} {B : Nat → Prop} (hB : Closed h B)
    (hs : ∀ a, B a → h'[a]? = h[a]?) : ∀ (fuel : Nat) (v : HV σ), (∀ b, v = .ref b → B b) →
    unfoldH fuel h' v = unfoldH fuel h v
  | 0, v, _ => by cases v <;> simp [unfoldH]
  | fuel + 1, v, hv => by
    cases v with
    | ref a =>
      have ha := hv a rfl
      obtain ⟨o, ho, hk⟩ := hB a ha
      simp only [unfoldH, hs a ha, ho]
      congr 1
      apply foldr_unfoldStep_congr
      intro e he
      apply unfoldH_congr hB hs fuel
      intro b hb
      exact hk e.1 b (by rw [← hb]; exact he)
    | _ => simp [unfoldH]

end NunavutVerif.Config
